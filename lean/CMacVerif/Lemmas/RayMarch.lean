import CMacVerif.Model.RayMarch
import Mathlib.Tactic.Linarith
import Mathlib.Tactic.FieldSimp
import Mathlib.Tactic.Ring
import Mathlib.Tactic.NormNum.OfScientific
import Mathlib.Tactic.Positivity
import Mathlib.Tactic.Push
import Mathlib.Algebra.Order.Field.Basic
/-!
# Lemmas for C02 (ray march through one subgrid), over any linear ordered field `K`

Layout: literals and casts; one axis (wall distance, new position, index bump); one loop pass
(`leave_spec`, `stop_spec`); the loop (`march`) with its invariants; entry and exit tables.
-/
set_option linter.unusedSectionVars false
set_option linter.unusedVariables false
set_option linter.unreachableTactic false
set_option linter.unusedTactic false
set_option linter.unnecessarySeqFocus false

namespace CMacVerif.RayMarch
variable {K : Type} [Field K] [LinearOrder K] [IsStrictOrderedRing K]

/-! ### literals, casts, vectors -/

theorem lit0 : (0.0 : K) = 0 := by norm_num
theorem lit1 : (1.0 : K) = 1 := by norm_num

theorem ofNat_eq (k : Nat) : (ofNat k : K) = (k : K) := by
  induction k with
  | zero => simp [ofNat, lit0]
  | succ k ih => simp [ofNat, ih, lit1]

theorem ofIdx_eq (i : Int) (h : 0 ≤ i) : (ofIdx i : K) = (i : K) := by
  unfold ofIdx
  rw [ofNat_eq, ← Int.cast_natCast, Int.toNat_of_nonneg h]

@[simp] theorem V3.get_of {β : Type} (f : Ax → β) (a : Ax) : (V3.of f).get a = f a := by
  cases a <;> rfl

theorem amin_eq (a b : K) : amin a b = min a b := by
  unfold amin; split_ifs with h
  · exact (min_eq_right h.le).symm
  · exact (min_eq_left (not_lt.mp h)).symm

theorem lmin3_le (l : V3 K) (a : Ax) : lmin3 l ≤ l.get a := by
  unfold lmin3; simp only [amin_eq]
  cases a <;> simp [V3.get]

theorem lmin3_mem (l : V3 K) : ∃ a, lmin3 l = l.get a := by
  unfold lmin3; simp only [amin_eq]
  rcases min_choice l.x (min l.y l.z) with h | h
  · exact ⟨.x, h⟩
  · rcases min_choice l.y l.z with h2 | h2
    · exact ⟨.y, by rw [h, h2]; rfl⟩
    · exact ⟨.z, by rw [h, h2]; rfl⟩

/-! ### one axis: wall distance, new position, index bump -/

theorem wallDist_pos {d : K} (hd : 0 < d) (lo hi p : K) :
    wallDist d (1.0 / d) lo hi p = (hi - p) / d := by
  unfold wallDist; rw [lit0, lit1, if_pos hd]; ring

theorem wallDist_neg {d : K} (hd : d < 0) (lo hi p : K) :
    wallDist d (1.0 / d) lo hi p = (lo - p) / d := by
  unfold wallDist; rw [lit0, lit1, if_neg (not_lt.mpr hd.le), if_pos hd]; ring

theorem wallDist_zero (id lo hi p : K) :
    wallDist (0 : K) id lo hi p = dblMax := by
  unfold wallDist; rw [lit0]; simp

/-- the wall the packet is heading for -/
def wall (d lo hi : K) : K := if 0 < d then hi else lo

theorem wallDist_mul {d : K} (hd : d ≠ 0) (lo hi p : K) :
    wallDist d (1.0 / d) lo hi p * d = wall d lo hi - p := by
  unfold wall
  rcases lt_or_gt_of_ne hd with h | h
  · rw [wallDist_neg h, if_neg (not_lt.mpr h.le)]; field_simp
  · rw [wallDist_pos h, if_pos h]; field_simp

theorem wallDist_nonneg {d : K} (hd : d ≠ 0) {lo hi p : K} (h1 : lo ≤ p) (h2 : p ≤ hi) :
    0 ≤ wallDist d (1.0 / d) lo hi p := by
  rcases lt_or_gt_of_ne hd with h | h
  · rw [wallDist_neg h]; exact div_nonneg_of_nonpos (by linarith) h.le
  · rw [wallDist_pos h]; exact div_nonneg (by linarith) h.le

theorem wallDist_le {d : K} (hd : d ≠ 0) {lo hi p : K} (h1 : lo ≤ p) (h2 : p ≤ hi) :
    wallDist d (1.0 / d) lo hi p ≤ (hi - lo) / |d| := by
  rcases lt_or_gt_of_ne hd with h | h
  · rw [wallDist_neg h, abs_of_neg h]
    have e : (lo - p) / d = (p - lo) / (-d) := by
      rw [div_eq_div_iff h.ne (neg_ne_zero.mpr h.ne)]; ring
    rw [e]; exact div_le_div_of_nonneg_right (by linarith) (by linarith)
  · rw [wallDist_pos h, abs_of_pos h]
    exact div_le_div_of_nonneg_right (by linarith) h.le

theorem newPosAxis_eq {d lo hi p l lam : K}
    (hl : l = wallDist d (1.0 / d) lo hi p) (hne : d = 0 → l ≠ lam) :
    newPosAxis d l lam lo hi p = p + lam * d := by
  unfold newPosAxis
  by_cases h : l = lam
  · have hd : d ≠ 0 := fun h0 => hne h0 h
    have hw := wallDist_mul hd lo hi p
    rw [← hl, h] at hw
    simp only [h, beq_self_eq_true, if_true, lit0]
    unfold wall at hw; rw [hw]; ring
  · simp [h]

theorem newPosAxis_bounds {d lo hi p l lam : K} (h1 : lo ≤ p) (h2 : p ≤ hi)
    (hl : l = wallDist d (1.0 / d) lo hi p) (h0 : 0 ≤ lam) (hle : d ≠ 0 → lam ≤ l) :
    lo ≤ p + lam * d ∧ p + lam * d ≤ hi := by
  rcases lt_trichotomy d 0 with h | h | h
  · have hw := wallDist_mul h.ne lo hi p
    rw [← hl] at hw; unfold wall at hw; rw [if_neg (not_lt.mpr h.le)] at hw
    have := hle h.ne
    constructor
    · nlinarith
    · nlinarith
  · subst h; simp [h1, h2]
  · have hw := wallDist_mul h.ne' lo hi p
    rw [← hl] at hw; unfold wall at hw; rw [if_pos h] at hw
    have := hle h.ne'
    constructor
    · nlinarith
    · nlinarith

/-- remaining index steps along one axis in the direction of travel -/
def rem (n : Nat) (d : K) (i : Int) : Int :=
  if 0 < d then (n : Int) - i else if d < 0 then i + 1 else 0

theorem bumpAxis_eq (d l lam : K) (i : Int) :
    bumpAxis d l lam i = if l = lam then (if 0 < d then i + 1 else i - 1) else i := by
  unfold bumpAxis; simp [lit0]

/-- everything one axis contributes to a "leave" step -/
theorem axis_leave {cs d p l lam : K} {i : Int} {n : Nat} (hcs : 0 < cs) (hi0 : 0 ≤ i)
    (hin : i < (n : Int)) (h1 : (i : K) * cs ≤ p) (h2 : p ≤ ((i : K) + 1) * cs)
    (hl : l = wallDist d (1.0 / d) ((i : K) * cs) (((i : K) + 1) * cs) p)
    (h0 : 0 ≤ lam) (hle : lam ≤ l) (hne : d = 0 → l ≠ lam) :
    (((bumpAxis d l lam i : Int) : K) * cs ≤ p + lam * d ∧
        p + lam * d ≤ (((bumpAxis d l lam i : Int) : K) + 1) * cs)
      ∧ (-1 ≤ bumpAxis d l lam i ∧ bumpAxis d l lam i ≤ (n : Int))
      ∧ (bumpAxis d l lam i < 0 → d < 0 ∧ p + lam * d = 0)
      ∧ ((n : Int) ≤ bumpAxis d l lam i → 0 < d ∧ p + lam * d = (n : K) * cs)
      ∧ (0 ≤ bumpAxis d l lam i → bumpAxis d l lam i < (n : Int) →
          (0 < d → p + lam * d < (n : K) * cs) ∧ (d < 0 → 0 < p + lam * d))
      ∧ (rem n d (bumpAxis d l lam i) = if l = lam then rem n d i - 1 else rem n d i) := by
  have hiK : (0 : K) ≤ (i : K) := by exact_mod_cast hi0
  have hinK : (i : K) + 1 ≤ (n : K) := by
    have : i + 1 ≤ (n : Int) := by omega
    exact_mod_cast this
  have htop : ((i : K) + 1) * cs ≤ (n : K) * cs := mul_le_mul_of_nonneg_right hinK hcs.le
  have hlo0 : 0 ≤ (i : K) * cs := mul_nonneg hiK hcs.le
  by_cases heq : l = lam
  · have hd : d ≠ 0 := fun h => hne h heq
    have hw := wallDist_mul hd ((i : K) * cs) (((i : K) + 1) * cs) p
    rw [← hl, heq] at hw
    rcases lt_or_gt_of_ne hd with hneg | hpos
    · have hnp : ¬ (0 < d) := not_lt.mpr hneg.le
      unfold wall at hw; rw [if_neg hnp] at hw
      have hp : p + lam * d = (i : K) * cs := by linarith
      have hb : bumpAxis d l lam i = i - 1 := by rw [bumpAxis_eq, if_pos heq, if_neg hnp]
      rw [hb, hp]
      refine ⟨⟨?_, ?_⟩, ⟨by omega, by omega⟩, ?_, ?_, ?_, ?_⟩
      · push_cast; nlinarith
      · push_cast; linarith
      · intro hlt
        have : i = 0 := by omega
        subst this; exact ⟨hneg, by simp⟩
      · intro hge; omega
      · intro h0' _
        refine ⟨fun h => absurd h hnp, fun _ => ?_⟩
        have : (1 : K) ≤ (i : K) := by
          have : (1 : Int) ≤ i := by omega
          exact_mod_cast this
        nlinarith
      · rw [if_pos heq]; simp only [rem, if_neg hnp, if_pos hneg]; ring
    · unfold wall at hw; rw [if_pos hpos] at hw
      have hp : p + lam * d = ((i : K) + 1) * cs := by linarith
      have hnn : ¬ (d < 0) := not_lt.mpr hpos.le
      have hb : bumpAxis d l lam i = i + 1 := by rw [bumpAxis_eq, if_pos heq, if_pos hpos]
      rw [hb, hp]
      refine ⟨⟨?_, ?_⟩, ⟨by omega, by omega⟩, ?_, ?_, ?_, ?_⟩
      · push_cast; linarith
      · push_cast; nlinarith
      · intro hlt; omega
      · intro hge
        have : i + 1 = (n : Int) := by omega
        refine ⟨hpos, ?_⟩
        have : (i : K) + 1 = (n : K) := by exact_mod_cast this
        rw [this]
      · intro _ hlt
        refine ⟨fun _ => ?_, fun h => absurd h hnn⟩
        have : (i : K) + 1 + 1 ≤ (n : K) := by
          have : i + 1 + 1 ≤ (n : Int) := by omega
          exact_mod_cast this
        nlinarith
      · rw [if_pos heq]; simp only [rem, if_pos hpos]; ring
  · have hb : bumpAxis d l lam i = i := by rw [bumpAxis_eq, if_neg heq]
    rw [hb, if_neg heq]
    have hlt : lam < l := lt_of_le_of_ne hle (Ne.symm heq)
    rcases lt_trichotomy d 0 with hneg | hz | hpos
    · have hw := wallDist_mul hneg.ne ((i : K) * cs) (((i : K) + 1) * cs) p
      rw [← hl] at hw; unfold wall at hw; rw [if_neg (not_lt.mpr hneg.le)] at hw
      have hgt : (i : K) * cs < p + lam * d := by nlinarith
      have hle' : p + lam * d ≤ p := by nlinarith
      refine ⟨⟨hgt.le, by linarith⟩, ⟨by omega, by omega⟩, fun h => by omega, fun h => by omega, ?_, by first | rfl | trivial⟩
      intro _ _
      exact ⟨fun h => absurd h (not_lt.mpr hneg.le), fun _ => by linarith⟩
    · subst hz
      simp only [mul_zero, add_zero]
      refine ⟨⟨h1, h2⟩, ⟨by omega, by omega⟩, fun h => by omega, fun h => by omega, ?_, by first | rfl | trivial⟩
      intro _ _
      exact ⟨fun h => absurd h (lt_irrefl _), fun h => absurd h (lt_irrefl _)⟩
    · have hw := wallDist_mul hpos.ne' ((i : K) * cs) (((i : K) + 1) * cs) p
      rw [← hl] at hw; unfold wall at hw; rw [if_pos hpos] at hw
      have hlt' : p + lam * d < ((i : K) + 1) * cs := by nlinarith
      have hge' : p ≤ p + lam * d := by nlinarith
      refine ⟨⟨by linarith, hlt'.le⟩, ⟨by omega, by omega⟩, fun h => by omega, fun h => by omega, ?_, by first | rfl | trivial⟩
      intro _ _
      exact ⟨fun _ => by linarith, fun h => absurd h (not_lt.mpr hpos.le)⟩

/-! ### one pass through the loop body -/

/-- opacity of a cell for this packet: `n (σ_H x_H + σ_He x_He)` -/
def kappa (c : Cell K) (ph : Photon K) : K := c.n * (ph.sigH * c.xH + ph.sigHe * c.xHe)

theorem opticalDepth_eq (c : Cell K) (ph : Photon K) (dist : K) :
    opticalDepth c ph dist = kappa c ph * dist := by
  unfold opticalDepth kappa; ring

/-- standing assumptions on block, cell contents and packet -/
structure Valid (b : Block K) (cells : Nat → Cell K) (ph : Photon K) : Prop where
  cs_pos : ∀ a, 0 < b.cs.get a
  n_pos : ∀ a, 0 < b.n.get a
  moving : ∃ a, ph.dir.get a ≠ 0
  big : ∀ a, ph.dir.get a ≠ 0 → b.cs.get a < dblMax * |ph.dir.get a|
  kappa_nonneg : ∀ c, 0 ≤ kappa (cells c) ph
  tau_pos : 0 < ph.tau

def InRange (n : V3 Nat) (i : V3 Int) : Prop := ∀ a, 0 ≤ i.get a ∧ i.get a < (n.get a : Int)

theorem inside_iff (n : V3 Nat) (i : V3 Int) : inside n i = true ↔ InRange n i := by
  unfold inside InRange
  simp only [Bool.and_eq_true, decide_eq_true_eq, ge_iff_le]
  constructor
  · rintro ⟨⟨⟨⟨⟨h1, h2⟩, h3⟩, h4⟩, h5⟩, h6⟩ a
    cases a <;> simp [V3.get, *]
  · intro h
    have hx := h .x; have hy := h .y; have hz := h .z
    simp only [V3.get] at hx hy hz
    exact ⟨⟨⟨⟨⟨hx.2, hx.1⟩, hy.2⟩, hy.1⟩, hz.2⟩, hz.1⟩

/-- position inside the closed cell named by the index (index may be `-1` or `n`) -/
def InCell (b : Block K) (s : St K) : Prop :=
  ∀ a, (s.idx.get a : K) * b.cs.get a ≤ s.pos.get a ∧
    s.pos.get a ≤ ((s.idx.get a : K) + 1) * b.cs.get a

def Range (b : Block K) (s : St K) : Prop :=
  ∀ a, -1 ≤ s.idx.get a ∧ s.idx.get a ≤ (b.n.get a : Int)

/-- an index that left the range did so through the face the packet travels to, and the
position sits on that face -/
def OutFaces (b : Block K) (ph : Photon K) (s : St K) : Prop :=
  ∀ a, (s.idx.get a < 0 → ph.dir.get a < 0 ∧ s.pos.get a = 0) ∧
    ((b.n.get a : Int) ≤ s.idx.get a → 0 < ph.dir.get a ∧ s.pos.get a = top b a)

/-- on an axis whose index is still in range the packet is not on the block face it travels to -/
def Strict (b : Block K) (ph : Photon K) (s : St K) : Prop :=
  ∀ a, 0 ≤ s.idx.get a → s.idx.get a < (b.n.get a : Int) →
    (0 < ph.dir.get a → s.pos.get a < top b a) ∧ (ph.dir.get a < 0 → 0 < s.pos.get a)

/-- number of index bumps the packet can still make before it must be outside -/
def phi (b : Block K) (ph : Photon K) (s : St K) : Int :=
  rem (b.n.get .x) (ph.dir.get .x) (s.idx.get .x) + rem (b.n.get .y) (ph.dir.get .y) (s.idx.get .y)
    + rem (b.n.get .z) (ph.dir.get .z) (s.idx.get .z)

theorem top_eq (b : Block K) (a : Ax) : top b a = (b.n.get a : K) * b.cs.get a := by
  unfold top; rw [ofNat_eq]

theorem cellLo_eq (b : Block K) (i : V3 Int) (a : Ax) (h : 0 ≤ i.get a) :
    cellLo b i a = (i.get a : K) * b.cs.get a := by
  unfold cellLo; rw [ofIdx_eq _ h]

theorem cellHi_eq (b : Block K) (i : V3 Int) (a : Ax) (h : 0 ≤ i.get a) :
    cellHi b i a = ((i.get a : K) + 1) * b.cs.get a := by
  unfold cellHi; rw [ofIdx_eq _ h, lit1]

section geo
variable (b : Block K) (cells : Nat → Cell K) (ph : Photon K) (s : St K)

theorem geo_l (a : Ax) : (geo b cells ph s).l.get a =
    wallDist (ph.dir.get a) (1.0 / ph.dir.get a) (cellLo b s.idx a) (cellHi b s.idx a) (s.pos.get a) := by
  simp [geo, invDir]

theorem geo_lo (a : Ax) : (geo b cells ph s).lo.get a = cellLo b s.idx a := by simp [geo]
theorem geo_hi (a : Ax) : (geo b cells ph s).hi.get a = cellHi b s.idx a := by simp [geo]
theorem geo_lmin : (geo b cells ph s).lmin = lmin3 (geo b cells ph s).l := rfl
theorem geo_ac : (geo b cells ph s).ac = oneIndex b.n s.idx := rfl
theorem geo_tau : (geo b cells ph s).tau =
    kappa (cells (oneIndex b.n s.idx).toNat) ph * (geo b cells ph s).lmin := by
  simp only [geo, opticalDepth_eq]
theorem geo_td : (geo b cells ph s).td = s.tauDone + (geo b cells ph s).tau := rfl

theorem dblMax_pos (hv : Valid b cells ph) : (0 : K) < dblMax := by
  obtain ⟨a, ha⟩ := hv.moving
  have h1 := hv.big a ha
  have h2 := hv.cs_pos a
  have h3 : 0 < |ph.dir.get a| := abs_pos.mpr ha
  by_contra hneg
  have : (dblMax : K) * |ph.dir.get a| ≤ 0 := mul_nonpos_of_nonpos_of_nonneg (not_lt.mp hneg) h3.le
  linarith

/-- wall distance of axis `a` written with the index cast into `K` -/
theorem geo_l' (hr : InRange b.n s.idx) (a : Ax) : (geo b cells ph s).l.get a =
    wallDist (ph.dir.get a) (1.0 / ph.dir.get a) ((s.idx.get a : K) * b.cs.get a)
      (((s.idx.get a : K) + 1) * b.cs.get a) (s.pos.get a) := by
  rw [geo_l, cellLo_eq _ _ _ (hr a).1, cellHi_eq _ _ _ (hr a).1]

theorem lmin_facts (hv : Valid b cells ph) (hr : InRange b.n s.idx) (hc : InCell b s) :
    0 ≤ (geo b cells ph s).lmin ∧ (geo b cells ph s).lmin < dblMax
      ∧ (∀ a, (geo b cells ph s).lmin ≤ (geo b cells ph s).l.get a)
      ∧ (∃ a, ph.dir.get a ≠ 0 ∧ (geo b cells ph s).l.get a = (geo b cells ph s).lmin)
      ∧ (∀ a, ph.dir.get a = 0 → (geo b cells ph s).l.get a ≠ (geo b cells ph s).lmin) := by
  have hle : ∀ a, (geo b cells ph s).lmin ≤ (geo b cells ph s).l.get a := fun a => by
    rw [geo_lmin]; exact lmin3_le _ a
  have hstat : ∀ a, ph.dir.get a = 0 → (geo b cells ph s).l.get a = dblMax := fun a ha => by
    rw [geo_l, ha]; exact wallDist_zero _ _ _ _
  have hmov : ∀ a, ph.dir.get a ≠ 0 →
      0 ≤ (geo b cells ph s).l.get a ∧ (geo b cells ph s).l.get a < dblMax := fun a ha => by
    rw [geo_l' b cells ph s hr a]
    refine ⟨wallDist_nonneg ha (hc a).1 (hc a).2, ?_⟩
    have h := wallDist_le ha (hc a).1 (hc a).2
    have hb := hv.big a ha
    have h3 : 0 < |ph.dir.get a| := abs_pos.mpr ha
    have : ((s.idx.get a : K) + 1) * b.cs.get a - (s.idx.get a : K) * b.cs.get a = b.cs.get a := by ring
    rw [this] at h
    exact lt_of_le_of_lt h ((div_lt_iff₀ h3).mpr hb)
  obtain ⟨a0, ha0⟩ := hv.moving
  have hlt : (geo b cells ph s).lmin < dblMax := lt_of_le_of_lt (hle a0) (hmov a0 ha0).2
  obtain ⟨a1, ha1⟩ := lmin3_mem (geo b cells ph s).l
  rw [← geo_lmin] at ha1
  have hm1 : ph.dir.get a1 ≠ 0 := fun h => by
    have := hstat a1 h; rw [← ha1] at this; exact absurd this hlt.ne
  refine ⟨?_, hlt, hle, ⟨a1, hm1, ha1.symm⟩, ?_⟩
  · rw [ha1]; exact (hmov a1 hm1).1
  · intro a ha; rw [hstat a ha]; exact hlt.ne'

end geo
section pass
variable (b : Block K) (cells : Nat → Cell K) (ph : Photon K) (s : St K)

/-- the per-axis facts of a "leave" pass, assembled for the state -/
theorem leave_axis (hv : Valid b cells ph) (hr : InRange b.n s.idx) (hc : InCell b s) (a : Ax) :
    let g := geo b cells ph s
    let s' := leave ph s g
    s'.pos.get a = s.pos.get a + g.lmin * ph.dir.get a
      ∧ s'.idx.get a = bumpAxis (ph.dir.get a) (g.l.get a) g.lmin (s.idx.get a)
      ∧ ((s.idx.get a : K) * b.cs.get a ≤ s'.pos.get a ∧
          s'.pos.get a ≤ ((s.idx.get a : K) + 1) * b.cs.get a) := by
  intro g s'
  obtain ⟨h0, hlt, hle, hex, hst⟩ := lmin_facts b cells ph s hv hr hc
  have hl := geo_l' b cells ph s hr a
  have hpos : s'.pos.get a = s.pos.get a + g.lmin * ph.dir.get a := by
    show (newPos ph g g.lmin s.pos).get a = _
    unfold newPos; rw [V3.get_of]
    have e1 : g.lo.get a = (s.idx.get a : K) * b.cs.get a := by
      rw [geo_lo, cellLo_eq _ _ _ (hr a).1]
    have e2 : g.hi.get a = ((s.idx.get a : K) + 1) * b.cs.get a := by
      rw [geo_hi, cellHi_eq _ _ _ (hr a).1]
    rw [e1, e2]
    exact newPosAxis_eq hl (hst a)
  refine ⟨hpos, by show (V3.of _).get a = _; rw [V3.get_of], ?_⟩
  rw [hpos]
  exact newPosAxis_bounds (hc a).1 (hc a).2 hl h0 (fun _ => hle a)

theorem leave_spec (hv : Valid b cells ph) (hr : InRange b.n s.idx) (hc : InCell b s) :
    let g := geo b cells ph s
    let s' := leave ph s g
    InCell b s' ∧ Range b s' ∧ OutFaces b ph s' ∧ Strict b ph s' ∧ phi b ph s' + 1 ≤ phi b ph s := by
  intro g s'
  obtain ⟨h0, hlt, hle, hex, hst⟩ := lmin_facts b cells ph s hv hr hc
  have hax : ∀ a, _ := fun a =>
    axis_leave (hv.cs_pos a) (hr a).1 (hr a).2 (hc a).1 (hc a).2 (geo_l' b cells ph s hr a) h0 (hle a) (hst a)
  have hp : ∀ a, s'.pos.get a = s.pos.get a + g.lmin * ph.dir.get a :=
    fun a => (leave_axis b cells ph s hv hr hc a).1
  have hi : ∀ a, s'.idx.get a = bumpAxis (ph.dir.get a) (g.l.get a) g.lmin (s.idx.get a) :=
    fun a => (leave_axis b cells ph s hv hr hc a).2.1
  refine ⟨fun a => ?_, fun a => ?_, fun a => ?_, fun a => ?_, ?_⟩
  · rw [hp a, hi a]; exact (hax a).1
  · rw [hi a]; exact (hax a).2.1
  · rw [hp a, hi a, top_eq]; exact ⟨(hax a).2.2.1, (hax a).2.2.2.1⟩
  · rw [hp a, hi a, top_eq]; exact (hax a).2.2.2.2.1
  · have hrem : ∀ a, rem (b.n.get a) (ph.dir.get a) (s'.idx.get a) =
        if g.l.get a = g.lmin then rem (b.n.get a) (ph.dir.get a) (s.idx.get a) - 1
        else rem (b.n.get a) (ph.dir.get a) (s.idx.get a) := fun a => by
      rw [hi a]; exact (hax a).2.2.2.2.2
    unfold phi
    rw [hrem .x, hrem .y, hrem .z]
    obtain ⟨a, _, ha⟩ := hex
    have ha' : g.l.get a = g.lmin := ha
    cases a
    · rw [if_pos ha']; split_ifs <;> omega
    · rw [if_pos ha']; split_ifs <;> omega
    · rw [if_pos ha']; split_ifs <;> omega

theorem leave_tau :
    (leave ph s (geo b cells ph s)).tauDone =
      s.tauDone + kappa (cells (oneIndex b.n s.idx).toNat) ph * (geo b cells ph s).lmin := by
  show (geo b cells ph s).td = _
  rw [geo_td, geo_tau]

theorem leave_out :
    (leave ph s (geo b cells ph s)).out =
      visit ph s.idx (oneIndex b.n s.idx) (geo b cells ph s).lmin :: s.out := rfl

end pass
section pass
variable (b : Block K) (cells : Nat → Cell K) (ph : Photon K) (s : St K)

/-- path handed to the counters in the "target reached" branch -/
def stopPath (ph : Photon K) (g : Geo K) : K := g.lmin * (1.0 - (g.td - ph.tau) / g.tau)

theorem stop_facts (hv : Valid b cells ph) (hr : InRange b.n s.idx) (hc : InCell b s)
    (hrun : s.tauDone < ph.tau) (hreach : ph.tau ≤ (geo b cells ph s).td) :
    0 ≤ stopPath ph (geo b cells ph s) ∧ stopPath ph (geo b cells ph s) ≤ (geo b cells ph s).lmin
      ∧ kappa (cells (oneIndex b.n s.idx).toNat) ph * stopPath ph (geo b cells ph s)
          = ph.tau - s.tauDone := by
  obtain ⟨h0, hlt, hle, hex, hst⟩ := lmin_facts b cells ph s hv hr hc
  have htd := geo_td b cells ph s
  have htau := geo_tau b cells ph s
  have hpos : 0 < (geo b cells ph s).tau := by linarith
  have hc0 : 0 ≤ ((geo b cells ph s).td - ph.tau) / (geo b cells ph s).tau :=
    div_nonneg (by linarith) hpos.le
  have hc1 : ((geo b cells ph s).td - ph.tau) / (geo b cells ph s).tau < 1 := by
    rw [div_lt_one hpos]; linarith
  unfold stopPath
  rw [lit1]
  refine ⟨mul_nonneg h0 (by linarith), ?_, ?_⟩
  · calc (geo b cells ph s).lmin * (1 - ((geo b cells ph s).td - ph.tau) / (geo b cells ph s).tau)
        ≤ (geo b cells ph s).lmin * 1 := mul_le_mul_of_nonneg_left (by linarith) h0
      _ = (geo b cells ph s).lmin := mul_one _
  · rw [← mul_assoc, ← htau]
    field_simp
    rw [htd]; ring

theorem stop_axis (hv : Valid b cells ph) (hr : InRange b.n s.idx) (hc : InCell b s)
    (hrun : s.tauDone < ph.tau) (hreach : ph.tau ≤ (geo b cells ph s).td) (a : Ax) :
    (stop ph s (geo b cells ph s)).pos.get a
        = s.pos.get a + stopPath ph (geo b cells ph s) * ph.dir.get a
      ∧ ((s.idx.get a : K) * b.cs.get a ≤ (stop ph s (geo b cells ph s)).pos.get a ∧
          (stop ph s (geo b cells ph s)).pos.get a ≤ ((s.idx.get a : K) + 1) * b.cs.get a) := by
  obtain ⟨h0, hlt, hle, hex, hst⟩ := lmin_facts b cells ph s hv hr hc
  obtain ⟨hs0, hs1, _⟩ := stop_facts b cells ph s hv hr hc hrun hreach
  have hl := geo_l' b cells ph s hr a
  have hpos : (stop ph s (geo b cells ph s)).pos.get a
      = s.pos.get a + stopPath ph (geo b cells ph s) * ph.dir.get a := by
    show (newPos ph (geo b cells ph s) (stopPath ph (geo b cells ph s)) s.pos).get a = _
    unfold newPos; rw [V3.get_of]
    have e1 : (geo b cells ph s).lo.get a = (s.idx.get a : K) * b.cs.get a := by
      rw [geo_lo, cellLo_eq _ _ _ (hr a).1]
    have e2 : (geo b cells ph s).hi.get a = ((s.idx.get a : K) + 1) * b.cs.get a := by
      rw [geo_hi, cellHi_eq _ _ _ (hr a).1]
    rw [e1, e2]
    refine newPosAxis_eq hl (fun hd => ?_)
    have := hst a hd
    intro heq
    have h2 : (geo b cells ph s).lmin ≤ (geo b cells ph s).l.get a := hle a
    have h3 : (geo b cells ph s).l.get a = dblMax := by
      rw [geo_l, hd]; exact wallDist_zero _ _ _ _
    rw [h3] at heq
    linarith
  refine ⟨hpos, ?_⟩
  rw [hpos]
  exact newPosAxis_bounds (hc a).1 (hc a).2 hl hs0 (fun _ => le_trans hs1 (hle a))

theorem stop_idx : (stop ph s (geo b cells ph s)).idx = s.idx := rfl
theorem stop_tau : (stop ph s (geo b cells ph s)).tauDone = (geo b cells ph s).td := rfl
theorem stop_out : (stop ph s (geo b cells ph s)).out =
    visit ph s.idx (oneIndex b.n s.idx) (stopPath ph (geo b cells ph s)) :: s.out := rfl

end pass
/-! ### the loop -/

def pathSum (vs : List (Visit K)) : K := (vs.map (·.path)).sum
def tauSum (cells : Nat → Cell K) (ph : Photon K) (vs : List (Visit K)) : K :=
  (vs.map fun v => kappa (cells v.cell.toNat) ph * v.path).sum

@[simp] theorem pathSum_nil : pathSum ([] : List (Visit K)) = 0 := rfl
@[simp] theorem pathSum_cons (v : Visit K) (vs : List (Visit K)) :
    pathSum (v :: vs) = v.path + pathSum vs := by simp [pathSum]
@[simp] theorem tauSum_nil (cells : Nat → Cell K) (ph : Photon K) : tauSum cells ph [] = 0 := rfl
@[simp] theorem tauSum_cons (cells : Nat → Cell K) (ph : Photon K) (v : Visit K) (vs : List (Visit K)) :
    tauSum cells ph (v :: vs) = kappa (cells v.cell.toNat) ph * v.path + tauSum cells ph vs := by
  simp [tauSum]

/-- closed cell with 3-index `i` contains the point `q` -/
def InBox (b : Block K) (i : V3 Int) (q : Ax → K) : Prop :=
  ∀ a, (i.get a : K) * b.cs.get a ≤ q a ∧ q a ≤ ((i.get a : K) + 1) * b.cs.get a

/-- every recorded visit (newest first) is a real cell of the block, has a non-negative path,
and both end points of its segment `p0 + t·dir`, `t ∈ [Σ earlier paths, Σ earlier paths + path]`,
lie in that (closed, convex) cell -/
def Segs (b : Block K) (ph : Photon K) (p0 : V3 K) : List (Visit K) → Prop
  | [] => True
  | v :: rest =>
    (InRange b.n v.idx ∧ v.cell = oneIndex b.n v.idx ∧ 0 ≤ v.path
      ∧ InBox b v.idx (fun a => p0.get a + pathSum rest * ph.dir.get a)
      ∧ InBox b v.idx (fun a => p0.get a + (pathSum rest + v.path) * ph.dir.get a))
    ∧ Segs b ph p0 rest

/-- loop invariant of `interact` (relative to the position `p0` at loop entry) -/
structure Inv (b : Block K) (cells : Nat → Cell K) (ph : Photon K) (p0 : V3 K) (s : St K) : Prop where
  inCell : InCell b s
  range : Range b s
  outFaces : OutFaces b ph s
  onLine : ∀ a, s.pos.get a = p0.get a + pathSum s.out * ph.dir.get a
  segs : Segs b ph p0 s.out
  tauRun : s.tauDone < ph.tau → s.tauDone = tauSum cells ph s.out
  tauStop : ph.tau ≤ s.tauDone → tauSum cells ph s.out = ph.tau
  strict : Strict b ph s ∨ InRange b.n s.idx ∨ ph.tau ≤ s.tauDone

section loop
variable (b : Block K) (cells : Nat → Cell K) (ph : Photon K)

theorem range_of_inRange {s : St K} (h : InRange b.n s.idx) : Range b s :=
  fun a => ⟨by have := (h a).1; omega, by have := (h a).2; omega⟩

theorem outFaces_of_inRange {s : St K} (h : InRange b.n s.idx) : OutFaces b ph s :=
  fun a => ⟨fun h' => by have := (h a).1; omega, fun h' => by have := (h a).2; omega⟩

theorem step_inv (hv : Valid b cells ph) (p0 : V3 K) (s : St K) (hI : Inv b cells ph p0 s)
    (hrun : s.tauDone < ph.tau) (hr : InRange b.n s.idx) :
    Inv b cells ph p0 (step b cells ph s) := by
  have hc := hI.inCell
  unfold step
  by_cases hreach : ph.tau ≤ (geo b cells ph s).td
  · simp only [hreach, if_true]
    obtain ⟨hs0, hs1, hs2⟩ := stop_facts b cells ph s hv hr hc hrun hreach
    have hax := stop_axis b cells ph s hv hr hc hrun hreach
    have hline : ∀ a, (stop ph s (geo b cells ph s)).pos.get a
        = p0.get a + pathSum (stop ph s (geo b cells ph s)).out * ph.dir.get a := fun a => by
      rw [(hax a).1, hI.onLine a, stop_out, pathSum_cons]; simp only [visit]; ring
    refine ⟨fun a => ?_, range_of_inRange b hr, outFaces_of_inRange b ph hr, hline, ?_, ?_, ?_, Or.inr (Or.inr ?_)⟩
    · rw [stop_idx]; exact (hax a).2
    · rw [stop_out]
      have hb1 : InBox b s.idx (fun a => p0.get a + pathSum s.out * ph.dir.get a) := fun a => by
        have := hc a; rw [hI.onLine a] at this; exact this
      have hb2 : InBox b s.idx (fun a => p0.get a
          + (pathSum s.out + stopPath ph (geo b cells ph s)) * ph.dir.get a) := fun a => by
        have := (hax a).2
        rw [(hax a).1, hI.onLine a] at this
        have e : p0.get a + (pathSum s.out + stopPath ph (geo b cells ph s)) * ph.dir.get a
            = p0.get a + pathSum s.out * ph.dir.get a + stopPath ph (geo b cells ph s) * ph.dir.get a := by ring
        show _ ≤ p0.get a + (pathSum s.out + stopPath ph (geo b cells ph s)) * ph.dir.get a ∧
          p0.get a + (pathSum s.out + stopPath ph (geo b cells ph s)) * ph.dir.get a ≤ _
        rw [e]; exact this
      exact ⟨⟨hr, rfl, hs0, hb1, hb2⟩, hI.segs⟩
    · intro h; rw [stop_tau] at h; exact absurd hreach (not_le.mpr h)
    · intro _
      rw [stop_out, tauSum_cons]
      show kappa (cells (oneIndex b.n s.idx).toNat) ph * stopPath ph (geo b cells ph s) + _ = _
      rw [hs2, ← hI.tauRun hrun]; ring
    · rw [stop_tau]; exact hreach
  · simp only [hreach, if_false]
    obtain ⟨h0, hlt, hle, hex, hst⟩ := lmin_facts b cells ph s hv hr hc
    obtain ⟨hc', hr', ho', hs', _⟩ := leave_spec b cells ph s hv hr hc
    have hax := leave_axis b cells ph s hv hr hc
    have htd : (leave ph s (geo b cells ph s)).tauDone = (geo b cells ph s).td := rfl
    have hline : ∀ a, (leave ph s (geo b cells ph s)).pos.get a
        = p0.get a + pathSum (leave ph s (geo b cells ph s)).out * ph.dir.get a := fun a => by
      rw [(hax a).1, hI.onLine a, leave_out, pathSum_cons]; simp only [visit]; ring
    refine ⟨hc', hr', ho', hline, ?_, ?_, ?_, Or.inl hs'⟩
    · rw [leave_out]
      have hb1 : InBox b s.idx (fun a => p0.get a + pathSum s.out * ph.dir.get a) := fun a => by
        have := hc a; rw [hI.onLine a] at this; exact this
      have hb2 : InBox b s.idx (fun a => p0.get a
          + (pathSum s.out + (geo b cells ph s).lmin) * ph.dir.get a) := fun a => by
        have := (hax a).2.2
        rw [(hax a).1, hI.onLine a] at this
        have e : p0.get a + (pathSum s.out + (geo b cells ph s).lmin) * ph.dir.get a
            = p0.get a + pathSum s.out * ph.dir.get a + (geo b cells ph s).lmin * ph.dir.get a := by ring
        show _ ≤ p0.get a + (pathSum s.out + (geo b cells ph s).lmin) * ph.dir.get a ∧
          p0.get a + (pathSum s.out + (geo b cells ph s).lmin) * ph.dir.get a ≤ _
        rw [e]; exact this
      exact ⟨⟨hr, rfl, h0, hb1, hb2⟩, hI.segs⟩
    · intro _
      rw [leave_tau, leave_out, tauSum_cons, hI.tauRun hrun]
      simp only [visit]; ring
    · intro h; rw [htd] at h; exact absurd h hreach

theorem march_induct (P : St K → Prop)
    (hstep : ∀ s, P s → s.tauDone < ph.tau → InRange b.n s.idx → P (step b cells ph s)) :
    ∀ (f : Nat) (s : St K), P s → P (march b cells ph f s).1 := by
  intro f
  induction f with
  | zero => intro s h; exact h
  | succ f ih =>
    intro s h
    unfold march
    by_cases hc : (decide (s.tauDone < ph.tau) && inside b.n s.idx) = true
    · rw [if_pos hc]
      simp only [Bool.and_eq_true, decide_eq_true_eq] at hc
      exact ih _ (hstep s h hc.1 ((inside_iff _ _).mp hc.2))
    · rw [if_neg hc]; exact h

theorem march_done : ∀ (f : Nat) (s : St K), (march b cells ph f s).2 = true →
    ¬ ((march b cells ph f s).1.tauDone < ph.tau ∧ InRange b.n (march b cells ph f s).1.idx) := by
  intro f
  induction f with
  | zero => intro s h; simp [march] at h
  | succ f ih =>
    intro s h
    unfold march at h ⊢
    by_cases hc : (decide (s.tauDone < ph.tau) && inside b.n s.idx) = true
    · rw [if_pos hc] at h ⊢; exact ih _ h
    · rw [if_neg hc]
      simp only [Bool.and_eq_true, decide_eq_true_eq, inside_iff] at hc
      exact hc

theorem march_inv (hv : Valid b cells ph) (p0 : V3 K) (f : Nat) (s : St K)
    (hI : Inv b cells ph p0 s) : Inv b cells ph p0 (march b cells ph f s).1 :=
  march_induct b cells ph _ (fun s h h1 h2 => step_inv b cells ph hv p0 s h h1 h2) f s hI

end loop
/-! ### termination -/
section fuel
variable (b : Block K) (cells : Nat → Cell K) (ph : Photon K)

theorem rem_nonneg {n : Nat} {d : K} {i : Int} (h1 : -1 ≤ i) (h2 : i ≤ (n : Int)) : 0 ≤ rem n d i := by
  unfold rem; split_ifs <;> omega

theorem rem_pos {n : Nat} {d : K} {i : Int} (hd : d ≠ 0) (h1 : 0 ≤ i) (h2 : i < (n : Int)) :
    1 ≤ rem n d i := by
  unfold rem
  rcases lt_or_gt_of_ne hd with h | h
  · rw [if_neg (not_lt.mpr h.le), if_pos h]; omega
  · rw [if_pos h]; omega

theorem phi_pos (hv : Valid b cells ph) (s : St K) (hr : InRange b.n s.idx) : 1 ≤ phi b ph s := by
  obtain ⟨a, ha⟩ := hv.moving
  have hx := rem_nonneg (d := ph.dir.get .x) (by have := (hr .x).1; omega) (le_of_lt (hr .x).2)
  have hy := rem_nonneg (d := ph.dir.get .y) (by have := (hr .y).1; omega) (le_of_lt (hr .y).2)
  have hz := rem_nonneg (d := ph.dir.get .z) (by have := (hr .z).1; omega) (le_of_lt (hr .z).2)
  have hp := rem_pos ha (hr a).1 (hr a).2
  unfold phi
  cases a <;> omega

theorem phi_le (s : St K) (hr : InRange b.n s.idx) :
    phi b ph s ≤ (b.n.x : Int) + b.n.y + b.n.z := by
  have h : ∀ a, rem (b.n.get a) (ph.dir.get a) (s.idx.get a) ≤ (b.n.get a : Int) := fun a => by
    have h1 := (hr a).1; have h2 := (hr a).2
    unfold rem; split_ifs <;> omega
  have hx := h .x; have hy := h .y; have hz := h .z
  unfold phi; simp only [V3.get] at *; omega

theorem march_finishes (hv : Valid b cells ph) (p0 : V3 K) :
    ∀ (f : Nat) (s : St K), Inv b cells ph p0 s →
      (¬ (s.tauDone < ph.tau ∧ InRange b.n s.idx) → 1 ≤ f → (march b cells ph f s).2 = true) ∧
      (s.tauDone < ph.tau → InRange b.n s.idx → phi b ph s + 1 ≤ (f : Int) →
        (march b cells ph f s).2 = true) := by
  intro f
  induction f with
  | zero =>
    intro s hI
    refine ⟨fun _ h => absurd h (by omega), fun h1 h2 h3 => ?_⟩
    have := phi_pos b cells ph hv s h2; omega
  | succ f ih =>
    intro s hI
    have hcond : ((decide (s.tauDone < ph.tau) && inside b.n s.idx) = true) ↔
        (s.tauDone < ph.tau ∧ InRange b.n s.idx) := by
      simp only [Bool.and_eq_true, decide_eq_true_eq, inside_iff]
    constructor
    · intro hn _
      unfold march; rw [if_neg (fun h => hn (hcond.mp h))]
    · intro h1 h2 h3
      unfold march; rw [if_pos (hcond.mpr ⟨h1, h2⟩)]
      have hI' := step_inv b cells ph hv p0 s hI h1 h2
      have hp := phi_pos b cells ph hv s h2
      by_cases hrun' : (step b cells ph s).tauDone < ph.tau ∧ InRange b.n (step b cells ph s).idx
      · refine (ih _ hI').2 hrun'.1 hrun'.2 ?_
        -- the pass was a "leave" pass, the potential dropped
        have hleave : step b cells ph s = leave ph s (geo b cells ph s) := by
          unfold step
          by_cases hreach : ph.tau ≤ (geo b cells ph s).td
          · exfalso
            have : (step b cells ph s).tauDone = (geo b cells ph s).td := by
              unfold step; rw [if_pos hreach]; rfl
            have := hrun'.1; linarith
          · rw [if_neg hreach]
        have := (leave_spec b cells ph s hv h2 hI.inCell).2.2.2.2
        rw [hleave]
        push_cast at h3 ⊢
        omega
      · refine (ih _ hI').1 hrun' ?_
        push_cast at h3; omega

end fuel

/-! ### entry -/

theorem floorUpTo_spec (n : Nat) (x : K) (h0 : 0 ≤ x) :
    ((floorUpTo n x : Nat) : K) ≤ x ∧ floorUpTo n x ≤ n ∧
      (x < ((floorUpTo n x : Nat) : K) + 1 ∨ floorUpTo n x = n) := by
  induction n with
  | zero => simp [floorUpTo, h0]
  | succ k ih =>
    unfold floorUpTo
    by_cases h : (ofNat (k + 1) : K) ≤ x
    · rw [if_pos h]
      rw [ofNat_eq] at h
      exact ⟨h, le_refl _, Or.inr rfl⟩
    · rw [if_neg h]
      rw [ofNat_eq] at h
      obtain ⟨h1, h2, h3⟩ := ih
      refine ⟨h1, Nat.le_succ_of_le h2, Or.inl ?_⟩
      rcases h3 with h3 | h3
      · exact h3
      · rw [h3]; push_cast at h; exact not_le.mp h

/-! ### entry: tables, start index -/

/-- generated tables: for every classification the index rule of `get_{x,y,z}_index` and the
pinning rule of `update_photon_position` agree (computed ↔ kept, lower ↔ 0, upper ↔ top) -/
theorem tables_entry : ∀ d, d < 27 →
    (idxKind d .x = pinKind d .x ∧ pinKind d .x ≤ 2) ∧
    (idxKind d .y = pinKind d .y ∧ pinKind d .y ≤ 2) ∧
    (idxKind d .z = pinKind d .z ∧ pinKind d .z ≤ 2) := by decide

theorem tables_entry_ax (d : Nat) (hd : d < 27) (a : Ax) :
    idxKind d a = pinKind d a ∧ pinKind d a ≤ 2 := by
  have := tables_entry d hd
  cases a
  · exact this.1
  · exact this.2.1
  · exact this.2.2

/-- what the theorems assume about the packet at entry (`relPos` = position − anchor) -/
structure Start (b : Block K) (ph : Photon K) (inDir : Nat) : Prop where
  dir_ok : inDir < 27
  inv_ok : ∀ a, b.inv.get a * b.cs.get a = 1
  /-- on every axis whose index is computed from the position, the position lies in the closed
  block: `0 ≤ x ≤ n·cell_size` (a position on the upper boundary belongs to the last cell) -/
  owned : ∀ a, idxKind inDir a = 0 →
    0 ≤ ph.pos.get a - b.anchor.get a ∧ ph.pos.get a - b.anchor.get a ≤ top b a

section entry
variable (b : Block K) (cells : Nat → Cell K) (ph : Photon K) (inDir : Nat)

theorem init_axis (hv : Valid b cells ph) (hs : Start b ph inDir) (a : Ax) :
    (0 ≤ (initSt b ph inDir).idx.get a ∧ (initSt b ph inDir).idx.get a < (b.n.get a : Int)) ∧
    (((initSt b ph inDir).idx.get a : K) * b.cs.get a ≤ (initSt b ph inDir).pos.get a ∧
      (initSt b ph inDir).pos.get a ≤ (((initSt b ph inDir).idx.get a : K) + 1) * b.cs.get a) := by
  have ht := tables_entry_ax inDir hs.dir_ok a
  have hcs := hv.cs_pos a
  have hn := hv.n_pos a
  have hnK : (1 : K) ≤ (b.n.get a : K) := by exact_mod_cast hn
  have hpos : (initSt b ph inDir).pos.get a = pinAxis b inDir (relPos b ph.pos) a := by
    show (pinPos b inDir (relPos b ph.pos)).get a = _
    unfold pinPos; rw [V3.get_of]
  have hidx : (initSt b ph inDir).idx.get a
      = startIdxAxis b inDir (pinPos b inDir (relPos b ph.pos)) a := by
    show (startIdx b inDir _).get a = _
    unfold startIdx; rw [V3.get_of]
  rw [hpos, hidx]
  unfold pinAxis startIdxAxis
  rw [ht.1]
  have hk : pinKind inDir a = 0 ∨ pinKind inDir a = 1 ∨ pinKind inDir a = 2 := by
    have := ht.2; omega
  rcases hk with hk | hk | hk
  · -- index computed from the position
    rw [hk]
    have hown := hs.owned a (by rw [ht.1, hk])
    have hrel : (pinPos b inDir (relPos b ph.pos)).get a = ph.pos.get a - b.anchor.get a := by
      simp only [pinPos, V3.get_of, pinAxis, hk, relPos]
    have hrel2 : (relPos b ph.pos).get a = ph.pos.get a - b.anchor.get a := by
      unfold relPos; rw [V3.get_of]
    simp only [hrel, hrel2]
    set r := ph.pos.get a - b.anchor.get a with hr
    set x := r * b.inv.get a with hx
    have hinv := hs.inv_ok a
    have hinvpos : 0 < b.inv.get a := by
      by_contra h
      have : b.inv.get a * b.cs.get a ≤ 0 := mul_nonpos_of_nonpos_of_nonneg (not_lt.mp h) hcs.le
      linarith
    have hx0 : 0 ≤ x := mul_nonneg hown.1 hinvpos.le
    have hxr : x * b.cs.get a = r := by rw [hx, mul_assoc, hinv, mul_one]
    have hxn : x ≤ (b.n.get a : K) := by
      have h2 := hown.2; rw [top_eq, ← hxr] at h2
      exact le_of_mul_le_mul_right h2 hcs
    obtain ⟨f1, f2, f3⟩ := floorUpTo_spec (b.n.get a) x hx0
    unfold clampIdx
    by_cases hlast : floorUpTo (b.n.get a) x = b.n.get a
    · -- the position is exactly on the upper boundary: clamped to the last cell
      have hxe : x = (b.n.get a : K) := le_antisymm hxn (by rw [hlast] at f1; exact f1)
      rw [hlast, if_pos (by omega)]
      refine ⟨⟨by omega, by omega⟩, ?_, ?_⟩
      · rw [← hxr, hxe]; push_cast; nlinarith
      · rw [← hxr, hxe]; push_cast; nlinarith
    · have f5 : floorUpTo (b.n.get a) x < b.n.get a := lt_of_le_of_ne f2 hlast
      have f4 : x < ((floorUpTo (b.n.get a) x : Nat) : K) + 1 := by
        rcases f3 with f3 | f3
        · exact f3
        · exact absurd f3 hlast
      rw [if_neg (by omega)]
      refine ⟨⟨by omega, by exact_mod_cast f5⟩, ?_, ?_⟩
      · rw [← hxr]; push_cast; exact mul_le_mul_of_nonneg_right f1 hcs.le
      · rw [← hxr]; push_cast; exact mul_le_mul_of_nonneg_right f4.le hcs.le
  · rw [hk]; simp only [lit0]
    refine ⟨⟨le_refl _, by exact_mod_cast hn⟩, ?_, ?_⟩
    · simp
    · simp [hcs.le]
  · rw [hk]
    simp only [top_eq]
    refine ⟨⟨by omega, by omega⟩, ?_, ?_⟩
    · push_cast; nlinarith
    · push_cast; nlinarith

theorem init_inRange (hv : Valid b cells ph) (hs : Start b ph inDir) :
    InRange b.n (initSt b ph inDir).idx := fun a => (init_axis b cells ph inDir hv hs a).1

theorem init_inv (hv : Valid b cells ph) (hs : Start b ph inDir) :
    Inv b cells ph (initSt b ph inDir).pos (initSt b ph inDir) := by
  have hr := init_inRange b cells ph inDir hv hs
  have htau : (initSt b ph inDir).tauDone = 0 := by show (0.0 : K) = 0; exact lit0
  have hout : (initSt b ph inDir).out = [] := rfl
  refine ⟨fun a => (init_axis b cells ph inDir hv hs a).2, range_of_inRange b hr,
    outFaces_of_inRange b ph hr, fun a => ?_, ?_, fun _ => ?_, fun h => ?_, Or.inr (Or.inl hr)⟩
  · rw [hout]; simp
  · rw [hout]; trivial
  · rw [hout, htau]; simp
  · rw [htau] at h; exact absurd hv.tau_pos (not_lt.mpr h)

end entry
/-! ### exit: mask and classification tables -/

/-- where an index is relative to its range: 0 inside, 1 below (`-1`), 2 above (`n`) — the same
code as `pinKind` (0 free, 1 lower face, 2 upper face) -/
def zone (n : Nat) (i : Int) : Nat := if i < 0 then 1 else if (n : Int) ≤ i then 2 else 0

def maskOfZones (zx zy zz : Nat) : Nat :=
  32 * b2n (zx == 2) + 16 * b2n (zx == 1) + 8 * b2n (zy == 2) + 4 * b2n (zy == 1)
    + 2 * b2n (zz == 2) + b2n (zz == 1)

theorem tdiv_pos_iff {n : Nat} (hn : 0 < n) {i : Int} (h1 : -1 ≤ i) :
    (Int.tdiv i (n : Int) > 0) ↔ (n : Int) ≤ i := by
  have hnI : (0 : Int) < n := by exact_mod_cast hn
  by_cases hi : 0 ≤ i
  · rw [Int.tdiv_eq_ediv_of_nonneg hi]
    constructor
    · intro h
      have : (1 : Int) ≤ i / n := h
      have := (Int.le_ediv_iff_mul_le hnI).mp this
      omega
    · intro h
      have : (1 : Int) ≤ i / n := (Int.le_ediv_iff_mul_le hnI).mpr (by omega)
      exact this
  · have : i = -1 := by omega
    subst this
    constructor
    · intro h
      have h2 : Int.tdiv (-1) (n : Int) = -(Int.tdiv 1 n) := Int.neg_tdiv ..
      have h3 : 0 ≤ Int.tdiv 1 (n : Int) := Int.tdiv_nonneg (by omega) hnI.le
      omega
    · intro h; omega

theorem exitMask_eq (n : V3 Nat) (i : V3 Int) (hn : ∀ a, 0 < n.get a) (hr : ∀ a, -1 ≤ i.get a) :
    exitMask n i = maskOfZones (zone n.x i.x) (zone n.y i.y) (zone n.z i.z) := by
  have hx := tdiv_pos_iff (hn .x) (hr .x)
  have hy := tdiv_pos_iff (hn .y) (hr .y)
  have hz := tdiv_pos_iff (hn .z) (hr .z)
  simp only [V3.get] at hx hy hz
  unfold exitMask maskOfZones
  simp only [decide_eq_decide.mpr hx, decide_eq_decide.mpr hy, decide_eq_decide.mpr hz]
  have h : ∀ (m : Nat) (j : Int), b2n (decide ((m : Int) ≤ j)) = b2n (zone m j == 2) ∧
      (-1 ≤ j → b2n (decide (j < 0)) = b2n (zone m j == 1)) := fun m j => by
    unfold zone b2n
    constructor
    · split_ifs <;> simp_all <;> omega
    · intro _; split_ifs <;> simp_all
  have hrx := hr .x; have hry := hr .y; have hrz := hr .z
  simp only [V3.get] at hrx hry hrz
  rw [(h n.x i.x).1, (h n.x i.x).2 hrx, (h n.y i.y).1, (h n.y i.y).2 hry, (h n.z i.z).1, (h n.z i.z).2 hrz]

/-- generated tables: the mask of every combination of left axes is a classification `1..26`
whose faces (as `update_photon_position` understands the classification) are exactly the axes
that left, on the side they left -/
theorem tables_exit : ∀ zx zy zz : Fin 3, ¬ (zx.val = 0 ∧ zy.val = 0 ∧ zz.val = 0) →
    1 ≤ maskDir (maskOfZones zx zy zz) ∧ maskDir (maskOfZones zx zy zz) < 27 ∧
    pinKind (maskDir (maskOfZones zx zy zz)).toNat .x = zx ∧
    pinKind (maskDir (maskOfZones zx zy zz)).toNat .y = zy ∧
    pinKind (maskDir (maskOfZones zx zy zz)).toNat .z = zz := by decide

/-- generated tables: `is_compatible_output_direction` accepts every classification whose lower
faces have a negative and whose upper faces have a positive direction component
(sign code 0 negative, 1 zero, 2 positive) -/
theorem tables_compat_out : ∀ zx zy zz sx sy sz : Fin 3,
    (zx.val = 1 → sx.val = 0) → (zx.val = 2 → sx.val = 2) → (zy.val = 1 → sy.val = 0) →
    (zy.val = 2 → sy.val = 2) → (zz.val = 1 → sz.val = 0) → (zz.val = 2 → sz.val = 2) →
    compatOut (maskDir (maskOfZones zx zy zz)).toNat sx sy sz = true := by decide

theorem zone_lt (n : Nat) (i : Int) : zone n i < 3 := by unfold zone; split_ifs <;> omega

/-! ### the whole line through the block: the same march without the optical depth test -/

structure InvF (b : Block K) (cells : Nat → Cell K) (ph : Photon K) (p0 : V3 K) (s : St K) : Prop where
  inCell : InCell b s
  range : Range b s
  outFaces : OutFaces b ph s
  onLine : ∀ a, s.pos.get a = p0.get a + pathSum s.out * ph.dir.get a
  segs : Segs b ph p0 s.out
  tauAcc : s.tauDone = tauSum cells ph s.out
  strict : Strict b ph s ∨ InRange b.n s.idx

section free
variable (b : Block K) (cells : Nat → Cell K) (ph : Photon K)

theorem inv_to_invF (p0 : V3 K) (s : St K) (hI : Inv b cells ph p0 s) (hrun : s.tauDone < ph.tau) :
    InvF b cells ph p0 s :=
  ⟨hI.inCell, hI.range, hI.outFaces, hI.onLine, hI.segs, hI.tauRun hrun, by
    rcases hI.strict with h | h | h
    · exact Or.inl h
    · exact Or.inr h
    · exact absurd hrun (not_lt.mpr h)⟩

theorem stepFree_inv (hv : Valid b cells ph) (p0 : V3 K) (s : St K) (hI : InvF b cells ph p0 s)
    (hr : InRange b.n s.idx) : InvF b cells ph p0 (stepFree b cells ph s) := by
  have hc := hI.inCell
  unfold stepFree
  obtain ⟨h0, hlt, hle, hex, hst⟩ := lmin_facts b cells ph s hv hr hc
  obtain ⟨hc', hr', ho', hs', _⟩ := leave_spec b cells ph s hv hr hc
  have hax := leave_axis b cells ph s hv hr hc
  have hline : ∀ a, (leave ph s (geo b cells ph s)).pos.get a
      = p0.get a + pathSum (leave ph s (geo b cells ph s)).out * ph.dir.get a := fun a => by
    rw [(hax a).1, hI.onLine a, leave_out, pathSum_cons]; simp only [visit]; ring
  refine ⟨hc', hr', ho', hline, ?_, ?_, Or.inl hs'⟩
  · rw [leave_out]
    have hb1 : InBox b s.idx (fun a => p0.get a + pathSum s.out * ph.dir.get a) := fun a => by
      have := hc a; rw [hI.onLine a] at this; exact this
    have hb2 : InBox b s.idx (fun a => p0.get a
        + (pathSum s.out + (geo b cells ph s).lmin) * ph.dir.get a) := fun a => by
      have := (hax a).2.2
      rw [(hax a).1, hI.onLine a] at this
      have e : p0.get a + (pathSum s.out + (geo b cells ph s).lmin) * ph.dir.get a
          = p0.get a + pathSum s.out * ph.dir.get a + (geo b cells ph s).lmin * ph.dir.get a := by ring
      show _ ≤ p0.get a + (pathSum s.out + (geo b cells ph s).lmin) * ph.dir.get a ∧
        p0.get a + (pathSum s.out + (geo b cells ph s).lmin) * ph.dir.get a ≤ _
      rw [e]; exact this
    exact ⟨⟨hr, rfl, h0, hb1, hb2⟩, hI.segs⟩
  · rw [leave_tau, leave_out, tauSum_cons, hI.tauAcc]
    simp only [visit]; ring

theorem stepFree_tau_le (hv : Valid b cells ph) (p0 : V3 K) (s : St K) (hI : InvF b cells ph p0 s)
    (hr : InRange b.n s.idx) : s.tauDone ≤ (stepFree b cells ph s).tauDone := by
  unfold stepFree
  rw [leave_tau]
  have h0 := (lmin_facts b cells ph s hv hr hI.inCell).1
  have := mul_nonneg (hv.kappa_nonneg (oneIndex b.n s.idx).toNat) h0
  linarith

theorem marchFree_inv (hv : Valid b cells ph) (p0 : V3 K) :
    ∀ (f : Nat) (s : St K), InvF b cells ph p0 s →
      InvF b cells ph p0 (marchFree b cells ph f s).1 ∧ s.tauDone ≤ (marchFree b cells ph f s).1.tauDone := by
  intro f
  induction f with
  | zero => intro s h; exact ⟨h, le_refl _⟩
  | succ f ih =>
    intro s h
    unfold marchFree
    by_cases hc : inside b.n s.idx = true
    · rw [if_pos hc]
      have hr := (inside_iff _ _).mp hc
      have := ih _ (stepFree_inv b cells ph hv p0 s h hr)
      exact ⟨this.1, le_trans (stepFree_tau_le b cells ph hv p0 s h hr) this.2⟩
    · rw [if_neg hc]; exact ⟨h, le_refl _⟩

theorem marchFree_done : ∀ (f : Nat) (s : St K), (marchFree b cells ph f s).2 = true →
    ¬ InRange b.n (marchFree b cells ph f s).1.idx := by
  intro f
  induction f with
  | zero => intro s h; simp [marchFree] at h
  | succ f ih =>
    intro s h
    unfold marchFree at h ⊢
    by_cases hc : inside b.n s.idx = true
    · rw [if_pos hc] at h ⊢; exact ih _ h
    · rw [if_neg hc]; rw [inside_iff] at hc; exact hc

theorem marchFree_finishes (hv : Valid b cells ph) (p0 : V3 K) :
    ∀ (f : Nat) (s : St K), InvF b cells ph p0 s →
      (¬ InRange b.n s.idx → 1 ≤ f → (marchFree b cells ph f s).2 = true) ∧
      (InRange b.n s.idx → phi b ph s + 1 ≤ (f : Int) → (marchFree b cells ph f s).2 = true) := by
  intro f
  induction f with
  | zero =>
    intro s hI
    refine ⟨fun _ h => absurd h (by omega), fun h2 h3 => ?_⟩
    have := phi_pos b cells ph hv s h2; omega
  | succ f ih =>
    intro s hI
    constructor
    · intro hn _
      unfold marchFree; rw [if_neg (fun h => hn ((inside_iff _ _).mp h))]
    · intro h2 h3
      unfold marchFree; rw [if_pos ((inside_iff _ _).mpr h2)]
      have hI' := stepFree_inv b cells ph hv p0 s hI h2
      have hp := phi_pos b cells ph hv s h2
      have hdrop := (leave_spec b cells ph s hv h2 hI.inCell).2.2.2.2
      by_cases hrun' : InRange b.n (stepFree b cells ph s).idx
      · refine (ih _ hI').2 hrun' ?_
        unfold stepFree; push_cast at h3 ⊢; omega
      · refine (ih _ hI').1 hrun' ?_
        push_cast at h3; omega

theorem march_stopped (s : St K) (h : ph.tau ≤ s.tauDone) (f : Nat) :
    (march b cells ph f s).1 = s := by
  cases f with
  | zero => rfl
  | succ f =>
    unfold march
    have : ¬ ((decide (s.tauDone < ph.tau) && inside b.n s.idx) = true) := by
      simp only [Bool.and_eq_true, decide_eq_true_eq]; intro h'; exact absurd h'.1 (not_lt.mpr h)
    rw [if_neg this]

/-- the packet stops inside iff the optical depth of the whole line reaches the target -/
theorem march_vs_free (hv : Valid b cells ph) (p0 : V3 K) :
    ∀ (f : Nat) (s : St K), Inv b cells ph p0 s → s.tauDone < ph.tau →
      (ph.tau ≤ (march b cells ph f s).1.tauDone ↔ ph.tau ≤ (marchFree b cells ph f s).1.tauDone) := by
  intro f
  induction f with
  | zero => intro s _ _; exact Iff.rfl
  | succ f ih =>
    intro s hI hrun
    unfold march marchFree
    by_cases hc : inside b.n s.idx = true
    · have hr := (inside_iff _ _).mp hc
      have hcond : (decide (s.tauDone < ph.tau) && inside b.n s.idx) = true := by
        simp only [Bool.and_eq_true, decide_eq_true_eq]; exact ⟨hrun, hc⟩
      rw [if_pos hcond, if_pos hc]
      have hF := inv_to_invF b cells ph p0 s hI hrun
      by_cases hreach : ph.tau ≤ (geo b cells ph s).td
      · have hs : step b cells ph s = stop ph s (geo b cells ph s) := by
          unfold step; rw [if_pos hreach]
        have ht : ph.tau ≤ (step b cells ph s).tauDone := by rw [hs]; exact hreach
        rw [march_stopped b cells ph _ ht]
        have hm := (marchFree_inv b cells ph hv p0 f _ (stepFree_inv b cells ph hv p0 s hF hr)).2
        have : (stepFree b cells ph s).tauDone = (geo b cells ph s).td := rfl
        constructor
        · intro _; rw [this] at hm; exact le_trans hreach hm
        · intro _; exact ht
      · have hs : step b cells ph s = stepFree b cells ph s := by
          unfold step stepFree; rw [if_neg hreach]
        have hI' := step_inv b cells ph hv p0 s hI hrun hr
        have hrun' : (step b cells ph s).tauDone < ph.tau := by
          rw [hs]; exact not_le.mp hreach
        have := ih _ hI' hrun'
        rw [hs] at this ⊢; exact this
    · have hcond : ¬ ((decide (s.tauDone < ph.tau) && inside b.n s.idx) = true) := by
        simp only [Bool.and_eq_true, decide_eq_true_eq]; intro h; exact hc h.2
      rw [if_neg hcond, if_neg hc]

end free
/-! ### forward (traversal order) form of the segment property, estimators, result fields -/

/-- visits in order of traversal, `S` = path already travelled -/
def SegsFwd (b : Block K) (ph : Photon K) (p0 : V3 K) : K → List (Visit K) → Prop
  | _, [] => True
  | S, v :: rest =>
    (InRange b.n v.idx ∧ v.cell = oneIndex b.n v.idx ∧ 0 ≤ v.path
      ∧ InBox b v.idx (fun a => p0.get a + S * ph.dir.get a)
      ∧ InBox b v.idx (fun a => p0.get a + (S + v.path) * ph.dir.get a))
    ∧ SegsFwd b ph p0 (S + v.path) rest

theorem pathSum_append (l1 l2 : List (Visit K)) : pathSum (l1 ++ l2) = pathSum l1 + pathSum l2 := by
  simp [pathSum]

theorem pathSum_reverse (l : List (Visit K)) : pathSum l.reverse = pathSum l := by
  simp [pathSum, List.sum_reverse]

theorem tauSum_reverse (cells : Nat → Cell K) (ph : Photon K) (l : List (Visit K)) :
    tauSum cells ph l.reverse = tauSum cells ph l := by
  simp [tauSum, List.sum_reverse]

theorem segsFwd_snoc (b : Block K) (ph : Photon K) (p0 : V3 K) (v : Visit K) :
    ∀ (l : List (Visit K)) (S : K), SegsFwd b ph p0 S l →
      (InRange b.n v.idx ∧ v.cell = oneIndex b.n v.idx ∧ 0 ≤ v.path
        ∧ InBox b v.idx (fun a => p0.get a + (S + pathSum l) * ph.dir.get a)
        ∧ InBox b v.idx (fun a => p0.get a + (S + pathSum l + v.path) * ph.dir.get a)) →
      SegsFwd b ph p0 S (l ++ [v]) := by
  intro l
  induction l with
  | nil =>
    intro S _ h
    simp only [pathSum_nil, add_zero] at h
    exact ⟨h, trivial⟩
  | cons u rest ih =>
    intro S hs h
    refine ⟨hs.1, ih (S + u.path) hs.2 ?_⟩
    simp only [pathSum_cons] at h
    have e1 : S + u.path + pathSum rest = S + (u.path + pathSum rest) := by ring
    rw [e1]; exact h

theorem segs_reverse (b : Block K) (ph : Photon K) (p0 : V3 K) :
    ∀ l : List (Visit K), Segs b ph p0 l → SegsFwd b ph p0 0 l.reverse := by
  intro l
  induction l with
  | nil => intro _; trivial
  | cons v rest ih =>
    intro h
    rw [List.reverse_cons]
    refine segsFwd_snoc b ph p0 v _ 0 (ih h.2) ?_
    obtain ⟨h1, h2, h3, h4, h5⟩ := h.1
    simp only [pathSum_reverse, zero_add]
    exact ⟨h1, h2, h3, h4, h5⟩

/-- what `update_intensity_counters` adds for a path `v.path` -/
def EstOK (ph : Photon K) (v : Visit K) : Prop :=
  v.jH = v.path * ph.sigH * ph.w ∧ v.jHe = v.path * ph.sigHe * ph.w ∧ v.jX = v.path * ph.sigX * ph.w
    ∧ v.hH = v.path * ph.sigH * ph.w * (ph.nu - 3.288e15)
    ∧ v.hHe = v.path * ph.sigHe * ph.w * (ph.nu - 5.948e15)

theorem visit_est (ph : Photon K) (i : V3 Int) (ac : Int) (dist : K) : EstOK ph (visit ph i ac dist) :=
  ⟨rfl, rfl, rfl, rfl, rfl⟩

theorem step_est (b : Block K) (cells : Nat → Cell K) (ph : Photon K) (s : St K)
    (h : ∀ v ∈ s.out, EstOK ph v) : ∀ v ∈ (step b cells ph s).out, EstOK ph v := by
  unfold step
  by_cases hreach : ph.tau ≤ (geo b cells ph s).td
  · simp only [hreach, if_true]
    intro v hv
    rw [stop_out] at hv
    rcases List.mem_cons.mp hv with rfl | hv
    · exact visit_est _ _ _ _
    · exact h v hv
  · simp only [hreach, if_false]
    intro v hv
    rw [leave_out] at hv
    rcases List.mem_cons.mp hv with rfl | hv
    · exact visit_est _ _ _ _
    · exact h v hv

theorem floorUpTo_top (n : Nat) (x : K) (h : (n : K) ≤ x) : floorUpTo n x = n := by
  cases n with
  | zero => rfl
  | succ k => unfold floorUpTo; rw [if_pos (by rw [ofNat_eq]; exact h)]

/-- sign code of a direction component for the compatibility tables: 0 negative, 1 zero, 2 positive -/
def sgnOf (d : K) : Nat := sgnCode (decide (d < 0)) (decide (0 < d))

theorem sgnOf_lt (d : K) : sgnOf d < 3 := by
  unfold sgnOf sgnCode; split_ifs <;> omega

theorem sgnOf_neg {d : K} (h : d < 0) : sgnOf d = 0 := by
  unfold sgnOf sgnCode; simp [h, not_lt.mpr h.le]

theorem sgnOf_pos {d : K} (h : 0 < d) : sgnOf d = 2 := by
  unfold sgnOf sgnCode; simp [h]

/-! ### hypotheses of the C02 theorems, fields of `interact`'s result -/

/-- hypotheses of the C02 theorems -/
structure Hyp (b : Block K) (cells : Nat → Cell K) (ph : Photon K) (inDir : Nat) : Prop where
  valid : Valid b cells ph
  start : Start b ph inDir

section result
variable (b : Block K) (cells : Nat → Cell K) (ph : Photon K) (inDir : Nat)

theorem last_eq : (interact b cells ph inDir).last =
    (march b cells ph (fuel b.n) (initSt b ph inDir)).1 := rfl
theorem visits_eq : (interact b cells ph inDir).visits = (interact b cells ph inDir).last.out.reverse := rfl
theorem finished_eq : (interact b cells ph inDir).finished =
    (march b cells ph (fuel b.n) (initSt b ph inDir)).2 := rfl
theorem tauLeft_eq : (interact b cells ph inDir).tauLeft =
    ph.tau - (interact b cells ph inDir).last.tauDone := rfl
theorem pos_eq (a : Ax) : (interact b cells ph inDir).pos.get a =
    (interact b cells ph inDir).last.pos.get a + b.anchor.get a := by
  simp [interact]

theorem last_inv (h : Hyp b cells ph inDir) :
    Inv b cells ph (initSt b ph inDir).pos (interact b cells ph inDir).last :=
  march_inv b cells ph h.valid _ _ _ (init_inv b cells ph inDir h.valid h.start)

theorem init_tau (h : Hyp b cells ph inDir) : (initSt b ph inDir).tauDone < ph.tau := by
  show (0.0 : K) < ph.tau; rw [lit0]; exact h.valid.tau_pos

end result

/-! ### generic traversal: the loop from any admissible loop-entry state

`interact` and `propagate` are `traverse` from `initSt` / `initStNoPin`; everything the property
says follows from the loop invariant once the entry state is admissible (`Entry`). -/

/-- admissible loop-entry state: index in range, position in the closed cell of the index, no
optical depth used yet, nothing recorded yet -/
structure Entry (b : Block K) (cells : Nat → Cell K) (ph : Photon K) (s0 : St K) : Prop where
  inv : Inv b cells ph s0.pos s0
  inRange : InRange b.n s0.idx
  tau0 : s0.tauDone = 0
  out0 : s0.out = []

section generic
variable (b : Block K) (cells : Nat → Cell K) (ph : Photon K) (s0 : St K)

theorem tlast_eq : (traverse b cells ph s0).last = (march b cells ph (fuel b.n) s0).1 := rfl
theorem tvisits_eq : (traverse b cells ph s0).visits = (traverse b cells ph s0).last.out.reverse := rfl
theorem tfinished_eq : (traverse b cells ph s0).finished = (march b cells ph (fuel b.n) s0).2 := rfl
theorem ttauLeft_eq : (traverse b cells ph s0).tauLeft = ph.tau - (traverse b cells ph s0).last.tauDone := rfl
theorem tpos_eq (a : Ax) : (traverse b cells ph s0).pos.get a =
    (traverse b cells ph s0).last.pos.get a + b.anchor.get a := by
  simp [traverse]

theorem tlast_inv (hv : Valid b cells ph) (he : Entry b cells ph s0) :
    Inv b cells ph s0.pos (traverse b cells ph s0).last :=
  march_inv b cells ph hv _ _ _ he.inv

theorem entry_tau (hv : Valid b cells ph) (he : Entry b cells ph s0) : s0.tauDone < ph.tau := by
  rw [he.tau0]; exact hv.tau_pos

/-- **Termination is a theorem**: the loop of the traversal ends by its own condition within
`nx + ny + nz + 1` evaluations of that condition (every pass that does not end the loop moves
at least one index one step in its direction of travel). -/
theorem trav_fuel_sufficient (hv : Valid b cells ph) (he : Entry b cells ph s0) :
    (traverse b cells ph s0).finished = true := by
  rw [tfinished_eq]
  have hr := he.inRange
  refine (march_finishes b cells ph hv _ _ _ (he.inv)).2
    (entry_tau b cells ph s0 hv he) hr ?_
  have := phi_le b ph (s0) hr
  unfold fuel; push_cast; omega

/-- the loop ended by its own condition: target reached or index outside -/
theorem trav_last_done (hv : Valid b cells ph) (he : Entry b cells ph s0) :
    ¬ ((traverse b cells ph s0).last.tauDone < ph.tau ∧
        InRange b.n (traverse b cells ph s0).last.idx) :=
  march_done b cells ph _ _ (trav_fuel_sufficient b cells ph s0 hv he)

/-- **Path sum**: the final position is the (pinned) start position plus `Σ path · direction`,
per coordinate; in absolute coordinates as well. -/
theorem trav_path_sum (hv : Valid b cells ph) (he : Entry b cells ph s0) (a : Ax) :
    (traverse b cells ph s0).last.pos.get a =
        (s0).pos.get a + pathSum (traverse b cells ph s0).visits * ph.dir.get a
    ∧ (traverse b cells ph s0).pos.get a =
        ((s0).pos.get a + b.anchor.get a)
          + pathSum (traverse b cells ph s0).visits * ph.dir.get a := by
  have hl := (tlast_inv b cells ph s0 hv he).onLine a
  rw [tvisits_eq, pathSum_reverse, tpos_eq, hl]
  exact ⟨rfl, by ring⟩

/-- every credited path length is non-negative -/
theorem trav_path_nonneg (hv : Valid b cells ph) (he : Entry b cells ph s0) : ∀ v ∈ (traverse b cells ph s0).visits, 0 ≤ v.path := by
  have hs := (tlast_inv b cells ph s0 hv he).segs
  rw [tvisits_eq]
  intro v hv
  rw [List.mem_reverse] at hv
  generalize (traverse b cells ph s0).last.out = l at hs hv
  induction l with
  | nil => cases hv
  | cons u rest ih =>
    rcases List.mem_cons.mp hv with rfl | hv
    · exact hs.1.2.2.1
    · exact ih hs.2 hv

/-- hence **Σ path = straight-line distance** for a unit direction (sqrt-free form:
`Σ path ≥ 0` and `(Σ path)² = |final − start|²`) -/
theorem trav_path_sum_is_distance (hv : Valid b cells ph) (he : Entry b cells ph s0)
    (hunit : ph.dir.x ^ 2 + ph.dir.y ^ 2 + ph.dir.z ^ 2 = 1) :
    0 ≤ pathSum (traverse b cells ph s0).visits ∧
    pathSum (traverse b cells ph s0).visits ^ 2 =
      ((traverse b cells ph s0).last.pos.x - (s0).pos.x) ^ 2
      + ((traverse b cells ph s0).last.pos.y - (s0).pos.y) ^ 2
      + ((traverse b cells ph s0).last.pos.z - (s0).pos.z) ^ 2 := by
  constructor
  · have := trav_path_nonneg b cells ph s0 hv he
    unfold pathSum
    apply List.sum_nonneg
    intro x hx
    obtain ⟨v, hv, rfl⟩ := List.mem_map.mp hx
    exact this v hv
  · have hx := (trav_path_sum b cells ph s0 hv he .x).1
    have hy := (trav_path_sum b cells ph s0 hv he .y).1
    have hz := (trav_path_sum b cells ph s0 hv he .z).1
    simp only [V3.get] at hx hy hz
    rw [hx, hy, hz]
    have : ∀ (S dx dy dz p q r : K), dx ^ 2 + dy ^ 2 + dz ^ 2 = 1 →
        S ^ 2 = (p + S * dx - p) ^ 2 + (q + S * dy - q) ^ 2 + (r + S * dz - r) ^ 2 := by
      intro S dx dy dz p q r hu
      have : (p + S * dx - p) ^ 2 + (q + S * dy - q) ^ 2 + (r + S * dz - r) ^ 2
          = S ^ 2 * (dx ^ 2 + dy ^ 2 + dz ^ 2) := by ring
      rw [this, hu, mul_one]
    exact this _ _ _ _ _ _ _ hunit

/-- **Every visited cell contains its segment**: in order of traversal, with `S` the path
travelled before the visit, the visited cell is a real cell of the block (`InRange`, one-index
= `get_one_index`), and both end points `start + S·d` and `start + (S + path)·d` lie in the
closed cell — the cell is convex, so the whole segment does. -/
theorem trav_segments_in_cells (hv : Valid b cells ph) (he : Entry b cells ph s0) :
    SegsFwd b ph (s0).pos 0 (traverse b cells ph s0).visits := by
  rw [tvisits_eq]
  exact segs_reverse b ph _ _ (tlast_inv b cells ph s0 hv he).segs

/-- the exit classification of a packet that leaves is one of `1..26` -/
theorem trav_outputDirection_valid (hv : Valid b cells ph) (he : Entry b cells ph s0)
    (hout : ¬ InRange b.n (traverse b cells ph s0).last.idx) :
    1 ≤ outputDirection b.n (traverse b cells ph s0).last.idx ∧
    outputDirection b.n (traverse b cells ph s0).last.idx < 27 ∧
    ∀ a, pinKind (outputDirection b.n (traverse b cells ph s0).last.idx).toNat a
      = zone (b.n.get a) ((traverse b cells ph s0).last.idx.get a) := by
  have hI := tlast_inv b cells ph s0 hv he
  set i := (traverse b cells ph s0).last.idx with hi
  unfold outputDirection
  rw [exitMask_eq b.n i hv.n_pos (fun a => (hI.range a).1)]
  have hz : ¬ ((zone b.n.x i.x) = 0 ∧ (zone b.n.y i.y) = 0 ∧ (zone b.n.z i.z) = 0) := by
    intro ⟨hx, hy, hz⟩
    apply hout
    intro a
    cases a <;> simp only [V3.get] <;> [skip; skip; skip]
    · unfold zone at hx; split_ifs at hx <;> omega
    · unfold zone at hy; split_ifs at hy <;> omega
    · unfold zone at hz; split_ifs at hz <;> omega
  have := tables_exit ⟨_, zone_lt b.n.x i.x⟩ ⟨_, zone_lt b.n.y i.y⟩ ⟨_, zone_lt b.n.z i.z⟩ hz
  refine ⟨this.1, this.2.1, fun a => ?_⟩
  cases a
  · exact this.2.2.1
  · exact this.2.2.2.1
  · exact this.2.2.2.2

/-- the packet is reported INSIDE exactly when the loop ended because the target was reached -/
theorem trav_outDir_zero_iff (hv : Valid b cells ph) (he : Entry b cells ph s0) :
    (traverse b cells ph s0).outDir = 0 ↔ ph.tau ≤ (traverse b cells ph s0).last.tauDone := by
  show (if ph.tau ≤ (traverse b cells ph s0).last.tauDone then ((Gen.TDC02.dirInside : Nat) : Int)
      else outputDirection b.n (traverse b cells ph s0).last.idx) = 0 ↔ _
  by_cases ht : ph.tau ≤ (traverse b cells ph s0).last.tauDone
  · rw [if_pos ht]; exact ⟨fun _ => ht, fun _ => rfl⟩
  · rw [if_neg ht]
    have hout : ¬ InRange b.n (traverse b cells ph s0).last.idx := fun hr =>
      trav_last_done b cells ph s0 hv he ⟨not_le.mp ht, hr⟩
    have := (trav_outputDirection_valid b cells ph s0 hv he hout).1
    constructor
    · intro h0; omega
    · intro h0; exact absurd h0 ht

/-- **Optical depth accounting.**  A packet that leaves has used up `Σ κ·path` and keeps
`τ_target − Σ κ·path > 0`; a packet that stops inside has deposited *exactly* `τ_target`
(the surplus correction), and what the code stores as remaining optical depth is the
non-positive surplus of the last cell. -/
theorem trav_tau_account (hv : Valid b cells ph) (he : Entry b cells ph s0) :
    ((traverse b cells ph s0).outDir ≠ 0 →
      (traverse b cells ph s0).tauLeft = ph.tau - tauSum cells ph (traverse b cells ph s0).visits
      ∧ 0 < (traverse b cells ph s0).tauLeft) ∧
    ((traverse b cells ph s0).outDir = 0 →
      tauSum cells ph (traverse b cells ph s0).visits = ph.tau
      ∧ (traverse b cells ph s0).tauLeft ≤ 0) := by
  have hI := tlast_inv b cells ph s0 hv he
  have hz := trav_outDir_zero_iff b cells ph s0 hv he
  rw [tvisits_eq, tauSum_reverse, ttauLeft_eq]
  constructor
  · intro hn
    have hlt := not_le.mp (fun ht => hn (hz.mpr ht))
    rw [← hI.tauRun hlt]
    exact ⟨rfl, by linarith⟩
  · intro h0
    have hge := hz.mp h0
    exact ⟨hI.tauStop hge, by linarith⟩

/-- **Estimators**: each visit adds `path·σ·w` to the mean-intensity counter of every ion and
`path·σ·w·(ν − ν₀)` to the heating counters (ν₀ = 3.288e15 Hz for H, 5.948e15 Hz for He). -/
theorem trav_estimators (hv : Valid b cells ph) (he : Entry b cells ph s0) :
    ∀ v ∈ (traverse b cells ph s0).visits, EstOK ph v := by
  rw [tvisits_eq]
  intro v hmem
  rw [List.mem_reverse] at hmem
  have := march_induct b cells ph (fun s => ∀ v ∈ s.out, EstOK ph v)
    (fun s hs _ _ => step_est b cells ph s hs) (fuel b.n) (s0)
    (fun v hm => by rw [he.out0] at hm; cases hm)
  exact this v hmem

/-- optical depth of the whole line from the start to the block boundary: what the same march
accumulates when the optical depth test is removed -/
def fullTauFrom (b : Block K) (cells : Nat → Cell K) (ph : Photon K) (s0 : St K) : K :=
  (marchFree b cells ph (fuel b.n) (s0)).1.tauDone

/-- `fullTau` really is the sum over the whole line: the free march ends outside the block
within the fuel, its visits satisfy the segment property, it is on the line, its optical depth
is `Σ κ·path` over its visits, and it ends on the block faces it crossed. -/
theorem trav_fullTau_is_line_sum (hv : Valid b cells ph) (he : Entry b cells ph s0) :
    let r := marchFree b cells ph (fuel b.n) (s0)
    r.2 = true ∧ ¬ InRange b.n r.1.idx ∧ fullTauFrom b cells ph s0 = tauSum cells ph r.1.out.reverse
      ∧ SegsFwd b ph (s0).pos 0 r.1.out.reverse
      ∧ (∀ a, r.1.pos.get a = (s0).pos.get a + pathSum r.1.out.reverse * ph.dir.get a)
      ∧ OutFaces b ph r.1 := by
  intro r
  have hI0 := he.inv
  have hF0 := inv_to_invF b cells ph _ _ hI0 (entry_tau b cells ph s0 hv he)
  have hr := he.inRange
  have hfin : r.2 = true := by
    refine (marchFree_finishes b cells ph hv _ _ _ hF0).2 hr ?_
    have := phi_le b ph (s0) hr
    unfold fuel; push_cast; omega
  have hF := (marchFree_inv b cells ph hv _ (fuel b.n) _ hF0).1
  refine ⟨hfin, marchFree_done b cells ph _ _ hfin, ?_, segs_reverse b ph _ _ hF.segs, fun a => ?_, hF.outFaces⟩
  · rw [tauSum_reverse]; exact hF.tauAcc
  · rw [pathSum_reverse]; exact hF.onLine a

/-- **The packet stops inside the block exactly when its target optical depth is reached on
the line through the block.** -/
theorem trav_stops_inside_iff (hv : Valid b cells ph) (he : Entry b cells ph s0) :
    (traverse b cells ph s0).outDir = 0 ↔ ph.tau ≤ fullTauFrom b cells ph s0 := by
  rw [trav_outDir_zero_iff b cells ph s0 hv he]
  exact march_vs_free b cells ph hv _ _ _ (he.inv)
    (entry_tau b cells ph s0 hv he)

/-- **Exit geometry.**  A packet that leaves gets a classification `1..26`; reading the
classification the way `update_photon_position` does (`pinKind`: 1 = lower face, 2 = upper face,
0 = free), the final position lies on exactly the faces it names and is crossing them outwards;
on the axes it does not name the position is inside the block and is not on a face the packet
is travelling towards; the classification passes `is_compatible_output_direction`. -/
theorem trav_exit_geometric (hv : Valid b cells ph) (he : Entry b cells ph s0) (hout : (traverse b cells ph s0).outDir ≠ 0) :
    1 ≤ (traverse b cells ph s0).outDir ∧ (traverse b cells ph s0).outDir < 27 ∧
    (∀ a,
      (pinKind (traverse b cells ph s0).outDir.toNat a = 1 →
        (traverse b cells ph s0).last.pos.get a = 0 ∧ ph.dir.get a < 0) ∧
      (pinKind (traverse b cells ph s0).outDir.toNat a = 2 →
        (traverse b cells ph s0).last.pos.get a = top b a ∧ 0 < ph.dir.get a) ∧
      (pinKind (traverse b cells ph s0).outDir.toNat a = 0 →
        0 ≤ (traverse b cells ph s0).last.pos.get a ∧
        (traverse b cells ph s0).last.pos.get a ≤ top b a ∧
        (0 < ph.dir.get a → (traverse b cells ph s0).last.pos.get a < top b a) ∧
        (ph.dir.get a < 0 → 0 < (traverse b cells ph s0).last.pos.get a))) ∧
    compatOut (traverse b cells ph s0).outDir.toNat (sgnOf ph.dir.x) (sgnOf ph.dir.y) (sgnOf ph.dir.z)
      = true := by
  have hI := tlast_inv b cells ph s0 hv he
  have hnt : ¬ ph.tau ≤ (traverse b cells ph s0).last.tauDone :=
    fun ht => hout ((trav_outDir_zero_iff b cells ph s0 hv he).mpr ht)
  have hnr : ¬ InRange b.n (traverse b cells ph s0).last.idx :=
    fun hr => trav_last_done b cells ph s0 hv he ⟨not_le.mp hnt, hr⟩
  have hdir : (traverse b cells ph s0).outDir
      = outputDirection b.n (traverse b cells ph s0).last.idx := by
    show (if ph.tau ≤ (traverse b cells ph s0).last.tauDone then _ else _) = _
    rw [if_neg hnt]; rfl
  obtain ⟨hv1, hv2, hv3⟩ := trav_outputDirection_valid b cells ph s0 hv he hnr
  have hstrict : Strict b ph (traverse b cells ph s0).last := by
    rcases hI.strict with hs | hs | hs
    · exact hs
    · exact absurd hs hnr
    · exact absurd hs hnt
  have hzone : ∀ (n : Nat) (i : Int), 0 < n →
      (zone n i = 1 → i < 0) ∧ (zone n i = 2 → (n : Int) ≤ i) ∧ (zone n i = 0 → 0 ≤ i ∧ i < (n : Int)) := by
    intro n i hn
    unfold zone
    refine ⟨fun hk => ?_, fun hk => ?_, fun hk => ?_⟩
    · split_ifs at hk <;> omega
    · split_ifs at hk <;> omega
    · split_ifs at hk <;> omega
  rw [hdir]
  refine ⟨hv1, hv2, fun a => ⟨fun hk => ?_, fun hk => ?_, fun hk => ?_⟩, ?_⟩
  · rw [hv3 a] at hk
    have := (hI.outFaces a).1 ((hzone _ _ (hv.n_pos a)).1 hk)
    exact ⟨this.2, this.1⟩
  · rw [hv3 a] at hk
    have := (hI.outFaces a).2 ((hzone _ _ (hv.n_pos a)).2.1 hk)
    exact ⟨this.2, this.1⟩
  · rw [hv3 a] at hk
    obtain ⟨h0, h1⟩ := (hzone _ _ (hv.n_pos a)).2.2 hk
    have hc := hI.inCell a
    have hcs := hv.cs_pos a
    have hs := hstrict a h0 h1
    have h0K : (0 : K) ≤ ((traverse b cells ph s0).last.idx.get a : K) := by exact_mod_cast h0
    have h1K : ((traverse b cells ph s0).last.idx.get a : K) + 1 ≤ (b.n.get a : K) := by
      have : (traverse b cells ph s0).last.idx.get a + 1 ≤ (b.n.get a : Int) := by omega
      exact_mod_cast this
    refine ⟨?_, ?_, hs.1, hs.2⟩
    · nlinarith [hc.1]
    · rw [top_eq]; nlinarith [hc.2]
  · -- compatibility with the direction, from the generated table
    have hsx : ∀ a, (zone (b.n.get a) ((traverse b cells ph s0).last.idx.get a) = 1 →
          sgnOf (ph.dir.get a) = 0) ∧
        (zone (b.n.get a) ((traverse b cells ph s0).last.idx.get a) = 2 →
          sgnOf (ph.dir.get a) = 2) := fun a =>
      ⟨fun hk => sgnOf_neg ((hI.outFaces a).1 ((hzone _ _ (hv.n_pos a)).1 hk)).1,
       fun hk => sgnOf_pos ((hI.outFaces a).2 ((hzone _ _ (hv.n_pos a)).2.1 hk)).1⟩
    unfold outputDirection
    rw [exitMask_eq b.n _ hv.n_pos (fun a => (hI.range a).1)]
    exact tables_compat_out ⟨_, zone_lt _ _⟩ ⟨_, zone_lt _ _⟩ ⟨_, zone_lt _ _⟩
      ⟨_, sgnOf_lt ph.dir.x⟩ ⟨_, sgnOf_lt ph.dir.y⟩ ⟨_, sgnOf_lt ph.dir.z⟩
      (hsx .x).1 (hsx .x).2 (hsx .y).1 (hsx .y).2 (hsx .z).1 (hsx .z).2

/-- corollary: a block without opacity on the line is always crossed -/
theorem trav_transparent_block_is_crossed (hv : Valid b cells ph) (he : Entry b cells ph s0) (h0 : ∀ c, kappa (cells c) ph = 0) :
    (traverse b cells ph s0).outDir ≠ 0 := by
  intro hz
  have := ((trav_tau_account b cells ph s0 hv he).2 hz).1
  have hsum : ∀ l : List (Visit K), tauSum cells ph l = 0 := by
    intro l
    induction l with
    | nil => rfl
    | cons v rest ih => rw [tauSum_cons, ih, h0]; ring
  rw [hsum] at this
  exact absurd hv.tau_pos (by rw [← this]; exact lt_irrefl _)

end generic

/-! ### exit geometry of any final state outside the block; entry without pinning;
`compute_optical_depth` -/

section exitfree
variable (b : Block K) (cells : Nat → Cell K) (ph : Photon K)

/-- exit geometry from the invariants of a state whose index left the range -/
theorem exit_facts (hv : Valid b cells ph) (s : St K) (hC : InCell b s) (hR : Range b s)
    (hO : OutFaces b ph s) (hS : Strict b ph s) (hnr : ¬ InRange b.n s.idx) :
    1 ≤ outputDirection b.n s.idx ∧ outputDirection b.n s.idx < 27 ∧
    (∀ a,
      (pinKind (outputDirection b.n s.idx).toNat a = 1 → s.pos.get a = 0 ∧ ph.dir.get a < 0) ∧
      (pinKind (outputDirection b.n s.idx).toNat a = 2 → s.pos.get a = top b a ∧ 0 < ph.dir.get a) ∧
      (pinKind (outputDirection b.n s.idx).toNat a = 0 →
        0 ≤ s.pos.get a ∧ s.pos.get a ≤ top b a ∧
        (0 < ph.dir.get a → s.pos.get a < top b a) ∧ (ph.dir.get a < 0 → 0 < s.pos.get a))) ∧
    compatOut (outputDirection b.n s.idx).toNat (sgnOf ph.dir.x) (sgnOf ph.dir.y) (sgnOf ph.dir.z)
      = true := by
  have hzone : ∀ (n : Nat) (i : Int), 0 < n →
      (zone n i = 1 → i < 0) ∧ (zone n i = 2 → (n : Int) ≤ i) ∧ (zone n i = 0 → 0 ≤ i ∧ i < (n : Int)) := by
    intro n i hn
    unfold zone
    refine ⟨fun hk => ?_, fun hk => ?_, fun hk => ?_⟩
    · split_ifs at hk <;> omega
    · split_ifs at hk <;> omega
    · split_ifs at hk <;> omega
  have hmask := exitMask_eq b.n s.idx hv.n_pos (fun a => (hR a).1)
  have hz : ¬ ((zone b.n.x s.idx.x) = 0 ∧ (zone b.n.y s.idx.y) = 0 ∧ (zone b.n.z s.idx.z) = 0) := by
    intro ⟨hx, hy, hz⟩
    apply hnr
    intro a
    have := hv.n_pos a
    cases a
    · exact (hzone _ _ (hv.n_pos .x)).2.2 hx
    · exact (hzone _ _ (hv.n_pos .y)).2.2 hy
    · exact (hzone _ _ (hv.n_pos .z)).2.2 hz
  have htab := tables_exit ⟨_, zone_lt b.n.x s.idx.x⟩ ⟨_, zone_lt b.n.y s.idx.y⟩ ⟨_, zone_lt b.n.z s.idx.z⟩ hz
  have hv3 : ∀ a, pinKind (outputDirection b.n s.idx).toNat a = zone (b.n.get a) (s.idx.get a) := by
    intro a
    unfold outputDirection; rw [hmask]
    cases a
    · exact htab.2.2.1
    · exact htab.2.2.2.1
    · exact htab.2.2.2.2
  have hv1 : 1 ≤ outputDirection b.n s.idx := by unfold outputDirection; rw [hmask]; exact htab.1
  have hv2 : outputDirection b.n s.idx < 27 := by unfold outputDirection; rw [hmask]; exact htab.2.1
  refine ⟨hv1, hv2, fun a => ⟨fun hk => ?_, fun hk => ?_, fun hk => ?_⟩, ?_⟩
  · rw [hv3 a] at hk
    have := (hO a).1 ((hzone _ _ (hv.n_pos a)).1 hk)
    exact ⟨this.2, this.1⟩
  · rw [hv3 a] at hk
    have := (hO a).2 ((hzone _ _ (hv.n_pos a)).2.1 hk)
    exact ⟨this.2, this.1⟩
  · rw [hv3 a] at hk
    obtain ⟨h0, h1⟩ := (hzone _ _ (hv.n_pos a)).2.2 hk
    have hc := hC a
    have hcs := hv.cs_pos a
    have hs := hS a h0 h1
    have h0K : (0 : K) ≤ (s.idx.get a : K) := by exact_mod_cast h0
    have h1K : (s.idx.get a : K) + 1 ≤ (b.n.get a : K) := by
      have : s.idx.get a + 1 ≤ (b.n.get a : Int) := by omega
      exact_mod_cast this
    refine ⟨?_, ?_, hs.1, hs.2⟩
    · nlinarith [hc.1]
    · rw [top_eq]; nlinarith [hc.2]
  · have hsx : ∀ a, (zone (b.n.get a) (s.idx.get a) = 1 → sgnOf (ph.dir.get a) = 0) ∧
        (zone (b.n.get a) (s.idx.get a) = 2 → sgnOf (ph.dir.get a) = 2) := fun a =>
      ⟨fun hk => sgnOf_neg ((hO a).1 ((hzone _ _ (hv.n_pos a)).1 hk)).1,
       fun hk => sgnOf_pos ((hO a).2 ((hzone _ _ (hv.n_pos a)).2.1 hk)).1⟩
    unfold outputDirection
    rw [hmask]
    exact tables_compat_out ⟨_, zone_lt _ _⟩ ⟨_, zone_lt _ _⟩ ⟨_, zone_lt _ _⟩
      ⟨_, sgnOf_lt ph.dir.x⟩ ⟨_, sgnOf_lt ph.dir.y⟩ ⟨_, sgnOf_lt ph.dir.z⟩
      (hsx .x).1 (hsx .x).2 (hsx .y).1 (hsx .y).2 (hsx .z).1 (hsx .z).2

/-- the loop-entry state of `interact` is admissible -/
theorem entry_interact (inDir : Nat) (h : Hyp b cells ph inDir) : Entry b cells ph (initSt b ph inDir) :=
  ⟨init_inv b cells ph inDir h.valid h.start, init_inRange b cells ph inDir h.valid h.start,
   by show (0.0 : K) = 0; exact lit0, rfl⟩

/-- What `propagate` and `compute_optical_depth` need at entry: they do NOT move the position
onto the faces named by the classification, so the position handed over must already lie in the
closed cell that `get_start_index` selects — in the closed block on axes whose index is
computed, within one cell of the lower / upper face on axes whose index is `0` / `n-1`. -/
structure StartNoPin (b : Block K) (ph : Photon K) (inDir : Nat) : Prop where
  dir_ok : inDir < 27
  inv_ok : ∀ a, b.inv.get a * b.cs.get a = 1
  computed : ∀ a, idxKind inDir a = 0 →
    0 ≤ ph.pos.get a - b.anchor.get a ∧ ph.pos.get a - b.anchor.get a ≤ top b a
  lower : ∀ a, idxKind inDir a = 1 →
    0 ≤ ph.pos.get a - b.anchor.get a ∧ ph.pos.get a - b.anchor.get a ≤ b.cs.get a
  upper : ∀ a, idxKind inDir a = 2 →
    top b a - b.cs.get a ≤ ph.pos.get a - b.anchor.get a ∧ ph.pos.get a - b.anchor.get a ≤ top b a

/-- hypotheses of the theorems about `propagate` and `compute_optical_depth` -/
structure HypNoPin (b : Block K) (cells : Nat → Cell K) (ph : Photon K) (inDir : Nat) : Prop where
  valid : Valid b cells ph
  start : StartNoPin b ph inDir

theorem initNoPin_axis (inDir : Nat) (hv : Valid b cells ph) (hs : StartNoPin b ph inDir) (a : Ax) :
    (0 ≤ (initStNoPin b ph inDir).idx.get a ∧ (initStNoPin b ph inDir).idx.get a < (b.n.get a : Int)) ∧
    (((initStNoPin b ph inDir).idx.get a : K) * b.cs.get a ≤ (initStNoPin b ph inDir).pos.get a ∧
      (initStNoPin b ph inDir).pos.get a ≤ (((initStNoPin b ph inDir).idx.get a : K) + 1) * b.cs.get a) := by
  have ht := tables_entry_ax inDir hs.dir_ok a
  have hcs := hv.cs_pos a
  have hn := hv.n_pos a
  have hnK : (1 : K) ≤ (b.n.get a : K) := by exact_mod_cast hn
  have hpos : (initStNoPin b ph inDir).pos.get a = ph.pos.get a - b.anchor.get a := by
    show (relPos b ph.pos).get a = _
    unfold relPos; rw [V3.get_of]
  have hidx : (initStNoPin b ph inDir).idx.get a = startIdxAxis b inDir (relPos b ph.pos) a := by
    show (startIdx b inDir _).get a = _
    unfold startIdx; rw [V3.get_of]
  have hrel2 : (relPos b ph.pos).get a = ph.pos.get a - b.anchor.get a := by
    unfold relPos; rw [V3.get_of]
  rw [hpos, hidx]
  unfold startIdxAxis
  have hk : idxKind inDir a = 0 ∨ idxKind inDir a = 1 ∨ idxKind inDir a = 2 := by
    have := ht.2; have := ht.1; omega
  rcases hk with hk | hk | hk
  · rw [hk]
    have hown := hs.computed a hk
    simp only [hrel2]
    set r := ph.pos.get a - b.anchor.get a with hr
    set x := r * b.inv.get a with hx
    have hinv := hs.inv_ok a
    have hinvpos : 0 < b.inv.get a := by
      by_contra h
      have : b.inv.get a * b.cs.get a ≤ 0 := mul_nonpos_of_nonpos_of_nonneg (not_lt.mp h) hcs.le
      linarith
    have hx0 : 0 ≤ x := mul_nonneg hown.1 hinvpos.le
    have hxr : x * b.cs.get a = r := by rw [hx, mul_assoc, hinv, mul_one]
    have hxn : x ≤ (b.n.get a : K) := by
      have h2 := hown.2; rw [top_eq, ← hxr] at h2
      exact le_of_mul_le_mul_right h2 hcs
    obtain ⟨f1, f2, f3⟩ := floorUpTo_spec (b.n.get a) x hx0
    unfold clampIdx
    by_cases hlast : floorUpTo (b.n.get a) x = b.n.get a
    · have hxe : x = (b.n.get a : K) := le_antisymm hxn (by rw [hlast] at f1; exact f1)
      rw [hlast, if_pos (by omega)]
      refine ⟨⟨by omega, by omega⟩, ?_, ?_⟩
      · rw [← hxr, hxe]; push_cast; nlinarith
      · rw [← hxr, hxe]; push_cast; nlinarith
    · have f5 : floorUpTo (b.n.get a) x < b.n.get a := lt_of_le_of_ne f2 hlast
      have f4 : x < ((floorUpTo (b.n.get a) x : Nat) : K) + 1 := by
        rcases f3 with f3 | f3
        · exact f3
        · exact absurd f3 hlast
      rw [if_neg (by omega)]
      refine ⟨⟨by omega, by exact_mod_cast f5⟩, ?_, ?_⟩
      · rw [← hxr]; push_cast; exact mul_le_mul_of_nonneg_right f1 hcs.le
      · rw [← hxr]; push_cast; exact mul_le_mul_of_nonneg_right f4.le hcs.le
  · rw [hk]
    show (0 ≤ (0 : Int) ∧ (0 : Int) < (b.n.get a : Int)) ∧
      (((0 : Int) : K) * b.cs.get a ≤ ph.pos.get a - b.anchor.get a ∧
        ph.pos.get a - b.anchor.get a ≤ (((0 : Int) : K) + 1) * b.cs.get a)
    have h := hs.lower a hk
    refine ⟨⟨le_refl _, by exact_mod_cast hn⟩, ?_, ?_⟩
    · simpa using h.1
    · simpa using h.2
  · rw [hk]
    show (0 ≤ (b.n.get a : Int) - 1 ∧ (b.n.get a : Int) - 1 < (b.n.get a : Int)) ∧
      ((((b.n.get a : Int) - 1 : Int) : K) * b.cs.get a ≤ ph.pos.get a - b.anchor.get a ∧
        ph.pos.get a - b.anchor.get a ≤ ((((b.n.get a : Int) - 1 : Int) : K) + 1) * b.cs.get a)
    have h := hs.upper a hk
    rw [top_eq] at h
    refine ⟨⟨by omega, by omega⟩, ?_, ?_⟩
    · push_cast; linarith [h.1]
    · push_cast; linarith [h.2]

/-- the loop-entry state of `propagate` / `compute_optical_depth` is admissible -/
theorem entry_noPin (inDir : Nat) (h : HypNoPin b cells ph inDir) :
    Entry b cells ph (initStNoPin b ph inDir) := by
  have hr : InRange b.n (initStNoPin b ph inDir).idx :=
    fun a => (initNoPin_axis b cells ph inDir h.valid h.start a).1
  have htau : (initStNoPin b ph inDir).tauDone = 0 := by show (0.0 : K) = 0; exact lit0
  have hout : (initStNoPin b ph inDir).out = [] := rfl
  refine ⟨⟨fun a => (initNoPin_axis b cells ph inDir h.valid h.start a).2, range_of_inRange b hr,
    outFaces_of_inRange b ph hr, fun a => ?_, ?_, fun _ => ?_, fun h' => ?_, Or.inr (Or.inl hr)⟩, hr, htau, hout⟩
  · rw [hout]; simp
  · rw [hout]; trivial
  · rw [hout, htau]; simp
  · rw [htau] at h'; exact absurd h.valid.tau_pos (not_lt.mpr h')

/-- when the position handed over already sits where `update_photon_position` would put it,
`interact` and `propagate`/`compute_optical_depth` start from the same loop-entry state -/
theorem initSt_eq_noPin (inDir : Nat)
    (hpin : pinPos b inDir (relPos b ph.pos) = relPos b ph.pos) :
    initSt b ph inDir = initStNoPin b ph inDir := by
  unfold initSt initStNoPin; simp only [hpin]

/-- everything about the free march from an admissible entry state (the loop of
`compute_optical_depth`): it ends outside the block within the fuel, on the line, with the
optical depth of its passes, on the faces it crossed -/
theorem free_spec (hv : Valid b cells ph) (s0 : St K) (he : Entry b cells ph s0) :
    (marchFree b cells ph (fuel b.n) s0).2 = true ∧
    ¬ InRange b.n (marchFree b cells ph (fuel b.n) s0).1.idx ∧
    InvF b cells ph s0.pos (marchFree b cells ph (fuel b.n) s0).1 ∧
    Strict b ph (marchFree b cells ph (fuel b.n) s0).1 := by
  have hF0 := inv_to_invF b cells ph _ _ he.inv (entry_tau b cells ph s0 hv he)
  have hfin : (marchFree b cells ph (fuel b.n) s0).2 = true := by
    refine (marchFree_finishes b cells ph hv _ _ _ hF0).2 he.inRange ?_
    have := phi_le b ph s0 he.inRange
    unfold fuel; push_cast; omega
  have hF := (marchFree_inv b cells ph hv _ (fuel b.n) _ hF0).1
  have hnr := marchFree_done b cells ph _ _ hfin
  refine ⟨hfin, hnr, hF, ?_⟩
  rcases hF.strict with h | h
  · exact h
  · exact absurd h hnr

end exitfree

end CMacVerif.RayMarch
