import CMacVerif.Lemmas.AtomicsRun
import CMacVerif.Lemmas.AtomicsPool
/-!
C08 lemmas, part 8: the counter protocol of the hydro worker loop
(src/TaskBasedRadiationHydrodynamicsSimulation.cpp): `number_of_tasks.pre_increment()` for every
released child before the `pre_decrement()` of the finished task.  Invariant (sum over threads):
`number_of_tasks` + (children already put into a queue whose increment is still to come)
= (tasks in the queues) + (tasks popped and not yet retired).
-/
namespace CMacVerif.Atomics

/-- calls of a thread of the hydro step: tasks enter the queues only through the initial loop
(`seed`) and through the release of children, and leave them only through pops -/
def HydroCmd (cfg : Cfg) : Cmd → Prop
  | .addTask _ _ => False
  | .lockTask _ => False
  | .seed q _ => q < cfg.nq
  | .getTask q => q < cfg.nq
  | .tryGetTask q => q < cfg.nq
  | _ => True

def isRel : AddK → Bool
  | .rel _ _ => true
  | _ => false

def pcHydro (cfg : Cfg) : PC → Prop
  | .addLock q _ k => q < cfg.nq ∧ k ≠ .plain
  | .addBody q _ k => q < cfg.nq ∧ k ≠ .plain
  | .addUnlock q _ k => q < cfg.nq ∧ k ≠ .plain
  | .numInc q _ k => q < cfg.nq ∧ k ≠ .plain
  | .popLock q _ => q < cfg.nq
  | .popInit q => q < cfg.nq
  | .popScan q _ => q < cfg.nq
  | .popRemove q _ _ => q < cfg.nq
  | .popUnlock q _ => q < cfg.nq
  | .tlStart c _ => match c with | .alone => False | .pop q _ => q < cfg.nq
  | .tl0 c _ => match c with | .alone => False | .pop q _ => q < cfg.nq
  | .tl1 c _ => match c with | .alone => False | .pop q _ => q < cfg.nq
  | .tlBack c _ => match c with | .alone => False | .pop q _ => q < cfg.nq
  | _ => True

def HydroOk (cfg : Cfg) (th : Thread) : Prop := (∀ c ∈ th.prog, HydroCmd cfg c) ∧ pcHydro cfg th.pc

/-- task between its pop and the final `pre_decrement` of its release, by program counter -/
def livePC : PC → Nat
  | .tuStart _ => 1
  | .tu1 _ => 1
  | .tu0 _ => 1
  | .relDec _ _ _ => 1
  | .retire _ => 1
  | .addLock _ _ k => (isRel k).toNat
  | .addBody _ _ k => (isRel k).toNat
  | .addUnlock _ _ k => (isRel k).toNat
  | .numInc _ _ k => (isRel k).toNat
  | _ => 0

def live (th : Thread) : Nat := th.tasks.length + th.fin.length + livePC th.pc

/-- child already in its queue, `number_of_tasks.pre_increment()` still to come -/
def debtRel : PC → Nat
  | .addUnlock _ _ k => (isRel k).toNat
  | .numInc _ _ k => (isRel k).toNat
  | _ => 0

/-- the same inside the initial loop -/
def debtSeed : PC → Nat
  | .addUnlock _ _ k => (!isRel k).toNat
  | .numInc _ _ k => (!isRel k).toNat
  | _ => 0

def qlen (m : Mem) (n : Nat) : Nat := sumN (fun q => (m.items q).length) n

theorem qlen_upd (m : Mem) (n q : Nat) (l : List Nat) (hq : q < n) :
    sumN (fun q' => (upd m.items q l q').length) n + (m.items q).length = qlen m n + l.length := by
  have : (fun q' => (upd m.items q l q').length) = upd (fun q' => (m.items q').length) q l.length := by
    funext q'; simp only [upd_apply]; split <;> rfl
  rw [this]
  exact sumN_upd _ q n _ hq

theorem hydro_dispatch (cfg : Cfg) (th : Thread) (c : Cmd) (hpc : th.pc = .idle) (hc : HydroCmd cfg c)
    (hp : ∀ c ∈ th.prog, HydroCmd cfg c) :
    HydroOk cfg (dispatch cfg th c) ∧ live (dispatch cfg th c) = live th ∧
    debtSeed (dispatch cfg th c).pc = 0 ∧ debtRel (dispatch cfg th c).pc = 0 := by
  cases c
  case unlockTask j =>
    simp only [dispatch]
    split
    · rename_i t ht
      have hm := pick_mem _ _ _ ht
      have hl := List.length_erase_of_mem hm
      have hpos : 0 < th.tasks.length := List.length_pos_of_mem hm
      refine ⟨⟨hp, by simp [pcHydro]⟩, ?_, by simp [debtSeed], by simp [debtRel]⟩
      simp only [live, livePC, hpc, hl]; omega
    · exact ⟨⟨hp, by simp [ret, pcHydro]⟩, by simp [live, ret, livePC, hpc], by simp [ret, debtSeed], by simp [ret, debtRel]⟩
  case release =>
    simp only [dispatch]
    split
    · rename_i p rest hf
      split <;> exact ⟨⟨hp, by simp [pcHydro]⟩, by simp [live, livePC, hpc, hf]; omega, by simp [debtSeed], by simp [debtRel]⟩
    · exact ⟨⟨hp, by simp [ret, pcHydro]⟩, by simp [live, ret, livePC, hpc], by simp [ret, debtSeed], by simp [ret, debtRel]⟩
  all_goals
    simp only [dispatch, ret]
    (repeat' split) <;>
      exact ⟨⟨hp, by simp_all [pcHydro, HydroCmd]⟩, by simp [live, livePC, hpc, isRel], by simp [debtSeed, isRel], by simp [debtRel, isRel]⟩

local macro "hyd" : tactic =>
  `(tactic| (refine ⟨⟨by assumption, ?_⟩, ?_⟩ <;>
      simp_all [pcHydro, live, livePC, debtSeed, debtRel, isRel, ret, tlSucc, tlFail, getDone, qlen] <;> (try omega)))

theorem exec_hydro (cfg : Cfg) (m : Mem) (th : Thread) (hq : ∀ c, cfg.queueOf c < cfg.nq)
    (hok : HydroOk cfg th) (href : RefOk m th) :
    HydroOk cfg (exec cfg m th).2 ∧
    ((exec cfg m th).1.num + (debtSeed (exec cfg m th).2.pc : Int) + (debtRel (exec cfg m th).2.pc : Int)
        + (qlen m cfg.nq : Int) + (live th : Int)
      = m.num + (debtSeed th.pc : Int) + (debtRel th.pc : Int) + (qlen (exec cfg m th).1 cfg.nq : Int)
        + (live (exec cfg m th).2 : Int)) := by
  obtain ⟨hp, hpcok⟩ := hok
  unfold exec
  cases hpc : th.pc <;> rw [hpc] at hpcok
  case idle =>
    simp only
    split
    · exact ⟨⟨hp, by rw [hpc]; trivial⟩, by simp [hpc]⟩
    · rename_i c0 rest hprog
      have := hydro_dispatch cfg { th with pc := .idle, prog := rest } c0 rfl (hp c0 (by simp [hprog]))
        (fun c hc => hp c (by simp [hprog, hc]))
      obtain ⟨h1, h2, h3, h4⟩ := this
      refine ⟨h1, ?_⟩
      simp only [h3, h4]
      have : live th = live { th with pc := PC.idle, prog := rest } := by simp [live, hpc]
      rw [this, h2]; simp [debtSeed, debtRel]
  case addBody q t k =>
    have hqn : q < cfg.nq := hpcok.1
    have := qlen_upd m cfg.nq q (m.items q ++ [t]) hqn
    simp only [List.length_append, List.length_cons, List.length_nil] at this
    cases k <;> (refine ⟨⟨hp, by simp_all [pcHydro]⟩, ?_⟩) <;>
      simp_all [live, livePC, debtSeed, debtRel, isRel, qlen] <;> omega
  case popRemove q j t =>
    have hqn : q < cfg.nq := hpcok
    have hj := href q j t (by simp [hpc, pcQueueRef])
    have hlt : j < (m.items q).length := getElem?_lt _ _ _ hj
    have := qlen_upd m cfg.nq q ((m.items q).eraseIdx j) hqn
    have hl : ((m.items q).eraseIdx j).length = (m.items q).length - 1 := by
      rw [List.length_eraseIdx]; simp [hlt]
    simp only [hj]
    refine ⟨⟨hp, by simp_all [pcHydro]⟩, ?_⟩
    simp_all [live, livePC, debtSeed, debtRel, isRel, qlen]
    omega
  case relDec p c rem =>
    have := hq c
    simp only
    (repeat' split) <;> hyd
  case numInc q t k =>
    cases k <;> simp only <;> (repeat' split) <;> hyd
  case addUnlock q t k => cases k <;> hyd
  case addLock q t k => cases k <;> simp only <;> (repeat' split) <;> hyd
  case tlStart c t => cases c <;> simp only <;> (repeat' split) <;> hyd
  case tl0 c t => cases c <;> simp only <;> (repeat' split) <;> hyd
  case tl1 c t => cases c <;> simp only <;> (repeat' split) <;> hyd
  case tlBack c t => cases c <;> simp only <;> (repeat' split) <;> hyd
  case getTotal j r => cases r <;> hyd
  all_goals
    first
    | (simp only; (repeat' split) <;> hyd <;> done)

/-- accounting of the hydro worker loop's counter: `number_of_tasks` + (children already queued
whose increment is still to come) = (tasks in the queues) + (tasks popped and not yet retired) -/
def HydroInv (cfg : Cfg) (s : State) : Prop :=
  (∀ th ∈ s.threads, HydroOk cfg th) ∧
  (s.mem.num + (sumT (fun th => debtSeed th.pc) s.threads : Int) + (sumT (fun th => debtRel th.pc) s.threads : Int)
    = (qlen s.mem cfg.nq : Int) + (sumT live s.threads : Int))

theorem hydroInv_step (cfg : Cfg) (hq : ∀ c, cfg.queueOf c < cfg.nq) (s : State) (tid : Nat)
    (hs : StabInv s) (h : HydroInv cfg s) : HydroInv cfg (step cfg s tid) := by
  cases hth : s.threads[tid]? with
  | none => rw [step_none cfg s tid hth]; exact h
  | some th =>
    obtain ⟨hok, heq⟩ := h
    have hloc := exec_hydro cfg s.mem th hq (hok th (List.mem_of_getElem? hth)) (hs tid th hth).1
    have f1 := sumT_set (fun th => debtSeed th.pc) s.threads tid th (exec cfg s.mem th).2 hth
    have f2 := sumT_set (fun th => debtRel th.pc) s.threads tid th (exec cfg s.mem th).2 hth
    have f3 := sumT_set live s.threads tid th (exec cfg s.mem th).2 hth
    rw [step_some cfg s tid th hth]
    refine ⟨?_, ?_⟩
    · intro x hx
      rcases mem_set_cases _ _ _ _ hx with rfl | hx
      · exact hloc.1
      · exact hok x hx
    · have := hloc.2
      simp only at *
      omega

theorem hydroInv_run (cfg : Cfg) (hq : ∀ c, cfg.queueOf c < cfg.nq) (progs : List (List Cmd))
    (hprog : ∀ p ∈ progs, ∀ c ∈ p, HydroCmd cfg c) (sched : List Nat) :
    HydroInv cfg (run cfg (init progs) sched) := by
  have := run_inv cfg (fun s => (LockInv cfg s ∧ StabInv s) ∧ HydroInv cfg s)
    (fun s tid h => ⟨⟨lockInv_step cfg s tid h.1.1, stabInv_step cfg s tid h.1.1 h.1.2⟩,
      hydroInv_step cfg hq s tid h.1.2 h.2⟩)
    (init progs) sched ⟨⟨lockInv_init cfg progs, stabInv_init progs⟩, ?_⟩
  · exact this.2
  · refine ⟨?_, ?_⟩
    · intro th hth
      simp only [init, List.mem_map] at hth
      obtain ⟨p, hp, rfl⟩ := hth
      exact ⟨hprog p hp, trivial⟩
    · simp only [init]
      rw [sumT_eq_zero, sumT_eq_zero, sumT_eq_zero]
      · simp [qlen, sumN_zero]
      all_goals
        intro th hth
        simp only [List.mem_map] at hth
        obtain ⟨p, _, rfl⟩ := hth
        simp [live, livePC, debtSeed, debtRel]

/-- a thread runs a task: popped (or inside `unlock_dependency`) -/
def unlockingPC : PC → Nat
  | .tuStart _ => 1
  | .tu1 _ => 1
  | .tu0 _ => 1
  | _ => 0

def runCount (th : Thread) : Nat := th.tasks.length + unlockingPC th.pc

theorem runCount_le_live (th : Thread) : runCount th + debtRel th.pc ≤ live th := by
  unfold runCount live
  cases hpc : th.pc <;> simp [unlockingPC, debtRel, livePC] <;> omega

/-- **the counter covers every queued and every running task** -/
theorem hydro_counter_bound (cfg : Cfg) (s : State) (h : HydroInv cfg s) :
    (qlen s.mem cfg.nq : Int) + (sumT runCount s.threads : Int)
      ≤ s.mem.num + (sumT (fun th => debtSeed th.pc) s.threads : Int) := by
  have h1 := sumT_le' (fun th => runCount th + debtRel th.pc) live s.threads (fun th _ => runCount_le_live th)
  rw [sumT_add] at h1
  have := h.2
  omega

theorem sumT_zero_elim (f : Thread → Nat) (l : List Thread) (h : sumT f l = 0) : ∀ th ∈ l, f th = 0 := by
  induction l with
  | nil => intro th hth; cases hth
  | cons a l ih =>
    simp only [sumT_cons] at h
    intro th hth
    rcases List.mem_cons.mp hth with rfl | hth
    · omega
    · exact ih (by omega) th hth

end CMacVerif.Atomics
