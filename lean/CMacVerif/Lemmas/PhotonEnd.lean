import CMacVerif.Lemmas.PhotonExec
/-! C01: consequences of the invariant -- the done list only grows, the run flag is only cleared
when everything is accounted for, and a state in which all requested packets are terminated
contains nothing but (packet-free) flush tasks and finishing continuous source tasks. -/
namespace CMacVerif.Photon
open CMacVerif.Worker (sumOver sumOver_congr sumOver_le sumOver_zero)

/-! ### the done list grows, the run flag only changes in `checkTermination` -/

theorem addFlush_done {cfg : Cfg} : ∀ (fl : List Nat) (s s' : State) (c : Nat),
    addFlush cfg s c fl = some s' → s'.done = s.done ∧ s'.run = s.run := by
  intro fl
  induction fl with
  | nil => intro s s' c h; simp only [addFlush] at h; injection h with h; subst h; exact ⟨rfl, rfl⟩
  | cons t ts ih =>
    intro s s' c h
    simp only [addFlush] at h
    split_ifs at h
    have := ih _ s' (c + 1) h
    exact this

theorem fold_rest {cfg : Cfg} {g : Nat} {outs : Nat → List Nat} {res : Nat → DirRes} :
    ∀ (l : List Nat) (acc acc' : State × Nat × Nat), foldOpt (travDir cfg g outs res) acc l = some acc' →
      SameRest acc.1 acc'.1 := by
  intro l
  induction l with
  | nil => intro acc acc' h; simp only [foldOpt] at h; injection h with h; subst h; exact SameRest.refl _
  | cons i l ih =>
    intro acc acc' h
    simp only [foldOpt] at h
    split at h
    · cases h
    · rename_i acc1 hstep
      simp only [travDir] at hstep
      split at hstep
      · cases hstep
      · rename_i s1 hs1
        injection hstep with hstep
        have h1 := (travDirState_frame hs1).rest
        have h2 := ih acc1 acc' h
        rw [← hstep] at h2
        exact SameRest.trans h1 h2

theorem step_done_run {cfg : Cfg} {s s' : State} (l : Label) (h : step cfg s l = some s') :
    (∃ x, s'.done = s.done ++ x) ∧ (s'.run = s.run ∨ (s'.run = false ∧ s'.done = s.done ∧ s.done.length = cfg.N)) := by
  cases l with
  | launchBatch src t => obtain ⟨_, _, _, _, rfl⟩ := step_launchBatch h; exact ⟨⟨[], by simp⟩, Or.inl rfl⟩
  | launchCont t => obtain ⟨_, _, _, _, rfl⟩ := step_launchCont h; exact ⟨⟨[], by simp⟩, Or.inl rfl⟩
  | acquire t => obtain ⟨_, _, _, rfl⟩ := step_acquire h; exact ⟨⟨[], by simp⟩, Or.inl rfl⟩
  | enqueue t => obtain ⟨_, _, rfl⟩ := step_enqueue h; exact ⟨⟨[], by simp⟩, Or.inl rfl⟩
  | execSource t b t' => obtain ⟨_, _, _, _, _, _, _, rfl⟩ := step_execSource h; exact ⟨⟨[], by simp⟩, Or.inl rfl⟩
  | contGen t g k => obtain ⟨_, _, _, _, _, _, _, _, _, rfl⟩ := step_contGen h; exact ⟨⟨[], by simp⟩, Or.inl rfl⟩
  | contOverflow t g b t' =>
    obtain ⟨_, _, _, _, _, _, _, _, _, rfl⟩ := step_contOverflow h; exact ⟨⟨[], by simp⟩, Or.inl rfl⟩
  | contFinish t fl =>
    obtain ⟨c, n, s2, _, _, _, rfl, hcase⟩ := step_contFinish h
    have : s2.done = s.done ∧ s2.run = s.run := by
      rcases hcase with ⟨_, _, _, hadd⟩ | ⟨_, _, rfl⟩ | ⟨_, rfl⟩
      · have := addFlush_done fl _ s2 0 hadd
        exact this
      · exact ⟨rfl, rfl⟩
      · exact ⟨rfl, rfl⟩
    exact ⟨⟨[], by simp [this.1]⟩, Or.inl this.2⟩
  | flushOne t g b t' => obtain ⟨_, _, _, _, _, _, _, _, rfl⟩ := step_flushOne h; exact ⟨⟨[], by simp⟩, Or.inl rfl⟩
  | flushFinish t => obtain ⟨_, _, _, rfl⟩ := step_flushFinish h; exact ⟨⟨[], by simp⟩, Or.inl rfl⟩
  | execTraverse t fates res =>
    obtain ⟨b0, buf, s1, li, ls, _, _, _, _, hfold, rfl⟩ := step_execTraverse h
    have hr := fold_rest _ _ _ hfold
    simp only at hr
    refine ⟨⟨goneOf cfg buf.sub (buf.ids.zip fates), ?_⟩, Or.inl hr.2.2.2.2.1⟩
    show s1.done ++ _ = s.done ++ _
    rw [hr.2.2.2.1]
  | execReemit t keep t' =>
    obtain ⟨_, _, _, _, _, hcase⟩ := step_execReemit h
    rcases hcase with ⟨_, rfl⟩ | ⟨_, _, _, rfl⟩
    · exact ⟨⟨_, rfl⟩, Or.inl rfl⟩
    · exact ⟨⟨_, rfl⟩, Or.inl rfl⟩
  | premature g t' => obtain ⟨_, _, _, _, _, _, _, rfl⟩ := step_premature h; exact ⟨⟨[], by simp⟩, Or.inl rfl⟩
  | checkTermination =>
    obtain ⟨_, hd, rfl⟩ := step_checkTermination h
    exact ⟨⟨[], by simp⟩, Or.inr ⟨rfl, rfl, hd⟩⟩

/-! ### lengths -/

theorem weight_one (cfg : Cfg) (s : State) :
    weight cfg (fun _ => 1) s = s.done.length + sumOver (List.range cfg.nsrc) (fun i => (s.srcLeft i).length)
      + s.contPool.length + sumOver (List.range cfg.taskCap) (fun t => taskW (fun _ => 1) (s.tasks t))
      + sumOver (List.range cfg.bufCap) (fun b => bufLen s.pool b)
      + sumOver (pairsU cfg) (fun k => (s.cont k).length) := by
  simp only [weight, wsum_one]
  congr 2
  apply sumOver_congr
  intro b _
  simp only [bufLen, bufW]
  cases s.pool b <;> simp [wsum_one]

theorem done_le_weight (cfg : Cfg) (s : State) : s.done.length ≤ weight cfg (fun _ => 1) s := by
  rw [weight_one]; omega

theorem wsum_le (w w' : Nat → Nat) (h : ∀ x, w x ≤ w' x) (l : List Nat) : wsum w l ≤ wsum w' l := by
  induction l with
  | nil => simp
  | cons a l ih => simp only [wsum_cons]; have := h a; omega

theorem sumOver_mono {τ : Type} (l : List τ) (f g : τ → Nat) (h : ∀ x ∈ l, f x ≤ g x) : sumOver l f ≤ sumOver l g := by
  induction l with
  | nil => simp [sumOver]
  | cons a l ih =>
    simp only [sumOver, List.map_cons, List.sum_cons] at ih ⊢
    have h1 := h a List.mem_cons_self
    have h2 := ih (fun x hx => h x (List.mem_cons_of_mem _ hx))
    omega

/-- everything except the terminated packets -/
def restWeight (cfg : Cfg) (w : Nat → Nat) (s : State) : Nat :=
  sumOver (List.range cfg.nsrc) (fun i => wsum w (s.srcLeft i)) + wsum w s.contPool
    + sumOver (List.range cfg.taskCap) (fun t => taskW w (s.tasks t))
    + sumOver (List.range cfg.bufCap) (fun b => bufW w (s.pool b))
    + sumOver (pairsU cfg) (fun k => wsum w (s.cont k))

theorem weight_split (cfg : Cfg) (w : Nat → Nat) (s : State) : weight cfg w s = wsum w s.done + restWeight cfg w s := by
  simp only [weight, restWeight]; omega

theorem restWeight_mono (cfg : Cfg) (w w' : Nat → Nat) (h : ∀ x, w x ≤ w' x) (s : State) :
    restWeight cfg w s ≤ restWeight cfg w' s := by
  simp only [restWeight]
  have h1 := sumOver_mono (List.range cfg.nsrc) (fun i => wsum w (s.srcLeft i)) (fun i => wsum w' (s.srcLeft i))
    (fun x _ => wsum_le w w' h _)
  have h2 := wsum_le w w' h s.contPool
  have h3 := sumOver_mono (List.range cfg.taskCap) (fun t => taskW w (s.tasks t)) (fun t => taskW w' (s.tasks t)) (by
    intro t _
    cases ht : s.tasks t with
    | none => simp
    | some tk =>
      cases tk with
      | mk k st => cases k <;> simp [wsum_le w w' h])
  have h4 := sumOver_mono (List.range cfg.bufCap) (fun b => bufW w (s.pool b)) (fun b => bufW w' (s.pool b)) (by
    intro b _
    cases hb : s.pool b with
    | none => simp
    | some bb => cases bb; simp [wsum_le w w' h])
  have h5 := sumOver_mono (pairsU cfg) (fun k => wsum w (s.cont k)) (fun k => wsum w' (s.cont k))
    (fun x _ => wsum_le w w' h _)
  omega

/-! ### a state in which everything is terminated -/

/-- what a state looks like once all requested packets are terminated -/
structure AllDone (cfg : Cfg) (s : State) : Prop where
  pool : ∀ b, s.pool b = none
  active : ∀ g i, s.active g i = none
  cont : ∀ k, s.cont k = []
  src : ∀ i, i < cfg.nsrc → s.srcLeft i = []
  contPool : s.contPool = []
  /-- the only tasks that can still exist carry no packets: flush tasks, and continuous source tasks
  between their last packet and the update of the counter -/
  tasks : ∀ t tk, s.tasks t = some tk → (∃ c, tk.kind = .flush c) ∨ (∃ c n, tk.kind = .contSource c n [] ∧ tk.st = .running)

theorem allDone_of_rest {cfg : Cfg} {s : State} (hi : Inv cfg s) (h0 : restWeight cfg (fun _ => 1) s = 0) : AllDone cfg s := by
  simp only [restWeight] at h0
  have z1 : sumOver (List.range cfg.nsrc) (fun i => wsum (fun _ => 1) (s.srcLeft i)) = 0 := by omega
  have z2 : wsum (fun _ => 1) s.contPool = 0 := by omega
  have z3 : sumOver (List.range cfg.taskCap) (fun t => taskW (fun _ => 1) (s.tasks t)) = 0 := by omega
  have z4 : sumOver (List.range cfg.bufCap) (fun b => bufW (fun _ => 1) (s.pool b)) = 0 := by omega
  have z5 : sumOver (pairsU cfg) (fun k => wsum (fun _ => 1) (s.cont k)) = 0 := by omega
  have hpool : ∀ b, s.pool b = none := by
    intro b
    cases hb : s.pool b with
    | none => rfl
    | some buf =>
      exfalso
      obtain ⟨hcap, r, hr⟩ := hi.own.owned b buf hb
      obtain ⟨buf', hb', hok⟩ := hi.own.live r b hr
      rw [hb] at hb'; injection hb' with hb'; subst hb'
      have hz := sumOver_zero z4 b (List.mem_range.mpr hcap)
      simp only [hb] at hz
      cases buf with
      | mk bs bd bids =>
        simp only [bufW_some, wsum_one] at hz
        have hne : bids ≠ [] := by cases r <;> exact hok.1
        exact hne (List.length_eq_zero_iff.mp hz)
  refine ⟨hpool, ?_, ?_, ?_, ?_, ?_⟩
  · intro g i
    cases ha : s.active g i with
    | none => rfl
    | some a =>
      exfalso
      obtain ⟨buf, hb, _⟩ := hi.own.live (.act g i) a ha
      rw [hpool a] at hb; cases hb
  · intro k
    by_cases hk : s.cont k = []
    · exact hk
    · have hmem := hi.ct.idx k hk
      have hz := sumOver_zero z5 k hmem
      simp only [wsum_one] at hz
      exact List.length_eq_zero_iff.mp hz
  · intro i hi'
    have hz := sumOver_zero z1 i (List.mem_range.mpr hi')
    simp only [wsum_one] at hz
    exact List.length_eq_zero_iff.mp hz
  · rw [wsum_one] at z2; exact List.length_eq_zero_iff.mp z2
  · intro t tk ht
    obtain ⟨hcap, hgood⟩ := hi.tk t tk ht
    have hz := sumOver_zero z3 t (List.mem_range.mpr hcap)
    simp only [ht] at hz
    cases tk with
    | mk k st =>
      cases k with
      | source a ids =>
        exfalso
        simp only [taskW_some, kindW_source, wsum_one] at hz
        exact hgood.1 (List.length_eq_zero_iff.mp hz)
      | contSource c n ids =>
        simp only [taskW_some, kindW_cont, wsum_one] at hz
        have hids : ids = [] := List.length_eq_zero_iff.mp hz
        subst hids
        right
        refine ⟨c, n, rfl, ?_⟩
        by_cases hst : st = .running
        · exact hst
        · exact absurd rfl (hgood.2.2 hst)
      | traverse b =>
        exfalso
        have hr : refBuf s (.task t) = some b := by rw [refBuf_task_some ht]; rfl
        obtain ⟨buf, hb, _⟩ := hi.own.live _ _ hr
        rw [hpool b] at hb; cases hb
      | reemit b =>
        exfalso
        have hr : refBuf s (.task t) = some b := by rw [refBuf_task_some ht]; rfl
        obtain ⟨buf, hb, _⟩ := hi.own.live _ _ hr
        rw [hpool b] at hb; cases hb
      | flush c => exact Or.inl ⟨c, rfl⟩

/-- reachable states: invariant, conserved weights, run flag -/
structure Reach (cfg : Cfg) (s0 s : State) : Prop where
  inv : Inv cfg s
  wt : ∀ w, weight cfg w s = weight cfg w s0
  flag : s.run = false → s.done.length = weight cfg (fun _ => 1) s0

theorem reach_step {cfg : Cfg} {s0 s s' : State} (l : Label) (hN : weight cfg (fun _ => 1) s0 = cfg.N)
    (hr : Reach cfg s0 s) (h : step cfg s l = some s') : Reach cfg s0 s' := by
  obtain ⟨hi', hw'⟩ := step_inv l hr.inv h
  refine ⟨hi', fun w => by rw [hw' w, hr.wt w], ?_⟩
  intro hrun
  obtain ⟨⟨x, hx⟩, hflag⟩ := step_done_run l h
  have hle : s'.done.length ≤ weight cfg (fun _ => 1) s0 := by
    have := done_le_weight cfg s'
    rw [hw' _, hr.wt _] at this; exact this
  rcases hflag with e | ⟨_, e2, e3⟩
  · rw [hrun] at e
    have := hr.flag e.symm
    rw [hx, List.length_append] at hle ⊢
    omega
  · rw [e2, e3, hN]

theorem reach_run {cfg : Cfg} {s0 : State} (hN : weight cfg (fun _ => 1) s0 = cfg.N) :
    ∀ (ls : List Label) (s s' : State), Reach cfg s0 s → run cfg s ls = some s' → Reach cfg s0 s' := by
  intro ls
  induction ls with
  | nil => intro s s' hr h; simp only [run] at h; injection h with h; subst h; exact hr
  | cons l ls ih =>
    intro s s' hr h
    simp only [run] at h
    split at h
    · cases h
    · rename_i s1 hs1
      exact ih s1 s' (reach_step l hN hr hs1) h

theorem reach_init (cfg : Cfg) (srcIds : Nat → List Nat) (contIds : List Nat) :
    Reach cfg (init srcIds contIds) (init srcIds contIds) :=
  ⟨init_inv cfg srcIds contIds, fun _ => rfl, fun h => by simp [init] at h⟩

/-- all requested packets terminated => nothing else is left -/
theorem reach_allDone {cfg : Cfg} {s0 s : State} (hr : Reach cfg s0 s)
    (hd : s.done.length = weight cfg (fun _ => 1) s0) : AllDone cfg s := by
  apply allDone_of_rest hr.inv
  have := hr.wt (fun _ => 1)
  rw [weight_split, wsum_one] at this
  omega

end CMacVerif.Photon
