import CMacVerif.Lemmas.Ranlux
/-!
Helper lemmas for C13, part 2: the invariant of reachable states, `next` for an arbitrary exact
rounding, and the representation of the state by the textbook sequence `swb`.
-/
namespace CMacVerif.Ranlux

/-- what `set_seed` establishes and every draw preserves -/
structure Inv (s : State) : Prop where
  bnd : Bnd s.x
  cok : Cok s.carry
  ir  : s.ir < 12
  old : s.irOld < 12
  jr  : s.jr = (s.irOld + 7) % 12
  pr  : s.pr = 397

/-- the refill inside `next`, for a state whose read index has just reached the refill index -/
theorem refill_eq' (R : Rnd) (hR : RExact R) (s : State) (h : Inv s) (e : s.ir = s.irOld) :
    incrementState R s = { iter singleStep s.pr s with irOld := (iter singleStep s.pr s).ir } :=
  incrementState_eq R hR s h.bnd h.cok h.ir (by rw [h.jr, e]) (by rw [h.pr]; omega)

theorem refill_eq (R : Rnd) (hR : RExact R) (s : State) (h : Inv s) (e : s.ir = s.irOld) :
    incrementState R s = { iter singleStep 397 s with irOld := (iter singleStep 397 s).ir } := by
  have := incrementState_eq R hR s h.bnd h.cok h.ir (by rw [h.jr, e]) (by rw [h.pr]; omega)
  rw [h.pr] at this
  exact this

theorem refill_inv_gen (n : Nat) (hn : n % 12 = 1) (s : State) (h : Inv s) (e : s.ir = s.irOld) :
    Inv { iter singleStep n s with irOld := (iter singleStep n s).ir } := by
  have hj : s.jr < 12 := by rw [h.jr]; omega
  have g := iter_good n s ⟨h.bnd, h.cok, h.ir, hj⟩
  have e1 := iter_jr n s hj
  have e2 := iter_ir n s h.ir
  have e3 := iter_pr n s
  generalize iter singleStep n s = s' at g e1 e2 e3 ⊢
  refine ⟨g.1, g.2.1, g.2.2.1, g.2.2.1, ?_, ?_⟩
  · dsimp only
    rw [e1, e2, h.jr, e]; omega
  · dsimp only
    rw [e3, h.pr]

theorem refill_inv (s : State) (h : Inv s) (e : s.ir = s.irOld) :
    Inv { iter singleStep s.pr s with irOld := (iter singleStep s.pr s).ir } :=
  refill_inv_gen s.pr (by rw [h.pr]) s h e

theorem next_R (R : Rnd) (hR : RExact R) (s : State) (h : Inv s) : next R s = next exact s := by
  unfold next
  dsimp only
  by_cases e : (s.ir + 1) % 12 = s.irOld
  · have h1 : Inv { s with ir := (s.ir + 1) % 12 } :=
      ⟨h.bnd, h.cok, by dsimp only; omega, h.old, h.jr, h.pr⟩
    rw [if_pos e, if_pos e, refill_eq' R hR _ h1 e, refill_eq' exact exact_RExact _ h1 e]
  · rw [if_neg e, if_neg e]

theorem next_inv (s : State) (h : Inv s) : Inv (next exact s).2 := by
  unfold next
  dsimp only
  have h1 : Inv { s with ir := (s.ir + 1) % 12 } :=
    ⟨h.bnd, h.cok, by dsimp only; omega, h.old, h.jr, h.pr⟩
  by_cases e : (s.ir + 1) % 12 = s.irOld
  · rw [if_pos e, refill_eq' exact exact_RExact _ h1 e]
    exact refill_inv _ h1 e
  · rw [if_neg e]
    exact h1

theorem next_val (s : State) (h : Inv s) : 0 ≤ (next exact s).1 ∧ (next exact s).1 < B := by
  have hi := next_inv s h
  have : (next exact s).1 = rd (next exact s).2.x (next exact s).2.ir := rfl
  rw [this]
  exact hi.bnd.2 _ hi.ir

theorem after_inv (s : State) (h : Inv s) (n : Nat) : Inv (after exact s n) := by
  induction n with
  | zero => exact h
  | succ n ih => exact next_inv _ ih

theorem after_R (R : Rnd) (hR : RExact R) (s : State) (h : Inv s) (n : Nat) :
    after R s n = after exact s n := by
  induction n with
  | zero => rfl
  | succ n ih => rw [after, ih, next_R R hR _ (after_inv s h n)]; rfl

/-! ### the state is a window of the textbook sequence -/

theorem swb_lt (x0 : Nat → Int) (n : Nat) (h : n < 12) : swb x0 n = (x0 n, 0) := by
  rw [swb]; simp [h]

theorem swb_ge (x0 : Nat → Int) (n : Nat) (h : 12 ≤ n) :
    swb x0 n =
      if (swb x0 (n - 5)).1 - (swb x0 (n - 12)).1 - (swb x0 (n - 1)).2 < 0
      then ((swb x0 (n - 5)).1 - (swb x0 (n - 12)).1 - (swb x0 (n - 1)).2 + B, 1)
      else ((swb x0 (n - 5)).1 - (swb x0 (n - 12)).1 - (swb x0 (n - 1)).2, 0) := by
  rw [swb]; simp [show ¬ n < 12 by omega]

/-- after `t` steps from the seed array: position `p` holds the newest `X_m` with `m ≡ p (12)`,
`m < 12 + t`; the carry is the last borrow -/
structure Rep (x0 : Nat → Int) (t : Nat) (x : Array Int) (c : Int) : Prop where
  size : x.size = 12
  val  : ∀ p, p < 12 → rd x p = (swb x0 (p + 12 * ((t + 11 - p) / 12))).1
  car  : c = (swb x0 (t + 11)).2

theorem rep_step (x0 : Nat → Int) (t : Nat) (x : Array Int) (c : Int) (h : Rep x0 t x c) :
    Rep x0 (t + 1) (sb exact x c (t % 12) ((t + 7) % 12)).1
      (sb exact x c (t % 12) ((t + 7) % 12)).2 := by
  have hi : t % 12 < 12 := Nat.mod_lt _ (by omega)
  have hj : (t + 7) % 12 < 12 := Nat.mod_lt _ (by omega)
  have vi := h.val _ hi
  have vj := h.val _ hj
  have ei : t % 12 + 12 * ((t + 11 - t % 12) / 12) = t := by omega
  have ej : (t + 7) % 12 + 12 * ((t + 11 - (t + 7) % 12) / 12) = t + 7 := by omega
  rw [ei] at vi
  rw [ej] at vj
  have hs := swb_ge x0 (t + 12) (by omega)
  have a1 : t + 12 - 5 = t + 7 := by omega
  have a2 : t + 12 - 12 = t := by omega
  have a3 : t + 12 - 1 = t + 11 := by omega
  rw [a1, a2, a3, ← vi, ← vj, ← h.car] at hs
  have hsz : t % 12 < x.size := by rw [h.size]; exact hi
  rw [sb_exact]
  by_cases hd : rd x ((t + 7) % 12) - rd x (t % 12) - c < 0
  · simp only [hd, if_true] at hs ⊢
    refine ⟨by rw [size_wr]; exact h.size, ?_, ?_⟩
    · intro p hp
      rw [rd_wr _ _ _ _ hsz]
      by_cases e : t % 12 = p
      · have : p + 12 * ((t + 1 + 11 - p) / 12) = t + 12 := by omega
        rw [if_pos e, this, hs]
      · have : p + 12 * ((t + 1 + 11 - p) / 12) = p + 12 * ((t + 11 - p) / 12) := by omega
        rw [if_neg e, this]; exact h.val p hp
    · have : t + 1 + 11 = t + 12 := by omega
      rw [this, hs]
  · simp only [hd, if_false] at hs ⊢
    refine ⟨by rw [size_wr]; exact h.size, ?_, ?_⟩
    · intro p hp
      rw [rd_wr _ _ _ _ hsz]
      by_cases e : t % 12 = p
      · have : p + 12 * ((t + 1 + 11 - p) / 12) = t + 12 := by omega
        rw [if_pos e, this, hs]
      · have : p + 12 * ((t + 1 + 11 - p) / 12) = p + 12 * ((t + 11 - p) / 12) := by omega
        rw [if_neg e, this]; exact h.val p hp
    · have : t + 1 + 11 = t + 12 := by omega
      rw [this, hs]

/-- `Rep` lifted to states positioned for step `t` -/
def RepS (x0 : Nat → Int) (t : Nat) (s : State) : Prop :=
  Rep x0 t s.x s.carry ∧ s.ir = t % 12 ∧ s.jr = (t + 7) % 12

theorem repS_step (x0 : Nat → Int) (t : Nat) (s : State) (h : RepS x0 t s) :
    RepS x0 (t + 1) (singleStep s) := by
  obtain ⟨hr, hi, hj⟩ := h
  have := rep_step x0 t s.x s.carry hr
  refine ⟨?_, ?_, ?_⟩
  · simp only [singleStep, hi, hj]; exact this
  · rw [singleStep_ir, hi]; omega
  · rw [singleStep_jr, hj]; omega

theorem repS_iter (x0 : Nat → Int) (n t : Nat) (s : State) (h : RepS x0 t s) :
    RepS x0 (t + n) (iter singleStep n s) := by
  induction n generalizing t s with
  | zero => exact h
  | succ n ih =>
    have := ih (t + 1) (singleStep s) (repS_step x0 t s h)
    rw [iter]; rw [show t + (n + 1) = t + 1 + n by omega]; exact this


/-! ### position of a generator in the textbook sequence after `n` draws -/

/-- state after `n` draws of a generator that started from the array `x0` in seed position:
`(n + 11) / 12` refills of 397 steps each have been done -/
structure Pos (x0 : Nat → Int) (n : Nat) (s : State) : Prop where
  rep : Rep x0 (397 * ((n + 11) / 12)) s.x s.carry
  ir  : s.ir = ((n + 11) / 12 + (n + 11) % 12) % 12
  old : s.irOld = ((n + 11) / 12) % 12
  inv : Inv s

theorem pos_next (x0 : Nat → Int) (n : Nat) (s : State) (h : Pos x0 n s) :
    Pos x0 (n + 1) (next exact s).2 ∧ (next exact s).1 = ranluxSpec x0 n := by
  have hv : (next exact s).1 = rd (next exact s).2.x (next exact s).2.ir := rfl
  rw [hv]
  have hinv := next_inv s h.inv
  unfold next at hinv ⊢
  dsimp only at hinv ⊢
  have h1 : Inv { s with ir := (s.ir + 1) % 12 } :=
    ⟨h.inv.bnd, h.inv.cok, by dsimp only; omega, h.inv.old, h.inv.jr, h.inv.pr⟩
  have hir := h.ir
  have hold := h.old
  by_cases e : (s.ir + 1) % 12 = s.irOld
  · rw [if_pos e] at hinv ⊢
    rw [refill_eq' exact exact_RExact _ h1 e] at hinv ⊢
    have hn : n % 12 = 0 := by omega
    have rs : RepS x0 (397 * ((n + 11) / 12)) { s with ir := (s.ir + 1) % 12 } := by
      refine ⟨h.rep, ?_, ?_⟩
      · dsimp only; omega
      · dsimp only; rw [h.inv.jr]; omega
    have ri := repS_iter x0 s.pr _ _ rs
    have et : 397 * ((n + 11) / 12) + s.pr = 397 * ((n + 1 + 11) / 12) := by
      rw [h.inv.pr]; omega
    rw [et] at ri
    dsimp only at hinv ⊢
    generalize iter singleStep s.pr { s with ir := (s.ir + 1) % 12 } = s' at ri hinv ⊢
    obtain ⟨rr, ri, _⟩ := ri
    refine ⟨⟨rr, ?_, ?_, hinv⟩, ?_⟩
    · dsimp only; rw [ri]; omega
    · dsimp only; rw [ri]; omega
    · rw [rr.val _ (by rw [ri]; omega), ri, ranluxSpec]
      congr 2; omega
  · rw [if_neg e] at hinv ⊢
    have hn : n % 12 ≠ 0 := by omega
    have er : (n + 1 + 11) / 12 = (n + 11) / 12 := by omega
    dsimp only
    refine ⟨⟨?_, ?_, ?_, hinv⟩, ?_⟩
    · dsimp only; rw [er]; exact h.rep
    · dsimp only; omega
    · dsimp only; omega
    · rw [h.rep.val _ (by omega), ranluxSpec]
      congr 2; omega

theorem pos_after (x0 : Nat → Int) (s : State) (h : Pos x0 0 s) (n : Nat) :
    Pos x0 n (after exact s n) := by
  induction n with
  | zero => exact h
  | succ n ih => exact (pos_next x0 n _ ih).1

/-- a generator in seed position delivers the RANLUX stream of its array -/
theorem draw_spec (s : State) (hb : Bnd s.x) (hc : s.carry = 0) (hi : s.ir = 11) (hj : s.jr = 7)
    (ho : s.irOld = 0) (hp : s.pr = 397) (n : Nat) :
    draw exact s n = ranluxSpec (fun i => rd s.x i) n := by
  have h0 : Pos (fun i => rd s.x i) 0 s := by
    refine ⟨⟨hb.1, ?_, ?_⟩, by rw [hi], by rw [ho], ⟨hb, Or.inl hc, by omega, by omega, by rw [hj, ho], hp⟩⟩
    · intro p hp
      have : p + 12 * ((397 * ((0 + 11) / 12) + 11 - p) / 12) = p := by omega
      rw [this, swb_lt _ _ hp]
    · rw [swb_lt _ _ (by omega), hc]
  exact (pos_next _ n _ (pos_after _ s h0 n)).2

end CMacVerif.Ranlux
