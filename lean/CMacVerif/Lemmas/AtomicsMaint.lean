import CMacVerif.Lemmas.AtomicsPool
import CMacVerif.Model.AtomicsMaint
/-!
C08 lemmas, part 11: the maintenance calls of `ThreadSafeVector` applied to quiescent states
restore / preserve the pool invariants, so every pool theorem holds again in the next phase.
-/
namespace CMacVerif.Atomics

theorem sumT_map (f : Thread → Nat) (g : Thread → Thread) (l : List Thread) :
    sumT f (l.map g) = sumT (fun th => f (g th)) l := by
  induction l with
  | nil => rfl
  | cons a l ih => simp only [List.map_cons, sumT_cons, ih]

theorem sumT_congr (f g : Thread → Nat) (l : List Thread) (h : ∀ th ∈ l, f th = g th) : sumT f l = sumT g l := by
  induction l with
  | nil => rfl
  | cons a l ih =>
    simp only [sumT_cons]
    rw [h a (by simp), ih (fun th hth => h th (by simp [hth]))]

theorem cnt_zero (f : Nat → Bool) (n : Nat) (h : ∀ i, i < n → f i = false) : cnt f n = 0 := by
  induction n with
  | zero => rfl
  | succ n ih => simp only [cnt, ih (fun i hi => h i (by omega)), h n (by omega)]; rfl

theorem cnt_congr (f g : Nat → Bool) (n : Nat) (h : ∀ i, i < n → f i = g i) : cnt f n = cnt g n := by
  induction n with
  | zero => rfl
  | succ n ih => simp only [cnt, ih (fun i hi => h i (by omega)), h n (by omega)]

theorem cnt_all_true (f : Nat → Bool) (n : Nat) (h : ∀ i, i < n → f i = true) : cnt f n = n := by
  induction n with
  | zero => rfl
  | succ n ih => simp only [cnt, ih (fun i hi => h i (by omega)), h n (by omega)]; rfl

theorem cnt_prefix (f : Nat → Bool) (k n : Nat) (hk : k ≤ n) (h1 : ∀ i, i < k → f i = true)
    (h2 : ∀ i, k ≤ i → i < n → f i = false) : cnt f n = k := by
  induction n with
  | zero =>
    have : k = 0 := by omega
    subst this; rfl
  | succ n ih =>
    by_cases hkn : k = n + 1
    · subst hkn; exact cnt_all_true f _ h1
    · have := ih (by omega) (fun i hi hi' => h2 i hi (by omega))
      simp only [cnt, this, h2 n (by omega) (by omega)]; rfl

/-- in a quiescent state a thread holds exactly the slots in its `owned` list -/
theorem holdS_idle (i : Nat) (th : Thread) (h : th.pc = .idle) : holdS i th = th.owned.count i := by
  simp [holdS, h, pcHoldS]

theorem incdec_idle (th : Thread) (h : th.pc = .idle) : incP th = 0 ∧ decP th = 0 := by
  simp [incP, decP, incPC, decPC, h]

theorem threadWf_idle (cfg : Cfg) (th : Thread) (h : th.pc = .idle) (ho : ∀ i ∈ th.owned, i < cfg.size) :
    ThreadWf cfg th := by
  refine ⟨ho, ?_, ?_, ?_⟩ <;> simp [h, pcSlot]

/-- flags beyond the pool are never set -/
theorem flags_out_of_range (cfg : Cfg) (s : State) (hq : Quiescent s) (h : PoolInv cfg s) (i : Nat)
    (hi : cfg.size ≤ i) : s.mem.flags i = false := by
  have hs := h.1 i
  have : sumT (holdS i) s.threads = 0 := by
    apply sumT_eq_zero
    intro th hth
    rw [holdS_idle i th (hq th hth)]
    apply List.count_eq_zero.mpr
    intro hm
    have := (h.2.1 th hth).1 i hm
    omega
  rw [this] at hs
  cases hf : s.mem.flags i
  · rfl
  · rw [hf] at hs; simp at hs

/-- **clear()** from any quiescent state with the pool invariants: the invariants hold again and
the pool is as after construction -/
theorem clear_poolInv (cfg : Cfg) (s : State) (hq : Quiescent s) (h : PoolInv cfg s) :
    PoolInv cfg (maint cfg s .clear) ∧ FreshPool cfg (maint cfg s .clear) ∧ Quiescent (maint cfg s .clear) ∧
    (maint cfg s .clear).mem.maxTaken = 0 ∧ (∀ i, i < cfg.size → (maint cfg s .clear).mem.count i = 0) := by
  have hmem : ∀ th' ∈ (maint cfg s .clear).threads, th'.pc = .idle ∧ th'.owned = [] := by
    intro th' hth'
    simp only [maint, maintThreads, List.mem_map] at hth'
    obtain ⟨th, hth, rfl⟩ := hth'
    exact ⟨hq th hth, rfl⟩
  have hfl : ∀ i, (maint cfg s .clear).mem.flags i = false := by
    intro i
    simp only [maint, maintMem]
    split
    · rfl
    · exact flags_out_of_range cfg s hq h i (by omega)
  refine ⟨⟨?_, ?_, ?_⟩, ⟨fun i _ => hfl i, rfl, rfl, fun th hth => (hmem th hth).2⟩, fun th hth => (hmem th hth).1, rfl, ?_⟩
  · intro i
    rw [hfl i, sumT_eq_zero]
    · rfl
    · intro th hth
      obtain ⟨h1, h2⟩ := hmem th hth
      simp [holdS_idle i th h1, h2]
  · intro th hth
    obtain ⟨h1, h2⟩ := hmem th hth
    exact threadWf_idle cfg th h1 (by simp [h2])
  · unfold CountInv
    rw [sumT_eq_zero incP _ (fun th hth => (incdec_idle th (hmem th hth).1).1),
        sumT_eq_zero decP _ (fun th hth => (incdec_idle th (hmem th hth).1).2),
        cnt_zero _ _ (fun i _ => hfl i)]
    simp [maint, maintMem]
  · intro i hi; simp [maint, maintMem, hi]

/-- **clear_fast()** touches neither flags nor count: the pool invariants survive it in any state -/
theorem clearFast_poolInv (cfg : Cfg) (s : State) (h : PoolInv cfg s) : PoolInv cfg (maint cfg s .clearFast) := by
  obtain ⟨h1, h2, h3⟩ := h
  exact ⟨h1, h2, h3⟩

/-- … but it makes the pool empty only if nothing was held: precondition `_number_taken = 0` -/
theorem clearFast_fresh_iff (cfg : Cfg) (s : State) (hq : Quiescent s) (h : PoolInv cfg s) :
    FreshPool cfg (maint cfg s .clearFast) ↔ s.mem.taken = 0 := by
  constructor
  · intro hf; exact hf.2.1
  · intro ht
    obtain ⟨h1, h2, h3⟩ := h
    unfold CountInv at h3
    rw [sumT_eq_zero incP _ (fun th hth => (incdec_idle th (hq th hth)).1),
        sumT_eq_zero decP _ (fun th hth => (incdec_idle th (hq th hth)).2), ht] at h3
    have hc : cnt s.mem.flags cfg.size = 0 := by omega
    have hfl : ∀ i, i < cfg.size → s.mem.flags i = false := by
      intro i hi
      have := le_sumN (fun j => (s.mem.flags j).toNat) cfg.size i hi
      rw [← cnt_eq_sumN, hc] at this
      cases hf : s.mem.flags i
      · rfl
      · rw [hf] at this; simp at this
    refine ⟨hfl, ht, rfl, ?_⟩
    intro th hth
    simp only [maint, maintThreads] at hth
    apply List.eq_nil_iff_forall_not_mem.mpr
    intro i hi
    have hlt : i < cfg.size := (h2 th hth).1 i hi
    obtain ⟨k, hk, hke⟩ := List.mem_iff_getElem.mp hth
    have hle := le_sumT (holdS i) s.threads k th (by rw [List.getElem?_eq_getElem hk, hke])
    have hsum := h1 i
    rw [hfl i hlt] at hsum
    have hpos : 1 ≤ th.owned.count i := List.count_pos_iff.mpr hi
    rw [holdS_idle i th (hq th hth)] at hle
    have : (false : Bool).toNat = 0 := rfl
    omega

theorem count_filter_lt (l : List Nat) (i k : Nat) :
    (l.filter (· < k)).count i = if i < k then l.count i else 0 := by
  induction l with
  | nil => simp
  | cons a l ih =>
    by_cases ha : a < k <;> by_cases hik : i < k <;>
      simp only [List.filter_cons, ha, hik, decide_true, decide_false, if_true, if_false, count_cons_ind, ih,
        Bool.false_eq_true] <;>
      (try (have : ¬ i = a := by omega)) <;> simp_all [ind]

theorem count_range (n i : Nat) : (List.range n).count i = if i < n then 1 else 0 := by
  induction n with
  | zero => simp
  | succ n ih =>
    rw [List.range_succ, List.count_append, ih]
    by_cases h1 : i < n
    · have : ¬ n = i := by omega
      simp [h1, this, show i < n + 1 by omega]
    · by_cases h2 : i = n
      · subst h2; simp
      · have : ¬ n = i := fun e => h2 e.symm
        simp [h1, this, show ¬ i < n + 1 by omega]

/-- **clear_after(k)** under the premise stated in the source ("all values before the given
offset are in use"): the invariants hold again, exactly the first `k` slots are taken -/
theorem clearAfter_poolInv (cfg : Cfg) (s : State) (k : Nat) (hq : Quiescent s) (h : PoolInv cfg s)
    (hk : k ≤ cfg.size) (hpre : ∀ i, i < k → s.mem.flags i = true) :
    PoolInv cfg (maint cfg s (.clearAfter k)) ∧ Quiescent (maint cfg s (.clearAfter k)) ∧
    (maint cfg s (.clearAfter k)).mem.taken = k ∧
    (∀ i, (maint cfg s (.clearAfter k)).mem.flags i = decide (i < k)) := by
  obtain ⟨h1, h2, h3⟩ := h
  have hfl : ∀ i, (maint cfg s (.clearAfter k)).mem.flags i = decide (i < k) := by
    intro i
    simp only [maint, maintMem]
    by_cases hik : i < k
    · have : ¬ (k ≤ i ∧ i < cfg.size) := by omega
      simp [this, hik, hpre i hik]
    · by_cases his : i < cfg.size
      · simp [hik, his, show k ≤ i by omega]
      · have : ¬ (k ≤ i ∧ i < cfg.size) := by omega
        simp [this, hik, flags_out_of_range cfg s hq ⟨h1, h2, h3⟩ i (by omega)]
  have hq' : ∀ th' ∈ (maint cfg s (.clearAfter k)).threads, th'.pc = .idle := by
    intro th' hth'
    simp only [maint, maintThreads, List.mem_map] at hth'
    obtain ⟨th, hth, rfl⟩ := hth'
    exact hq th hth
  refine ⟨⟨?_, ?_, ?_⟩, hq', rfl, hfl⟩
  · intro i
    rw [hfl i]
    simp only [maint, maintThreads, sumT_map]
    rw [sumT_congr _ (fun th => if i < k then holdS i th else 0) _ (fun th hth => by
      simp only [holdS, hq th hth, pcHoldS, Nat.add_zero, count_filter_lt])]
    by_cases hik : i < k
    · simp only [hik, if_true, decide_true]
      rw [sumT_congr _ (holdS i) _ (fun th hth => by simp [holdS, hq th hth, pcHoldS])] at *
      rw [h1 i, hpre i hik]
    · simp only [hik, if_false, decide_false]
      rw [sumT_eq_zero _ _ (fun _ _ => rfl)]; rfl
  · intro th' hth'
    have hidle := hq' th' hth'
    simp only [maint, maintThreads, List.mem_map] at hth'
    obtain ⟨th, hth, rfl⟩ := hth'
    apply threadWf_idle cfg _ hidle
    intro i hi
    simp only [List.mem_filter] at hi
    exact (h2 th hth).1 i hi.1
  · unfold CountInv
    rw [sumT_eq_zero incP _ (fun th hth => (incdec_idle th (hq' th hth)).1),
        sumT_eq_zero decP _ (fun th hth => (incdec_idle th (hq' th hth)).2),
        cnt_prefix _ k cfg.size hk (fun i hi => by rw [hfl i]; simp [hi]) (fun i hi _ => by rw [hfl i]; simp; omega)]
    simp [maint, maintMem]

/-- **get_free_elements(n)** on a pool as after construction: the caller owns the first `n` slots -/
theorem getFreeElements_poolInv (cfg : Cfg) (s : State) (tid n : Nat) (th : Thread)
    (hq : Quiescent s) (hf : FreshPool cfg s) (h : PoolInv cfg s) (hn : n ≤ cfg.size)
    (hth : s.threads[tid]? = some th) :
    PoolInv cfg (maint cfg s (.getFreeElements tid n)) ∧ Quiescent (maint cfg s (.getFreeElements tid n)) ∧
    (maint cfg s (.getFreeElements tid n)).mem.taken = n := by
  obtain ⟨hff, ht, hc, hown⟩ := hf
  have hthm : th ∈ s.threads := List.mem_of_getElem? hth
  have hmem : ∀ x ∈ (maint cfg s (.getFreeElements tid n)).threads,
      x = { th with owned := (List.range n).reverse ++ th.owned } ∨ x ∈ s.threads := by
    intro x hx
    simp only [maint, maintThreads, hth] at hx
    exact mem_set_cases _ _ _ _ hx
  have hq' : Quiescent (maint cfg s (.getFreeElements tid n)) := by
    intro x hx
    rcases hmem x hx with rfl | hx
    · exact hq th hthm
    · exact hq x hx
  have hfl : ∀ i, (maint cfg s (.getFreeElements tid n)).mem.flags i = decide (i < n) := by
    intro i
    simp only [maint, maintMem]
    by_cases hin : i < n
    · simp [hin]
    · by_cases his : i < cfg.size
      · simp [hin, hff i his]
      · simp [hin, flags_out_of_range cfg s hq h i (by omega)]
  refine ⟨⟨?_, ?_, ?_⟩, hq', rfl⟩
  · intro i
    rw [hfl i]
    simp only [maint, maintThreads, hth]
    have hfr := sumT_set (holdS i) s.threads tid th { th with owned := (List.range n).reverse ++ th.owned } hth
    have h0 : sumT (holdS i) s.threads = 0 := by
      apply sumT_eq_zero
      intro x hx
      rw [holdS_idle i x (hq x hx), hown x hx]; rfl
    have hold : holdS i th = 0 := by rw [holdS_idle i th (hq th hthm), hown th hthm]; rfl
    have hnew : holdS i { th with owned := (List.range n).reverse ++ th.owned } = (decide (i < n)).toNat := by
      simp only [holdS, hq th hthm, pcHoldS, Nat.add_zero, hown th hthm, List.append_nil, List.count_reverse]
      rw [count_range]
      by_cases hin : i < n <;> simp [hin]
    omega
  · intro x hx
    rcases hmem x hx with rfl | hx
    · refine threadWf_idle cfg { th with owned := (List.range n).reverse ++ th.owned } (hq th hthm) ?_
      intro i hi
      simp only [hown th hthm, List.append_nil, List.mem_reverse, List.mem_range] at hi
      omega
    · exact h.2.1 x hx
  · unfold CountInv
    rw [sumT_eq_zero incP _ (fun x hx => (incdec_idle x (hq' x hx)).1),
        sumT_eq_zero decP _ (fun x hx => (incdec_idle x (hq' x hx)).2),
        cnt_prefix _ n cfg.size hn (fun i hi => by rw [hfl i]; simp [hi]) (fun i hi _ => by rw [hfl i]; simp; omega)]
    simp [maint, maintMem]

theorem mem_reloadL (l : List Thread) (progs : List (List Cmd)) (x : Thread) (h : x ∈ reloadL l progs) :
    ∃ th ∈ l, ∃ p, x = { th with prog := p } := by
  induction l generalizing progs with
  | nil => simp [reloadL] at h
  | cons a l ih =>
    cases progs with
    | nil =>
      simp only [reloadL, List.mem_cons] at h
      rcases h with rfl | h
      · exact ⟨a, by simp, [], rfl⟩
      · obtain ⟨th, hth, p, rfl⟩ := ih [] h
        exact ⟨th, by simp [hth], p, rfl⟩
    | cons p ps =>
      simp only [reloadL, List.mem_cons] at h
      rcases h with rfl | h
      · exact ⟨a, by simp, p, rfl⟩
      · obtain ⟨th, hth, p', rfl⟩ := ih ps h
        exact ⟨th, by simp [hth], p', rfl⟩

theorem sumT_reloadL (f : Thread → Nat) (hf : ∀ th p, f { th with prog := p } = f th) (l : List Thread)
    (progs : List (List Cmd)) : sumT f (reloadL l progs) = sumT f l := by
  induction l generalizing progs with
  | nil => rfl
  | cons a l ih => cases progs <;> simp only [reloadL, sumT_cons, hf, ih]

/-- loading the programs of the next phase keeps the pool invariants -/
theorem reload_poolInv (cfg : Cfg) (s : State) (progs : List (List Cmd)) (h : PoolInv cfg s) :
    PoolInv cfg (reload s progs) := by
  obtain ⟨h1, h2, h3⟩ := h
  refine ⟨?_, ?_, ?_⟩
  · intro i
    simp only [reload]
    rw [sumT_reloadL (holdS i) (fun th p => rfl)]
    exact h1 i
  · intro x hx
    obtain ⟨th, hth, p, rfl⟩ := mem_reloadL _ _ _ hx
    exact h2 th hth
  · unfold CountInv at *
    simp only [reload]
    rw [sumT_reloadL incP (fun th p => rfl), sumT_reloadL decP (fun th p => rfl)]
    exact h3

/-- the pool invariants hold along every schedule from every state that satisfies them -/
theorem poolInv_run_from (cfg : Cfg) (hs : 0 < cfg.size) (s : State) (sched : List Nat) (h : PoolInv cfg s) :
    PoolInv cfg (run cfg s sched) :=
  run_inv cfg (PoolInv cfg) (fun s tid h => poolInv_step cfg hs s tid h) s sched h

end CMacVerif.Atomics
