import CMacVerif.Lemmas.AtomicsPool
/-!
C08 lemmas, part 6: the `MemorySpace` discipline.  For clients that release buffers only through
`free_buffer` and pass input buffers of at most `PHOTONBUFFER_SIZE` packets: no pool buffer ever
holds more than `PHOTONBUFFER_SIZE` packets, a free slot is an empty buffer (so the buffer
`add_photons` obtains for the overflow is empty — the "maybe assert that this value is indeed 0?"
of the source), and `add_photons` never drops a packet.  Uses slot uniqueness: a thread only
writes the packet count of a slot it holds, so what another thread knows about its own slots
stays true.
-/
namespace CMacVerif.Atomics

/-- calls allowed for a client of `MemorySpace`: buffers are released with `free_buffer` (never
with `ThreadSafeVector::free_element` directly), an input buffer holds at most
`PHOTONBUFFER_SIZE` packets -/
def CmdMS (cap : Nat) : Cmd → Prop
  | .free _ => False
  | .addPhotons _ n => n ≤ cap
  | _ => True

/-- slot obtained by the search loop and not yet handed to the caller / filled -/
def pcFresh : PC → Option Nat
  | .getCount i _ => some i
  | .getMax i _ _ => some i
  | .getMaxCas i _ _ _ => some i
  | .getTotal i _ => some i
  | .apPlace i _ => some i
  | .freeYield i => some i
  | _ => none

def ThreadMS (cfg : Cfg) (m : Mem) (th : Thread) : Prop :=
  (∀ c ∈ th.prog, CmdMS cfg.cap c) ∧
  (∀ i, th.pc = .freeUnlock i → m.count i = 0) ∧
  (∀ i, pcFresh th.pc = some i → m.count i = 0) ∧
  pendPC th.pc ≤ cfg.cap ∧ (∀ j n, th.pc = .apFill j n → n ≤ cfg.cap) ∧
  th.lost = 0

/-- a thread only writes the packet count of slots it holds -/
theorem exec_count_frame (cfg : Cfg) (m : Mem) (th : Thread) (i : Nat) (hwf : ThreadWf cfg th)
    (h : holdS i th = 0) : (exec cfg m th).1.count i = m.count i := by
  unfold exec
  cases hpc : th.pc
  case apFill tgt n =>
    have hm : tgt ∈ th.owned := hwf.2.2.1 tgt n hpc
    have : i ≠ tgt := by
      intro e; subst e
      have : 1 ≤ th.owned.count i := List.count_pos_iff.mpr hm
      unfold holdS at h; omega
    simp only
    split <;> simp [upd_apply, this]
  case apPlace j r =>
    have hm : j ∈ th.owned := hwf.2.2.2 j r hpc
    have : i ≠ j := by
      intro e; subst e
      have : 1 ≤ th.owned.count i := List.count_pos_iff.mpr hm
      unfold holdS at h; omega
    simp [upd_apply, this]
  case freeReset j =>
    have : i ≠ j := by
      intro e; subst e
      simp [holdS, hpc, pcHoldS, ind] at h
    simp [upd_apply, this]
  all_goals
    first
    | (simp only; done)
    | (simp only; (repeat' split) <;> rfl)

theorem ms_dispatch (cfg : Cfg) (m : Mem) (th : Thread) (c : Cmd) (hc : CmdMS cfg.cap c)
    (hp : ∀ c ∈ th.prog, CmdMS cfg.cap c) (hl : th.lost = 0) : ThreadMS cfg m (dispatch cfg th c) := by
  cases c <;> simp only [dispatch, ret] <;> (repeat' split) <;>
    (refine ⟨?_, ?_, ?_, ?_, ?_, ?_⟩ <;> simp_all [pcFresh, pendPC, pendO, CmdMS])

theorem exec_ms (cfg : Cfg) (m : Mem) (th : Thread) (hwf : ThreadWf cfg th)
    (hms : ThreadMS cfg m th) (hN2 : ∀ i, m.count i ≤ cfg.cap)
    (hN3 : ∀ i, m.flags i = false → m.count i = 0)
    (hhold : ∀ i, 1 ≤ holdS i th → m.flags i = true) :
    ThreadMS cfg (exec cfg m th).1 (exec cfg m th).2 ∧ (∀ i, (exec cfg m th).1.count i ≤ cfg.cap) ∧
    (∀ i, (exec cfg m th).1.flags i = false → (exec cfg m th).1.count i = 0) := by
  obtain ⟨hp, h4, h5, h6, h6', h7⟩ := hms
  unfold exec
  cases hpc : th.pc
  case idle =>
    simp only
    split
    · exact ⟨⟨hp, h4, h5, h6, h6', h7⟩, hN2, hN3⟩
    · rename_i c0 rest hprog
      refine ⟨?_, hN2, hN3⟩
      apply ms_dispatch
      · exact hp c0 (by simp [hprog])
      · intro c hc; exact hp c (by simp [hprog, hc])
      · exact h7
  case getCas j r =>
    simp only
    split
    · refine ⟨⟨hp, ?_, ?_, ?_, ?_, h7⟩, hN2, hN3⟩ <;> simp_all [pcFresh, pendPC]
    · rename_i hf
      have hcj : m.count j = 0 := hN3 j (by simpa using hf)
      refine ⟨⟨hp, ?_, ?_, ?_, ?_, h7⟩, hN2, ?_⟩
      · simp
      · intro i hi; simp only [pcFresh, Option.some.injEq] at hi; subst hi; exact hcj
      · simpa [pendPC, hpc] using h6
      · simp
      · intro i hi
        simp only [upd_apply] at hi
        split at hi
        · cases hi
        · exact hN3 i hi
  case apFill tgt n =>
    have hm : tgt ∈ th.owned := hwf.2.2.1 tgt n hpc
    have hft : m.flags tgt = true := hhold tgt (by
      have : 1 ≤ th.owned.count tgt := List.count_pos_iff.mpr hm
      unfold holdS; omega)
    have hn : n ≤ cfg.cap := h6' tgt n hpc
    have hct := hN2 tgt
    have hN2' : ∀ i, upd m.count tgt (m.count tgt + min n (cfg.cap - m.count tgt)) i ≤ cfg.cap := by
      intro i; simp only [upd_apply]; split
      · omega
      · exact hN2 i
    have hN3' : ∀ i, m.flags i = false → upd m.count tgt (m.count tgt + min n (cfg.cap - m.count tgt)) i = 0 := by
      intro i hi; simp only [upd_apply]; split
      · rename_i e; subst e; rw [hft] at hi; cases hi
      · exact hN3 i hi
    simp only
    split
    · refine ⟨⟨hp, ?_, ?_, ?_, ?_, h7⟩, hN2', hN3'⟩ <;> simp [pcFresh, pendPC, pendO]
      omega
    · rename_i hne
      refine ⟨⟨hp, ?_, ?_, ?_, ?_, ?_⟩, hN2', hN3'⟩ <;> simp [ret, pcFresh, pendPC]
      rw [h7]; omega
  case apPlace j r =>
    have hm : j ∈ th.owned := hwf.2.2.2 j r hpc
    have hft : m.flags j = true := hhold j (by
      have : 1 ≤ th.owned.count j := List.count_pos_iff.mpr hm
      unfold holdS; omega)
    have hcj : m.count j = 0 := h5 j (by simp [hpc, pcFresh])
    have hr : r ≤ cfg.cap := by simpa [pendPC, hpc] using h6
    refine ⟨⟨hp, ?_, ?_, ?_, ?_, h7⟩, ?_, ?_⟩ <;> simp [ret, pcFresh, pendPC]
    · intro i; simp only [upd_apply]; split
      · omega
      · exact hN2 i
    · intro i hi; simp only [upd_apply]; split
      · rename_i e; subst e; rw [hft] at hi; cases hi
      · exact hN3 i hi
  case freeReset j =>
    refine ⟨⟨hp, ?_, ?_, ?_, ?_, h7⟩, ?_, ?_⟩ <;> simp [pcFresh, pendPC]
    · intro i; simp only [upd_apply]; split
      · omega
      · exact hN2 i
    · intro i hi; simp only [upd_apply]; split
      · rfl
      · exact hN3 i hi
  case freeUnlock j =>
    have hcj : m.count j = 0 := h4 j hpc
    refine ⟨⟨hp, ?_, ?_, ?_, ?_, h7⟩, hN2, ?_⟩ <;> simp [pcFresh, pendPC]
    intro i hi
    simp only [upd_apply] at hi
    split at hi
    · rename_i e; subst e; exact hcj
    · exact hN3 i hi
  case getTotal j r =>
    have hcj : m.count j = 0 := h5 j (by simp [hpc, pcFresh])
    cases r <;> refine ⟨⟨hp, ?_, ?_, ?_, ?_, h7⟩, hN2, hN3⟩ <;> simp_all [getDone, ret, pcFresh, pendPC, pendO]
  case getCheck r =>
    cases r <;> simp only <;> (repeat' split) <;>
      refine ⟨⟨hp, ?_, ?_, ?_, ?_, h7⟩, hN2, hN3⟩ <;> simp_all [ret, pcFresh, pendPC, pendO]
  case tlStart c t => cases c <;> simp only <;> (repeat' split) <;>
      refine ⟨⟨hp, ?_, ?_, ?_, ?_, h7⟩, hN2, hN3⟩ <;> simp_all [ret, tlSucc, tlFail, pcFresh, pendPC]
  case tl0 c t => cases c <;> simp only <;> (repeat' split) <;>
      refine ⟨⟨hp, ?_, ?_, ?_, ?_, h7⟩, hN2, hN3⟩ <;> simp_all [ret, tlSucc, tlFail, pcFresh, pendPC]
  case tl1 c t => cases c <;> simp only <;> (repeat' split) <;>
      refine ⟨⟨hp, ?_, ?_, ?_, ?_, h7⟩, hN2, hN3⟩ <;> simp_all [ret, tlSucc, tlFail, pcFresh, pendPC]
  case tlBack c t => cases c <;> simp only <;> (repeat' split) <;>
      refine ⟨⟨hp, ?_, ?_, ?_, ?_, h7⟩, hN2, hN3⟩ <;> simp_all [ret, tlSucc, tlFail, pcFresh, pendPC]
  all_goals
    first
    | (simp only; (repeat' split) <;>
        refine ⟨⟨hp, ?_, ?_, ?_, ?_, h7⟩, hN2, hN3⟩ <;> simp_all [ret, pcFresh, pendPC, pendO] <;> done)

theorem fresh_holds (cfg : Cfg) (th : Thread) (i : Nat) (hwf : ThreadWf cfg th)
    (h : pcFresh th.pc = some i) : 1 ≤ holdS i th := by
  unfold holdS
  cases hpc : th.pc <;> rw [hpc] at h <;> simp only [pcFresh, reduceCtorEq, Option.some.injEq] at h
  case apPlace j r =>
    subst h
    have : 1 ≤ th.owned.count j := List.count_pos_iff.mpr (hwf.2.2.2 j r hpc)
    omega
  all_goals (subst h; simp [pcHoldS, ind])

/-- the `MemorySpace` discipline: every buffer holds at most `PHOTONBUFFER_SIZE` packets, a free
slot is an empty buffer, nothing was lost -/
def MSInv (cfg : Cfg) (s : State) : Prop :=
  (∀ (k : Nat) (th : Thread), s.threads[k]? = some th → ThreadMS cfg s.mem th) ∧
  (∀ i, s.mem.count i ≤ cfg.cap) ∧ (∀ i, s.mem.flags i = false → s.mem.count i = 0)

theorem msInv_step (cfg : Cfg) (s : State) (tid : Nat) (hS : SlotInv s) (hW : SlotWf cfg s)
    (h : MSInv cfg s) : MSInv cfg (step cfg s tid) := by
  cases hth : s.threads[tid]? with
  | none => rw [step_none cfg s tid hth]; exact h
  | some thu =>
    obtain ⟨hT, hN2, hN3⟩ := h
    have hwfu : ThreadWf cfg thu := hW thu (List.mem_of_getElem? hth)
    have hhold : ∀ i, 1 ≤ holdS i thu → s.mem.flags i = true := by
      intro i hi
      have hle := le_sumT (holdS i) s.threads tid thu hth
      have := hS i
      cases hf : s.mem.flags i
      · rw [hf] at this; simp at this; omega
      · rfl
    have hown := exec_ms cfg s.mem thu hwfu (hT tid thu hth) hN2 hN3 hhold
    rw [step_some cfg s tid thu hth]
    refine ⟨?_, hown.2.1, hown.2.2⟩
    intro k th hk
    simp only [List.getElem?_set] at hk
    by_cases hkt : tid = k
    · subst hkt
      simp only [getElem?_lt _ _ _ hth, if_true] at hk
      cases hk
      exact hown.1
    · simp only [hkt, if_false] at hk
      have hwfk : ThreadWf cfg th := hW th (List.mem_of_getElem? hk)
      obtain ⟨hp, h4, h5, h6, h6', h7⟩ := hT k th hk
      have keep : ∀ i, 1 ≤ holdS i th → (exec cfg s.mem thu).1.count i = s.mem.count i := by
        intro i hi
        apply exec_count_frame cfg s.mem thu i hwfu
        have hle := add_le_sumT (holdS i) s.threads tid k thu th hth hk hkt
        have := hS i
        have := Bool.toNat_le (s.mem.flags i)
        omega
      refine ⟨hp, ?_, ?_, h6, h6', h7⟩
      · intro i hi
        simp only
        rw [keep i (by simp [holdS, hi, pcHoldS, ind])]
        exact h4 i hi
      · intro i hi
        simp only
        rw [keep i (fresh_holds cfg th i hwfk hi)]
        exact h5 i hi

theorem msInv_run (cfg : Cfg) (hs : 0 < cfg.size) (progs : List (List Cmd))
    (hms : ∀ p ∈ progs, ∀ c ∈ p, CmdMS cfg.cap c) (sched : List Nat) :
    MSInv cfg (run cfg (init progs) sched) := by
  have := run_inv cfg (fun s => PoolInv cfg s ∧ MSInv cfg s)
    (fun s tid h => ⟨poolInv_step cfg hs s tid h.1, msInv_step cfg s tid h.1.1 h.1.2.1 h.2⟩)
    (init progs) sched ⟨poolInv_init cfg progs, ?_⟩
  · exact this.2
  · refine ⟨?_, by simp [init], by simp [init]⟩
    intro k th hk
    have hm : th ∈ (init progs).threads := List.mem_of_getElem? hk
    simp only [init, List.mem_map] at hm
    obtain ⟨p, hp, rfl⟩ := hm
    refine ⟨hms p hp, ?_, ?_, ?_, ?_, rfl⟩ <;> simp [pcFresh, pendPC]

end CMacVerif.Atomics
