import CMacVerif.Lemmas.Buckets
import Mathlib.Tactic.Linarith
/-! The covered-radius bound of the bucket search follows from the geometry of the bucket grid
(C16): closed form of the widened bounds and `cover_bound`. -/
namespace CMacVerif.Buckets
open CMacVerif.GridNum CMacVerif.Shells

/-- one component of the "lower" bound through the widenings -/
noncomputable def lbSeq (a : Int) (cs v0 : ℝ) : Nat → ℝ
  | 0 => v0
  | L + 1 => if (L : Int) ≤ a then lbSeq a cs v0 L - cs else lbSeq a cs v0 L
noncomputable def ubSeq (a n : Int) (cs v0 : ℝ) : Nat → ℝ
  | 0 => v0
  | L + 1 => if (L : Int) + a < n then ubSeq a n cs v0 L + cs else ubSeq a n cs v0 L

theorem lbSeq_closed (a : Int) (ha : 0 ≤ a) (cs base : ℝ) (L : Nat) (hL : 1 ≤ L) :
    lbSeq a cs (base + ((a + 1 : Int) : ℝ) * cs) L = base + ((max (a - ((L : Int) - 1)) 0 : Int) : ℝ) * cs := by
  induction L, hL using Nat.le_induction with
  | base =>
    simp only [lbSeq]
    rw [if_pos (by exact_mod_cast ha)]
    have : max (a - (((1 : Nat) : Int) - 1)) 0 = a := by omega
    rw [this]; push_cast; ring
  | succ L hL ih =>
    simp only [lbSeq]
    rw [ih]
    by_cases h : (L : Int) ≤ a
    · rw [if_pos h]
      have e1 : max (a - ((L : Int) - 1)) 0 = a - L + 1 := by omega
      have e2 : max (a - (((L + 1 : Nat) : Int) - 1)) 0 = a - L := by push_cast; omega
      rw [e1, e2]; push_cast; ring
    · rw [if_neg h]
      have e1 : max (a - ((L : Int) - 1)) 0 = 0 := by omega
      have e2 : max (a - (((L + 1 : Nat) : Int) - 1)) 0 = 0 := by push_cast; omega
      rw [e1, e2]

theorem ubSeq_closed (a n : Int) (ha : 0 ≤ a ∧ a < n) (cs base : ℝ) (L : Nat) (hL : 1 ≤ L) :
    ubSeq a n cs (base + ((a : Int) : ℝ) * cs) L = base + ((min (a + (L : Int)) n : Int) : ℝ) * cs := by
  induction L, hL using Nat.le_induction with
  | base =>
    simp only [ubSeq]
    rw [if_pos (by push_cast; omega)]
    have : min (a + ((1 : Nat) : Int)) n = a + 1 := by push_cast; omega
    rw [this]; push_cast; ring
  | succ L hL ih =>
    simp only [ubSeq]
    rw [ih]
    by_cases h : (L : Int) + a < n
    · rw [if_pos h]
      have e1 : min (a + (L : Int)) n = a + L := by omega
      have e2 : min (a + ((L + 1 : Nat) : Int)) n = a + L + 1 := by push_cast; omega
      rw [e1, e2]; push_cast; ring
    · rw [if_neg h]
      have e1 : min (a + (L : Int)) n = n := by omega
      have e2 : min (a + ((L + 1 : Nat) : Int)) n = n := by push_cast; omega
      rw [e1, e2]

theorem boundsAt_seq (g : BGrid ℝ) (p : V3 ℝ) (ax ay az : Int) (L : Nat) :
    (boundsAt g p ax ay az L).lb.x = lbSeq ax g.cs.x (initBounds g ax ay az p).lb.x L ∧
    (boundsAt g p ax ay az L).lb.y = lbSeq ay g.cs.y (initBounds g ax ay az p).lb.y L ∧
    (boundsAt g p ax ay az L).lb.z = lbSeq az g.cs.z (initBounds g ax ay az p).lb.z L ∧
    (boundsAt g p ax ay az L).ub.x = ubSeq ax g.n g.cs.x (initBounds g ax ay az p).ub.x L ∧
    (boundsAt g p ax ay az L).ub.y = ubSeq ay g.n g.cs.y (initBounds g ax ay az p).ub.y L ∧
    (boundsAt g p ax ay az L).ub.z = ubSeq az g.n g.cs.z (initBounds g ax ay az p).ub.z L := by
  induction L with
  | zero => exact ⟨rfl, rfl, rfl, rfl, rfl, rfl⟩
  | succ L ih =>
    obtain ⟨h1, h2, h3, h4, h5, h6⟩ := ih
    simp only [boundsAt, widen, lbSeq, ubSeq, h1, h2, h3, h4, h5, h6, and_self]
end CMacVerif.Buckets

namespace CMacVerif.Buckets
open CMacVerif.GridNum CMacVerif.Shells

theorem fmax_real (a b : ℝ) : fmax a b = max a b := by
  unfold fmax; split_ifs with h
  · exact (max_eq_right h.le).symm
  · exact (max_eq_left (not_lt.mp h)).symm
theorem fmin_real (a b : ℝ) : fmin a b = min a b := by
  unfold fmin; split_ifs with h
  · exact (min_eq_right h.le).symm
  · exact (min_eq_left (not_lt.mp h)).symm
theorem fabs_real (a : ℝ) : fabs a = |a| := by
  unfold fabs; rw [zero_lit]; split_ifs with h
  · exact (abs_of_neg h).symm
  · exact (abs_of_nonneg (not_lt.mp h)).symm

/-- the stop radius is below the distance to every face of the covered box -/
theorem rmin_bounds (b : Bounds ℝ) (hlx : b.lb.x ≤ 0) (hly : b.lb.y ≤ 0) (hlz : b.lb.z ≤ 0)
    (hux : 0 ≤ b.ub.x) (huy : 0 ≤ b.ub.y) (huz : 0 ≤ b.ub.z) :
    ∃ r : ℝ, maxRadius2 b = r * r ∧ 0 ≤ r ∧ r ≤ b.ub.x ∧ r ≤ b.ub.y ∧ r ≤ b.ub.z ∧
      r ≤ -b.lb.x ∧ r ≤ -b.lb.y ∧ r ≤ -b.lb.z := by
  refine ⟨_, rfl, ?_⟩
  simp only [fmax_real, fmin_real, fabs_real]
  have hM : max (max b.lb.x b.lb.y) b.lb.z ≤ 0 := max_le (max_le hlx hly) hlz
  rw [abs_of_nonpos hM]
  have m1 : b.lb.x ≤ max (max b.lb.x b.lb.y) b.lb.z := le_trans (le_max_left _ _) (le_max_left _ _)
  have m2 : b.lb.y ≤ max (max b.lb.x b.lb.y) b.lb.z := le_trans (le_max_right _ _) (le_max_left _ _)
  have m3 : b.lb.z ≤ max (max b.lb.x b.lb.y) b.lb.z := le_max_right _ _
  have u1 : min (min b.ub.x b.ub.y) b.ub.z ≤ b.ub.x := le_trans (min_le_left _ _) (min_le_left _ _)
  have u2 : min (min b.ub.x b.ub.y) b.ub.z ≤ b.ub.y := le_trans (min_le_left _ _) (min_le_right _ _)
  have u3 : min (min b.ub.x b.ub.y) b.ub.z ≤ b.ub.z := min_le_right _ _
  have u0 : 0 ≤ min (min b.ub.x b.ub.y) b.ub.z := le_min (le_min hux huy) huz
  have r1 := min_le_left (-max (max b.lb.x b.lb.y) b.lb.z) (min (min b.ub.x b.ub.y) b.ub.z)
  have r2 := min_le_right (-max (max b.lb.x b.lb.y) b.lb.z) (min (min b.ub.x b.ub.y) b.ub.z)
  refine ⟨le_min (by linarith) u0, ?_, ?_, ?_, ?_, ?_, ?_⟩ <;> linarith

/-- one axis: a point stored `r` cells away (|r| ≥ L) is outside the interval covered at level L -/
theorem axis_far (anchor cs pq pp : ℝ) (a n r : Int) (L : Nat) (hcs : 0 < cs) (ha : 0 ≤ a ∧ a < n)
    (hr : 0 ≤ a + r ∧ a + r < n) (hL : 1 ≤ L) (hfar : (L : Int) ≤ r ∨ r ≤ -(L : Int))
    (hq : anchor + ((a + r : Int) : ℝ) * cs ≤ pq ∧ pq < anchor + ((a + r + 1 : Int) : ℝ) * cs) :
    (anchor - pp) + ((min (a + (L : Int)) n : Int) : ℝ) * cs ≤ pq - pp ∨
    pq - pp < (anchor - pp) + ((max (a - ((L : Int) - 1)) 0 : Int) : ℝ) * cs := by
  rcases hfar with h | h
  · left
    have e : min (a + (L : Int)) n = a + L := by omega
    rw [e]
    have : ((a + (L : Int) : Int) : ℝ) ≤ ((a + r : Int) : ℝ) := by exact_mod_cast (by omega : a + (L : Int) ≤ a + r)
    have := mul_le_mul_of_nonneg_right this hcs.le
    linarith [hq.1]
  · right
    have e : max (a - ((L : Int) - 1)) 0 = a - L + 1 := by omega
    rw [e]
    have : ((a + r + 1 : Int) : ℝ) ≤ ((a - (L : Int) + 1 : Int) : ℝ) := by
      exact_mod_cast (by omega : a + r + 1 ≤ a - (L : Int) + 1)
    have := mul_le_mul_of_nonneg_right this hcs.le
    linarith [hq.2]

/-- geometric facts that make the covered-radius bound true -/
structure Geo (g : BGrid ℝ) (p : V3 ℝ) (ax ay az : Int) : Prop where
  csx : 0 < g.cs.x
  csy : 0 < g.cs.y
  csz : 0 < g.cs.z
  hax : 0 ≤ ax ∧ ax < g.n
  hay : 0 ≤ ay ∧ ay < g.n
  haz : 0 ≤ az ∧ az < g.n
  /-- the query lies in its anchor cell -/
  qx : g.anchor.x + (ax : ℝ) * g.cs.x ≤ p.x ∧ p.x < g.anchor.x + ((ax + 1 : Int) : ℝ) * g.cs.x
  qy : g.anchor.y + (ay : ℝ) * g.cs.y ≤ p.y ∧ p.y < g.anchor.y + ((ay + 1 : Int) : ℝ) * g.cs.y
  qz : g.anchor.z + (az : ℝ) * g.cs.z ≤ p.z ∧ p.z < g.anchor.z + ((az + 1 : Int) : ℝ) * g.cs.z
  /-- every stored point lies in the cell of its bucket -/
  pts : ∀ (ix iy iz : Int) (q : Nat), q ∈ g.bucket ix iy iz →
    (g.anchor.x + (ix : ℝ) * g.cs.x ≤ (g.pos q).x ∧ (g.pos q).x < g.anchor.x + ((ix + 1 : Int) : ℝ) * g.cs.x) ∧
    (g.anchor.y + (iy : ℝ) * g.cs.y ≤ (g.pos q).y ∧ (g.pos q).y < g.anchor.y + ((iy + 1 : Int) : ℝ) * g.cs.y) ∧
    (g.anchor.z + (iz : ℝ) * g.cs.z ≤ (g.pos q).z ∧ (g.pos q).z < g.anchor.z + ((iz + 1 : Int) : ℝ) * g.cs.z)

theorem sq_le_of (r d lb ub : ℝ) (h0 : 0 ≤ r) (hu : r ≤ ub) (hl : r ≤ -lb) (h : ub ≤ d ∨ d < lb) :
    r * r ≤ d * d := by
  rcases h with h | h
  · have : r ≤ d := by linarith
    nlinarith
  · have : r ≤ -d := by linarith
    nlinarith

/-- the covered-radius bound holds when points lie in their buckets and the query in its anchor
cell -/
theorem cover_bound (g : BGrid ℝ) (p : V3 ℝ) (ax ay az : Int) (hg : Geo g p ax ay az) :
    ∀ (L k q : Nat), 1 ≤ L → Inside ax ay az g.n g.n g.n (iter k) → (L : Int) ≤ (iter k).level →
      q ∈ bucketAt g ax ay az (iter k) → maxRadius2 (boundsAt g p ax ay az L) ≤ d2 g p q := by
  intro L k q hL hin hlev hq
  obtain ⟨s1, s2, s3, s4, s5, s6⟩ := boundsAt_seq g p ax ay az L
  have ilx : (initBounds g ax ay az p).lb.x = (g.anchor.x - p.x) + ((ax + 1 : Int) : ℝ) * g.cs.x := by
    simp only [initBounds, ofInt_real]; ring
  have ily : (initBounds g ax ay az p).lb.y = (g.anchor.y - p.y) + ((ay + 1 : Int) : ℝ) * g.cs.y := by
    simp only [initBounds, ofInt_real]; ring
  have ilz : (initBounds g ax ay az p).lb.z = (g.anchor.z - p.z) + ((az + 1 : Int) : ℝ) * g.cs.z := by
    simp only [initBounds, ofInt_real]; ring
  have iux : (initBounds g ax ay az p).ub.x = (g.anchor.x - p.x) + ((ax : Int) : ℝ) * g.cs.x := by
    simp only [initBounds, ofInt_real]; ring
  have iuy : (initBounds g ax ay az p).ub.y = (g.anchor.y - p.y) + ((ay : Int) : ℝ) * g.cs.y := by
    simp only [initBounds, ofInt_real]; ring
  have iuz : (initBounds g ax ay az p).ub.z = (g.anchor.z - p.z) + ((az : Int) : ℝ) * g.cs.z := by
    simp only [initBounds, ofInt_real]; ring
  rw [ilx, lbSeq_closed ax hg.hax.1 _ _ L hL] at s1
  rw [ily, lbSeq_closed ay hg.hay.1 _ _ L hL] at s2
  rw [ilz, lbSeq_closed az hg.haz.1 _ _ L hL] at s3
  rw [iux, ubSeq_closed ax g.n hg.hax _ _ L hL] at s4
  rw [iuy, ubSeq_closed ay g.n hg.hay _ _ L hL] at s5
  rw [iuz, ubSeq_closed az g.n hg.haz _ _ L hL] at s6
  -- signs of the bounds
  have lo_le : ∀ a : Int, 0 ≤ a → ((max (a - ((L : Int) - 1)) 0 : Int) : ℝ) ≤ (a : ℝ) := by
    intro a ha; exact_mod_cast (by omega : max (a - ((L : Int) - 1)) 0 ≤ a)
  have hi_ge : ∀ a : Int, a < g.n → ((a + 1 : Int) : ℝ) ≤ ((min (a + (L : Int)) g.n : Int) : ℝ) := by
    intro a ha; exact_mod_cast (by omega : a + 1 ≤ min (a + (L : Int)) g.n)
  have hlx : (boundsAt g p ax ay az L).lb.x ≤ 0 := by
    rw [s1]; have := mul_le_mul_of_nonneg_right (lo_le ax hg.hax.1) hg.csx.le; linarith [hg.qx.1]
  have hly : (boundsAt g p ax ay az L).lb.y ≤ 0 := by
    rw [s2]; have := mul_le_mul_of_nonneg_right (lo_le ay hg.hay.1) hg.csy.le; linarith [hg.qy.1]
  have hlz : (boundsAt g p ax ay az L).lb.z ≤ 0 := by
    rw [s3]; have := mul_le_mul_of_nonneg_right (lo_le az hg.haz.1) hg.csz.le; linarith [hg.qz.1]
  have hux : 0 ≤ (boundsAt g p ax ay az L).ub.x := by
    rw [s4]; have := mul_le_mul_of_nonneg_right (hi_ge ax hg.hax.2) hg.csx.le; linarith [hg.qx.2]
  have huy : 0 ≤ (boundsAt g p ax ay az L).ub.y := by
    rw [s5]; have := mul_le_mul_of_nonneg_right (hi_ge ay hg.hay.2) hg.csy.le; linarith [hg.qy.2]
  have huz : 0 ≤ (boundsAt g p ax ay az L).ub.z := by
    rw [s6]; have := mul_le_mul_of_nonneg_right (hi_ge az hg.haz.2) hg.csz.le; linarith [hg.qz.2]
  obtain ⟨r, hr, r0, rux, ruy, ruz, rlx, rly, rlz⟩ := rmin_bounds _ hlx hly hlz hux huy huz
  rw [hr]
  -- the point's bucket
  obtain ⟨px, py, pz⟩ := hg.pts _ _ _ q hq
  obtain ⟨i1, i2, i3, i4, i5, i6⟩ := hin
  have hgood := good_iter k
  unfold Good at hgood
  rw [maxNorm_eq] at hgood
  obtain ⟨_, _, _, _, _, _, _, hface⟩ := hgood
  have dsq : d2 g p q = ((g.pos q).x - p.x) * ((g.pos q).x - p.x) + ((g.pos q).y - p.y) * ((g.pos q).y - p.y)
      + ((g.pos q).z - p.z) * ((g.pos q).z - p.z) := rfl
  have nx := mul_self_nonneg ((g.pos q).x - p.x)
  have ny := mul_self_nonneg ((g.pos q).y - p.y)
  have nz := mul_self_nonneg ((g.pos q).z - p.z)
  have farx : ((L : Int) ≤ (iter k).rx ∨ (iter k).rx ≤ -(L : Int)) → r * r ≤ ((g.pos q).x - p.x) * ((g.pos q).x - p.x) := by
    intro hf
    have := axis_far g.anchor.x g.cs.x (g.pos q).x p.x ax g.n (iter k).rx L hg.csx hg.hax ⟨i1, i2⟩ hL hf
      ⟨by push_cast at px ⊢; exact px.1, by push_cast at px ⊢; exact px.2⟩
    rw [← s4, ← s1] at this
    exact sq_le_of r _ _ _ r0 rux rlx this
  have fary : ((L : Int) ≤ (iter k).ry ∨ (iter k).ry ≤ -(L : Int)) → r * r ≤ ((g.pos q).y - p.y) * ((g.pos q).y - p.y) := by
    intro hf
    have := axis_far g.anchor.y g.cs.y (g.pos q).y p.y ay g.n (iter k).ry L hg.csy hg.hay ⟨i3, i4⟩ hL hf
      ⟨by push_cast at py ⊢; exact py.1, by push_cast at py ⊢; exact py.2⟩
    rw [← s5, ← s2] at this
    exact sq_le_of r _ _ _ r0 ruy rly this
  have farz : ((L : Int) ≤ (iter k).rz ∨ (iter k).rz ≤ -(L : Int)) → r * r ≤ ((g.pos q).z - p.z) * ((g.pos q).z - p.z) := by
    intro hf
    have := axis_far g.anchor.z g.cs.z (g.pos q).z p.z az g.n (iter k).rz L hg.csz hg.haz ⟨i5, i6⟩ hL hf
      ⟨by push_cast at pz ⊢; exact pz.1, by push_cast at pz ⊢; exact pz.2⟩
    rw [← s6, ← s3] at this
    exact sq_le_of r _ _ _ r0 ruz rlz this
  rw [dsq]
  rcases hface with h | h | h | h | h | h
  · have := farx (Or.inl (by omega)); linarith
  · have := farx (Or.inr (by omega)); linarith
  · have := fary (Or.inl (by omega)); linarith
  · have := fary (Or.inr (by omega)); linarith
  · have := farz (Or.inl (by omega)); linarith
  · have := farz (Or.inr (by omega)); linarith

end CMacVerif.Buckets
