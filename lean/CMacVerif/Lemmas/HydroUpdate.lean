import CMacVerif.Model.HydroUpdate
import CMacVerif.Inst.Real
import CMacVerif.Lemmas.RiemannVacuum
import Mathlib.Tactic.Ring
import Mathlib.Tactic.Linarith
import Mathlib.Tactic.FieldSimp
import Mathlib.Tactic.NormNum
/-! Real-number lemmas about the cell-level hydro update (C04). -/
namespace CMacVerif.HydroUpdate
open CMacVerif CMacVerif.RiemannVacuum
open CMacVerif.HydroGraph (Axis)

theorem lit025' : (0.25 : ℝ) = 1 / 4 := by norm_num

/-! ### the five-vectors -/

theorem Q.sub_sub_comm (a k k' : Q ℝ) : (a.sub k').sub k = (a.sub k).sub k' := by
  ext <;> simp only [Q.sub, V3.sub] <;> ring

theorem Q.sub_add_comm (a k k' : Q ℝ) : (a.add k').sub k = (a.sub k).add k' := by
  ext <;> simp only [Q.sub, Q.add, V3.sub, V3.add] <;> ring

theorem Q.add_add_comm (a k k' : Q ℝ) : (a.add k').add k = (a.add k).add k' := by
  ext <;> simp only [Q.add, V3.add] <;> ring

theorem Q.min_min_comm (a W W' : Q ℝ) : (a.min W').min W = (a.min W).min W' := by
  ext <;> simp only [Q.min, amin_real] <;> exact min_right_comm _ _ _

theorem Q.max_max_comm (a W W' : Q ℝ) : (a.max W').max W = (a.max W).max W' := by
  ext <;> simp only [Q.max, amax_real] <;> exact max_right_comm _ _ _

/-! ### clamps -/

theorem amax_zero_nonneg (x : ℝ) : 0 ≤ amax x 0.0 := by
  unfold amax; rw [lit0]; split_ifs with h
  · exact le_refl 0
  · exact not_lt.mp h

theorem amax_zero_of_nonneg {x : ℝ} (h : 0 ≤ x) : amax x 0.0 = x := by
  unfold amax; rw [lit0, if_neg (not_lt.mpr h)]

/-- **masses and energies are not negative after `update_conserved_variables`** (any input) -/
theorem updateConserved_nonneg (dmax : ℝ) (h : HV ℝ) (dt : ℝ) :
    0 ≤ (updateConserved dmax h dt).cons.d ∧ 0 ≤ (updateConserved dmax h dt).cons.e := by
  simp only [updateConserved, updateConservedTag]
  exact ⟨amax_zero_nonneg _, amax_zero_nonneg _⟩

/-- **densities and pressures are not negative after `set_primitive_variables`** (any input) -/
theorem setPrimitive_nonneg (g vmax ovf invVol : ℝ) (U : Q ℝ) :
    0 ≤ (setPrimitive g vmax ovf invVol U).d ∧ 0 ≤ (setPrimitive g vmax ovf invVol U).e := by
  simp only [setPrimitive, setPrimitiveTag]
  split_ifs <;> simp only [lit0, le_refl, and_self] <;>
    exact ⟨by simpa [lit0] using amax_zero_nonneg _, by simpa [lit0] using amax_zero_nonneg _⟩

/-- without gravity, energy source and clamp the update is `U + dt · ΔU` -/
theorem updateConserved_cons {dmax : ℝ} {h : HV ℝ} {dt : ℝ} (ha : h.acc = ⟨0, 0, 0⟩)
    (he : h.eterm = 0) (hc : (updateConservedTag dmax h dt).2 = 0) :
    (updateConserved dmax h dt).cons
      = ⟨h.cons.d + h.dcons.d * dt,
         ⟨h.cons.v.x + h.dcons.v.x * dt, h.cons.v.y + h.dcons.v.y * dt,
           h.cons.v.z + h.dcons.v.z * dt⟩,
         h.cons.e + h.dcons.e * dt⟩ := by
  simp only [updateConserved, updateConservedTag, ha, he, V3.dot, lit0] at hc ⊢
  have hm : ¬ (h.cons.d + h.dcons.d * dt < 0) := by
    intro hlt; rw [if_pos hlt] at hc; split_ifs at hc <;> omega
  have hE : ¬ (h.cons.e + dt * (h.cons.v.x * 0 + h.cons.v.y * 0 + h.cons.v.z * 0) + 0
      + h.dcons.e * dt < 0) := by
    intro hlt; rw [if_pos hlt] at hc; split_ifs at hc <;> omega
  ext
  · simp only [amax, if_neg hm]
  · simp only; ring
  · simp only; ring
  · simp only; ring
  · simp only [amax, if_neg hE]; ring

/-! ### the flux limiter -/

theorem amin_range {f q : ℝ} (hf : 0 ≤ f ∧ f ≤ 1) (hq : 0 ≤ q) : 0 ≤ amin f q ∧ amin f q ≤ 1 := by
  rw [amin_real]; exact ⟨le_min hf.1 hq, (min_le_left _ _).trans hf.2⟩

theorem step_range {f q : ℝ} {c : Bool} (hf : 0 ≤ f ∧ f ≤ 1) (hq : c = true → 0 ≤ q) :
    0 ≤ (if c = true then amin f q else f) ∧ (if c = true then amin f q else f) ≤ 1 := by
  cases c
  · simpa using hf
  · simpa using amin_range hf (hq rfl)

theorem ratio_nonneg {a b : ℝ} (ha : 0 ≤ a) (hb : 0 ≤ b) : 0 ≤ a / b := div_nonneg ha hb

/-- **one common factor in [0, 1]** for all five flux components, whenever the masses and energies
of the two cells are not negative -/
theorem fluxFac_range (g mflux : ℝ) (pflux : V3 ℝ) (Eflux dt : ℝ) (L R : HV ℝ)
    (hmL : 0 ≤ L.cons.d) (hmR : 0 ≤ R.cons.d) (heL : 0 ≤ L.cons.e) (heR : 0 ≤ R.cons.e) :
    0 ≤ (fluxFac g fluxLimiter mflux pflux Eflux dt L R).1 ∧
      (fluxFac g fluxLimiter mflux pflux Eflux dt L R).1 ≤ 1 := by
  have h2 : (fluxLimiter : ℝ) = 2 := by unfold fluxLimiter; norm_num
  simp only [fluxFac, h2]
  have h0 : 0 ≤ (if decide (2 * L.cons.d < mflux * dt) = true then 2 * L.cons.d / (mflux * dt)
      else 1.0) ∧ (if decide (2 * L.cons.d < mflux * dt) = true then 2 * L.cons.d / (mflux * dt)
      else 1.0) ≤ 1 := by
    split_ifs with h
    · have h' := of_decide_eq_true h
      have hpos : 0 < mflux * dt := by linarith
      exact ⟨div_nonneg (by linarith) hpos.le, by rw [div_le_one hpos]; exact h'.le⟩
    · rw [lit1]; exact ⟨zero_le_one, le_refl 1⟩
  refine step_range (step_range (step_range (step_range (step_range h0 ?_) ?_) ?_) ?_) ?_
  · intro h
    have h' := of_decide_eq_true h
    have : (-2 * R.cons.d / (mflux * dt)) = (2 * R.cons.d) / (-(mflux * dt)) := by
      rw [div_neg, neg_mul, neg_div]
    rw [this]
    exact div_nonneg (by linarith) (by linarith)
  · intro h
    simp only [Bool.and_eq_true, decide_eq_true_eq] at h
    have hpos : 0 < Eflux * dt := by linarith [h.2]
    exact div_nonneg (by linarith) hpos.le
  · intro h
    simp only [Bool.and_eq_true, decide_eq_true_eq] at h
    have : (-2 * R.cons.e / (Eflux * dt)) = (2 * R.cons.e) / (-(Eflux * dt)) := by
      rw [div_neg, neg_mul, neg_div]
    rw [this]
    exact div_nonneg (by linarith) (by linarith [h.2])
  · intro _; exact Real.sqrt_nonneg _
  · intro _; exact Real.sqrt_nonneg _

/-! ### `Hydro::limit` over the reals -/

/-- the upper / lower envelope of `limit` (`tiny = 0`) -/
noncomputable def phiplusR (phimax δ : ℝ) : ℝ :=
  if 0 < (phimax + δ) * phimax then phimax + δ else phimax * |phimax| / (|phimax| + δ + 0)
noncomputable def phiminusR (phimin δ : ℝ) : ℝ :=
  if 0 < (phimin - δ) * phimin then phimin - δ else phimin * |phimin| / (|phimin| + δ + 0)

theorem phiplusR_neg (x δ : ℝ) : phiplusR (-x) δ = -phiminusR x δ := by
  unfold phiplusR phiminusR
  have e : (-x + δ) * -x = (x - δ) * x := by ring
  rw [e, abs_neg]
  split_ifs <;> ring

theorem phiminusR_neg (x δ : ℝ) : phiminusR (-x) δ = -phiplusR x δ := by
  unfold phiplusR phiminusR
  have e : (-x - δ) * -x = (x + δ) * x := by ring
  rw [e, abs_neg]
  split_ifs <;> ring

theorem limit_unfold (m a b d : ℝ) :
    limit 0 m a b d =
      if a = b then a
      else if a < b then
        max (phiminusR (min a b) (1 / 2 * |a - b|)) (min (a + d * (b - a) + 1 / 4 * |a - b|) m)
      else min (phiplusR (max a b) (1 / 2 * |a - b|)) (max (a + d * (b - a) - 1 / 4 * |a - b|) m) := by
  have habs : ∀ x : ℝ, ArithFns.abs x = |x| := fun _ => rfl
  simp only [limit, feq, amin_real, amax_real, habs, lit0, lit05, lit025', phiplusR, phiminusR,
    Bool.and_eq_true, decide_eq_true_eq]
  by_cases hab : a = b
  · subst hab; simp
  · have : ¬ (a ≤ b ∧ b ≤ a) := fun h => hab (le_antisymm h.1 h.2)
    rw [if_neg this, if_neg hab]

/-- equal states on both sides: the face value is the cell value -/
theorem limit_self (m a d : ℝ) : limit 0 m a a d = a := by
  rw [limit_unfold, if_pos rfl]

/-- `limit` is odd: negating the three values negates the result -/
theorem limit_neg (m a b d : ℝ) : limit 0 (-m) (-a) (-b) d = -limit 0 m a b d := by
  rw [limit_unfold, limit_unfold]
  by_cases hab : a = b
  · subst hab; simp
  · have hab' : ¬ (-a = -b) := fun h => hab (neg_injective h)
    rw [if_neg hab, if_neg hab']
    have e1 : -a - -b = -(a - b) := by ring
    have e2 : min (-a) (-b) = -max a b := min_neg_neg a b
    have e3 : max (-a) (-b) = -min a b := max_neg_neg a b
    rw [e1, abs_neg, e2, e3, phiminusR_neg, phiplusR_neg]
    by_cases hlt : a < b
    · have hn : ¬ (-a < -b) := by simp only [neg_lt_neg_iff]; exact not_lt.mpr hlt.le
      rw [if_pos hlt, if_neg hn]
      have e4 : -a + d * (-b - -a) - 1 / 4 * |a - b| = -(a + d * (b - a) + 1 / 4 * |a - b|) := by
        ring
      rw [e4, max_neg_neg, min_neg_neg]
    · have hn : -a < -b := by
        simp only [neg_lt_neg_iff]; exact lt_of_le_of_ne (not_lt.mp hlt) (Ne.symm hab)
      rw [if_neg hlt, if_pos hn]
      have e4 : -a + d * (-b - -a) + 1 / 4 * |a - b| = -(a + d * (b - a) - 1 / 4 * |a - b|) := by
        ring
      rw [e4, min_neg_neg, max_neg_neg]

theorem limit_mirror (a hq d : ℝ) : limit 0 (-a - hq) (-a) a d = -limit 0 (a + hq) a (-a) d := by
  have h := limit_neg (a + hq) a (-a) d
  rw [neg_neg] at h
  rw [← h]
  congr 1
  ring

/-! ### a reflective wall: the two reconstructed states are mirror images -/

/-- flip the component along `i` -/
noncomputable def flip (i : Axis) (v : V3 ℝ) : V3 ℝ := V3'.set v i (-(V3'.get v i))

/-- for the ghost cell of a reflective boundary the reconstruction gives the cell-centred density
and pressure on both sides and velocities that differ only by the sign of the normal component -/
theorem reconstruct_reflective (i : Axis) (W g : Q ℝ) (dx : ℝ) (hd : 0 ≤ W.d) (hp : 0 ≤ W.e) :
    let r := reflectiveRight i W g
    let rc := reconstruct 0 W g r.1 r.2 dx
    rc.rhoL = W.d ∧ rc.rhoR = W.d ∧ rc.PL = W.e ∧ rc.PR = W.e ∧ rc.vR = flip i rc.vL := by
  cases i <;>
    simp only [reflectiveRight, reconstruct, flip, V3'.set, V3'.get, limit_self, neg_neg,
      amax_zero_of_nonneg hd, amax_zero_of_nonneg hp, true_and, V3.mk.injEq, and_true]
  all_goals exact limit_mirror _ _ _

end CMacVerif.HydroUpdate
