import CMacVerif.Model.HydroUpdate
import CMacVerif.Inst.Real
import CMacVerif.Lemmas.RiemannVacuum
import Mathlib.Tactic.Ring
import Mathlib.Tactic.Linarith
import Mathlib.Tactic.FieldSimp
import Mathlib.Tactic.NormNum
import Mathlib.Tactic.Positivity
/-! Real-number lemmas about the cell-level hydro update (C04). -/
namespace CMacVerif.HydroUpdate
open CMacVerif CMacVerif.RiemannVacuum
open CMacVerif.HydroGraph (Axis)

theorem lit025' : (0.25 : ℝ) = 1 / 4 := by norm_num

/-! ### the five-vectors -/

theorem Q.sub_sub_comm (a k k' : Q ℝ) : (a.sub k').sub k = (a.sub k).sub k' := by
  ext <;> simp only [Q.sub, V3.sub] <;> ring

theorem Q.sub_add_comm (a k k' : Q ℝ) : (a.add k').sub k = (a.sub k).add k' := by
  ext <;> simp only [Q.sub, Q.add, V3.sub, V3.add] <;> ring

theorem Q.add_add_comm (a k k' : Q ℝ) : (a.add k').add k = (a.add k).add k' := by
  ext <;> simp only [Q.add, V3.add] <;> ring

theorem Q.min_min_comm (a W W' : Q ℝ) : (a.min W').min W = (a.min W).min W' := by
  ext <;> simp only [Q.min, amin_real] <;> exact min_right_comm _ _ _

theorem Q.max_max_comm (a W W' : Q ℝ) : (a.max W').max W = (a.max W).max W' := by
  ext <;> simp only [Q.max, amax_real] <;> exact max_right_comm _ _ _

/-! ### clamps -/

theorem amax_zero_nonneg (x : ℝ) : 0 ≤ amax x 0.0 := by
  unfold amax; rw [lit0]; split_ifs with h
  · exact le_refl 0
  · exact not_lt.mp h

theorem amax_zero_of_nonneg {x : ℝ} (h : 0 ≤ x) : amax x 0.0 = x := by
  unfold amax; rw [lit0, if_neg (not_lt.mpr h)]

/-- **masses and energies are not negative after `update_conserved_variables`** (any input) -/
theorem updateConserved_nonneg (dmax : ℝ) (h : HV ℝ) (dt : ℝ) :
    0 ≤ (updateConserved dmax h dt).cons.d ∧ 0 ≤ (updateConserved dmax h dt).cons.e := by
  simp only [updateConserved, updateConservedTag]
  exact ⟨amax_zero_nonneg _, amax_zero_nonneg _⟩

/-- **densities and pressures are not negative after `set_primitive_variables`** (any input) -/
theorem setPrimitive_nonneg (g vmax ovf invVol : ℝ) (U : Q ℝ) :
    0 ≤ (setPrimitive g vmax ovf invVol U).d ∧ 0 ≤ (setPrimitive g vmax ovf invVol U).e := by
  simp only [setPrimitive, setPrimitiveTag]
  split_ifs <;> simp only [lit0, le_refl, and_self] <;>
    exact ⟨by simpa [lit0] using amax_zero_nonneg _, by simpa [lit0] using amax_zero_nonneg _⟩

/-- without gravity, energy source and clamp the update is `U + dt · ΔU` -/
theorem updateConserved_cons {dmax : ℝ} {h : HV ℝ} {dt : ℝ} (ha : h.acc = ⟨0, 0, 0⟩)
    (he : h.eterm = 0) (hc : (updateConservedTag dmax h dt).2 = 0) :
    (updateConserved dmax h dt).cons
      = ⟨h.cons.d + h.dcons.d * dt,
         ⟨h.cons.v.x + h.dcons.v.x * dt, h.cons.v.y + h.dcons.v.y * dt,
           h.cons.v.z + h.dcons.v.z * dt⟩,
         h.cons.e + h.dcons.e * dt⟩ := by
  simp only [updateConserved, updateConservedTag, ha, he, V3.dot, lit0] at hc ⊢
  have hm : ¬ (h.cons.d + h.dcons.d * dt < 0) := by
    intro hlt; rw [if_pos hlt] at hc; split_ifs at hc <;> omega
  have hE : ¬ (h.cons.e + dt * (h.cons.v.x * 0 + h.cons.v.y * 0 + h.cons.v.z * 0) + 0
      + h.dcons.e * dt < 0) := by
    intro hlt; rw [if_pos hlt] at hc; split_ifs at hc <;> omega
  ext
  · simp only [amax, if_neg hm]
  · simp only; ring
  · simp only; ring
  · simp only; ring
  · simp only [amax, if_neg hE]; ring

/-! ### the flux limiter -/

theorem amin_range {f q : ℝ} (hf : 0 ≤ f ∧ f ≤ 1) (hq : 0 ≤ q) : 0 ≤ amin f q ∧ amin f q ≤ 1 := by
  rw [amin_real]; exact ⟨le_min hf.1 hq, (min_le_left _ _).trans hf.2⟩

theorem step_range {f q : ℝ} {c : Bool} (hf : 0 ≤ f ∧ f ≤ 1) (hq : c = true → 0 ≤ q) :
    0 ≤ (if c = true then amin f q else f) ∧ (if c = true then amin f q else f) ≤ 1 := by
  cases c
  · simpa using hf
  · simpa using amin_range hf (hq rfl)

theorem ratio_nonneg {a b : ℝ} (ha : 0 ≤ a) (hb : 0 ≤ b) : 0 ≤ a / b := div_nonneg ha hb

/-- **one common factor in [0, 1]** for all five flux components, whenever the masses and energies
of the two cells are not negative -/
theorem fluxFac_range (g mflux : ℝ) (pflux : V3 ℝ) (Eflux dt : ℝ) (L R : HV ℝ)
    (hmL : 0 ≤ L.cons.d) (hmR : 0 ≤ R.cons.d) (heL : 0 ≤ L.cons.e) (heR : 0 ≤ R.cons.e) :
    0 ≤ (fluxFac g fluxLimiter mflux pflux Eflux dt L R).1 ∧
      (fluxFac g fluxLimiter mflux pflux Eflux dt L R).1 ≤ 1 := by
  have h2 : (fluxLimiter : ℝ) = 2 := by unfold fluxLimiter; norm_num
  simp only [fluxFac, h2]
  have h0 : 0 ≤ (if decide (2 * L.cons.d < mflux * dt) = true then 2 * L.cons.d / (mflux * dt)
      else 1.0) ∧ (if decide (2 * L.cons.d < mflux * dt) = true then 2 * L.cons.d / (mflux * dt)
      else 1.0) ≤ 1 := by
    split_ifs with h
    · have h' := of_decide_eq_true h
      have hpos : 0 < mflux * dt := by linarith
      exact ⟨div_nonneg (by linarith) hpos.le, by rw [div_le_one hpos]; exact h'.le⟩
    · rw [lit1]; exact ⟨zero_le_one, le_refl 1⟩
  refine step_range (step_range (step_range (step_range (step_range h0 ?_) ?_) ?_) ?_) ?_
  · intro h
    have h' := of_decide_eq_true h
    have : (-2 * R.cons.d / (mflux * dt)) = (2 * R.cons.d) / (-(mflux * dt)) := by
      rw [div_neg, neg_mul, neg_div]
    rw [this]
    exact div_nonneg (by linarith) (by linarith)
  · intro h
    simp only [Bool.and_eq_true, decide_eq_true_eq] at h
    have hpos : 0 < Eflux * dt := by linarith [h.2]
    exact div_nonneg (by linarith) hpos.le
  · intro h
    simp only [Bool.and_eq_true, decide_eq_true_eq] at h
    have : (-2 * R.cons.e / (Eflux * dt)) = (2 * R.cons.e) / (-(Eflux * dt)) := by
      rw [div_neg, neg_mul, neg_div]
    rw [this]
    exact div_nonneg (by linarith) (by linarith [h.2])
  · intro _; exact Real.sqrt_nonneg _
  · intro _; exact Real.sqrt_nonneg _

/-! ### `Hydro::limit` over the reals -/

/-- the upper / lower envelope of `limit` (`tiny = 0`) -/
noncomputable def phiplusR (phimax δ : ℝ) : ℝ :=
  if 0 < (phimax + δ) * phimax then phimax + δ else phimax * |phimax| / (|phimax| + δ + 0)
noncomputable def phiminusR (phimin δ : ℝ) : ℝ :=
  if 0 < (phimin - δ) * phimin then phimin - δ else phimin * |phimin| / (|phimin| + δ + 0)

theorem phiplusR_neg (x δ : ℝ) : phiplusR (-x) δ = -phiminusR x δ := by
  unfold phiplusR phiminusR
  have e : (-x + δ) * -x = (x - δ) * x := by ring
  rw [e, abs_neg]
  split_ifs <;> ring

theorem phiminusR_neg (x δ : ℝ) : phiminusR (-x) δ = -phiplusR x δ := by
  unfold phiplusR phiminusR
  have e : (-x - δ) * -x = (x + δ) * x := by ring
  rw [e, abs_neg]
  split_ifs <;> ring

theorem limit_unfold (m a b d : ℝ) :
    limit 0 m a b d =
      if a = b then a
      else if a < b then
        max (phiminusR (min a b) (1 / 2 * |a - b|)) (min (a + d * (b - a) + 1 / 4 * |a - b|) m)
      else min (phiplusR (max a b) (1 / 2 * |a - b|)) (max (a + d * (b - a) - 1 / 4 * |a - b|) m) := by
  have habs : ∀ x : ℝ, ArithFns.abs x = |x| := fun _ => rfl
  simp only [limit, feq, amin_real, amax_real, habs, lit0, lit05, lit025', phiplusR, phiminusR,
    Bool.and_eq_true, decide_eq_true_eq]
  by_cases hab : a = b
  · subst hab; simp
  · have : ¬ (a ≤ b ∧ b ≤ a) := fun h => hab (le_antisymm h.1 h.2)
    rw [if_neg this, if_neg hab]

/-- equal states on both sides: the face value is the cell value -/
theorem limit_self (m a d : ℝ) : limit 0 m a a d = a := by
  rw [limit_unfold, if_pos rfl]

/-- `limit` is odd: negating the three values negates the result -/
theorem limit_neg (m a b d : ℝ) : limit 0 (-m) (-a) (-b) d = -limit 0 m a b d := by
  rw [limit_unfold, limit_unfold]
  by_cases hab : a = b
  · subst hab; simp
  · have hab' : ¬ (-a = -b) := fun h => hab (neg_injective h)
    rw [if_neg hab, if_neg hab']
    have e1 : -a - -b = -(a - b) := by ring
    have e2 : min (-a) (-b) = -max a b := min_neg_neg a b
    have e3 : max (-a) (-b) = -min a b := max_neg_neg a b
    rw [e1, abs_neg, e2, e3, phiminusR_neg, phiplusR_neg]
    by_cases hlt : a < b
    · have hn : ¬ (-a < -b) := by simp only [neg_lt_neg_iff]; exact not_lt.mpr hlt.le
      rw [if_pos hlt, if_neg hn]
      have e4 : -a + d * (-b - -a) - 1 / 4 * |a - b| = -(a + d * (b - a) + 1 / 4 * |a - b|) := by
        ring
      rw [e4, max_neg_neg, min_neg_neg]
    · have hn : -a < -b := by
        simp only [neg_lt_neg_iff]; exact lt_of_le_of_ne (not_lt.mp hlt) (Ne.symm hab)
      rw [if_neg hlt, if_pos hn]
      have e4 : -a + d * (-b - -a) + 1 / 4 * |a - b| = -(a + d * (b - a) - 1 / 4 * |a - b|) := by
        ring
      rw [e4, min_neg_neg, max_neg_neg]

theorem limit_mirror (a hq d : ℝ) : limit 0 (-a - hq) (-a) a d = -limit 0 (a + hq) a (-a) d := by
  have h := limit_neg (a + hq) a (-a) d
  rw [neg_neg] at h
  rw [← h]
  congr 1
  ring

/-! ### a reflective wall: the two reconstructed states are mirror images -/

/-- flip the component along `i` -/
noncomputable def flip (i : Axis) (v : V3 ℝ) : V3 ℝ := V3'.set v i (-(V3'.get v i))

/-- for the ghost cell of a reflective boundary the reconstruction gives the cell-centred density
and pressure on both sides and velocities that differ only by the sign of the normal component -/
theorem reconstruct_reflective (i : Axis) (W g : Q ℝ) (dx : ℝ) (hd : 0 ≤ W.d) (hp : 0 ≤ W.e) :
    let r := reflectiveRight i W g
    let rc := reconstruct 0 W g r.1 r.2 dx
    rc.rhoL = W.d ∧ rc.rhoR = W.d ∧ rc.PL = W.e ∧ rc.PR = W.e ∧ rc.vR = flip i rc.vL := by
  cases i <;>
    simp only [reflectiveRight, reconstruct, flip, V3'.set, V3'.get, limit_self, neg_neg,
      amax_zero_of_nonneg hd, amax_zero_of_nonneg hp, true_and, V3.mk.injEq, and_true]
  all_goals exact limit_mirror _ _ _

/-! ### `Hydro::limit`: where the face value can lie -/

theorem phiminusR_le (a δ : ℝ) (hδ : 0 ≤ δ) : phiminusR a δ ≤ a := by
  unfold phiminusR
  split_ifs with h
  · linarith
  · have ha : 0 ≤ a := by
      by_contra hn
      push Not at hn
      exact h (mul_pos_of_neg_of_neg (by linarith) hn)
    rcases eq_or_lt_of_le ha with h0 | hpos
    · rw [← h0]; simp
    · rw [abs_of_pos hpos, add_zero, div_le_iff₀ (by linarith)]
      nlinarith

theorem phiminusR_nonneg (a δ : ℝ) (ha : 0 ≤ a) (hδ : 0 ≤ δ) : 0 ≤ phiminusR a δ := by
  unfold phiminusR
  split_ifs with h
  · by_contra hn
    push Not at hn
    have : (a - δ) * a ≤ 0 := mul_nonpos_of_nonpos_of_nonneg hn.le ha
    linarith
  · exact div_nonneg (mul_nonneg ha (abs_nonneg a)) (by positivity)

theorem le_phiplusR (a δ : ℝ) (hδ : 0 ≤ δ) : a ≤ phiplusR a δ := by
  have h := phiminusR_le (-a) δ hδ
  rw [phiminusR_neg] at h
  linarith

/-- **limit_between (left value below the right one).**  For `a < b` the face value returned
for the cell with value `a` is the reconstructed value `m` clipped to the interval
`[phiminus, a + ¾ (b − a)]`: it never passes three quarters of the way to the other cell, it may
undershoot the own cell value down to `phiminus ≤ a` (`a − ½(b − a)`, or a damped value with the
sign of `a` when that would change sign), and it is `m` itself whenever `m` lies in between. -/
theorem limit_between_lt (m a b : ℝ) (hab : a < b) :
    phiminusR a (1 / 2 * (b - a)) ≤ limit 0 m a b 0.5 ∧
      limit 0 m a b 0.5 ≤ a + 3 / 4 * (b - a) ∧
      phiminusR a (1 / 2 * (b - a)) ≤ a ∧
      (phiminusR a (1 / 2 * (b - a)) ≤ m → m ≤ a + 3 / 4 * (b - a) → limit 0 m a b 0.5 = m) := by
  have habs : |a - b| = b - a := by rw [abs_sub_comm, abs_of_pos (by linarith)]
  have hlow := phiminusR_le a (1 / 2 * (b - a)) (by linarith)
  rw [limit_unfold, if_neg hab.ne, if_pos hab, min_eq_left hab.le, habs, lit05]
  have e : a + 1 / 2 * (b - a) + 1 / 4 * (b - a) = a + 3 / 4 * (b - a) := by ring
  rw [e]
  refine ⟨le_max_left _ _, max_le (by linarith) (min_le_left _ _), hlow, fun h1 h2 => ?_⟩
  rw [min_eq_right h2, max_eq_right h1]

/-- **limit_between (left value above the right one)** -/
theorem limit_between_gt (m a b : ℝ) (hab : b < a) :
    a - 3 / 4 * (a - b) ≤ limit 0 m a b 0.5 ∧
      limit 0 m a b 0.5 ≤ phiplusR a (1 / 2 * (a - b)) ∧
      a ≤ phiplusR a (1 / 2 * (a - b)) ∧
      (a - 3 / 4 * (a - b) ≤ m → m ≤ phiplusR a (1 / 2 * (a - b)) → limit 0 m a b 0.5 = m) := by
  have habs : |a - b| = a - b := abs_of_pos (by linarith)
  have hup := le_phiplusR a (1 / 2 * (a - b)) (by linarith)
  rw [limit_unfold, if_neg hab.ne', if_neg (not_lt.mpr hab.le), max_eq_left hab.le, habs, lit05]
  have e : a + 1 / 2 * (b - a) - 1 / 4 * (a - b) = a - 3 / 4 * (a - b) := by ring
  rw [e]
  refine ⟨le_min (by linarith) (le_max_left _ _), min_le_left _ _, hup, fun h1 h2 => ?_⟩
  rw [max_eq_right h1, min_eq_right h2]

/-- **non-negative cell values give a non-negative face value**, whatever the reconstructed value
(so the clamps `std::max(rho, 0.)`, `std::max(P, 0.)` after `limit` never act in exact arithmetic) -/
theorem limit_nonneg (m a b : ℝ) (ha : 0 ≤ a) (hb : 0 ≤ b) : 0 ≤ limit 0 m a b 0.5 := by
  rcases lt_trichotomy a b with h | h | h
  · exact (phiminusR_nonneg a _ ha (by linarith)).trans (limit_between_lt m a b h).1
  · rw [h, limit_self]; exact hb
  · exact le_trans (by nlinarith) (limit_between_gt m a b h).1

/-- the states handed to the Riemann solver have non-negative density and pressure (clamps), and
for non-negative cell values the clamps are not even needed -/
theorem face_density_pressure_nonneg (tiny : ℝ) (WL gL WR gR : Q ℝ) (dx : ℝ) :
    0 ≤ (reconstruct tiny WL gL WR gR dx).rhoL ∧ 0 ≤ (reconstruct tiny WL gL WR gR dx).PL ∧
      0 ≤ (reconstruct tiny WL gL WR gR dx).rhoR ∧ 0 ≤ (reconstruct tiny WL gL WR gR dx).PR := by
  simp only [reconstruct]
  exact ⟨amax_zero_nonneg _, amax_zero_nonneg _, amax_zero_nonneg _, amax_zero_nonneg _⟩

theorem face_clamp_inactive (WL gL WR gR : Q ℝ) (dx : ℝ) (h1 : 0 ≤ WL.d) (h2 : 0 ≤ WL.e)
    (h3 : 0 ≤ WR.d) (h4 : 0 ≤ WR.e) :
    (reconstruct 0 WL gL WR gR dx).rhoL = limit 0 (WL.d + 0.5 * dx * gL.d) WL.d WR.d 0.5 ∧
      (reconstruct 0 WL gL WR gR dx).PL = limit 0 (WL.e + 0.5 * dx * gL.e) WL.e WR.e 0.5 ∧
      (reconstruct 0 WL gL WR gR dx).rhoR = limit 0 (WR.d - 0.5 * dx * gR.d) WR.d WL.d 0.5 ∧
      (reconstruct 0 WL gL WR gR dx).PR = limit 0 (WR.e - 0.5 * dx * gR.e) WR.e WL.e 0.5 := by
  simp only [reconstruct]
  exact ⟨amax_zero_of_nonneg (limit_nonneg _ _ _ h1 h3), amax_zero_of_nonneg (limit_nonneg _ _ _ h2 h4),
    amax_zero_of_nonneg (limit_nonneg _ _ _ h3 h1), amax_zero_of_nonneg (limit_nonneg _ _ _ h4 h2)⟩

/-! ### `Hydro::apply_slope_limiter` -/

/-- the largest extrapolation `|grad_k · dx_k / 2|` of a variable to the six faces -/
noncomputable def maxExt (g dx : V3 ℝ) : ℝ :=
  max (max |g.x * 0.5 * dx.x| |g.y * 0.5 * dx.y|) |g.z * 0.5 * dx.z|

theorem max_pm (W e : ℝ) : max (W + e) (W - e) = W + |e| := by
  rcases le_total 0 e with h | h
  · rw [abs_of_nonneg h, max_eq_left (by linarith)]
  · rw [abs_of_nonpos h, max_eq_right (by linarith)]; ring

theorem min_pm (W e : ℝ) : min (W + e) (W - e) = W - |e| := by
  rcases le_total 0 e with h | h
  · rw [abs_of_nonneg h, min_eq_right (by linarith)]
  · rw [abs_of_nonpos h, min_eq_left (by linarith)]; ring

theorem max_chain (W A e : ℝ) : max (max (W + A) (W + e)) (W - e) = W + max A |e| := by
  rw [max_assoc, max_pm, max_add_add_left]

theorem min_chain (W A e : ℝ) : min (min (W - A) (W + e)) (W - e) = W - max A |e| := by
  rw [min_assoc, min_pm, sub_eq_add_neg, sub_eq_add_neg, min_add_add_left, min_neg_neg,
    ← sub_eq_add_neg]

/-- `alpha` in closed form: with `E` the largest extrapolation,
`alpha = min(1, ½ min((hi − W)/E, (W − lo)/E))` (`DBL_MAX` instead of a quotient when `E = 0`) -/
theorem slopeAlpha_eq (dmax W : ℝ) (g : V3 ℝ) (lo hi : ℝ) (dx : V3 ℝ) :
    slopeAlpha dmax W g lo hi dx =
      min 1 (1 / 2 * min (if maxExt g dx = 0 then dmax else (hi - W) / maxExt g dx)
        (if maxExt g dx = 0 then dmax else (lo - W) / (-maxExt g dx))) := by
  have hfeq : ∀ x : ℝ, (feq x 0.0 = true) ↔ x = 0 := by
    intro x
    simp only [feq, lit0, Bool.and_eq_true, decide_eq_true_eq]
    exact ⟨fun h => le_antisymm h.1 h.2, fun h => by rw [h]; exact ⟨le_refl 0, le_refl 0⟩⟩
  simp only [slopeAlpha, slopeAlphaTag, amax_real, amin_real, max_pm, min_pm, max_chain, min_chain,
    hfeq, lit1, lit05]
  have e1 : W + max (max |g.x * (1 / 2) * dx.x| |g.y * (1 / 2) * dx.y|) |g.z * (1 / 2) * dx.z| - W
      = maxExt g dx := by unfold maxExt; rw [lit05]; ring
  have e2 : W - max (max |g.x * (1 / 2) * dx.x| |g.y * (1 / 2) * dx.y|) |g.z * (1 / 2) * dx.z| - W
      = -maxExt g dx := by unfold maxExt; rw [lit05]; ring
  rw [e1, e2]
  simp only [neg_eq_zero]

theorem maxExt_nonneg (g dx : V3 ℝ) : 0 ≤ maxExt g dx :=
  le_trans (abs_nonneg _) (le_max_right _ _)

/-- the heart of the slope limiter: `|alpha| · E ≤ ½ min(|hi − W|, |W − lo|)` when the neighbour
minimum is not above the neighbour maximum -/
theorem slopeAlpha_mul_maxExt (dmax W : ℝ) (g : V3 ℝ) (lo hi : ℝ) (dx : V3 ℝ) (hlh : lo ≤ hi) :
    |slopeAlpha dmax W g lo hi dx| * maxExt g dx ≤ 1 / 2 * min |hi - W| |W - lo| := by
  have hE := maxExt_nonneg g dx
  have hb : 0 ≤ 1 / 2 * min |hi - W| |W - lo| := by positivity
  rcases eq_or_lt_of_le hE with h0 | hpos
  · rw [← h0, mul_zero]; exact hb
  · rw [slopeAlpha_eq, if_neg hpos.ne', if_neg hpos.ne']
    set E := maxExt g dx with hEdef
    have e2 : (lo - W) / -E = (W - lo) / E := by rw [div_neg, ← neg_div]; ring_nf
    rw [e2, min_div_div_right hpos.le]
    set m := min (hi - W) (W - lo) with hm
    by_cases hm0 : 0 ≤ m
    · have h1 : 0 ≤ hi - W := le_trans hm0 (min_le_left _ _)
      have h2 : 0 ≤ W - lo := le_trans hm0 (min_le_right _ _)
      have hq : 0 ≤ 1 / 2 * (m / E) := by positivity
      rw [abs_of_nonneg (le_min zero_le_one hq), abs_of_nonneg h1, abs_of_nonneg h2, ← hm]
      calc min 1 (1 / 2 * (m / E)) * E ≤ 1 / 2 * (m / E) * E :=
            mul_le_mul_of_nonneg_right (min_le_right _ _) hpos.le
        _ = 1 / 2 * m := by field_simp
    · push Not at hm0
      have hq : 1 / 2 * (m / E) < 0 := by
        have : m / E < 0 := div_neg_of_neg_of_pos hm0 hpos
        linarith
      rw [min_eq_right (by linarith), abs_of_neg hq]
      have hE' : -(1 / 2 * (m / E)) * E = 1 / 2 * -m := by field_simp
      rw [hE']
      have hmle : -m ≤ min |hi - W| |W - lo| := by
        rcases min_choice (hi - W) (W - lo) with hc | hc
        · have ha : hi - W < 0 := by rw [← hc]; exact hm0
          have : m = hi - W := hc
          rw [this]
          exact le_min (by rw [abs_of_neg ha]) (by rw [abs_of_nonneg (by linarith)]; linarith)
        · have ha : W - lo < 0 := by rw [← hc]; exact hm0
          have : m = W - lo := hc
          rw [this]
          exact le_min (by rw [abs_of_nonneg (by linarith)]; linarith) (by rw [abs_of_neg ha])
      linarith

/-- one extrapolation of the limited gradient -/
theorem limited_ext_le (dmax W : ℝ) (g : V3 ℝ) (lo hi : ℝ) (dx : V3 ℝ) (hlh : lo ≤ hi)
    (gk dxk : ℝ) (hk : |gk * 0.5 * dxk| ≤ maxExt g dx) :
    |gk * slopeAlpha dmax W g lo hi dx * 0.5 * dxk| ≤ 1 / 2 * min |hi - W| |W - lo| := by
  have e : gk * slopeAlpha dmax W g lo hi dx * 0.5 * dxk
      = slopeAlpha dmax W g lo hi dx * (gk * 0.5 * dxk) := by ring
  rw [e, abs_mul]
  exact le_trans (mul_le_mul_of_nonneg_left hk (abs_nonneg _))
    (slopeAlpha_mul_maxExt dmax W g lo hi dx hlh)

/-- all three extrapolations of one limited variable -/
theorem limited_var_bound (dmax W : ℝ) (g : V3 ℝ) (lo hi : ℝ) (dx : V3 ℝ) (hlh : lo ≤ hi) :
    let g' := g.smul (slopeAlpha dmax W g lo hi dx)
    |g'.x * 0.5 * dx.x| ≤ 1 / 2 * min |hi - W| |W - lo| ∧
      |g'.y * 0.5 * dx.y| ≤ 1 / 2 * min |hi - W| |W - lo| ∧
      |g'.z * 0.5 * dx.z| ≤ 1 / 2 * min |hi - W| |W - lo| := by
  simp only [V3.smul]
  exact ⟨limited_ext_le dmax W g lo hi dx hlh g.x dx.x (le_trans (le_max_left _ _) (le_max_left _ _)),
    limited_ext_le dmax W g lo hi dx hlh g.y dx.y (le_trans (le_max_right _ _) (le_max_left _ _)),
    limited_ext_le dmax W g lo hi dx hlh g.z dx.z (le_max_right _ _)⟩

/-! ### `Hydro::predict_primitive_variables` -/

theorem predictPrimitive_nonneg (g ovf : ℝ) (W : Q ℝ) (G : Grad ℝ) (a : V3 ℝ) (dt : ℝ)
    (hd : 0 ≤ W.d) (hp : 0 ≤ W.e) :
    0 ≤ (predictPrimitive g ovf W G a dt).d ∧ 0 ≤ (predictPrimitive g ovf W G a dt).e := by
  simp only [predictPrimitive, predictPrimitiveTag]
  split_ifs <;> first | exact ⟨hd, hp⟩ | exact ⟨amax_zero_nonneg _, amax_zero_nonneg _⟩

/-! ### inflow and outflow boundaries -/

theorem ghostFaceFluxB_reflective (flux : FluxFn ℝ) (tiny g : ℝ) (i : Axis) (L : HV ℝ)
    (dx A dt : ℝ) :
    ghostFaceFluxB .reflective flux tiny g i L dx A dt = ghostFaceFlux flux tiny g i L dx A dt := rfl

theorem doGhostGradientCalculationB_reflective (i : Axis) (L : HV ℝ) (dxinv : ℝ) :
    doGhostGradientCalculationB .reflective i L dxinv = doGhostGradientCalculation i L dxinv := rfl

/-- the face value of a cell whose reconstructed value is its own cell value is that value -/
theorem limit_own_value (a b : ℝ) : limit 0 a a b 0.5 = a := by
  rcases lt_trichotomy a b with h | h | h
  · exact (limit_between_lt a a b h).2.2.2 (phiminusR_le a _ (by linarith)) (by linarith)
  · rw [h, limit_self]
  · exact (limit_between_gt a a b h).2.2.2 (by linarith) (le_phiplusR a _ (by linarith))

/-- a ghost cell that is a copy of the cell (inflow boundary; outflow boundary with outgoing gas):
both reconstructed states are the cell-centred state, whatever the gradients -/
theorem reconstruct_copy (W g g' : Q ℝ) (dx : ℝ) (hd : 0 ≤ W.d) (hp : 0 ≤ W.e) :
    reconstruct 0 W g W g' dx = ⟨W.d, W.v, W.e, W.d, W.v, W.e⟩ := by
  simp only [reconstruct, limit_self, amax_zero_of_nonneg hd, amax_zero_of_nonneg hp]

theorem inflow_states (i : Axis) (s : ℝ) (W g : Q ℝ) (dx : ℝ) (hd : 0 ≤ W.d) (hp : 0 ≤ W.e) :
    let r := ghostFluxRight .inflow i s W g
    reconstruct 0 W g r.1 r.2 dx = ⟨W.d, W.v, W.e, W.d, W.v, W.e⟩ :=
  reconstruct_copy W g g dx hd hp

theorem outflow_states_outgoing (i : Axis) (s : ℝ) (W g : Q ℝ) (dx : ℝ) (hd : 0 ≤ W.d)
    (hp : 0 ≤ W.e) (hout : 0 ≤ s * V3'.get W.v i) :
    let r := ghostFluxRight .outflow i s W g
    reconstruct 0 W g r.1 r.2 dx = ⟨W.d, W.v, W.e, W.d, W.v, W.e⟩ := by
  simp only [ghostFluxRight, lit0, if_neg (not_lt.mpr hout)]
  exact reconstruct_copy W g g dx hd hp

/-- outflow boundary with gas that moves into the box: density, pressure and the tangential
velocities of both states are the cell values, the ghost state has exactly the reversed cell-centred
normal velocity (its gradient is set to zero), the cell side its reconstructed one -/
theorem outflow_states_incoming (i : Axis) (s : ℝ) (W g : Q ℝ) (dx : ℝ) (hd : 0 ≤ W.d)
    (hp : 0 ≤ W.e) (hin : s * V3'.get W.v i < 0) :
    let r := ghostFluxRight .outflow i s W g
    let rc := reconstruct 0 W g r.1 r.2 dx
    rc.rhoL = W.d ∧ rc.rhoR = W.d ∧ rc.PL = W.e ∧ rc.PR = W.e ∧
      V3'.get rc.vR i = -(V3'.get W.v i) ∧
      (∀ j, j ≠ i → V3'.get rc.vR j = V3'.get W.v j ∧ V3'.get rc.vL j = V3'.get W.v j) := by
  have hin' : s * V3'.get W.v i < 0.0 := by rw [lit0]; exact hin
  simp only [ghostFluxRight, if_pos hin']
  cases i <;>
    simp only [reconstruct, V3'.set, V3'.get, limit_self, amax_zero_of_nonneg hd,
      amax_zero_of_nonneg hp, true_and] <;>
    simp only [lit0, mul_zero, sub_zero, limit_own_value, true_and] <;>
    (intro j hj; cases j <;> simp_all)

end CMacVerif.HydroUpdate
