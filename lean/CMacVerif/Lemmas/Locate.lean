import CMacVerif.Model.Locate
import CMacVerif.Inst.Real
import Mathlib.Order.Basic
import Mathlib.Tactic.SplitIfs
import Mathlib.Tactic.Linarith
import Mathlib.Tactic.FieldSimp
import Mathlib.Tactic.Positivity
/-!
# C18 — lemmas about `Utilities::locate` (any linear order) and the samplers (ℝ)
-/
namespace CMacVerif.Locate
open CMacVerif

section Bisection
variable {α : Type} [LinearOrder α]

/-- Invariant of the bisection, for every table size: with the virtual sentinels
`xarr (-1) = -∞`, `xarr n = +∞` the loop keeps `xarr jl < x ≤ xarr ju`, and ends with `ju = jl + 1`. -/
theorem locateLoop_spec (x : α) (xarr : ℕ → α) (n : ℕ) :
    ∀ (d jl ju : ℕ), ju - jl = d → jl < ju → ju ≤ n → (jl = 0 ∨ xarr jl < x) → (ju = n ∨ x ≤ xarr ju) →
      jl ≤ locateLoop x xarr jl ju ∧ locateLoop x xarr jl ju < ju ∧
      (locateLoop x xarr jl ju = 0 ∨ xarr (locateLoop x xarr jl ju) < x) ∧
      (locateLoop x xarr jl ju + 1 = n ∨ x ≤ xarr (locateLoop x xarr jl ju + 1)) := by
  intro d
  induction d using Nat.strong_induction_on with
  | _ d ih =>
    intro jl ju hd hlt hn hl hu
    rw [locateLoop]
    split_ifs with h1 h2
    · obtain ⟨a, b, c, e⟩ := ih (ju - (ju + jl) / 2) (by omega) ((ju + jl) / 2) ju rfl (by omega) hn (Or.inr h2) hu
      exact ⟨by omega, b, c, e⟩
    · obtain ⟨a, b, c, e⟩ := ih ((ju + jl) / 2 - jl) (by omega) jl ((ju + jl) / 2) rfl (by omega) (by omega) hl
        (Or.inr (not_lt.mp h2))
      exact ⟨a, by omega, c, e⟩
    · have hju : ju = jl + 1 := by omega
      subst hju
      exact ⟨le_refl _, by omega, hl, hu⟩

/-- the loop never moves when no entry is below `x` -/
theorem locateLoop_eq_of_forall_not_lt (x : α) (xarr : ℕ → α) :
    ∀ (d jl ju : ℕ), ju - jl = d → (∀ i, i < ju → ¬ xarr i < x) → locateLoop x xarr jl ju = jl := by
  intro d
  induction d using Nat.strong_induction_on with
  | _ d ih =>
    intro jl ju hd h
    rw [locateLoop]
    split_ifs with h1 h2
    · exact absurd h2 (h _ (by omega))
    · exact ih ((ju + jl) / 2 - jl) (by omega) jl ((ju + jl) / 2) rfl (fun i hi => h i (by omega))
    · rfl

theorem locateLoop_zero_spec (x : α) (xarr : ℕ → α) (n : ℕ) (hn : 0 < n) :
    locateLoop x xarr 0 n < n ∧
    (locateLoop x xarr 0 n = 0 ∨ xarr (locateLoop x xarr 0 n) < x) ∧
    (locateLoop x xarr 0 n + 1 = n ∨ x ≤ xarr (locateLoop x xarr 0 n + 1)) := by
  obtain ⟨_, b, c, e⟩ := locateLoop_spec x xarr n n 0 n rfl hn le_rfl (Or.inl rfl) (Or.inl rfl)
  exact ⟨b, c, e⟩

/-- **never out of bounds**: the returned index is at most `length - 2`, for every table size
`≥ 2`, every table (sorted or not) and every `x` -/
theorem locate_add_two_le (x : α) (xarr : ℕ → α) (n : ℕ) (hn : 2 ≤ n) : locate x xarr n + 2 ≤ n := by
  obtain ⟨b, _, _⟩ := locateLoop_zero_spec x xarr n (by omega)
  unfold locate
  simp only
  split_ifs with h <;> omega

/-- the returned index brackets `x` (needs no sortedness: it is the bisection invariant) -/
theorem locate_bracket (x : α) (xarr : ℕ → α) (n : ℕ) (hn : 2 ≤ n)
    (h0 : xarr 0 < x) (h1 : x ≤ xarr (n - 1)) :
    xarr (locate x xarr n) < x ∧ x ≤ xarr (locate x xarr n + 1) := by
  obtain ⟨b, c, e⟩ := locateLoop_zero_spec x xarr n (by omega)
  unfold locate
  simp only
  split_ifs with h
  · exfalso
    rcases c with c | c
    · omega
    · rw [h] at c; exact absurd h1 (not_le.mpr c)
  · refine ⟨?_, ?_⟩
    · rcases c with c | c
      · rw [c]; exact h0
      · exact c
    · rcases e with e | e
      · omega
      · exact e

/-- non-strict variant, valid also for `x = xarr 0` -/
theorem locate_bracket_le (x : α) (xarr : ℕ → α) (n : ℕ) (hn : 2 ≤ n)
    (h0 : xarr 0 ≤ x) (h1 : x ≤ xarr (n - 1)) :
    xarr (locate x xarr n) ≤ x ∧ x ≤ xarr (locate x xarr n + 1) := by
  obtain ⟨b, c, e⟩ := locateLoop_zero_spec x xarr n (by omega)
  unfold locate
  simp only
  split_ifs with h
  · exfalso
    rcases c with c | c
    · omega
    · rw [h] at c; exact absurd h1 (not_le.mpr c)
  · refine ⟨?_, ?_⟩
    · rcases c with c | c
      · rw [c]; exact h0
      · exact c.le
    · rcases e with e | e
      · omega
      · exact e

/-- `x` at or below the first entry of a sorted table: index 0 -/
theorem locate_eq_zero_of_le (x : α) (xarr : ℕ → α) (n : ℕ) (_hn : 2 ≤ n)
    (hs : ∀ i j, i ≤ j → j < n → xarr i ≤ xarr j) (h0 : x ≤ xarr 0) : locate x xarr n = 0 := by
  have : locateLoop x xarr 0 n = 0 :=
    locateLoop_eq_of_forall_not_lt x xarr n 0 n rfl
      (fun i hi => not_lt.mpr (le_trans h0 (hs 0 i (Nat.zero_le _) hi)))
  unfold locate
  simp only [this]
  split_ifs with h <;> omega

/-- `x` above the last entry: index `length - 2` -/
theorem locate_eq_of_gt_last (x : α) (xarr : ℕ → α) (n : ℕ) (hn : 2 ≤ n)
    (hs : ∀ i j, i ≤ j → j < n → xarr i ≤ xarr j) (h1 : xarr (n - 1) < x) : locate x xarr n = n - 2 := by
  obtain ⟨b, c, e⟩ := locateLoop_zero_spec x xarr n (by omega)
  have : locateLoop x xarr 0 n = n - 1 := by
    by_contra hne
    rcases e with e | e
    · omega
    · have := hs (locateLoop x xarr 0 n + 1) (n - 1) (by omega) (by omega)
      exact absurd (lt_of_le_of_lt (le_trans e this) h1) (lt_irrefl _)
  unfold locate
  simp only [this]
  split_ifs with h <;> omega

/-- in a sorted table the result is *the* last index whose entry is below `x` -/
theorem locate_sorted (x : α) (xarr : ℕ → α) (n : ℕ) (hn : 2 ≤ n)
    (hs : ∀ i j, i ≤ j → j < n → xarr i ≤ xarr j) (h0 : xarr 0 < x) (h1 : x ≤ xarr (n - 1)) :
    (∀ i, i ≤ locate x xarr n → xarr i < x) ∧ (∀ i, locate x xarr n < i → i < n → x ≤ xarr i) := by
  obtain ⟨a, b⟩ := locate_bracket x xarr n hn h0 h1
  have hle := locate_add_two_le x xarr n hn
  exact ⟨fun i hi => lt_of_le_of_lt (hs i _ hi (by omega)) a,
         fun i hi hin => le_trans b (hs _ i (by omega) hin)⟩

end Bisection
end CMacVerif.Locate
