import CMacVerif.Lemmas.AMRGeom
import Mathlib.Data.List.Nodup
/-! Leaves ↔ keys, refinement, and the block level of the AMR grid (C16). -/
namespace CMacVerif.AMR
open CMacVerif.GridNum

theorem leafPaths_nodup (t : Tree) : (leafPaths t).Nodup := by
  induction t with
  | leaf => simp [leafPaths]
  | node c ih =>
    have hm : ∀ (i : Nat) (l : List (List Nat)), l.Nodup → (l.map (i :: ·)).Nodup :=
      fun i l h => List.Nodup.map List.cons_injective h
    simp only [leafPaths, List.nodup_append, List.mem_append, List.mem_map]
    refine ⟨⟨⟨⟨⟨⟨⟨hm _ _ (ih 0), hm _ _ (ih 1), ?_⟩, hm _ _ (ih 2), ?_⟩, hm _ _ (ih 3), ?_⟩, hm _ _ (ih 4), ?_⟩,
      hm _ _ (ih 5), ?_⟩, hm _ _ (ih 6), ?_⟩, hm _ _ (ih 7), ?_⟩
    all_goals
      intro a ha b hb hab
      subst hab
      obtain ⟨r', _, hr'⟩ := hb
      subst hr'
      simp at ha

theorem leafPaths_length (t : Tree) : (leafPaths t).length = numLeaves t := by
  induction t with
  | leaf => rfl
  | node c ih => simp only [leafPaths, List.length_append, List.length_map, ih, numLeaves]

/-- the leaf keys are the keys of the leaf paths, in the same order -/
theorem leafKeys_eq_map (t : Tree) : ∀ (L pre : Nat),
    leafKeys t L pre = (leafPaths t).map (fun π => pre + 2 ^ (3 * L) * encodeKey π) := by
  induction t with
  | leaf => intro L pre; simp [leafKeys, leafPaths, encodeKey]
  | node c ih =>
    intro L pre
    have seg : ∀ i : Fin 8, leafKeys (c i) (L + 1) (pre + i.val * 2 ^ (3 * L))
        = ((leafPaths (c i)).map (i.val :: ·)).map (fun π => pre + 2 ^ (3 * L) * encodeKey π) := by
      intro i
      rw [ih i, List.map_map]
      apply List.map_congr_left
      intro π _
      simp only [Function.comp, encodeKey, pow_three_succ]; ring
    simp only [leafKeys, leafPaths, List.map_append]
    rw [show leafKeys (c 0) (L + 1) (pre + 0 * 2 ^ (3 * L)) = _ from seg 0,
      show leafKeys (c 1) (L + 1) (pre + 1 * 2 ^ (3 * L)) = _ from seg 1,
      show leafKeys (c 2) (L + 1) (pre + 2 * 2 ^ (3 * L)) = _ from seg 2,
      show leafKeys (c 3) (L + 1) (pre + 3 * 2 ^ (3 * L)) = _ from seg 3,
      show leafKeys (c 4) (L + 1) (pre + 4 * 2 ^ (3 * L)) = _ from seg 4,
      show leafKeys (c 5) (L + 1) (pre + 5 * 2 ^ (3 * L)) = _ from seg 5,
      show leafKeys (c 6) (L + 1) (pre + 6 * 2 ^ (3 * L)) = _ from seg 6,
      show leafKeys (c 7) (L + 1) (pre + 7 * 2 ^ (3 * L)) = _ from seg 7]
    rfl

theorem leafKeys_block (t : Tree) : leafKeys t 0 0 = (leafPaths t).map encodeKey := by
  rw [leafKeys_eq_map]; apply List.map_congr_left; intro π _; simp

/-- different leaves have different keys -/
theorem leafKeys_nodup (t : Tree) : (leafKeys t 0 0).Nodup := by
  rw [leafKeys_block]
  refine (List.nodup_map_iff_inj_on (leafPaths_nodup t)).2 ?_
  intro π hπ π' hπ' h
  rw [← decode_encode π (leafPaths_digits t π hπ), ← decode_encode π' (leafPaths_digits t π' hπ'), h]

theorem leafKeys_length (t : Tree) : (leafKeys t 0 0).length = numLeaves t := by
  rw [leafKeys_block, List.length_map, leafPaths_length]

/-! ### refinement -/

theorem numLeaves_update (c : Fin 8 → Tree) (i : Fin 8) (x : Tree) :
    numLeaves (.node fun j => if j.val = i.val then x else c j) + numLeaves (c i)
      = numLeaves (.node c) + numLeaves x := by
  have v3 : ((3 : Fin 8) : Nat) = 3 := rfl
  have v4 : ((4 : Fin 8) : Nat) = 4 := rfl
  have v5 : ((5 : Fin 8) : Nat) = 5 := rfl
  have v6 : ((6 : Fin 8) : Nat) = 6 := rfl
  have v7 : ((7 : Fin 8) : Nat) = 7 := rfl
  match i with
  | ⟨0, _⟩ => simp [numLeaves, v3, v4, v5, v6, v7]; omega
  | ⟨1, _⟩ => simp [numLeaves, v3, v4, v5, v6, v7]; omega
  | ⟨2, _⟩ => simp [numLeaves, v3, v4, v5, v6, v7]; omega
  | ⟨3, _⟩ => simp [numLeaves, v3, v4, v5, v6, v7]; omega
  | ⟨4, _⟩ => simp [numLeaves, v3, v4, v5, v6, v7]; omega
  | ⟨5, _⟩ => simp [numLeaves, v3, v4, v5, v6, v7]; omega
  | ⟨6, _⟩ => simp [numLeaves, v3, v4, v5, v6, v7]; omega
  | ⟨7, _⟩ => simp [numLeaves, v3, v4, v5, v6, v7]; omega

/-- refining a leaf (addressed by its key) turns exactly that leaf into a cell with eight leaf
children and returns the key of the first child -/
theorem refine_spec (t : Tree) : ∀ (π : List Nat), π ∈ leafPaths t →
    (refine t (encodeKey π)).2 = encodeKey (π ++ [0]) ∧
    subtree (refine t (encodeKey π)).1 (encodeKey π) = some (.node fun _ => .leaf) ∧
    numLeaves (refine t (encodeKey π)).1 = numLeaves t + 7 := by
  induction t with
  | leaf =>
    intro π hπ
    simp [leafPaths] at hπ; subst hπ
    simp [refine, encodeKey, subtree, numLeaves]
  | node c ih =>
    intro π hπ
    obtain ⟨i, r, hr, rfl⟩ := (mem_leafPaths_node c π).1 hπ
    have hi := i.isLt
    have hpos := encodeKey_pos r
    have hne : ¬ (i.val + 8 * encodeKey r = 1) := by omega
    have hmod : (i.val + 8 * encodeKey r) % 8 = i.val := by omega
    have hdiv : (i.val + 8 * encodeKey r) / 8 = encodeKey r := by omega
    have hfin : (⟨(i.val + 8 * encodeKey r) % 8, Nat.mod_lt _ (by decide)⟩ : Fin 8) = i := Fin.ext hmod
    obtain ⟨h1, h2, h3⟩ := ih i r hr
    refine ⟨?_, ?_, ?_⟩
    · simp only [encodeKey, refine, if_neg hne, hdiv, hmod, Fin.eta, List.cons_append, h1]; ring
    · simp only [encodeKey, refine, if_neg hne, hdiv, hmod, Fin.eta, subtree]
      simpa using h2
    · simp only [encodeKey, refine, if_neg hne, hdiv, hmod, Fin.eta]
      have := numLeaves_update c i (refine (c i) (encodeKey r)).1
      omega

/-! ### the 64-bit key: block part and cell part -/

theorem gridKey_roundtrip (ix iy iz cell : Nat) (hx : ix < 1024) (hy : iy < 1024) (hz : iz < 1024)
    (hc : cell < 2 ^ 32) :
    blockOfKey (gridKey ix iy iz cell) = (ix, iy, iz) ∧ cellOfKey (gridKey ix iy iz cell) = cell ∧
      gridKey ix iy iz cell < 2 ^ 62 := by
  unfold blockOfKey cellOfKey gridKey
  norm_num at hc ⊢
  refine ⟨⟨?_, ?_, ?_⟩, ?_, ?_⟩ <;> omega

/-! ### chains over concatenated segments -/

theorem ChainTo.head_ne {next : Nat → Nat} {ks : List Nat} {e : Nat} (h : ChainTo next ks e) :
    ∃ k r, ks = k :: r := by cases h <;> exact ⟨_, _, rfl⟩

/-- a chain survives an injective renaming of the keys that commutes with `next` -/
theorem ChainTo.map_retarget {next next' : Nat → Nat} {ks : List Nat} {m e : Nat} (φ : Nat → Nat)
    (h : ChainTo next ks m) (hne : ∀ k ∈ ks, k ≠ m)
    (hn : ∀ k ∈ ks, next' (φ k) = if next k = m then e else φ (next k)) :
    ChainTo next' (ks.map φ) e := by
  induction h with
  | single k e' hk =>
    refine ChainTo.single _ e ?_
    rw [hn k (by simp), hk]; simp
  | cons k k' r e' hk _ ih =>
    refine ChainTo.cons _ _ _ e ?_ (ih (fun j hj => hne j (by simp [hj])) (fun j hj => hn j (by simp [hj])))
    rw [hn k (by simp), hk, if_neg (hne k' (by simp))]

theorem chain_flatMap_range (next : Nat → Nat) (f : Nat → List Nat) (tgt : Nat → Nat) (n : Nat)
    (hc : ∀ i, i ≤ n → ChainTo next (f i) (tgt i))
    (hh : ∀ i, i < n → (f (i + 1)).head? = some (tgt i)) :
    ChainTo next ((List.range (n + 1)).flatMap f) (tgt n) := by
  induction n with
  | zero => simpa using hc 0 (le_refl _)
  | succ n ih =>
    rw [List.range_succ, List.flatMap_append]
    simp only [List.flatMap_cons, List.flatMap_nil, List.append_nil]
    exact ChainTo.append _ (hh n (by omega)) (ih (fun i hi => hc i (by omega)) (fun i hi => hh i (by omega)))
      (hc (n + 1) (le_refl _))

theorem head_flatMap_range (f : Nat → List Nat) (n : Nat) (h : f 0 ≠ []) :
    ((List.range (n + 1)).flatMap f).head? = (f 0).head? := by
  rw [List.range_succ_eq_map, List.flatMap_cons, List.head?_append]
  cases hf : f 0 with
  | nil => exact absurd hf h
  | cons a r => simp

/-! ### enumeration of the whole grid -/

/-- keys of one block, as 64-bit keys -/
def blockKeys (g : Grid) (ix iy iz : Nat) : List Nat :=
  (leafKeys (g.block ix iy iz) 0 0).map (gridKey ix iy iz)
def rowKeys (g : Grid) (ix iy : Nat) : List Nat := (List.range g.nz).flatMap (blockKeys g ix iy)
def slabKeys (g : Grid) (ix : Nat) : List Nat := (List.range g.ny).flatMap (rowKeys g ix)
/-- all leaf keys of the grid: blocks in the order x, y, z (z fastest), leaves in Morton order -/
def gridKeys (g : Grid) : List Nat := (List.range g.nx).flatMap (slabKeys g)

/-- well-formed grid: at most 1024 blocks per axis (10 bits each), blocks at most 10 levels deep -/
structure Grid.WF (g : Grid) : Prop where
  nx_pos : 0 < g.nx
  ny_pos : 0 < g.ny
  nz_pos : 0 < g.nz
  nx_le : g.nx ≤ 1024
  ny_le : g.ny ≤ 1024
  nz_le : g.nz ≤ 1024
  depth_le : ∀ ix iy iz, depth (g.block ix iy iz) ≤ 10

def slabTgt (g : Grid) (ix : Nat) : Nat :=
  if ix + 1 = g.nx then maxKey64 else gridKey (ix + 1) 0 0 (firstKey (g.block (ix + 1) 0 0) 0)
def rowTgt (g : Grid) (ix iy : Nat) : Nat :=
  if iy + 1 = g.ny then slabTgt g ix else gridKey ix (iy + 1) 0 (firstKey (g.block ix (iy + 1) 0) 0)
def blockTgt (g : Grid) (ix iy iz : Nat) : Nat :=
  if iz + 1 = g.nz then rowTgt g ix iy else gridKey ix iy (iz + 1) (firstKey (g.block ix iy (iz + 1)) 0)

theorem blockKeys_head (g : Grid) (hg : g.WF) (ix iy iz : Nat) :
    (blockKeys g ix iy iz).head? = some (gridKey ix iy iz (firstKey (g.block ix iy iz) 0)) := by
  have := (nextKey_chain (g.block ix iy iz) 0 0 (by norm_num) (by have := hg.depth_le ix iy iz; omega)).1
  unfold blockKeys
  rw [List.head?_map, this]; simp

theorem blockKeys_chain (g : Grid) (hg : g.WF) (ix iy iz : Nat) (hx : ix < g.nx) (hy : iy < g.ny)
    (hz : iz < g.nz) : ChainTo (gridNextKey g) (blockKeys g ix iy iz) (blockTgt g ix iy iz) := by
  have hd : 0 + depth (g.block ix iy iz) ≤ 10 := by have := hg.depth_le ix iy iz; omega
  have hch := (nextKey_chain (g.block ix iy iz) 0 0 (by norm_num) hd).2
  have hlt : ∀ k ∈ leafKeys (g.block ix iy iz) 0 0, k < 2 ^ 31 :=
    fun k hk => leafKeys_lt _ 0 0 k hk (by norm_num) hd
  refine ChainTo.map_retarget (gridKey ix iy iz) hch ?_ ?_
  · intro k hk; have := hlt k hk; unfold maxKey; omega
  · intro k hk
    have hk32 : k < 2 ^ 32 := lt_trans (hlt k hk) (by norm_num)
    obtain ⟨hb, hc, _⟩ := gridKey_roundtrip ix iy iz k (by have := hg.nx_le; omega)
      (by have := hg.ny_le; omega) (by have := hg.nz_le; omega) hk32
    unfold gridNextKey
    rw [hb, hc]
    simp only
    by_cases hm : nextKey (g.block ix iy iz) k 0 = maxKey
    · simp only [hm, if_true]
      unfold blockTgt rowTgt slabTgt
      by_cases h1 : iz + 1 = g.nz
      · by_cases h2 : iy + 1 = g.ny
        · by_cases h3 : ix + 1 = g.nx
          · simp [h1, h2, h3]
          · simp [h1, h2, h3]
        · simp [h1, h2]
      · simp [h1]
    · simp only [hm, if_false]

theorem rowKeys_chain (g : Grid) (hg : g.WF) (ix iy : Nat) (hx : ix < g.nx) (hy : iy < g.ny) :
    ChainTo (gridNextKey g) (rowKeys g ix iy) (rowTgt g ix iy) := by
  obtain ⟨n, hn⟩ : ∃ n, g.nz = n + 1 := ⟨g.nz - 1, by have := hg.nz_pos; omega⟩
  have := chain_flatMap_range (gridNextKey g) (blockKeys g ix iy) (blockTgt g ix iy) n
    (fun i hi => blockKeys_chain g hg ix iy i hx hy (by omega))
    (fun i hi => by
      rw [blockKeys_head g hg]; unfold blockTgt; rw [if_neg (by omega)])
  unfold rowKeys; rw [hn]
  have e : blockTgt g ix iy n = rowTgt g ix iy := by unfold blockTgt; rw [if_pos (by omega)]
  rw [← e]; exact this

theorem rowKeys_head (g : Grid) (hg : g.WF) (ix iy : Nat) :
    (rowKeys g ix iy).head? = some (gridKey ix iy 0 (firstKey (g.block ix iy 0) 0)) := by
  obtain ⟨n, hn⟩ : ∃ n, g.nz = n + 1 := ⟨g.nz - 1, by have := hg.nz_pos; omega⟩
  unfold rowKeys; rw [hn, head_flatMap_range, blockKeys_head g hg]
  intro h; have := blockKeys_head g hg ix iy 0; rw [h] at this; simp at this

theorem slabKeys_chain (g : Grid) (hg : g.WF) (ix : Nat) (hx : ix < g.nx) :
    ChainTo (gridNextKey g) (slabKeys g ix) (slabTgt g ix) := by
  obtain ⟨n, hn⟩ : ∃ n, g.ny = n + 1 := ⟨g.ny - 1, by have := hg.ny_pos; omega⟩
  have := chain_flatMap_range (gridNextKey g) (rowKeys g ix) (rowTgt g ix) n
    (fun i hi => rowKeys_chain g hg ix i hx (by omega))
    (fun i hi => by rw [rowKeys_head g hg]; unfold rowTgt; rw [if_neg (by omega)])
  unfold slabKeys; rw [hn]
  have e : rowTgt g ix n = slabTgt g ix := by unfold rowTgt; rw [if_pos (by omega)]
  rw [← e]; exact this

theorem slabKeys_head (g : Grid) (hg : g.WF) (ix : Nat) :
    (slabKeys g ix).head? = some (gridKey ix 0 0 (firstKey (g.block ix 0 0) 0)) := by
  obtain ⟨n, hn⟩ : ∃ n, g.ny = n + 1 := ⟨g.ny - 1, by have := hg.ny_pos; omega⟩
  unfold slabKeys; rw [hn, head_flatMap_range, rowKeys_head g hg]
  intro h; have := rowKeys_head g hg ix 0; rw [h] at this; simp at this

theorem gridKeys_chain (g : Grid) (hg : g.WF) :
    ChainTo (gridNextKey g) (gridKeys g) maxKey64 ∧ (gridKeys g).head? = some (gridFirstKey g) := by
  obtain ⟨n, hn⟩ : ∃ n, g.nx = n + 1 := ⟨g.nx - 1, by have := hg.nx_pos; omega⟩
  have := chain_flatMap_range (gridNextKey g) (slabKeys g) (slabTgt g) n
    (fun i hi => slabKeys_chain g hg i (by omega))
    (fun i hi => by rw [slabKeys_head g hg]; unfold slabTgt; rw [if_neg (by omega)])
  have e : slabTgt g n = maxKey64 := by unfold slabTgt; rw [if_pos (by omega)]
  refine ⟨?_, ?_⟩
  · unfold gridKeys; rw [hn, ← e]; exact this
  · unfold gridKeys; rw [hn, head_flatMap_range, slabKeys_head g hg]
    · unfold gridFirstKey gridKey; simp
    · intro h; have := slabKeys_head g hg 0; rw [h] at this; simp at this

/-- all 64-bit keys are below 2^62, in particular never the sentinel -/
theorem gridKeys_lt (g : Grid) (hg : g.WF) : ∀ k ∈ gridKeys g, k < 2 ^ 62 := by
  intro k hk
  simp only [gridKeys, slabKeys, rowKeys, blockKeys, List.mem_flatMap, List.mem_range, List.mem_map] at hk
  obtain ⟨ix, hx, iy, hy, iz, hz, c, hc, rfl⟩ := hk
  have hd : 0 + depth (g.block ix iy iz) ≤ 10 := by have := hg.depth_le ix iy iz; omega
  have := leafKeys_lt _ 0 0 c hc (by norm_num) hd
  exact (gridKey_roundtrip ix iy iz c (by have := hg.nx_le; omega) (by have := hg.ny_le; omega)
    (by have := hg.nz_le; omega) (lt_trans this (by norm_num))).2.2

theorem mem_blockKeys_block (g : Grid) (hg : g.WF) (ix iy iz : Nat) (hx : ix < g.nx) (hy : iy < g.ny)
    (hz : iz < g.nz) (k : Nat) (hk : k ∈ blockKeys g ix iy iz) : blockOfKey k = (ix, iy, iz) := by
  simp only [blockKeys, List.mem_map] at hk
  obtain ⟨c, hc, rfl⟩ := hk
  have hd : 0 + depth (g.block ix iy iz) ≤ 10 := by have := hg.depth_le ix iy iz; omega
  have := leafKeys_lt _ 0 0 c hc (by norm_num) hd
  exact (gridKey_roundtrip ix iy iz c (by have := hg.nx_le; omega) (by have := hg.ny_le; omega)
    (by have := hg.nz_le; omega) (lt_trans this (by norm_num))).1

theorem nodup_flatMap_range (f : Nat → List Nat) (n : Nat) (tag : Nat → Nat)
    (h1 : ∀ i, i < n → (f i).Nodup) (h2 : ∀ i, i < n → ∀ k ∈ f i, tag k = i) :
    ((List.range n).flatMap f).Nodup := by
  rw [List.nodup_flatMap]
  refine ⟨fun i hi => h1 i (List.mem_range.1 hi), ?_⟩
  have hp : (List.range n).Pairwise (· < ·) := List.pairwise_lt_range
  have hp' : (List.range n).Pairwise (fun a b => a ∈ List.range n ∧ b ∈ List.range n ∧ a < b) := by
    rw [List.pairwise_iff_forall_sublist] at hp ⊢
    intro a b hab
    exact ⟨(hab.subset (by simp)), (hab.subset (by simp)), hp hab⟩
  refine hp'.imp ?_
  rintro a b ⟨ha, hb, hab⟩ k hka hkb
  have e1 := h2 a (List.mem_range.1 ha) k hka
  have e2 := h2 b (List.mem_range.1 hb) k hkb
  omega

theorem gridKeys_nodup (g : Grid) (hg : g.WF) : (gridKeys g).Nodup := by
  have hb : ∀ ix iy iz, ix < g.nx → iy < g.ny → iz < g.nz → (blockKeys g ix iy iz).Nodup := by
    intro ix iy iz hx hy hz
    unfold blockKeys
    refine (List.nodup_map_iff_inj_on (leafKeys_nodup _)).2 ?_
    intro a ha b hbb hab
    have hd : 0 + depth (g.block ix iy iz) ≤ 10 := by have := hg.depth_le ix iy iz; omega
    have h1 := leafKeys_lt _ 0 0 a ha (by norm_num) hd
    have h2 := leafKeys_lt _ 0 0 b hbb (by norm_num) hd
    unfold gridKey at hab; omega
  have hrow : ∀ ix iy, ix < g.nx → iy < g.ny → ∀ k ∈ rowKeys g ix iy, (blockOfKey k).1 = ix ∧ (blockOfKey k).2.1 = iy := by
    intro ix iy hx hy k hk
    simp only [rowKeys, List.mem_flatMap, List.mem_range] at hk
    obtain ⟨iz, hz, hk⟩ := hk
    rw [mem_blockKeys_block g hg ix iy iz hx hy hz k hk]; exact ⟨rfl, rfl⟩
  unfold gridKeys
  refine nodup_flatMap_range _ _ (fun k => (blockOfKey k).1) ?_ ?_
  · intro ix hx
    unfold slabKeys
    refine nodup_flatMap_range _ _ (fun k => (blockOfKey k).2.1) ?_ ?_
    · intro iy hy
      unfold rowKeys
      refine nodup_flatMap_range _ _ (fun k => (blockOfKey k).2.2) (fun iz hz => hb ix iy iz hx hy hz) ?_
      intro iz hz k hk
      rw [mem_blockKeys_block g hg ix iy iz hx hy hz k hk]
    · intro iy hy k hk; exact (hrow ix iy hx hy k hk).2
  · intro ix hx k hk
    simp only [slabKeys, List.mem_flatMap, List.mem_range] at hk
    obtain ⟨iy, hy, hk⟩ := hk
    exact (hrow ix iy hx hy k hk).1

/-! ### block level geometry over `ℝ` -/

/-- the block index before the clamp -/
noncomputable def rawBlock (n : Nat) (p a s : ℝ) : Nat := Trunc.toNat ((OfInt.ofNat n : ℝ) * (p - a) / s)

theorem blockIndex_eq (n : Nat) (p a s : ℝ) : blockIndex n p a s = min (rawBlock n p a s) (n - 1) := rfl

/-- in exact arithmetic the block index of a position inside the box is in range and the block's
box contains the position -/
theorem rawBlock_real (n : Nat) (hn : 0 < n) (p a s : ℝ) (hs : 0 < s) (h1 : a ≤ p) (h2 : p < a + s) :
    rawBlock n p a s < n ∧
      a + (OfInt.ofNat (rawBlock n p a s) : ℝ) * (s / OfInt.ofNat n) ≤ p ∧
      p < a + (OfInt.ofNat (rawBlock n p a s) : ℝ) * (s / OfInt.ofNat n) + s / OfInt.ofNat n := by
  have hn' : (0 : ℝ) < n := by exact_mod_cast hn
  have hq : 0 ≤ (n : ℝ) * (p - a) / s := div_nonneg (mul_nonneg hn'.le (by linarith)) hs.le
  simp only [ofNat_real]
  unfold rawBlock
  simp only [ofNat_real]
  obtain ⟨l1, l2⟩ := toNat_le _ hq
  set i := Trunc.toNat ((n : ℝ) * (p - a) / s) with hi
  rw [le_div_iff₀ hs] at l1
  rw [div_lt_iff₀ hs] at l2
  refine ⟨?_, ?_, ?_⟩
  · have : (i : ℝ) < n := by
      by_contra hcon
      push Not at hcon
      have : (n : ℝ) * s ≤ (i : ℝ) * s := mul_le_mul_of_nonneg_right hcon hs.le
      nlinarith
    exact_mod_cast this
  · have : (i : ℝ) * (s / n) = (i : ℝ) * s / n := by ring
    rw [this, ← sub_nonneg]
    have : p - (a + (i : ℝ) * s / n) = ((n : ℝ) * (p - a) - i * s) / n := by field_simp; ring
    rw [this]; exact div_nonneg (by linarith) hn'.le
  · have e : a + (i : ℝ) * (s / n) + s / n - p = (((i : ℝ) + 1) * s - (n : ℝ) * (p - a)) / n := by
      field_simp; ring
    rw [← sub_pos, e]; exact div_pos (by linarith) hn'

/-- a position lies in the box of one block only -/
theorem rawBlock_unique (n : Nat) (hn : 0 < n) (p a s : ℝ) (hs : 0 < s) (j : Nat)
    (h1 : a + (j : ℝ) * (s / n) ≤ p) (h2 : p < a + (j : ℝ) * (s / n) + s / n) :
    rawBlock n p a s = j := by
  have hn' : (0 : ℝ) < n := by exact_mod_cast hn
  have hj : (0 : ℝ) ≤ j := by exact_mod_cast Nat.zero_le j
  have hpa : 0 ≤ p - a := by
    have : 0 ≤ (j : ℝ) * (s / n) := mul_nonneg hj (div_pos hs hn').le
    linarith
  have hq : 0 ≤ (n : ℝ) * (p - a) / s := div_nonneg (mul_nonneg hn'.le hpa) hs.le
  unfold rawBlock
  simp only [ofNat_real]
  rw [toNat_eq_iff _ hq]
  have e1 : (j : ℝ) * (s / n) = (j : ℝ) * s / n := by ring
  rw [e1] at h1 h2
  constructor
  · rw [le_div_iff₀ hs]
    have : (j : ℝ) * s / n ≤ p - a := by linarith
    rw [div_le_iff₀ hn'] at this; linarith
  · rw [div_lt_iff₀ hs]
    have : p - a < ((j : ℝ) + 1) * s / n := by
      have : ((j : ℝ) + 1) * s / n = (j : ℝ) * s / n + s / n := by ring
      linarith
    rw [lt_div_iff₀ hn'] at this; linarith

/-- in exact arithmetic the clamp is inactive for positions inside the box -/
theorem blockIndex_real (n : Nat) (hn : 0 < n) (p a s : ℝ) (hs : 0 < s) (h1 : a ≤ p) (h2 : p < a + s) :
    blockIndex n p a s < n ∧
      a + (OfInt.ofNat (blockIndex n p a s) : ℝ) * (s / OfInt.ofNat n) ≤ p ∧
      p < a + (OfInt.ofNat (blockIndex n p a s) : ℝ) * (s / OfInt.ofNat n) + s / OfInt.ofNat n := by
  have h := rawBlock_real n hn p a s hs h1 h2
  have e : blockIndex n p a s = rawBlock n p a s := by rw [blockIndex_eq]; have := h.1; omega
  rw [e]; exact h

theorem blockIndex_unique (n : Nat) (hn : 0 < n) (p a s : ℝ) (hs : 0 < s) (j : Nat)
    (hin1 : a ≤ p) (hin2 : p < a + s)
    (h1 : a + (j : ℝ) * (s / n) ≤ p) (h2 : p < a + (j : ℝ) * (s / n) + s / n) :
    blockIndex n p a s = j := by
  have h := rawBlock_unique n hn p a s hs j h1 h2
  have hlt := (rawBlock_real n hn p a s hs hin1 hin2).1
  rw [blockIndex_eq, h]; rw [h] at hlt; omega

/-- the clamp keeps the block index in range for every numeric type and every position -/
theorem blockIndex_lt {α : Type} [Sub α] [Mul α] [Div α] [GridNum.Trunc α] [OfInt α] (n : Nat) (hn : 0 < n)
    (p a s : α) : blockIndex n p a s < n := by
  unfold blockIndex
  have := Nat.min_le_right (GridNum.Trunc.toNat ((OfInt.ofNat n : α) * (p - a) / s)) (n - 1)
  omega

/-- volumes of all leaves of all blocks -/
noncomputable def gridVolSum (g : Grid) (b : Box3 ℝ) : ℝ :=
  ((List.range g.nx).map fun ix => ((List.range g.ny).map fun iy =>
    ((List.range g.nz).map fun iz => volSum (g.block ix iy iz) (blockBox g b ix iy iz)).sum).sum).sum

theorem gridVolSum_eq (g : Grid) (b : Box3 ℝ) (hx : 0 < g.nx) (hy : 0 < g.ny) (hz : 0 < g.nz) :
    gridVolSum g b = volume b := by
  have hx' : (g.nx : ℝ) ≠ 0 := by exact_mod_cast hx.ne'
  have hy' : (g.ny : ℝ) ≠ 0 := by exact_mod_cast hy.ne'
  have hz' : (g.nz : ℝ) ≠ 0 := by exact_mod_cast hz.ne'
  unfold gridVolSum
  simp only [volSum_eq, volume, blockBox, ofNat_real, List.map_const', List.sum_replicate,
    List.length_range, nsmul_eq_mul]
  field_simp

/-! ### the descent is total (every numeric type, every position) -/

section total
variable {α : Type} [Add α] [Sub α] [Mul α] [Div α] [OfScientific α] [GridNum.Trunc α] [OfInt α]

theorem mem_leafKeys_node (c : Fin 8 → Tree) (L pre k : Nat) (i : Fin 8)
    (h : k ∈ leafKeys (c i) (L + 1) (pre + i.val * 2 ^ (3 * L))) : k ∈ leafKeys (.node c) L pre := by
  simp only [leafKeys, List.mem_append]
  match i, h with
  | ⟨0, _⟩, h => exact Or.inl (Or.inl (Or.inl (Or.inl (Or.inl (Or.inl (Or.inl h))))))
  | ⟨1, _⟩, h => exact Or.inl (Or.inl (Or.inl (Or.inl (Or.inl (Or.inl (Or.inr h))))))
  | ⟨2, _⟩, h => exact Or.inl (Or.inl (Or.inl (Or.inl (Or.inl (Or.inr h)))))
  | ⟨3, _⟩, h => exact Or.inl (Or.inl (Or.inl (Or.inl (Or.inr h))))
  | ⟨4, _⟩, h => exact Or.inl (Or.inl (Or.inl (Or.inr h)))
  | ⟨5, _⟩, h => exact Or.inl (Or.inl (Or.inr h))
  | ⟨6, _⟩, h => exact Or.inl (Or.inr h)
  | ⟨7, _⟩, h => exact Or.inr h

theorem descend_node_gen (c : Fin 8 → Tree) (L : Nat) (p : V3 α) (b : Box3 α) (i : Fin 8) (ix iy iz : Nat)
    (hx : childIndex p.x b.ax b.sx = ix) (hy : childIndex p.y b.ay b.sy = iy)
    (hz : childIndex p.z b.az b.sz = iz) (hi : (4 * ix + 2 * iy + iz) % 8 = i.val) :
    descend (.node c) L p b =
      ((4 * ix + 2 * iy + iz) * 2 ^ (3 * L) + (descend (c i) (L + 1) p (childBox b ix iy iz)).1,
        (descend (c i) (L + 1) p (childBox b ix iy iz)).2) := by
  subst hx hy hz
  obtain rfl : i = ⟨_, Nat.mod_lt _ (by decide)⟩ := Fin.ext hi.symm
  simp only [descend]

/-- whatever the arithmetic does, the descent returns the key of a leaf of the tree -/
theorem descend_mem (t : Tree) : ∀ (L pre : Nat) (p : V3 α) (b : Box3 α),
    pre + (descend t L p b).1 ∈ leafKeys t L pre := by
  induction t with
  | leaf => intro L pre p b; simp [descend, leafKeys]
  | node c ih =>
    intro L pre p b
    have hx := childIndex_le_one p.x b.ax b.sx
    have hy := childIndex_le_one p.y b.ay b.sy
    have hz := childIndex_le_one p.z b.az b.sz
    have hcell : (4 * childIndex p.x b.ax b.sx + 2 * childIndex p.y b.ay b.sy + childIndex p.z b.az b.sz) % 8
        = 4 * childIndex p.x b.ax b.sx + 2 * childIndex p.y b.ay b.sy + childIndex p.z b.az b.sz := by omega
    let i : Fin 8 := ⟨(4 * childIndex p.x b.ax b.sx + 2 * childIndex p.y b.ay b.sy + childIndex p.z b.az b.sz) % 8,
      Nat.mod_lt _ (by decide)⟩
    have := ih i (L + 1) (pre + i.val * 2 ^ (3 * L)) p
      (childBox b (childIndex p.x b.ax b.sx) (childIndex p.y b.ay b.sy) (childIndex p.z b.az b.sz))
    apply mem_leafKeys_node c L pre _ i
    rw [descend_node_gen c L p b i _ _ _ rfl rfl rfl rfl]
    have hi : i.val = 4 * childIndex p.x b.ax b.sx + 2 * childIndex p.y b.ay b.sy + childIndex p.z b.az b.sz := hcell
    simp only
    rw [← Nat.add_assoc, ← hi]; exact this

theorem gridLocate_mem (g : Grid) (hx : 0 < g.nx) (hy : 0 < g.ny) (hz : 0 < g.nz) (b : Box3 α) (p : V3 α) :
    (gridLocate g b p).1 ∈ gridKeys g := by
  have bx := blockIndex_lt g.nx hx p.x b.ax b.sx
  have by' := blockIndex_lt g.ny hy p.y b.ay b.sy
  have bz := blockIndex_lt g.nz hz p.z b.az b.sz
  simp only [gridKeys, slabKeys, rowKeys, blockKeys, List.mem_flatMap, List.mem_range, List.mem_map]
  refine ⟨_, bx, _, by', _, bz, _, ?_, rfl⟩
  have := descend_mem (g.block (blockIndex g.nx p.x b.ax b.sx) (blockIndex g.ny p.y b.ay b.sy)
    (blockIndex g.nz p.z b.az b.sz)) 0 0 p (blockBox g b (blockIndex g.nx p.x b.ax b.sx)
    (blockIndex g.ny p.y b.ay b.sy) (blockIndex g.nz p.z b.az b.sz))
  simpa using this
end total

/-- descent by position in exact arithmetic (restated as `amr_contains` in `Props/C16.lean`) -/
theorem amr_contains_aux (g : Grid) (b : Box3 ℝ) (p : V3 ℝ) (hx : 0 < g.nx) (hy : 0 < g.ny) (hz : 0 < g.nz)
    (hb : PosBox b) (hp : InBox b p) :
    let ix := blockIndex g.nx p.x b.ax b.sx
    let iy := blockIndex g.ny p.y b.ay b.sy
    let iz := blockIndex g.nz p.z b.az b.sz
    ix < g.nx ∧ iy < g.ny ∧ iz < g.nz ∧
    InBox (gridLocate g b p).2 p ∧
    (∃ π ∈ leafPaths (g.block ix iy iz), (gridLocate g b p).1 = gridKey ix iy iz (encodeKey π) ∧
      (gridLocate g b p).2 = boxOfPath (blockBox g b ix iy iz) π) ∧
    (∀ jx jy jz : Nat, ∀ π ∈ leafPaths (g.block jx jy jz), InBox (boxOfPath (blockBox g b jx jy jz) π) p →
      (gridLocate g b p).1 = gridKey jx jy jz (encodeKey π)) := by
  intro ix iy iz
  obtain ⟨hx1, hx2, hy1, hy2, hz1, hz2⟩ := hp
  obtain ⟨sx, sy, sz⟩ := hb
  obtain ⟨bx, bx1, bx2⟩ := blockIndex_real g.nx hx p.x b.ax b.sx sx hx1 hx2
  obtain ⟨by', by1, by2⟩ := blockIndex_real g.ny hy p.y b.ay b.sy sy hy1 hy2
  obtain ⟨bz, bz1, bz2⟩ := blockIndex_real g.nz hz p.z b.az b.sz sz hz1 hz2
  have hnx : (0 : ℝ) < g.nx := by exact_mod_cast hx
  have hny : (0 : ℝ) < g.ny := by exact_mod_cast hy
  have hnz : (0 : ℝ) < g.nz := by exact_mod_cast hz
  have hpos : ∀ jx jy jz, PosBox (blockBox g b jx jy jz) := by
    intro jx jy jz; unfold PosBox blockBox; simp only [ofNat_real]
    exact ⟨div_pos sx hnx, div_pos sy hny, div_pos sz hnz⟩
  have hin : InBox (blockBox g b ix iy iz) p := by
    unfold InBox blockBox; simp only
    exact ⟨bx1, bx2, by1, by2, bz1, bz2⟩
  obtain ⟨h1, π, hπ, h3, h4⟩ := descend_spec (g.block ix iy iz) 0 _ p (hpos ix iy iz) hin
  refine ⟨bx, by', bz, h1, ⟨π, hπ, ?_, h4⟩, ?_⟩
  · show gridKey ix iy iz (descend (g.block ix iy iz) 0 p (blockBox g b ix iy iz)).1 = _
    rw [h3]; simp
  · intro jx jy jz π' hπ' hin'
    have hb' := boxOfPath_sub π' _ p (hpos jx jy jz) hin'
    unfold InBox blockBox at hb'
    simp only [ofNat_real] at hb'
    obtain ⟨c1, c2, c3, c4, c5, c6⟩ := hb'
    have ex : ix = jx := blockIndex_unique g.nx hx p.x b.ax b.sx sx jx hx1 hx2 c1 c2
    have ey : iy = jy := blockIndex_unique g.ny hy p.y b.ay b.sy sy jy hy1 hy2 c3 c4
    have ez : iz = jz := blockIndex_unique g.nz hz p.z b.az b.sz sz jz hz1 hz2 c5 c6
    subst ex ey ez
    have := descend_unique (g.block ix iy iz) 0 _ p (hpos ix iy iz) hin π' hπ' hin'
    show gridKey ix iy iz (descend (g.block ix iy iz) 0 p (blockBox g b ix iy iz)).1 = _
    rw [this]; simp


end CMacVerif.AMR
