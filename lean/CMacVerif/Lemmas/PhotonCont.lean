import CMacVerif.Lemmas.PhotonLoop
/-! C01: bookkeeping of the continuous source -- the counter `_number_of_continuous_photons` equals the
packets not yet assigned to a task plus the batch sizes of the source tasks that still exist, the
buffers are flushed exactly when it reaches zero, and once no more packets will be sourced every
non-empty thread-local buffer has a flush task. -/
namespace CMacVerif.Photon
open CMacVerif.Worker (sumOver sumOver_congr sumOver_le sumOver_zero)

/-- what the continuous-source bookkeeping sees of a slot of the task table -/
inductive Sig where
  | cont (n : Nat)
  | flush (c : Nat)
  | other
deriving DecidableEq

def sig : Option Task → Sig
  | some ⟨.contSource _ n _, _⟩ => .cont n
  | some ⟨.flush c, _⟩ => .flush c
  | _ => .other

def sigN : Sig → Nat
  | .cont n => n
  | _ => 0

@[simp] theorem sig_none : sig none = .other := rfl
@[simp] theorem sig_contSource (c n : Nat) (ids : List Nat) (st : TSt) : sig (some ⟨.contSource c n ids, st⟩) = .cont n := rfl
@[simp] theorem sig_flushTask (c : Nat) (st : TSt) : sig (some ⟨.flush c, st⟩) = .flush c := rfl
@[simp] theorem sigN_cont (n : Nat) : sigN (.cont n) = n := rfl
@[simp] theorem sigN_flush (c : Nat) : sigN (.flush c) = 0 := rfl
@[simp] theorem sigN_other : sigN .other = 0 := rfl

theorem sig_of_buf {k : Kind} (st : TSt) (h : (kindBuf k).isSome = true) : sig (some ⟨k, st⟩) = .other := by
  cases k <;> simp [sig] at h ⊢

theorem sig_fullKind (i a : Nat) (st : TSt) : sig (some ⟨fullKind i a, st⟩) = .other :=
  sig_of_buf st (by rw [fullKind_buf]; rfl)

/-- labels that neither create nor remove continuous source tasks or flush tasks -/
def SigNeutral : Label → Prop
  | .launchCont _ => False
  | .contFinish _ _ => False
  | .flushFinish _ => False
  | _ => True

theorem step_sig {cfg : Cfg} {s s' : State} (l : Label) (h : step cfg s l = some s') (hl : SigNeutral l) :
    ∀ u, sig (s'.tasks u) = sig (s.tasks u) := by
  intro u
  cases l with
  | launchCont t => exact absurd hl id
  | contFinish t fl => exact absurd hl id
  | flushFinish t => exact absurd hl id
  | launchBatch src t =>
    obtain ⟨_, _, _, hf, rfl⟩ := step_launchBatch h
    by_cases e : u = t
    · subst e; simp [hf, sig]
    · simp [upd_other _ _ _ e]
  | acquire t =>
    obtain ⟨k, hk, _, rfl⟩ := step_acquire h
    by_cases e : u = t
    · subst e; simp only [upd_same, hk]; cases k <;> rfl
    · simp [upd_other _ _ _ e]
  | enqueue t =>
    obtain ⟨k, hk, rfl⟩ := step_enqueue h
    by_cases e : u = t
    · subst e; simp only [upd_same, hk]; cases k <;> rfl
    · simp [upd_other _ _ _ e]
  | execSource t b t' =>
    obtain ⟨src, ids, hk, _, _, _, htt', rfl⟩ := step_execSource h
    by_cases e : u = t
    · subst e; simp [hk, sig]
    · simp only [upd_other _ _ _ e]
      by_cases e2 : u = t'
      · subst e2; simp [htt', sig]
      · simp [upd_other _ _ _ e2]
  | contGen t g k =>
    obtain ⟨c, n, ids, hk, _, _, _, _, _, rfl⟩ := step_contGen h
    by_cases e : u = t
    · subst e; simp [hk, sig]
    · simp [upd_other _ _ _ e]
  | contOverflow t g b t' =>
    obtain ⟨_, _, _, _, _, _, _, _, htt', rfl⟩ := step_contOverflow h
    by_cases e : u = t'
    · subst e; simp [htt', sig]
    · simp [upd_other _ _ _ e]
  | flushOne t g b t' =>
    obtain ⟨_, _, _, _, _, _, _, htt', rfl⟩ := step_flushOne h
    by_cases e : u = t'
    · subst e; simp [htt', sig]
    · simp [upd_other _ _ _ e]
  | execTraverse t fates res =>
    obtain ⟨b0, buf, s1, li, ls, hk, _, _, _, hfold, rfl⟩ := step_execTraverse h
    have hft := fold_tasks _ _ _ hfold
    simp only at hft
    by_cases e : u = t
    · subst e; simp [hk, sig]
    · simp only [upd_other _ _ _ e]
      cases hsu : s.tasks u with
      | some tk => rw [hft.1 u (by rw [hsu]; simp), hsu]
      | none =>
        rcases hft.2 u hsu with e1 | ⟨k, e1, hkb⟩
        · rw [e1]
        · rw [e1, sig_of_buf _ hkb]; rfl
  | execReemit t keep t' =>
    obtain ⟨b, buf, hk, _, _, hcase⟩ := step_execReemit h
    rcases hcase with ⟨_, rfl⟩ | ⟨_, _, htt', rfl⟩
    · by_cases e : u = t
      · subst e; simp [hk, sig]
      · simp [upd_other _ _ _ e]
    · by_cases e : u = t
      · subst e; simp [hk, sig]
      · simp only [upd_other _ _ _ e]
        by_cases e2 : u = t'
        · subst e2; simp [htt', sig]
        · simp [upd_other _ _ _ e2]
  | premature g t' =>
    obtain ⟨b, _, _, _, _, htt', _, rfl⟩ := step_premature h
    by_cases e : u = t'
    · subst e; simp only [upd_same, htt', sig_fullKind]; rfl
    · simp [upd_other _ _ _ e]
  | checkTermination =>
    obtain ⟨_, _, rfl⟩ := step_checkTermination h; rfl

/-- the bookkeeping invariant of the continuous source -/
structure ContInv (cfg : Cfg) (s : State) : Prop where
  left : s.contLeft = s.contPool.length + sumOver (List.range cfg.taskCap) (fun t => sigN (sig (s.tasks t)))
  flushed : s.flushCount ≠ 0 → s.contLeft = 0
  /-- when nothing will be sourced any more every non-empty buffer of a block has a flush task -/
  served : s.contPool = [] → (∀ t n, sig (s.tasks t) ≠ .cont n) → ∀ c g, s.cont (c, g) ≠ [] → ∃ t, sig (s.tasks t) = .flush c

theorem sig_cont_of {s : State} {t c n : Nat} {ids : List Nat} {st : TSt} (h : s.tasks t = some ⟨.contSource c n ids, st⟩) :
    sig (s.tasks t) = .cont n := by rw [h]; rfl

/-- a continuous source task exists => the counter is positive -/
theorem contLeft_pos {cfg : Cfg} {s : State} (hi : Inv cfg s) (hc : ContInv cfg s) {t c n : Nat} {ids : List Nat} {st : TSt}
    (h : s.tasks t = some ⟨.contSource c n ids, st⟩) : n ≤ s.contLeft ∧ 0 < n := by
  have hg := hi.tk t _ h
  have := sumOver_le (List.mem_range.mpr hg.1) (fun t => sigN (sig (s.tasks t)))
  simp only [sig_cont_of h, sigN_cont] at this
  have hl := hc.left
  exact ⟨by omega, hg.2.2.1⟩

theorem contInv_neutral {cfg : Cfg} {s s' : State} (l : Label) (hi : Inv cfg s) (hc : ContInv cfg s)
    (h : step cfg s l = some s') (hl : SigNeutral l)
    (hpool : s'.contPool = s.contPool) (hleft : s'.contLeft = s.contLeft) (hfc : s'.flushCount = s.flushCount)
    (hcont : ∀ k, s'.cont k ≠ [] → s.cont k ≠ [] ∨ ∃ t n, sig (s.tasks t) = .cont n) : ContInv cfg s' := by
  have hs := step_sig l h hl
  refine ⟨?_, ?_, ?_⟩
  · rw [hleft, hpool, hc.left]
    congr 1
    exact sumOver_congr (fun t _ => by rw [hs t])
  · rw [hfc, hleft]; exact hc.flushed
  · intro hp hno c g hne
    rw [hpool] at hp
    have hno' : ∀ t n, sig (s.tasks t) ≠ .cont n := by intro t n; rw [← hs t]; exact hno t n
    rcases hcont (c, g) hne with h1 | ⟨t, n, h1⟩
    · obtain ⟨t, ht⟩ := hc.served hp hno' c g h1
      exact ⟨t, by rw [hs t]; exact ht⟩
    · exact absurd h1 (hno' t n)

theorem fold_cont {cfg : Cfg} {g : Nat} {outs : Nat → List Nat} {res : Nat → DirRes} {acc acc' : State × Nat × Nat} {l : List Nat}
    (h : foldOpt (travDir cfg g outs res) acc l = some acc') :
    acc'.1.contPool = acc.1.contPool ∧ acc'.1.contLeft = acc.1.contLeft ∧ acc'.1.flushCount = acc.1.flushCount ∧ acc'.1.cont = acc.1.cont := by
  have := fold_rest l acc acc' h
  exact ⟨this.2.2.1, this.2.2.2.2.2.2.1, this.2.2.2.2.2.2.2.1, this.1⟩

theorem addFlush_has {cfg : Cfg} : ∀ (fl : List Nat) (s s' : State) (c : Nat), addFlush cfg s c fl = some s' →
    ∀ j, j < fl.length → ∃ t, sig (s'.tasks t) = .flush (c + j) := by
  intro fl
  induction fl with
  | nil => intro s s' c _ j hj; simp at hj
  | cons t ts ih =>
    intro s s' c h j hj
    simp only [addFlush] at h
    split_ifs at h with hf
    cases j with
    | zero =>
      -- the task created first is not overwritten by the later ones (its slot is no longer free)
      have hkeep : ∀ (ts : List Nat) (sa sb : State) (c' : Nat), addFlush cfg sa c' ts = some sb →
          ∀ u, sa.tasks u ≠ none → sb.tasks u = sa.tasks u := by
        intro ts
        induction ts with
        | nil => intro sa sb c' h u _; simp only [addFlush] at h; injection h with h; subst h; rfl
        | cons t2 ts2 ih2 =>
          intro sa sb c' h u hu
          simp only [addFlush] at h
          split_ifs at h with hf2
          have hf2' := (taskFree_iff cfg sa t2).mp hf2
          have hne : u ≠ t2 := by intro e; subst e; exact hu hf2'.2
          have := ih2 _ sb (c' + 1) h u (by simp only [upd_other _ _ _ hne]; exact hu)
          rw [this]; exact upd_other _ _ _ hne
      refine ⟨t, ?_⟩
      rw [hkeep ts _ s' (c + 1) h t (by simp)]
      simp [sig]
    | succ j =>
      obtain ⟨u, hu⟩ := ih _ s' (c + 1) h j (by simpa using hj)
      exact ⟨u, by rw [hu]; congr 1; omega⟩

theorem contInv_step {cfg : Cfg} {s s' : State} (l : Label) (hi : Inv cfg s) (hc : ContInv cfg s)
    (h : step cfg s l = some s') : ContInv cfg s' := by
  cases l with
  | launchBatch src t =>
    obtain ⟨_, _, _, _, e⟩ := step_launchBatch h
    exact contInv_neutral _ hi hc h trivial (by rw [e]) (by rw [e]) (by rw [e]) (fun k hk => Or.inl (by rw [e] at hk; exact hk))
  | acquire t =>
    obtain ⟨_, _, _, e⟩ := step_acquire h
    exact contInv_neutral _ hi hc h trivial (by rw [e]) (by rw [e]) (by rw [e]) (fun k hk => Or.inl (by rw [e] at hk; exact hk))
  | enqueue t =>
    obtain ⟨_, _, e⟩ := step_enqueue h
    exact contInv_neutral _ hi hc h trivial (by rw [e]) (by rw [e]) (by rw [e]) (fun k hk => Or.inl (by rw [e] at hk; exact hk))
  | execSource t b t' =>
    obtain ⟨_, _, _, _, _, _, _, e⟩ := step_execSource h
    exact contInv_neutral _ hi hc h trivial (by rw [e]) (by rw [e]) (by rw [e]) (fun k hk => Or.inl (by rw [e] at hk; exact hk))
  | contGen t g k =>
    obtain ⟨c, n, ids, hk, _, _, _, _, _, e⟩ := step_contGen h
    exact contInv_neutral _ hi hc h trivial (by rw [e]) (by rw [e]) (by rw [e]) (fun _ _ => Or.inr ⟨t, n, sig_cont_of hk⟩)
  | contOverflow t g b t' =>
    obtain ⟨c, n, ids, hk, _, _, _, _, _, e⟩ := step_contOverflow h
    exact contInv_neutral _ hi hc h trivial (by rw [e]) (by rw [e]) (by rw [e]) (fun _ _ => Or.inr ⟨t, n, sig_cont_of hk⟩)
  | flushOne t g b t' =>
    obtain ⟨c, _, _, _, _, _, _, _, e⟩ := step_flushOne h
    refine contInv_neutral _ hi hc h trivial (by rw [e]) (by rw [e]) (by rw [e]) ?_
    intro k hk
    left
    rw [e] at hk
    by_cases ek : k = (c, g)
    · subst ek; simp at hk
    · simp only [updP_other _ _ _ ek] at hk; exact hk
  | execTraverse t fates res =>
    obtain ⟨b0, buf, s1, li, ls, _, _, _, _, hfold, e⟩ := step_execTraverse h
    have hf := fold_cont hfold
    simp only at hf
    exact contInv_neutral _ hi hc h trivial (by rw [e]; exact hf.1) (by rw [e]; exact hf.2.1) (by rw [e]; exact hf.2.2.1)
      (fun k hk => Or.inl (by rw [e] at hk; simp only at hk; rw [hf.2.2.2] at hk; exact hk))
  | execReemit t keep t' =>
    obtain ⟨_, _, _, _, _, hcase⟩ := step_execReemit h
    rcases hcase with ⟨_, e⟩ | ⟨_, _, _, e⟩
    · exact contInv_neutral _ hi hc h trivial (by rw [e]) (by rw [e]) (by rw [e]) (fun k hk => Or.inl (by rw [e] at hk; exact hk))
    · exact contInv_neutral _ hi hc h trivial (by rw [e]) (by rw [e]) (by rw [e]) (fun k hk => Or.inl (by rw [e] at hk; exact hk))
  | premature g t' =>
    obtain ⟨_, _, _, _, _, _, _, e⟩ := step_premature h
    exact contInv_neutral _ hi hc h trivial (by rw [e]) (by rw [e]) (by rw [e]) (fun k hk => Or.inl (by rw [e] at hk; exact hk))
  | checkTermination =>
    obtain ⟨_, _, e⟩ := step_checkTermination h
    exact contInv_neutral _ hi hc h trivial (by rw [e]) (by rw [e]) (by rw [e]) (fun k hk => Or.inl (by rw [e] at hk; exact hk))
  | launchCont t =>
    obtain ⟨hne, ht, hf, _, rfl⟩ := step_launchCont h
    have hsum := sum_upd cfg.taskCap s.tasks t (some ⟨.contSource (s.contBlock % cfg.nblocks)
      (s.contPool.take BUFSZ).length (s.contPool.take BUFSZ), .queued⟩) (fun x => sigN (sig x)) ht
    rw [hf] at hsum
    simp only [sig_none, sig_contSource, sig_flushTask, sigN_cont, sigN_flush, sigN_other] at hsum
    have hlen : s.contPool.length = (s.contPool.take BUFSZ).length + (s.contPool.drop BUFSZ).length := by
      rw [← List.length_append, List.take_append_drop]
    have hl := hc.left
    refine ⟨?_, ?_, ?_⟩
    · simp only; omega
    · intro hfc
      have := hc.flushed hfc
      simp only
      exact this
    · intro _ hno
      exact absurd (by simp [sig]) (hno t (s.contPool.take BUFSZ).length)
  | flushFinish t =>
    obtain ⟨c, hk, hempty, rfl⟩ := step_flushFinish h
    have hg := hi.tk t _ hk
    have hsum := sum_upd cfg.taskCap s.tasks t none (fun x => sigN (sig x)) hg.1
    rw [hk] at hsum
    simp only [sig_none, sig_contSource, sig_flushTask, sigN_cont, sigN_flush, sigN_other] at hsum
    have hl := hc.left
    have hsig : ∀ u, u ≠ t → sig (upd s.tasks t none u) = sig (s.tasks u) := fun u hu => by rw [upd_other _ _ _ hu]
    refine ⟨by simp only; omega, hc.flushed, ?_⟩
    intro hp hno c' g hne
    have hno' : ∀ u n, sig (s.tasks u) ≠ .cont n := by
      intro u n
      by_cases e : u = t
      · subst e; rw [hk]; simp [sig]
      · rw [← hsig u e]; exact hno u n
    obtain ⟨u, hu⟩ := hc.served hp hno' c' g hne
    have hmem := hi.ct.idx (c', g) hne
    have hgn : g < cfg.norig := ((mem_pairsU cfg c' g).mp hmem).2
    have hne' : u ≠ t := by
      intro e; subst e
      rw [hk] at hu
      simp only [sig, Sig.flush.injEq] at hu
      subst hu
      exact hne (hempty g hgn)
    exact ⟨u, by rw [hsig u hne']; exact hu⟩
  | contFinish t fl =>
    obtain ⟨c, n, s2, hk, hnle, _, rfl, hcase⟩ := step_contFinish h
    have hg := hi.tk t _ hk
    have hpos := contLeft_pos hi hc hk
    have hfc0 : s.flushCount = 0 := by
      by_cases e : s.flushCount = 0
      · exact e
      · have := hc.flushed e; omega
    -- the sum over the task table after the task t is gone
    have hsum := sum_upd cfg.taskCap s.tasks t none (fun x => sigN (sig x)) hg.1
    rw [hk] at hsum
    simp only [sig_none, sig_contSource, sig_flushTask, sigN_cont, sigN_flush, sigN_other] at hsum
    have hl := hc.left
    rcases hcase with ⟨h0, _, hlen, hadd⟩ | ⟨h0, hf, rfl⟩ | ⟨h0, rfl⟩
    · -- the flush tasks are created
      have hi1 : Inv cfg { s with contLeft := s.contLeft - n, flushCount := 1 } := inv_congr hi rfl rfl rfl rfl
      obtain ⟨_, _, hfr⟩ := addFlush_inv fl _ s2 0 hi1 (by omega) hadd
      obtain ⟨f1, f2, f3, f4, f5, f6, f7, f8, f9, f10, f11, f12⟩ := hfr
      have ht2 : s2.tasks t = s.tasks t := by
        rcases f12 t with e | ⟨e, _⟩
        · exact e
        · have : s.tasks t = none := e
          rw [hk] at this; cases this
      have hsig2 : ∀ u, sigN (sig (s2.tasks u)) = sigN (sig (s.tasks u)) := by
        intro u
        rcases f12 u with e | ⟨e, c', e2⟩
        · rw [e]
        · have : s.tasks u = none := e
          rw [e2, this]; rfl
      have hsum2 := sum_upd cfg.taskCap s2.tasks t none (fun x => sigN (sig x)) hg.1
      rw [ht2, hk] at hsum2
      simp only [sig_none, sig_contSource, sigN_cont, sigN_other] at hsum2
      have hcongr : sumOver (List.range cfg.taskCap) (fun x => sigN (sig (s2.tasks x)))
          = sumOver (List.range cfg.taskCap) (fun x => sigN (sig (s.tasks x))) := sumOver_congr (fun u _ => hsig2 u)
      refine ⟨?_, ?_, ?_⟩
      · show s2.contLeft = s2.contPool.length + sumOver (List.range cfg.taskCap) (fun x => sigN (sig (upd s2.tasks t none x)))
        rw [f9, f5]; simp only; omega
      · intro _; show s2.contLeft = 0; rw [f9]; exact h0
      · intro _ _ c' g hne
        have hne2 : s.cont (c', g) ≠ [] := by
          have : s2.cont = s.cont := f3
          simp only at hne; rw [this] at hne; exact hne
        have hmem := hi.ct.idx (c', g) hne2
        have hc' : c' < cfg.nblocks := ((mem_pairsU cfg c' g).mp hmem).1
        obtain ⟨u, hu⟩ := addFlush_has fl _ s2 0 hadd c' (by omega)
        simp only [Nat.zero_add] at hu
        have hne' : u ≠ t := by
          intro e; subst e; rw [ht2, hk] at hu; simp [sig] at hu
        exact ⟨u, by show sig (upd s2.tasks t none u) = _; rw [upd_other _ _ _ hne']; exact hu⟩
    · exact absurd hfc0 hf
    · -- other continuous source work remains
      refine ⟨by simp only; omega, ?_, ?_⟩
      · intro hfc; exact absurd hfc0 hfc
      · intro hp hno
        exfalso
        -- the counter is still positive, so the pool is not empty or another source task exists
        have hrest : 0 < sumOver (List.range cfg.taskCap) (fun x => sigN (sig (upd s.tasks t none x))) := by
          have : s.contPool.length = 0 := by simp only at hp; rw [hp]; rfl
          omega
        obtain ⟨u, _, hu⟩ := CMacVerif.Worker.sumOver_pos hrest
        cases hsu : sig (upd s.tasks t none u) with
        | cont m => exact hno u m hsu
        | flush c' => rw [hsu] at hu; simp [sigN] at hu
        | other => rw [hsu] at hu; simp [sigN] at hu

theorem contInv_init (cfg : Cfg) (srcIds : Nat → List Nat) (contIds : List Nat) : ContInv cfg (init srcIds contIds) := by
  refine ⟨?_, fun h => absurd rfl h, ?_⟩
  · simp only [init, sig_none, sigN_other]
    have : sumOver (List.range cfg.taskCap) (fun _ => 0) = 0 := sumOver_zero' _
    rw [this]; rfl
  · intro _ _ c g hne; simp [init] at hne

theorem contInv_run {cfg : Cfg} : ∀ (ls : List Label) (s s' : State), Inv cfg s → ContInv cfg s → run cfg s ls = some s' →
    ContInv cfg s' := by
  intro ls
  induction ls with
  | nil => intro s s' _ hc h; simp only [run] at h; injection h with h; subst h; exact hc
  | cons l ls ih =>
    intro s s' hi hc h
    simp only [run] at h
    split at h
    · cases h
    · rename_i s1 hs1
      exact ih s1 s' (step_inv l hi hs1).1 (contInv_step l hi hc hs1) h

/-! ### runs without a continuous source -/

/-- no continuous source: nothing left to hand out and neither continuous source tasks nor flush tasks -/
def NoCont (s : State) : Prop := s.contPool = [] ∧ ∀ t, sig (s.tasks t) = .other

theorem step_contPool {cfg : Cfg} {s s' : State} (l : Label) (h : step cfg s l = some s') (hl : SigNeutral l) :
    s'.contPool = s.contPool := by
  cases l with
  | launchCont t => exact absurd hl id
  | contFinish t fl => exact absurd hl id
  | flushFinish t => exact absurd hl id
  | launchBatch src t => obtain ⟨_, _, _, _, e⟩ := step_launchBatch h; rw [e]
  | acquire t => obtain ⟨_, _, _, e⟩ := step_acquire h; rw [e]
  | enqueue t => obtain ⟨_, _, e⟩ := step_enqueue h; rw [e]
  | execSource t b t' => obtain ⟨_, _, _, _, _, _, _, e⟩ := step_execSource h; rw [e]
  | contGen t g k => obtain ⟨_, _, _, _, _, _, _, _, _, e⟩ := step_contGen h; rw [e]
  | contOverflow t g b t' => obtain ⟨_, _, _, _, _, _, _, _, _, e⟩ := step_contOverflow h; rw [e]
  | flushOne t g b t' => obtain ⟨_, _, _, _, _, _, _, _, e⟩ := step_flushOne h; rw [e]
  | execTraverse t fates res =>
    obtain ⟨b0, buf, s1, li, ls, _, _, _, _, hfold, e⟩ := step_execTraverse h
    have hf := fold_cont hfold
    rw [e]; exact hf.1
  | execReemit t keep t' =>
    obtain ⟨_, _, _, _, _, hcase⟩ := step_execReemit h
    rcases hcase with ⟨_, e⟩ | ⟨_, _, _, e⟩ <;> rw [e]
  | premature g t' => obtain ⟨_, _, _, _, _, _, _, e⟩ := step_premature h; rw [e]
  | checkTermination => obtain ⟨_, _, e⟩ := step_checkTermination h; rw [e]

theorem noCont_step {cfg : Cfg} {s s' : State} (l : Label) (h : step cfg s l = some s') (hn : NoCont s) : NoCont s' := by
  by_cases hl : SigNeutral l
  · exact ⟨by rw [step_contPool l h hl]; exact hn.1, fun t => by rw [step_sig l h hl t]; exact hn.2 t⟩
  · exfalso
    cases l with
    | launchCont t => obtain ⟨hne, _⟩ := step_launchCont h; exact hne hn.1
    | contFinish t fl =>
      obtain ⟨c, n, s2, hk, _⟩ := step_contFinish h
      have := hn.2 t; rw [hk] at this; simp at this
    | flushFinish t =>
      obtain ⟨c, hk, _⟩ := step_flushFinish h
      have := hn.2 t; rw [hk] at this; simp at this
    | launchBatch src t => exact hl trivial
    | acquire t => exact hl trivial
    | enqueue t => exact hl trivial
    | execSource t b t' => exact hl trivial
    | contGen t g k => exact hl trivial
    | contOverflow t g b t' => exact hl trivial
    | flushOne t g b t' => exact hl trivial
    | execTraverse t fates res => exact hl trivial
    | execReemit t keep t' => exact hl trivial
    | premature g t' => exact hl trivial
    | checkTermination => exact hl trivial

theorem noCont_init (srcIds : Nat → List Nat) : NoCont (init srcIds []) :=
  ⟨rfl, fun _ => rfl⟩

end CMacVerif.Photon
