import CMacVerif.Model.Predicates
import CMacVerif.Inst.Real
import Mathlib.Tactic.Ring
import Mathlib.Tactic.Linarith
import Mathlib.Tactic.NormNum
import Mathlib.Tactic.Positivity
import Mathlib.Algebra.Order.Ring.Abs

/-!
Helper lemmas for C17, floating-point filter part.

* `Rnd fl`: the real numbers with an arbitrary rounding function `fl` applied after every
  `+ - *` and to every literal; the generic filters of `Model/Predicates.lean` instantiated at
  `Rnd fl` are the objects of the soundness theorems.
* `Appr n xt x B`: running error analysis.  `xt` is a computed value of the exact `x`, `B` is the
  "permanent" of `x` (same expression, every leaf replaced by its absolute value) and
  `|xt - x| ≤ ((1+u)^n - 1) * B`.  One lemma per operation (`Appr.add/sub/mul/absv/rnd`), composed
  along the statement order of the C++.
* `sign_of_filter`: the final comparison of `result` with `±errbound`.
-/
set_option exponentiation.threshold 1200
namespace CMacVerif.Predicates

/-- unit round-off of IEEE-754 binary64, round to nearest -/
noncomputable def u : ℝ := 1 / 2 ^ 53

/-- the standard model of floating-point arithmetic: relative error at most `u` -/
def RndOK (fl : ℝ → ℝ) : Prop := ∀ x, |fl x - x| ≤ u * |x|

/-- real numbers with the rounding function `fl` applied after every arithmetic operation
(and to every literal).  Negation and absolute value only touch the sign bit: exact. -/
structure Rnd (fl : ℝ → ℝ) where
  val : ℝ

namespace Rnd
variable {fl : ℝ → ℝ}
noncomputable instance : Add (Rnd fl) := ⟨fun a b => ⟨fl (a.val + b.val)⟩⟩
noncomputable instance : Sub (Rnd fl) := ⟨fun a b => ⟨fl (a.val - b.val)⟩⟩
noncomputable instance : Mul (Rnd fl) := ⟨fun a b => ⟨fl (a.val * b.val)⟩⟩
noncomputable instance : Div (Rnd fl) := ⟨fun a b => ⟨fl (a.val / b.val)⟩⟩
instance : Neg (Rnd fl) := ⟨fun a => ⟨-a.val⟩⟩
instance : LT (Rnd fl) := ⟨fun a b => a.val < b.val⟩
noncomputable instance : DecidableLT (Rnd fl) := fun a b => Classical.propDecidable (a.val < b.val)
noncomputable instance : OfScientific (Rnd fl) :=
  ⟨fun m s e => ⟨fl (OfScientific.ofScientific m s e : ℝ)⟩⟩
noncomputable instance : ArithFns (Rnd fl) :=
  ⟨fun a => ⟨fl (ArithFns.sqrt a.val)⟩, fun a b => ⟨fl (ArithFns.pow a.val b.val)⟩,
   fun a => ⟨fl (ArithFns.exp a.val)⟩, fun a => ⟨fl (ArithFns.log a.val)⟩,
   fun a => ⟨fl (ArithFns.log10 a.val)⟩, fun a => ⟨|a.val|⟩⟩

@[simp] theorem add_val (a b : Rnd fl) : (a + b).val = fl (a.val + b.val) := rfl
@[simp] theorem sub_val (a b : Rnd fl) : (a - b).val = fl (a.val - b.val) := rfl
@[simp] theorem mul_val (a b : Rnd fl) : (a * b).val = fl (a.val * b.val) := rfl
@[simp] theorem neg_val (a : Rnd fl) : (-a).val = -a.val := rfl
@[simp] theorem abs_val (a : Rnd fl) : (ArithFns.abs a).val = |a.val| := rfl
theorem lt_iff (a b : Rnd fl) : a < b ↔ a.val < b.val := Iff.rfl
@[simp] theorem sci_val (m : Nat) (s : Bool) (e : Nat) :
    (OfScientific.ofScientific m s e : Rnd fl).val = fl (OfScientific.ofScientific m s e : ℝ) := rfl
end Rnd

theorem u_pos : 0 < u := by unfold u; positivity

/-- accumulated relative error after `n` roundings -/
noncomputable def eps (n : ℕ) : ℝ := (1 + u) ^ n - 1

theorem one_le_pow_u (n : ℕ) : 1 ≤ (1 + u) ^ n := one_le_pow₀ (by linarith [u_pos])
theorem eps_nonneg (n : ℕ) : 0 ≤ eps n := by unfold eps; linarith [one_le_pow_u n]
theorem eps_mono {n m : ℕ} (h : n ≤ m) : eps n ≤ eps m := by
  unfold eps
  have := pow_le_pow_right₀ (by linarith [u_pos] : (1:ℝ) ≤ 1 + u) h
  linarith
theorem eps_zero : eps 0 = 0 := by simp [eps]
theorem eps_succ (n : ℕ) : eps (n + 1) = eps n + u * (1 + eps n) := by
  unfold eps; rw [pow_succ]; ring
theorem eps_add (n m : ℕ) : eps (n + m) = eps n + eps m + eps n * eps m := by
  unfold eps; rw [pow_add]; ring

/-- `xt` is a computed value of the exact `x`: `|x| ≤ B` and the error is at most `eps n * B`
(`B` is the same expression as `x` with every term replaced by its absolute value). -/
structure Appr (n : ℕ) (xt x B : ℝ) : Prop where
  bnd : |x| ≤ B
  err : |xt - x| ≤ eps n * B

namespace Appr
variable {fl : ℝ → ℝ} {n m : ℕ} {xt x Bx yt y By : ℝ}

theorem B_nonneg (h : Appr n xt x Bx) : 0 ≤ Bx := (abs_nonneg _).trans h.bnd

theorem exact (x : ℝ) : Appr 0 x x |x| := ⟨le_refl _, by simp [eps_zero]⟩

theorem mono (hnm : n ≤ m) (h : Appr n xt x Bx) : Appr m xt x Bx :=
  ⟨h.bnd, h.err.trans (mul_le_mul_of_nonneg_right (eps_mono hnm) h.B_nonneg)⟩

/-- computed magnitude: `|xt| ≤ (1 + eps n) * B` -/
theorem comp_le (h : Appr n xt x Bx) : |xt| ≤ (1 + eps n) * Bx := by
  have h1 : |xt| ≤ |xt - x| + |x| := by
    have := abs_add_le (xt - x) x; simpa using this
  linarith [h.err, h.bnd]

/-- one more rounding -/
theorem rnd (hfl : RndOK fl) (h : Appr n xt x Bx) : Appr (n + 1) (fl xt) x Bx := by
  refine ⟨h.bnd, ?_⟩
  have h1 : |fl xt - x| ≤ |fl xt - xt| + |xt - x| := by
    have := abs_add_le (fl xt - xt) (xt - x); simpa using this
  have h2 := hfl xt
  have h3 := h.comp_le
  have h4 : u * |xt| ≤ u * ((1 + eps n) * Bx) := mul_le_mul_of_nonneg_left h3 u_pos.le
  rw [eps_succ]
  nlinarith [h.err, h.B_nonneg]

theorem neg (h : Appr n xt x Bx) : Appr n (-xt) (-x) Bx :=
  ⟨by rw [abs_neg]; exact h.bnd, by rw [show -xt - -x = -(xt - x) by ring, abs_neg]; exact h.err⟩

theorem absv (h : Appr n xt x Bx) : Appr n |xt| |x| Bx :=
  ⟨by rw [abs_abs]; exact h.bnd, (abs_abs_sub_abs_le_abs_sub xt x).trans h.err⟩

theorem add_exact (hx : Appr n xt x Bx) (hy : Appr n yt y By) :
    Appr n (xt + yt) (x + y) (Bx + By) := by
  refine ⟨(abs_add_le _ _).trans (add_le_add hx.bnd hy.bnd), ?_⟩
  have : xt + yt - (x + y) = (xt - x) + (yt - y) := by ring
  rw [this, mul_add]
  exact (abs_add_le _ _).trans (add_le_add hx.err hy.err)

theorem sub_exact (hx : Appr n xt x Bx) (hy : Appr n yt y By) :
    Appr n (xt - yt) (x - y) (Bx + By) := by
  have := add_exact hx hy.neg
  simpa [sub_eq_add_neg] using this

theorem mul_exact (hx : Appr n xt x Bx) (hy : Appr m yt y By) :
    Appr (n + m) (xt * yt) (x * y) (Bx * By) := by
  refine ⟨by rw [abs_mul]; exact mul_le_mul hx.bnd hy.bnd (abs_nonneg _) hx.B_nonneg, ?_⟩
  have e : xt * yt - x * y = (xt - x) * yt + x * (yt - y) := by ring
  have h1 : |(xt - x) * yt| ≤ (eps n * Bx) * ((1 + eps m) * By) := by
    rw [abs_mul]
    exact mul_le_mul hx.err hy.comp_le (abs_nonneg _) (mul_nonneg (eps_nonneg n) hx.B_nonneg)
  have h2 : |x * (yt - y)| ≤ Bx * (eps m * By) := by
    rw [abs_mul]
    exact mul_le_mul hx.bnd hy.err (abs_nonneg _) hx.B_nonneg
  rw [e, eps_add]
  calc |(xt - x) * yt + x * (yt - y)| ≤ |(xt - x) * yt| + |x * (yt - y)| := abs_add_le _ _
    _ ≤ (eps n * Bx) * ((1 + eps m) * By) + Bx * (eps m * By) := add_le_add h1 h2
    _ = (eps n + eps m + eps n * eps m) * (Bx * By) := by ring

/-- rounded sum of two computed values -/
theorem add (hfl : RndOK fl) (hx : Appr n xt x Bx) (hy : Appr m yt y By) :
    Appr (max n m + 1) (fl (xt + yt)) (x + y) (Bx + By) :=
  ((hx.mono (le_max_left n m)).add_exact (hy.mono (le_max_right n m))).rnd hfl

theorem sub (hfl : RndOK fl) (hx : Appr n xt x Bx) (hy : Appr m yt y By) :
    Appr (max n m + 1) (fl (xt - yt)) (x - y) (Bx + By) :=
  ((hx.mono (le_max_left n m)).sub_exact (hy.mono (le_max_right n m))).rnd hfl

theorem mul (hfl : RndOK fl) (hx : Appr n xt x Bx) (hy : Appr m yt y By) :
    Appr (n + m + 1) (fl (xt * yt)) (x * y) (Bx * By) :=
  (hx.mul_exact hy).rnd hfl

/-- lower bound of a computed non-negative quantity whose `B` is the exact value itself -/
theorem congr {x' B' : ℝ} (h : Appr n xt x Bx) (hx : x = x') (hB : Bx = B') : Appr n xt x' B' := by
  subst hx; subst hB; exact h

theorem ge_of_self (h : Appr n xt x x) : (1 - eps n) * x ≤ xt := by
  have := (_root_.abs_le.mp h.err).1
  linarith
end Appr


/-- final comparison of both adaptive routines: when the computed result exceeds the computed
error bound, the exact value has the sign of the computed one -/
theorem sign_of_filter {n m : ℕ} {R D P E c : ℝ} (hR : Appr n R D P)
    (hE : Appr m E (c * P) (c * P)) (hc : eps n < c * (1 - eps m)) :
    (E < R → 0 < D) ∧ (R < -E → D < 0) := by
  have hP := hR.B_nonneg
  have hE' := hE.ge_of_self
  have hRD := _root_.abs_le.mp hR.err
  have hk : 0 ≤ (c * (1 - eps m) - eps n) * P := mul_nonneg (by linarith) hP
  constructor
  · intro h; nlinarith
  · intro h; nlinarith

/-- component-wise: the computed vector `pt` approximates the exact vector `p` -/
def VAppr {fl : ℝ → ℝ} (k : ℕ) (pt : V3 (Rnd fl)) (p : V3 ℝ) : Prop :=
  Appr k pt.x.val p.x |p.x| ∧ Appr k pt.y.val p.y |p.y| ∧ Appr k pt.z.val p.z |p.z|

/-- exact values of the coordinates of a point held in `Rnd fl` -/
def vals {fl : ℝ → ℝ} (p : V3 (Rnd fl)) : V3 ℝ := p.map Rnd.val

theorem vappr_vsub {fl : ℝ → ℝ} (hfl : RndOK fl) (a e : V3 (Rnd fl)) :
    VAppr 1 (vsub a e) (vsub (vals a) (vals e)) :=
  ⟨(Appr.exact _).rnd hfl, (Appr.exact _).rnd hfl, (Appr.exact _).rnd hfl⟩

/-- 3x3 determinant in the association of the code -/
def det3 (ad bd cd : V3 ℝ) : ℝ :=
  ad.z * (bd.x * cd.y - cd.x * bd.y) + bd.z * (cd.x * ad.y - ad.x * cd.y) +
    cd.z * (ad.x * bd.y - bd.x * ad.y)

/-- its permanent (every term replaced by its absolute value) -/
def perm3 (ad bd cd : V3 ℝ) : ℝ :=
  |ad.z| * (|bd.x| * |cd.y| + |cd.x| * |bd.y|) + |bd.z| * (|cd.x| * |ad.y| + |ad.x| * |cd.y|) +
    |cd.z| * (|ad.x| * |bd.y| + |bd.x| * |ad.y|)

section Orient
variable {fl : ℝ → ℝ} (hfl : RndOK fl) {adt bdt cdt : V3 (Rnd fl)} {ad bd cd : V3 ℝ}
include hfl

theorem orientCore_result (ha : VAppr 1 adt ad) (hb : VAppr 1 bdt bd) (hc : VAppr 1 cdt cd) :
    Appr 8 (orientCore adt bdt cdt).result.val (det3 ad bd cd) (perm3 ad bd cd) := by
  obtain ⟨ax, ay, az⟩ := ha
  obtain ⟨bx, by', bz⟩ := hb
  obtain ⟨cx, cy, cz⟩ := hc
  simp only [orientCore, Rnd.add_val, Rnd.sub_val, Rnd.mul_val]
  exact Appr.mono (by decide)
    (Appr.add hfl
      (Appr.add hfl
        (Appr.mul hfl az (Appr.sub hfl (Appr.mul hfl bx cy) (Appr.mul hfl cx by')))
        (Appr.mul hfl bz (Appr.sub hfl (Appr.mul hfl cx ay) (Appr.mul hfl ax cy))))
      (Appr.mul hfl cz (Appr.sub hfl (Appr.mul hfl ax by') (Appr.mul hfl bx ay))))

theorem orientCore_errbound (ha : VAppr 1 adt ad) (hb : VAppr 1 bdt bd) (hc : VAppr 1 cdt cd) :
    Appr 10 (orientCore adt bdt cdt).errbound.val (1.0e-10 * perm3 ad bd cd)
      (1.0e-10 * perm3 ad bd cd) := by
  obtain ⟨ax, ay, az⟩ := ha
  obtain ⟨bx, by', bz⟩ := hb
  obtain ⟨cx, cy, cz⟩ := hc
  simp only [orientCore, Rnd.add_val, Rnd.mul_val, Rnd.abs_val, Rnd.sci_val]
  have h := Appr.mul hfl ((Appr.exact (1.0e-10 : ℝ)).rnd hfl)
    (Appr.add hfl
      (Appr.add hfl
        (Appr.mul hfl (Appr.add hfl (Appr.mul hfl bx cy).absv (Appr.mul hfl cx by').absv) az.absv)
        (Appr.mul hfl (Appr.add hfl (Appr.mul hfl cx ay).absv (Appr.mul hfl ax cy).absv) bz.absv))
      (Appr.mul hfl (Appr.add hfl (Appr.mul hfl ax by').absv (Appr.mul hfl bx ay).absv) cz.absv))
  have e1 : |(1.0e-10 : ℝ)| = 1.0e-10 := abs_of_pos (by norm_num)
  have e2 : (|bd.x * cd.y| + |cd.x * bd.y|) * |ad.z| + (|cd.x * ad.y| + |ad.x * cd.y|) * |bd.z| +
      (|ad.x * bd.y| + |bd.x * ad.y|) * |cd.z| = perm3 ad bd cd := by
    simp only [abs_mul, perm3]; ring
  have e3 : (|bd.x| * |cd.y| + |cd.x| * |bd.y|) * |ad.z| + (|cd.x| * |ad.y| + |ad.x| * |cd.y|) * |bd.z| +
      (|ad.x| * |bd.y| + |bd.x| * |ad.y|) * |cd.z| = perm3 ad bd cd := by
    simp only [perm3]; ring
  rw [e1, e2, e3] at h
  exact Appr.mono (by decide) h

end Orient

theorem eps8_lt : eps 8 < 1.0e-10 * (1 - eps 10) := by
  unfold eps u; norm_num


/-! ### in-sphere -/

def m2 (p q : V3 ℝ) : ℝ := p.x * q.y - q.x * p.y
def m2B (p q : V3 ℝ) : ℝ := |p.x| * |q.y| + |q.x| * |p.y|
def n2 (p : V3 ℝ) : ℝ := p.x * p.x + p.y * p.y + p.z * p.z
/-- `abc` and `bcd`: `p.z * qr - q.z * pr + r.z * pq` -/
def altV (p q r : V3 ℝ) : ℝ := p.z * m2 q r - q.z * m2 p r + r.z * m2 p q
def altB (p q r : V3 ℝ) : ℝ := |p.z| * m2B q r + |q.z| * m2B p r + |r.z| * m2B p q
/-- `cda` and `dab`: `p.z * qr + q.z * rp + r.z * pq` -/
def cycV (p q r : V3 ℝ) : ℝ := p.z * m2 q r + q.z * m2 r p + r.z * m2 p q
def cycB (p q r : V3 ℝ) : ℝ := |p.z| * m2B q r + |q.z| * m2B r p + |r.z| * m2B p q

/-- the lifted 4x4 determinant in the association of the code -/
def det4 (ae be ce de : V3 ℝ) : ℝ :=
  (n2 de * altV ae be ce - n2 ce * cycV de ae be) + (n2 be * cycV ce de ae - n2 ae * altV be ce de)
/-- its permanent -/
def perm4 (ae be ce de : V3 ℝ) : ℝ :=
  (n2 de * altB ae be ce + n2 ce * cycB de ae be) + (n2 be * cycB ce de ae + n2 ae * altB be ce de)

theorem n2_nonneg (p : V3 ℝ) : 0 ≤ n2 p := by
  unfold n2; nlinarith [mul_self_nonneg p.x, mul_self_nonneg p.y, mul_self_nonneg p.z]

section Insphere
variable {fl : ℝ → ℝ} (hfl : RndOK fl)
include hfl

theorem prod2_appr {pt qt : V3 (Rnd fl)} {p q : V3 ℝ} (hp : VAppr 1 pt p) (hq : VAppr 1 qt q) :
    Appr 3 (prod2 pt qt).pq.val (p.x * q.y) (|p.x| * |q.y|) ∧
    Appr 3 (prod2 pt qt).qp.val (q.x * p.y) (|q.x| * |p.y|) ∧
    Appr 4 (prod2 pt qt).det.val (m2 p q) (m2B p q) := by
  simp only [prod2, Rnd.sub_val, Rnd.mul_val]
  exact ⟨Appr.mul hfl hp.1 hq.2.1, Appr.mul hfl hq.1 hp.2.1,
    Appr.sub hfl (Appr.mul hfl hp.1 hq.2.1) (Appr.mul hfl hq.1 hp.2.1)⟩

theorem nrm2_appr {pt : V3 (Rnd fl)} {p : V3 ℝ} (hp : VAppr 1 pt p) :
    Appr 5 (nrm2 pt).val (n2 p) (n2 p) := by
  simp only [nrm2, Rnd.add_val, Rnd.mul_val]
  have h := Appr.add hfl (Appr.add hfl (Appr.mul hfl hp.1 hp.1) (Appr.mul hfl hp.2.1 hp.2.1))
    (Appr.mul hfl hp.2.2 hp.2.2)
  exact Appr.mono (by decide) (h.congr rfl (by simp only [abs_mul_abs_self, n2]))

theorem insphereCore_result {aet bet cet det : V3 (Rnd fl)} {ae be ce de : V3 ℝ}
    (ha : VAppr 1 aet ae) (hb : VAppr 1 bet be) (hc : VAppr 1 cet ce) (hd : VAppr 1 det de) :
    Appr 16 (insphereCore aet bet cet det).result.val (det4 ae be ce de) (perm4 ae be ce de) := by
  have ab := (prod2_appr hfl ha hb).2.2
  have bc := (prod2_appr hfl hb hc).2.2
  have cd := (prod2_appr hfl hc hd).2.2
  have da := (prod2_appr hfl hd ha).2.2
  have ac := (prod2_appr hfl ha hc).2.2
  have bd := (prod2_appr hfl hb hd).2.2
  have na := nrm2_appr hfl ha
  have nb := nrm2_appr hfl hb
  have nc := nrm2_appr hfl hc
  have nd := nrm2_appr hfl hd
  simp only [insphereCore, Rnd.add_val, Rnd.sub_val, Rnd.mul_val]
  have abc := Appr.add hfl (Appr.sub hfl (Appr.mul hfl ha.2.2 bc) (Appr.mul hfl hb.2.2 ac))
    (Appr.mul hfl hc.2.2 ab)
  have bcd := Appr.add hfl (Appr.sub hfl (Appr.mul hfl hb.2.2 cd) (Appr.mul hfl hc.2.2 bd))
    (Appr.mul hfl hd.2.2 bc)
  have cda := Appr.add hfl (Appr.add hfl (Appr.mul hfl hc.2.2 da) (Appr.mul hfl hd.2.2 ac))
    (Appr.mul hfl ha.2.2 cd)
  have dab := Appr.add hfl (Appr.add hfl (Appr.mul hfl hd.2.2 ab) (Appr.mul hfl ha.2.2 bd))
    (Appr.mul hfl hb.2.2 da)
  exact Appr.mono (by decide)
    (Appr.add hfl (Appr.sub hfl (Appr.mul hfl nd abc) (Appr.mul hfl nc dab))
      (Appr.sub hfl (Appr.mul hfl nb cda) (Appr.mul hfl na bcd)))


theorem ebTerm_appr {ft st zt : Rnd fl} {f s z Bf Bs : ℝ} (h1 : Appr 3 ft.val f Bf)
    (h2 : Appr 3 st.val s Bs) (hz : Appr 1 zt.val z |z|) :
    Appr 6 (ebTerm ft st zt).val ((|f| + |s|) * |z|) ((Bf + Bs) * |z|) := by
  simp only [ebTerm, Rnd.add_val, Rnd.mul_val, Rnd.abs_val]
  exact Appr.mono (by decide) (Appr.mul hfl (Appr.add hfl h1.absv h2.absv) hz.absv)

theorem insphereCore_errbound {aet bet cet det : V3 (Rnd fl)} {ae be ce de : V3 ℝ}
    (ha : VAppr 1 aet ae) (hb : VAppr 1 bet be) (hc : VAppr 1 cet ce) (hd : VAppr 1 det de) :
    Appr 19 (insphereCore aet bet cet det).errbound.val (1.0e-10 * perm4 ae be ce de)
      (1.0e-10 * perm4 ae be ce de) := by
  obtain ⟨ab1, ab2, -⟩ := prod2_appr hfl ha hb
  obtain ⟨bc1, bc2, -⟩ := prod2_appr hfl hb hc
  obtain ⟨cd1, cd2, -⟩ := prod2_appr hfl hc hd
  obtain ⟨da1, da2, -⟩ := prod2_appr hfl hd ha
  obtain ⟨ac1, ac2, -⟩ := prod2_appr hfl ha hc
  obtain ⟨bd1, bd2, -⟩ := prod2_appr hfl hb hd
  have na := nrm2_appr hfl ha
  have nb := nrm2_appr hfl hb
  have nc := nrm2_appr hfl hc
  have nd := nrm2_appr hfl hd
  have az := ha.2.2
  have bz := hb.2.2
  have cz := hc.2.2
  have dz := hd.2.2
  simp only [insphereCore, Rnd.add_val, Rnd.mul_val, Rnd.sci_val]
  have g1 := Appr.mul hfl (Appr.add hfl (Appr.add hfl (ebTerm_appr hfl cd1 cd2 bz)
    (ebTerm_appr hfl bd2 bd1 cz)) (ebTerm_appr hfl bc1 bc2 dz)) na
  have g2 := Appr.mul hfl (Appr.add hfl (Appr.add hfl (ebTerm_appr hfl da1 da2 cz)
    (ebTerm_appr hfl ac1 ac2 dz)) (ebTerm_appr hfl cd1 cd2 az)) nb
  have g3 := Appr.mul hfl (Appr.add hfl (Appr.add hfl (ebTerm_appr hfl ab1 ab2 dz)
    (ebTerm_appr hfl bd1 bd2 az)) (ebTerm_appr hfl da1 da2 bz)) nc
  have g4 := Appr.mul hfl (Appr.add hfl (Appr.add hfl (ebTerm_appr hfl bc1 bc2 az)
    (ebTerm_appr hfl ac2 ac1 bz)) (ebTerm_appr hfl ab1 ab2 cz)) nd
  have h := Appr.mul hfl ((Appr.exact (1.0e-10 : ℝ)).rnd hfl)
    (Appr.add hfl (Appr.add hfl (Appr.add hfl g1 g2) g3) g4)
  have e1 : |(1.0e-10 : ℝ)| = 1.0e-10 := abs_of_pos (by norm_num)
  refine Appr.mono (by decide) (h.congr ?_ ?_)
  · simp only [perm4, altB, cycB, m2B, abs_mul]; ring
  · rw [e1]; simp only [perm4, altB, cycB, m2B]; ring

end Insphere

theorem eps16_lt : eps 16 < 1.0e-10 * (1 - eps 19) := by
  unfold eps u; norm_num


/-! ### from the error analysis to the sign of the exact determinant -/

theorem filterSign_cases {fl : ℝ → ℝ} (f : FiltOut (Rnd fl)) :
    (filterSign f = -1 ∧ f.result.val < -f.errbound.val) ∨
    (filterSign f = 1 ∧ f.errbound.val < f.result.val) ∨ filterSign f = 0 := by
  unfold filterSign
  split_ifs with h1 h2
  · exact Or.inl ⟨rfl, h1⟩
  · exact Or.inr (Or.inl ⟨rfl, h2⟩)
  · exact Or.inr (Or.inr rfl)

/-- exact 3x3 determinant of the coordinate differences of four points held in `Rnd fl` -/
def orientDet {fl : ℝ → ℝ} (a b c d : V3 (Rnd fl)) : ℝ :=
  det3 (vsub (vals a) (vals d)) (vsub (vals b) (vals d)) (vsub (vals c) (vals d))

/-- exact lifted determinant of the coordinate differences of five points held in `Rnd fl` -/
def insphereDet {fl : ℝ → ℝ} (a b c d e : V3 (Rnd fl)) : ℝ :=
  det4 (vsub (vals a) (vals e)) (vsub (vals b) (vals e)) (vsub (vals c) (vals e))
    (vsub (vals d) (vals e))

/-- a decided orientation filter has the sign of the exact real determinant -/
theorem orient_filter_real {fl : ℝ → ℝ} (hfl : RndOK fl) (a b c d : V3 (Rnd fl)) :
    (filterSign (orientFilter a b c d) = 1 → 0 < orientDet a b c d) ∧
    (filterSign (orientFilter a b c d) = -1 → orientDet a b c d < 0) := by
  have ha := vappr_vsub hfl a d
  have hb := vappr_vsub hfl b d
  have hc := vappr_vsub hfl c d
  have h := sign_of_filter (orientCore_result hfl ha hb hc) (orientCore_errbound hfl ha hb hc)
    eps8_lt
  rcases filterSign_cases (orientFilter a b c d) with ⟨e, hlt⟩ | ⟨e, hlt⟩ | e
  · exact ⟨fun h1 => by rw [e] at h1; exact absurd h1 (by decide), fun _ => h.2 hlt⟩
  · exact ⟨fun _ => h.1 hlt, fun h1 => by rw [e] at h1; exact absurd h1 (by decide)⟩
  · exact ⟨fun h1 => by rw [e] at h1; exact absurd h1 (by decide),
      fun h1 => by rw [e] at h1; exact absurd h1 (by decide)⟩

/-- a decided in-sphere filter has the sign of the exact real determinant -/
theorem insphere_filter_real {fl : ℝ → ℝ} (hfl : RndOK fl) (a b c d e : V3 (Rnd fl)) :
    (filterSign (insphereFilter a b c d e) = 1 → 0 < insphereDet a b c d e) ∧
    (filterSign (insphereFilter a b c d e) = -1 → insphereDet a b c d e < 0) := by
  have ha := vappr_vsub hfl a e
  have hb := vappr_vsub hfl b e
  have hc := vappr_vsub hfl c e
  have hd := vappr_vsub hfl d e
  have h := sign_of_filter (insphereCore_result hfl ha hb hc hd)
    (insphereCore_errbound hfl ha hb hc hd) eps16_lt
  rcases filterSign_cases (insphereFilter a b c d e) with ⟨e', hlt⟩ | ⟨e', hlt⟩ | e'
  · exact ⟨fun h1 => by rw [e'] at h1; exact absurd h1 (by decide), fun _ => h.2 hlt⟩
  · exact ⟨fun _ => h.1 hlt, fun h1 => by rw [e'] at h1; exact absurd h1 (by decide)⟩
  · exact ⟨fun h1 => by rw [e'] at h1; exact absurd h1 (by decide),
      fun h1 => by rw [e'] at h1; exact absurd h1 (by decide)⟩

/-! ### coordinates on the double grid of [1,2): value = 1 + mantissa / 2^52 -/

/-- the real point `p` has the mantissas `m` -/
def Grid (p : V3 ℝ) (m : V3 ℤ) : Prop :=
  p.x = 1 + (m.x : ℝ) / 2 ^ 52 ∧ p.y = 1 + (m.y : ℝ) / 2 ^ 52 ∧ p.z = 1 + (m.z : ℝ) / 2 ^ 52

theorem det3_grid {a b c d : V3 ℝ} {ma mb mc md : V3 ℤ} (ha : Grid a ma) (hb : Grid b mb)
    (hc : Grid c mc) (hd : Grid d md) :
    det3 (vsub a d) (vsub b d) (vsub c d) = ((orientExactVal ma mb mc md : ℤ) : ℝ) / 2 ^ 156 := by
  obtain ⟨a1, a2, a3⟩ := ha
  obtain ⟨b1, b2, b3⟩ := hb
  obtain ⟨c1, c2, c3⟩ := hc
  obtain ⟨d1, d2, d3⟩ := hd
  simp only [det3, vsub, orientExactVal, a1, a2, a3, b1, b2, b3, c1, c2, c3, d1, d2, d3]
  push_cast
  ring

theorem det4_grid {a b c d e : V3 ℝ} {ma mb mc md me : V3 ℤ} (ha : Grid a ma) (hb : Grid b mb)
    (hc : Grid c mc) (hd : Grid d md) (he : Grid e me) :
    det4 (vsub a e) (vsub b e) (vsub c e) (vsub d e) =
      ((insphereExactVal ma mb mc md me : ℤ) : ℝ) / 2 ^ 260 := by
  obtain ⟨a1, a2, a3⟩ := ha
  obtain ⟨b1, b2, b3⟩ := hb
  obtain ⟨c1, c2, c3⟩ := hc
  obtain ⟨d1, d2, d3⟩ := hd
  obtain ⟨e1, e2, e3⟩ := he
  simp only [det4, altV, cycV, m2, n2, vsub, insphereExactVal, insphereCombine, insphereParts,
    minor2, nrm2, a1, a2, a3, b1, b2, b3, c1, c2, c3, d1, d2, d3, e1, e2, e3]
  push_cast
  ring

theorem sgn_pos {r : ℤ} (h : 0 < r) : sgn r = 1 := by simp [sgn, h]
theorem sgn_neg {r : ℤ} (h : r < 0) : sgn r = -1 := by
  have : ¬ (0 < r) := by omega
  simp [sgn, h, this]
theorem sgn_zero : sgn 0 = 0 := by simp [sgn]
theorem sgn_neg_eq (r : ℤ) : sgn (-r) = - sgn r := by
  rcases lt_trichotomy r 0 with h | h | h
  · rw [sgn_neg h, sgn_pos (by omega)]; rfl
  · subst h; simp [sgn]
  · rw [sgn_pos h, sgn_neg (by omega)]

theorem pos_of_div_pos {r : ℤ} {k : ℕ} (h : 0 < (r : ℝ) / 2 ^ k) : 0 < r := by
  have : (0:ℝ) < 2 ^ k := by positivity
  have h2 : 0 < (r : ℝ) := by
    by_contra hn
    have := div_nonpos_of_nonpos_of_nonneg (not_lt.mp hn) this.le
    linarith
  exact_mod_cast h2

theorem neg_of_div_neg {r : ℤ} {k : ℕ} (h : (r : ℝ) / 2 ^ k < 0) : r < 0 := by
  have : (0:ℝ) < 2 ^ k := by positivity
  have h2 : (r : ℝ) < 0 := by
    by_contra hn
    have := div_nonneg (not_lt.mp hn) this.le
    linarith
  exact_mod_cast h2

/-! ### rounded rescaling into [1,2) -/

namespace Rnd
variable {fl : ℝ → ℝ}
@[simp] theorem div_val (a b : Rnd fl) : (a / b).val = fl (a.val / b.val) := rfl
end Rnd

/-- basic consequences of the standard model -/
theorem RndOK.le_up {fl : ℝ → ℝ} (h : RndOK fl) {x : ℝ} (hx : 0 ≤ x) : fl x ≤ x * (1 + u) := by
  have := (abs_le.mp (h x)).2; rw [abs_of_nonneg hx] at this; nlinarith
theorem RndOK.ge_down {fl : ℝ → ℝ} (h : RndOK fl) {x : ℝ} (hx : 0 ≤ x) : x * (1 - u) ≤ fl x := by
  have := (abs_le.mp (h x)).1; rw [abs_of_nonneg hx] at this; nlinarith
theorem RndOK.nonneg {fl : ℝ → ℝ} (h : RndOK fl) {x : ℝ} (hx : 0 ≤ x) : 0 ≤ fl x := by
  have h1 := h.ge_down hx
  have : 0 ≤ x * (1 - u) := mul_nonneg hx (by unfold u; norm_num)
  linarith

/-- numeric core: with the padding `1 + 8u = 1 + 4 DBL_EPSILON` the rounded quotient of the largest
coordinate stays far enough below 1 -/
theorem pad_const : (1 + (1 + u) ^ 2 / ((1 - u) ^ 2 * (1 + 8 * u))) * (1 + u) < 2 := by
  unfold u; norm_num

/-- the ROUNDED rescaling of one coordinate lands in [1,2): `mn ≤ x ≤ mx` are the (already
computed) minimum, coordinate and maximum of the axis, `k = 1 + 4 DBL_EPSILON`, extent
`ext = fl (fl (mx - mn) * k)`, result `fl (1 + fl (fl (x - mn) / ext))` -/
theorem rescale1_rounded {fl : ℝ → ℝ} (hfl : RndOK fl) (hmono : Monotone fl) (h1 : fl 1 = 1)
    (x mn mx k : Rnd fl) (hk : k.val = 1 + 8 * u) (hlo : mn.val ≤ x.val) (hhi : x.val ≤ mx.val)
    (hpos : mn.val < mx.val) :
    1 ≤ (rescale1 x mn ((mx - mn) * k)).val ∧ (rescale1 x mn ((mx - mn) * k)).val < 2 := by
  have hu : 0 < u := u_pos
  have hu1 : 0 < 1 - u := by unfold u; norm_num
  simp only [rescale1, Rnd.add_val, Rnd.sub_val, Rnd.mul_val, Rnd.div_val, Rnd.sci_val, hk]
  have e1 : fl (1.0 : ℝ) = 1 := by rw [show (1.0 : ℝ) = 1 by norm_num]; exact h1
  rw [e1]
  set D := mx.val - mn.val with hD
  have hDpos : 0 < D := by linarith
  set N := fl (x.val - mn.val) with hN
  have hN0 : 0 ≤ N := hfl.nonneg (by linarith)
  have hNup : N ≤ D * (1 + u) := by
    have := hfl.le_up (show 0 ≤ x.val - mn.val by linarith)
    have : (x.val - mn.val) * (1 + u) ≤ D * (1 + u) := by nlinarith
    linarith
  set E1 := fl D with hE1
  have hE1lo : D * (1 - u) ≤ E1 := hfl.ge_down hDpos.le
  have hE1pos : 0 < E1 := lt_of_lt_of_le (mul_pos hDpos hu1) hE1lo
  have hk8 : 0 < 1 + 8 * u := by positivity
  set E := fl (E1 * (1 + 8 * u)) with hE
  have hElo : D * (1 - u) ^ 2 * (1 + 8 * u) ≤ E := by
    have := hfl.ge_down (show 0 ≤ E1 * (1 + 8 * u) by positivity)
    have : D * (1 - u) * (1 + 8 * u) * (1 - u) ≤ E1 * (1 + 8 * u) * (1 - u) := by
      apply mul_le_mul_of_nonneg_right _ hu1.le
      exact mul_le_mul_of_nonneg_right hE1lo hk8.le
    nlinarith
  have hEpos : 0 < E := lt_of_lt_of_le (by positivity) hElo
  have hq0 : 0 ≤ N / E := div_nonneg hN0 hEpos.le
  have hq0up : N / E ≤ (1 + u) / ((1 - u) ^ 2 * (1 + 8 * u)) := by
    rw [div_le_div_iff₀ hEpos (by positivity)]
    calc N * ((1 - u) ^ 2 * (1 + 8 * u)) ≤ D * (1 + u) * ((1 - u) ^ 2 * (1 + 8 * u)) :=
          mul_le_mul_of_nonneg_right hNup (by positivity)
      _ = (1 + u) * (D * (1 - u) ^ 2 * (1 + 8 * u)) := by ring
      _ ≤ (1 + u) * E := mul_le_mul_of_nonneg_left hElo (by positivity)
  set q := fl (N / E) with hq
  have hq_nonneg : 0 ≤ q := hfl.nonneg hq0
  have hq_up : q ≤ (1 + u) ^ 2 / ((1 - u) ^ 2 * (1 + 8 * u)) := by
    have h2 := hfl.le_up hq0
    have : N / E * (1 + u) ≤ (1 + u) / ((1 - u) ^ 2 * (1 + 8 * u)) * (1 + u) :=
      mul_le_mul_of_nonneg_right hq0up (by positivity)
    have e : (1 + u) / ((1 - u) ^ 2 * (1 + 8 * u)) * (1 + u) =
        (1 + u) ^ 2 / ((1 - u) ^ 2 * (1 + 8 * u)) := by ring
    linarith
  constructor
  · have : fl 1 ≤ fl (1 + q) := hmono (by linarith)
    linarith
  · have h2 := hfl.le_up (show 0 ≤ 1 + q by linarith)
    have : (1 + q) * (1 + u) ≤
        (1 + (1 + u) ^ 2 / ((1 - u) ^ 2 * (1 + 8 * u))) * (1 + u) :=
      mul_le_mul_of_nonneg_right (by linarith) (by positivity)
    linarith [pad_const]

end CMacVerif.Predicates
