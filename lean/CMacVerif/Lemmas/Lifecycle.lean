import CMacVerif.Model.Lifecycle
/-!
Soundness of the per-field analysis `aexecF` of `CMacVerif/Model/Lifecycle.lean` with respect to
the concrete semantics `exec`, for every option vector that agrees with what is `known`.
-/
namespace CMacVerif.Lifecycle

/-- the option vector agrees with the assumptions -/
def Consistent (known : Known) (env : Env) : Prop := ∀ o b, known o = some b → env o = b

theorem consistent_none (env : Env) : Consistent Known.none env := by
  intro o b h; simp [Known.none] at h

/-- what the abstract value `a` of field `f` promises about the concrete state `s` -/
structure Rel (f : Nat) (s : St) (a : AV) : Prop where
  kind : (s.ptr f).kindIn a = true
  bad : a.bad = false → ∀ e ∈ s.log, e.field = f → e.isBad = false
  leak : a.leak = false → ∀ e ∈ s.log, e.field = f → e.isLost = false
  nul : a.nul = false → ∀ e ∈ s.log, e.field = f → e.isNullUse = false

theorem Rel.not_dead {f s a} (h : Rel f s a) : a.dead = false := by
  have hk := h.kind
  cases hp : s.ptr f <;> simp [hp, PState.kindIn] at hk <;> simp [AV.dead, hk]

theorem Rel.join_left {f s a} (b : AV) (h : Rel f s a) : Rel f s (a.join b) := by
  refine ⟨?_, ?_, ?_, ?_⟩
  · have hk := h.kind
    cases hp : s.ptr f <;> simp [hp, PState.kindIn, AV.join] at hk ⊢ <;> simp [hk]
  · intro hb; apply h.bad; simp [AV.join] at hb; exact hb.1
  · intro hb; apply h.leak; simp [AV.join] at hb; exact hb.1
  · intro hb; apply h.nul; simp [AV.join] at hb; exact hb.1

theorem Rel.join_right {f s b} (a : AV) (h : Rel f s b) : Rel f s (a.join b) := by
  refine ⟨?_, ?_, ?_, ?_⟩
  · have hk := h.kind
    cases hp : s.ptr f <;> simp [hp, PState.kindIn, AV.join] at hk ⊢ <;> simp [hk]
  · intro hb; apply h.bad; simp [AV.join] at hb; exact hb.2
  · intro hb; apply h.leak; simp [AV.join] at hb; exact hb.2
  · intro hb; apply h.nul; simp [AV.join] at hb; exact hb.2

/-- a step that leaves field `f` alone and only logs events of other fields -/
theorem Rel.other {f : Nat} {s s' : St} {a : AV} (h : Rel f s a) (hp : s'.ptr f = s.ptr f)
    (hl : ∀ e ∈ s'.log, e ∈ s.log ∨ e.field ≠ f) : Rel f s' a := by
  refine ⟨by rw [hp]; exact h.kind, ?_, ?_, ?_⟩
  · intro hb e he hf
    rcases hl e he with h1 | h1
    · exact h.bad hb e h1 hf
    · exact absurd hf h1
  · intro hb e he hf
    rcases hl e he with h1 | h1
    · exact h.leak hb e h1 hf
    · exact absurd hf h1
  · intro hb e he hf
    rcases hl e he with h1 | h1
    · exact h.nul hb e h1 hf
    · exact absurd hf h1

/-! ### the atomic statements -/

theorem overwrite_ptr (s : St) (g : Nat) : (s.overwrite g).ptr = s.ptr := by
  unfold St.overwrite; split <;> rfl
theorem overwrite_next (s : St) (g : Nat) : (s.overwrite g).next = s.next := by
  unfold St.overwrite; split <;> rfl

theorem overwrite_log_other (s : St) (g : Nat) :
    ∀ e ∈ (s.overwrite g).log, e ∈ s.log ∨ e.field = g := by
  intro e he
  unfold St.overwrite at he
  split at he
  · simp [St.logE] at he
    rcases he with h | h
    · exact Or.inl h
    · right; rw [h]; rfl
  · exact Or.inl he

theorem sound_setNull (f g : Nat) (s : St) (a : AV) (known : Known) (h : Rel f s a) (env : Env) :
    Rel f (exec env (.setNull g) s) (aexecF known f (.setNull g) a) := by
  by_cases hg : g = f
  · subst hg
    have hd := h.not_dead
    simp only [exec, aexecF, if_true, hd, Bool.false_eq_true, if_false]
    refine ⟨by simp [St.setPtr, PState.kindIn], ?_, ?_, ?_⟩
    · intro hb e he hf
      simp only [St.setPtr] at he
      unfold St.overwrite at he
      split at he
      · simp [St.logE] at he
        rcases he with h1 | h1
        · exact h.bad hb e h1 hf
        · rw [h1]; rfl
      · exact h.bad hb e he hf
    · intro hb e he hf
      simp only [Bool.or_eq_false_iff] at hb
      simp only [St.setPtr] at he
      unfold St.overwrite at he
      split at he
      · rename_i k hk
        have := h.kind
        simp [hk, PState.kindIn, hb.2] at this
      · exact h.leak hb.1 e he hf
    · intro hb e he hf
      simp only [St.setPtr] at he
      unfold St.overwrite at he
      split at he
      · simp [St.logE] at he
        rcases he with h1 | h1
        · exact h.nul hb e h1 hf
        · rw [h1]; rfl
      · exact h.nul hb e he hf
  · simp only [exec, aexecF, hg, if_false]
    apply h.other
    · simp [St.setPtr, overwrite_ptr, Ne.symm hg]
    · intro e he
      simp only [St.setPtr] at he
      rcases overwrite_log_other s g e he with h1 | h1
      · exact Or.inl h1
      · right; rw [h1]; exact hg

theorem sound_setNew (f g : Nat) (s : St) (a : AV) (known : Known) (h : Rel f s a) (env : Env) :
    Rel f (exec env (.setNew g) s) (aexecF known f (.setNew g) a) := by
  by_cases hg : g = f
  · subst hg
    have hd := h.not_dead
    simp only [exec, aexecF, if_true, hd, Bool.false_eq_true, if_false]
    refine ⟨by simp [St.setPtr, PState.kindIn], ?_, ?_, ?_⟩
    · intro hb e he hf
      simp only [List.mem_append, List.mem_singleton] at he
      rcases he with he | he
      · unfold St.overwrite at he
        split at he
        · simp [St.logE] at he
          rcases he with h1 | h1
          · exact h.bad hb e h1 hf
          · rw [h1]; rfl
        · exact h.bad hb e he hf
      · rw [he]; rfl
    · intro hb e he hf
      simp only [Bool.or_eq_false_iff] at hb
      simp only [List.mem_append, List.mem_singleton] at he
      rcases he with he | he
      · unfold St.overwrite at he
        split at he
        · rename_i k hk
          have := h.kind
          simp [hk, PState.kindIn, hb.2] at this
        · exact h.leak hb.1 e he hf
      · rw [he]; rfl
    · intro hb e he hf
      simp only [List.mem_append, List.mem_singleton] at he
      rcases he with he | he
      · unfold St.overwrite at he
        split at he
        · simp [St.logE] at he
          rcases he with h1 | h1
          · exact h.nul hb e h1 hf
          · rw [h1]; rfl
        · exact h.nul hb e he hf
      · rw [he]; rfl
  · simp only [exec, aexecF, hg, if_false]
    apply h.other
    · simp [St.setPtr, overwrite_ptr, Ne.symm hg]
    · intro e he
      simp only [List.mem_append, List.mem_singleton] at he
      rcases he with he | he
      · rcases overwrite_log_other s g e he with h1 | h1
        · exact Or.inl h1
        · right; rw [h1]; exact hg
      · right; rw [he]; exact hg

theorem sound_del (f g : Nat) (s : St) (a : AV) (known : Known) (h : Rel f s a) (env : Env) :
    Rel f (exec env (.del g) s) (aexecF known f (.del g) a) := by
  by_cases hg : g = f
  · subst hg
    have hd := h.not_dead
    have hk := h.kind
    simp only [exec, aexecF, if_true, hd, Bool.false_eq_true, if_false]
    cases hp : s.ptr g with
    | uninit =>
      simp only [hp, PState.kindIn] at hk
      refine ⟨by simp [St.logE, hp, PState.kindIn, hk], ?_, ?_, ?_⟩
      · intro hb; simp [hk] at hb
      · intro hb e he hf
        simp [St.logE] at he
        rcases he with h1 | h1
        · exact h.leak hb e h1 hf
        · rw [h1]; rfl
      · intro hb e he hf
        simp [St.logE] at he
        rcases he with h1 | h1
        · exact h.nul hb e h1 hf
        · rw [h1]; rfl
    | null =>
      simp only [hp, PState.kindIn] at hk
      refine ⟨by simp [St.logE, hp, PState.kindIn, hk], ?_, ?_, ?_⟩
      · intro hb e he hf
        simp only [Bool.or_eq_false_iff] at hb
        simp [St.logE] at he
        rcases he with h1 | h1
        · exact h.bad hb.1.1 e h1 hf
        · rw [h1]; rfl
      · intro hb e he hf
        simp [St.logE] at he
        rcases he with h1 | h1
        · exact h.leak hb e h1 hf
        · rw [h1]; rfl
      · intro hb e he hf
        simp [St.logE] at he
        rcases he with h1 | h1
        · exact h.nul hb e h1 hf
        · rw [h1]; rfl
    | owned k =>
      simp only [hp, PState.kindIn] at hk
      refine ⟨by simp [St.logE, St.setPtr, PState.kindIn, hk], ?_, ?_, ?_⟩
      · intro hb e he hf
        simp only [Bool.or_eq_false_iff] at hb
        simp [St.logE, St.setPtr] at he
        rcases he with h1 | h1
        · exact h.bad hb.1.1 e h1 hf
        · rw [h1]; rfl
      · intro hb e he hf
        simp [St.logE, St.setPtr] at he
        rcases he with h1 | h1
        · exact h.leak hb e h1 hf
        · rw [h1]; rfl
      · intro hb e he hf
        simp [St.logE, St.setPtr] at he
        rcases he with h1 | h1
        · exact h.nul hb e h1 hf
        · rw [h1]; rfl
    | freed k =>
      simp only [hp, PState.kindIn] at hk
      refine ⟨by simp [St.logE, hp, PState.kindIn, hk], ?_, ?_, ?_⟩
      · intro hb; simp [hk] at hb
      · intro hb e he hf
        simp [St.logE] at he
        rcases he with h1 | h1
        · exact h.leak hb e h1 hf
        · rw [h1]; rfl
      · intro hb e he hf
        simp [St.logE] at he
        rcases he with h1 | h1
        · exact h.nul hb e h1 hf
        · rw [h1]; rfl
  · simp only [exec, aexecF, hg, if_false]
    apply h.other
    · cases hp : s.ptr g <;> simp [St.logE, St.setPtr, Ne.symm hg]
    · intro e he
      cases hp : s.ptr g <;> simp [hp, St.logE, St.setPtr] at he <;>
        (rcases he with h1 | h1
         · exact Or.inl h1
         · right; rw [h1]; exact hg)

theorem sound_use (f g : Nat) (s : St) (a : AV) (known : Known) (h : Rel f s a) (env : Env) :
    Rel f (exec env (.use g) s) (aexecF known f (.use g) a) := by
  by_cases hg : g = f
  · subst hg
    have hd := h.not_dead
    have hk := h.kind
    simp only [exec, aexecF, if_true, hd, Bool.false_eq_true, if_false]
    cases hp : s.ptr g with
    | uninit =>
      simp only [hp, PState.kindIn] at hk
      refine ⟨by simp [St.logE, hp, PState.kindIn, hk], ?_, ?_, ?_⟩
      · intro hb; simp [hk] at hb
      · intro hb e he hf
        simp [St.logE] at he
        rcases he with h1 | h1
        · exact h.leak hb e h1 hf
        · rw [h1]; rfl
      · intro hb e he hf
        simp only [Bool.or_eq_false_iff] at hb
        simp [St.logE] at he
        rcases he with h1 | h1
        · exact h.nul hb.1 e h1 hf
        · rw [h1]; rfl
    | null =>
      simp only [hp, PState.kindIn] at hk
      refine ⟨by simp [St.logE, hp, PState.kindIn, hk], ?_, ?_, ?_⟩
      · intro hb e he hf
        simp only [Bool.or_eq_false_iff] at hb
        simp [St.logE] at he
        rcases he with h1 | h1
        · exact h.bad hb.1.1 e h1 hf
        · rw [h1]; rfl
      · intro hb e he hf
        simp [St.logE] at he
        rcases he with h1 | h1
        · exact h.leak hb e h1 hf
        · rw [h1]; rfl
      · intro hb; simp [hk] at hb
    | owned k =>
      simp only [hp, PState.kindIn] at hk
      refine ⟨by simp [hp, PState.kindIn, hk], ?_, ?_, ?_⟩
      · intro hb e he hf
        simp only [Bool.or_eq_false_iff] at hb
        exact h.bad hb.1.1 e he hf
      · intro hb e he hf
        exact h.leak hb e he hf
      · intro hb e he hf
        simp only [Bool.or_eq_false_iff] at hb
        exact h.nul hb.1 e he hf
    | freed k =>
      simp only [hp, PState.kindIn] at hk
      refine ⟨by simp [St.logE, hp, PState.kindIn, hk], ?_, ?_, ?_⟩
      · intro hb; simp [hk] at hb
      · intro hb e he hf
        simp [St.logE] at he
        rcases he with h1 | h1
        · exact h.leak hb e h1 hf
        · rw [h1]; rfl
      · intro hb e he hf
        simp only [Bool.or_eq_false_iff] at hb
        simp [St.logE] at he
        rcases he with h1 | h1
        · exact h.nul hb.1 e h1 hf
        · rw [h1]; rfl
  · simp only [exec, aexecF, hg, if_false]
    apply h.other
    · cases hp : s.ptr g <;> simp [St.logE]
    · intro e he
      cases hp : s.ptr g <;> simp [hp, St.logE] at he
      · rcases he with h1 | h1
        · exact Or.inl h1
        · right; rw [h1]; exact hg
      · rcases he with h1 | h1
        · exact Or.inl h1
        · right; rw [h1]; exact hg
      · exact Or.inl he
      · rcases he with h1 | h1
        · exact Or.inl h1
        · right; rw [h1]; exact hg

/-! ### pointer tests -/

/-- a pointer test on another field -/
theorem evalCond_other (env : Env) (f g : Nat) (hg : g ≠ f) (s : St) (a : AV) (h : Rel f s a)
    (c : Cond) (hc : c = .nonNull g ∨ c = .isNull g) : Rel f (evalCond env c s).1 a := by
  apply h.other
  · rcases hc with hc | hc <;> subst hc <;> simp only [evalCond] <;> split <;> simp [St.logE]
  · intro e he
    rcases hc with hc | hc <;> subst hc <;> simp only [evalCond] at he <;> split at he <;>
      simp [St.logE] at he <;>
      first
      | exact Or.inl he
      | (rcases he with h1 | h1
         · exact Or.inl h1
         · right; rw [h1]; exact hg)

/-- the test `f != nullptr` on the field itself: the state seen in the branch taken -/
theorem evalCond_nonNull (env : Env) (f : Nat) (s : St) (a : AV) (h : Rel f s a) :
    let r := evalCond env (.nonNull f) s
    (r.2 = true → Rel f r.1 a.tested.whenNonNull) ∧ (r.2 = false → Rel f r.1 a.tested.whenNull) := by
  have hk := h.kind
  simp only [evalCond]
  cases hp : s.ptr f with
  | uninit =>
    simp only [hp, PState.kindIn] at hk
    refine ⟨fun _ => ⟨by simp [St.logE, hp, PState.kindIn, AV.tested, AV.whenNonNull, hk], ?_, ?_, ?_⟩,
      fun hh => by simp at hh⟩
    · intro hb; simp [AV.tested, AV.whenNonNull, hk] at hb
    · intro hb e he hf
      simp [St.logE] at he
      rcases he with h1 | h1
      · exact h.leak hb e h1 hf
      · rw [h1]; rfl
    · intro hb e he hf
      simp [St.logE] at he
      rcases he with h1 | h1
      · exact h.nul hb e h1 hf
      · rw [h1]; rfl
  | null =>
    simp only [hp, PState.kindIn] at hk
    refine ⟨fun hh => by simp at hh,
      fun _ => ⟨by simp [hp, PState.kindIn, AV.tested, AV.whenNull, hk], ?_, h.leak, h.nul⟩⟩
    intro hb e he hf
    simp [AV.tested, AV.whenNull] at hb
    exact h.bad hb.1 e he hf
  | owned k =>
    simp only [hp, PState.kindIn] at hk
    refine ⟨fun _ => ⟨by simp [hp, PState.kindIn, AV.tested, AV.whenNonNull, hk], ?_, h.leak, h.nul⟩,
      fun hh => by simp at hh⟩
    intro hb e he hf
    simp [AV.tested, AV.whenNonNull] at hb
    exact h.bad hb.1 e he hf
  | freed k =>
    simp only [hp, PState.kindIn] at hk
    refine ⟨fun _ => ⟨by simp [hp, PState.kindIn, AV.tested, AV.whenNonNull, hk], ?_, h.leak, h.nul⟩,
      fun hh => by simp at hh⟩
    intro hb e he hf
    simp [AV.tested, AV.whenNonNull] at hb
    exact h.bad hb.1 e he hf

theorem evalCond_isNull (env : Env) (f : Nat) (s : St) (a : AV) (h : Rel f s a) :
    let r := evalCond env (.isNull f) s
    (r.2 = true → Rel f r.1 a.tested.whenNull) ∧ (r.2 = false → Rel f r.1 a.tested.whenNonNull) := by
  have hk := h.kind
  simp only [evalCond]
  cases hp : s.ptr f with
  | uninit =>
    simp only [hp, PState.kindIn] at hk
    refine ⟨fun hh => by simp at hh,
      fun _ => ⟨by simp [St.logE, hp, PState.kindIn, AV.tested, AV.whenNonNull, hk], ?_, ?_, ?_⟩⟩
    · intro hb; simp [AV.tested, AV.whenNonNull, hk] at hb
    · intro hb e he hf
      simp [St.logE] at he
      rcases he with h1 | h1
      · exact h.leak hb e h1 hf
      · rw [h1]; rfl
    · intro hb e he hf
      simp [St.logE] at he
      rcases he with h1 | h1
      · exact h.nul hb e h1 hf
      · rw [h1]; rfl
  | null =>
    simp only [hp, PState.kindIn] at hk
    refine ⟨fun _ => ⟨by simp [hp, PState.kindIn, AV.tested, AV.whenNull, hk], ?_, h.leak, h.nul⟩,
      fun hh => by simp at hh⟩
    intro hb e he hf
    simp [AV.tested, AV.whenNull] at hb
    exact h.bad hb.1 e he hf
  | owned k =>
    simp only [hp, PState.kindIn] at hk
    refine ⟨fun hh => by simp at hh,
      fun _ => ⟨by simp [hp, PState.kindIn, AV.tested, AV.whenNonNull, hk], ?_, h.leak, h.nul⟩⟩
    intro hb e he hf
    simp [AV.tested, AV.whenNonNull] at hb
    exact h.bad hb.1 e he hf
  | freed k =>
    simp only [hp, PState.kindIn] at hk
    refine ⟨fun hh => by simp at hh,
      fun _ => ⟨by simp [hp, PState.kindIn, AV.tested, AV.whenNonNull, hk], ?_, h.leak, h.nul⟩⟩
    intro hb e he hf
    simp [AV.tested, AV.whenNonNull] at hb
    exact h.bad hb.1 e he hf

/-! ### the whole language -/

/-- **soundness of the analysis**: whatever the options (compatible with `known`), the abstract
value of field `f` after the statement describes the concrete state after the statement -/
theorem sound (known : Known) (env : Env) (hk : Consistent known env) (f : Nat) :
    ∀ (st : Stmt) (s : St) (a : AV), Rel f s a → Rel f (exec env st s) (aexecF known f st a) := by
  intro st
  induction st with
  | skip => intro s a h; exact h
  | setNull g => intro s a h; exact sound_setNull f g s a known h env
  | setNew g => intro s a h; exact sound_setNew f g s a known h env
  | del g => intro s a h; exact sound_del f g s a known h env
  | use g => intro s a h; exact sound_use f g s a known h env
  | seq x y ihx ihy => intro s a h; exact ihy _ _ (ihx _ _ h)
  | ite c t e iht ihe =>
    intro s a h
    cases c with
    | opt o =>
      simp only [exec, aexecF, evalCond]
      cases hko : known o with
      | none =>
        simp only
        by_cases hb : env o = true
        · simp only [hb, if_true]; exact (iht _ _ h).join_left _
        · simp only [hb, Bool.false_eq_true, if_false]; exact (ihe _ _ h).join_right _
      | some b =>
        have := hk o b hko
        cases b
        · simp only [this, Bool.false_eq_true, if_false]; exact ihe _ _ h
        · simp only [this, if_true]; exact iht _ _ h
    | nonNull g =>
      by_cases hg : g = f
      · subst hg
        have hd := h.not_dead
        have hc := evalCond_nonNull env g s a h
        simp only [exec, aexecF, if_true, hd, Bool.false_eq_true, if_false]
        by_cases hb : (evalCond env (.nonNull g) s).2 = true
        · simp only [hb, if_true]; exact (iht _ _ (hc.1 hb)).join_left _
        · have hb' : (evalCond env (.nonNull g) s).2 = false := by simpa using hb
          simp only [hb', Bool.false_eq_true, if_false]; exact (ihe _ _ (hc.2 hb')).join_right _
      · have hc := evalCond_other env f g hg s a h (.nonNull g) (Or.inl rfl)
        simp only [exec, aexecF, hg, if_false]
        by_cases hb : (evalCond env (.nonNull g) s).2 = true
        · simp only [hb, if_true]; exact (iht _ _ hc).join_left _
        · have hb' : (evalCond env (.nonNull g) s).2 = false := by simpa using hb
          simp only [hb', Bool.false_eq_true, if_false]; exact (ihe _ _ hc).join_right _
    | isNull g =>
      by_cases hg : g = f
      · subst hg
        have hd := h.not_dead
        have hc := evalCond_isNull env g s a h
        simp only [exec, aexecF, if_true, hd, Bool.false_eq_true, if_false]
        by_cases hb : (evalCond env (.isNull g) s).2 = true
        · simp only [hb, if_true]; exact (iht _ _ (hc.1 hb)).join_left _
        · have hb' : (evalCond env (.isNull g) s).2 = false := by simpa using hb
          simp only [hb', Bool.false_eq_true, if_false]; exact (ihe _ _ (hc.2 hb')).join_right _
      · have hc := evalCond_other env f g hg s a h (.isNull g) (Or.inr rfl)
        simp only [exec, aexecF, hg, if_false]
        by_cases hb : (evalCond env (.isNull g) s).2 = true
        · simp only [hb, if_true]; exact (iht _ _ hc).join_left _
        · have hb' : (evalCond env (.isNull g) s).2 = false := by simpa using hb
          simp only [hb', Bool.false_eq_true, if_false]; exact (ihe _ _ hc).join_right _

theorem rel_init (f : Nat) : Rel f St.init AV.init := by
  refine ⟨rfl, ?_, ?_, ?_⟩ <;> intro _ e he <;> simp [St.init] at he

/-- a field that the program never mentions keeps its abstract value -/
theorem aexecF_unmentioned (known : Known) (f : Nat) :
    ∀ (st : Stmt) (a : AV), st.bound ≤ f → aexecF known f st a = a := by
  intro st
  induction st with
  | skip => intro a _; rfl
  | setNull g => intro a h; simp only [Stmt.bound] at h; simp only [aexecF]; rw [if_neg (by omega)]
  | setNew g => intro a h; simp only [Stmt.bound] at h; simp only [aexecF]; rw [if_neg (by omega)]
  | del g => intro a h; simp only [Stmt.bound] at h; simp only [aexecF]; rw [if_neg (by omega)]
  | use g => intro a h; simp only [Stmt.bound] at h; simp only [aexecF]; rw [if_neg (by omega)]
  | seq x y ihx ihy =>
    intro a h
    simp only [Stmt.bound] at h
    simp only [aexecF]
    rw [ihx a (by omega), ihy a (by omega)]
  | ite c t e iht ihe =>
    intro a h
    have join_self : a.join a = a := by cases a; simp [AV.join]
    cases c with
    | opt o =>
      simp only [Stmt.bound] at h
      simp only [aexecF]
      rw [iht a (by omega), ihe a (by omega)]
      cases known o with
      | none => exact join_self
      | some b => cases b <;> rfl
    | nonNull g =>
      simp only [Stmt.bound] at h
      simp only [aexecF]
      rw [if_neg (by omega), iht a (by omega), ihe a (by omega)]
      exact join_self
    | isNull g =>
      simp only [Stmt.bound] at h
      simp only [aexecF]
      rw [if_neg (by omega), iht a (by omega), ihe a (by omega)]
      exact join_self


/-! ### what the log says about allocations and frees (for every program, no hypothesis)

`free f k` is only logged for a live allocation, `dfree f k` for a repeated delete.  The
invariant below turns "no `dfree`, no `lost`, nothing owned at the end" into "every allocation is
freed exactly once". -/

structure LogInv (s : St) : Prop where
  fresh : ∀ f k, Event.alloc f k ∈ s.log → k < s.next
  freeAlloc : ∀ f k, Event.free f k ∈ s.log → Event.alloc f k ∈ s.log
  owned : ∀ f k, s.ptr f = .owned k → Event.alloc f k ∈ s.log ∧ s.log.count (Event.free f k) = 0
  once : ∀ f k, s.log.count (Event.free f k) ≤ 1
  fate : ∀ f k, Event.alloc f k ∈ s.log →
    s.ptr f = .owned k ∨ s.log.count (Event.free f k) = 1 ∨ Event.lost f k ∈ s.log

theorem logInv_init : LogInv St.init := by
  refine ⟨?_, ?_, ?_, ?_, ?_⟩ <;> intros <;> simp_all [St.init]

/-- appending an event that is neither an allocation nor a free nor a loss changes nothing -/
theorem LogInv.logNeutral {s : St} (h : LogInv s) (e : Event)
    (ha : ∀ f k, e ≠ .alloc f k) (hf : ∀ f k, e ≠ .free f k) :
    LogInv (s.logE e) := by
  have hc : ∀ f k, (s.log ++ [e]).count (Event.free f k) = s.log.count (Event.free f k) := by
    intro f k
    rw [List.count_append]
    have : [e].count (Event.free f k) = 0 := by
      simp only [List.count_cons, List.count_nil]
      have := hf f k
      simp [this]
    omega
  refine ⟨?_, ?_, ?_, ?_, ?_⟩
  · intro f k hm
    simp only [St.logE, List.mem_append, List.mem_singleton] at hm
    rcases hm with hm | hm
    · exact h.fresh f k hm
    · exact absurd hm.symm (ha f k)
  · intro f k hm
    simp only [St.logE, List.mem_append, List.mem_singleton] at hm ⊢
    rcases hm with hm | hm
    · exact Or.inl (h.freeAlloc f k hm)
    · exact absurd hm.symm (hf f k)
  · intro f k hp
    have := h.owned f k hp
    simp only [St.logE, List.mem_append]
    exact ⟨Or.inl this.1, by rw [hc]; exact this.2⟩
  · intro f k
    simp only [St.logE]
    rw [hc]; exact h.once f k
  · intro f k hm
    simp only [St.logE, List.mem_append, List.mem_singleton] at hm ⊢
    rcases hm with hm | hm
    · rcases h.fate f k hm with h1 | h1 | h1
      · exact Or.inl h1
      · exact Or.inr (Or.inl (by rw [hc]; exact h1))
      · exact Or.inr (Or.inr (Or.inl h1))
    · exact absurd hm.symm (ha f k)

/-- overwriting field `g` (with null or a fresh allocation is done by the caller): after the
`lost` bookkeeping the old allocation of `g`, if any, is accounted for -/
theorem LogInv.overwrite {s : St} (h : LogInv s) (g : Nat) :
    LogInv (s.overwrite g) ∧
    (∀ k, Event.alloc g k ∈ (s.overwrite g).log →
      (s.overwrite g).log.count (Event.free g k) = 1 ∨ Event.lost g k ∈ (s.overwrite g).log) := by
  unfold St.overwrite
  split
  · rename_i k hk
    have hi := h.logNeutral (Event.lost g k) (by intros; simp) (by intros; simp)
    refine ⟨hi, ?_⟩
    intro k' hm
    rcases hi.fate g k' hm with h1 | h1 | h1
    · simp only [St.logE] at h1
      rw [hk] at h1
      injection h1 with h1
      subst h1
      right; simp [St.logE]
    · exact Or.inl h1
    · exact Or.inr h1
  · rename_i hne
    refine ⟨h, ?_⟩
    intro k hm
    rcases h.fate g k hm with h1 | h1 | h1
    · exact absurd h1 (hne k)
    · exact Or.inl h1
    · exact Or.inr h1

theorem logInv_setNull {s : St} (h : LogInv s) (g : Nat) : LogInv ((s.overwrite g).setPtr g .null) := by
  obtain ⟨hi, hg⟩ := h.overwrite g
  refine ⟨hi.fresh, hi.freeAlloc, ?_, hi.once, ?_⟩
  · intro f k hp
    simp only [St.setPtr] at hp
    split at hp
    · cases hp
    · exact hi.owned f k hp
  · intro f k hm
    simp only [St.setPtr] at hm ⊢
    by_cases hf : f = g
    · subst hf
      simp only [if_true]
      exact Or.inr (hg k hm)
    · simp only [hf, if_false]
      exact hi.fate f k hm

theorem logInv_setNew {s : St} (h : LogInv s) (g : Nat) (env : Env) : LogInv (exec env (.setNew g) s) := by
  obtain ⟨hi, hg⟩ := h.overwrite g
  simp only [exec]
  have hc : ∀ f k, ((s.overwrite g).log ++ [Event.alloc g (s.overwrite g).next]).count (Event.free f k)
      = (s.overwrite g).log.count (Event.free f k) := by
    intro f k
    rw [List.count_append]
    simp
  have hnofree : ∀ f, (s.overwrite g).log.count (Event.free f (s.overwrite g).next) = 0 := by
    intro f
    rw [List.count_eq_zero]
    intro hm
    have := hi.fresh f _ (hi.freeAlloc f _ hm)
    omega
  refine ⟨?_, ?_, ?_, ?_, ?_⟩
  · intro f k hm
    simp only [List.mem_append, List.mem_singleton] at hm ⊢
    rcases hm with hm | hm
    · have := hi.fresh f k hm; omega
    · injection hm with _ h2; omega
  · intro f k hm
    simp only [List.mem_append, List.mem_singleton] at hm ⊢
    rcases hm with hm | hm
    · exact Or.inl (hi.freeAlloc f k hm)
    · cases hm
  · intro f k hp
    simp only [St.setPtr] at hp ⊢
    split at hp
    · rename_i hf
      injection hp with hp
      subst hp; subst hf
      exact ⟨by simp, by rw [hc]; exact hnofree f⟩
    · have := hi.owned f k hp
      exact ⟨by simp [this.1], by rw [hc]; exact this.2⟩
  · intro f k
    show (_ : List Event).count _ ≤ 1
    rw [hc]; exact hi.once f k
  · intro f k hm
    simp only [St.setPtr, List.mem_append, List.mem_singleton] at hm ⊢
    rw [hc]
    by_cases hf : f = g
    · subst hf
      simp only [if_true]
      rcases hm with hm | hm
      · rcases hg k hm with h1 | h1
        · exact Or.inr (Or.inl h1)
        · exact Or.inr (Or.inr (Or.inl h1))
      · injection hm with _ h2
        subst h2
        exact Or.inl rfl
    · simp only [hf, if_false]
      rcases hm with hm | hm
      · rcases hi.fate f k hm with h1 | h1 | h1
        · exact Or.inl h1
        · exact Or.inr (Or.inl h1)
        · exact Or.inr (Or.inr (Or.inl h1))
      · injection hm with h1 _
        exact absurd h1 hf

theorem logInv_del {s : St} (h : LogInv s) (g : Nat) (env : Env) : LogInv (exec env (.del g) s) := by
  simp only [exec]
  cases hp : s.ptr g with
  | uninit => exact h.logNeutral _ (by intros; simp) (by intros; simp)
  | null => exact h.logNeutral _ (by intros; simp) (by intros; simp)
  | freed k => exact h.logNeutral _ (by intros; simp) (by intros; simp)
  | owned k =>
    simp only
    have hown := h.owned g k hp
    have hc : ∀ f k', (s.log ++ [Event.free g k]).count (Event.free f k') =
        s.log.count (Event.free f k') + (if f = g ∧ k' = k then 1 else 0) := by
      intro f k'
      rw [List.count_append]
      congr 1
      by_cases hfk : f = g ∧ k' = k
      · obtain ⟨rfl, rfl⟩ := hfk; simp
      · simp only [hfk, if_false]
        rw [List.count_eq_zero]
        simp only [List.mem_singleton]
        intro hm
        injection hm with h1 h2
        exact hfk ⟨h1, h2⟩
    refine ⟨?_, ?_, ?_, ?_, ?_⟩
    · intro f k' hm
      simp only [St.logE, St.setPtr, List.mem_append, List.mem_singleton] at hm ⊢
      rcases hm with hm | hm
      · exact h.fresh f k' hm
      · cases hm
    · intro f k' hm
      simp only [St.logE, St.setPtr, List.mem_append, List.mem_singleton] at hm ⊢
      rcases hm with hm | hm
      · exact Or.inl (h.freeAlloc f k' hm)
      · injection hm with h1 h2
        subst h1; subst h2
        exact Or.inl hown.1
    · intro f k' hp'
      simp only [St.logE, St.setPtr] at hp' ⊢
      split at hp'
      · cases hp'
      · rename_i hf
        have := h.owned f k' hp'
        refine ⟨by simp [this.1], ?_⟩
        rw [hc]
        simp [hf, this.2]
    · intro f k'
      simp only [St.logE, St.setPtr]
      rw [hc]
      by_cases hfk : f = g ∧ k' = k
      · obtain ⟨rfl, rfl⟩ := hfk
        simp [hown.2]
      · simp only [hfk, if_false]
        exact h.once f k'
    · intro f k' hm
      simp only [St.logE, St.setPtr, List.mem_append, List.mem_singleton] at hm ⊢
      rw [hc]
      rcases hm with hm | hm
      · by_cases hf : f = g
        · subst hf
          simp only [if_true]
          rcases h.fate f k' hm with h1 | h1 | h1
          · rw [hp] at h1
            injection h1 with h1
            subst h1
            exact Or.inr (Or.inl (by simp [hown.2]))
          · have hne : k' ≠ k := by
              intro hk; subst hk; omega
            exact Or.inr (Or.inl (by simp [hne, h1]))
          · exact Or.inr (Or.inr (Or.inl h1))
        · simp only [hf, if_false, false_and]
          rcases h.fate f k' hm with h1 | h1 | h1
          · exact Or.inl h1
          · exact Or.inr (Or.inl (by simpa using h1))
          · exact Or.inr (Or.inr (Or.inl h1))
      · cases hm

theorem logInv_use {s : St} (h : LogInv s) (g : Nat) (env : Env) : LogInv (exec env (.use g) s) := by
  simp only [exec]
  cases hp : s.ptr g with
  | uninit => exact h.logNeutral _ (by intros; simp) (by intros; simp)
  | null => exact h.logNeutral _ (by intros; simp) (by intros; simp)
  | freed k => exact h.logNeutral _ (by intros; simp) (by intros; simp)
  | owned k => exact h

theorem logInv_evalCond {s : St} (h : LogInv s) (c : Cond) (env : Env) : LogInv (evalCond env c s).1 := by
  cases c with
  | opt o => exact h
  | nonNull g =>
    simp only [evalCond]
    split
    · exact h.logNeutral _ (by intros; simp) (by intros; simp)
    · exact h
    · exact h
  | isNull g =>
    simp only [evalCond]
    split
    · exact h.logNeutral _ (by intros; simp) (by intros; simp)
    · exact h
    · exact h

theorem logInv_exec (env : Env) : ∀ (st : Stmt) (s : St), LogInv s → LogInv (exec env st s) := by
  intro st
  induction st with
  | skip => intro s h; exact h
  | setNull g => intro s h; exact logInv_setNull h g
  | setNew g => intro s h; exact logInv_setNew h g env
  | del g => intro s h; exact logInv_del h g env
  | use g => intro s h; exact logInv_use h g env
  | seq x y ihx ihy => intro s h; exact ihy _ (ihx _ h)
  | ite c t e iht ihe =>
    intro s h
    simp only [exec]
    split
    · exact iht _ (logInv_evalCond h c env)
    · exact ihe _ (logInv_evalCond h c env)

end CMacVerif.Lifecycle
