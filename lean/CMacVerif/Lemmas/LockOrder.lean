import CMacVerif.Lemmas.HydroGraph
/-! lock order of the hydro tasks (`lockOrder`): same locks as `lockset`, lower index first -/
namespace CMacVerif.HydroGraph

/-- the x-major index is injective on the subgrids of the layout -/
theorem subIndex_inj {L : Layout} {a b : Sub} (ha : valid L a = true) (hb : valid L b = true)
    (h : subIndex L a = subIndex L b) : a = b := by
  rw [valid_iff] at ha hb
  obtain ⟨a1, a2, a3⟩ := a
  obtain ⟨b1, b2, b3⟩ := b
  simp only [subIndex] at h
  simp only at ha hb
  have hz : 0 < L.nz := by omega
  have e1 : a1 * L.ny * L.nz + a2 * L.nz + a3 = (a1 * L.ny + a2) * L.nz + a3 := by
    rw [Nat.add_mul]
  have e2 : b1 * L.ny * L.nz + b2 * L.nz + b3 = (b1 * L.ny + b2) * L.nz + b3 := by
    rw [Nat.add_mul]
  rw [e1, e2] at h
  have h3 : a3 = b3 := by
    have := congrArg (· % L.nz) h
    simp only [Nat.mul_add_mod_of_lt, Nat.add_mod, Nat.mul_mod_left, Nat.zero_add] at this
    rw [Nat.mod_mod, Nat.mod_mod, Nat.mod_eq_of_lt ha.2.2, Nat.mod_eq_of_lt hb.2.2] at this
    exact this
  subst h3
  have h12 : a1 * L.ny + a2 = b1 * L.ny + b2 := by
    have := Nat.add_right_cancel h
    exact Nat.eq_of_mul_eq_mul_right hz this
  have h2 : a2 = b2 := by
    have := congrArg (· % L.ny) h12
    simp only [Nat.add_mod, Nat.mul_mod_left, Nat.zero_add] at this
    rw [Nat.mod_mod, Nat.mod_mod, Nat.mod_eq_of_lt ha.2.1, Nat.mod_eq_of_lt hb.2.1] at this
    exact this
  subst h2
  have hy : 0 < L.ny := by omega
  have h1 : a1 = b1 := Nat.eq_of_mul_eq_mul_right hy (Nat.add_right_cancel h12)
  subst h1
  rfl

theorem lockOrder_mem (L : Layout) (t : Task) (x : Sub) : x ∈ lockOrder L t ↔ x ∈ lockset L t := by
  unfold lockOrder
  split
  · next a b h => rw [h]; split_ifs <;> simp [or_comm]
  · rfl

theorem lockOrder_length (L : Layout) (t : Task) : (lockOrder L t).length = (lockset L t).length := by
  unfold lockOrder
  split
  · next a b h => rw [h]; split_ifs <;> rfl
  · rfl

/-- every member of a lock set is a subgrid of the layout -/
theorem lockset_valid {L : Layout} {t : Task} (ht : valid L t.g = true) : ∀ x ∈ lockset L t, valid L x = true := by
  intro x hx
  obtain ⟨g, s⟩ := t
  simp only at ht
  have key : ∀ ax, ∀ l : List Sub,
      l = (match ngbUp L ax g with | some n => if n = g then [g] else [g, n] | none => [g]) →
      x ∈ l → valid L x = true := by
    intro ax l hl hx
    cases h : ngbUp L ax g with
    | none => simp only [h] at hl; subst hl; simp only [List.mem_singleton] at hx; subst hx; exact ht
    | some n =>
      simp only [h] at hl
      have hn := (ngbUp_ngbDown ht h).1
      split_ifs at hl
      · subst hl; simp only [List.mem_singleton] at hx; subst hx; exact ht
      · subst hl
        simp only [List.mem_cons, List.not_mem_nil, or_false] at hx
        rcases hx with rfl | rfl
        · exact ht
        · exact hn
  cases s with
  | gradUp ax => exact key ax _ rfl hx
  | fluxUp ax => exact key ax _ rfl hx
  | _ => simp only [lockset, List.mem_singleton] at hx; subst hx; exact ht

/-- **the locks are taken in strictly increasing subgrid index** -/
theorem lockOrder_sorted (L : Layout) (t : Task) (ht : valid L t.g = true) (hn : (lockset L t).Nodup) :
    (lockOrder L t).Pairwise (fun a b => subIndex L a < subIndex L b) := by
  unfold lockOrder
  split
  · next a b h =>
    have ha := lockset_valid ht a (by rw [h]; simp)
    have hb := lockset_valid ht b (by rw [h]; simp)
    have hab : a ≠ b := by
      rw [h] at hn
      simp only [List.nodup_cons, List.mem_singleton, List.not_mem_nil, not_false_eq_true,
        List.nodup_nil, and_true] at hn
      exact hn
    split_ifs with hlt
    · simp [hlt]
    · have hne : subIndex L a ≠ subIndex L b := fun e => hab (subIndex_inj ha hb e)
      have : subIndex L b < subIndex L a := by omega
      simp [this]
  · next hl =>
    -- lock sets have one or two members
    obtain ⟨g, s⟩ := t
    have hlen : (lockset L ⟨g, s⟩).length ≤ 2 := by
      cases s <;> simp only [lockset] <;> (try split) <;> (try split_ifs) <;> simp
    match hls : lockset L ⟨g, s⟩ with
    | [] => simp
    | [a] => simp
    | [a, b] => exact absurd hls (hl a b)
    | a :: b :: c :: r => rw [hls] at hlen; simp at hlen

end CMacVerif.HydroGraph
