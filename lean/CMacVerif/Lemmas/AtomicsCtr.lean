import CMacVerif.Lemmas.Atomics
/-!
C08 lemmas, part 4: atomic counters (`AtomicValue` increments/decrements/adds and the
`LockFree::add` compare-exchange loop).  Invariant: value + Σ_threads (net effect of the calls
the thread still has to make, including the one in progress) is constant.
-/
namespace CMacVerif.Atomics

def indI (p : Prop) [Decidable p] : Int := if p then 1 else 0

/-- net effect of a call on counter `c` -/
def cmdNet (c : Nat) : Cmd → Int
  | .inc c' => indI (c = c')
  | .dec c' => - indI (c = c')
  | .postInc c' => indI (c = c')
  | .preAdd c' v => indI (c = c') * v
  | .postAdd c' v => indI (c = c') * v
  | .preSub c' v => - (indI (c = c') * v)
  | .lfAdd c' v => indI (c = c') * v
  | _ => 0

/-- net effect still to come from the call in progress -/
def pcNet (c : Nat) : PC → Int
  | .cInc c' => indI (c = c')
  | .cDec c' => - indI (c = c')
  | .cPostInc c' => indI (c = c')
  | .cPreAdd c' v => indI (c = c') * v
  | .cPostAdd c' v => indI (c = c') * v
  | .cPreSub c' v => - (indI (c = c') * v)
  | .lfLoad c' v => indI (c = c') * v
  | .lfCas c' v _ => indI (c = c') * v
  | _ => 0

def progNet (c : Nat) (prog : List Cmd) : Int := (prog.map (cmdNet c)).sum

def net (c : Nat) (th : Thread) : Int := pcNet c th.pc + progNet c th.prog

theorem net_dispatch (cfg : Cfg) (c : Nat) (th : Thread) (c0 : Cmd) :
    pcNet c (dispatch cfg th c0).pc = cmdNet c c0 ∧ (dispatch cfg th c0).prog = th.prog := by
  cases c0 <;> simp only [dispatch, ret] <;> (repeat' split) <;> simp [pcNet, cmdNet]

theorem exec_net (cfg : Cfg) (m : Mem) (th : Thread) (c : Nat) :
    (exec cfg m th).1.ctr c + net c (exec cfg m th).2 = m.ctr c + net c th := by
  unfold exec
  cases hpc : th.pc
  case idle =>
    simp only
    split
    · simp
    · rename_i c0 rest hp
      have := net_dispatch cfg c { th with pc := .idle, prog := rest } c0
      obtain ⟨h1, h2⟩ := this
      have h0 : pcNet c PC.idle = 0 := rfl
      simp only [net, hp, progNet, List.map_cons, List.sum_cons, h1, h2]
      rw [hpc, h0]
      omega
  case getTotal j r => cases r <;> simp [net, getDone, ret, pcNet, hpc]
  case tlStart c t => cases c <;> simp only <;> (repeat' split) <;> simp [net, hpc, ret, tlSucc, tlFail, pcNet]
  case tl0 c t => cases c <;> simp only <;> (repeat' split) <;> simp [net, hpc, ret, tlSucc, tlFail, pcNet]
  case tl1 c t => cases c <;> simp only <;> (repeat' split) <;> simp [net, hpc, ret, tlSucc, tlFail, pcNet]
  case tlBack c t => cases c <;> simp only <;> (repeat' split) <;> simp [net, hpc, ret, tlSucc, tlFail, pcNet]
  all_goals
    first
    | (simp only; done)
    | (simp only; (repeat' split) <;> simp [net, hpc, ret, pcNet, upd_apply, indI] <;> (try split) <;> (try simp_all) <;> (try omega))

/-- value + outstanding net effect -/
def ctrTotal (c : Nat) (s : State) : Int := s.mem.ctr c + sumTI (net c) s.threads

theorem ctrTotal_step (cfg : Cfg) (c : Nat) (s : State) (tid : Nat) :
    ctrTotal c (step cfg s tid) = ctrTotal c s := by
  cases hth : s.threads[tid]? with
  | none => rw [step_none cfg s tid hth]
  | some th =>
    rw [step_some cfg s tid th hth]
    have hfr := sumTI_set (net c) s.threads tid th (exec cfg s.mem th).2 hth
    have hloc := exec_net cfg s.mem th c
    simp only [ctrTotal]
    omega

theorem ctrTotal_run (cfg : Cfg) (c : Nat) (s : State) (sched : List Nat) :
    ctrTotal c (run cfg s sched) = ctrTotal c s :=
  run_inv cfg (fun s' => ctrTotal c s' = ctrTotal c s) (fun s' tid h => by rw [ctrTotal_step]; exact h) s sched rfl

end CMacVerif.Atomics
