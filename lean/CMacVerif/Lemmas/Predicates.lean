import CMacVerif.Model.Predicates
import Mathlib.Tactic.Ring
import Mathlib.Tactic.Linarith
import Mathlib.Tactic.NormNum
import Mathlib.Algebra.Order.AbsoluteValue.Basic
import Mathlib.Algebra.Order.Ring.Abs

/-!
Helper lemmas for C17, exact part: the fixed-width (`FW w`) instantiation of the exact routines
computes the same integers as the `Int` instantiation as soon as `w ≥ 162` (orientation) resp.
`w ≥ 272` (in-sphere), for all mantissas of at most 53 bits.  `Fits x v B` tracks, operation by
operation, that the fixed-width number `x` holds the integer `v` and that `|v| ≤ B`; every
`Fits.add/sub/mul` step has the side condition that the bound still fits in `w` bits.
-/
set_option exponentiation.threshold 1200
namespace CMacVerif.Predicates

theorem wrapSM_eq {w : Nat} {x : Int} (h : |x| < 2 ^ w) : wrapSM w x = x := by
  unfold wrapSM
  have h2 := abs_lt.mp h
  split_ifs with hx
  · rw [Int.emod_eq_of_lt (by linarith) (by linarith)]; ring
  · exact Int.emod_eq_of_lt (by linarith) (by linarith)

namespace FW
variable {w : Nat}
@[simp] theorem add_v (a b : FW w) : (a + b).v = wrapSM w (a.v + b.v) := rfl
@[simp] theorem sub_v (a b : FW w) : (a - b).v = wrapSM w (a.v - b.v) := rfl
@[simp] theorem mul_v (a b : FW w) : (a * b).v = wrapSM w (a.v * b.v) := rfl
end FW

/-- the fixed-width number `x` holds the integer `v`, and `|v| ≤ B` -/
structure Fits {w : Nat} (x : FW w) (v B : Int) : Prop where
  eq : x.v = v
  le : |v| ≤ B

/-- a coordinate mantissa of at most 53 bits -/
def M53 (m : Int) : Prop := 0 ≤ m ∧ m < 2 ^ 53
def Mant53 (p : V3 Int) : Prop := M53 p.x ∧ M53 p.y ∧ M53 p.z

theorem pow_lt_of_le {w k : Nat} {B : Int} (h : B < 2 ^ k) (hw : k ≤ w) : B < 2 ^ w :=
  lt_of_lt_of_le h (pow_le_pow_right₀ (by norm_num) hw)

namespace Fits
variable {w : Nat} {x y : FW w} {vx vy Bx By : Int}

theorem add (hx : Fits x vx Bx) (hy : Fits y vy By) (h : Bx + By < 2 ^ w) :
    Fits (x + y) (vx + vy) (Bx + By) := by
  have hb : |vx + vy| ≤ Bx + By := (abs_add_le _ _).trans (add_le_add hx.le hy.le)
  exact ⟨by rw [FW.add_v, hx.eq, hy.eq]; exact wrapSM_eq (lt_of_le_of_lt hb h), hb⟩

theorem sub (hx : Fits x vx Bx) (hy : Fits y vy By) (h : Bx + By < 2 ^ w) :
    Fits (x - y) (vx - vy) (Bx + By) := by
  have hb : |vx - vy| ≤ Bx + By := (abs_sub _ _).trans (add_le_add hx.le hy.le)
  exact ⟨by rw [FW.sub_v, hx.eq, hy.eq]; exact wrapSM_eq (lt_of_le_of_lt hb h), hb⟩

theorem mul (hx : Fits x vx Bx) (hy : Fits y vy By) (h : Bx * By < 2 ^ w) :
    Fits (x * y) (vx * vy) (Bx * By) := by
  have hb : |vx * vy| ≤ Bx * By := by
    rw [abs_mul]; exact mul_le_mul hx.le hy.le (abs_nonneg _) ((abs_nonneg _).trans hx.le)
  exact ⟨by rw [FW.mul_v, hx.eq, hy.eq]; exact wrapSM_eq (lt_of_le_of_lt hb h), hb⟩

theorem mono {B' : Int} (hx : Fits x vx Bx) (h : Bx ≤ B') : Fits x vx B' := ⟨hx.eq, hx.le.trans h⟩

/-- difference of two mantissas: at most 53 bits again (both are non-negative) -/
theorem diff (hw : 53 ≤ w) (hx : M53 vx) (hy : M53 vy) :
    Fits (FW.ofInt w vx - FW.ofInt w vy) (vx - vy) (2 ^ 53) := by
  have h53 : (2 : Int) ^ 53 ≤ 2 ^ w := pow_le_pow_right₀ (by norm_num) hw
  obtain ⟨hx0, hx1⟩ := hx
  obtain ⟨hy0, hy1⟩ := hy
  have ex : wrapSM w vx = vx := wrapSM_eq (by rw [abs_of_nonneg hx0]; linarith)
  have ey : wrapSM w vy = vy := wrapSM_eq (by rw [abs_of_nonneg hy0]; linarith)
  have hb : |vx - vy| ≤ 2 ^ 53 := abs_le.mpr ⟨by linarith, by linarith⟩
  have hb' : |vx - vy| < 2 ^ 53 := abs_lt.mpr ⟨by linarith, by linarith⟩
  exact ⟨by simp only [FW.sub_v, FW.ofInt, ex, ey]; exact wrapSM_eq (by linarith), hb⟩
end Fits

theorem orient_fits_aux {w : Nat} (hw : 162 ≤ w) {a b c d : V3 Int}
    (ha : Mant53 a) (hb : Mant53 b) (hc : Mant53 c) (hd : Mant53 d) :
    Fits (orientExactVal (toFW w a) (toFW w b) (toFW w c) (toFW w d))
      (orientExactVal a b c d) (3 * 2 ^ 160) := by
  have h53 : 53 ≤ w := by omega
  have adx := Fits.diff h53 ha.1 hd.1
  have ady := Fits.diff h53 ha.2.1 hd.2.1
  have adz := Fits.diff h53 ha.2.2 hd.2.2
  have bdx := Fits.diff h53 hb.1 hd.1
  have bdy := Fits.diff h53 hb.2.1 hd.2.1
  have bdz := Fits.diff h53 hb.2.2 hd.2.2
  have cdx := Fits.diff h53 hc.1 hd.1
  have cdy := Fits.diff h53 hc.2.1 hd.2.1
  have cdz := Fits.diff h53 hc.2.2 hd.2.2
  have l106 : ((2:Int) ^ 53 * 2 ^ 53) < 2 ^ w := pow_lt_of_le (k := 162) (by norm_num) hw
  have l107 : ((2:Int) ^ 53 * 2 ^ 53 + 2 ^ 53 * 2 ^ 53) < 2 ^ w := pow_lt_of_le (k := 162) (by norm_num) hw
  have l160 : ((2:Int) ^ 53 * (2 ^ 53 * 2 ^ 53 + 2 ^ 53 * 2 ^ 53)) < 2 ^ w := pow_lt_of_le (k := 162) (by norm_num) hw
  have m1 := Fits.mul adz (Fits.sub (Fits.mul bdx cdy l106) (Fits.mul cdx bdy l106) l107) l160
  have m2 := Fits.mul bdz (Fits.sub (Fits.mul cdx ady l106) (Fits.mul adx cdy l106) l107) l160
  have m3 := Fits.mul cdz (Fits.sub (Fits.mul adx bdy l106) (Fits.mul bdx ady l106) l107) l160
  have r := Fits.add (Fits.add m1 m2 (pow_lt_of_le (k := 162) (by norm_num) hw)) m3
    (pow_lt_of_le (k := 162) (by norm_num) hw)
  exact r.mono (by norm_num)

/-- all three components are 53-bit differences held exactly -/
def VFits {w : Nat} (P : V3 (FW w)) (p : V3 Int) : Prop :=
  Fits P.x p.x (2 ^ 53) ∧ Fits P.y p.y (2 ^ 53) ∧ Fits P.z p.z (2 ^ 53)

theorem vfits_vsub {w : Nat} (hw : 53 ≤ w) {a e : V3 Int} (ha : Mant53 a) (he : Mant53 e) :
    VFits (vsub (toFW w a) (toFW w e)) (vsub a e) :=
  ⟨Fits.diff hw ha.1 he.1, Fits.diff hw ha.2.1 he.2.1, Fits.diff hw ha.2.2 he.2.2⟩

theorem fits_minor2 {w : Nat} (hw : 108 ≤ w) {P Q : V3 (FW w)} {p q : V3 Int}
    (hp : VFits P p) (hq : VFits Q q) : Fits (minor2 P Q) (minor2 p q) (2 ^ 107) := by
  have l106 : ((2:Int) ^ 53 * 2 ^ 53) < 2 ^ w := pow_lt_of_le (k := 108) (by norm_num) hw
  have r := Fits.sub (Fits.mul hp.1 hq.2.1 l106) (Fits.mul hq.1 hp.2.1 l106)
    (pow_lt_of_le (k := 108) (by norm_num) hw)
  exact r.mono (by norm_num)

theorem fits_nrm2 {w : Nat} (hw : 108 ≤ w) {P : V3 (FW w)} {p : V3 Int}
    (hp : VFits P p) : Fits (nrm2 P) (nrm2 p) (3 * 2 ^ 106) := by
  have l106 : ((2:Int) ^ 53 * 2 ^ 53) < 2 ^ w := pow_lt_of_le (k := 108) (by norm_num) hw
  have r := Fits.add (Fits.add (Fits.mul hp.1 hp.1 l106) (Fits.mul hp.2.1 hp.2.1 l106)
    (pow_lt_of_le (k := 108) (by norm_num) hw)) (Fits.mul hp.2.2 hp.2.2 l106)
    (pow_lt_of_le (k := 108) (by norm_num) hw)
  exact r.mono (by norm_num)

/-- the four 3x3 minors and four squared norms fit in 162 resp. 108 bits -/
structure PartsFit {w : Nat} (P : InsphereParts (FW w)) (p : InsphereParts Int) : Prop where
  abc : Fits P.abc p.abc (3 * 2 ^ 160)
  bcd : Fits P.bcd p.bcd (3 * 2 ^ 160)
  cda : Fits P.cda p.cda (3 * 2 ^ 160)
  dab : Fits P.dab p.dab (3 * 2 ^ 160)
  aen : Fits P.aenrm2 p.aenrm2 (3 * 2 ^ 106)
  ben : Fits P.benrm2 p.benrm2 (3 * 2 ^ 106)
  cen : Fits P.cenrm2 p.cenrm2 (3 * 2 ^ 106)
  den : Fits P.denrm2 p.denrm2 (3 * 2 ^ 106)

theorem fits_parts {w : Nat} (hw : 162 ≤ w) {A B C D : V3 (FW w)} {a b c d : V3 Int}
    (ha : VFits A a) (hb : VFits B b) (hc : VFits C c) (hd : VFits D d) :
    PartsFit (insphereParts A B C D) (insphereParts a b c d) := by
  have h108 : 108 ≤ w := by omega
  have ab := fits_minor2 h108 ha hb
  have bc := fits_minor2 h108 hb hc
  have cd := fits_minor2 h108 hc hd
  have da := fits_minor2 h108 hd ha
  have ac := fits_minor2 h108 ha hc
  have bd := fits_minor2 h108 hb hd
  have l160 : ((2:Int) ^ 53 * 2 ^ 107) < 2 ^ w := pow_lt_of_le (k := 162) (by norm_num) hw
  have l161 : ((2:Int) ^ 53 * 2 ^ 107 + 2 ^ 53 * 2 ^ 107) < 2 ^ w :=
    pow_lt_of_le (k := 162) (by norm_num) hw
  have l162 : ((2:Int) ^ 53 * 2 ^ 107 + 2 ^ 53 * 2 ^ 107 + 2 ^ 53 * 2 ^ 107) < 2 ^ w :=
    pow_lt_of_le (k := 162) (by norm_num) hw
  refine ⟨?_, ?_, ?_, ?_, fits_nrm2 h108 ha, fits_nrm2 h108 hb, fits_nrm2 h108 hc,
    fits_nrm2 h108 hd⟩
  · exact (Fits.add (Fits.sub (Fits.mul ha.2.2 bc l160) (Fits.mul hb.2.2 ac l160) l161)
      (Fits.mul hc.2.2 ab l160) l162).mono (by norm_num)
  · exact (Fits.add (Fits.sub (Fits.mul hb.2.2 cd l160) (Fits.mul hc.2.2 bd l160) l161)
      (Fits.mul hd.2.2 bc l160) l162).mono (by norm_num)
  · exact (Fits.add (Fits.add (Fits.mul hc.2.2 da l160) (Fits.mul hd.2.2 ac l160) l161)
      (Fits.mul ha.2.2 cd l160) l162).mono (by norm_num)
  · exact (Fits.add (Fits.add (Fits.mul hd.2.2 ab l160) (Fits.mul ha.2.2 bd l160) l161)
      (Fits.mul hb.2.2 da l160) l162).mono (by norm_num)

theorem fits_combine {w : Nat} (hw : 272 ≤ w) {P : InsphereParts (FW w)}
    {p : InsphereParts Int} (h : PartsFit P p) :
    Fits (insphereCombine P) (insphereCombine p) (36 * 2 ^ 266) := by
  have l1 : ((3:Int) * 2 ^ 106 * (3 * 2 ^ 160)) < 2 ^ w := pow_lt_of_le (k := 272) (by norm_num) hw
  have r := Fits.sub (Fits.add (Fits.sub (Fits.mul h.den h.abc l1) (Fits.mul h.cen h.dab l1)
    (pow_lt_of_le (k := 272) (by norm_num) hw)) (Fits.mul h.ben h.cda l1)
    (pow_lt_of_le (k := 272) (by norm_num) hw)) (Fits.mul h.aen h.bcd l1)
    (pow_lt_of_le (k := 272) (by norm_num) hw)
  exact r.mono (by norm_num)

theorem insphere_fits_aux {w : Nat} (hw : 272 ≤ w) {a b c d e : V3 Int}
    (ha : Mant53 a) (hb : Mant53 b) (hc : Mant53 c) (hd : Mant53 d) (he : Mant53 e) :
    Fits (insphereExactVal (toFW w a) (toFW w b) (toFW w c) (toFW w d) (toFW w e))
      (insphereExactVal a b c d e) (36 * 2 ^ 266) := by
  have h53 : 53 ≤ w := by omega
  exact fits_combine hw (fits_parts (by omega) (vfits_vsub h53 ha he) (vfits_vsub h53 hb he)
    (vfits_vsub h53 hc he) (vfits_vsub h53 hd he))

end CMacVerif.Predicates
