import CMacVerif.Model.RanluxCtx
import Mathlib.Tactic.Linarith
import Mathlib.Data.List.Nodup
/-! Helper lemmas for C13, part 7: stream positions are handed out once. -/
namespace CMacVerif.Ranlux

theorem after_add (s : State) (a b : Nat) : after exact (after exact s a) b = after exact s (a + b) := by
  induction b with
  | zero => rfl
  | succ b ih => rw [after, ih]; rfl

theorem next_snd (s : State) : (next exact s).2 = after exact s 1 := rfl

/-- every pair handed out lies at or after the start position of its thread -/
theorem runOps_lower : ∀ (ops : List Op) (g : Nat → State) (p : Nat → Nat) (q : Nat × Nat),
    q ∈ runOps ops g p → p q.1 ≤ q.2 := by
  intro ops
  induction ops with
  | nil => intro g p q h; simp [runOps] at h
  | cons o rest ih =>
    intro g p q h
    rw [runOps] at h
    rcases List.mem_append.mp h with h | h
    · simp only [List.mem_map, List.mem_range] at h
      obtain ⟨i, _, rfl⟩ := h
      dsimp only; omega
    · have := ih _ _ q h
      unfold upd at this
      split at this <;> rename_i e
      · rw [e]; omega
      · exact this

theorem runOps_nodup : ∀ (ops : List Op) (g : Nat → State) (p : Nat → Nat),
    (runOps ops g p).Nodup := by
  intro ops
  induction ops with
  | nil => intro g p; simp [runOps]
  | cons o rest ih =>
    intro g p
    rw [runOps]
    refine List.nodup_append.mpr ⟨?_, ih _ _, ?_⟩
    · apply List.Nodup.map _ List.nodup_range
      intro a b h
      simp only [Prod.mk.injEq, true_and] at h
      omega
    · intro a ha b hb hab
      subst hab
      simp only [List.mem_map, List.mem_range] at ha
      obtain ⟨i, hi, rfl⟩ := ha
      have := runOps_lower _ _ _ _ hb
      unfold upd at this
      simp at this
      omega

theorem runOps_contiguous : ∀ (ops : List Op) (g : Nat → State) (p : Nat → Nat) (t : Nat),
    ((runOps ops g p).filter (fun q => q.1 = t)).map Prod.snd = List.range' (p t) (usedBy t ops g) := by
  intro ops
  induction ops with
  | nil => intro g p t; simp [runOps, usedBy]
  | cons o rest ih =>
    intro g p t
    rw [runOps, usedBy, List.filter_append, List.map_append, ih]
    by_cases e : o.thread = t
    · subst e
      have h1 : ((List.range (o.draws (g o.thread))).map (fun i => (o.thread, p o.thread + i))).filter
          (fun q => q.1 = o.thread) = (List.range (o.draws (g o.thread))).map (fun i => (o.thread, p o.thread + i)) := by
        apply List.filter_eq_self.mpr
        intro a ha
        simp only [List.mem_map] at ha
        obtain ⟨i, _, rfl⟩ := ha
        simp
      rw [h1, List.map_map]
      have h2 : (List.range (o.draws (g o.thread))).map (Prod.snd ∘ fun i => (o.thread, p o.thread + i))
          = List.range' (p o.thread) (o.draws (g o.thread)) := by
        rw [List.range'_eq_map_range]; rfl
      rw [h2]
      simp only [upd, if_true]
      simp
    · have h1 : ((List.range (o.draws (g o.thread))).map (fun i => (o.thread, p o.thread + i))).filter
          (fun q => q.1 = t) = [] := by
        apply List.filter_eq_nil_iff.mpr
        intro a ha
        simp only [List.mem_map] at ha
        obtain ⟨i, _, rfl⟩ := ha
        simp [e]
      rw [h1]
      simp [upd, e, Ne.symm e]

/-- the source task leaves the generator exactly `(3 + extra) * n` draws further -/
theorem sourceLoop_state (extra : Nat) : ∀ (n : Nat) (s : State),
    (sourceLoop extra n s).2 = after exact s ((3 + extra) * n)
    ∧ (sourceLoop extra n s).1.length = n := by
  intro n
  induction n with
  | zero => intro s; exact ⟨rfl, rfl⟩
  | succ n ih =>
    intro s
    rw [sourceLoop]
    dsimp only
    rw [next_snd]
    obtain ⟨h1, h2⟩ := ih (after exact (after exact (after exact s 2) 1) extra)
    generalize sourceLoop extra n (after exact (after exact (after exact s 2) 1) extra) = r at h1 h2
    rw [h1, after_add, after_add, after_add, List.length_cons, h2]
    refine ⟨?_, rfl⟩
    congr 1; rw [Nat.mul_succ]; omega

/-- the re-emission task leaves the generator exactly as many draws further as it reports:
one per packet plus three per re-emitted packet -/
theorem reemitLoop_state (thr : Int) : ∀ (m : Nat) (s : State),
    (reemitLoop thr m s).2.2 = after exact s (reemitLoop thr m s).1
    ∧ (reemitLoop thr m s).1 = m + 3 * (reemitLoop thr m s).2.1.length := by
  intro m
  induction m with
  | zero => intro s; exact ⟨rfl, rfl⟩
  | succ m ih =>
    intro s
    rw [reemitLoop]
    dsimp only
    split
    · dsimp only
      rw [next_snd, next_snd]
      obtain ⟨h1, h2⟩ := ih (after exact (after exact (after exact s 1) 2) 1)
      generalize reemitLoop thr m (after exact (after exact (after exact s 1) 2) 1) = r at h1 h2
      obtain ⟨c, l, s'⟩ := r
      dsimp only at h1 h2 ⊢
      rw [h1, after_add, after_add, after_add, List.length_cons, h2]
      exact ⟨by congr 1; omega, by omega⟩
    · dsimp only
      rw [next_snd]
      obtain ⟨h1, h2⟩ := ih (after exact s 1)
      generalize reemitLoop thr m (after exact s 1) = r at h1 h2
      obtain ⟨c, l, s'⟩ := r
      dsimp only at h1 h2 ⊢
      rw [h1, after_add, h2]
      exact ⟨by congr 1; omega, by omega⟩

end CMacVerif.Ranlux
