import CMacVerif.Model.TimeLine
/-! helper lemmas for C19 (core Lean only) -/
namespace CMacVerif.TimeLine

def IsPow2 (n : Nat) : Prop := ∃ k, n = 2 ^ k

theorem isPow2_pos {n : Nat} (h : IsPow2 n) : 0 < n := by
  obtain ⟨k, rfl⟩ := h; exact Nat.pow_pos (by decide)

theorem isPow2_half {n : Nat} (h : IsPow2 n) : n / 2 = 0 ∨ IsPow2 (n / 2) := by
  obtain ⟨k, rfl⟩ := h
  cases k with
  | zero => left; decide
  | succ k => right; exact ⟨k, by rw [Nat.pow_succ]; omega⟩

theorem isPow2_le_dvd {a b : Nat} (ha : IsPow2 a) (hb : IsPow2 b) (h : a ≤ b) : a ∣ b := by
  obtain ⟨i, rfl⟩ := ha; obtain ⟨j, rfl⟩ := hb
  have : i ≤ j := (Nat.pow_le_pow_iff_right (by decide)).mp h
  exact Nat.pow_dvd_pow 2 this

/-- result of `roundDown` from a power of two (or 0): 0 or a power of two, never larger, and
the loop condition is false at the result. -/
theorem roundDown_spec (gt : Nat → Bool) (ts : Nat) (h : ts = 0 ∨ IsPow2 ts) :
    (roundDown gt ts = 0 ∨ (IsPow2 (roundDown gt ts) ∧ gt (roundDown gt ts) = false))
    ∧ roundDown gt ts ≤ ts := by
  induction ts using Nat.strongRecOn with
  | _ ts ih =>
    unfold roundDown
    by_cases h0 : ts = 0
    · simp [h0]
    · simp only [h0, ↓reduceDIte]
      by_cases hg : gt ts = true
      · simp only [hg, ↓reduceIte]
        have hp : IsPow2 ts := by cases h with | inl h => exact absurd h h0 | inr h => exact h
        have hh := isPow2_half hp
        have := ih (ts / 2) (by omega) hh
        exact ⟨this.1, by omega⟩
      · have hg' : gt ts = false := by simpa using hg
        simp only [hg', Bool.false_eq_true, ↓reduceIte]
        cases h with
        | inl h => exact absurd h h0
        | inr h => exact ⟨Or.inr ⟨h, trivial⟩, Nat.le_refl _⟩

/-- every value the loop looked at and rejected was too large: maximality of the result -/
theorem roundDown_maximal (gt : Nat → Bool) (ts : Nat) :
    ∀ k, roundDown gt ts < ts / 2 ^ k → ts / 2 ^ k ≠ 0 → gt (ts / 2 ^ k) = true := by
  induction ts using Nat.strongRecOn with
  | _ ts ih =>
    intro k hk hne
    unfold roundDown at hk
    by_cases h0 : ts = 0
    · simp [h0] at hne
    · simp only [h0, ↓reduceDIte] at hk
      by_cases hg : gt ts = true
      · simp only [hg, ↓reduceIte] at hk
        cases k with
        | zero => simpa using hg
        | succ k =>
          have e : ts / 2 ^ (k + 1) = ts / 2 / 2 ^ k := by
            rw [Nat.pow_succ, Nat.mul_comm, Nat.div_div_eq_div_mul]
          rw [e] at hk hne ⊢
          exact ih (ts / 2) (by omega) k hk hne
      · have hg' : gt ts = false := by simpa using hg
        simp only [hg', Bool.false_eq_true, ↓reduceIte] at hk
        have : ts / 2 ^ k ≤ ts := Nat.div_le_self _ _
        omega

theorem roundDown_is_halving (gt : Nat → Bool) (ts : Nat) : ∃ j, roundDown gt ts = ts / 2 ^ j := by
  induction ts using Nat.strongRecOn with
  | _ ts ih =>
    unfold roundDown
    by_cases h0 : ts = 0
    · exact ⟨0, by simp [h0]⟩
    · simp only [h0, ↓reduceDIte]
      by_cases hg : gt ts = true
      · simp only [hg, ↓reduceIte]
        obtain ⟨j, hj⟩ := ih (ts / 2) (by omega)
        refine ⟨j + 1, ?_⟩
        rw [hj, Nat.pow_succ, Nat.mul_comm, Nat.div_div_eq_div_mul]
      · have hg' : gt ts = false := by simpa using hg
        simp only [hg', Bool.false_eq_true, ↓reduceIte]
        exact ⟨0, by simp⟩

theorem div_pow_lt {n k j : Nat} (hkj : k < j) (hpos : 0 < n / 2 ^ k) : n / 2 ^ j < n / 2 ^ k := by
  have e : n / 2 ^ j = n / 2 ^ k / 2 ^ (j - k) := by
    rw [Nat.div_div_eq_div_mul, ← Nat.pow_add]; congr 2; omega
  rw [e]
  apply Nat.div_lt_self hpos
  have : 2 ^ 1 ≤ 2 ^ (j - k) := Nat.pow_le_pow_right (by decide) (by omega)
  omega

theorem fit_spec (left ts : Nat) (h : IsPow2 ts) :
    IsPow2 (fit left ts) ∧ fit left ts ∣ left ∧ fit left ts ≤ ts := by
  induction ts using Nat.strongRecOn with
  | _ ts ih =>
    unfold fit
    by_cases h1 : ts ≤ 1
    · simp only [h1, ↓reduceDIte]
      have := isPow2_pos h
      have : ts = 1 := by omega
      subst this
      exact ⟨h, Nat.one_dvd _, Nat.le_refl _⟩
    · simp only [h1, ↓reduceDIte]
      by_cases hm : left % ts > 0
      · simp only [hm, ↓reduceIte]
        have hh := isPow2_half h
        have hp : IsPow2 (ts / 2) := by
          cases hh with
          | inl h0 => omega
          | inr hp => exact hp
        have := ih (ts / 2) (by omega) hp
        exact ⟨this.1, this.2.1, by omega⟩
      · simp only [hm, ↓reduceIte]
        exact ⟨h, Nat.dvd_of_mod_eq_zero (by omega), Nat.le_refl _⟩

/-- `fit` returns the *largest* admissible halving: anything it skipped did not divide. -/
theorem fit_maximal (left ts : Nat) :
    ∀ k, fit left ts < ts / 2 ^ k → ¬ (ts / 2 ^ k ∣ left) := by
  induction ts using Nat.strongRecOn with
  | _ ts ih =>
    intro k hk
    unfold fit at hk
    by_cases h1 : ts ≤ 1
    · simp only [h1, ↓reduceDIte] at hk
      have : ts / 2 ^ k ≤ ts := Nat.div_le_self _ _
      omega
    · simp only [h1, ↓reduceDIte] at hk
      by_cases hm : left % ts > 0
      · simp only [hm, ↓reduceIte] at hk
        cases k with
        | zero =>
          simp only [Nat.pow_zero, Nat.div_one]
          intro hd
          have := Nat.mod_eq_zero_of_dvd hd
          omega
        | succ k =>
          have e : ts / 2 ^ (k + 1) = ts / 2 / 2 ^ k := by
            rw [Nat.pow_succ, Nat.mul_comm, Nat.div_div_eq_div_mul]
          rw [e] at hk ⊢
          exact ih (ts / 2) (by omega) k hk
      · simp only [hm, ↓reduceIte] at hk
        have : ts / 2 ^ k ≤ ts := Nat.div_le_self _ _
        omega

end CMacVerif.TimeLine
