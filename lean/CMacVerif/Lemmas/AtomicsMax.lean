import CMacVerif.Lemmas.Atomics
/-!
C08 lemmas, part 9: `AtomicValue::max` at the granularity of its individual atomic operations
(load; compare-exchange; on failure reload and recompute).  The cells `Mem.mx` are only written
by `max`; `Mem.maxTaken` (ThreadSafeVector's `_max_number_taken`) likewise.

* monotone: no transition of any thread decreases a cell;
* upper bound: the cell never exceeds a bound of the initial value and of all arguments;
* lower bound: every argument `v` is either still pending (its call has not completed) or `≤` cell.
-/
namespace CMacVerif.Atomics

def cmdMaxVal (c : Nat) : Cmd → List Int
  | .maxC c' v => if c' = c then [v] else []
  | _ => []

def pcMaxVal (c : Nat) : PC → List Int
  | .cMax c' v => if c' = c then [v] else []
  | .cMaxCas c' v _ => if c' = c then [v] else []
  | _ => []

/-- arguments of the `max` calls on cell `c` the thread has not completed yet -/
def pendVals (c : Nat) (th : Thread) : List Int := pcMaxVal c th.pc ++ th.prog.flatMap (cmdMaxVal c)

/-- all arguments of all `max` calls on cell `c` in the programs -/
def allVals (c : Nat) (progs : List (List Cmd)) : List Int := progs.flatMap (·.flatMap (cmdMaxVal c))

/-- maximum of 0 (the initial value) and a list -/
def lmax : List Int → Int
  | [] => 0
  | v :: l => if v < lmax l then lmax l else v

theorem le_lmax (l : List Int) (v : Int) (h : v ∈ l) : v ≤ lmax l := by
  induction l with
  | nil => cases h
  | cons a l ih =>
    simp only [lmax]
    rcases List.mem_cons.mp h with rfl | h
    · split <;> omega
    · have := ih h; split <;> omega

theorem lmax_nonneg (l : List Int) : 0 ≤ lmax l := by
  induction l with
  | nil => simp [lmax]
  | cons a l ih => simp only [lmax]; split <;> omega

theorem lmax_le (l : List Int) (x : Int) (h0 : 0 ≤ x) (h : ∀ v ∈ l, v ≤ x) : lmax l ≤ x := by
  induction l with
  | nil => simpa [lmax] using h0
  | cons a l ih =>
    have := ih (fun v hv => h v (by simp [hv]))
    have := h a (by simp)
    simp only [lmax]; split <;> omega

/-- **monotone**, one transition: no cell updated through `max` ever decreases -/
theorem exec_mx_mono (cfg : Cfg) (m : Mem) (th : Thread) (c : Nat) :
    m.mx c ≤ (exec cfg m th).1.mx c ∧ m.maxTaken ≤ (exec cfg m th).1.maxTaken := by
  unfold exec
  cases hpc : th.pc
  case cMaxCas c' v old =>
    simp only
    split
    · rename_i h
      simp only [upd_apply]
      refine ⟨?_, Int.le_refl _⟩
      split
      · rename_i hc; subst hc; split <;> omega
      · exact Int.le_refl _
    · exact ⟨Int.le_refl _, Int.le_refl _⟩
  case getMaxCas i n old r =>
    simp only
    split
    · rename_i h; refine ⟨Int.le_refl _, ?_⟩; simp only; split <;> omega
    · exact ⟨Int.le_refl _, Int.le_refl _⟩
  all_goals
    first
    | (simp only; exact ⟨Int.le_refl _, Int.le_refl _⟩)
    | (simp only; (repeat' split) <;> exact ⟨Int.le_refl _, Int.le_refl _⟩)

theorem step_mx_mono (cfg : Cfg) (s : State) (tid c : Nat) :
    s.mem.mx c ≤ (step cfg s tid).mem.mx c ∧ s.mem.maxTaken ≤ (step cfg s tid).mem.maxTaken := by
  cases hth : s.threads[tid]? with
  | none => rw [step_none cfg s tid hth]; exact ⟨Int.le_refl _, Int.le_refl _⟩
  | some th => rw [step_some cfg s tid th hth]; exact exec_mx_mono cfg s.mem th c

theorem run_mx_mono (cfg : Cfg) (c : Nat) (sched : List Nat) :
    ∀ s : State, s.mem.mx c ≤ (run cfg s sched).mem.mx c ∧ s.mem.maxTaken ≤ (run cfg s sched).mem.maxTaken := by
  induction sched with
  | nil => intro s; exact ⟨Int.le_refl _, Int.le_refl _⟩
  | cons t l ih =>
    intro s
    have h1 := step_mx_mono cfg s t c
    have h2 := ih (step cfg s t)
    simp only [run_cons]
    exact ⟨Int.le_trans h1.1 h2.1, Int.le_trans h1.2 h2.2⟩

theorem pend_dispatch (cfg : Cfg) (c : Nat) (th : Thread) (c0 : Cmd) (hpc : th.pc = .idle) :
    pendVals c (dispatch cfg th c0) = cmdMaxVal c c0 ++ pendVals c th := by
  cases c0 <;> simp only [dispatch, ret] <;> (repeat' split) <;> simp [pendVals, pcMaxVal, cmdMaxVal, hpc]

/-- one transition: the pending arguments only shrink, and an argument that stops being pending
is `≤` the cell; the cell stays below every bound of itself and the pending arguments -/
theorem exec_pend (cfg : Cfg) (m : Mem) (th : Thread) (c : Nat) :
    (∀ v ∈ pendVals c (exec cfg m th).2, v ∈ pendVals c th) ∧
    (∀ v ∈ pendVals c th, v ∈ pendVals c (exec cfg m th).2 ∨ v ≤ (exec cfg m th).1.mx c) ∧
    (∀ B, m.mx c ≤ B → (∀ v ∈ pendVals c th, v ≤ B) → (exec cfg m th).1.mx c ≤ B) := by
  unfold exec
  cases hpc : th.pc
  case idle =>
    simp only
    split
    · exact ⟨fun v h => h, fun v h => Or.inl h, fun B h _ => h⟩
    · rename_i c0 rest hp
      have := pend_dispatch cfg c { th with pc := .idle, prog := rest } c0 rfl
      rw [this]
      have e : pendVals c th = cmdMaxVal c c0 ++ pendVals c { th with pc := .idle, prog := rest } := by
        simp [pendVals, hpc, hp, pcMaxVal]
      rw [e]
      exact ⟨fun v h => h, fun v h => Or.inl h, fun B h _ => h⟩
  case cMax c' v =>
    simp only [pendVals, pcMaxVal, hpc]
    exact ⟨fun v h => h, fun v h => Or.inl h, fun B h _ => h⟩
  case cMaxCas c' v old =>
    simp only
    split
    · rename_i heq
      simp only [pendVals, pcMaxVal, ret, upd_apply, hpc]
      by_cases hc : c' = c
      · subst hc
        simp only [if_true, List.nil_append, List.cons_append, List.mem_cons]
        refine ⟨fun w h => Or.inr h, fun w h => ?_, fun B hB hp => ?_⟩
        · rcases h with rfl | h
          · right; split <;> omega
          · exact Or.inl h
        · have := hp v (by simp)
          split <;> omega
      · have hc' : ¬ c = c' := fun h => hc h.symm
        simp only [hc, hc', if_false, List.nil_append]
        exact ⟨fun v h => h, fun v h => Or.inl h, fun B h _ => h⟩
    · simp only [pendVals, pcMaxVal, hpc]
      exact ⟨fun v h => h, fun v h => Or.inl h, fun B h _ => h⟩
  case getTotal j r => cases r <;> simp only [getDone, ret, pendVals, pcMaxVal, hpc] <;> exact ⟨fun v h => h, fun v h => Or.inl h, fun B h _ => h⟩
  case addUnlock q t k => cases k <;> simp only [ret, pendVals, pcMaxVal, hpc] <;> exact ⟨fun v h => h, fun v h => Or.inl h, fun B h _ => h⟩
  case numInc q t k => cases k <;> simp only <;> (repeat' split) <;> simp only [ret, pendVals, pcMaxVal, hpc] <;> exact ⟨fun v h => h, fun v h => Or.inl h, fun B h _ => h⟩
  case tlStart c t => cases c <;> simp only <;> (repeat' split) <;> simp only [ret, tlSucc, tlFail, pendVals, pcMaxVal, hpc] <;> exact ⟨fun v h => h, fun v h => Or.inl h, fun B h _ => h⟩
  case tl0 c t => cases c <;> simp only <;> (repeat' split) <;> simp only [ret, tlSucc, tlFail, pendVals, pcMaxVal, hpc] <;> exact ⟨fun v h => h, fun v h => Or.inl h, fun B h _ => h⟩
  case tl1 c t => cases c <;> simp only <;> (repeat' split) <;> simp only [ret, tlSucc, tlFail, pendVals, pcMaxVal, hpc] <;> exact ⟨fun v h => h, fun v h => Or.inl h, fun B h _ => h⟩
  case tlBack c t => cases c <;> simp only <;> (repeat' split) <;> simp only [ret, tlSucc, tlFail, pendVals, pcMaxVal, hpc] <;> exact ⟨fun v h => h, fun v h => Or.inl h, fun B h _ => h⟩
  all_goals
    first
    | (simp only; exact ⟨fun v h => h, fun v h => Or.inl h, fun B h _ => h⟩)
    | (simp only; (repeat' split) <;> simp only [ret, pendVals, pcMaxVal, hpc] <;> exact ⟨fun v h => h, fun v h => Or.inl h, fun B h _ => h⟩)

/-- upper-bound invariant for a bound `B` -/
def MaxUB (c : Nat) (B : Int) (s : State) : Prop :=
  s.mem.mx c ≤ B ∧ ∀ th ∈ s.threads, ∀ v ∈ pendVals c th, v ≤ B

/-- lower-bound invariant for one argument `v` -/
def MaxLB (c : Nat) (v : Int) (s : State) : Prop :=
  (∃ (k : Nat) (th : Thread), s.threads[k]? = some th ∧ v ∈ pendVals c th) ∨ v ≤ s.mem.mx c

theorem mem_set_cases' {α : Type} (l : List α) (i : Nat) (a x : α) (h : x ∈ l.set i a) : x = a ∨ x ∈ l := by
  induction l generalizing i with
  | nil => simp at h
  | cons b l ih =>
    cases i with
    | zero => simp at h; rcases h with h | h <;> simp [h]
    | succ n =>
      simp at h
      rcases h with h | h
      · simp [h]
      · rcases ih n h with h | h <;> simp [h]

theorem maxUB_step (cfg : Cfg) (c : Nat) (B : Int) (s : State) (tid : Nat) (h : MaxUB c B s) :
    MaxUB c B (step cfg s tid) := by
  cases hth : s.threads[tid]? with
  | none => rw [step_none cfg s tid hth]; exact h
  | some th =>
    rw [step_some cfg s tid th hth]
    have hloc := exec_pend cfg s.mem th c
    have hmem : th ∈ s.threads := List.mem_of_getElem? hth
    refine ⟨hloc.2.2 B h.1 (h.2 th hmem), ?_⟩
    intro x hx v hv
    rcases mem_set_cases' _ _ _ _ hx with rfl | hx
    · exact h.2 th hmem v (hloc.1 v hv)
    · exact h.2 x hx v hv

theorem maxLB_step (cfg : Cfg) (c : Nat) (v : Int) (s : State) (tid : Nat) (h : MaxLB c v s) :
    MaxLB c v (step cfg s tid) := by
  cases hth : s.threads[tid]? with
  | none => rw [step_none cfg s tid hth]; exact h
  | some th =>
    have hmono := (step_mx_mono cfg s tid c).1
    rw [step_some cfg s tid th hth] at hmono ⊢
    rcases h with ⟨k, thk, hk, hv⟩ | h
    · by_cases hkt : tid = k
      · subst hkt
        rw [hth] at hk; cases hk
        rcases (exec_pend cfg s.mem th c).2.1 v hv with h' | h'
        · exact Or.inl ⟨tid, _, by simp [getElem?_lt _ _ _ hth], h'⟩
        · exact Or.inr h'
      · exact Or.inl ⟨k, thk, by simp [hkt, hk], hv⟩
    · exact Or.inr (Int.le_trans h hmono)

theorem mem_allVals (c : Nat) (progs : List (List Cmd)) (v : Int) (h : v ∈ allVals c progs) :
    ∃ (k : Nat) (th : Thread), (init progs).threads[k]? = some th ∧ v ∈ pendVals c th := by
  unfold allVals at h
  obtain ⟨p, hp, hv⟩ := List.mem_flatMap.mp h
  obtain ⟨k, hk, hke⟩ := List.mem_iff_getElem.mp hp
  refine ⟨k, { prog := p }, ?_, by simp [pendVals, pcMaxVal, hv]⟩
  simp [init, List.getElem?_map, List.getElem?_eq_getElem hk, hke]

theorem maxUB_init (c : Nat) (progs : List (List Cmd)) : MaxUB c (lmax (allVals c progs)) (init progs) := by
  refine ⟨by simpa [init] using lmax_nonneg _, ?_⟩
  intro th hth v hv
  simp only [init, List.mem_map] at hth
  obtain ⟨p, hp, rfl⟩ := hth
  apply le_lmax
  unfold allVals
  exact List.mem_flatMap.mpr ⟨p, hp, by simpa [pendVals, pcMaxVal] using hv⟩

end CMacVerif.Atomics
