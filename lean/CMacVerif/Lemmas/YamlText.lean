import CMacVerif.Lemmas.Yaml
/-!
Text level of C20: the lexer (`is_comment_line`, `is_empty_line`, `strip_comments_line`,
`read_keyvaluepair`, `strip_whitespace_line`, `is_indented_line`) reads back the tokens the printer
writes, provided names contain no '#' and do not begin or end with a blank (names cut out of a
flat key never contain ':'), and values likewise.
-/
namespace CMacVerif.Yaml

/-- no '#', no blank at either end (may be empty) -/
def Clean (s : Str) : Prop :=
  '#' ∉ s ∧ (∀ c r, s = c :: r → isWs c = false) ∧ (∀ c r, s.reverse = c :: r → isWs c = false)

/-- what the lexer returns for the text printed after `key:` -/
def lexVal (v : Str) : Str :=
  if v.isEmpty then [] else stripWs ((' ' :: v).takeWhile (fun c => c ≠ '#'))

theorem isWs_space : isWs ' ' = true := by decide
theorem isWs_colon : isWs ':' = false := by decide
theorem isWs_hash : isWs '#' = false := by decide

theorem all_ws_replicate (n : Nat) : ∀ c ∈ List.replicate n ' ', isWs c = true := by
  intro c hc
  rw [List.eq_of_mem_replicate hc]; exact isWs_space

theorem dropWhile_all {p : Char → Bool} (l : Str) (h : ∀ c ∈ l, p c = true) : l.dropWhile p = [] := by
  have := List.dropWhile_append_of_pos (l₂ := []) h
  simpa using this

theorem takeWhile_all {p : Char → Bool} (l : Str) (h : ∀ c ∈ l, p c = true) : l.takeWhile p = l := by
  have := List.takeWhile_append_of_pos (l₂ := []) h
  simpa using this

/-- leading/trailing blanks around a clean string are stripped, nothing else -/
theorem stripWs_pad (a u b : Str) (ha : ∀ c ∈ a, isWs c = true) (hb : ∀ c ∈ b, isWs c = true)
    (h1 : ∀ c r, u = c :: r → isWs c = false) (h2 : ∀ c r, u.reverse = c :: r → isWs c = false) :
    stripWs (a ++ u ++ b) = u := by
  unfold stripWs
  cases u with
  | nil =>
    have : ∀ c ∈ a ++ [] ++ b, isWs c = true := by
      intro c hc
      simp only [List.append_nil, List.mem_append] at hc
      rcases hc with h | h
      · exact ha c h
      · exact hb c h
    rw [dropWhile_all _ this]
    rfl
  | cons c r =>
    have hc : isWs c = false := h1 c r rfl
    rw [List.append_assoc, List.dropWhile_append_of_pos ha, List.cons_append,
      List.dropWhile_cons_of_neg (by simp [hc])]
    have hrev : (c :: (r ++ b)).reverse = b.reverse ++ (c :: r).reverse := by simp
    rw [hrev, List.dropWhile_append_of_pos (by
      intro x hx; exact hb x (List.mem_reverse.1 hx))]
    rcases hr : (c :: r).reverse with _ | ⟨d, r'⟩
    · simp at hr
    · have hd : isWs d = false := h2 d r' hr
      rw [List.dropWhile_cons_of_neg (by simp [hd]), ← hr, List.reverse_reverse]

theorem splitColon_append (a t : Str) (ha : ':' ∉ a) : splitColon (a ++ ':' :: t) = some (a, t) := by
  induction a with
  | nil => simp [splitColon]
  | cons c a ih =>
    have hc : c ≠ ':' := fun h => ha (by simp [h])
    have ha' : ':' ∉ a := fun h => ha (by simp [h])
    simp [splitColon, hc, ih ha']

theorem not_mem_replicate_space (n : Nat) (c : Char) (hc : c ≠ ' ') : c ∉ List.replicate n ' ' := by
  intro h; exact hc (List.eq_of_mem_replicate h)

/-- **the lexer on one printed line** -/
theorem lexLine_renderLine (l : Line) (hk : Clean l.key) (hcol : ':' ∉ l.key) :
    lexLine (renderLine l) = .line ⟨l.indent, l.key, lexVal l.value⟩ := by
  obtain ⟨n, key, v⟩ := l
  obtain ⟨hhash, hhead, hlast⟩ := hk
  simp only at hhash hhead hlast hcol
  -- the text after the key
  generalize htail : (if v.isEmpty then [':'] else ':' :: ' ' :: v) = tail
  have hrender : renderLine ⟨n, key, v⟩ = List.replicate n ' ' ++ (key ++ tail) := by
    rw [← htail]; simp only [renderLine, List.append_assoc]
  have htail' : ∃ t, tail = ':' :: t := by
    by_cases hv : v.isEmpty <;> simp [hv] at htail <;> exact ⟨_, htail.symm⟩
  obtain ⟨t, ht⟩ := htail'
  -- first non-blank character
  have hbody : (List.replicate n ' ' ++ (key ++ tail)).dropWhile isWs = key ++ tail := by
    rw [List.dropWhile_append_of_pos (all_ws_replicate n)]
    cases key with
    | nil => rw [ht]; simp [isWs_colon]
    | cons c r => simp [hhead c r rfl]
  have hcomment : isCommentLine (renderLine ⟨n, key, v⟩) = false := by
    rw [hrender, isCommentLine, hbody]
    cases key with
    | nil => rw [ht]; simp
    | cons c r =>
      have : c ≠ '#' := fun h => hhash (by simp [h])
      simp [this]
  have hempty : isEmptyLine (renderLine ⟨n, key, v⟩) = false := by
    rw [hrender, isEmptyLine, hbody, ht]; simp
  -- comment stripping only touches the value
  have hstrip : stripComments (List.replicate n ' ' ++ (key ++ tail)) =
      List.replicate n ' ' ++ key ++ ':' :: t.takeWhile (fun c => c ≠ '#') := by
    unfold stripComments
    rw [List.takeWhile_append_of_pos (by
      intro c hc; rw [List.eq_of_mem_replicate hc]; decide)]
    rw [List.takeWhile_append_of_pos (by
      intro c hc
      have : c ≠ '#' := fun h => hhash (h ▸ hc)
      simp [this])]
    rw [ht, List.takeWhile_cons_of_pos (by decide)]
    simp
  have hnc : ':' ∉ List.replicate n ' ' ++ key := by
    intro h
    rcases List.mem_append.1 h with h | h
    · exact not_mem_replicate_space n ':' (by decide) h
    · exact hcol h
  have hindent : indentOf (List.replicate n ' ' ++ key ++ ':' :: t.takeWhile (fun c => c ≠ '#')) = n := by
    unfold indentOf
    rw [List.append_assoc, List.dropWhile_append_of_pos (all_ws_replicate n),
      List.takeWhile_append_of_pos (all_ws_replicate n)]
    cases key with
    | nil => simp [isWs_colon]
    | cons c r => simp [hhead c r rfl]
  unfold lexLine
  simp only [hcomment, hempty, Bool.not_false, Bool.and_self, if_true]
  rw [hrender, hstrip, splitColon_append _ _ hnc]
  simp only [hindent, Lexed.line.injEq, Line.mk.injEq, true_and]
  refine ⟨?_, ?_⟩
  · have := stripWs_pad (List.replicate n ' ') key [] (all_ws_replicate n) (by simp) hhead hlast
    simpa using this
  · unfold lexVal
    by_cases hv : v.isEmpty
    · simp only [hv, if_true] at htail ⊢
      have : t = [] := by
        rw [ht] at htail; simpa using htail.symm
      subst this
      rfl
    · simp only [hv, Bool.false_eq_true, if_false] at htail ⊢
      have : t = ' ' :: v := by
        rw [ht] at htail; simpa using htail.symm
      subst this
      rfl

/-- tokens read back from a rendered token list -/
def relex (l : Line) : Line := ⟨l.indent, l.key, lexVal l.value⟩

theorem lexAll_render (ls : List Line) (h : ∀ l ∈ ls, Clean l.key ∧ ':' ∉ l.key) :
    lexAll (ls.map renderLine) = some (ls.map relex) := by
  induction ls with
  | nil => rfl
  | cons l ls ih =>
    have hl := h l (by simp)
    simp only [List.map_cons, lexAll, lexLine_renderLine l hl.1 hl.2]
    rw [ih (fun x hx => h x (by simp [hx]))]
    rfl

/-! ### which names the printer writes -/

theorem splitKey_name_no_colon (k : Str) : ':' ∉ (splitKey k).2 := by
  induction k with
  | nil => simp [splitKey]
  | cons c s ih =>
    rw [splitKey_cons]
    by_cases hc : c = ':'
    · simp only [hc, if_true]; exact ih
    · simp only [hc, if_false]
      rcases h : (splitKey s).1 with _ | ⟨g0, gs'⟩
      · simp only [List.mem_cons, not_or]
        exact ⟨fun e => hc e.symm, ih⟩
      · exact ih

theorem mem_headers (ind : Nat) (ks : List Str) (l : Line) (h : l ∈ headers ind ks) :
    l.key ∈ ks ∧ l.value = [] := by
  induction ks generalizing ind with
  | nil => simp [headers] at h
  | cons k ks ih =>
    simp only [headers, List.mem_cons] at h
    rcases h with rfl | h
    · simp
    · have := ih (ind + 2) h
      exact ⟨List.mem_cons_of_mem _ this.1, this.2⟩

/-- every printed line carries a group name or the key name of some entry -/
theorem mem_printAll (d : Dict) (g : List Str) (l : Line) (h : l ∈ printAll g d) :
    ∃ kv ∈ d, l.key ∈ groups kv.1 ∨ l.key = (splitKey kv.1).2 := by
  induction d generalizing g with
  | nil => simp [printAll] at h
  | cons kv d ih =>
    rcases kv with ⟨k, v⟩
    obtain ⟨m, _, _, hpe⟩ := printEntry_spec g k v
    simp only [printAll, hpe, List.mem_append, List.mem_singleton] at h
    rcases h with (h | h) | h
    · refine ⟨(k, v), by simp, Or.inl ?_⟩
      exact List.mem_of_mem_drop (mem_headers _ _ l h).1
    · refine ⟨(k, v), by simp, Or.inr ?_⟩
      rw [h]
    · obtain ⟨kv', hkv', hh⟩ := ih _ h
      exact ⟨kv', List.mem_cons_of_mem _ hkv', hh⟩

theorem map_relex_headers (ind : Nat) (ks : List Str) :
    (headers ind ks).map relex = headers ind ks := by
  induction ks generalizing ind with
  | nil => rfl
  | cons k ks ih => simp [headers, relex, lexVal, ih]

/-- re-lexing the printed tokens = printing the dictionary with re-lexed values -/
theorem map_relex_printAll (d : Dict) (g : List Str) :
    (printAll g d).map relex = printAll g (d.map fun kv => (kv.1, lexVal kv.2)) := by
  induction d generalizing g with
  | nil => rfl
  | cons kv d ih =>
    rcases kv with ⟨k, v⟩
    obtain ⟨m, _, _, hpe⟩ := printEntry_spec g k v
    obtain ⟨m', _, _, hpe'⟩ := printEntry_spec g k (lexVal v)
    -- the new stack does not depend on the value
    have hstack : (printEntry g k v).1 = (printEntry g k (lexVal v)).1 := by
      unfold printEntry
      rcases splitKey k with ⟨kg, name⟩
      simp only
      split <;> simp only [pushHeaders_eq]
    have hlines : (printEntry g k v).2.map relex = (printEntry g k (lexVal v)).2 := by
      rw [hpe, hpe']
      simp [map_relex_headers, relex]
    simp only [List.map_cons, printAll]
    rcases h1 : printEntry g k v with ⟨g1, ls1⟩
    rcases h2 : printEntry g k (lexVal v) with ⟨g2, ls2⟩
    rw [h1, h2] at hstack hlines
    simp only at hstack hlines ⊢
    rw [List.map_append, hlines, ih, hstack]

/-- the names the printer writes are clean when the components of every key are -/
def CleanKeys (d : Dict) : Prop :=
  ∀ kv ∈ d, (∀ g ∈ groups kv.1, Clean g) ∧ Clean (splitKey kv.1).2

theorem lexAll_printAll (d : Dict) (g : List Str) (hk : CleanKeys d) :
    lexAll ((printAll g d).map renderLine) =
      some (printAll g (d.map fun kv => (kv.1, lexVal kv.2))) := by
  rw [lexAll_render, map_relex_printAll]
  intro l hl
  obtain ⟨kv, hkv, h⟩ := mem_printAll d g l hl
  rcases h with h | h
  · exact ⟨(hk kv hkv).1 _ h, splitKey_no_colon kv.1 _ h⟩
  · rw [h]; exact ⟨(hk kv hkv).2, splitKey_name_no_colon kv.1⟩

/-- a clean non-empty value is read back unchanged -/
theorem lexVal_clean (v : Str) (hne : v ≠ []) (hc : Clean v) : lexVal v = v := by
  obtain ⟨hhash, hhead, hlast⟩ := hc
  have hve : v.isEmpty = false := by cases v <;> simp_all
  unfold lexVal
  simp only [hve, Bool.false_eq_true, if_false]
  have htw : (' ' :: v).takeWhile (fun c => c ≠ '#') = ' ' :: v := by
    apply takeWhile_all
    intro c hc
    rcases List.mem_cons.1 hc with rfl | hc
    · decide
    · have : c ≠ '#' := fun h => hhash (h ▸ hc)
      simp [this]
  rw [htw]
  have := stripWs_pad [' '] v [] (by simp [isWs_space]) (by simp) hhead hlast
  simpa using this

/-- in the used-values dump `used # (original)` the comment is dropped and `used` is read -/
theorem lexVal_used (u rest : Str) (hne : u ≠ []) (hc : Clean u) :
    lexVal (u ++ ' ' :: '#' :: rest) = u := by
  obtain ⟨hhash, hhead, hlast⟩ := hc
  have hve : (u ++ ' ' :: '#' :: rest).isEmpty = false := by cases u <;> simp_all
  unfold lexVal
  simp only [hve, Bool.false_eq_true, if_false]
  have htw : (' ' :: (u ++ ' ' :: '#' :: rest)).takeWhile (fun c => c ≠ '#') = [' '] ++ u ++ [' '] := by
    have h1 : ∀ c ∈ ' ' :: u, (fun c => decide (c ≠ '#')) c = true := by
      intro c hc
      rcases List.mem_cons.1 hc with rfl | hc
      · decide
      · have : c ≠ '#' := fun h => hhash (h ▸ hc)
        simp [this]
    have : ' ' :: (u ++ ' ' :: '#' :: rest) = (' ' :: u) ++ (' ' :: '#' :: rest) := by simp
    rw [this, List.takeWhile_append_of_pos h1]
    simp
  rw [htw]
  exact stripWs_pad [' '] u [' '] (by simp [isWs_space]) (by simp [isWs_space]) hhead hlast

end CMacVerif.Yaml
