import CMacVerif.Lemmas.AMRTravNext
/-! Invariant of the whole `AMRDensityGrid::interact` loop over `ℝ` (C16): the photon stays in the
closed box of its current leaf, every deposit is a forward segment inside that leaf, and the
position is start + (path / |d|)·d + whole box lengths on periodic axes. -/
set_option linter.unusedSimpArgs false
set_option linter.unusedVariables false
namespace CMacVerif.AMRT
open CMacVerif.GridNum CMacVerif.AMR

/-- what the traversal needs from the grid and the ray -/
structure TravOK (big : ℝ) (G : AGrid ℝ) (d : V3 ℝ) : Prop where
  nonzero : ∃ a, a < 3 ∧ vget d a ≠ 0
  geo : ∀ r, cellAt G.g r = some .leaf → InGrid G r → NgbGeo G r
  narrow : ∀ r, cellAt G.g r = some .leaf → ∀ a, a < 3 → per G a = true → bsd (refBox G r) a < bsd G.box a
  bigok : ∀ r o, cellAt G.g r = some .leaf → Closed (refBox G r) o → ∀ a, a < 3 → vget d a ≠ 0 →
    wp big (refBox G r) o d a < big

def pathSum (l : List (Ref × ℝ)) : ℝ := (l.map Prod.snd).sum

/-- a deposit `(r, len)` made from position `o`: a forward segment of that length that stays in
the closed box of the leaf `r` -/
def GoodDeposit (G : AGrid ℝ) (d : V3 ℝ) (o : V3 ℝ) (r : Ref) (len : ℝ) : Prop :=
  cellAt G.g r = some .leaf ∧ Closed (refBox G r) o ∧
  ∃ l, 0 ≤ l ∧ len = l * Real.sqrt (dnorm2 d) ∧ Closed (refBox G r) (along o d l)

structure TravInv (G : AGrid ℝ) (p0 d : V3 ℝ) (st : St ℝ) : Prop where
  cur : ∀ r, st.cur = some r → cellAt G.g r = some .leaf ∧ InGrid G r ∧ PosB (refBox G r) ∧ Closed (refBox G r) st.pos
  negod : st.od < 0 → st.cur = st.last
  lastSome : st.path ≠ [] → st.last.isSome
  disp : ∃ T : ℝ, 0 ≤ T ∧ pathSum st.path = T * Real.sqrt (dnorm2 d) ∧
    ∀ a, a < 3 → ∃ w : Int, vget st.pos a = vget p0 a + vget d a * T + w * bsd G.box a ∧ (per G a = false → w = 0)

/-- one loop iteration: the deposit is good and the invariant is kept -/
theorem body_trav (big : ℝ) (G : AGrid ℝ) (m : Medium ℝ) (p0 d : V3 ℝ) (hok : TravOK big G d) (st : St ℝ) (r : Ref)
    (hcur : st.cur = some r) (hod : 0 < st.od) (h : TravInv G p0 d st) :
    TravInv G p0 d (body big G m d st r) ∧
    ∃ len, (body big G m d st r).path = (r, len) :: st.path ∧ GoodDeposit G d st.pos r len := by
  obtain ⟨hleaf, hgrid, hB, hin⟩ := h.cur r hcur
  have hhit : HitOK big (refBox G r) st.pos d := ⟨hin, hok.nonzero, hok.bigok r st.pos hleaf hin⟩
  obtain ⟨hmove, hl0, hlmin, hwin, hup, hdown, hsqrt⟩ := hit_geom big (refBox G r) st.pos d hhit
  obtain ⟨_, hwall, hds, _⟩ := hit_fields big G st.pos d r
  obtain ⟨hcorr, hnext⟩ := next_spec big G st.pos d r hB hhit (hok.geo r hleaf hgrid) (hok.narrow r hleaf)
  obtain ⟨T, hT0, hTsum, hTpos⟩ := h.disp
  have hN := dnorm2_pos d hok.nonzero
  have hsN : 0 < Real.sqrt (dnorm2 d) := Real.sqrt_pos.mpr hN
  set c := hitAxis big (refBox G r) st.pos d with hc
  set l := wp big (refBox G r) st.pos d c with hl
  set W := wallIntersection big G st.pos d r with hW
  have hds' : W.ds = l * Real.sqrt (dnorm2 d) := by rw [hds, hsqrt]
  unfold body
  simp only [zero_lit]
  rw [← hW]
  by_cases hcor : st.od - opticalDepth m (keyOf r) W.ds < 0
  · -- the photon is absorbed in this cell
    rw [if_pos hcor]
    obtain ⟨htau, hdsne, hk, hlt⟩ := corr_ne m _ _ _ hod hcor
    set tau := opticalDepth m (keyOf r) W.ds with htaudef
    have htau_pos : 0 < tau := by linarith
    have ht0 : 0 ≤ st.od / tau := (div_pos hod htau_pos).le
    have ht1 : st.od / tau ≤ 1 := by rw [div_le_one htau_pos]; linarith
    have hlen : W.ds + W.ds * (st.od - tau) / tau = (l * (st.od / tau)) * Real.sqrt (dnorm2 d) := by
      rw [hds']; field_simp; ring
    have hfrac : (W.ds + W.ds * (st.od - tau) / tau) / W.ds = st.od / tau := by field_simp; ring
    have hpos : ∀ a, a < 3 → vget (⟨st.pos.x + (W.wall.x - st.pos.x) * (W.ds + W.ds * (st.od - tau) / tau) / W.ds,
        st.pos.y + (W.wall.y - st.pos.y) * (W.ds + W.ds * (st.od - tau) / tau) / W.ds,
        st.pos.z + (W.wall.z - st.pos.z) * (W.ds + W.ds * (st.od - tau) / tau) / W.ds⟩ : V3 ℝ) a
          = vget st.pos a + vget d a * (l * (st.od / tau)) := by
      intro a ha
      have e : ∀ (q w : ℝ), q + (w - q) * (W.ds + W.ds * (st.od - tau) / tau) / W.ds = q + (w - q) * (st.od / tau) := by
        intro q w; rw [mul_div_assoc, hfrac]
      have hwx : W.wall.x = st.pos.x + d.x * l := by rw [hwall]; rfl
      have hwy : W.wall.y = st.pos.y + d.y * l := by rw [hwall]; rfl
      have hwz : W.wall.z = st.pos.z + d.z * l := by rw [hwall]; rfl
      have ha' : a = 0 ∨ a = 1 ∨ a = 2 := by omega
      rcases ha' with rfl | rfl | rfl
      · show st.pos.x + (W.wall.x - st.pos.x) * (W.ds + W.ds * (st.od - tau) / tau) / W.ds = st.pos.x + d.x * _
        rw [e, hwx]; ring
      · show st.pos.y + (W.wall.y - st.pos.y) * (W.ds + W.ds * (st.od - tau) / tau) / W.ds = st.pos.y + d.y * _
        rw [e, hwy]; ring
      · show st.pos.z + (W.wall.z - st.pos.z) * (W.ds + W.ds * (st.od - tau) / tau) / W.ds = st.pos.z + d.z * _
        rw [e, hwz]; ring
    have hl' : 0 ≤ l * (st.od / tau) := mul_nonneg hl0 ht0
    have hle' : l * (st.od / tau) ≤ l := by nlinarith
    have hend : Closed (refBox G r) (along st.pos d (l * (st.od / tau))) := by
      intro a ha
      rw [vget_along]
      obtain ⟨i1, i2⟩ := hin a ha
      obtain ⟨w1, w2⟩ := hwin a ha
      rw [vget_along] at w1 w2
      rcases le_or_gt 0 (vget d a) with hd | hd
      · have := mul_le_mul_of_nonneg_left hle' hd
        have := mul_nonneg hd hl'
        constructor <;> linarith
      · have := mul_le_mul_of_nonpos_left hle' hd.le
        have := mul_nonpos_of_nonpos_of_nonneg hd.le hl'
        constructor <;> linarith
    refine ⟨⟨?_, fun _ => rfl, fun _ => rfl, ?_⟩, _, rfl, hleaf, hin, l * (st.od / tau), hl', hlen, hend⟩
    · intro r' hr'
      simp only [Option.some.injEq] at hr'
      subst hr'
      refine ⟨hleaf, hgrid, hB, ?_⟩
      intro a ha
      rw [hpos a ha]
      have := hend a ha
      rw [vget_along] at this
      exact this
    · refine ⟨T + l * (st.od / tau), by linarith, ?_, ?_⟩
      · simp only [pathSum, List.map_cons, List.sum_cons]
        have : pathSum st.path = (List.map Prod.snd st.path).sum := rfl
        rw [← this, hTsum, hlen]; ring
      · intro a ha
        obtain ⟨w, hw1, hw2⟩ := hTpos a ha
        refine ⟨w, ?_, hw2⟩
        rw [hpos a ha, hw1]; ring
  · -- the photon reaches the wall
    rw [if_neg hcor]
    push Not at hcor
    have hposa : ∀ a, a < 3 → vget (⟨W.wall.x + W.corr.x, W.wall.y + W.corr.y, W.wall.z + W.corr.z⟩ : V3 ℝ) a
        = vget st.pos a + vget d a * l + vget W.corr a := by
      intro a ha
      have hwx : W.wall.x = st.pos.x + d.x * l := by rw [hwall]; rfl
      have hwy : W.wall.y = st.pos.y + d.y * l := by rw [hwall]; rfl
      have hwz : W.wall.z = st.pos.z + d.z * l := by rw [hwall]; rfl
      have ha' : a = 0 ∨ a = 1 ∨ a = 2 := by omega
      rcases ha' with rfl | rfl | rfl
      · show W.wall.x + W.corr.x = st.pos.x + d.x * l + W.corr.x; rw [hwx]
      · show W.wall.y + W.corr.y = st.pos.y + d.y * l + W.corr.y; rw [hwy]
      · show W.wall.z + W.corr.z = st.pos.z + d.z * l + W.corr.z; rw [hwz]
    refine ⟨⟨?_, fun hn => absurd hn (not_lt.mpr hcor), fun _ => rfl, ?_⟩, _, rfl, hleaf, hin, l, hl0, hds', hwin⟩
    · intro L hL
      exact hnext L hL
    · refine ⟨T + l, by linarith, ?_, ?_⟩
      · simp only [pathSum, List.map_cons, List.sum_cons]
        have : pathSum st.path = (List.map Prod.snd st.path).sum := rfl
        rw [← this, hTsum, hds']; ring
      · intro a ha
        obtain ⟨w, hw1, hw2⟩ := hTpos a ha
        rcases hcorr a ha with h0 | ⟨hp, h1 | h1⟩
        · exact ⟨w, by rw [hposa a ha, hw1, h0]; ring, hw2⟩
        · exact ⟨w + 1, by rw [hposa a ha, hw1, h1]; push_cast; ring, fun hf => by rw [hp] at hf; simp at hf⟩
        · exact ⟨w - 1, by rw [hposa a ha, hw1, h1]; push_cast; ring, fun hf => by rw [hp] at hf; simp at hf⟩

/-- every recorded deposit was a good one -/
def AllGood (G : AGrid ℝ) (d : V3 ℝ) (l : List (Ref × ℝ)) : Prop := ∀ e ∈ l, ∃ o, GoodDeposit G d o e.1 e.2

theorem loop_trav (big : ℝ) (G : AGrid ℝ) (m : Medium ℝ) (p0 d : V3 ℝ) (hok : TravOK big G d) (fuel : Nat) :
    ∀ st : St ℝ, TravInv G p0 d st → AllGood G d st.path →
      TravInv G p0 d (loop big G m d fuel st).1 ∧ AllGood G d (loop big G m d fuel st).1.path := by
  induction fuel with
  | zero => intro st h hg; exact ⟨h, hg⟩
  | succ fuel ih =>
    intro st h hg
    simp only [loop]
    cases hcur : st.cur with
    | none => exact ⟨h, hg⟩
    | some r =>
      simp only
      by_cases hod : st.od > 0.0
      · rw [if_pos hod]
        rw [zero_lit] at hod
        obtain ⟨hinv, len, hpath, hgood⟩ := body_trav big G m p0 d hok st r hcur hod h
        refine ih _ hinv ?_
        intro e he
        rw [hpath] at he
        simp only [List.mem_cons] at he
        rcases he with rfl | he
        · exact ⟨st.pos, hgood⟩
        · exact hg e he
      · rw [if_neg hod]; exact ⟨h, hg⟩

/-! ### the start: `get_cell_index(position)` -/

theorem treeAt_leafPath (t : Tree) : ∀ π ∈ leafPaths t, treeAt t π = some .leaf := by
  induction t with
  | leaf => intro π h; simp [leafPaths] at h; subst h; rfl
  | node c ih =>
    intro π h
    obtain ⟨i, r, hr, rfl⟩ := (mem_leafPaths_node c π).1 h
    simp only [treeAt]
    have : (⟨i.val % 8, Nat.mod_lt _ (by decide)⟩ : Fin 8) = i := Fin.ext (Nat.mod_eq_of_lt i.isLt)
    rw [this]; exact ih i r hr

theorem inBox_closed (b : Box3 ℝ) (p : V3 ℝ) (h : InBox b p) : Closed b p := by
  obtain ⟨a1, a2, a3, a4, a5, a6⟩ := h
  intro a ha
  have ha' : a = 0 ∨ a = 1 ∨ a = 2 := by omega
  rcases ha' with rfl | rfl | rfl <;> simp [blo, bsd, vget] <;> constructor <;> linarith

theorem posBox_posB (b : Box3 ℝ) (h : PosBox b) : PosB b := by
  obtain ⟨a1, a2, a3⟩ := h
  intro a ha
  have ha' : a = 0 ∨ a = 1 ∨ a = 2 := by omega
  rcases ha' with rfl | rfl | rfl <;> simp [bsd] <;> assumption

theorem posB_boxOfPath (π : List Nat) : ∀ b : Box3 ℝ, PosB b → PosB (boxOfPath b π) := by
  induction π with
  | nil => intro b h; exact h
  | cons i r ih => intro b h; exact ih _ (posB_child b h _ _ _)

/-- the start cell is the leaf that contains the start position -/
theorem locate_spec (G : AGrid ℝ) (hg : G.g.WF) (hb : PosBox G.box) (p : V3 ℝ) (hp : InBox G.box p) :
    cellAt G.g (locate G p) = some .leaf ∧ InGrid G (locate G p) ∧ PosB (refBox G (locate G p)) ∧
      Closed (refBox G (locate G p)) p := by
  obtain ⟨bx, by', bz, hin, ⟨π, hπ, hkey, hbox⟩, _⟩ :=
    amr_contains_aux G.g G.box p hg.nx_pos hg.ny_pos hg.nz_pos hb hp
  set ix := blockIndex G.g.nx p.x G.box.ax G.box.sx
  set iy := blockIndex G.g.ny p.y G.box.ay G.box.sy
  set iz := blockIndex G.g.nz p.z G.box.az G.box.sz
  have hdig := leafPaths_digits _ π hπ
  have hklt : encodeKey π < 2 ^ 32 := by
    have hmem : encodeKey π ∈ leafKeys (G.g.block ix iy iz) 0 0 := by
      rw [leafKeys_block]; exact List.mem_map.mpr ⟨π, hπ, rfl⟩
    have := leafKeys_lt _ 0 0 _ hmem (by norm_num) (by have := hg.depth_le ix iy iz; omega)
    exact lt_trans this (by norm_num)
  obtain ⟨rb, rc, _⟩ := gridKey_roundtrip ix iy iz (encodeKey π) (by have := hg.nx_le; omega)
    (by have := hg.ny_le; omega) (by have := hg.nz_le; omega) hklt
  have hloc : locate G p = ⟨ix, iy, iz, π⟩ := by
    unfold locate
    simp only [hkey, rb, rc, decode_encode π hdig]
  rw [hloc]
  have hbpos : PosB (blockBox G.g G.box ix iy iz) := by
    have hx : (0 : ℝ) < G.g.nx := by exact_mod_cast hg.nx_pos
    have hy : (0 : ℝ) < G.g.ny := by exact_mod_cast hg.ny_pos
    have hz : (0 : ℝ) < G.g.nz := by exact_mod_cast hg.nz_pos
    intro a ha
    have ha' : a = 0 ∨ a = 1 ∨ a = 2 := by omega
    rcases ha' with rfl | rfl | rfl <;> simp [bsd, blockBox, ofNat_real]
    · exact div_pos hb.1 hx
    · exact div_pos hb.2.1 hy
    · exact div_pos hb.2.2 hz
  refine ⟨treeAt_leafPath _ π hπ, ⟨bx, by', bz⟩, posB_boxOfPath π _ hbpos, ?_⟩
  show Closed (boxOfPath (blockBox G.g G.box ix iy iz) π) p
  rw [← hbox]; exact inBox_closed _ _ hin

end CMacVerif.AMRT
