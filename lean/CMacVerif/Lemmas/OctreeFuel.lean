import CMacVerif.Lemmas.Octree
/-! Every position is stored by the Octree constructor (C16): for pairwise separated positions the
recursion of `add_position` ends within the 64 levels of the model's fuel. -/
namespace CMacVerif.Oct
open CMacVerif.GridNum

/-- two points are closer than the box sides at depth `k` on every axis (they can share a box of
depth `k`) -/
def Close (S : Box3 ℝ) (k : Nat) (a b : V3 ℝ) : Prop :=
  |a.x - b.x| < S.sx * (1 / 2 : ℝ) ^ k ∧ |a.y - b.y| < S.sy * (1 / 2 : ℝ) ^ k ∧ |a.z - b.z| < S.sz * (1 / 2 : ℝ) ^ k

/-- the sides of `b` are at most those of a box of depth `k` below `S` -/
def Small (S b : Box3 ℝ) (k : Nat) : Prop :=
  b.sx ≤ S.sx * (1 / 2 : ℝ) ^ k ∧ b.sy ≤ S.sy * (1 / 2 : ℝ) ^ k ∧ b.sz ≤ S.sz * (1 / 2 : ℝ) ^ k

theorem close_mono (S : Box3 ℝ) (hS : PosBox S) (k k' : Nat) (hk : k ≤ k') (a b : V3 ℝ) (h : Close S k' a b) :
    Close S k a b := by
  have hp : (1 / 2 : ℝ) ^ k' ≤ (1 / 2 : ℝ) ^ k :=
    pow_le_pow_of_le_one (by norm_num) (by norm_num) hk
  obtain ⟨h1, h2, h3⟩ := h
  obtain ⟨s1, s2, s3⟩ := hS
  exact ⟨lt_of_lt_of_le h1 (mul_le_mul_of_nonneg_left hp s1.le), lt_of_lt_of_le h2 (mul_le_mul_of_nonneg_left hp s2.le),
    lt_of_lt_of_le h3 (mul_le_mul_of_nonneg_left hp s3.le)⟩

theorem close_of_inBox (S b : Box3 ℝ) (k : Nat) (hs : Small S b k) (p q : V3 ℝ) (hp : InBox b p) (hq : InBox b q) :
    Close S k p q := by
  obtain ⟨p1, p2, p3, p4, p5, p6⟩ := hp
  obtain ⟨q1, q2, q3, q4, q5, q6⟩ := hq
  obtain ⟨s1, s2, s3⟩ := hs
  refine ⟨lt_of_lt_of_le ?_ s1, lt_of_lt_of_le ?_ s2, lt_of_lt_of_le ?_ s3⟩ <;>
  · rw [abs_lt]; constructor <;> linarith

theorem small_sub (S b : Box3 ℝ) (k : Nat) (hs : Small S b k) (p : V3 ℝ) : Small S (subBox b p) (k + 1) := by
  obtain ⟨s1, s2, s3⟩ := hs
  simp only [Small, subBox, pow_succ]
  refine ⟨?_, ?_, ?_⟩ <;> norm_num <;> nlinarith

/-- every node holds at least one position -/
def Full : OT ℝ → Prop
  | .empty => True
  | .leaf _ => True
  | .node b v kids => (∃ q, q ∈ leavesOf (OT.node b v kids)) ∧ ∀ k, Full (kids k)

theorem full_has_leaf (t : OT ℝ) (h : Full t) (hne : t ≠ .empty) : ∃ q, q ∈ leavesOf t := by
  cases t with
  | empty => exact absurd rfl hne
  | leaf i => exact ⟨i, by simp [leavesOf]⟩
  | node b v kids => exact h.1

theorem mem_getKid (kids : Fin 8 → OT ℝ) (c q : Nat) (h : q ∈ leavesOf (getKid kids c)) : ∃ k, q ∈ leavesOf (kids k) :=
  ⟨_, h⟩

/-- common tail of `add_position` (see `addPos_step`): fullness -/
theorem addPos_full_step (pos : Nat → V3 ℝ) (index fuel : Nat) (box b' : Box3 ℝ)
    (ih : ∀ (t : OT ℝ) (b : Box3 ℝ), Full t → Full (addPos pos index fuel t b))
    (kids : Fin 8 → OT ℝ) (hk : ∀ k, Full (kids k)) :
    Full (OT.node b' 0.0 (setKid kids (cellOf (pos index) box) (.leaf index))) ∧
    (getKid kids (cellOf (pos index) box) ≠ .empty →
      Full (OT.node b' 0.0 (setKid kids (cellOf (pos index) box)
        (addPos pos index fuel (getKid kids (cellOf (pos index) box)) (subBox box (pos index)))))) := by
  have kidsFull : ∀ X : OT ℝ, Full X → ∀ j, Full (setKid kids (cellOf (pos index) box) X j) := by
    intro X hX j
    rw [setKid_apply]; split_ifs
    · exact hX
    · exact hk j
  constructor
  · refine ⟨⟨index, ?_⟩, kidsFull _ trivial⟩
    rw [mem_setKid]; left; simp [leavesOf]
  · intro hne
    have hfc : Full (getKid kids (cellOf (pos index) box)) := hk _
    obtain ⟨q, hq⟩ := full_has_leaf _ hfc hne
    refine ⟨⟨q, ?_⟩, kidsFull _ (ih _ _ hfc)⟩
    rw [mem_setKid]; left
    exact (addPos_leaves pos index fuel _ _ q).2 hq

theorem addPos_full (pos : Nat → V3 ℝ) (index : Nat) : ∀ (fuel : Nat) (t : OT ℝ) (b : Box3 ℝ),
    Full t → Full (addPos pos index fuel t b) := by
  intro fuel
  induction fuel with
  | zero => intro t b h; exact h
  | succ fuel ih =>
    intro t box ht
    cases t with
    | empty =>
      have st := addPos_full_step pos index fuel box box ih (fun _ => OT.empty) (fun _ => trivial)
      simp only [addPos]
      split
      · exact st.1
      · rename_i hne; exact st.2 hne
    | leaf old =>
      have st := addPos_full_step pos index fuel box box ih
        (setKid (fun _ => OT.empty) (cellOf (pos old) box) (.leaf old)) (by
          intro j; rw [setKid_apply]; split_ifs <;> trivial)
      simp only [addPos]
      split
      · exact st.1
      · rename_i hne; exact st.2 hne
    | node b' v kids =>
      have st := addPos_full_step pos index fuel box b' ih kids ht.2
      simp only [addPos]
      split
      · exact st.1
      · rename_i hne; exact st.2 hne

/-- common tail of `add_position`: the new index is stored, given enough fuel for the depth that
the separation of the positions allows -/
theorem addPos_stores_step (pos : Nat → V3 ℝ) (index fuel : Nat) (S box b' : Box3 ℝ) (k : Nat) (hS : PosBox S)
    (hb : PosBox box) (hsm : Small S box k) (hin : InBox box (pos index)) (hfuel : 64 ≤ k + (fuel + 1))
    (ih : ∀ (t : OT ℝ) (b : Box3 ℝ) (k' : Nat), 64 ≤ k' + fuel → k' ≤ 62 → PosBox b → Small S b k' →
      Boxed pos t b → Full t → InBox b (pos index) →
      (∀ q ∈ leavesOf t, ¬ Close S 62 (pos q) (pos index)) → index ∈ leavesOf (addPos pos index fuel t b))
    (kids : Fin 8 → OT ℝ) (hkb : ∀ j : Fin 8, Boxed pos (kids j) (kidBox box j.val)) (hkf : ∀ j, Full (kids j))
    (hsep : ∀ (j : Fin 8) (q : Nat), q ∈ leavesOf (kids j) → ¬ Close S 62 (pos q) (pos index)) :
    index ∈ leavesOf (OT.node b' 0.0 (setKid kids (cellOf (pos index) box) (.leaf index))) ∧
    (getKid kids (cellOf (pos index) box) ≠ .empty →
      index ∈ leavesOf (OT.node b' 0.0 (setKid kids (cellOf (pos index) box)
        (addPos pos index fuel (getKid kids (cellOf (pos index) box)) (subBox box (pos index)))))) := by
  constructor
  · rw [mem_setKid]; left; simp [leavesOf]
  · intro hne
    rw [mem_setKid]; left
    obtain ⟨hlt, hsub, hinsub⟩ := subBox_spec box (pos index) hb hin
    have hmod : cellOf (pos index) box % 8 = cellOf (pos index) box := Nat.mod_eq_of_lt hlt
    have hkid : Boxed pos (getKid kids (cellOf (pos index) box)) (subBox box (pos index)) := by
      have h0 := hkb ⟨cellOf (pos index) box % 8, Nat.mod_lt _ (by decide)⟩
      have e : kidBox box (cellOf (pos index) box % 8) = subBox box (pos index) := by rw [hmod, hsub]
      rw [← e]; exact h0
    have hpsub : PosBox (subBox box (pos index)) := by rw [hsub]; exact kidBox_pos _ _ hb
    have hsmall := small_sub S box k hsm (pos index)
    have hfc : Full (getKid kids (cellOf (pos index) box)) := hkf _
    have hsepc : ∀ q ∈ leavesOf (getKid kids (cellOf (pos index) box)), ¬ Close S 62 (pos q) (pos index) :=
      fun q hq => hsep _ q hq
    obtain ⟨q, hq⟩ := full_has_leaf _ hfc hne
    have hqin := boxed_leaves pos _ _ hpsub hkid q hq
    have hclose := close_of_inBox S _ (k + 1) hsmall (pos q) (pos index) hqin hinsub
    have hk1 : k + 1 ≤ 62 := by
      by_contra hcon
      exact hsepc q hq (close_mono S hS 62 (k + 1) (by omega) _ _ hclose)
    exact ih _ _ (k + 1) (by omega) hk1 hpsub hsmall hkid hfc hinsub hsepc

theorem addPos_stores (pos : Nat → V3 ℝ) (index : Nat) (S : Box3 ℝ) (hS : PosBox S) :
    ∀ (fuel : Nat) (t : OT ℝ) (b : Box3 ℝ) (k : Nat), 64 ≤ k + fuel → k ≤ 62 → PosBox b → Small S b k →
      Boxed pos t b → Full t → InBox b (pos index) →
      (∀ q ∈ leavesOf t, ¬ Close S 62 (pos q) (pos index)) → index ∈ leavesOf (addPos pos index fuel t b) := by
  intro fuel
  induction fuel with
  | zero => intro t b k h1 h2; omega
  | succ fuel ih =>
    intro t box k hfuel hk hb hsm hbx hfull hin hsep
    cases t with
    | empty =>
      have st := addPos_stores_step pos index fuel S box box k hS hb hsm hin hfuel ih (fun _ => OT.empty)
        (fun _ => trivial) (fun _ => trivial) (fun j q hq => by simp [leavesOf] at hq)
      simp only [addPos]
      split
      · exact st.1
      · rename_i hne; exact st.2 hne
    | leaf old =>
      have st := addPos_stores_step pos index fuel S box box k hS hb hsm hin hfuel ih
        (setKid (fun _ => OT.empty) (cellOf (pos old) box) (.leaf old))
        (by
          intro j
          rw [setKid_apply]
          obtain ⟨hlt, hsub, hinsub⟩ := subBox_spec box (pos old) hb hbx
          split_ifs with hj
          · rw [hj, Nat.mod_eq_of_lt hlt, ← hsub]; exact hinsub
          · trivial)
        (by intro j; rw [setKid_apply]; split_ifs <;> trivial)
        (by
          intro j q hq
          rw [setKid_apply] at hq
          split_ifs at hq
          · exact hsep q hq
          · simp [leavesOf] at hq)
      simp only [addPos]
      split
      · exact st.1
      · rename_i hne; exact st.2 hne
    | node b' v kids =>
      obtain ⟨rfl, hkb⟩ := hbx
      have st := addPos_stores_step pos index fuel S b' b' k hS hb hsm hin hfuel ih kids hkb hfull.2
        (fun j q hq => hsep q ((mem_leavesOf_node _ _ _ _).mpr ⟨j, hq⟩))
      simp only [addPos]
      split
      · exact st.1
      · rename_i hne; exact st.2 hne

/-- the loop of the constructor stores every index: after adding the positions `1 … m` the tree
holds exactly the indices `≤ m` -/
theorem buildLoop_all (pos : Nat → V3 ℝ) (n : Nat) (box : Box3 ℝ) (hb : PosBox box)
    (hin : ∀ i < n, InBox box (pos i))
    (sep : ∀ i j, i < n → j < n → i ≠ j → ¬ Close box 62 (pos i) (pos j)) :
    ∀ m, m + 1 ≤ n →
      Boxed pos ((List.range m).foldl (fun t i => addPos pos (i + 1) 64 t box) (.leaf 0)) box ∧
      Full ((List.range m).foldl (fun t i => addPos pos (i + 1) 64 t box) (.leaf 0)) ∧
      ∀ q, q ∈ leavesOf ((List.range m).foldl (fun t i => addPos pos (i + 1) 64 t box) (.leaf 0)) ↔ q ≤ m := by
  intro m
  induction m with
  | zero =>
    intro hm
    refine ⟨hin 0 (by omega), trivial, fun q => ?_⟩
    simp [leavesOf]
  | succ m ih =>
    intro hm
    obtain ⟨hbx, hfull, hl⟩ := ih (by omega)
    rw [List.range_succ, List.foldl_append]
    simp only [List.foldl_cons, List.foldl_nil]
    set t := (List.range m).foldl (fun t i => addPos pos (i + 1) 64 t box) (.leaf 0) with ht
    refine ⟨addPos_boxed pos (m + 1) 64 t box hb hbx (hin _ (by omega)), addPos_full pos (m + 1) 64 t box hfull, ?_⟩
    intro q
    constructor
    · intro hq
      rcases (addPos_leaves pos (m + 1) 64 t box q).1 hq with h | h
      · have := (hl q).mp h; omega
      · omega
    · intro hq
      rcases Nat.lt_or_ge q (m + 1) with h | h
      · exact (addPos_leaves pos (m + 1) 64 t box q).2 ((hl q).mpr (by omega))
      · have e : q = m + 1 := by omega
        rw [e]
        refine addPos_stores pos (m + 1) box hb 64 t box 0 (by omega) (by omega) hb ?_ hbx hfull (hin _ (by omega)) ?_
        · simp [Small]
        · intro r hr
          have := (hl r).mp hr
          exact sep r (m + 1) (by omega) (by omega) (by omega)

/-- for pairwise separated positions (no two of them closer than `2⁻⁶²` box sides on all three
axes) the constructor stores every index -/
theorem build_all_stored (pos : Nat → V3 ℝ) (n : Nat) (box : Box3 ℝ) (h : Nat → ℝ) (hb : PosBox box)
    (hin : ∀ i < n, InBox box (pos i))
    (sep : ∀ i j, i < n → j < n → i ≠ j → ¬ Close box 62 (pos i) (pos j)) :
    ∀ q < n, q ∈ leavesOf (build pos n box h) := by
  intro q hq
  unfold build
  rw [if_neg (by omega)]
  simp only [setVar_leaves]
  exact ((buildLoop_all pos n box hb hin sep (n - 1) (by omega)).2.2 q).mpr (by omega)

end CMacVerif.Oct
