import CMacVerif.Model.Worker
import Mathlib.Tactic.SplitIfs
/-! Invariant of the generic worker loop and its preservation (C07). -/
namespace CMacVerif.Worker

variable {τ ρ : Type} [DecidableEq τ] [DecidableEq ρ]

def sumOver (l : List τ) (f : τ → Nat) : Nat := (l.map f).sum

theorem sumOver_congr {l : List τ} {f g : τ → Nat} (h : ∀ x ∈ l, f x = g x) :
    sumOver l f = sumOver l g := by
  unfold sumOver; congr 1; exact List.map_congr_left h

theorem sumOver_update {l : List τ} (hn : l.Nodup) {t : τ} (ht : t ∈ l) {f f' : τ → Nat}
    (h : ∀ x ∈ l, x ≠ t → f' x = f x) : sumOver l f' + f t = sumOver l f + f' t := by
  induction l with
  | nil => cases ht
  | cons a l ih =>
    have hn' := List.nodup_cons.mp hn
    simp only [sumOver, List.map_cons, List.sum_cons] at *
    by_cases hat : a = t
    · subst hat
      have : (l.map f').sum = (l.map f).sum := by
        congr 1; apply List.map_congr_left
        intro x hx; exact h x (List.mem_cons_of_mem _ hx) (by intro e; subst e; exact hn'.1 hx)
      omega
    · have ht' : t ∈ l := by
        rcases List.mem_cons.mp ht with e | e
        · exact absurd e.symm hat
        · exact e
      have := ih hn'.2 ht' (fun x hx hne => h x (List.mem_cons_of_mem _ hx) hne)
      have ha : f' a = f a := h a (List.mem_cons_self) hat
      omega

theorem sumOver_le {l : List τ} {t : τ} (ht : t ∈ l) (f : τ → Nat) : f t ≤ sumOver l f := by
  induction l with
  | nil => cases ht
  | cons a l ih =>
    simp only [sumOver, List.map_cons, List.sum_cons] at *
    rcases List.mem_cons.mp ht with e | e
    · subst e; omega
    · have := ih e; omega

theorem sumOver_pos {l : List τ} {f : τ → Nat} (h : 0 < sumOver l f) : ∃ t ∈ l, 0 < f t := by
  induction l with
  | nil => simp [sumOver] at h
  | cons a l ih =>
    simp only [sumOver, List.map_cons, List.sum_cons] at h
    by_cases ha : 0 < f a
    · exact ⟨a, List.mem_cons_self, ha⟩
    · have : 0 < sumOver l f := by unfold sumOver; omega
      obtain ⟨t, ht, hp⟩ := ih this
      exact ⟨t, List.mem_cons_of_mem _ ht, hp⟩

theorem sumOver_zero {l : List τ} {f : τ → Nat} (h : sumOver l f = 0) : ∀ t ∈ l, f t = 0 := by
  intro t ht
  have := sumOver_le ht f
  omega

/-- counting the members of `m` over a duplicate-free enumeration gives its length -/
theorem sumOver_count {l : List τ} (hn : l.Nodup) (m : List τ) (hm : ∀ x ∈ m, x ∈ l) :
    sumOver l (fun p => m.count p) = m.length := by
  induction m with
  | nil =>
    simp only [sumOver, List.count_nil, List.length_nil]
    clear hn hm
    induction l with
    | nil => rfl
    | cons a l ih => simpa using ih
  | cons a m ih =>
    have ha : a ∈ l := hm a List.mem_cons_self
    have ih' := ih (fun x hx => hm x (List.mem_cons_of_mem _ hx))
    have hupd := sumOver_update hn ha (f := fun p => m.count p) (f' := fun p => (a :: m).count p)
      (by intro x _ hne; simp [Ne.symm hne])
    simp only [List.count_cons_self, List.length_cons] at hupd ⊢
    omega

theorem filter_length_eq_sumOver (l : List τ) (p : τ → Bool) :
    (l.filter p).length = sumOver l (fun t => if p t then 1 else 0) := by
  induction l with
  | nil => rfl
  | cons a l ih =>
    simp only [sumOver, List.map_cons, List.sum_cons, List.filter_cons] at ih ⊢
    by_cases h : p a = true
    · simp only [h, ↓reduceIte, List.length_cons]; omega
    · simp only [h, Bool.false_eq_true, ↓reduceIte]; omega

/-- what task `p` still has to release -/
def pending (G : Graph τ ρ) (s : WState τ) (p : τ) : List τ :=
  match s.st p with
  | .releasing rem => rem
  | .done => []
  | _ => G.children p

def act (st : τ → Status τ) (t : τ) : Nat := if isActive (st t) then 1 else 0

def execdSpec (st : Status τ) : Nat :=
  match st with | .releasing _ => 1 | .done => 1 | _ => 0

/-- well-formed task graph -/
structure WF (G : Graph τ ρ) : Prop where
  nodup : G.univ.Nodup
  childIn : ∀ p ∈ G.univ, ∀ c ∈ G.children p, c ∈ G.univ
  parentIn : ∀ c ∈ G.univ, ∀ p ∈ G.parents c, p ∈ G.univ
  consistent : ∀ p ∈ G.univ, ∀ c ∈ G.univ, (G.children p).count c = (G.parents c).count p

structure Inv (G : Graph τ ρ) (s : WState τ) : Prop where
  num : s.num = sumOver G.univ (act s.st)
  cnt : ∀ c ∈ G.univ, s.cnt c = sumOver G.univ (fun p => (pending G s p).count c)
  ready : ∀ c ∈ G.univ, (s.st c = .notReady → 0 < s.cnt c) ∧ (s.st c ≠ .notReady → s.cnt c = 0)
  excl : ∀ a ∈ G.univ, ∀ b ∈ G.univ, a ≠ b → s.st a = .running → s.st b = .running →
    conflicts G a b = false
  execd : ∀ t ∈ G.univ, s.execd t = execdSpec (s.st t)
  remIn : ∀ t ∈ G.univ, ∀ rem, s.st t = .releasing rem → ∀ c ∈ rem, c ∈ G.univ

theorem conflicts_symm (G : Graph τ ρ) (a b : τ) : conflicts G a b = conflicts G b a := by
  unfold conflicts
  rw [Bool.eq_iff_iff]
  simp only [List.any_eq_true, List.contains_iff_mem]
  constructor <;> (rintro ⟨r, h1, h2⟩; exact ⟨r, h2, h1⟩)

@[simp] theorem upd_same {α : Type} (f : τ → α) (t : τ) (a : α) : upd f t a t = a := by simp [upd]
theorem upd_other {α : Type} (f : τ → α) (t : τ) (a : α) {x : τ} (h : x ≠ t) : upd f t a x = f x := by
  simp [upd, h]

theorem init_inv (G : Graph τ ρ) (hG : WF G) : Inv G (init G) := by
  refine ⟨?_, ?_, ?_, ?_, ?_, ?_⟩
  · -- num
    simp only [init]
    rw [filter_length_eq_sumOver]
    apply sumOver_congr
    intro t _
    simp only [act]
    by_cases h : (G.parents t).length = 0 <;> simp [h, isActive]
  · intro c hc
    have h1 : sumOver G.univ (fun p => (pending G (init G) p).count c)
        = sumOver G.univ (fun p => (G.parents c).count p) := by
      apply sumOver_congr
      intro p hp
      have : pending G (init G) p = G.children p := by
        simp only [pending, init]; split_ifs <;> rfl
      rw [this]; exact hG.consistent p hp c hc
    rw [h1, sumOver_count hG.nodup _ (hG.parentIn c hc)]
    rfl
  · intro c _
    simp only [init]
    split_ifs with h
    · exact ⟨fun h' => h'.elim, fun _ => h⟩
    · exact ⟨fun _ => Nat.pos_of_ne_zero h, fun h' => absurd rfl h'⟩
  · intro a _ b _ _ ha _
    simp only [init] at ha; split_ifs at ha
  · intro t _; simp only [init, execdSpec]; split_ifs <;> rfl
  · intro t _ rem h; simp only [init] at h; split_ifs at h

end CMacVerif.Worker

namespace CMacVerif.Worker
variable {τ ρ : Type} [DecidableEq τ] [DecidableEq ρ]

def labelTask : Label τ → τ
  | .acquire t | .finishExec t | .releaseChild t | .retire t => t


theorem acquire_some {G : Graph τ ρ} {s s' : WState τ} {t : τ} (h : step G s (.acquire t) = some s') :
    s.st t = .queued ∧ (G.univ.all (fun u => !(isRunning s u && conflicts G t u))) = true
      ∧ s' = { s with st := upd s.st t .running } := by
  simp only [step] at h
  split at h
  · split_ifs at h with hg
    injection h with h
    exact ⟨by assumption, hg, h.symm⟩
  · cases h

theorem finishExec_some {G : Graph τ ρ} {s s' : WState τ} {t : τ} (h : step G s (.finishExec t) = some s') :
    s.st t = .running ∧ s' = { s with st := upd s.st t (.releasing (G.children t)), execd := upd s.execd t (s.execd t + 1) } := by
  simp only [step] at h
  split at h
  · injection h with h; exact ⟨by assumption, h.symm⟩
  · cases h

theorem retire_some {G : Graph τ ρ} {s s' : WState τ} {t : τ} (h : step G s (.retire t) = some s') :
    s.st t = .releasing [] ∧ s' = { s with st := upd s.st t .done, num := s.num - 1 } := by
  simp only [step] at h
  split at h
  · injection h with h; exact ⟨by assumption, h.symm⟩
  · cases h

theorem releaseChild_some {G : Graph τ ρ} {s s' : WState τ} {t : τ} (h : step G s (.releaseChild t) = some s') :
    ∃ c rem, s.st t = .releasing (c :: rem) ∧
      s' = (if s.cnt c = 1 then
              { s with st := upd (upd s.st t (.releasing rem)) c .queued, cnt := upd s.cnt c (s.cnt c - 1), num := s.num + 1 }
            else { s with st := upd s.st t (.releasing rem), cnt := upd s.cnt c (s.cnt c - 1) }) := by
  simp only [step] at h
  split at h
  · rename_i c rem hst
    refine ⟨c, rem, hst, ?_⟩
    split_ifs at h with hc <;> (injection h with h; rw [← h])
    · rw [if_pos hc]
    · rw [if_neg hc]
  · cases h

/-- changing the status of `t` between two statuses with the same `pending` keeps all pendings -/
theorem pending_upd_same (G : Graph τ ρ) (s : WState τ) (t : τ) (new : Status τ) (cnt : τ → Nat) (num : Nat)
    (ex : τ → Nat)
    (h : (match new with | .releasing rem => rem | .done => [] | _ => G.children t) = pending G s t) (p : τ) :
    pending G { st := upd s.st t new, cnt := cnt, num := num, execd := ex } p = pending G s p := by
  unfold pending at *
  by_cases hp : p = t
  · subst hp; simp only [upd_same]; exact h
  · simp only [upd_other _ _ _ hp]

theorem acquire_inv (G : Graph τ ρ) (_hG : WF G) (s s' : WState τ) (t : τ) (ht : t ∈ G.univ)
    (hs : Inv G s) (h : step G s (.acquire t) = some s') : Inv G s' := by
  obtain ⟨hst, hguard, rfl⟩ := acquire_some h
  have hpend : ∀ p, pending G { s with st := upd s.st t .running } p = pending G s p := by
    intro p; apply pending_upd_same; simp [pending, hst]
  refine ⟨?_, ?_, ?_, ?_, ?_, ?_⟩
  · rw [hs.num]; apply sumOver_congr; intro x _
    simp only [act]
    by_cases hx : x = t
    · subst hx; simp [hst, isActive]
    · simp [upd_other _ _ _ hx]
  · intro c hc; simp only [hpend]; exact hs.cnt c hc
  · intro c hc
    by_cases hx : c = t
    · subst hx
      have := (hs.ready c hc).2 (by rw [hst]; simp)
      simp only [upd_same]
      exact ⟨fun h' => (by cases h'), fun _ => this⟩
    · simp only [upd_other _ _ _ hx]; exact hs.ready c hc
  · intro a ha b hb hab hra hrb
    simp only at hra hrb
    rw [List.all_eq_true] at hguard
    by_cases hat : a = t
    · subst hat
      have hbt : b ≠ a := fun e => hab e.symm
      rw [upd_other _ _ _ hbt] at hrb
      have := hguard b hb
      simp only [isRunning, hrb, Bool.true_and, Bool.not_eq_true'] at this
      exact this
    · rw [upd_other _ _ _ hat] at hra
      by_cases hbt : b = t
      · subst hbt
        have := hguard a ha
        simp only [isRunning, hra, Bool.true_and, Bool.not_eq_true'] at this
        rw [conflicts_symm]; exact this
      · rw [upd_other _ _ _ hbt] at hrb
        exact hs.excl a ha b hb hab hra hrb
  · intro x hx
    by_cases hxt : x = t
    · subst hxt; simp only [upd_same]; rw [hs.execd x hx, hst]; rfl
    · simp only [upd_other _ _ _ hxt]; exact hs.execd x hx
  · intro x hx rem hrem
    by_cases hxt : x = t
    · subst hxt; simp only [upd_same] at hrem; cases hrem
    · simp only [upd_other _ _ _ hxt] at hrem; exact hs.remIn x hx rem hrem

theorem finishExec_inv (G : Graph τ ρ) (hG : WF G) (s s' : WState τ) (t : τ) (ht : t ∈ G.univ)
    (hs : Inv G s) (h : step G s (.finishExec t) = some s') : Inv G s' := by
  obtain ⟨hst, rfl⟩ := finishExec_some h
  have hpend : ∀ p, pending G { s with st := upd s.st t (.releasing (G.children t)), execd := upd s.execd t (s.execd t + 1) } p = pending G s p := by
    intro p; apply pending_upd_same; simp [pending, hst]
  refine ⟨?_, ?_, ?_, ?_, ?_, ?_⟩
  · rw [hs.num]; apply sumOver_congr; intro x _
    simp only [act]
    by_cases hx : x = t
    · subst hx; simp [hst, isActive]
    · simp [upd_other _ _ _ hx]
  · intro c hc; simp only [hpend]; exact hs.cnt c hc
  · intro c hc
    by_cases hx : c = t
    · subst hx
      have := (hs.ready c hc).2 (by rw [hst]; simp)
      simp only [upd_same]
      exact ⟨fun h' => (by cases h'), fun _ => this⟩
    · simp only [upd_other _ _ _ hx]; exact hs.ready c hc
  · intro a ha b hb hab hra hrb
    simp only at hra hrb
    by_cases hat : a = t
    · subst hat; simp only [upd_same] at hra; cases hra
    · by_cases hbt : b = t
      · subst hbt; simp only [upd_same] at hrb; cases hrb
      · rw [upd_other _ _ _ hat] at hra; rw [upd_other _ _ _ hbt] at hrb
        exact hs.excl a ha b hb hab hra hrb
  · intro x hx
    by_cases hxt : x = t
    · subst hxt; simp only [upd_same]; rw [hs.execd x hx, hst]; rfl
    · simp only [upd_other _ _ _ hxt]; exact hs.execd x hx
  · intro x hx rem hrem
    by_cases hxt : x = t
    · subst hxt; simp only [upd_same] at hrem
      injection hrem with hrem; subst hrem
      exact hG.childIn x hx
    · simp only [upd_other _ _ _ hxt] at hrem; exact hs.remIn x hx rem hrem

theorem retire_inv (G : Graph τ ρ) (hG : WF G) (s s' : WState τ) (t : τ) (ht : t ∈ G.univ)
    (hs : Inv G s) (h : step G s (.retire t) = some s') : Inv G s' := by
  obtain ⟨hst, rfl⟩ := retire_some h
  have hpend : ∀ p, pending G { s with st := upd s.st t .done, num := s.num - 1 } p = pending G s p := by
    intro p; apply pending_upd_same; simp [pending, hst]
  refine ⟨?_, ?_, ?_, ?_, ?_, ?_⟩
  · have hupd := sumOver_update hG.nodup ht (f := act s.st) (f' := act (upd s.st t .done))
      (by intro x _ hx; simp [act, upd_other _ _ _ hx])
    have h1 : act s.st t = 1 := by simp [act, hst, isActive]
    have h2 : act (upd s.st t .done) t = 0 := by simp [act, isActive]
    have := hs.num
    simp only
    omega
  · intro c hc; simp only [hpend]; exact hs.cnt c hc
  · intro c hc
    by_cases hx : c = t
    · subst hx
      have := (hs.ready c hc).2 (by rw [hst]; simp)
      simp only [upd_same]
      exact ⟨fun h' => (by cases h'), fun _ => this⟩
    · simp only [upd_other _ _ _ hx]; exact hs.ready c hc
  · intro a ha b hb hab hra hrb
    simp only at hra hrb
    by_cases hat : a = t
    · subst hat; simp only [upd_same] at hra; cases hra
    · by_cases hbt : b = t
      · subst hbt; simp only [upd_same] at hrb; cases hrb
      · rw [upd_other _ _ _ hat] at hra; rw [upd_other _ _ _ hbt] at hrb
        exact hs.excl a ha b hb hab hra hrb
  · intro x hx
    by_cases hxt : x = t
    · subst hxt; simp only [upd_same]; rw [hs.execd x hx, hst]; rfl
    · simp only [upd_other _ _ _ hxt]; exact hs.execd x hx
  · intro x hx rem hrem
    by_cases hxt : x = t
    · subst hxt; simp only [upd_same] at hrem; cases hrem
    · simp only [upd_other _ _ _ hxt] at hrem; exact hs.remIn x hx rem hrem

end CMacVerif.Worker

namespace CMacVerif.Worker
variable {τ ρ : Type} [DecidableEq τ] [DecidableEq ρ]

theorem releaseChild_inv (G : Graph τ ρ) (hG : WF G) (s s' : WState τ) (t : τ) (ht : t ∈ G.univ)
    (hs : Inv G s) (h : step G s (.releaseChild t) = some s') : Inv G s' := by
  obtain ⟨c, rem, hst, hs'⟩ := releaseChild_some h
  have hcU : c ∈ G.univ := hs.remIn t ht _ hst c List.mem_cons_self
  have hpt : pending G s t = c :: rem := by simp [pending, hst]
  have hcnt1 : 1 ≤ s.cnt c := by
    rw [hs.cnt c hcU]
    have := sumOver_le ht (fun p => (pending G s p).count c)
    simp only [hpt, List.count_cons_self] at this
    omega
  have hcNR : s.st c = .notReady := by
    by_cases hne : s.st c = .notReady
    · exact hne
    · have := (hs.ready c hcU).2 hne
      omega
  have hct : c ≠ t := by
    intro e; rw [e, hst] at hcNR; cases hcNR
  -- the new status function in both cases agrees with `st2` outside {t, c}
  have key : ∀ (st' : τ → Status τ) (cnt' : τ → Nat) (num' : Nat),
      st' t = .releasing rem →
      (st' c = .notReady ∨ st' c = .queued) →
      (∀ x, x ≠ t → x ≠ c → st' x = s.st x) →
      cnt' = upd s.cnt c (s.cnt c - 1) →
      (st' c = .notReady → 2 ≤ s.cnt c) → (st' c = .queued → s.cnt c = 1) →
      num' = s.num + (if st' c = .queued then 1 else 0) →
      Inv G { st := st', cnt := cnt', num := num', execd := s.execd } := by
    intro st' cnt' num' h1 h2 h3 h4 h5 h6 h7
    have hpend : ∀ p, pending G { st := st', cnt := cnt', num := num', execd := s.execd } p
        = if p = t then rem else pending G s p := by
      intro p
      by_cases hp : p = t
      · subst hp; simp [pending, h1]
      · simp only [hp, if_false]
        by_cases hpc : p = c
        · subst hpc
          rcases h2 with h2 | h2 <;> simp [pending, h2, hcNR]
        · simp [pending, h3 p hp hpc]
    refine ⟨?_, ?_, ?_, ?_, ?_, ?_⟩
    · -- num
      simp only
      have hupd := sumOver_update hG.nodup hcU (f := act s.st) (f' := act st')
        (by
          intro x _ hx
          by_cases hxt : x = t
          · subst hxt; simp [act, h1, hst, isActive]
          · simp [act, h3 x hxt hx])
      have ha : act s.st c = 0 := by simp [act, hcNR, isActive]
      have := hs.num
      rcases h2 with h2 | h2
      · have hb : act st' c = 0 := by simp [act, h2, isActive]
        simp only [h2] at h7
        simp at h7
        omega
      · have hb : act st' c = 1 := by simp [act, h2, isActive]
        simp only [h2, if_true] at h7
        omega
    · -- cnt
      intro c' hc'
      simp only [hpend]
      have hupd := sumOver_update hG.nodup ht (f := fun p => (pending G s p).count c')
        (f' := fun p => (if p = t then rem else pending G s p).count c')
        (by intro x _ hx; simp [hx])
      simp only [if_true, hpt] at hupd
      have hold := hs.cnt c' hc'
      subst h4
      by_cases hcc : c' = c
      · subst hcc
        simp only [upd_same, List.count_cons_self] at hupd ⊢
        omega
      · rw [upd_other _ _ _ hcc]
        have : (c :: rem).count c' = rem.count c' := by
          simp [List.count_cons, Ne.symm hcc]
        rw [this] at hupd
        omega
    · -- ready
      intro x hx
      subst h4
      by_cases hxc : x = c
      · subst hxc
        simp only [upd_same]
        rcases h2 with h2 | h2
        · have := h5 h2
          exact ⟨fun _ => by omega, fun hne => absurd h2 hne⟩
        · have := h6 h2
          exact ⟨fun hn => (by rw [h2] at hn; cases hn), fun _ => by omega⟩
      · simp only [upd_other _ _ _ hxc]
        by_cases hxt : x = t
        · subst hxt
          have := (hs.ready x hx).2 (by rw [hst]; simp)
          exact ⟨fun hn => (by rw [h1] at hn; cases hn), fun _ => this⟩
        · simp only [h3 x hxt hxc]; exact hs.ready x hx
    · -- excl
      intro a ha b hb hab hra hrb
      simp only at hra hrb
      have hne : ∀ x, st' x = .running → x ≠ t ∧ x ≠ c := by
        intro x hx
        constructor
        · intro e; subst e; rw [h1] at hx; cases hx
        · intro e; subst e; rcases h2 with h2 | h2 <;> (rw [h2] at hx; cases hx)
      obtain ⟨hat, hac⟩ := hne a hra
      obtain ⟨hbt, hbc⟩ := hne b hrb
      rw [h3 a hat hac] at hra; rw [h3 b hbt hbc] at hrb
      exact hs.excl a ha b hb hab hra hrb
    · -- execd
      intro x hx
      simp only
      by_cases hxt : x = t
      · subst hxt; rw [hs.execd x hx, hst, h1]; rfl
      · by_cases hxc : x = c
        · subst hxc; rw [hs.execd x hx, hcNR]
          rcases h2 with h2 | h2 <;> rw [h2] <;> rfl
        · rw [h3 x hxt hxc]; exact hs.execd x hx
    · -- remIn
      intro x hx rem' hrem'
      simp only at hrem'
      by_cases hxt : x = t
      · subst hxt
        rw [h1] at hrem'; injection hrem' with hrem'; subst hrem'
        intro y hy
        exact hs.remIn x hx _ hst y (List.mem_cons_of_mem _ hy)
      · by_cases hxc : x = c
        · subst hxc; rcases h2 with h2 | h2 <;> (rw [h2] at hrem'; cases hrem')
        · rw [h3 x hxt hxc] at hrem'; exact hs.remIn x hx rem' hrem'
  rw [hs']
  by_cases hc1 : s.cnt c = 1
  · rw [if_pos hc1]
    apply key
    · simp [upd_other _ _ _ (Ne.symm hct)]
    · right; simp
    · intro x hxt hxc; simp [upd_other _ _ _ hxc, upd_other _ _ _ hxt]
    · rfl
    · intro h'; simp at h'
    · intro _; exact hc1
    · simp
  · rw [if_neg hc1]
    apply key
    · simp
    · left; rw [upd_other _ _ _ hct]; exact hcNR
    · intro x hxt _; simp [upd_other _ _ _ hxt]
    · rfl
    · intro _; omega
    · intro h'; rw [upd_other _ _ _ hct, hcNR] at h'; cases h'
    · rw [upd_other _ _ _ hct, hcNR]; simp

theorem step_inv (G : Graph τ ρ) (hG : WF G) (s s' : WState τ) (l : Label τ) (hl : labelTask l ∈ G.univ)
    (hs : Inv G s) (h : step G s l = some s') : Inv G s' := by
  cases l with
  | acquire t => exact acquire_inv G hG s s' t hl hs h
  | finishExec t => exact finishExec_inv G hG s s' t hl hs h
  | releaseChild t => exact releaseChild_inv G hG s s' t hl hs h
  | retire t => exact retire_inv G hG s s' t hl hs h

theorem run_inv (G : Graph τ ρ) (hG : WF G) (ls : List (Label τ)) (hl : ∀ l ∈ ls, labelTask l ∈ G.univ) :
    ∀ (s s' : WState τ), Inv G s → run G s ls = some s' → Inv G s' := by
  induction ls with
  | nil => intro s s' hs h; simp only [run] at h; injection h with h; subst h; exact hs
  | cons l ls ih =>
    intro s s' hs h
    simp only [run] at h
    cases hstep : step G s l with
    | none => rw [hstep] at h; cases h
    | some s1 =>
      rw [hstep] at h
      exact ih (fun l' hl' => hl l' (List.mem_cons_of_mem _ hl')) s1 s'
        (step_inv G hG s s1 l (hl l List.mem_cons_self) hs hstep) h

end CMacVerif.Worker
