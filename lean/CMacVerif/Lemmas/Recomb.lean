import CMacVerif.Model.Recomb
import CMacVerif.Inst.Real
import CMacVerif.Lemmas.Verner
import Mathlib.Order.Monotone.Basic
/-!
# C18 — lemmas about the recombination and charge-transfer models over ℝ
-/
namespace CMacVerif.Verner
open CMacVerif CMacVerif.Gen.Verner CMacVerif.Locate

/-! ## Verner & Ferland formula (4) with literal coefficients (H, He) -/

/-- denominator of formula (4) -/
noncomputable def vfDen (t1 t2 b1 b2 T : ℝ) : ℝ :=
  Real.sqrt (T / t1) * (1 + Real.sqrt (T / t1)) ^ b1 * (1 + Real.sqrt (T / t2)) ^ b2

theorem vfFit_eq (a t1 t2 b1 b2 T : ℝ) : vfFit a t1 t2 b1 b2 T = a / vfDen t1 t2 b1 b2 T := by
  unfold vfFit vfDen; simp only [pow_real, sqrt_real, one_lit]

theorem vfDen_pos {t1 t2 b1 b2 T : ℝ} (h1 : 0 < t1) (h2 : 0 < t2) (hT : 0 < T) : 0 < vfDen t1 t2 b1 b2 T := by
  unfold vfDen
  have s1 : 0 < Real.sqrt (T / t1) := Real.sqrt_pos.mpr (div_pos hT h1)
  exact mul_pos (mul_pos s1 (Real.rpow_pos_of_pos (by positivity) _)) (Real.rpow_pos_of_pos (by positivity) _)

theorem vfDen_lt {t1 t2 b1 b2 T T' : ℝ} (h1 : 0 < t1) (h2 : 0 < t2) (hb1 : 0 ≤ b1) (hb2 : 0 ≤ b2)
    (hT : 0 < T) (hTT : T < T') : vfDen t1 t2 b1 b2 T < vfDen t1 t2 b1 b2 T' := by
  unfold vfDen
  have hT' : 0 < T' := lt_trans hT hTT
  have s1 : Real.sqrt (T / t1) < Real.sqrt (T' / t1) :=
    Real.sqrt_lt_sqrt (div_pos hT h1).le (div_lt_div_of_pos_right hTT h1)
  have s2 : Real.sqrt (T / t2) ≤ Real.sqrt (T' / t2) :=
    Real.sqrt_le_sqrt (div_le_div_of_nonneg_right hTT.le h2.le)
  have p1 : (1 + Real.sqrt (T / t1)) ^ b1 ≤ (1 + Real.sqrt (T' / t1)) ^ b1 :=
    Real.rpow_le_rpow (by positivity) (by linarith) hb1
  have p2 : (1 + Real.sqrt (T / t2)) ^ b2 ≤ (1 + Real.sqrt (T' / t2)) ^ b2 :=
    Real.rpow_le_rpow (by positivity) (by linarith) hb2
  have q1 : 0 < (1 + Real.sqrt (T / t1)) ^ b1 := Real.rpow_pos_of_pos (by positivity) _
  have q2 : 0 < (1 + Real.sqrt (T / t2)) ^ b2 := Real.rpow_pos_of_pos (by positivity) _
  have s0 : 0 < Real.sqrt (T / t1) := Real.sqrt_pos.mpr (div_pos hT h1)
  have m1 : Real.sqrt (T / t1) * (1 + Real.sqrt (T / t1)) ^ b1 <
      Real.sqrt (T' / t1) * (1 + Real.sqrt (T' / t1)) ^ b1 :=
    mul_lt_mul s1 p1 q1 (Real.sqrt_nonneg _)
  exact mul_lt_mul m1 p2 q2 (mul_nonneg (Real.sqrt_nonneg _) (Real.rpow_nonneg (by positivity) _))

theorem vfFit_pos {a t1 t2 b1 b2 T : ℝ} (ha : 0 < a) (h1 : 0 < t1) (h2 : 0 < t2) (hT : 0 < T) :
    0 < vfFit a t1 t2 b1 b2 T := by
  rw [vfFit_eq]; exact div_pos ha (vfDen_pos h1 h2 hT)

theorem vfFit_lt {a t1 t2 b1 b2 T T' : ℝ} (ha : 0 < a) (h1 : 0 < t1) (h2 : 0 < t2) (hb1 : 0 ≤ b1)
    (hb2 : 0 ≤ b2) (hT : 0 < T) (hTT : T < T') : vfFit a t1 t2 b1 b2 T' < vfFit a t1 t2 b1 b2 T := by
  rw [vfFit_eq, vfFit_eq]
  exact div_lt_div_of_pos_left ha (vfDen_pos h1 h2 hT) (vfDen_lt h1 h2 hb1 hb2 hT hTT)

/-! ## the final `rate *= 1.e-6; return std::max(0., rate)` -/

theorem recombinationRate_eq_max (ion : Ion) (T : ℝ) :
    recombinationRate ion T = max 0 (rateCgs ion T * 1e-6) := by
  unfold recombinationRate; rw [amax_real, zero_lit]; norm_num

theorem recombinationRate_nonneg (ion : Ion) (T : ℝ) : 0 ≤ recombinationRate ion T := by
  rw [recombinationRate_eq_max]; exact le_max_left _ _

theorem recombinationRate_of_pos {ion : Ion} {T : ℝ} (h : 0 < rateCgs ion T) :
    recombinationRate ion T = rateCgs ion T * 1e-6 := by
  rw [recombinationRate_eq_max]; exact max_eq_right (by positivity)

theorem recombinationRate_pos {ion : Ion} {T : ℝ} (h : 0 < rateCgs ion T) : 0 < recombinationRate ion T := by
  rw [recombinationRate_of_pos h]; positivity

/-! ## radiative fits of `get_recombination_rate_verner` -/

theorem invNZ_pos {x : ℝ} (h : 0 < x) : 0 < invNZ x := by
  unfold invNZ
  rw [if_pos (Or.inr (by rwa [zero_lit])), one_lit]
  exact one_div_pos.mpr h

theorem recNew_pos (row : RecRow ℝ) (T : ℝ) (h0 : 0 < row.rnew0) (h2 : 0 < row.rnew2)
    (hT : 0 < T) : 0 < recNew row T := by
  unfold recNew
  simp only [pow_real, sqrt_real, one_lit]
  have tt : 0 < Real.sqrt (T * invNZ row.rnew2) := Real.sqrt_pos.mpr (mul_pos hT (invNZ_pos h2))
  exact div_pos h0 (mul_pos (mul_pos tt (Real.rpow_pos_of_pos (by linarith) _))
    (Real.rpow_pos_of_pos (by positivity) _))

theorem recPow_pos (row : RecRow ℝ) (T : ℝ) (h0 : 0 < row.rrec0) (hT : 0 < T) : 0 < recPow row T := by
  unfold recPow
  simp only [pow_real]
  exact mul_pos h0 (Real.rpow_pos_of_pos (mul_pos hT (by norm_num)) _)

theorem recFe_pos (f : FeRow ℝ) (T : ℝ) (h0 : 0 < f.fe0) (hT : 0 < T) : 0 < recFe f T := by
  unfold recFe
  simp only [pow_real]
  exact mul_pos h0 (Real.rpow_pos_of_pos (mul_pos hT (by norm_num)) _)

/-- what positivity of the radiative fit needs of the generated row, per branch -/
def RecWF (z n : ℕ) : Prop :=
  match recBranch z n with
  | .rnew => 0 < (recRow (α := ℝ) z n).rnew0 ∧ 0 < (recRow (α := ℝ) z n).rnew2
  | .fe => 0 < (feRow (α := ℝ) n).fe0
  | .rrec => 0 < (recRow (α := ℝ) z n).rrec0

theorem recVerner_pos {z n : ℕ} {T : ℝ} (h : RecWF z n) (hT : 0 < T) : 0 < recVerner z n T := by
  unfold recVerner
  unfold RecWF at h
  cases hb : recBranch z n with
  | rnew => rw [hb] at h; simp only; exact recNew_pos _ T h.1 h.2 hT
  | fe => rw [hb] at h; simp only; exact recFe_pos _ T h hT
  | rrec => rw [hb] at h; simp only; exact recPow_pos _ T h hT

/-! ## dielectronic terms -/

theorem nsFit_nonneg (a b c d f T : ℝ) (hT : 0 ≤ T)
    (hp : 0 ≤ a * (1 / (T * 1e-4)) + b + c * (T * 1e-4) + d * (T * 1e-4) * (T * 1e-4)) :
    0 ≤ nsFit a b c d f T := by
  unfold nsFit
  simp only [pow_real, exp_real, one_lit]
  have h12 : (0 : ℝ) ≤ 1.0e-12 := by norm_num
  have e4 : (1.0e-4 : ℝ) = 1e-4 := by norm_num
  rw [e4]
  exact mul_nonneg (mul_nonneg (mul_nonneg h12 hp) (Real.rpow_nonneg (by positivity) _)) (Real.exp_pos _).le

theorem nsFitN_nonneg (b c d f T : ℝ) (hT : 0 ≤ T)
    (hp : 0 ≤ b + c * (T * 1e-4) - d * (T * 1e-4) * (T * 1e-4)) : 0 ≤ nsFitN b c d f T := by
  unfold nsFitN
  simp only [pow_real, exp_real]
  have h12 : (0 : ℝ) ≤ 1.0e-12 := by norm_num
  have e4 : (1.0e-4 : ℝ) = 1e-4 := by norm_num
  rw [e4]
  exact mul_nonneg (mul_nonneg (mul_nonneg h12 hp) (Real.rpow_nonneg (by positivity) _)) (Real.exp_pos _).le

/-- the ions whose dielectronic term is proved non-negative on (0, 1e5 K] -/
def dielNonnegIons : List Ion := [.C_p1, .C_p2, .N_n, .N_p1, .Ne_n, .S_p1, .S_p2, .S_p3]

theorem dielectronic_nonneg (ion : Ion) (hi : ion ∈ dielNonnegIons) (T : ℝ) (h0 : 0 < T) (h1 : T ≤ 1e5) :
    0 ≤ dielectronic ion T := by
  have hu : 0 < 1 / (T * 1e-4) := by positivity
  have hx : 0 < T * 1e-4 := by positivity
  have hx10 : T * 1e-4 ≤ 10 := by norm_num at h1 ⊢; linarith
  have hux : 1 / (T * 1e-4) * (T * 1e-4) = 1 := by field_simp
  simp only [dielNonnegIons, List.mem_cons, List.mem_nil_iff, or_false] at hi
  rcases hi with rfl | rfl | rfl | rfl | rfl | rfl | rfl | rfl
  · -- C_p1: all coefficients positive
    exact nsFit_nonneg _ _ _ _ _ T h0.le (by positivity)
  · -- C_p2: 6.8830 x - 0.1824 x² ≥ 0 for x ≤ 10
    refine nsFit_nonneg _ _ _ _ _ T h0.le ?_
    nlinarith [mul_pos hx hx]
  · -- N_n
    refine nsFitN_nonneg _ _ _ _ T h0.le ?_
    nlinarith [mul_pos hx hx]
  · -- N_p1: 0.0320 / x + 4.3191 x ≥ 2 √(0.0320 · 4.3191) > 0.6624 (AM-GM)
    refine nsFit_nonneg _ _ _ _ _ T h0.le ?_
    nlinarith [sq_nonneg (0.0320 * (1 / (T * 1e-4)) - 4.3191 * (T * 1e-4)), mul_pos hx hx, mul_pos hu hx,
      sq_nonneg (0.0320 * (1 / (T * 1e-4)) + 4.3191 * (T * 1e-4) - 0.7), mul_pos hu hu]
  · -- Ne_n: no dielectronic term
    simp only [dielectronic]; rw [zero_lit]
  · -- S_p1
    simp only [dielectronic, pow_real, exp_real]
    exact mul_nonneg (mul_nonneg (by norm_num) (Real.exp_pos _).le) (Real.rpow_nonneg (by positivity) _)
  · -- S_p2
    simp only [dielectronic, pow_real, exp_real]
    exact mul_nonneg (add_nonneg (mul_nonneg (by norm_num) (Real.exp_pos _).le) (mul_nonneg (by norm_num) (Real.exp_pos _).le))
      (Real.rpow_nonneg (by positivity) _)
  · -- S_p3
    simp only [dielectronic, pow_real, exp_real]
    refine mul_nonneg ?_ (Real.rpow_nonneg h0.le _)
    have e := fun y : ℝ => (Real.exp_pos y).le
    have c1 : (0:ℝ) ≤ 5.817e-7 := by norm_num
    have c2 : (0:ℝ) ≤ 1.391e-6 := by norm_num
    have c3 : (0:ℝ) ≤ 1.123e-5 := by norm_num
    have c4 : (0:ℝ) ≤ 1.521e-4 := by norm_num
    have c5 : (0:ℝ) ≤ 1.875e-3 := by norm_num
    have c6 : (0:ℝ) ≤ 2.097e-2 := by norm_num
    exact add_nonneg (add_nonneg (add_nonneg (add_nonneg (add_nonneg (mul_nonneg c1 (e _)) (mul_nonneg c2 (e _)))
      (mul_nonneg c3 (e _))) (mul_nonneg c4 (e _))) (mul_nonneg c5 (e _))) (mul_nonneg c6 (e _))

/-! ## charge transfer -/

theorem safeT_eq (lo hi T4 : ℝ) : safeT lo hi T4 = min (max T4 lo) hi := by
  unfold safeT; rw [amin_real, amax_real]

theorem safeT_pos {lo hi : ℝ} (T4 : ℝ) (hlo : 0 < lo) (hhi : 0 < hi) : 0 < safeT lo hi T4 := by
  rw [safeT_eq]; exact lt_min (lt_of_lt_of_le hlo (le_max_right _ _)) hhi

theorem kfPlus_nonneg {c p a b lo hi : ℝ} (T4 : ℝ) (hc : 0 ≤ c) (ha : 0 ≤ a) (hlo : 0 < lo) (hhi : 0 < hi) :
    0 ≤ kfPlus c p a b lo hi T4 := by
  unfold kfPlus
  simp only [pow_real, exp_real, one_lit]
  have hs := safeT_pos T4 hlo hhi
  exact mul_nonneg (mul_nonneg hc (Real.rpow_nonneg hs.le _))
    (add_nonneg zero_le_one (mul_nonneg ha (Real.exp_pos _).le))

theorem kfMinus_nonneg {c p a b lo hi : ℝ} (T4 : ℝ) (hc : 0 ≤ c) (ha : 0 ≤ a) (ha1 : a ≤ 1) (hb : 0 ≤ b)
    (hlo : 0 < lo) (hhi : 0 < hi) : 0 ≤ kfMinus c p a b lo hi T4 := by
  unfold kfMinus
  simp only [pow_real, exp_real, one_lit]
  have hs := safeT_pos T4 hlo hhi
  have he : Real.exp (-b * safeT lo hi T4) ≤ 1 := by
    rw [Real.exp_le_one_iff]; nlinarith
  have : a * Real.exp (-b * safeT lo hi T4) ≤ 1 := by
    have := Real.exp_pos (-b * safeT lo hi T4); nlinarith
  exact mul_nonneg (mul_nonneg hc (Real.rpow_nonneg hs.le _)) (by linarith)

theorem ctRecH_nonneg (ion : Ion) (T4 : ℝ) : 0 ≤ ctRecH ion T4 := by
  cases ion <;> simp only [ctRecH] <;>
    first
    | (rw [zero_lit])
    | (apply kfPlus_nonneg <;> norm_num)
    | (apply kfMinus_nonneg <;> norm_num)
    | norm_num

theorem ctIonH_nonneg (ion : Ion) (T4 : ℝ) : 0 ≤ ctIonH ion T4 := by
  cases ion <;> simp only [ctIonH] <;> try (rw [zero_lit])
  · -- N_n
    simp only [pow_real, exp_real, one_lit]
    have hs := safeT_pos (lo := 0.01) (hi := 5.0) T4 (by norm_num) (by norm_num)
    have he : Real.exp (-8.38 * safeT 0.01 5.0 T4) ≤ 1 := by rw [Real.exp_le_one_iff]; nlinarith
    have hp := Real.exp_pos (-8.38 * safeT 0.01 5.0 T4)
    exact mul_nonneg (mul_nonneg (mul_nonneg (by norm_num) (Real.rpow_nonneg hs.le _)) (by nlinarith)) (Real.exp_pos _).le
  · -- O_n
    simp only [pow_real, exp_real]
    have hs := safeT_pos (lo := 0.001) (hi := 1.0) T4 (by norm_num) (by norm_num)
    exact mul_nonneg (mul_nonneg (mul_nonneg (by norm_num) (Real.rpow_nonneg hs.le _))
      (add_nonneg (by norm_num) (mul_nonneg (by norm_num) (Real.exp_pos _).le))) (Real.exp_pos _).le

theorem ctRecHe_nonneg (ion : Ion) (T4 : ℝ) : 0 ≤ ctRecHe ion T4 := by
  cases ion <;> simp only [ctRecHe] <;> try (rw [zero_lit])
  · -- C_p2
    have hs := safeT_pos (lo := 0.1) (hi := 3.0) T4 (by norm_num) (by norm_num)
    exact mul_nonneg (mul_nonneg (by norm_num) hs.le) hs.le
  · apply kfPlus_nonneg <;> norm_num
  · norm_num
  · simp only [pow_real]
    have hs := safeT_pos (lo := 0.5) (hi := 5.0) T4 (by norm_num) (by norm_num)
    exact mul_nonneg (by norm_num) (Real.rpow_nonneg hs.le _)
  · norm_num
  · simp only [pow_real]
    have hs := safeT_pos (lo := 0.1) (hi := 3.0) T4 (by norm_num) (by norm_num)
    exact mul_nonneg (by norm_num) (Real.rpow_nonneg hs.le _)
  · apply kfPlus_nonneg <;> norm_num

end CMacVerif.Verner
