import CMacVerif.Lemmas.PhotonEnd
/-! C01: the cached "largest active buffer" of a subgrid (`_largest_buffer_index/_size`) always
describes a real, largest active buffer -- so a premature launch never touches a missing buffer, and a
subgrid that has an active buffer can always be launched prematurely. -/
namespace CMacVerif.Photon

/-- the cache of subgrid g is consistent with its active buffers -/
structure CacheOK (s : State) (g : Nat) : Prop where
  bound : ∀ d a, s.active g d = some a → bufLen s.pool a ≤ (s.largest g).2
  none : (s.largest g).1 = NDIR → (s.largest g).2 = 0
  some : (s.largest g).1 ≠ NDIR → ∃ a, s.active g (s.largest g).1 = some a ∧ bufLen s.pool a = (s.largest g).2

structure Cache (s : State) : Prop where
  ok : ∀ g, CacheOK s g
  range : ∀ g d a, s.active g d = some a → d < NDIR

theorem cache_frame {s s' : State} {g : Nat} (h : CacheOK s g) (hl : s'.largest g = s.largest g)
    (ha : ∀ d, s'.active g d = s.active g d)
    (hp : ∀ d a, s.active g d = some a → bufLen s'.pool a = bufLen s.pool a) : CacheOK s' g := by
  refine ⟨?_, ?_, ?_⟩
  · intro d a hda; rw [ha] at hda; rw [hl, hp d a hda]; exact h.bound d a hda
  · rw [hl]; exact h.none
  · rw [hl]; intro hne
    obtain ⟨a, h1, h2⟩ := h.some hne
    exact ⟨a, by rw [ha]; exact h1, by rw [hp _ a h1]; exact h2⟩

theorem bufLen_upd_other (pool : Nat → Option Buf) (b : Nat) (v : Option Buf) {a : Nat} (h : a ≠ b) :
    bufLen (upd pool b v) a = bufLen pool a := by
  simp only [bufLen, upd_other _ _ _ h]

/-- labels that keep `largest`, `active` and the buffers the active entries point to -/
theorem cache_keep {cfg : Cfg} {s s' : State} (hi : Inv cfg s) (hc : Cache s) (hl : s'.largest = s.largest)
    (ha : s'.active = s.active)
    (hp : ∀ a, (∃ g d, s.active g d = some a) → bufLen s'.pool a = bufLen s.pool a) : Cache s' := by
  refine ⟨fun g => cache_frame (hc.ok g) (by rw [hl]) (fun d => by rw [ha]) (fun d a h => hp a ⟨g, d, h⟩), ?_⟩
  intro g d a h; rw [ha] at h; exact hc.range g d a h

/-- an active buffer is in use and is not referenced by a task -/
theorem active_ne_free {cfg : Cfg} {s : State} (hi : Inv cfg s) {g d a b : Nat} (h : s.active g d = some a)
    (hb : s.pool b = none) : a ≠ b := by
  intro e; subst e
  obtain ⟨buf, hp, _⟩ := hi.own.live (.act g d) a h
  rw [hb] at hp; cases hp

theorem active_ne_task {cfg : Cfg} {s : State} (hi : Inv cfg s) {g d a t b : Nat} (h : s.active g d = some a)
    (hb : refBuf s (.task t) = some b) : a ≠ b := by
  intro e; subst e
  have := hi.own.uniq (.act g d) (.task t) a h hb
  cases this

/-! ### recomputation after a premature launch -/

/-- (index, size) is the first largest among the active buffers of the directions below n -/
structure Part (s : State) (g : Nat) (p : Nat → Prop) (li ls n : Nat) : Prop where
  bound : ∀ d a, d < n → p d → s.active g d = some a → bufLen s.pool a ≤ ls
  none : li = NDIR → ls = 0
  some : li ≠ NDIR → li < n ∧ ∃ a, s.active g li = some a ∧ bufLen s.pool a = ls

theorem recompute_fold (s : State) (g : Nat) : ∀ (m n : Nat) (acc : Nat × Nat), n + m ≤ NDIR →
    Part s g (fun _ => True) acc.1 acc.2 n →
    Part s g (fun _ => True)
      ((List.range' n m).foldl (fun (acc : Nat × Nat) i =>
        match s.active g i with
        | some b => if acc.2 < bufLen s.pool b then (i, bufLen s.pool b) else acc
        | none => acc) acc).1
      ((List.range' n m).foldl (fun (acc : Nat × Nat) i =>
        match s.active g i with
        | some b => if acc.2 < bufLen s.pool b then (i, bufLen s.pool b) else acc
        | none => acc) acc).2 (n + m) := by
  intro m
  induction m with
  | zero => intro n acc _ h; simpa using h
  | succ m ih =>
    intro n acc hn h
    simp only [List.range'_succ, List.foldl_cons]
    have hstep : Part s g (fun _ => True)
        (match s.active g n with
          | some b => if acc.2 < bufLen s.pool b then (n, bufLen s.pool b) else acc
          | none => acc).1
        (match s.active g n with
          | some b => if acc.2 < bufLen s.pool b then (n, bufLen s.pool b) else acc
          | none => acc).2 (n + 1) := by
      cases han : s.active g n with
      | none =>
        simp only
        refine ⟨?_, h.none, ?_⟩
        · intro d a hd _ hda
          by_cases e : d = n
          · subst e; rw [han] at hda; cases hda
          · exact h.bound d a (by omega) trivial hda
        · intro hne; obtain ⟨h1, h2⟩ := h.some hne; exact ⟨by omega, h2⟩
      | some b =>
        simp only
        by_cases hlt : acc.2 < bufLen s.pool b
        · rw [if_pos hlt]
          refine ⟨?_, ?_, ?_⟩
          · intro d a hd _ hda
            by_cases e : d = n
            · subst e; rw [han] at hda; injection hda with hda; subst hda; exact Nat.le_refl _
            · have := h.bound d a (by omega) trivial hda; simp only; omega
          · intro e; simp only at e; omega
          · intro _; exact ⟨by simp, b, han, rfl⟩
        · rw [if_neg hlt]
          refine ⟨?_, h.none, ?_⟩
          · intro d a hd _ hda
            by_cases e : d = n
            · subst e; rw [han] at hda; injection hda with hda; subst hda; omega
            · exact h.bound d a (by omega) trivial hda
          · intro hne; obtain ⟨h1, h2⟩ := h.some hne; exact ⟨by omega, h2⟩
    have := ih (n + 1) _ (by omega) hstep
    have e : n + 1 + m = n + (m + 1) := by omega
    rw [e] at this
    exact this

theorem recompute_spec (s : State) (g : Nat) :
    Part s g (fun _ => True) (recomputeLargest s g).1 (recomputeLargest s g).2 NDIR := by
  have h0 : Part s g (fun _ => True) NDIR 0 0 :=
    ⟨fun d a hd => by omega, fun _ => rfl, fun h => absurd rfl h⟩
  have := recompute_fold s g NDIR 0 (NDIR, 0) (by omega) h0
  simp only [Nat.zero_add] at this
  unfold recomputeLargest
  rw [List.range_eq_range']
  exact this

theorem cache_premature {cfg : Cfg} {s s' : State} {g t' : Nat} (hi : Inv cfg s) (hc : Cache s)
    (h : step cfg s (.premature g t') = some s') : Cache s' := by
  obtain ⟨b, _, _, _, _, _, hact, rfl⟩ := step_premature h
  refine ⟨?_, ?_⟩
  · intro g'
    by_cases e : g' = g
    · subst e
      have hs := recompute_spec { s with active := upd2 s.active g' (s.largest g').1 none, tasks := upd s.tasks t' (some ⟨fullKind (s.largest g').1 b, .queued⟩) } g'
      refine ⟨?_, ?_, ?_⟩
      · intro d a hda
        simp only [upd_same]
        have hd : d < NDIR := by
          by_cases e : d = (s.largest g').1
          · subst e; simp at hda
          · dsimp only at hda
            rw [upd2_other _ _ _ _ (by intro h; exact e h.2)] at hda
            exact hc.range g' d a hda
        exact hs.bound d a hd trivial hda
      · simp only [upd_same]; exact hs.none
      · simp only [upd_same]; intro hne; exact (hs.some hne).2
    · refine cache_frame (hc.ok g') ?_ ?_ ?_
      · exact upd_other _ _ _ e
      · intro d; exact upd2_other _ _ _ _ (by intro h; exact e h.1)
      · intro d a _; rfl
  · intro g' d a hda
    by_cases e : g' = g ∧ d = (s.largest g).1
    · obtain ⟨e1, e2⟩ := e; subst e1; subst e2; simp at hda
    · dsimp only at hda
      rw [upd2_other _ _ _ _ e] at hda; exact hc.range g' d a hda

/-! ### traversal -/

/-- what the active buffers of the other entries see of one traversal direction -/
theorem dir_other_entries {cfg : Cfg} {s s1 : State} {g i : Nat} (hi : Inv cfg s) (hF : DirFrame s s1 g i)
    {g' j a : Nat} (hne : ¬(g' = g ∧ j = i)) (h : s.active g' j = some a) :
    s1.active g' j = some a ∧ bufLen s1.pool a = bufLen s.pool a := by
  refine ⟨by rw [hF.actKeep g' j hne]; exact h, ?_⟩
  obtain ⟨buf, hp, _⟩ := hi.own.live (.act g' j) a h
  have hna : s.active g i ≠ some a := by
    intro e
    have := hi.own.uniq (.act g' j) (.act g i) a h e
    injection this with e1 e2
    exact hne ⟨e1, e2⟩
  simp only [bufLen, hF.poolKeep a (by rw [hp]; simp) hna]

theorem trav_fold_cache {cfg : Cfg} {g t b0 : Nat} {outs : Nat → List Nat} {res : Nat → DirRes} {st : TSt} {bb : Buf}
    (houts : ∀ i, (outs i).length ≤ BUFSZ) :
    ∀ (m n : Nat) (acc acc' : State × Nat × Nat), Inv cfg acc.1 →
      acc.1.tasks t = some ⟨.traverse b0, st⟩ → acc.1.pool b0 = some bb →
      foldOpt (travDir cfg g outs res) acc (List.range' n m) = some acc' →
      (∀ g', g' ≠ g → CacheOK acc.1 g') → (∀ g' d a, acc.1.active g' d = some a → d < NDIR) → n + m ≤ NDIR →
      Part acc.1 g (fun d => (cfg.ngb g d).isSome = true) acc.2.1 acc.2.2 n →
      (∀ g', g' ≠ g → CacheOK acc'.1 g') ∧ (∀ g' d a, acc'.1.active g' d = some a → d < NDIR) ∧
      Part acc'.1 g (fun d => (cfg.ngb g d).isSome = true) acc'.2.1 acc'.2.2 (n + m) := by
  intro m
  induction m with
  | zero =>
    intro n acc acc' _ _ _ h hc hr _ hp
    simp only [List.range'_zero, foldOpt] at h; injection h with h; subst h
    exact ⟨hc, hr, by simpa using hp⟩
  | succ m ih =>
    intro n acc acc' hi ht hb h hc hr hn hp
    simp only [List.range'_succ, foldOpt] at h
    split at h
    · cases h
    · rename_i acc1 hstep
      simp only [travDir] at hstep
      split at hstep
      · cases hstep
      · rename_i s1 hs1
        injection hstep with hstep
        have hI1 := (travDirState_inv hi (houts n) hs1).1
        have hF := travDirState_frame hs1
        have ht1 : s1.tasks t = some ⟨.traverse b0, st⟩ := by
          rw [hF.tasksKeep t (by rw [ht]; simp)]; exact ht
        have hnact : acc.1.active g n ≠ some b0 := by
          intro e
          have hr' : refBuf acc.1 (.task t) = some b0 := by rw [refBuf_task_some ht]; rfl
          have := hi.own.uniq (.act g n) (.task t) b0 e hr'
          cases this
        have hb1 : s1.pool b0 = some bb := by
          rw [hF.poolKeep b0 (by rw [hb]; simp) hnact]; exact hb
        have hacc1 : acc1 = (s1, travLargest cfg g n s1 acc.2.1 acc.2.2) := hstep.symm
        -- other subgrids
        have hc1 : ∀ g', g' ≠ g → CacheOK s1 g' := by
          intro g' hg'
          refine cache_frame (hc g' hg') (by rw [hF.rest.2.2.2.2.2.1]) ?_ ?_
          · intro d; exact hF.actKeep g' d (by intro e; exact hg' e.1)
          · intro d a hda; exact (dir_other_entries hi hF (by intro e; exact hg' e.1) hda).2
        have hr1 : ∀ g' d a, s1.active g' d = some a → d < NDIR := by
          intro g' d a hda
          by_cases e : g' = g ∧ d = n
          · rw [e.2]; omega
          · rw [hF.actKeep g' d e] at hda; exact hr g' d a hda
        -- the subgrid itself
        have hp1 : Part s1 g (fun d => (cfg.ngb g d).isSome = true) (travLargest cfg g n s1 acc.2.1 acc.2.2).1
            (travLargest cfg g n s1 acc.2.1 acc.2.2).2 (n + 1) := by
          -- entries below n are untouched
          have hold : ∀ d a, d < n → s1.active g d = some a → acc.1.active g d = some a ∧ bufLen s1.pool a = bufLen acc.1.pool a := by
            intro d a hd hda
            have hne : ¬(g = g ∧ d = n) := by intro e; omega
            rw [hF.actKeep g d hne] at hda
            exact ⟨hda, (dir_other_entries hi hF hne hda).2⟩
          simp only [travLargest]
          cases hng : cfg.ngb g n with
          | none =>
            simp only
            refine ⟨?_, hp.none, ?_⟩
            · intro d a hd hpd hda
              by_cases e : d = n
              · subst e; rw [hng] at hpd; cases hpd
              · obtain ⟨h1, h2⟩ := hold d a (by omega) hda
                rw [h2]; exact hp.bound d a (by omega) hpd h1
            · intro hne
              obtain ⟨h1, a, h2, h3⟩ := hp.some hne
              have := dir_other_entries hi hF (g' := g) (j := acc.2.1) (by intro e; omega) h2
              exact ⟨by omega, a, this.1, by rw [this.2]; exact h3⟩
          | some ng =>
            cases han : s1.active g n with
            | none =>
              simp only
              refine ⟨?_, hp.none, ?_⟩
              · intro d a hd hpd hda
                by_cases e : d = n
                · subst e; rw [han] at hda; cases hda
                · obtain ⟨h1, h2⟩ := hold d a (by omega) hda
                  rw [h2]; exact hp.bound d a (by omega) hpd h1
              · intro hne
                obtain ⟨h1, a, h2, h3⟩ := hp.some hne
                have := dir_other_entries hi hF (g' := g) (j := acc.2.1) (by intro e; omega) h2
                exact ⟨by omega, a, this.1, by rw [this.2]; exact h3⟩
            | some b =>
              simp only
              by_cases hlt : acc.2.2 < bufLen s1.pool b
              · rw [if_pos hlt]
                refine ⟨?_, ?_, ?_⟩
                · intro d a hd hpd hda
                  by_cases e : d = n
                  · subst e; rw [han] at hda; injection hda with hda; subst hda; exact Nat.le_refl _
                  · obtain ⟨h1, h2⟩ := hold d a (by omega) hda
                    have := hp.bound d a (by omega) hpd h1
                    simp only; omega
                · intro e; simp only at e; omega
                · intro _; exact ⟨by simp, b, han, rfl⟩
              · rw [if_neg hlt]
                refine ⟨?_, hp.none, ?_⟩
                · intro d a hd hpd hda
                  by_cases e : d = n
                  · subst e; rw [han] at hda; injection hda with hda; subst hda; omega
                  · obtain ⟨h1, h2⟩ := hold d a (by omega) hda
                    rw [h2]; exact hp.bound d a (by omega) hpd h1
                · intro hne
                  obtain ⟨h1, a, h2, h3⟩ := hp.some hne
                  have := dir_other_entries hi hF (g' := g) (j := acc.2.1) (by intro e; omega) h2
                  exact ⟨by omega, a, this.1, by rw [this.2]; exact h3⟩
        have := ih (n + 1) acc1 acc' (by rw [hacc1]; exact hI1) (by rw [hacc1]; exact ht1) (by rw [hacc1]; exact hb1) h
          (by rw [hacc1]; exact hc1) (by rw [hacc1]; exact hr1) (by omega) (by rw [hacc1]; exact hp1)
        have e : n + 1 + m = n + (m + 1) := by omega
        rw [e] at this
        exact this

theorem cache_execTraverse {cfg : Cfg} {s s' : State} {t : Nat} {fates : List Nat} {res : List DirRes} (hi : Inv cfg s)
    (hc : Cache s) (h : step cfg s (.execTraverse t fates res) = some s') : Cache s' := by
  obtain ⟨b0, buf, s1, li, ls, hk, hb, hlen, _, hfold, rfl⟩ := step_execTraverse h
  have hrb : refBuf s (.task t) = some b0 := by rw [refBuf_task_some hk]; rfl
  obtain ⟨buf0, hb0, hok0⟩ := hi.own.live _ _ hrb
  rw [hb] at hb0; injection hb0 with hb0; subst hb0
  have houts : ∀ i, (outsOf cfg buf.sub (buf.ids.zip fates) i).length ≤ BUFSZ := by
    intro i
    have h1 := outsOf_length cfg buf.sub (buf.ids.zip fates) i
    have h2 : (buf.ids.zip fates).length = buf.ids.length := by rw [List.length_zip, hlen]; simp
    have := hok0.2
    omega
  rw [List.range_eq_range'] at hfold
  have hP0 : Part s buf.sub (fun d => (cfg.ngb buf.sub d).isSome = true) NDIR 0 0 :=
    ⟨fun d a hd => by omega, fun _ => rfl, fun h => absurd rfl h⟩
  obtain ⟨hc1, hr1, hp1⟩ := trav_fold_cache houts NDIR 0 (s, NDIR, 0) (s1, li, ls) hi hk hb hfold
    (fun g' _ => hc.ok g') hc.range (by omega) hP0
  obtain ⟨hI1, ht1, hb1, _, hrest⟩ := trav_fold houts (List.range' 0 NDIR) (s, NDIR, 0) (s1, li, ls) hi hk hb hfold
  simp only [Nat.zero_add] at hp1 hc1 hr1
  simp only at hI1 ht1 hb1
  have hrb1 : refBuf s1 (.task t) = some b0 := by rw [refBuf_task_some ht1]; rfl
  have hlenKeep : ∀ g' d a, s1.active g' d = some a → bufLen (upd s1.pool b0 none) a = bufLen s1.pool a := by
    intro g' d a hda
    exact bufLen_upd_other _ _ _ (active_ne_task hI1 hda hrb1)
  refine ⟨?_, ?_⟩
  · intro g'
    by_cases e : g' = buf.sub
    · subst e
      refine ⟨?_, ?_, ?_⟩
      · intro d a hda
        simp only [upd_same]
        show bufLen (upd s1.pool b0 none) a ≤ ls
        rw [hlenKeep _ d a hda]
        obtain ⟨bufa, _, hoka⟩ := hI1.own.live (.act buf.sub d) a hda
        exact hp1.bound d a (hr1 _ d a hda) hoka.2.2 hda
      · simp only [upd_same]; exact hp1.none
      · simp only [upd_same]; intro hne
        obtain ⟨_, a, h1, h2⟩ := hp1.some hne
        exact ⟨a, h1, by show bufLen (upd s1.pool b0 none) a = ls; rw [hlenKeep _ _ a h1]; exact h2⟩
    · refine cache_frame (hc1 g' e) ?_ ?_ ?_
      · exact upd_other _ _ _ e
      · intro d; rfl
      · intro d a hda; exact hlenKeep g' d a hda
  · intro g' d a hda; exact hr1 g' d a hda

/-! ### every label -/

theorem cache_step {cfg : Cfg} {s s' : State} (l : Label) (hi : Inv cfg s) (hc : Cache s)
    (h : step cfg s l = some s') : Cache s' := by
  cases l with
  | launchBatch src t =>
    obtain ⟨_, _, _, _, rfl⟩ := step_launchBatch h; exact cache_keep hi hc rfl rfl (fun _ _ => rfl)
  | launchCont t =>
    obtain ⟨_, _, _, _, rfl⟩ := step_launchCont h; exact cache_keep hi hc rfl rfl (fun _ _ => rfl)
  | acquire t => obtain ⟨_, _, _, rfl⟩ := step_acquire h; exact cache_keep hi hc rfl rfl (fun _ _ => rfl)
  | enqueue t => obtain ⟨_, _, rfl⟩ := step_enqueue h; exact cache_keep hi hc rfl rfl (fun _ _ => rfl)
  | execSource t b t' =>
    obtain ⟨_, _, _, _, hpb, _, _, rfl⟩ := step_execSource h
    refine cache_keep hi hc rfl rfl ?_
    rintro a ⟨g, d, hda⟩
    exact bufLen_upd_other _ _ _ (active_ne_free hi hda hpb)
  | contGen t g k =>
    obtain ⟨_, _, _, _, _, _, _, _, _, rfl⟩ := step_contGen h; exact cache_keep hi hc rfl rfl (fun _ _ => rfl)
  | contOverflow t g b t' =>
    obtain ⟨_, _, _, _, _, _, hpb, _, _, rfl⟩ := step_contOverflow h
    refine cache_keep hi hc rfl rfl ?_
    rintro a ⟨g', d, hda⟩
    exact bufLen_upd_other _ _ _ (active_ne_free hi hda hpb)
  | contFinish t fl =>
    obtain ⟨c, n, s2, _, _, _, rfl, hcase⟩ := step_contFinish h
    have : s2.largest = s.largest ∧ s2.active = s.active ∧ s2.pool = s.pool := by
      rcases hcase with ⟨_, _, _, hadd⟩ | ⟨_, _, rfl⟩ | ⟨_, rfl⟩
      · have hi1 : Inv cfg { s with contLeft := s.contLeft - n, flushCount := 1 } := inv_congr hi rfl rfl rfl rfl
        obtain ⟨_, _, hfr⟩ := addFlush_inv fl _ s2 0 hi1 (by omega) hadd
        exact ⟨hfr.2.2.2.2.2.2.2.1, hfr.2.1, hfr.1⟩
      · exact ⟨rfl, rfl, rfl⟩
      · exact ⟨rfl, rfl, rfl⟩
    exact cache_keep hi hc this.1 this.2.1 (fun a _ => by show bufLen s2.pool a = _; rw [this.2.2])
  | flushOne t g b t' =>
    obtain ⟨_, _, _, _, _, hpb, _, _, rfl⟩ := step_flushOne h
    refine cache_keep hi hc rfl rfl ?_
    rintro a ⟨g', d, hda⟩
    exact bufLen_upd_other _ _ _ (active_ne_free hi hda hpb)
  | flushFinish t => obtain ⟨_, _, _, rfl⟩ := step_flushFinish h; exact cache_keep hi hc rfl rfl (fun _ _ => rfl)
  | execTraverse t fates res => exact cache_execTraverse hi hc h
  | execReemit t keep t' =>
    obtain ⟨b, buf, hk, _, _, hcase⟩ := step_execReemit h
    have hrb : refBuf s (.task t) = some b := by rw [refBuf_task_some hk]; rfl
    rcases hcase with ⟨_, rfl⟩ | ⟨_, _, _, rfl⟩
    · refine cache_keep hi hc rfl rfl ?_
      rintro a ⟨g', d, hda⟩
      exact bufLen_upd_other _ _ _ (active_ne_task hi hda hrb)
    · refine cache_keep hi hc rfl rfl ?_
      rintro a ⟨g', d, hda⟩
      exact bufLen_upd_other _ _ _ (active_ne_task hi hda hrb)
  | premature g t' => exact cache_premature hi hc h
  | checkTermination =>
    obtain ⟨_, _, rfl⟩ := step_checkTermination h; exact cache_keep hi hc rfl rfl (fun _ _ => rfl)

theorem cache_init (srcIds : Nat → List Nat) (contIds : List Nat) : Cache (init srcIds contIds) := by
  refine ⟨fun g => ⟨?_, fun _ => rfl, fun h => absurd rfl h⟩, ?_⟩
  · intro d a h; simp [init] at h
  · intro g d a h; simp [init] at h

theorem cache_run {cfg : Cfg} : ∀ (ls : List Label) (s s' : State), Inv cfg s → Cache s → run cfg s ls = some s' → Cache s' := by
  intro ls
  induction ls with
  | nil => intro s s' _ hc h; simp only [run] at h; injection h with h; subst h; exact hc
  | cons l ls ih =>
    intro s s' hi hc h
    simp only [run] at h
    split at h
    · cases h
    · rename_i s1 hs1
      exact ih s1 s' (step_inv l hi hs1).1 (cache_step l hi hc hs1) h

end CMacVerif.Photon
