import CMacVerif.Model.Atomics
/-!
Helper lemmas for C08 (interleaving model `Model/Atomics.lean`), part 1: sums over the thread
list, the frame lemma, lifting of one-step invariants to schedules, and the lock invariant
`Σ_threads holdL L = [locks L]`.

Proof pattern (DESIGN Appendix A): an invariant is a sum over threads of a per-thread weight
that equals a function of the shared memory; `sumT_set` (frame) + one *local* lemma about `exec`
(case split on the program counter) + `omega`; `run_inv` lifts to every schedule.
-/
namespace CMacVerif.Atomics

/-! ### generic -/

@[simp] theorem upd_same {α β : Type} [DecidableEq α] (f : α → β) (a : α) (b : β) :
    upd f a b a = b := by simp [upd]

theorem upd_other {α β : Type} [DecidableEq α] (f : α → β) (a x : α) (b : β) (h : x ≠ a) :
    upd f a b x = f x := by simp [upd, h]

theorem upd_apply {α β : Type} [DecidableEq α] (f : α → β) (a x : α) (b : β) :
    upd f a b x = if x = a then b else f x := rfl

/-- sum of a per-thread weight -/
def sumT (f : Thread → Nat) (l : List Thread) : Nat := (l.map f).sum

@[simp] theorem sumT_nil (f : Thread → Nat) : sumT f [] = 0 := rfl
@[simp] theorem sumT_cons (f : Thread → Nat) (a : Thread) (l : List Thread) :
    sumT f (a :: l) = f a + sumT f l := by simp [sumT]

/-- **frame lemma**: replacing one thread changes the sum by the difference of its weights -/
theorem sumT_set (f : Thread → Nat) (l : List Thread) (tid : Nat) (th th' : Thread)
    (h : l[tid]? = some th) : sumT f (l.set tid th') + f th = sumT f l + f th' := by
  induction l generalizing tid with
  | nil => simp at h
  | cons a l ih =>
    cases tid with
    | zero => simp at h; subst h; simp; omega
    | succ n =>
      simp at h
      have := ih n h
      simp only [List.set_cons_succ, sumT_cons]; omega

theorem le_sumT (f : Thread → Nat) (l : List Thread) (tid : Nat) (th : Thread)
    (h : l[tid]? = some th) : f th ≤ sumT f l := by
  induction l generalizing tid with
  | nil => simp at h
  | cons a l ih =>
    cases tid with
    | zero => simp at h; subst h; simp
    | succ n => simp at h; have := ih n h; simp only [sumT_cons]; omega

/-- two different threads both contribute to the sum -/
theorem add_le_sumT (f : Thread → Nat) (l : List Thread) (i j : Nat) (a b : Thread)
    (hi : l[i]? = some a) (hj : l[j]? = some b) (hne : i ≠ j) : f a + f b ≤ sumT f l := by
  induction l generalizing i j with
  | nil => simp at hi
  | cons x l ih =>
    cases i with
    | zero =>
      cases j with
      | zero => exact absurd rfl hne
      | succ j =>
        simp at hi hj; subst hi
        have := le_sumT f l j b hj
        simp only [sumT_cons]; omega
    | succ i =>
      cases j with
      | zero =>
        simp at hi hj; subst hj
        have := le_sumT f l i a hi
        simp only [sumT_cons]; omega
      | succ j =>
        simp at hi hj
        have := ih i j hi hj (by omega)
        simp only [sumT_cons]; omega

theorem sumT_eq_zero (f : Thread → Nat) (l : List Thread) (h : ∀ th ∈ l, f th = 0) :
    sumT f l = 0 := by
  induction l with
  | nil => rfl
  | cons a l ih =>
    simp only [sumT_cons]
    rw [h a (by simp), ih (fun th hth => h th (by simp [hth]))]

theorem sumT_add (f g : Thread → Nat) (l : List Thread) :
    sumT (fun th => f th + g th) l = sumT f l + sumT g l := by
  induction l with
  | nil => rfl
  | cons a l ih => simp only [sumT_cons, ih]; omega

/-- Int-valued version -/
def sumTI (f : Thread → Int) (l : List Thread) : Int := (l.map f).sum

@[simp] theorem sumTI_nil (f : Thread → Int) : sumTI f [] = 0 := rfl
@[simp] theorem sumTI_cons (f : Thread → Int) (a : Thread) (l : List Thread) :
    sumTI f (a :: l) = f a + sumTI f l := by simp [sumTI]

theorem sumTI_set (f : Thread → Int) (l : List Thread) (tid : Nat) (th th' : Thread)
    (h : l[tid]? = some th) : sumTI f (l.set tid th') + f th = sumTI f l + f th' := by
  induction l generalizing tid with
  | nil => simp at h
  | cons a l ih =>
    cases tid with
    | zero => simp at h; subst h; simp; omega
    | succ n =>
      simp at h
      have := ih n h
      simp only [List.set_cons_succ, sumTI_cons]; omega

theorem sumTI_eq_zero (f : Thread → Int) (l : List Thread) (h : ∀ th ∈ l, f th = 0) :
    sumTI f l = 0 := by
  induction l with
  | nil => rfl
  | cons a l ih =>
    simp only [sumTI_cons]
    rw [h a (by simp), ih (fun th hth => h th (by simp [hth]))]; rfl

/-! ### steps and schedules -/

theorem step_none (cfg : Cfg) (s : State) (tid : Nat) (h : s.threads[tid]? = none) :
    step cfg s tid = s := by simp [step, h]

theorem step_some (cfg : Cfg) (s : State) (tid : Nat) (th : Thread) (h : s.threads[tid]? = some th) :
    step cfg s tid = { mem := (exec cfg s.mem th).1, threads := s.threads.set tid (exec cfg s.mem th).2 } := by
  simp [step, h]

/-- a one-step invariant holds along every schedule -/
theorem run_inv (cfg : Cfg) (P : State → Prop) (hstep : ∀ s tid, P s → P (step cfg s tid))
    (s : State) (sched : List Nat) (h : P s) : P (run cfg s sched) := by
  induction sched generalizing s with
  | nil => exact h
  | cons t l ih => exact ih (step cfg s t) (hstep s t h)

theorem run_append (cfg : Cfg) (s : State) (a b : List Nat) :
    run cfg s (a ++ b) = run cfg (run cfg s a) b := by simp [run, List.foldl_append]

@[simp] theorem run_nil (cfg : Cfg) (s : State) : run cfg s [] = s := rfl
@[simp] theorem run_cons (cfg : Cfg) (s : State) (t : Nat) (l : List Nat) :
    run cfg s (t :: l) = run cfg (step cfg s t) l := rfl

/-- 0/1 indicator -/
def ind (p : Prop) [Decidable p] : Nat := if p then 1 else 0

theorem count_cons_ind (l : List Nat) (a i : Nat) : (a :: l).count i = l.count i + ind (i = a) := by
  by_cases h : i = a
  · subst h; simp [ind]
  · have : ¬ a = i := fun h' => h h'.symm
    simp [ind, h, this]

/-- `pick` returns an element of the list -/
theorem pick_mem (l : List Nat) (j x : Nat) (h : pick l j = some x) : x ∈ l := by
  unfold pick at h
  exact List.mem_of_getElem? h

theorem count_erase_add (l : List Nat) (x y : Nat) (h : x ∈ l) :
    (l.erase x).count y + (if y = x then 1 else 0) = l.count y := by
  by_cases hy : y = x
  · subst hy
    have : 0 < l.count y := List.count_pos_iff.mpr h
    simp [List.count_erase_self]; omega
  · have : ¬ (x = y) := fun h => hy h.symm
    simp [hy, List.count_erase_of_ne hy]

theorem sum_map_erase (f : Nat → Nat) (l : List Nat) (x : Nat) (h : x ∈ l) :
    ((l.erase x).map f).sum + f x = (l.map f).sum := by
  induction l with
  | nil => simp at h
  | cons a l ih =>
    by_cases hax : a = x
    · subst hax; simp; omega
    · have hx : x ∈ l := by
        rcases List.mem_cons.mp h with h | h
        · exact absurd h.symm hax
        · exact h
      have := ih hx
      have hb : (a == x) = false := by simp [hax]
      simp only [List.erase_cons, hb, List.map_cons, List.sum_cons]
      simp at this ⊢; omega

theorem getElem?_lt {α : Type} (l : List α) (i : Nat) (a : α) (h : l[i]? = some a) : i < l.length := by
  rcases Nat.lt_or_ge i l.length with h' | h'
  · exact h'
  · rw [List.getElem?_eq_none h'] at h; cases h

/-- what one transition of thread `tid` does, seen from that thread -/
theorem step_at (cfg : Cfg) (s : State) (tid : Nat) (th : Thread) (hth : s.threads[tid]? = some th) :
    (step cfg s tid).threads[tid]? = some (exec cfg s.mem th).2 ∧
    (step cfg s tid).mem = (exec cfg s.mem th).1 := by
  rw [step_some cfg s tid th hth]
  simp [getElem?_lt _ _ _ hth]

theorem run_replicate_succ (cfg : Cfg) (s : State) (tid n : Nat) :
    run cfg s (List.replicate (n + 1) tid) = run cfg (step cfg s tid) (List.replicate n tid) := rfl

/-- thread `tid`, running alone from `s`, reaches a state satisfying `P` -/
def Solo (cfg : Cfg) (tid : Nat) (s : State) (P : State → Prop) : Prop :=
  ∃ n, P (run cfg s (List.replicate n tid))

theorem Solo.now {cfg : Cfg} {tid : Nat} {s : State} {P : State → Prop} (h : P s) : Solo cfg tid s P := ⟨0, h⟩
theorem Solo.next {cfg : Cfg} {tid : Nat} {s : State} {P : State → Prop}
    (h : Solo cfg tid (step cfg s tid) P) : Solo cfg tid s P := by
  obtain ⟨n, hn⟩ := h
  exact ⟨n + 1, hn⟩

/-- one solo transition with a known `exec` result -/
theorem solo_exec {cfg : Cfg} {tid : Nat} {s : State} {th th' : Thread} {m' : Mem}
    (hth : s.threads[tid]? = some th) (he : exec cfg s.mem th = (m', th')) :
    (step cfg s tid).threads[tid]? = some th' ∧ (step cfg s tid).mem = m' := by
  have := step_at cfg s tid th hth
  rw [he] at this; exact this

end CMacVerif.Atomics
