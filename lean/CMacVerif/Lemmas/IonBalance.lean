import CMacVerif.Model.IonBalance
import CMacVerif.Inst.Real
import Mathlib.Tactic.Ring
import Mathlib.Tactic.Linarith
import Mathlib.Tactic.NormNum
import Mathlib.Tactic.FieldSimp
import Mathlib.Tactic.Positivity
import Mathlib.Analysis.SpecialFunctions.Sqrt
/-!
Helper lemmas for C06 (`Model/IonBalance.lean` instantiated at `ℝ`).
-/
namespace CMacVerif.IonBalance
open CMacVerif

/-! ## hydrogen closed form -/

/-- the value of the non-Taylor branch as a function of `bb = 2/aa = 4/C` -/
noncomputable def xOf (bb : ℝ) : ℝ := bb / ((1 + √(bb + 1)) * (1 + √(bb + 1)))

theorem sqrt_bb (bb : ℝ) (h : 0 ≤ bb) : 1 ≤ √(bb + 1) ∧ √(bb + 1) * √(bb + 1) = bb + 1 := by
  constructor
  · exact Real.one_le_sqrt.mpr (by linarith)
  · exact Real.mul_self_sqrt (by linarith)

/-- `bb/(1+s)^2 = (s-1)/(s+1)` with `s = √(bb+1)` -/
theorem xOf_eq (bb : ℝ) (h : 0 ≤ bb) : xOf bb = (√(bb + 1) - 1) / (√(bb + 1) + 1) := by
  obtain ⟨h1, h2⟩ := sqrt_bb bb h
  unfold xOf
  have hp : (0:ℝ) < √(bb + 1) + 1 := by linarith
  have hp' : (0:ℝ) < 1 + √(bb + 1) := by linarith
  rw [div_eq_div_iff (by positivity) (by positivity)]
  have : bb = √(bb + 1) * √(bb + 1) - 1 := by linarith
  nlinarith [this]

theorem xOf_nonneg (bb : ℝ) (h : 0 ≤ bb) : 0 ≤ xOf bb := by
  unfold xOf; positivity

theorem xOf_lt_one (bb : ℝ) (h : 0 ≤ bb) : xOf bb < 1 := by
  obtain ⟨h1, _⟩ := sqrt_bb bb h
  rw [xOf_eq bb h, div_lt_one (by linarith)]
  linarith

theorem xOf_mono {b1 b2 : ℝ} (h1 : 0 ≤ b1) (h : b1 ≤ b2) : xOf b1 ≤ xOf b2 := by
  have h2 : 0 ≤ b2 := le_trans h1 h
  obtain ⟨s1, _⟩ := sqrt_bb b1 h1
  obtain ⟨s2, _⟩ := sqrt_bb b2 h2
  have hs : √(b1 + 1) ≤ √(b2 + 1) := Real.sqrt_le_sqrt (by linarith)
  rw [xOf_eq b1 h1, xOf_eq b2 h2, div_le_div_iff₀ (by linarith) (by linarith)]
  nlinarith

/-- the balance equation `x² − (2 + C) x + 1 = 0` with `C = 4/bb` -/
theorem xOf_balance (bb : ℝ) (h : 0 < bb) :
    xOf bb ^ 2 - (2 + 4 / bb) * xOf bb + 1 = 0 := by
  obtain ⟨h1, h2⟩ := sqrt_bb bb h.le
  rw [xOf_eq bb h.le]
  have hb : bb = √(bb + 1) * √(bb + 1) - 1 := by linarith
  have hp : (0:ℝ) < √(bb + 1) + 1 := by linarith
  have hne : bb ≠ 0 := ne_of_gt h
  have hne' : √(bb + 1) + 1 ≠ 0 := ne_of_gt hp
  field_simp
  nlinarith [hb]

/-- lower bound of the exact root: `1/(2 + C) ≤ x`, here as `bb ≤ (4 + 2 bb) x` -/
theorem xOf_lower (bb : ℝ) (h : 0 ≤ bb) : bb ≤ (4 + 2 * bb) * xOf bb := by
  obtain ⟨h1, h2⟩ := sqrt_bb bb h
  rw [xOf_eq bb h]
  have hp : (0:ℝ) < √(bb + 1) + 1 := by linarith
  rw [mul_div_assoc', le_div_iff₀ hp]
  have hb : bb = √(bb + 1) * √(bb + 1) - 1 := by linarith
  nlinarith [hb, mul_nonneg (sub_nonneg.mpr h1) (sub_nonneg.mpr h1)]

theorem xOf_upper (bb : ℝ) (h : 0 ≤ bb) : 4 * xOf bb ≤ bb := by
  obtain ⟨h1, h2⟩ := sqrt_bb bb h
  unfold xOf
  rw [mul_div_assoc', div_le_iff₀ (by positivity)]
  nlinarith

section unfold
variable (alphaH jH nH aa : ℝ)

theorem h0Hydrogen_pos (hj : 0 < jH) (hn : 0 < nH) :
    h0Hydrogen alphaH jH nH = h0Core (0.5 * jH / (nH * alphaH)) := by
  unfold h0Hydrogen h0HydrogenB h0Core
  have : (0.0:ℝ) < jH ∧ (0.0:ℝ) < nH := by constructor <;> norm_num <;> assumption
  rw [if_pos this]

theorem h0Hydrogen_neutral (h : ¬ (0 < jH ∧ 0 < nH)) : h0Hydrogen alphaH jH nH = 1 := by
  unfold h0Hydrogen h0HydrogenB
  have : ¬ ((0.0:ℝ) < jH ∧ (0.0:ℝ) < nH) := by norm_num at h ⊢; exact h
  rw [if_neg this]; norm_num

theorem h0Core_taylor (h : 2 / aa < 1e-10) : h0Core aa = max 1e-14 (0.25 * (2 / aa)) := by
  unfold h0Core h0CoreB
  have : (2.0:ℝ) / aa < 1.0e-10 := by norm_num at h ⊢; exact h
  simp only [this, if_true, amax_real]
  norm_num

theorem h0Core_exact (h : ¬ 2 / aa < 1e-10) : h0Core aa = max 1e-14 (xOf (2 / aa)) := by
  unfold h0Core h0CoreB
  have : ¬ (2.0:ℝ) / aa < 1.0e-10 := by norm_num at h ⊢; exact h
  simp only [this, if_false, amax_real, xOf, ArithFns.sqrt]
  norm_num

end unfold

/-- range of the core: `1e-14 ≤ h0Core aa ≤ 1` for EVERY `aa` (also negative, zero) -/
theorem h0Core_range (aa : ℝ) : 1e-14 ≤ h0Core aa ∧ h0Core aa ≤ 1 := by
  by_cases h : 2 / aa < 1e-10
  · rw [h0Core_taylor aa h]
    refine ⟨le_max_left _ _, max_le (by norm_num) ?_⟩
    linarith
  · rw [h0Core_exact aa h]
    have hb : (0:ℝ) ≤ 2 / aa := by
      have : (1e-10:ℝ) ≤ 2 / aa := not_lt.mp h
      exact le_trans (by norm_num) this
    exact ⟨le_max_left _ _, max_le (by norm_num) (xOf_lt_one _ hb).le⟩

/-- in the non-Taylor branch the floor is not active (exact arithmetic) -/
theorem h0Core_exact_eq (aa : ℝ) (h : ¬ 2 / aa < 1e-10) :
    h0Core aa = xOf (2 / aa) ∧ 1e-14 < xOf (2 / aa) := by
  have hb : (1e-10:ℝ) ≤ 2 / aa := not_lt.mp h
  have hb0 : (0:ℝ) ≤ 2 / aa := le_trans (by norm_num) hb
  have hl := xOf_lower (2 / aa) hb0
  have hx : (1e-14:ℝ) < xOf (2 / aa) := by
    have h1 := xOf_lt_one (2 / aa) hb0
    have h0 := xOf_nonneg (2 / aa) hb0
    nlinarith
  rw [h0Core_exact aa h]
  exact ⟨max_eq_right hx.le, hx⟩

/-- strict antitonicity of the core in `aa` unless the pair straddles the Taylor switch with
`C' < C + 2` (`C = 2 aa`) -/
theorem h0Core_antitone_strict {a1 a2 : ℝ} (h1 : 0 < a1) (h12 : a1 ≤ a2)
    (hs : 2 / a2 < 1e-10 → 2 / a1 < 1e-10 ∨ 2 * a1 + 2 ≤ 2 * a2) :
    h0Core a2 ≤ h0Core a1 := by
  have h2 : 0 < a2 := lt_of_lt_of_le h1 h12
  have hbb : 2 / a2 ≤ 2 / a1 := div_le_div_of_nonneg_left (by norm_num) h1 h12
  by_cases t2 : 2 / a2 < 1e-10
  · by_cases t1 : 2 / a1 < 1e-10
    · rw [h0Core_taylor a2 t2, h0Core_taylor a1 t1]
      exact max_le_max (le_refl _) (by linarith)
    · rcases hs t2 with h | h
      · exact absurd h t1
      · rw [h0Core_taylor a2 t2, (h0Core_exact_eq a1 t1).1]
        have hx := (h0Core_exact_eq a1 t1).2
        refine max_le hx.le ?_
        have hb0 : (0:ℝ) ≤ 2 / a1 := by positivity
        have hl := xOf_lower (2 / a1) hb0
        have hx0 := xOf_nonneg (2 / a1) hb0
        -- 0.25 * (2/a2) = 1/(2 a2) ≤ 1/(2 a1 + 2) ≤ xOf
        have k1 : 0.25 * (2 / a2) = 1 / (2 * a2) := by field_simp; norm_num
        have k2 : 1 / (2 * a2) ≤ 1 / (2 * a1 + 2) :=
          one_div_le_one_div_of_le (by linarith) h
        have hl' : 2 ≤ (4 * a1 + 4) * xOf (2 / a1) := by
          have hm := mul_le_mul_of_nonneg_right hl h1.le
          have e : 2 / a1 * a1 = 2 := by field_simp
          have e2 : (4 + 2 * (2 / a1)) * xOf (2 / a1) * a1 = (4 * a1 + 4) * xOf (2 / a1) := by
            field_simp; ring
          linarith
        have k3 : 1 / (2 * a1 + 2) ≤ xOf (2 / a1) := by
          rw [div_le_iff₀ (by linarith)]
          linarith
        linarith
  · have t1 : ¬ 2 / a1 < 1e-10 := fun h => t2 (lt_of_le_of_lt hbb h)
    rw [(h0Core_exact_eq a2 t2).1, (h0Core_exact_eq a1 t1).1]
    exact xOf_mono (by positivity) hbb

/-- antitonicity of the core for every pair, up to the relative jump `0.5e-10` at the switch -/
theorem h0Core_antitone {a1 a2 : ℝ} (h1 : 0 < a1) (h12 : a1 ≤ a2) :
    h0Core a2 ≤ (1 + 0.5e-10) * h0Core a1 := by
  have hpos : 0 ≤ h0Core a1 := le_trans (by norm_num) (h0Core_range a1).1
  by_cases hs : 2 / a2 < 1e-10 → 2 / a1 < 1e-10
  · have := h0Core_antitone_strict h1 h12 (fun h => Or.inl (hs h))
    nlinarith
  · obtain ⟨t2, t1'⟩ := Classical.not_imp.mp hs
    have t1 : (1e-10:ℝ) ≤ 2 / a1 := not_lt.mp t1'
    rw [h0Core_taylor a2 t2, (h0Core_exact_eq a1 t1').1]
    have hx := (h0Core_exact_eq a1 t1').2
    have hb0 : (0:ℝ) ≤ 2 / a1 := le_trans (by norm_num) t1
    have hl := xOf_lower (2 / a1) hb0
    have hx1 := xOf_lt_one (2 / a1) hb0
    refine max_le (by nlinarith) ?_
    -- 0.25 bb' < 0.25e-10 ≤ (1 + 0.5e-10) * xOf bb   because  bb ≤ (4 + 2 bb) xOf bb, bb ≥ 1e-10
    nlinarith

/-! ## metals -/

/-- a pair of tracked stages is physical -/
def Frac2.ok (f : Frac2 ℝ) : Prop :=
  0 ≤ f.f1 ∧ f.f1 ≤ 1 ∧ 0 ≤ f.f2 ∧ f.f2 ≤ 1 ∧ f.f1 + f.f2 ≤ 1

/-- a triple of tracked stages is physical -/
def Frac3.ok (f : Frac3 ℝ) : Prop :=
  0 ≤ f.f1 ∧ f.f1 ≤ 1 ∧ 0 ≤ f.f2 ∧ f.f2 ≤ 1 ∧ 0 ≤ f.f3 ∧ f.f3 ≤ 1 ∧ f.f1 + f.f2 + f.f3 ≤ 1

/-- physical metal state: every fraction in `[0,1]`, tracked stages of one element sum to ≤ 1 -/
def MetalOut.ok (o : MetalOut ℝ) : Prop := o.c.ok ∧ o.n.ok ∧ o.o.ok ∧ o.ne.ok ∧ o.s.ok

theorem chain2_ok (c21 c32 : ℝ) (h1 : 0 ≤ c21) (h2 : 0 ≤ c32) : (chain2 c21 c32).ok := by
  have h3 : 0 ≤ c32 * c21 := mul_nonneg h2 h1
  have hS : 0 < 1 + c21 + c32 * c21 := by linarith
  have e1 : (chain2 c21 c32).f1 = c21 / (1 + c21 + c32 * c21) := by
    simp only [chain2]; norm_num; ring
  have e2 : (chain2 c21 c32).f2 = c32 * c21 / (1 + c21 + c32 * c21) := by
    simp only [chain2]; norm_num; ring
  unfold Frac2.ok
  rw [e1, e2]
  refine ⟨by positivity, ?_, by positivity, ?_, ?_⟩
  · rw [div_le_one hS]; linarith
  · rw [div_le_one hS]; linarith
  · rw [← add_div, div_le_one hS]; linarith

theorem chain3_ok (c21 c32 c43 : ℝ) (h1 : 0 ≤ c21) (h2 : 0 ≤ c32) (h3 : 0 ≤ c43) :
    (chain3 c21 c32 c43).ok := by
  have h31 : 0 ≤ c32 * c21 := mul_nonneg h2 h1
  have h41 : 0 ≤ c43 * (c32 * c21) := mul_nonneg h3 h31
  have hS : 0 < 1 + c21 + c32 * c21 + c43 * (c32 * c21) := by linarith
  have e1 : (chain3 c21 c32 c43).f1 = c21 / (1 + c21 + c32 * c21 + c43 * (c32 * c21)) := by
    simp only [chain3]; norm_num; ring
  have e2 : (chain3 c21 c32 c43).f2 = c32 * c21 / (1 + c21 + c32 * c21 + c43 * (c32 * c21)) := by
    simp only [chain3]; norm_num; ring
  have e3 : (chain3 c21 c32 c43).f3
      = c43 * (c32 * c21) / (1 + c21 + c32 * c21 + c43 * (c32 * c21)) := by
    simp only [chain3]; norm_num; ring
  unfold Frac3.ok
  rw [e1, e2, e3]
  refine ⟨by positivity, ?_, by positivity, ?_, by positivity, ?_, ?_⟩
  · rw [div_le_one hS]; linarith
  · rw [div_le_one hS]; linarith
  · rw [div_le_one hS]; linarith
  · rw [← add_div, ← add_div, div_le_one hS]; linarith

theorem ratio1_nonneg (j ne a : ℝ) (hj : 0 ≤ j) (hd : 0 < ne * a) : 0 ≤ ratio1 j ne a :=
  div_nonneg hj hd.le
theorem ratio2_nonneg (j ne a nh0 rH : ℝ) (hj : 0 ≤ j) (hd : 0 < ne * a + nh0 * rH) :
    0 ≤ ratio2 j ne a nh0 rH := div_nonneg hj hd.le
theorem ratio3_nonneg (j ne a nh0 rH nhe0 rHe : ℝ) (hj : 0 ≤ j)
    (hd : 0 < ne * a + nh0 * rH + nhe0 * rHe) : 0 ≤ ratio3 j ne a nh0 rH nhe0 rHe :=
  div_nonneg hj hd.le
theorem ratioCT_nonneg (j nhp iH ne a nh0 rH : ℝ) (hj : 0 ≤ j) (hp : 0 ≤ nhp) (hi : 0 ≤ iH)
    (hd : 0 < ne * a + nh0 * rH) : 0 ≤ ratioCT j nhp iH ne a nh0 rH :=
  div_nonneg (add_nonneg hj (mul_nonneg hp hi)) hd.le

/-! ## one body of the H/He iteration -/

/-- the smaller root `(b − √(b² − d)) / q` lies in `[0, 1]` when `d ≥ 0` and `d + q² ≤ 2 b q` -/
theorem root_range (b d q : ℝ) (hb : 0 ≤ b) (hq : 0 < q) (hd : 0 ≤ d) (h : d + q * q ≤ 2 * b * q) :
    0 ≤ (b - √(b * b - d)) / q ∧ (b - √(b * b - d)) / q ≤ 1 := by
  have hup : √(b * b - d) ≤ b := by
    have : √(b * b - d) ≤ √(b * b) := Real.sqrt_le_sqrt (by linarith)
    rwa [Real.sqrt_mul_self hb] at this
  have hlo : b - q ≤ √(b * b - d) := by
    have h1 : (b - q) * (b - q) ≤ b * b - d := by nlinarith
    have h2 : √((b - q) * (b - q)) ≤ √(b * b - d) := Real.sqrt_le_sqrt h1
    rw [Real.sqrt_mul_self_eq_abs] at h2
    exact le_trans (le_abs_self _) h2
  constructor
  · exact div_nonneg (by linarith) hq.le
  · rw [div_le_one hq]; linarith

theorem nz_real (x : ℝ) : nz x ↔ x ≠ 0 := by
  unfold nz
  constructor
  · intro h hx; apply h; subst hx; norm_num
  · intro h hx; apply h; have : (0.0:ℝ) = 0 := by norm_num
    rw [this] at hx; exact le_antisymm hx.1 hx.2

theorem feq_real (x y : ℝ) : feq x y ↔ x = y := by
  unfold feq
  constructor
  · intro h; exact le_antisymm h.1 h.2
  · intro h; subst h; exact ⟨le_refl _, le_refl _⟩

/-- the new helium fraction of one loop body lies in `[0, 1]` -/
theorem heNew_range (che aHe h0 : ℝ) (hche : 0 ≤ che) (hA : 0 ≤ aHe) (hh : h0 ≤ 1) :
    0 ≤ heNew che aHe h0 ∧ heNew che aHe h0 ≤ 1 := by
  unfold heNew heNewB
  by_cases hz : che = 0
  · have : ¬ nz che := by rw [nz_real]; exact not_not.mpr hz
    rw [if_neg this]; norm_num
  · have hpos : 0 < che := lt_of_le_of_ne hche (Ne.symm hz)
    have hn : nz che := (nz_real che).mpr hz
    rw [if_pos hn]
    have hop : 0 ≤ 1 + aHe - h0 := by linarith
    have hbhe : 0 < (1 + 2 * aHe - h0) * che + 1 := by
      have : 0 ≤ (1 + 2 * aHe - h0) * che := mul_nonneg (by linarith) hche
      linarith
    simp only []
    split_ifs with ht
    · -- first order expansion
      norm_num
      constructor
      · exact mul_nonneg hop (div_nonneg hche hbhe.le)
      · rw [← mul_div_assoc, div_le_one hbhe]; nlinarith
    · -- exact root
      norm_num at ht ⊢
      have hApos : 0 < aHe := by
        rcases eq_or_lt_of_le hA with h | h
        · exfalso; rw [← h] at ht; norm_num at ht
        · exact h
      have hq : 0 < 2 * aHe * che := by positivity
      have := root_range ((1 + 2 * aHe - h0) * che + 1) (4 * aHe * (1 + aHe - h0) * che * che)
        (2 * aHe * che) hbhe.le hq (by positivity) (by nlinarith)
      rw [amin_real, min_eq_right (by simpa [ArithFns.sqrt] using this.2)]
      simpa [ArithFns.sqrt] using this

/-- the new hydrogen fraction of one loop body lies in `[0, 1]` when `ch ≥ 0` -/
theorem hNew_range (ch aHe he0 : ℝ) (hch : 0 ≤ ch) (hA : 0 ≤ aHe) (hhe : he0 ≤ 1) :
    0 ≤ hNew ch aHe he0 ∧ hNew ch aHe he0 ≤ 1 := by
  unfold hNew hNewB
  have hop : 1 ≤ 1 + aHe - he0 * aHe := by nlinarith
  have hb : 0 < ch * (2 + aHe - he0 * aHe) + 1 := by
    have : 0 ≤ ch * (2 + aHe - he0 * aHe) := mul_nonneg hch (by linarith)
    linarith
  simp only []
  split_ifs with ht
  · norm_num
    constructor
    · exact mul_nonneg (div_nonneg hch hb.le) (by linarith)
    · rw [div_mul_eq_mul_div, div_le_one hb]; nlinarith
  · norm_num at ht ⊢
    have hchpos : 0 < ch := by
      rcases eq_or_lt_of_le hch with h | h
      · exfalso; rw [← h] at ht; norm_num at ht
      · exact h
    have := root_range (ch * (2 + aHe - he0 * aHe) + 1) (4 * ch * ch * (1 + aHe - he0 * aHe))
      (2 * ch) hb.le (by positivity) (by positivity) (by nlinarith)
    simpa [ArithFns.sqrt] using this

/-! ## temperature loop -/

/-- what both clamps establish -/
def TInv {M : Type} (tmin : ℝ) (s : TState ℝ M) : Prop :=
  s.T0 = 500 ∨ (tmin ≤ s.T0 ∧ s.T0 ≤ 1e10)

theorem tempStep_inv {M : Type} (bal : ℝ → Bal ℝ M) (tmin : ℝ) (htmin : tmin ≤ 1e10)
    (s : TState ℝ M) : TInv tmin (tempStep bal tmin s) := by
  unfold tempStep
  simp only []
  generalize (⟨_, _, _, _, _, _⟩ : TState ℝ M) = t
  unfold TInv clampHigh clampLow
  by_cases h1 : t.T0 < tmin
  · rw [if_pos h1]
    have : ¬ ((1.0e10:ℝ) < (500.0:ℝ)) := by norm_num
    simp only [this, if_false]
    left; norm_num
  · rw [if_neg h1]
    by_cases h2 : (1.0e10:ℝ) < t.T0
    · rw [if_pos h2]; right; simp only []; norm_num at htmin ⊢; exact htmin
    · rw [if_neg h2]; right; norm_num at h2 ⊢; exact ⟨not_lt.mp h1, h2⟩

/-- the loop returns its argument untouched (no body executed) or a clamped state -/
theorem tempLoop_inv {M : Type} (bal : ℝ → Bal ℝ M) (eps tmin : ℝ) (htmin : tmin ≤ 1e10) :
    ∀ (n k : Nat) (s : TState ℝ M),
      ((tempLoop bal eps tmin n k s).1 = s ∧ (tempLoop bal eps tmin n k s).2 = k) ∨
      (TInv tmin (tempLoop bal eps tmin n k s).1 ∧ k < (tempLoop bal eps tmin n k s).2) := by
  intro n
  induction n with
  | zero => intro k s; left; simp [tempLoop]
  | succ n ih =>
    intro k s
    unfold tempLoop
    split_ifs with hc
    · right
      rcases ih (k + 1) (tempStep bal tmin s) with ⟨h1, h2⟩ | ⟨h1, h2⟩
      · rw [h1, h2]; exact ⟨tempStep_inv bal tmin htmin s, Nat.lt_succ_self k⟩
      · exact ⟨h1, by omega⟩
    · left; exact ⟨rfl, rfl⟩

/-! ## the temperature update does not read the coolant fractions stored in the cell -/

/-- loop states that agree on everything except the stored coolant fractions -/
def Sim {M : Type} (s s' : TState ℝ M) : Prop :=
  s.T0 = s'.T0 ∧ s.h0 = s'.h0 ∧ s.he0 = s'.he0 ∧ s.gain0 = s'.gain0 ∧ s.loss0 = s'.loss0

theorem tempStep_congr {M : Type} (bal : ℝ → Bal ℝ M) (tmin : ℝ) (s s' : TState ℝ M)
    (h : s.T0 = s'.T0) : tempStep bal tmin s = tempStep bal tmin s' := by
  unfold tempStep; rw [h]

theorem tempCond_congr {M : Type} (eps : ℝ) (s s' : TState ℝ M) (h : Sim s s') :
    tempCond eps s ↔ tempCond eps s' := by
  unfold tempCond; rw [h.2.2.2.1, h.2.2.2.2]

theorem tempLoop_sim {M : Type} (bal : ℝ → Bal ℝ M) (eps tmin : ℝ) :
    ∀ (n k : Nat) (s s' : TState ℝ M), Sim s s' →
      (tempLoop bal eps tmin n k s).2 = (tempLoop bal eps tmin n k s').2 ∧
      Sim (tempLoop bal eps tmin n k s).1 (tempLoop bal eps tmin n k s').1 ∧
      (k < (tempLoop bal eps tmin n k s).2 →
        (tempLoop bal eps tmin n k s).1 = (tempLoop bal eps tmin n k s').1) := by
  intro n
  induction n with
  | zero => intro k s s' h; simp [tempLoop, h]
  | succ n ih =>
    intro k s s' h
    unfold tempLoop
    by_cases hc : tempCond eps s
    · have hc' : tempCond eps s' := (tempCond_congr eps s s' h).mp hc
      rw [if_pos hc, if_pos hc', tempStep_congr bal tmin s s' h.1]
      exact ⟨rfl, ⟨rfl, rfl, rfl, rfl, rfl⟩, fun _ => rfl⟩
    · have hc' : ¬ tempCond eps s' := fun h' => hc ((tempCond_congr eps s s' h).mpr h')
      rw [if_neg hc, if_neg hc']
      exact ⟨rfl, h, fun hk => absurd hk (lt_irrefl k)⟩

/-- either no body ran (state and counter untouched) or the counter increased -/
theorem tempLoop_inv' {M : Type} (bal : ℝ → Bal ℝ M) (eps tmin : ℝ) :
    ∀ (n k : Nat) (s : TState ℝ M),
      ((tempLoop bal eps tmin n k s).1 = s ∧ (tempLoop bal eps tmin n k s).2 = k) ∨
      k < (tempLoop bal eps tmin n k s).2 := by
  intro n
  induction n with
  | zero => intro k s; left; simp [tempLoop]
  | succ n ih =>
    intro k s
    unfold tempLoop
    split_ifs with hc
    · right
      rcases ih (k + 1) (tempStep bal tmin s) with ⟨_, h2⟩ | h2
      · rw [h2]; exact Nat.lt_succ_self k
      · omega
    · left; exact ⟨rfl, rfl⟩

/-- when no body ran, the hydrogen fraction written back is 0 or 1, so the coolants are reset -/
theorem tempFinish_zero_h0 {M : Type} (i : TempIn ℝ M) (s : TState ℝ M) (k : Nat)
    (h : s.h0 = 0.0) : (tempFinish i s k).metZero = true := by
  unfold tempFinish
  simp only [h]
  split_ifs with hm
  · simp [feq_real]
  · have : ((0.0:ℝ) ≤ 1.0e-10) := by norm_num
    simp [this]


/-- `aa` and `bb` of the code in terms of `C = jH / (nH alphaH)` -/
theorem aa_bb (alphaH jH nH : ℝ) (ha : 0 < alphaH) (hj : 0 < jH) (hn : 0 < nH) :
    2 / (0.5 * jH / (nH * alphaH)) = 4 / (jH / (nH * alphaH)) := by
  field_simp; norm_num

theorem tempInit_real (Told : ℝ) : tempInit Told = if Told ≤ 4000 then 8000 else Told := by
  unfold tempInit; norm_num

theorem tempInit_gt (Told : ℝ) : 4000 < tempInit Told := by
  rw [tempInit_real]; split_ifs with h
  · norm_num
  · exact not_le.mp h

/-- the iteration part: 500 K, or between `min(T_min, initial guess)` and 30000 K; at least
`T_min` as soon as one body ran -/
theorem tempMain_range {M : Type} (bal : ℝ → Bal ℝ M) (i : TempIn ℝ M) (htmin : i.tmin ≤ 30000) :
    (tempMain bal i).abort = false ∧
    ((tempMain bal i).T = 500 ∨
    (min i.tmin (tempInit i.Told) ≤ (tempMain bal i).T ∧ (tempMain bal i).T ≤ 30000) ∧
    ((tempMain bal i).niter ≥ 1 → i.tmin ≤ (tempMain bal i).T)) := by
  unfold tempMain
  simp only []
  generalize hs0 : (⟨tempInit i.Told, 0.0, 0.0, 1.0, 0.0, i.met0⟩ : TState ℝ M) = s0
  have hT : s0.T0 = tempInit i.Told := by rw [← hs0]
  have hl := tempLoop_inv bal i.eps i.tmin (by linarith) i.maxit 0 s0
  unfold tempFinish
  simp only [amin_real]
  have h3e : (30000.0:ℝ) = 30000 := by norm_num
  rw [h3e]
  refine ⟨trivial, ?_⟩
  rcases hl with ⟨e1, e2⟩ | ⟨inv, hk⟩
  · right
    rw [e1, e2, hT]
    refine ⟨⟨?_, min_le_left _ _⟩, fun h => absurd h (by norm_num)⟩
    exact le_min (le_trans (min_le_left _ _) htmin) (min_le_right _ _)
  · rcases inv with h500 | ⟨hlo, hhi⟩
    · left; rw [h500]; norm_num
    · right
      refine ⟨⟨?_, min_le_left _ _⟩, fun _ => le_min htmin hlo⟩
      exact le_trans (min_le_left _ _) (le_min htmin hlo)

/-! ## the state the temperature update leaves in the cell -/

/-- `std::cbrt` at `ℝ` (only enters the recombination cooling term) -/
noncomputable instance : HasCbrt ℝ :=
  ⟨fun x => if 0 ≤ x then x ^ ((1:ℝ) / 3) else -((-x) ^ ((1:ℝ) / 3))⟩

/-- a balance evaluation returns fractions in `[0,1]` and, unless hydrogen is entirely neutral,
physical coolant fractions -/
def BalOK (b : Bal ℝ (MetalOut ℝ)) : Prop :=
  (0 ≤ b.h0 ∧ b.h0 ≤ 1) ∧ (0 ≤ b.he0 ∧ b.he0 ≤ 1) ∧ (b.h0 = 1 ∨ b.met.ok)

/-- loop invariant: fractions in `[0,1]`; the stored coolant fractions are physical unless the
hydrogen fraction has one of the values for which `calculate_temperature` resets them -/
def StateOK (s : TState ℝ (MetalOut ℝ)) : Prop :=
  (0 ≤ s.h0 ∧ s.h0 ≤ 1) ∧ (0 ≤ s.he0 ∧ s.he0 ≤ 1) ∧ (s.h0 = 1 ∨ s.h0 ≤ 1e-10 ∨ s.met.ok)

theorem tempStep_ok (bal : ℝ → Bal ℝ (MetalOut ℝ)) (hb : ∀ T, BalOK (bal T)) (tmin : ℝ)
    (s : TState ℝ (MetalOut ℝ)) : StateOK (tempStep bal tmin s) := by
  obtain ⟨b1, b2, b3⟩ := hb s.T0
  unfold tempStep
  simp only []
  generalize (newT _ _ _ _ _ : ℝ) = Tn
  unfold clampHigh clampLow StateOK
  by_cases h1 : Tn < tmin
  · simp only [h1, if_true]
    have : ¬ ((1.0e10:ℝ) < (500.0:ℝ)) := by norm_num
    simp only [this, if_false]
    norm_num
  · simp only [h1, if_false]
    by_cases h2 : (1.0e10:ℝ) < Tn
    · simp only [h2, if_true]; norm_num
    · simp only [h2, if_false]
      exact ⟨b1, b2, b3.elim Or.inl (fun h => Or.inr (Or.inr h))⟩

theorem tempLoop_ok (bal : ℝ → Bal ℝ (MetalOut ℝ)) (hb : ∀ T, BalOK (bal T)) (eps tmin : ℝ) :
    ∀ (n k : Nat) (s : TState ℝ (MetalOut ℝ)), StateOK s →
      StateOK (tempLoop bal eps tmin n k s).1 := by
  intro n
  induction n with
  | zero => intro k s h; simpa [tempLoop] using h
  | succ n ih =>
    intro k s h
    unfold tempLoop
    split_ifs with hc
    · exact ih (k + 1) _ (tempStep_ok bal hb tmin s)
    · exact h

/-! ## the whole H/He loop under the checked premise -/

/-- one loop body (the proof of `hHe_iterate_range_partial`) -/
theorem hHeIterate_range (c : HHeCoef ℝ) (niter : Nat) (s : HHeState ℝ)
    (hche : 0 ≤ c.che) (hA : 0 ≤ c.aHe) (hh : 0 < s.h0 ∧ s.h0 < 1) (hhe : s.he0 ≤ 1)
    (hch : 0 ≤ chIter c s) :
    (0 ≤ (hHeIterate c niter s).h0 ∧ (hHeIterate c niter s).h0 ≤ 1) ∧
    (0 ≤ (hHeIterate c niter s).he0 ∧ (hHeIterate c niter s).he0 ≤ 1) := by
  have he := heNew_range c.che c.aHe s.h0 hche hA hh.2.le
  have hh' := hNew_range (chIter c s) c.aHe (heNew c.che c.aHe s.h0) hch hA he.2
  have hold : 0 ≤ he0oldOf s.he0 ∧ he0oldOf s.he0 ≤ 1 := by
    unfold he0oldOf
    split_ifs with h
    · norm_num at h; exact ⟨h.le, hhe⟩
    · norm_num
  unfold hHeIterate
  simp only []
  split_ifs with hn
  · simp only []
    norm_num
    refine ⟨⟨?_, ?_⟩, ⟨?_, ?_⟩⟩ <;> linarith [hh.1, hh.2, he.1, he.2, hh'.1, hh'.2, hold.1, hold.2]
  · exact ⟨hh', he⟩

theorem bodyOff_false (c : HHeCoef ℝ) (s : HHeState ℝ) (h : bodyOff c s = false) :
    (0 < s.h0 ∧ s.h0 < 1) ∧ 0 ≤ chIter c s := by
  unfold bodyOff at h
  simp only [Bool.not_eq_false', decide_eq_true_eq] at h
  norm_num at h
  exact ⟨⟨h.1, h.2.1⟩, h.2.2⟩

/-- the premise flag is sticky -/
theorem hHeLoop_offDom_true (c : HHeCoef ℝ) :
    ∀ (fuel niter : Nat) (s : HHeState ℝ), (hHeLoop c fuel niter true s).offDom = true := by
  intro fuel
  induction fuel with
  | zero => intro niter s; unfold hHeLoop; split_ifs <;> rfl
  | succ f ih =>
    intro niter s
    unfold hHeLoop
    split_ifs
    · simpa using ih (niter + 1) (hHeIterate c (niter + 1) s)
    · rfl

/-- if no executed body left the premise, every iterate — hence the result, converged or
not — lies in `[0,1]²` -/
theorem hHeLoop_range (c : HHeCoef ℝ) (hche : 0 ≤ c.che) (hA : 0 ≤ c.aHe) :
    ∀ (fuel niter : Nat) (cn : Bool) (s : HHeState ℝ),
      (0 ≤ s.h0 ∧ s.h0 ≤ 1) → (0 ≤ s.he0 ∧ s.he0 ≤ 1) →
      (hHeLoop c fuel niter cn s).offDom = false →
      (0 ≤ (hHeLoop c fuel niter cn s).h0 ∧ (hHeLoop c fuel niter cn s).h0 ≤ 1) ∧
      (0 ≤ (hHeLoop c fuel niter cn s).he0 ∧ (hHeLoop c fuel niter cn s).he0 ≤ 1) := by
  intro fuel
  induction fuel with
  | zero =>
    intro niter cn s h1 h2 _
    unfold hHeLoop
    split_ifs <;> exact ⟨h1, h2⟩
  | succ f ih =>
    intro niter cn s h1 h2 hoff
    unfold hHeLoop at hoff ⊢
    split_ifs at hoff ⊢ with hc
    · have hb : (cn || bodyOff c s) = false := by
        cases hcb : (cn || bodyOff c s)
        · rfl
        · rw [hcb, hHeLoop_offDom_true] at hoff; exact absurd hoff (by simp)
      rw [Bool.or_eq_false_iff] at hb
      obtain ⟨p1, p2⟩ := bodyOff_false c s hb.2
      have hr := hHeIterate_range c (niter + 1) s hche hA p1 h2.2 p2
      exact ih (niter + 1) _ _ hr.1 hr.2 hoff
    · exact ⟨h1, h2⟩

theorem hHeInit_range (c : HHeCoef ℝ) (hch1 : 0 ≤ c.ch1) :
    (0 ≤ (hHeInit c).h0 ∧ (hHeInit c).h0 ≤ 1) ∧ (0 ≤ (hHeInit c).he0 ∧ (hHeInit c).he0 ≤ 1) := by
  have e1 : (hHeInit c).h0 = 0.9 * (0.99 * (1 - Real.exp (-0.5 / c.ch1))) := by
    simp only [hHeInit, ArithFns.exp]; norm_num
  have e2 : (hHeInit c).he0 = 0 := by simp only [hHeInit]; norm_num
  rw [e1, e2]
  have hx : (-0.5:ℝ) / c.ch1 ≤ 0 := by
    apply div_nonpos_of_nonpos_of_nonneg (by norm_num) hch1
  have h1 : Real.exp (-0.5 / c.ch1) ≤ 1 := Real.exp_le_one_iff.mpr hx
  have h0 : 0 < Real.exp (-0.5 / c.ch1) := Real.exp_pos _
  refine ⟨⟨by nlinarith, by nlinarith⟩, by norm_num⟩

theorem hHeCoef_nonneg (alphaH alphaHe jH jHe nH aHe T : ℝ) (h1 : 0 ≤ alphaH) (h2 : 0 ≤ alphaHe)
    (h3 : 0 ≤ nH) (hj : 0 ≤ jH) :
    0 ≤ (hHeCoef alphaH alphaHe jH jHe nH aHe T).ch1 ∧
    0 ≤ (hHeCoef alphaH alphaHe jH jHe nH aHe T).che ∧
    (hHeCoef alphaH alphaHe jH jHe nH aHe T).aHe = aHe := by
  refine ⟨?_, ?_, rfl⟩
  · show 0 ≤ alphaH * nH / jH
    exact div_nonneg (mul_nonneg h1 h3) hj
  · show 0 ≤ (if (0.0:ℝ) < jHe then alphaHe * nH / jHe else 0.0)
    split_ifs with h
    · norm_num at h; exact div_nonneg (mul_nonneg h2 h3) h.le
    · norm_num

end CMacVerif.IonBalance
