import CMacVerif.Model.HLLC
import CMacVerif.Lemmas.RiemannVacuum
/-!
Facts about the HLLC model (`Model/HLLC.lean`) at `ℝ` with `tiny = 0`, `ovf = 0`:
its own vacuum samplers are the exact solver's at `x/t = 0`; boost and mirror behaviour of every
stage; the star fluxes on the two sides of the contact coincide when `S* = 0`.
-/
namespace CMacVerif.HLLC
open CMacVerif CMacVerif.RiemannVacuum

/-! ### the solver's own samplers are the exact solver's samplers at `x/t = 0` -/

theorem sampleRightVacuum_eq (G r u P a : ℝ) :
    HLLC.sampleRightVacuum G r u P a = RiemannVacuum.sampleRightVacuum G r u P a 0 := by
  unfold HLLC.sampleRightVacuum RiemannVacuum.sampleRightVacuum HLLC.leftFan RiemannVacuum.leftFan
  simp only [lit0, sub_zero, add_zero, sub_neg]

theorem sampleLeftVacuum_eq (G r u P a : ℝ) :
    HLLC.sampleLeftVacuum G r u P a = RiemannVacuum.sampleLeftVacuum G r u P a 0 := by
  have c : (-a < u) ↔ (0 < u + a) := by constructor <;> intro h <;> linarith
  unfold HLLC.sampleLeftVacuum RiemannVacuum.sampleLeftVacuum HLLC.rightFan RiemannVacuum.rightFan
  simp only [lit0, sub_zero, add_zero, c]

theorem sampleVacuumGeneration_eq (G rL uL PL aL rR uR PR aR : ℝ) :
    HLLC.sampleVacuumGeneration G rL uL PL aL rR uR PR aR
      = RiemannVacuum.sampleVacuumGeneration G rL uL PL aL rR uR PR aR 0 := by
  have c : (-aR < uR) ↔ (0 < uR + aR) := by constructor <;> intro h <;> linarith
  unfold HLLC.sampleVacuumGeneration RiemannVacuum.sampleVacuumGeneration HLLC.rightFan
    RiemannVacuum.rightFan HLLC.leftFan RiemannVacuum.leftFan
  simp only [lit0, sub_zero, add_zero, c, sub_neg]

/-- `solve_vacuum_flux`'s sampler selection = the exact solver's `solve_vacuum` at `x/t = 0`
(when not both states are vacuum; that case returns earlier in both solvers) -/
theorem vacuumSample_eq (G rL vL PL aL rR vR PR aR : ℝ) (vacL vacR : Bool)
    (h : (vacL && vacR) = false) :
    vacuumSample G rL vL PL aL vacL rR vR PR aR vacR
      = solveVacuum G rL vL PL aL vacL rR vR PR aR vacR 0 := by
  unfold vacuumSample solveVacuum
  rw [h]
  simp only [Bool.false_eq_true, if_false, sampleRightVacuum_eq, sampleLeftVacuum_eq,
    sampleVacuumGeneration_eq]

/-! ### boost of the two paths (everything happens in the frame of the face) -/

theorem vacuumFlux_boost (G rL PL aL rR PR aR : ℝ) (vacL vacR : Bool) (f : FaceFrame ℝ)
    (n vf w : V3 ℝ) :
    vacuumFlux G rL PL aL vacL rR PR aR vacR f n (vf.add w)
      = (vacuumFlux G rL PL aL vacL rR PR aR vacR f n vf).boost w := by
  unfold vacuumFlux; exact fluxFromSample_boost ..

theorem mainFlux_boost (G rL PL rLi PLi aL rR PR rRi PRi aR vdiff abar : ℝ) (f : FaceFrame ℝ)
    (n vf w : V3 ℝ) :
    mainFlux 0 G rL PL rLi PLi aL rR PR rRi PRi aR vdiff abar f n (vf.add w)
      = (mainFlux 0 G rL PL rLi PLi aL rR PR rRi PRi aR vdiff abar f n vf).boost w := by
  unfold mainFlux
  simp only
  split_ifs <;> exact deboost_add ..

/-! ### mirror symmetry of the vacuum path -/

theorem vacuumFlux_mirror {G : ℝ} (hG : 1 < G) (rL PL aL rR PR aR : ℝ) (vacL vacR : Bool)
    (f : FaceFrame ℝ) (n vf : V3 ℝ) (hboth : (vacL && vacR) = false)
    (haL : vacL = false → 0 < aL) (haR : vacR = false → 0 < aR)
    (hgen : vacL = false → vacR = false → f.vL + tdgm1 G * aL ≤ f.vR - tdgm1 G * aR) :
    (vacuumFlux G rR PR aR vacR rL PL aL vacL f.mirror n.neg vf).NegOf
      (vacuumFlux G rL PL aL vacL rR PR aR vacR f n vf) := by
  unfold vacuumFlux
  have hboth' : (vacR && vacL) = false := by rw [Bool.and_comm]; exact hboth
  rw [vacuumSample_eq _ _ _ _ _ _ _ _ _ _ _ hboth, vacuumSample_eq _ _ _ _ _ _ _ _ _ _ _ hboth']
  have z : (-0 : ℝ) = 0 := neg_zero
  cases vacL <;> cases vacR
  · -- vacuum generation
    simp only [solveVacuum, Bool.and_self, Bool.false_eq_true, if_false, FaceFrame.mirror]
    by_cases hne : (0 : ℝ) < f.vR - tdgm1 G * aR ∨ f.vL + tdgm1 G * aL < 0
    · refine fluxFromSample_mirror G _ _ f n vf ?_ (sampleVacuumGeneration_flag ..)
      have := sampleVacuumGeneration_mirror G rL f.vL PL aL rR f.vR PR aR 0 hne
      rwa [z] at this
    · -- both fan tails on the face: both orientations sample a state with ρ = P = 0
      have hL := haL rfl
      have hR := haR rfl
      have hg := hgen rfl rfl
      have ht := tdgm1_pos hG
      have h1 : f.vR - tdgm1 G * aR ≤ 0 := by
        by_contra hc; exact hne (Or.inl (not_le.mp hc))
      have h2 : 0 ≤ f.vL + tdgm1 G * aL := by
        by_contra hc; exact hne (Or.inr (not_le.mp hc))
      have eL : f.vL + tdgm1 G * aL = 0 := by linarith
      have eR : f.vR - tdgm1 G * aR = 0 := by linarith
      have tailL := leftFan_tail hG rL f.vL PL aL hL.ne' 34
      have tailR := leftFan_tail hG rR (-f.vR) PR aR hR.ne' 34
      rw [eL] at tailL
      have eR' : -f.vR + tdgm1 G * aR = 0 := by linarith
      rw [eR'] at tailR
      have s1 : RiemannVacuum.sampleVacuumGeneration G rL f.vL PL aL rR f.vR PR aR 0
          = RiemannVacuum.leftFan G rL f.vL PL aL 0 34 := by
        unfold RiemannVacuum.sampleVacuumGeneration
        simp only [eL, eR, lt_irrefl, and_self, if_false]
        rw [if_pos (by nlinarith)]
      have s2 : RiemannVacuum.sampleVacuumGeneration G rR (-f.vR) PR aR rL (-f.vL) PL aL 0
          = RiemannVacuum.leftFan G rR (-f.vR) PR aR 0 34 := by
        have e1 : -f.vL - tdgm1 G * aL = 0 := by linarith
        unfold RiemannVacuum.sampleVacuumGeneration
        simp only [e1, eR', lt_irrefl, and_self, if_false]
        rw [if_pos (by nlinarith)]
      rw [s1, s2]
      obtain ⟨a1, a2, a3⟩ := fluxFromSample_zero G _ f n vf tailL.1 tailL.2
      obtain ⟨b1, b2, b3⟩ := fluxFromSample_zero G _ (FaceFrame.mirror f) n.neg vf tailR.1 tailR.2
      unfold Flux.NegOf
      simp only [FaceFrame.mirror] at b1 b2 b3
      rw [a1, a2, a3, b1, b2, b3]
      refine ⟨by simp, ?_, by simp⟩
      ext <;> simp [V3.neg]
  · -- right state vacuum: the mirrored problem has its left state vacuum
    simp only [solveVacuum, Bool.and_true, Bool.and_false, Bool.false_eq_true, if_false, if_true,
      FaceFrame.mirror]
    refine fluxFromSample_mirror G _ _ f n vf ?_ (sampleRightVacuum_flag ..)
    have := sampleLeftVacuum_mirror G rL f.vL PL aL 0
    rwa [z] at this
  · simp only [solveVacuum, Bool.and_true, Bool.and_false, Bool.false_eq_true, if_false, if_true,
      FaceFrame.mirror]
    refine fluxFromSample_mirror G _ _ f n vf ?_ (sampleLeftVacuum_flag ..)
    have := sampleRightVacuum_mirror G rR f.vR PR aR 0
    rwa [z] at this
  · exact absurd hboth (by decide)

/-! ### mirror symmetry of the wave-speed estimates -/

theorem pstarEst_comm (rL PL rR PR vdiff abar : ℝ) :
    pstarEst rR PR rL PL vdiff abar = pstarEst rL PL rR PR vdiff abar := by
  unfold pstarEst; simp only [add_comm]

/-- the contact speed estimate is antisymmetric under exchange + reflection -/
theorem sStar_mirror (rL vL PL SL rR vR PR SR : ℝ) :
    sStar 0 rR (-vR) PR (-SR) rL (-vL) PL (-SL) = -sStar 0 rL vL PL SL rR vR PR SR := by
  unfold sStar
  have hd : rR * -SR - rL * -SL + 0 = rL * SL - rR * SR + 0 := by ring
  have hn : PL - PR + (rR * -vR * -SR - rL * -vL * -SL) = -(PR - PL + (rL * vL * SL - rR * vR * SR)) := by
    ring
  simp only [hd, hn, neg_div]

theorem waves_mirror (G rL vL PL PLi aL rR vR PR PRi aR vdiff abar : ℝ) :
    (waves 0 G rR (-vR) PR PRi aR rL (-vL) PL PLi aL vdiff abar).SLmvL
        = -(waves 0 G rL vL PL PLi aL rR vR PR PRi aR vdiff abar).SRmvR ∧
    (waves 0 G rR (-vR) PR PRi aR rL (-vL) PL PLi aL vdiff abar).SRmvR
        = -(waves 0 G rL vL PL PLi aL rR vR PR PRi aR vdiff abar).SLmvL ∧
    (waves 0 G rR (-vR) PR PRi aR rL (-vL) PL PLi aL vdiff abar).Sstar
        = -(waves 0 G rL vL PL PLi aL rR vR PR PRi aR vdiff abar).Sstar := by
  unfold waves
  simp only [pstarEst_comm rL PL rR PR]
  refine ⟨neg_mul _ _, by rw [neg_mul, neg_neg], ?_⟩
  have h := sStar_mirror rL vL PL (-aL * qFac G PL PLi (pstarEst rL PL rR PR vdiff abar).1) rR vR PR
    (aR * qFac G PR PRi (pstarEst rL PL rR PR vdiff abar).1)
  simp only [neg_mul, neg_neg] at h ⊢
  exact h

/-! ### mirror symmetry of one side's flux -/

/-- componentwise negation of (mass, momentum, energy) -/
def NegOf3 (a b : ℝ × V3 ℝ × ℝ) : Prop := a.1 = -b.1 ∧ a.2.1 = b.2.1.neg ∧ a.2.2 = -b.2.2

theorem plainFlux_mirror (G rho : ℝ) (uf : V3 ℝ) (v P ri : ℝ) (n : V3 ℝ) :
    NegOf3 (plainFlux G rho uf (-v) P ri n.neg) (plainFlux G rho uf v P ri n) := by
  unfold plainFlux NegOf3
  simp only [lit05]
  refine ⟨by ring, ?_, by ring⟩
  ext <;> simp only [V3.add, V3.smul, V3.neg] <;> ring

theorem starCorrection_mirror (G rho : ℝ) (uf : V3 ℝ) (v P ri SK Sstar : ℝ) (n : V3 ℝ) :
    NegOf3 (starCorrection 0 G rho uf (-v) P ri (-SK) (-Sstar) n.neg)
      (starCorrection 0 G rho uf v P ri SK Sstar n) := by
  have h1 : -SK / (-SK + -v - -Sstar) = SK / (SK + v - Sstar) := by
    rw [show -SK + -v - -Sstar = -(SK + v - Sstar) by ring, neg_div_neg_eq]
  have h2 : (1.0 : ℝ) / (-SK + 0) = -(1.0 / (SK + 0)) := by
    rw [show -SK + (0:ℝ) = -(SK + 0) by ring, div_neg]
  unfold starCorrection NegOf3
  simp only [h1, h2]
  simp only [lit05, lit1]
  refine ⟨by ring, ?_, by ring⟩
  ext <;> simp only [V3.add, V3.smul, V3.neg] <;> ring

theorem sideFlux_mirror (G rho : ℝ) (uf : V3 ℝ) (v P ri SK Sstar : ℝ) (n : V3 ℝ) (left : Bool) :
    NegOf3 (sideFlux 0 G rho uf (-v) P ri (-SK) (-Sstar) n.neg (!left)).1
      (sideFlux 0 G rho uf v P ri SK Sstar n left).1 := by
  have c1 : (0.0 : ℝ) < -SK + -v ↔ SK + v < 0.0 := by
    rw [lit0]; constructor <;> intro h <;> linarith
  have c2 : -SK + -v < (0.0 : ℝ) ↔ 0.0 < SK + v := by
    rw [lit0]; constructor <;> intro h <;> linarith
  obtain ⟨p1, p2, p3⟩ := plainFlux_mirror G rho uf v P ri n
  obtain ⟨s1, s2, s3⟩ := starCorrection_mirror G rho uf v P ri SK Sstar n
  unfold sideFlux
  cases left
  · simp only [Bool.not_false, if_true, Bool.false_eq_true, if_false, c2]
    split_ifs
    · refine ⟨by simp only [p1, s1]; ring, ?_, by simp only [p3, s3]; ring⟩
      simp only [p2, s2]; ext <;> simp only [V3.add, V3.neg] <;> ring
    · exact ⟨p1, p2, p3⟩
  · simp only [Bool.not_true, if_true, Bool.false_eq_true, if_false, c1]
    split_ifs
    · refine ⟨by simp only [p1, s1]; ring, ?_, by simp only [p3, s3]; ring⟩
      simp only [p2, s2]; ext <;> simp only [V3.add, V3.neg] <;> ring
    · exact ⟨p1, p2, p3⟩

/-! ### the star flux when the contact estimate is zero -/

/-- `F_K + S_K (U*_K - U_K)` in the face frame -/
noncomputable def starFlux (G rho : ℝ) (uf : V3 ℝ) (v P ri SK Sstar : ℝ) (n : V3 ℝ) : ℝ × V3 ℝ × ℝ :=
  let F := plainFlux G rho uf v P ri n
  let C := starCorrection 0 G rho uf v P ri SK Sstar n
  (F.1 + C.1, F.2.1.add C.2.1, F.2.2 + C.2.2)

/-- With `S* = 0` the star flux of side `K` carries no mass and no energy, and its momentum is
the star pressure `P_K + ρ_K (S_K - v_K)(S* - v_K)` along the normal. -/
theorem starFlux_at_zero (G rho : ℝ) (uf : V3 ℝ) (v P ri SK : ℝ) (n : V3 ℝ)
    (hr : rho * ri = 1) (hS : SK + v ≠ 0) (hK : SK ≠ 0) :
    starFlux G rho uf v P ri SK 0 n = (0, n.smul (P - rho * v * SK), 0) := by
  unfold starFlux plainFlux starCorrection
  simp only [lit05, lit1, sub_zero, add_zero, zero_sub, zero_add]
  have hri : ri = 1 / rho := by
    have : rho ≠ 0 := by intro h; rw [h, zero_mul] at hr; exact zero_ne_one hr
    field_simp; linarith
  refine Prod.ext ?_ (Prod.ext ?_ ?_)
  · simp only; field_simp; ring
  · simp only
    ext <;> simp only [V3.add, V3.smul] <;> field_simp <;> ring
  · have : rho ≠ 0 := by intro h; rw [h, zero_mul] at hr; exact zero_ne_one hr
    simp only; rw [hri]; field_simp; ring

theorem sideFlux_star (G rho : ℝ) (uf : V3 ℝ) (v P ri SK Sstar : ℝ) (n : V3 ℝ) (left : Bool)
    (h : if left then SK + v < 0 else 0 < SK + v) :
    (sideFlux 0 G rho uf v P ri SK Sstar n left).1 = starFlux G rho uf v P ri SK Sstar n := by
  unfold sideFlux starFlux
  cases left
  · simp only [Bool.false_eq_true, if_false, lit0] at h ⊢; rw [if_pos h]
  · simp only [if_true, lit0] at h ⊢; rw [if_pos h]

/-- the two star fluxes agree when the contact estimate is exactly zero (and the outer wave
estimates straddle the face): the flux does not jump where the upwind side switches -/
theorem starFlux_agree_at_zero (G rL : ℝ) (ufL : V3 ℝ) (vL PL rLi SL rR : ℝ) (ufR : V3 ℝ)
    (vR PR rRi SR : ℝ) (n : V3 ℝ) (hrL : rL * rLi = 1) (hrR : rR * rRi = 1)
    (hSL : SL + vL ≠ 0) (hSR : SR + vR ≠ 0) (hKL : SL ≠ 0) (hKR : SR ≠ 0)
    (hden : rL * SL - rR * SR ≠ 0)
    (h0 : sStar 0 rL vL PL SL rR vR PR SR = 0) :
    starFlux G rL ufL vL PL rLi SL 0 n = starFlux G rR ufR vR PR rRi SR 0 n := by
  rw [starFlux_at_zero G rL ufL vL PL rLi SL n hrL hSL hKL,
    starFlux_at_zero G rR ufR vR PR rRi SR n hrR hSR hKR]
  unfold sStar at h0
  simp only [add_zero] at h0
  rw [div_eq_zero_iff] at h0
  rcases h0 with h0 | h0
  · have : PL - rL * vL * SL = PR - rR * vR * SR := by linarith
    rw [this]
  · exact absurd h0 hden

/-! ### mirror symmetry of the HLLC path -/

theorem mainFlux_mirror (G rL PL rLi PLi aL rR PR rRi PRi aR vdiff abar : ℝ) (f : FaceFrame ℝ)
    (n vf : V3 ℝ) (hrL : rL * rLi = 1) (hrR : rR * rRi = 1) (hrLp : 0 < rL) (hrRp : 0 < rR)
    (hSL : (waves 0 G rL f.vL PL PLi aL rR f.vR PR PRi aR vdiff abar).SLmvL < 0)
    (hSR : 0 < (waves 0 G rL f.vL PL PLi aL rR f.vR PR PRi aR vdiff abar).SRmvR)
    (h0 : (waves 0 G rL f.vL PL PLi aL rR f.vR PR PRi aR vdiff abar).Sstar = 0 →
      (waves 0 G rL f.vL PL PLi aL rR f.vR PR PRi aR vdiff abar).SLmvL + f.vL < 0 ∧
      0 < (waves 0 G rL f.vL PL PLi aL rR f.vR PR PRi aR vdiff abar).SRmvR + f.vR) :
    (mainFlux 0 G rR PR rRi PRi aR rL PL rLi PLi aL vdiff abar f.mirror n.neg vf).NegOf
      (mainFlux 0 G rL PL rLi PLi aL rR PR rRi PRi aR vdiff abar f n vf) := by
  obtain ⟨m1, m2, m3⟩ := waves_mirror G rL f.vL PL PLi aL rR f.vR PR PRi aR vdiff abar
  have hS : (waves 0 G rL f.vL PL PLi aL rR f.vR PR PRi aR vdiff abar).Sstar
      = sStar 0 rL f.vL PL (waves 0 G rL f.vL PL PLi aL rR f.vR PR PRi aR vdiff abar).SLmvL
          rR f.vR PR (waves 0 G rL f.vL PL PLi aL rR f.vR PR PRi aR vdiff abar).SRmvR := rfl
  unfold mainFlux
  simp only [FaceFrame.mirror, m1, m2, m3, lit0]
  generalize waves 0 G rL f.vL PL PLi aL rR f.vR PR PRi aR vdiff abar = w at *
  rcases lt_trichotomy w.Sstar 0 with hneg | hz | hpos
  · rw [if_neg (not_le.mpr hneg), if_pos (by linarith)]
    obtain ⟨e1, e2, e3⟩ := sideFlux_mirror G rR f.uRface f.vR PR rRi w.SRmvR w.Sstar n false
    simp only [Bool.not_false] at e1 e2 e3
    rw [e1, e2, e3]; exact deboost_neg ..
  · obtain ⟨k1, k2⟩ := h0 hz
    simp only [hz, neg_zero, le_refl, if_true]
    obtain ⟨e1, e2, e3⟩ := sideFlux_mirror G rR f.uRface f.vR PR rRi w.SRmvR 0 n false
    simp only [Bool.not_false, neg_zero] at e1 e2 e3
    rw [e1, e2, e3]
    have a1 := sideFlux_star G rR f.uRface f.vR PR rRi w.SRmvR 0 n false (by simpa using k2)
    have a2 := sideFlux_star G rL f.uLface f.vL PL rLi w.SLmvL 0 n true (by simpa using k1)
    have hden : rL * w.SLmvL - rR * w.SRmvR ≠ 0 := by nlinarith
    have ag := starFlux_agree_at_zero G rL f.uLface f.vL PL rLi w.SLmvL rR f.uRface f.vR PR rRi
      w.SRmvR n hrL hrR k1.ne k2.ne' hSL.ne hSR.ne' hden (by rw [← hS]; exact hz)
    rw [a1, ← ag, ← a2]; exact deboost_neg ..
  · rw [if_pos hpos.le, if_neg (by linarith)]
    obtain ⟨e1, e2, e3⟩ := sideFlux_mirror G rL f.uLface f.vL PL rLi w.SLmvL w.Sstar n true
    simp only [Bool.not_true] at e1 e2 e3
    rw [e1, e2, e3]; exact deboost_neg ..

/-! ### signs of the wave-speed estimates -/

theorem sqrt_sound_pos {G rho P : ℝ} (hG : 1 < G) (hr : 0 < rho) (hP : 0 < P) :
    0 < Real.sqrt (G * P * (1.0 / (rho + 0))) := by
  rw [lit1, add_zero]
  exact Real.sqrt_pos.mpr (by positivity)

theorem gp1d2g_pos {G : ℝ} (hG : 1 < G) : 0 < gp1d2g G := by
  unfold gp1d2g; rw [lit05, lit1]; exact div_pos (by nlinarith) (by linarith)

/-- the shock/rarefaction factor `q_K` is at least 1 -/
theorem one_le_qFac {G P pstar : ℝ} (hG : 1 < G) (hP : 0 < P) :
    1 ≤ qFac G P (1.0 / (P + 0)) pstar := by
  unfold qFac
  split_ifs with h
  · rw [sqrt_real, lit1, add_zero]
    have h1 : 1 < pstar * (1 / P) := by
      rw [mul_one_div, lt_div_iff₀ hP]; linarith
    have hg := gp1d2g_pos hG
    exact Real.one_le_sqrt.mpr (by nlinarith)
  · rw [lit1]

theorem waves_SLmvL_neg {G rL vL PL aL rR vR PR PRi aR vdiff abar : ℝ} (hG : 1 < G)
    (hP : 0 < PL) (ha : 0 < aL) :
    (waves 0 G rL vL PL (1.0 / (PL + 0)) aL rR vR PR PRi aR vdiff abar).SLmvL < 0 := by
  unfold waves
  have := one_le_qFac (pstar := (pstarEst rL PL rR PR vdiff abar).1) hG hP
  simp only
  nlinarith

theorem waves_SRmvR_pos {G rL vL PL PLi aL rR vR PR aR vdiff abar : ℝ} (hG : 1 < G)
    (hP : 0 < PR) (ha : 0 < aR) :
    0 < (waves 0 G rL vL PL PLi aL rR vR PR (1.0 / (PR + 0)) aR vdiff abar).SRmvR := by
  unfold waves
  have := one_le_qFac (pstar := (pstarEst rL PL rR PR vdiff abar).1) hG hP
  simp only
  nlinarith

/-! ### identical states -/

theorem deboost_eq_boost (m : ℝ) (p : V3 ℝ) (e : ℝ) (vf : V3 ℝ) (br : Nat) :
    deboost m p e vf br = (⟨m, p, e, br⟩ : Flux ℝ).boost vf := by
  unfold deboost Flux.boost; simp only [lit05]

theorem starCorrection_identical (G rho : ℝ) (uf : V3 ℝ) (v P ri SK : ℝ) (n : V3 ℝ) (hK : SK ≠ 0) :
    starCorrection 0 G rho uf v P ri SK v n = (0, ⟨0, 0, 0⟩, 0) := by
  unfold starCorrection
  have h1 : SK / (SK + v - v) - 1.0 = 0 := by
    rw [lit1, add_sub_cancel_right, div_self hK, sub_self]
  simp only [h1, sub_self, mul_zero, zero_mul, zero_add, add_zero]
  refine Prod.ext rfl (Prod.ext ?_ rfl)
  ext <;> simp [V3.add, V3.smul]

theorem waves_identical {G rho v P a : ℝ} (Pi : ℝ) (hr : 0 < rho) (hP : 0 < P) (ha : 0 < a) :
    (waves 0 G rho v P Pi a rho v P Pi a (v - v) (a + a)).SLmvL = -a ∧
    (waves 0 G rho v P Pi a rho v P Pi a (v - v) (a + a)).SRmvR = a ∧
    (waves 0 G rho v P Pi a rho v P Pi a (v - v) (a + a)).Sstar = v := by
  have hp : (pstarEst rho P rho P (v - v) (a + a)).1 = P := by
    unfold pstarEst amax
    simp only [lit05, lit025, lit0, sub_self, mul_zero, zero_mul, sub_zero]
    have : 1 / 2 * (P + P) = P := by ring
    rw [this, if_pos hP]
  have hq : qFac G P Pi P = 1 := by
    unfold qFac; rw [if_neg (lt_irrefl P), lit1]
  unfold waves sStar
  simp only [hp, hq, mul_one, add_zero]
  refine ⟨trivial, trivial, ?_⟩
  have hne : rho * -a - rho * a ≠ 0 := by nlinarith
  field_simp
  ring

/-- two identical states: the HLLC path returns the upwind flux of that state -/
theorem mainFlux_identical {G rho P a : ℝ} (ri Pi : ℝ) (uf : V3 ℝ) (v : ℝ) (n vf : V3 ℝ)
    (hr : 0 < rho) (hP : 0 < P) (ha : 0 < a) :
    (mainFlux 0 G rho P ri Pi a rho P ri Pi a (v - v) (a + a) ⟨uf, uf, v, v⟩ n vf).Same
      (deboost (plainFlux G rho uf v P ri n).1 (plainFlux G rho uf v P ri n).2.1
        (plainFlux G rho uf v P ri n).2.2 vf 0) := by
  obtain ⟨w1, w2, w3⟩ := waves_identical (G := G) (v := v) Pi hr hP ha
  have cL := starCorrection_identical G rho uf v P ri (-a) n (by linarith [ha] : -a ≠ 0)
  have cR := starCorrection_identical G rho uf v P ri a n ha.ne'
  unfold mainFlux sideFlux
  simp only [w1, w2, w3, cL, cR, add_zero]
  have hz : ∀ p : V3 ℝ, p.add ⟨0, 0, 0⟩ = p := by
    intro p; ext <;> simp [V3.add]
  simp only [hz]
  unfold Flux.Same deboost
  split_ifs <;> exact ⟨rfl, rfl, rfl⟩

/-! ### Textbook HLLC (specification, written independently of the model)

E. F. Toro, *Riemann Solvers and Numerical Methods for Fluid Dynamics*, 3rd ed., §10.4-10.6:
HLLC flux (10.26), star states (10.39) with the normal velocity along a unit vector `n`,
contact speed (10.37), pressure-based wave speed estimates (10.59)-(10.61) with the PVRS
pressure (10.67).  Everything in the frame of the face. -/
namespace Toro

/-- sound speed -/
noncomputable def a (γ ρ P : ℝ) : ℝ := Real.sqrt (γ * P / ρ)

/-- `p* = max(0, p_pvrs)`, `p_pvrs = ½(p_L+p_R) - ½(u_R-u_L) ρ̄ ā`, `ρ̄ = ½(ρ_L+ρ_R)`, `ā = ½(a_L+a_R)` -/
noncomputable def pstar (ρL vL PL aL ρR vR PR aR : ℝ) : ℝ :=
  max 0 (1 / 2 * (PL + PR) - 1 / 8 * (vR - vL) * (ρL + ρR) * (aL + aR))

/-- `q_K = 1` if `p* ≤ p_K`, else `√(1 + (γ+1)/(2γ) (p*/p_K - 1))` -/
noncomputable def q (γ P ps : ℝ) : ℝ :=
  if ps ≤ P then 1 else Real.sqrt (1 + (γ + 1) / (2 * γ) * (ps / P - 1))

/-- contact speed (10.37) -/
noncomputable def contact (ρL vL PL SL ρR vR PR SR : ℝ) : ℝ :=
  (PR - PL + ρL * vL * (SL - vL) - ρR * vR * (SR - vR)) / (ρL * (SL - vL) - ρR * (SR - vR))

/-- the three wave speeds `S_L = v_L - a_L q_L`, `S*`, `S_R = v_R + a_R q_R` -/
structure Speeds where
  SL : ℝ
  Sstar : ℝ
  SR : ℝ

noncomputable def speeds (γ ρL vL PL ρR vR PR : ℝ) : Speeds :=
  let aL := a γ ρL PL
  let aR := a γ ρR PR
  let ps := pstar ρL vL PL aL ρR vR PR aR
  let SL := vL - aL * q γ PL ps
  let SR := vR + aR * q γ PR ps
  ⟨SL, contact ρL vL PL SL ρR vR PR SR, SR⟩

/-- total energy density `E = P/(γ-1) + ½ρ|u|²` -/
noncomputable def energy (γ ρ : ℝ) (u : V3 ℝ) (P : ℝ) : ℝ := P / (γ - 1) + 1 / 2 * ρ * u.norm2

/-- conserved variables `U = (ρ, ρu, E)` -/
noncomputable def U (γ ρ : ℝ) (u : V3 ℝ) (P : ℝ) : ℝ × V3 ℝ × ℝ := (ρ, u.smul ρ, energy γ ρ u P)

/-- physical flux `F = (ρv, ρv u + P n, v(E+P))`, `v = u·n` -/
noncomputable def F (γ ρ : ℝ) (u : V3 ℝ) (P : ℝ) (n : V3 ℝ) : ℝ × V3 ℝ × ℝ :=
  let v := u.dot n
  (ρ * v, (u.smul (ρ * v)).add (n.smul P), v * (energy γ ρ u P + P))

/-- star state (10.39): `U*_K = ρ_K (S_K-v_K)/(S_K-S*) · (1, u_K + (S*-v_K) n,
E_K/ρ_K + (S*-v_K)(S* + p_K/(ρ_K(S_K-v_K))))` -/
noncomputable def Ustar (γ ρ : ℝ) (u : V3 ℝ) (P : ℝ) (n : V3 ℝ) (S Ss : ℝ) : ℝ × V3 ℝ × ℝ :=
  let v := u.dot n
  let fac := ρ * (S - v) / (S - Ss)
  (fac, (u.add (n.smul (Ss - v))).smul fac,
    fac * (energy γ ρ u P / ρ + (Ss - v) * (Ss + P / (ρ * (S - v)))))

/-- `F*_K = F_K + S_K (U*_K - U_K)` -/
noncomputable def Fstar (γ ρ : ℝ) (u : V3 ℝ) (P : ℝ) (n : V3 ℝ) (S Ss : ℝ) : ℝ × V3 ℝ × ℝ :=
  let f := F γ ρ u P n
  let us := Ustar γ ρ u P n S Ss
  let uc := U γ ρ u P
  (f.1 + S * (us.1 - uc.1), f.2.1.add ((us.2.1.sub uc.2.1).smul S), f.2.2 + S * (us.2.2 - uc.2.2))

/-- the HLLC flux (10.26) for the states `(ρ_L, u_L, P_L)`, `(ρ_R, u_R, P_R)` (velocities in the
frame of the face) and unit normal `n` -/
noncomputable def flux (γ ρL : ℝ) (uL : V3 ℝ) (PL ρR : ℝ) (uR : V3 ℝ) (PR : ℝ) (n : V3 ℝ) :
    ℝ × V3 ℝ × ℝ :=
  let s := speeds γ ρL (uL.dot n) PL ρR (uR.dot n) PR
  if 0 ≤ s.SL then F γ ρL uL PL n
  else if 0 ≤ s.Sstar then Fstar γ ρL uL PL n s.SL s.Sstar
  else if 0 ≤ s.SR then Fstar γ ρR uR PR n s.SR s.Sstar
  else F γ ρR uR PR n

end Toro

/-- the code's upwind flux is the physical flux `F_K` -/
theorem plainFlux_eq_toro {G rho : ℝ} (uf : V3 ℝ) (P : ℝ) (n : V3 ℝ) (hr : rho ≠ 0) :
    plainFlux G rho uf (uf.dot n) P (1.0 / (rho + 0)) n = Toro.F G rho uf P n := by
  unfold plainFlux Toro.F Toro.energy gm1inv
  simp only [lit1, lit05, add_zero]
  refine Prod.ext rfl (Prod.ext rfl ?_)
  simp only
  field_simp

/-- the code's corrected flux (with the `(starfac + 1)` factor of fix ed44d42) is Toro's
`F_K + S_K (U*_K - U_K)` -/
theorem starFlux_eq_toro {G rho : ℝ} (uf : V3 ℝ) (P : ℝ) (n : V3 ℝ) (SK Ss : ℝ) (hr : rho ≠ 0) :
    starFlux G rho uf (uf.dot n) P (1.0 / (rho + 0)) SK Ss n
      = Toro.Fstar G rho uf P n (SK + uf.dot n) Ss := by
  unfold starFlux Toro.Fstar
  rw [plainFlux_eq_toro uf P n hr]
  unfold starCorrection Toro.F Toro.Ustar Toro.U Toro.energy gm1inv
  simp only [lit1, lit05, add_zero, add_sub_cancel_right]
  refine Prod.ext ?_ (Prod.ext ?_ ?_)
  · simp only; ring
  · simp only
    ext <;> simp only [V3.add, V3.smul, V3.sub] <;> ring
  · simp only
    field_simp
    ring

theorem sqrt_sound_eq_toro (G rho P : ℝ) :
    Real.sqrt (G * P * (1.0 / (rho + 0))) = Toro.a G rho P := by
  unfold Toro.a; rw [lit1, add_zero, mul_one_div]

theorem pstarEst_eq_toro (rL vL PL aL rR vR PR aR : ℝ) :
    (pstarEst rL PL rR PR (vR - vL) (aL + aR)).1 = Toro.pstar rL vL PL aL rR vR PR aR := by
  unfold pstarEst Toro.pstar
  simp only [amax_real, lit0, lit05, lit025]
  congr 1; ring

theorem qFac_eq_toro {G P : ℝ} (ps : ℝ) (hG : 1 < G) :
    qFac G P (1.0 / (P + 0)) ps = Toro.q G P ps := by
  unfold qFac Toro.q gp1d2g
  simp only [lit1, lit05, add_zero, sqrt_real]
  have hG0 : G ≠ 0 := by intro h; linarith
  by_cases h : P < ps
  · rw [if_pos h, if_neg (not_le.mpr h)]
    congr 1
    field_simp
  · rw [if_neg h, if_pos (not_lt.mp h)]

/-- the code's wave-speed estimates are Toro's pressure-based estimates -/
theorem waves_eq_toro {G : ℝ} (rL vL PL rR vR PR : ℝ) (hG : 1 < G) :
    (waves 0 G rL vL PL (1.0 / (PL + 0)) (Real.sqrt (G * PL * (1.0 / (rL + 0)))) rR vR PR
        (1.0 / (PR + 0)) (Real.sqrt (G * PR * (1.0 / (rR + 0)))) (vR - vL)
        (Real.sqrt (G * PL * (1.0 / (rL + 0))) + Real.sqrt (G * PR * (1.0 / (rR + 0))))).SLmvL
      = (Toro.speeds G rL vL PL rR vR PR).SL - vL ∧
    (waves 0 G rL vL PL (1.0 / (PL + 0)) (Real.sqrt (G * PL * (1.0 / (rL + 0)))) rR vR PR
        (1.0 / (PR + 0)) (Real.sqrt (G * PR * (1.0 / (rR + 0)))) (vR - vL)
        (Real.sqrt (G * PL * (1.0 / (rL + 0))) + Real.sqrt (G * PR * (1.0 / (rR + 0))))).SRmvR
      = (Toro.speeds G rL vL PL rR vR PR).SR - vR ∧
    (waves 0 G rL vL PL (1.0 / (PL + 0)) (Real.sqrt (G * PL * (1.0 / (rL + 0)))) rR vR PR
        (1.0 / (PR + 0)) (Real.sqrt (G * PR * (1.0 / (rR + 0)))) (vR - vL)
        (Real.sqrt (G * PL * (1.0 / (rL + 0))) + Real.sqrt (G * PR * (1.0 / (rR + 0))))).Sstar
      = (Toro.speeds G rL vL PL rR vR PR).Sstar := by
  simp only [sqrt_sound_eq_toro]
  unfold waves Toro.speeds
  simp only [pstarEst_eq_toro, qFac_eq_toro _ hG]
  refine ⟨by ring, by ring, ?_⟩
  unfold sStar Toro.contact
  simp only [add_zero]
  congr 1 <;> ring

theorem sideFlux_plain (G rho : ℝ) (uf : V3 ℝ) (v P ri SK Sstar : ℝ) (n : V3 ℝ) (left : Bool)
    (h : ¬ (if left then SK + v < 0 else 0 < SK + v)) :
    (sideFlux 0 G rho uf v P ri SK Sstar n left).1 = plainFlux G rho uf v P ri n := by
  unfold sideFlux
  cases left
  · simp only [Bool.false_eq_true, if_false, lit0] at h ⊢; rw [if_neg h]
  · simp only [if_true, lit0] at h ⊢; rw [if_neg h]

theorem Toro.Fstar_zero_speed (γ ρ : ℝ) (u : V3 ℝ) (P : ℝ) (n : V3 ℝ) (Ss : ℝ) :
    Toro.Fstar γ ρ u P n 0 Ss = Toro.F γ ρ u P n := by
  unfold Toro.Fstar
  refine Prod.ext (by simp) (Prod.ext ?_ (by simp))
  ext <;> simp [V3.add, V3.smul]

/-- **the HLLC path is textbook HLLC** whenever the three wave-speed estimates are ordered -/
theorem mainFlux_eq_toro {G : ℝ} (rL PL rR PR : ℝ) (uLf uRf n vf : V3 ℝ) (hG : 1 < G)
    (hrL : rL ≠ 0) (hrR : rR ≠ 0)
    (h1 : (Toro.speeds G rL (uLf.dot n) PL rR (uRf.dot n) PR).SL
      ≤ (Toro.speeds G rL (uLf.dot n) PL rR (uRf.dot n) PR).Sstar)
    (_h2 : (Toro.speeds G rL (uLf.dot n) PL rR (uRf.dot n) PR).Sstar
      ≤ (Toro.speeds G rL (uLf.dot n) PL rR (uRf.dot n) PR).SR) :
    (mainFlux 0 G rL PL (1.0 / (rL + 0)) (1.0 / (PL + 0)) (Real.sqrt (G * PL * (1.0 / (rL + 0))))
        rR PR (1.0 / (rR + 0)) (1.0 / (PR + 0)) (Real.sqrt (G * PR * (1.0 / (rR + 0))))
        (uRf.dot n - uLf.dot n)
        (Real.sqrt (G * PL * (1.0 / (rL + 0))) + Real.sqrt (G * PR * (1.0 / (rR + 0))))
        ⟨uLf, uRf, uLf.dot n, uRf.dot n⟩ n vf).Same
      (deboost (Toro.flux G rL uLf PL rR uRf PR n).1 (Toro.flux G rL uLf PL rR uRf PR n).2.1
        (Toro.flux G rL uLf PL rR uRf PR n).2.2 vf 0) := by
  obtain ⟨w1, w2, w3⟩ := waves_eq_toro (G := G) rL (uLf.dot n) PL rR (uRf.dot n) PR hG
  unfold mainFlux Toro.flux
  simp only [w1, w2, w3, lit0]
  generalize Toro.speeds G rL (uLf.dot n) PL rR (uRf.dot n) PR = s at *
  have same : ∀ (a b : ℝ × V3 ℝ × ℝ) (b1 b2 : Nat), a = b →
      (deboost a.1 a.2.1 a.2.2 vf b1).Same (deboost b.1 b.2.1 b.2.2 vf b2) := by
    intro a b b1 b2 h; rw [h]; exact ⟨rfl, rfl, rfl⟩
  by_cases hs : 0 ≤ s.Sstar
  · rw [if_pos hs]
    by_cases hl : 0 ≤ s.SL
    · rw [if_pos hl]
      apply same
      rw [sideFlux_plain _ _ _ _ _ _ _ _ _ true (by simpa using hl), plainFlux_eq_toro _ _ _ hrL]
    · rw [if_neg hl, if_pos hs]
      apply same
      rw [sideFlux_star _ _ _ _ _ _ _ _ _ true (by simpa using hl), starFlux_eq_toro _ _ _ _ _ hrL,
        sub_add_cancel]
  · rw [if_neg hs, if_neg (by intro h; exact hs (le_trans h h1)), if_neg hs]
    by_cases hr : 0 < s.SR
    · rw [if_pos hr.le]
      apply same
      rw [sideFlux_star _ _ _ _ _ _ _ _ _ false (by simpa using hr), starFlux_eq_toro _ _ _ _ _ hrR,
        sub_add_cancel]
    · apply same
      rw [sideFlux_plain _ _ _ _ _ _ _ _ _ false (by simpa using hr), plainFlux_eq_toro _ _ _ hrR]
      split_ifs with h0
      · have : s.SR = 0 := le_antisymm (not_lt.mp hr) h0
        rw [this, Toro.Fstar_zero_speed]
      · rfl

/-! ### a contact at rest; mirror-image states -/

theorem pstar_mirror {rho P a v : ℝ} (hr : 0 < rho) (hP : 0 < P) (ha : 0 < a) (hv : 0 ≤ v) :
    (pstarEst rho P rho P (-v - v) (a + a)).1 = P + rho * v * a := by
  unfold pstarEst amax
  simp only [lit05, lit025, lit0]
  have e : 1 / 2 * (P + P - 1 / 4 * (-v - v) * (rho + rho) * (a + a)) = P + rho * v * a := by ring
  rw [e, if_pos (by positivity)]

/-- `M² < 1 + (γ+1)M/2` for `M < 1.5`: the left wave estimate of two mirror-image states closing
at less than 1.5 sound speeds still moves to the left -/
theorem mirror_speed_bound {G rho P a v : ℝ} (hG : 1 < G) (hr : 0 < rho) (hP : 0 < P) (ha : 0 < a)
    (ha2 : a * a = G * P * (1 / rho)) (hv : v < 3 / 2 * a) :
    v < a * qFac G P (1.0 / (P + 0)) (pstarEst rho P rho P (-v - v) (a + a)).1 := by
  by_cases hva : v < a
  · have := one_le_qFac (pstar := (pstarEst rho P rho P (-v - v) (a + a)).1) hG hP
    nlinarith
  · have hva : a ≤ v := not_lt.mp hva
    have hv0 : 0 ≤ v := by linarith
    rw [pstar_mirror hr hP ha hv0]
    unfold qFac gp1d2g
    have hlt : P < P + rho * v * a := by
      have : 0 < rho * v * a := by
        have : 0 < v := by linarith
        positivity
      linarith
    rw [if_pos hlt]
    simp only [sqrt_real, lit1, lit05, add_zero]
    have hG0 : G ≠ 0 := by intro h; linarith
    have key : (v / a) ^ 2 < 1 + 1 / 2 * (G + 1) / G * ((P + rho * v * a) * (1 / P) - 1) := by
      have hP' : P = a * a * rho / G := by
        rw [ha2]; field_simp
      have e : (P + rho * v * a) * (1 / P) - 1 = G * (v / a) := by
        rw [hP']; field_simp; ring
      rw [e]
      have hM1 : 1 ≤ v / a := by rw [le_div_iff₀ ha]; linarith
      have hM2 : v / a < 3 / 2 := by rw [div_lt_iff₀ ha]; linarith
      have e2 : 1 / 2 * (G + 1) / G * (G * (v / a)) = (G + 1) / 2 * (v / a) := by field_simp
      rw [e2]
      nlinarith
    have h1 : v / a < Real.sqrt (1 + 1 / 2 * (G + 1) / G * ((P + rho * v * a) * (1 / P) - 1)) :=
      (Real.lt_sqrt (by positivity)).mpr key
    rw [div_lt_iff₀ ha] at h1
    linarith

/-- wave estimates of two mirror-image states: symmetric outer waves, contact exactly at rest -/
theorem waves_mirror_states (G rho P a v Pi : ℝ) :
    (waves 0 G rho v P Pi a rho (-v) P Pi a (-v - v) (a + a)).SLmvL
      = -a * qFac G P Pi (pstarEst rho P rho P (-v - v) (a + a)).1 ∧
    (waves 0 G rho v P Pi a rho (-v) P Pi a (-v - v) (a + a)).SRmvR
      = a * qFac G P Pi (pstarEst rho P rho P (-v - v) (a + a)).1 ∧
    (waves 0 G rho v P Pi a rho (-v) P Pi a (-v - v) (a + a)).Sstar = 0 := by
  unfold waves
  refine ⟨rfl, rfl, ?_⟩
  unfold sStar
  simp only
  have : P - P + (rho * v * (-a * qFac G P Pi (pstarEst rho P rho P (-v - v) (a + a)).1)
      - rho * -v * (a * qFac G P Pi (pstarEst rho P rho P (-v - v) (a + a)).1)) = 0 := by ring
  rw [this, zero_div]

/-- HLLC path with the contact estimate exactly at rest between outer waves that straddle the
face: no mass flux, and the energy flux is the work of the momentum flux on the moving face
(zero for a face at rest) -/
theorem mainFlux_contact_at_rest (G rL PL rLi PLi aL rR PR rRi PRi aR vdiff abar : ℝ)
    (f : FaceFrame ℝ) (n vf : V3 ℝ) (hrL : rL * rLi = 1)
    (hS : (waves 0 G rL f.vL PL PLi aL rR f.vR PR PRi aR vdiff abar).Sstar = 0)
    (hK : (waves 0 G rL f.vL PL PLi aL rR f.vR PR PRi aR vdiff abar).SLmvL ≠ 0)
    (hSL : (waves 0 G rL f.vL PL PLi aL rR f.vR PR PRi aR vdiff abar).SLmvL + f.vL < 0) :
    (mainFlux 0 G rL PL rLi PLi aL rR PR rRi PRi aR vdiff abar f n vf).m = 0 ∧
    (mainFlux 0 G rL PL rLi PLi aL rR PR rRi PRi aR vdiff abar f n vf).e
      = vf.dot (mainFlux 0 G rL PL rLi PLi aL rR PR rRi PRi aR vdiff abar f n vf).p := by
  unfold mainFlux
  simp only
  generalize waves 0 G rL f.vL PL PLi aL rR f.vR PR PRi aR vdiff abar = w at *
  rw [hS, lit0, if_pos (le_refl _)]
  rw [sideFlux_star G rL f.uLface f.vL PL rLi w.SLmvL 0 n true (by simpa using hSL),
    starFlux_at_zero G rL f.uLface f.vL PL rLi w.SLmvL n hrL hSL.ne hK]
  unfold deboost
  simp only [V3.dot, V3.add, V3.smul, V3.norm2, lit05]
  constructor
  · trivial
  · ring

/-- mirror-image states closing at less than 1.5 sound speeds (or receding), HLLC path -/
theorem mainFlux_mirror_states {G rho P a v : ℝ} (ufL ufR n vf : V3 ℝ) (hG : 1 < G) (hr : 0 < rho)
    (hP : 0 < P) (ha : 0 < a) (ha2 : a * a = G * P * (1 / rho)) (hv : v < 3 / 2 * a) :
    (mainFlux 0 G rho P (1.0 / (rho + 0)) (1.0 / (P + 0)) a rho P (1.0 / (rho + 0)) (1.0 / (P + 0)) a
        (-v - v) (a + a) ⟨ufL, ufR, v, -v⟩ n vf).m = 0 ∧
    (mainFlux 0 G rho P (1.0 / (rho + 0)) (1.0 / (P + 0)) a rho P (1.0 / (rho + 0)) (1.0 / (P + 0)) a
        (-v - v) (a + a) ⟨ufL, ufR, v, -v⟩ n vf).e
      = vf.dot (mainFlux 0 G rho P (1.0 / (rho + 0)) (1.0 / (P + 0)) a rho P (1.0 / (rho + 0))
          (1.0 / (P + 0)) a (-v - v) (a + a) ⟨ufL, ufR, v, -v⟩ n vf).p := by
  obtain ⟨w1, _, w3⟩ := waves_mirror_states G rho P a v (1.0 / (P + 0))
  have hb := mirror_speed_bound hG hr hP ha ha2 hv
  have hq := one_le_qFac (pstar := (pstarEst rho P rho P (-v - v) (a + a)).1) hG hP
  refine mainFlux_contact_at_rest G rho P _ _ a rho P _ _ a (-v - v) (a + a) ⟨ufL, ufR, v, -v⟩ n vf
    ?_ w3 ?_ ?_
  · rw [lit1, add_zero]; field_simp
  · rw [w1]; nlinarith
  · rw [w1]; simp only; linarith

/-- mirror-image states receding fast enough to generate vacuum: nothing crosses the face -/
theorem vacuumFlux_mirror_states {G rho P a v : ℝ} (ufL ufR n vf : V3 ℝ) (hG : 1 < G) (ha : 0 < a)
    (hgen : tdgm1 G * (a + a) ≤ -v - v) :
    (vacuumFlux G rho P a false rho P a false ⟨ufL, ufR, v, -v⟩ n vf).m = 0 ∧
    (vacuumFlux G rho P a false rho P a false ⟨ufL, ufR, v, -v⟩ n vf).e
      = vf.dot (vacuumFlux G rho P a false rho P a false ⟨ufL, ufR, v, -v⟩ n vf).p := by
  have ht := tdgm1_pos hG
  have key : ∀ s : Sample ℝ, s.rho = 0 → s.P = 0 →
      (fluxFromSample G s ⟨ufL, ufR, v, -v⟩ n vf).m = 0 ∧
      (fluxFromSample G s ⟨ufL, ufR, v, -v⟩ n vf).e
        = vf.dot (fluxFromSample G s ⟨ufL, ufR, v, -v⟩ n vf).p := by
    intro s h1 h2
    obtain ⟨a1, a2, a3⟩ := fluxFromSample_zero G s ⟨ufL, ufR, v, -v⟩ n vf h1 h2
    rw [a1, a2, a3]; simp [V3.dot]
  unfold vacuumFlux
  rw [vacuumSample_eq _ _ _ _ _ _ _ _ _ _ _ rfl]
  unfold solveVacuum
  simp only [Bool.and_self, Bool.false_eq_true, if_false]
  by_cases hlt : v + tdgm1 G * a < 0
  · -- both fans have left the face: vacuum state
    have hs : RiemannVacuum.sampleVacuumGeneration G rho v P a rho (-v) P a 0 = vacuumState 31 := by
      unfold RiemannVacuum.sampleVacuumGeneration
      simp only
      rw [if_pos ⟨by linarith, hlt⟩]
    rw [hs]
    exact key _ (by simp [vacuumState, lit0]) (by simp [vacuumState, lit0])
  · have he : v + tdgm1 G * a = 0 := by linarith
    have hs : RiemannVacuum.sampleVacuumGeneration G rho v P a rho (-v) P a 0
        = RiemannVacuum.leftFan G rho v P a 0 34 := by
      unfold RiemannVacuum.sampleVacuumGeneration
      simp only [he, lt_irrefl, and_false, if_false]
      rw [if_pos (by nlinarith)]
    rw [hs]
    have tail := leftFan_tail hG rho v P a ha.ne' 34
    rw [he] at tail
    exact key _ tail.1 tail.2

/-- mirror-image states closing so fast that the left wave estimate does not move to the left
(`v ≥ a q`): the code returns the plain upwind flux of the *left* state, mass flux `ρ v ≠ 0` -/
theorem mainFlux_mirror_fast {G rho P a v : ℝ} (ri Pi : ℝ) (ufL ufR n vf : V3 ℝ)
    (hfast : a * qFac G P Pi (pstarEst rho P rho P (-v - v) (a + a)).1 ≤ v) :
    (mainFlux 0 G rho P ri Pi a rho P ri Pi a (-v - v) (a + a) ⟨ufL, ufR, v, -v⟩ n vf).m
      = rho * v := by
  obtain ⟨w1, _, w3⟩ := waves_mirror_states G rho P a v Pi
  unfold mainFlux
  simp only [w3, lit0, le_refl, if_true]
  rw [sideFlux_plain G rho ufL v P ri _ 0 n true (by rw [w1]; simp only [if_true]; linarith)]
  rfl


end CMacVerif.HLLC
