import CMacVerif.Lemmas.Worker
/-!
The order in which the sweeps of a worker-loop execution finish (`finishOrder`), and the facts that
make it a linear extension of the task graph: used by C07 (`finish_order_linear_extension`) and by
C10 to connect "any interleaving of the worker loop" with "any schedule that respects the graph".
-/
namespace CMacVerif.Worker
variable {τ ρ : Type} [DecidableEq τ] [DecidableEq ρ]

/-- the tasks of a label trace in the order in which their sweeps finish -/
def finishOrder : List (Label τ) → List τ
  | [] => []
  | .finishExec t :: ls => t :: finishOrder ls
  | .acquire _ :: ls => finishOrder ls
  | .releaseChild _ :: ls => finishOrder ls
  | .retire _ :: ls => finishOrder ls

theorem mem_finishOrder {ls : List (Label τ)} {t : τ} (h : t ∈ finishOrder ls) : .finishExec t ∈ ls := by
  induction ls with
  | nil => cases h
  | cons l ls ih =>
    cases l with
    | finishExec u =>
      simp only [finishOrder, List.mem_cons] at h
      rcases h with rfl | h
      · exact List.mem_cons_self
      · exact List.mem_cons_of_mem _ (ih h)
    | acquire u => exact List.mem_cons_of_mem _ (ih h)
    | releaseChild u => exact List.mem_cons_of_mem _ (ih h)
    | retire u => exact List.mem_cons_of_mem _ (ih h)

/-- only `finishExec` changes the execution counters -/
theorem step_execd (G : Graph τ ρ) (s s' : WState τ) (l : Label τ) (h : step G s l = some s') (t : τ) :
    s'.execd t = s.execd t + (finishOrder [l]).count t := by
  cases l with
  | acquire u =>
    obtain ⟨_, _, rfl⟩ := acquire_some h
    simp [finishOrder]
  | finishExec u =>
    obtain ⟨_, rfl⟩ := finishExec_some h
    simp only [finishOrder, upd, List.count_cons, List.count_nil, Nat.zero_add, beq_iff_eq]
    by_cases e : t = u
    · subst e; simp
    · have e' : ¬ u = t := fun h => e h.symm
      simp [e, e']
  | releaseChild u =>
    obtain ⟨c, rem, _, hs'⟩ := releaseChild_some h
    subst hs'
    split_ifs <;> simp [finishOrder]
  | retire u =>
    obtain ⟨_, rfl⟩ := retire_some h
    simp [finishOrder]

theorem finishOrder_cons (l : Label τ) (ls : List (Label τ)) :
    finishOrder (l :: ls) = finishOrder [l] ++ finishOrder ls := by
  cases l <;> simp [finishOrder]

theorem run_execd (G : Graph τ ρ) (ls : List (Label τ)) :
    ∀ (s s' : WState τ), run G s ls = some s' → ∀ t, s'.execd t = s.execd t + (finishOrder ls).count t := by
  induction ls with
  | nil => intro s s' h t; simp only [run] at h; cases h; simp [finishOrder]
  | cons l ls ih =>
    intro s s' h t
    simp only [run] at h
    cases hstep : step G s l with
    | none => rw [hstep] at h; cases h
    | some s1 =>
      rw [hstep] at h
      rw [ih s1 s' h t, step_execd G s s1 l hstep t, finishOrder_cons l ls, List.count_append]
      omega

/-- a task that has left the state `notReady` has all its parents executed -/
theorem parents_executed (G : Graph τ ρ) (hG : WF G) (s : WState τ) (hs : Inv G s) (t : τ) (ht : t ∈ G.univ)
    (hst : s.st t ≠ .notReady) : ∀ p ∈ G.parents t, s.execd p = 1 := by
  intro p hp
  have hpU := hG.parentIn t ht p hp
  have hc0 : s.cnt t = 0 := (hs.ready t ht).2 hst
  have hz : (pending G s p).count t = 0 := sumOver_zero (by rw [← hs.cnt t ht]; exact hc0) p hpU
  have hcount : 0 < (G.children p).count t := by
    rw [hG.consistent p hpU t ht]; exact List.count_pos_iff.mpr hp
  rw [hs.execd p hpU]
  unfold pending at hz
  cases hsp : s.st p <;> simp only [hsp] at hz <;> first | rfl | omega

/-- in every execution from a state that satisfies the invariant, no task finishes before one of
its parents -/
theorem finishOrder_pairwise (G : Graph τ ρ) (hG : WF G) (ls : List (Label τ)) :
    ∀ (s s' : WState τ), (∀ l ∈ ls, labelTask l ∈ G.univ) → Inv G s → run G s ls = some s' →
      (finishOrder ls).Pairwise (fun a b => b ∉ G.parents a) := by
  induction ls with
  | nil => intro _ _ _ _ _; simp [finishOrder]
  | cons l ls ih =>
    intro s s' hl hs h
    simp only [run] at h
    cases hstep : step G s l with
    | none => rw [hstep] at h; cases h
    | some s1 =>
      rw [hstep] at h
      have hlU := hl l List.mem_cons_self
      have hl' : ∀ l' ∈ ls, labelTask l' ∈ G.univ := fun l' h' => hl l' (List.mem_cons_of_mem _ h')
      have hs1 := step_inv G hG s s1 l hlU hs hstep
      have hrest := ih s1 s' hl' hs1 h
      cases l with
      | acquire u => simpa [finishOrder] using hrest
      | releaseChild u => simpa [finishOrder] using hrest
      | retire u => simpa [finishOrder] using hrest
      | finishExec a =>
        simp only [finishOrder, List.pairwise_cons]
        refine ⟨?_, hrest⟩
        intro b hb hpar
        -- b is a parent of a, a is running: b has been executed already …
        obtain ⟨hrun, _⟩ := finishExec_some hstep
        have haU : a ∈ G.univ := hlU
        have hb1 : s.execd b = 1 :=
          parents_executed G hG s hs a haU (by rw [hrun]; simp) b hpar
        have hbU := hG.parentIn a haU b hpar
        -- … and is executed once more in the rest of the trace: more than once in total
        have hs' := run_inv G hG ls hl' s1 s' hs1 h
        have hle : s'.execd b ≤ 1 := by rw [hs'.execd b hbU]; unfold execdSpec; split <;> omega
        have h1 := step_execd G s s1 (.finishExec a) hstep b
        have h2 := run_execd G ls s1 s' h b
        have hc : 0 < (finishOrder ls).count b := List.count_pos_iff.mpr hb
        omega

/-- **the finish order of a complete execution is a linear extension of the task graph**: every
task exactly once, no task before one of its parents -/
theorem finishOrder_complete (G : Graph τ ρ) (hG : WF G) (ls : List (Label τ))
    (hl : ∀ l ∈ ls, labelTask l ∈ G.univ) (s : WState τ) (h : run G (init G) ls = some s)
    (hall : ∀ t ∈ G.univ, s.execd t = 1) :
    (finishOrder ls).Nodup ∧ (∀ t, t ∈ finishOrder ls ↔ t ∈ G.univ) ∧
      (finishOrder ls).Pairwise (fun a b => b ∉ G.parents a) := by
  have hcount : ∀ t, (finishOrder ls).count t = s.execd t := by
    intro t
    have := run_execd G ls (init G) s h t
    simp only [init] at this
    omega
  have hmemU : ∀ t, t ∈ finishOrder ls → t ∈ G.univ := fun t ht => hl _ (mem_finishOrder ht)
  refine ⟨?_, ?_, finishOrder_pairwise G hG ls (init G) s hl (init_inv G hG) h⟩
  · rw [List.nodup_iff_count]
    intro t
    by_cases ht : t ∈ finishOrder ls
    · rw [hcount t, hall t (hmemU t ht)]; exact Nat.le_refl 1
    · rw [List.count_eq_zero_of_not_mem ht]; omega
  · intro t
    refine ⟨hmemU t, fun ht => ?_⟩
    have := hcount t
    rw [hall t ht] at this
    exact List.count_pos_iff.mp (by omega)

end CMacVerif.Worker
