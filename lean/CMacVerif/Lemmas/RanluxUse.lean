import CMacVerif.Model.RanluxUse
import CMacVerif.Lemmas.RanluxStream
import CMacVerif.Inst.Real
import Mathlib.Analysis.SpecialFunctions.Trigonometric.Basic
/-! Helper lemmas for C13, part 6: consumers of the generator (integers, emission). -/
namespace CMacVerif.Ranlux

noncomputable instance : TrigFns ℝ := ⟨Real.cos, Real.sin, Real.pi⟩

theorem emitDirection_real (u1 u2 : ℝ) :
    emitDirection u1 u2 =
      (Real.sqrt (max (1 - (2 * u1 - 1) * (2 * u1 - 1)) 0) * Real.cos (2 * Real.pi * u2),
       Real.sqrt (max (1 - (2 * u1 - 1) * (2 * u1 - 1)) 0) * Real.sin (2 * Real.pi * u2),
       2 * u1 - 1) := by
  unfold emitDirection
  simp only [amax_real]
  norm_num [ArithFns.sqrt, TrigFns.cos, TrigFns.sin, TrigFns.pi]

theorem emitTau_real (u : ℝ) : emitTau u = -Real.log u := rfl

theorem nextInt_val (R : Rnd) (s : State) :
    (nextInt R s).1 = (next R s).1 * 2147483648 / B ∧ (nextInt R s).2 = (next R s).2 := by
  unfold nextInt; exact ⟨rfl, rfl⟩

end CMacVerif.Ranlux
