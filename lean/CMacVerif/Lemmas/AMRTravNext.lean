import CMacVerif.Lemmas.AMRTravGeom
/-! The jump to the neighbouring leaf in the AMR traversal over `ℝ` (C16): descent by position
into a refined neighbour, periodic correction, under the geometric description `NgbGeo` of the
neighbour pointers (proved from `set_ngbs` in `Lemmas/AMRNgbs.lean`). -/
set_option linter.unusedSimpArgs false
set_option linter.unusedVariables false
namespace CMacVerif.AMRT
open CMacVerif.GridNum CMacVerif.AMR

/-! ### references, boxes -/

theorem treeAt_append (t : Tree) : ∀ (π : List Nat) (k : Nat) (c : Fin 8 → Tree),
    treeAt t π = some (.node c) → treeAt t (π ++ [k]) = some (c ⟨k % 8, Nat.mod_lt _ (by decide)⟩) := by
  induction t with
  | leaf =>
    intro π k c h
    cases π with
    | nil => simp [treeAt] at h
    | cons i r => simp [treeAt] at h
  | node ch ih =>
    intro π k c h
    cases π with
    | nil => simp only [treeAt, Option.some.injEq, Tree.node.injEq] at h; subst h; simp [treeAt]
    | cons i r => simp only [treeAt, List.cons_append] at h ⊢; exact ih _ r k c h

theorem boxOfPath_append (π : List Nat) : ∀ (b : Box3 ℝ) (k : Nat),
    boxOfPath b (π ++ [k]) = childBox (boxOfPath b π) (k / 4 % 2) (k / 2 % 2) (k % 2) := by
  induction π with
  | nil => intro b k; rfl
  | cons i r ih => intro b k; simp only [List.cons_append, boxOfPath]; exact ih _ k

theorem refBox_snoc (G : AGrid ℝ) (r : Ref) (k : Nat) :
    refBox G (r.snoc k) = childBox (refBox G r) (k / 4 % 2) (k / 2 % 2) (k % 2) := by
  unfold refBox Ref.snoc; exact boxOfPath_append _ _ _

theorem cellAt_snoc (G : AGrid ℝ) (r : Ref) (k : Nat) (c : Fin 8 → Tree) (h : cellAt G.g r = some (.node c)) :
    cellAt G.g (r.snoc k) = some (c ⟨k % 8, Nat.mod_lt _ (by decide)⟩) := by
  unfold cellAt Ref.snoc at *; exact treeAt_append _ _ k c h

theorem posB_child (b : Box3 ℝ) (hb : PosB b) (i j k : Nat) : PosB (childBox b i j k) := by
  intro a ha
  have h0 := hb 0 (by decide); have h1 := hb 1 (by decide); have h2 := hb 2 (by decide)
  have ha' : a = 0 ∨ a = 1 ∨ a = 2 := by omega
  simp only [bsd] at h0 h1 h2
  rcases ha' with rfl | rfl | rfl <;> simp [bsd, childBox] <;> norm_num <;> assumption

/-- `get_child(position)`: a position of the closed cell lies in the closed child chosen by the
`>` comparisons with the mid planes -/
theorem child_closed (b : Box3 ℝ) (p : V3 ℝ) (hb : PosB b) (hp : Closed b p) :
    Closed (childBox b (if p.x > b.ax + 0.5 * b.sx then 1 else 0) (if p.y > b.ay + 0.5 * b.sy then 1 else 0)
      (if p.z > b.az + 0.5 * b.sz then 1 else 0)) p := by
  have p0 := hp 0 (by decide); have p1 := hp 1 (by decide); have p2 := hp 2 (by decide)
  simp only [blo, bsd, vget] at p0 p1 p2
  norm_num at p0 p1 p2
  intro a ha
  have ha' : a = 0 ∨ a = 1 ∨ a = 2 := by omega
  rcases ha' with rfl | rfl | rfl
  · by_cases h : p.x > b.ax + 0.5 * b.sx <;> simp only [h, if_true, if_false, blo, bsd, vget, childBox, ofNat_real] <;>
      norm_num at h ⊢ <;> constructor <;> linarith
  · by_cases h : p.y > b.ay + 0.5 * b.sy <;> simp only [h, if_true, if_false, blo, bsd, vget, childBox, ofNat_real] <;>
      norm_num at h ⊢ <;> constructor <;> linarith
  · by_cases h : p.z > b.az + 0.5 * b.sz <;> simp only [h, if_true, if_false, blo, bsd, vget, childBox, ofNat_real] <;>
      norm_num at h ⊢ <;> constructor <;> linarith

/-- the descent `while (!is_single_cell()) cell = cell->get_child(position)` ends in a leaf whose
closed box contains the position -/
theorem descendChild_spec (G : AGrid ℝ) (t : Tree) : ∀ (n : Ref) (p : V3 ℝ), cellAt G.g n = some t →
    PosB (refBox G n) → Closed (refBox G n) p →
    cellAt G.g (descendChild t n (refBox G n) p) = some .leaf ∧
    PosB (refBox G (descendChild t n (refBox G n) p)) ∧
    Closed (refBox G (descendChild t n (refBox G n) p)) p := by
  induction t with
  | leaf => intro n p h hb hp; exact ⟨h, hb, hp⟩
  | node c ih =>
    intro n p h hb hp
    set ix : Nat := if p.x > (refBox G n).ax + 0.5 * (refBox G n).sx then 1 else 0 with hix
    set iy : Nat := if p.y > (refBox G n).ay + 0.5 * (refBox G n).sy then 1 else 0 with hiy
    set iz : Nat := if p.z > (refBox G n).az + 0.5 * (refBox G n).sz then 1 else 0 with hiz
    have bx : ix ≤ 1 := by rw [hix]; split_ifs <;> omega
    have by' : iy ≤ 1 := by rw [hiy]; split_ifs <;> omega
    have bz : iz ≤ 1 := by rw [hiz]; split_ifs <;> omega
    have e1 : (4 * ix + 2 * iy + iz) / 4 % 2 = ix := by omega
    have e2 : (4 * ix + 2 * iy + iz) / 2 % 2 = iy := by omega
    have e3 : (4 * ix + 2 * iy + iz) % 2 = iz := by omega
    have hbox : refBox G (n.snoc (4 * ix + 2 * iy + iz)) = childBox (refBox G n) ix iy iz := by
      rw [refBox_snoc, e1, e2, e3]
    have hcell := cellAt_snoc G n (4 * ix + 2 * iy + iz) c h
    have hchild : Closed (childBox (refBox G n) ix iy iz) p := child_closed (refBox G n) p hb hp
    have := ih ⟨(4 * ix + 2 * iy + iz) % 8, Nat.mod_lt _ (by decide)⟩ (n.snoc (4 * ix + 2 * iy + iz)) p hcell
      (by rw [hbox]; exact posB_child _ hb _ _ _) (by rw [hbox]; exact hchild)
    rw [hbox] at this
    exact this

/-! ### the neighbour across the wall -/

def per (G : AGrid ℝ) (a : Nat) : Bool := if a = 0 then G.px else if a = 1 then G.py else G.pz

/-- the shift between a cell's wall and the near wall of its neighbour: none, or one box length
across a periodic boundary -/
def ShiftOK (G : AGrid ℝ) (a : Nat) (up : Bool) (σ : ℝ) : Prop :=
  σ = 0 ∨ (per G a = true ∧ up = true ∧ σ = -(bsd G.box a)) ∨ (per G a = true ∧ up = false ∧ σ = bsd G.box a)

/-- geometric relation between a cell (box `B`) and its neighbour (box `Nb`) across the wall of
axis `a` in direction `up`: the near wall of the neighbour is the wall of the cell (modulo the
periodic shift) and the neighbour covers the cell's wall in the other two directions -/
def FaceRel (G : AGrid ℝ) (B Nb : Box3 ℝ) (a : Nat) (up : Bool) : Prop :=
  ∃ σ, ShiftOK G a up σ ∧ (up = true → blo Nb a = blo B a + bsd B a + σ) ∧
    (up = false → blo Nb a + bsd Nb a = blo B a + σ) ∧
    ∀ a', a' < 3 → a' ≠ a → blo Nb a' ≤ blo B a' ∧ blo B a' + bsd B a' ≤ blo Nb a' + bsd Nb a'

/-- the block indices of a cell reference are inside the grid -/
def InGrid (G : AGrid ℝ) (r : Ref) : Prop := r.bx < G.g.nx ∧ r.by' < G.g.ny ∧ r.bz < G.g.nz

theorem descendChild_block (t : Tree) : ∀ (n : Ref) (b : Box3 ℝ) (p : V3 ℝ),
    (descendChild t n b p).bx = n.bx ∧ (descendChild t n b p).by' = n.by' ∧ (descendChild t n b p).bz = n.bz := by
  induction t with
  | leaf => intro n b p; exact ⟨rfl, rfl, rfl⟩
  | node c ih =>
    intro n b p
    simp only [descendChild]
    exact ih _ _ _ _

/-- what the traversal needs from the neighbour pointers of cell `r` -/
def NgbGeo (G : AGrid ℝ) (r : Ref) : Prop :=
  ∀ f n, ngb G.g G.px G.py G.pz r f = some n →
    (∃ t, cellAt G.g n = some t) ∧ InGrid G n ∧ PosB (refBox G n) ∧ FaceRel G (refBox G r) (refBox G n) f.axis f.up ∧
    (per G f.axis = true → bsd (refBox G n) f.axis < bsd G.box f.axis)

theorem faceOf_axis (c : Nat) (hc : c < 3) (up : Bool) : (faceOf c up).axis = c ∧ (faceOf c up).up = up := by
  have hc' : c = 0 ∨ c = 1 ∨ c = 2 := by omega
  rcases hc' with rfl | rfl | rfl <;> cases up <;> simp [faceOf, Face.axis, Face.up]

/-- the components of `periodic_correction` as a function of the neighbour found -/
noncomputable def corrOf (G : AGrid ℝ) (B Nb : Box3 ℝ) (c : Nat) (up : Bool) (moving : Prop) [Decidable moving] : V3 ℝ :=
  ⟨periodicCorr G.px (c = 0 ∧ moving) up Nb.ax B.ax G.box.sx, periodicCorr G.py (c = 1 ∧ moving) up Nb.ay B.ay G.box.sy,
   periodicCorr G.pz (c = 2 ∧ moving) up Nb.az B.az G.box.sz⟩

/-- the part of `get_wall_intersection` after the wall has been found -/
theorem hit_next (big : ℝ) (G : AGrid ℝ) (o d : V3 ℝ) (r : Ref) :
    ∀ c, c = hitAxis big (refBox G r) o d →
    (ngb G.g G.px G.py G.pz r (faceOf c (decide (¬ vget d c < 0))) = none →
      (wallIntersection big G o d r).next = none ∧ (wallIntersection big G o d r).corr = ⟨0, 0, 0⟩) ∧
    (∀ n, ngb G.g G.px G.py G.pz r (faceOf c (decide (¬ vget d c < 0))) = some n →
      (wallIntersection big G o d r).corr
        = corrOf G (refBox G r) (refBox G n) c (decide (¬ vget d c < 0)) (vget d c > 0 ∨ vget d c < 0) ∧
      (wallIntersection big G o d r).next = some (match cellAt G.g n with
        | some t => descendChild t n (refBox G n)
            ⟨(along o d (wp big (refBox G r) o d c)).x
                + (corrOf G (refBox G r) (refBox G n) c (decide (¬ vget d c < 0)) (vget d c > 0 ∨ vget d c < 0)).x,
             (along o d (wp big (refBox G r) o d c)).y
                + (corrOf G (refBox G r) (refBox G n) c (decide (¬ vget d c < 0)) (vget d c > 0 ∨ vget d c < 0)).y,
             (along o d (wp big (refBox G r) o d c)).z
                + (corrOf G (refBox G r) (refBox G n) c (decide (¬ vget d c < 0)) (vget d c > 0 ∨ vget d c < 0)).z⟩
        | none => n)) := by
  intro c hcc
  have h3 : c < 3 := hcc ▸ hitAxis_lt big (refBox G r) o d
  have hcases : c = 0 ∨ c = 1 ∨ c = 2 := by omega
  unfold wallIntersection
  simp only
  have e : chooseAxis
      (norm2Diff (along o d (wallParam big o.x d.x (refBox G r).ax ((refBox G r).ax + (refBox G r).sx))) o)
      (norm2Diff (along o d (wallParam big o.y d.y (refBox G r).ay ((refBox G r).ay + (refBox G r).sy))) o)
      (norm2Diff (along o d (wallParam big o.z d.z (refBox G r).az ((refBox G r).az + (refBox G r).sz))) o) = c := hcc.symm
  rw [e]
  rcases hcases with rfl | rfl | rfl <;>
  · simp only [zero_lit, vget, show ((2 : Nat) = 0) = False from by simp, show ((2 : Nat) = 1) = False from by simp,
      show ((1 : Nat) = 0) = False from by simp, if_false, if_true]
    cases hn : ngb G.g G.px G.py G.pz r _ with
    | none => exact ⟨fun _ => ⟨rfl, by simp [zero_lit]⟩, fun n hh => by simp at hh⟩
    | some n0 =>
      refine ⟨fun hh => by simp at hh, fun n hh => ?_⟩
      simp only [Option.some.injEq] at hh
      subst hh
      exact ⟨by simp [corrOf, vget, zero_lit, wp, blo, bsd], by simp [corrOf, vget, zero_lit, wp, blo, bsd]; rfl⟩

theorem vget_mk (x y z : ℝ) (a : Nat) : vget ⟨x, y, z⟩ a = if a = 0 then x else if a = 1 then y else z := rfl

/-- one component of the correction equals the true shift -/
theorem periodicCorr_eq (p : Bool) (up : Bool) (nlo nsd blo' bsd' S σ : ℝ) (hb : 0 < bsd') (hn : 0 < nsd)
    (hnarrowB : p = true → bsd' < S) (hnarrowN : p = true → nsd < S)
    (hσ : σ = 0 ∨ (p = true ∧ up = true ∧ σ = -S) ∨ (p = true ∧ up = false ∧ σ = S))
    (h1 : up = true → nlo = blo' + bsd' + σ) (h2 : up = false → nlo + nsd = blo' + σ) :
    periodicCorr p true up nlo blo' S = σ := by
  unfold periodicCorr
  cases p <;> cases up <;>
    simp only [zero_lit, Bool.false_eq_true, false_and, and_true, true_and, if_false, if_true, and_self,
      not_true_eq_false, not_false_eq_true] <;>
    rcases hσ with h | ⟨hp, hu, h⟩ | ⟨hp, hu, h⟩ <;>
    (try (simp at hp)) <;> (try (simp at hu)) <;> subst h <;>
    (try (have e1 := h1 rfl)) <;> (try (have e2 := h2 rfl)) <;>
    (try (have nB := hnarrowB rfl)) <;> (try (have nN := hnarrowN rfl)) <;>
    (try rfl) <;> split_ifs <;> first | rfl | linarith

theorem periodicCorr_false (p up : Bool) (a b S : ℝ) : periodicCorr p false up a b S = 0 := by
  unfold periodicCorr; simp [zero_lit]

theorem corrOf_get (G : AGrid ℝ) (B Nb : Box3 ℝ) (c : Nat) (up : Bool) (moving : Prop) [Decidable moving]
    (a : Nat) (ha : a < 3) :
    vget (corrOf G B Nb c up moving) a
      = periodicCorr (per G a) (decide (c = a ∧ moving)) up (blo Nb a) (blo B a) (bsd G.box a) := by
  have ha' : a = 0 ∨ a = 1 ∨ a = 2 := by omega
  rcases ha' with rfl | rfl | rfl <;> simp [corrOf, vget, per, blo, bsd]

/-- the jump to the next leaf: with geometric neighbour pointers the photon position after the
wall (and after the periodic correction) lies in the closed box of the leaf it is handed to -/
theorem next_spec (big : ℝ) (G : AGrid ℝ) (o d : V3 ℝ) (r : Ref) (hB : PosB (refBox G r))
    (hhit : HitOK big (refBox G r) o d) (hgeo : NgbGeo G r)
    (hnd : ∀ a, a < 3 → per G a = true → bsd (refBox G r) a < bsd G.box a) :
    (∀ a, a < 3 → vget (wallIntersection big G o d r).corr a = 0 ∨
      (per G a = true ∧ (vget (wallIntersection big G o d r).corr a = bsd G.box a ∨
        vget (wallIntersection big G o d r).corr a = -(bsd G.box a)))) ∧
    ∀ L, (wallIntersection big G o d r).next = some L →
      cellAt G.g L = some .leaf ∧ InGrid G L ∧ PosB (refBox G L) ∧
      Closed (refBox G L) ⟨(wallIntersection big G o d r).wall.x + (wallIntersection big G o d r).corr.x,
        (wallIntersection big G o d r).wall.y + (wallIntersection big G o d r).corr.y,
        (wallIntersection big G o d r).wall.z + (wallIntersection big G o d r).corr.z⟩ := by
  obtain ⟨hmove, hl0, hlmin, hwin, hup, hdown, _⟩ := hit_geom big (refBox G r) o d hhit
  set c := hitAxis big (refBox G r) o d with hc
  have hc3 : c < 3 := hitAxis_lt big (refBox G r) o d
  obtain ⟨hnone, hsome⟩ := hit_next big G o d r c hc
  have hwall := (hit_fields big G o d r).2.1
  obtain ⟨fa, fu⟩ := faceOf_axis c hc3 (decide (¬ vget d c < 0))
  cases hn : ngb G.g G.px G.py G.pz r (faceOf c (decide (¬ vget d c < 0))) with
  | none =>
    obtain ⟨e1, e2⟩ := hnone hn
    refine ⟨fun a ha => Or.inl (by rw [e2, vget_mk]; split_ifs <;> rfl), fun L hL => by rw [e1] at hL; simp at hL⟩
  | some n =>
    obtain ⟨ecorr, enext⟩ := hsome n hn
    obtain ⟨⟨t, ht⟩, hNin, hNpos, ⟨σ, hσ, r1, r2, rcov⟩, hNnarrow⟩ := hgeo _ n hn
    rw [fa] at r1 r2 rcov hσ hNnarrow
    rw [fu] at r1 r2 hσ
    have hmoving : (vget d c > 0 ∨ vget d c < 0) := by
      rcases lt_or_gt_of_ne hmove with h | h
      · exact Or.inr h
      · exact Or.inl h
    -- the correction is the shift, on the chosen axis only
    have hcorr : ∀ a, a < 3 → vget (wallIntersection big G o d r).corr a = if a = c then σ else 0 := by
      intro a ha
      rw [ecorr, corrOf_get G _ _ c _ _ a ha]
      by_cases hac : a = c
      · rw [if_pos hac, hac]
        have hch : decide (c = c ∧ (vget d c > 0 ∨ vget d c < 0)) = true := by simp [hmoving]
        rw [hch]
        exact periodicCorr_eq (per G c) (decide (¬ vget d c < 0)) (blo (refBox G n) c) (bsd (refBox G n) c)
          (blo (refBox G r) c) (bsd (refBox G r) c) (bsd G.box c) σ (hB c hc3) (hNpos c hc3) (hnd c hc3) hNnarrow hσ r1 r2
      · rw [if_neg hac]
        have hch : decide (c = a ∧ (vget d c > 0 ∨ vget d c < 0)) = false := by
          simp only [decide_eq_false_iff_not]; intro h; exact hac h.1.symm
        rw [hch]; exact periodicCorr_false _ _ _ _ _
    refine ⟨?_, ?_⟩
    · intro a ha
      rw [hcorr a ha]
      by_cases hac : a = c
      · rw [if_pos hac, hac]
        rcases hσ with h | ⟨hp, _, h⟩ | ⟨hp, _, h⟩
        · exact Or.inl h
        · exact Or.inr ⟨hp, Or.inr h⟩
        · exact Or.inr ⟨hp, Or.inl h⟩
      · rw [if_neg hac]; exact Or.inl rfl
    · intro L hL
      rw [enext, ht] at hL
      simp only [Option.some.injEq] at hL
      -- the target position lies in the closed box of the neighbour
      have htarget : Closed (refBox G n)
          ⟨(along o d (wp big (refBox G r) o d c)).x + (corrOf G (refBox G r) (refBox G n) c (decide (¬ vget d c < 0)) (vget d c > 0 ∨ vget d c < 0)).x,
           (along o d (wp big (refBox G r) o d c)).y + (corrOf G (refBox G r) (refBox G n) c (decide (¬ vget d c < 0)) (vget d c > 0 ∨ vget d c < 0)).y,
           (along o d (wp big (refBox G r) o d c)).z + (corrOf G (refBox G r) (refBox G n) c (decide (¬ vget d c < 0)) (vget d c > 0 ∨ vget d c < 0)).z⟩ := by
        intro a ha
        have hca := hcorr a ha
        rw [ecorr] at hca
        have hva : vget (⟨(along o d (wp big (refBox G r) o d c)).x + (corrOf G (refBox G r) (refBox G n) c (decide (¬ vget d c < 0)) (vget d c > 0 ∨ vget d c < 0)).x,
           (along o d (wp big (refBox G r) o d c)).y + (corrOf G (refBox G r) (refBox G n) c (decide (¬ vget d c < 0)) (vget d c > 0 ∨ vget d c < 0)).y,
           (along o d (wp big (refBox G r) o d c)).z + (corrOf G (refBox G r) (refBox G n) c (decide (¬ vget d c < 0)) (vget d c > 0 ∨ vget d c < 0)).z⟩ : V3 ℝ) a
            = vget (along o d (wp big (refBox G r) o d c)) a + vget (corrOf G (refBox G r) (refBox G n) c (decide (¬ vget d c < 0)) (vget d c > 0 ∨ vget d c < 0)) a := by
          have ha' : a = 0 ∨ a = 1 ∨ a = 2 := by omega
          rcases ha' with h | h | h <;> subst h <;> simp [vget]
        rw [hva, hca]
        obtain ⟨w1, w2⟩ := hwin a ha
        by_cases hac : a = c
        · rw [if_pos hac, hac]
          have hNp := hNpos c hc3
          rcases lt_or_gt_of_ne hmove with hneg | hpos
          · have e := r2 (by simp [hneg])
            rw [hdown hneg]
            constructor <;> linarith
          · have e := r1 (by simp [not_lt.mpr hpos.le])
            rw [hup hpos]
            constructor <;> linarith
        · rw [if_neg hac]
          obtain ⟨q1, q2⟩ := rcov a ha hac
          constructor <;> linarith
      have := descendChild_spec G t n _ ht hNpos htarget
      have hblk := descendChild_block t n (refBox G n)
        ⟨(along o d (wp big (refBox G r) o d c)).x + (corrOf G (refBox G r) (refBox G n) c (decide (¬ vget d c < 0)) (vget d c > 0 ∨ vget d c < 0)).x,
         (along o d (wp big (refBox G r) o d c)).y + (corrOf G (refBox G r) (refBox G n) c (decide (¬ vget d c < 0)) (vget d c > 0 ∨ vget d c < 0)).y,
         (along o d (wp big (refBox G r) o d c)).z + (corrOf G (refBox G r) (refBox G n) c (decide (¬ vget d c < 0)) (vget d c > 0 ∨ vget d c < 0)).z⟩
      rw [hL] at this hblk
      rw [hwall, ecorr]
      refine ⟨this.1, ?_, this.2⟩
      unfold InGrid at hNin ⊢
      rw [hblk.1, hblk.2.1, hblk.2.2]; exact hNin

end CMacVerif.AMRT
