import CMacVerif.Model.Ranlux
import Mathlib.Tactic.Linarith
/-!
Helper lemmas for C13, part 1: arrays, bounds, the unrolled block is twelve single steps,
the three loops of `increment_state` are iterations of `singleStep`.
-/
namespace CMacVerif.Ranlux

/-! ### array reads and writes -/

theorem size_wr (x : Array Int) (i : Nat) (v : Int) : (wr x i v).size = x.size := by
  simp [wr]

theorem rd_wr_eq (x : Array Int) (i : Nat) (v : Int) (h : i < x.size) : rd (wr x i v) i = v := by
  simp [rd, wr, Array.getD, h]

theorem rd_wr_ne (x : Array Int) (i j : Nat) (v : Int) (h : i ≠ j) :
    rd (wr x i v) j = rd x j := by
  simp only [rd, wr, Array.getD_eq_getD_getElem?, Array.getElem?_setIfInBounds_ne h]

theorem rd_wr (x : Array Int) (i j : Nat) (v : Int) (h : i < x.size) :
    rd (wr x i v) j = if i = j then v else rd x j := by
  by_cases e : i = j
  · subst e; simp [rd_wr_eq x i v h]
  · simp [e, rd_wr_ne x i j v e]

theorem arr_ext (x y : Array Int) (hx : x.size = 12) (hy : y.size = 12)
    (h : ∀ i, i < 12 → rd x i = rd y i) : x = y := by
  apply Array.ext (by omega)
  intro i h1 h2
  have := h i (by omega)
  simp only [rd, Array.getD, h1, h2, dite_true] at this
  simpa using this

/-! ### bounds -/

/-- twelve entries, each in `[0, 2^48)` -/
def Bnd (x : Array Int) : Prop := x.size = 12 ∧ ∀ i, i < 12 → 0 ≤ rd x i ∧ rd x i < B

/-- the carry is 0 or one unit -/
def Cok (c : Int) : Prop := c = 0 ∨ c = 1

/-- a rounding that is exact on integers of magnitude below 2^49 (IEEE doubles: below 2^53) -/
def RExact (R : Rnd) : Prop := ∀ v : Int, -562949953421312 < v → v < 562949953421312 → R v = v

theorem exact_RExact : RExact exact := fun _ _ _ => rfl

theorem B_val : B = 281474976710656 := rfl

theorem bnd_wr (x : Array Int) (i : Nat) (v : Int) (hx : Bnd x) (h0 : 0 ≤ v) (h1 : v < B) :
    Bnd (wr x i v) := by
  refine ⟨by rw [size_wr]; exact hx.1, ?_⟩
  intro j hj
  by_cases e : i = j
  · subst e; rw [rd_wr_eq x i v (by rw [hx.1]; exact hj)]; exact ⟨h0, h1⟩
  · rw [rd_wr_ne x i j v e]; exact hx.2 j hj

/-- value of `sb` without rounding, in closed form -/
theorem sb_exact (x : Array Int) (c : Int) (ir jr : Nat) :
    sb exact x c ir jr =
      if rd x jr - rd x ir - c < 0 then (wr x ir (rd x jr - rd x ir - c + B), 1)
      else (wr x ir (rd x jr - rd x ir - c), 0) := rfl

/-- with bounded operands every rounding that is exact below 2^49 disappears from `sb` -/
theorem sb_R (R : Rnd) (hR : RExact R) (x : Array Int) (c : Int) (ir jr : Nat)
    (hx : Bnd x) (hc : Cok c) (hi : ir < 12) (hj : jr < 12) :
    sb R x c ir jr = sb exact x c ir jr := by
  have a := hx.2 ir hi
  have b := hx.2 jr hj
  rw [B_val] at a b
  have e1 : R (rd x jr - rd x ir) = rd x jr - rd x ir := hR _ (by omega) (by omega)
  have e2 : R (rd x jr - rd x ir - c) = rd x jr - rd x ir - c := by
    rcases hc with h | h <;> subst h <;> exact hR _ (by omega) (by omega)
  have e3 : rd x jr - rd x ir - c < 0 →
      R (rd x jr - rd x ir - c + B) = rd x jr - rd x ir - c + B := by
    intro _
    rw [B_val]
    rcases hc with h | h <;> subst h <;> exact hR _ (by omega) (by omega)
  rw [sb_exact]; unfold sb; simp only [e1, e2]
  by_cases h : rd x jr - rd x ir - c < 0
  · simp only [h, if_true, e3 h]
  · simp only [h, if_false]

theorem sb_bnd (x : Array Int) (c : Int) (ir jr : Nat)
    (hx : Bnd x) (hc : Cok c) (hi : ir < 12) (hj : jr < 12) :
    Bnd (sb exact x c ir jr).1 ∧ Cok (sb exact x c ir jr).2 := by
  have a := hx.2 ir hi
  have b := hx.2 jr hj
  rw [sb_exact]
  rw [B_val] at a b
  split
  · refine ⟨bnd_wr _ _ _ hx ?_ ?_, Or.inr rfl⟩ <;> rw [B_val] <;>
      rcases hc with h | h <;> subst h <;> omega
  · refine ⟨bnd_wr _ _ _ hx ?_ ?_, Or.inl rfl⟩ <;> try rw [B_val]
    all_goals rcases hc with h | h <;> subst h <;> omega

theorem sb_size (x : Array Int) (c : Int) (ir jr : Nat) :
    (sb exact x c ir jr).1.size = x.size := by
  rw [sb_exact]; split <;> simp [size_wr]

/-! ### the unrolled block -/

/-- one `ranlux_step` whose pending value is the not yet normalised difference of the single
step at `(i3, j)` is that single step, and leaves the pending value of the next one -/
theorem rstep_eq (R : Rnd) (hR : RExact R) (x : Array Int) (c : Int) (j i1 i2 i3 : Nat)
    (hx : Bnd x) (hc : Cok c) (h1 : i1 < 12) (h2 : i2 < 12) (h3 : i3 < 12) (hj : j < 12)
    (n1 : i3 ≠ i1) (n2 : i3 ≠ i2) :
    rstep R x (rd x j - rd x i3 - c) i1 i2 i3 =
      ((sb exact x c i3 j).1,
       rd (sb exact x c i3 j).1 i1 - rd (sb exact x c i3 j).1 i2 - (sb exact x c i3 j).2,
       rd (sb exact x c i3 j).1 i3) := by
  have a1 := hx.2 i1 h1
  have a2 := hx.2 i2 h2
  have a3 := hx.2 i3 h3
  have aj := hx.2 j hj
  have hs : i3 < x.size := by rw [hx.1]; exact h3
  rw [B_val] at a1 a2 a3 aj
  have e1 : R (rd x i1 - rd x i2) = rd x i1 - rd x i2 := hR _ (by omega) (by omega)
  have e2 : R (rd x i1 - rd x i2 - 1) = rd x i1 - rd x i2 - 1 := hR _ (by omega) (by omega)
  have e3 : rd x j - rd x i3 - c < 0 →
      R (rd x j - rd x i3 - c + B) = rd x j - rd x i3 - c + B := by
    intro _
    rw [B_val]
    rcases hc with h | h <;> subst h <;> exact hR _ (by omega) (by omega)
  rw [sb_exact]; unfold rstep; simp only [e1, e2]
  by_cases h : rd x j - rd x i3 - c < 0
  · simp only [h, if_true, e3 h, rd_wr_eq _ _ _ hs, rd_wr_ne _ _ _ _ n1, rd_wr_ne _ _ _ _ n2]
  · simp only [h, if_false, rd_wr_eq _ _ _ hs, rd_wr_ne _ _ _ _ n1, rd_wr_ne _ _ _ _ n2]
    simp


def lags : List (Nat × Nat) :=
  [(0,7),(1,8),(2,9),(3,10),(4,11),(5,0),(6,1),(7,2),(8,3),(9,4),(10,5),(11,6)]

def sbRun (l : List (Nat × Nat)) (p : Array Int × Int) : Array Int × Int :=
  l.foldl (fun p ij => sb exact p.1 p.2 ij.1 ij.2) p

theorem block_eq (R : Rnd) (hR : RExact R) (x : Array Int) (c : Int) (hx : Bnd x) (hc : Cok c) :
    block R x c = sbRun lags (x, c) := by
  have a0 := hx.2 0 (by omega)
  have a7 := hx.2 7 (by omega)
  rw [B_val] at a0 a7
  have e0 : R (R (rd x 7 - rd x 0) - c) = rd x 7 - rd x 0 - c := by
    rw [hR (rd x 7 - rd x 0) (by omega) (by omega)]
    rcases hc with h | h <;> subst h <;> exact hR _ (by omega) (by omega)
  unfold block
  simp only [e0, sbRun, lags, List.foldl]
  generalize hq : (x, c) = q
  have hx' : Bnd q.1 := by subst hq; exact hx
  have hc' : Cok q.2 := by subst hq; exact hc
  have ex : x = q.1 := by subst hq; rfl
  have ec : c = q.2 := by subst hq; rfl
  rw [ex, ec]
  clear hq ex ec e0 a0 a7 hx hc
  rw [rstep_eq R hR q.1 q.2 7 8 1 0 hx' hc' (by omega) (by omega) (by omega) (by omega) (by omega) (by omega)]
  have hb := sb_bnd q.1 q.2 0 7 hx' hc' (by omega) (by omega)
  generalize sb exact q.1 q.2 0 7 = q' at hb ⊢
  clear hx' hc' q
  obtain ⟨hx', hc'⟩ := hb
  rename' q' => q
  rw [rstep_eq R hR q.1 q.2 8 9 2 1 hx' hc' (by omega) (by omega) (by omega) (by omega) (by omega) (by omega)]
  have hb := sb_bnd q.1 q.2 1 8 hx' hc' (by omega) (by omega)
  generalize sb exact q.1 q.2 1 8 = q' at hb ⊢
  clear hx' hc' q
  obtain ⟨hx', hc'⟩ := hb
  rename' q' => q
  rw [rstep_eq R hR q.1 q.2 9 10 3 2 hx' hc' (by omega) (by omega) (by omega) (by omega) (by omega) (by omega)]
  have hb := sb_bnd q.1 q.2 2 9 hx' hc' (by omega) (by omega)
  generalize sb exact q.1 q.2 2 9 = q' at hb ⊢
  clear hx' hc' q
  obtain ⟨hx', hc'⟩ := hb
  rename' q' => q
  rw [rstep_eq R hR q.1 q.2 10 11 4 3 hx' hc' (by omega) (by omega) (by omega) (by omega) (by omega) (by omega)]
  have hb := sb_bnd q.1 q.2 3 10 hx' hc' (by omega) (by omega)
  generalize sb exact q.1 q.2 3 10 = q' at hb ⊢
  clear hx' hc' q
  obtain ⟨hx', hc'⟩ := hb
  rename' q' => q
  rw [rstep_eq R hR q.1 q.2 11 0 5 4 hx' hc' (by omega) (by omega) (by omega) (by omega) (by omega) (by omega)]
  have hb := sb_bnd q.1 q.2 4 11 hx' hc' (by omega) (by omega)
  generalize sb exact q.1 q.2 4 11 = q' at hb ⊢
  clear hx' hc' q
  obtain ⟨hx', hc'⟩ := hb
  rename' q' => q
  rw [rstep_eq R hR q.1 q.2 0 1 6 5 hx' hc' (by omega) (by omega) (by omega) (by omega) (by omega) (by omega)]
  have hb := sb_bnd q.1 q.2 5 0 hx' hc' (by omega) (by omega)
  generalize sb exact q.1 q.2 5 0 = q' at hb ⊢
  clear hx' hc' q
  obtain ⟨hx', hc'⟩ := hb
  rename' q' => q
  rw [rstep_eq R hR q.1 q.2 1 2 7 6 hx' hc' (by omega) (by omega) (by omega) (by omega) (by omega) (by omega)]
  have hb := sb_bnd q.1 q.2 6 1 hx' hc' (by omega) (by omega)
  generalize sb exact q.1 q.2 6 1 = q' at hb ⊢
  clear hx' hc' q
  obtain ⟨hx', hc'⟩ := hb
  rename' q' => q
  rw [rstep_eq R hR q.1 q.2 2 3 8 7 hx' hc' (by omega) (by omega) (by omega) (by omega) (by omega) (by omega)]
  have hb := sb_bnd q.1 q.2 7 2 hx' hc' (by omega) (by omega)
  generalize sb exact q.1 q.2 7 2 = q' at hb ⊢
  clear hx' hc' q
  obtain ⟨hx', hc'⟩ := hb
  rename' q' => q
  rw [rstep_eq R hR q.1 q.2 3 4 9 8 hx' hc' (by omega) (by omega) (by omega) (by omega) (by omega) (by omega)]
  have hb := sb_bnd q.1 q.2 8 3 hx' hc' (by omega) (by omega)
  generalize sb exact q.1 q.2 8 3 = q' at hb ⊢
  clear hx' hc' q
  obtain ⟨hx', hc'⟩ := hb
  rename' q' => q
  rw [rstep_eq R hR q.1 q.2 4 5 10 9 hx' hc' (by omega) (by omega) (by omega) (by omega) (by omega) (by omega)]
  have hb := sb_bnd q.1 q.2 9 4 hx' hc' (by omega) (by omega)
  generalize sb exact q.1 q.2 9 4 = q' at hb ⊢
  clear hx' hc' q
  obtain ⟨hx', hc'⟩ := hb
  rename' q' => q
  rw [rstep_eq R hR q.1 q.2 5 6 11 10 hx' hc' (by omega) (by omega) (by omega) (by omega) (by omega) (by omega)]
  have hb := sb_bnd q.1 q.2 10 5 hx' hc' (by omega) (by omega)
  generalize sb exact q.1 q.2 10 5 = q' at hb ⊢
  clear hx' hc' q
  obtain ⟨hx', hc'⟩ := hb
  rename' q' => q
  dsimp only
  have a6 := hx'.2 6 (by omega)
  have a11 := hx'.2 11 (by omega)
  rw [B_val] at a6 a11
  rw [sb_exact]
  by_cases h : rd q.1 6 - rd q.1 11 - q.2 < 0
  · have e : R (rd q.1 6 - rd q.1 11 - q.2 + B) = rd q.1 6 - rd q.1 11 - q.2 + B := by
      rw [B_val]
      rcases hc' with h' | h' <;> rw [h'] <;> exact hR _ (by omega) (by omega)
    simp only [h, if_true, e]
  · simp only [h, if_false]


/-! ### the loops are iterations of `singleStep` -/

theorem iter_succ {α : Type} (f : α → α) (n : Nat) (a : α) : iter f (n + 1) a = f (iter f n a) := by
  induction n generalizing a with
  | zero => rfl
  | succ n ih => rw [iter, ih, ← iter]

theorem iter_add {α : Type} (f : α → α) (a b : Nat) (s : α) :
    iter f (a + b) s = iter f b (iter f a s) := by
  induction a generalizing s with
  | zero => simp [iter]
  | succ a ih => rw [Nat.add_right_comm, iter, ih, ← iter]

/-- bounded entries, carry bit, indices in range -/
def Good (s : State) : Prop := Bnd s.x ∧ Cok s.carry ∧ s.ir < 12 ∧ s.jr < 12

theorem singleStep_good (s : State) (h : Good s) : Good (singleStep s) := by
  obtain ⟨hx, hc, hi, hj⟩ := h
  have := sb_bnd s.x s.carry s.ir s.jr hx hc hi hj
  exact ⟨this.1, this.2, Nat.mod_lt _ (by omega), Nat.mod_lt _ (by omega)⟩

theorem iter_good (n : Nat) (s : State) (h : Good s) : Good (iter singleStep n s) := by
  induction n generalizing s with
  | zero => exact h
  | succ n ih => exact ih _ (singleStep_good s h)

theorem singleStep_ir (s : State) : (singleStep s).ir = (s.ir + 1) % 12 := rfl
theorem singleStep_jr (s : State) : (singleStep s).jr = (s.jr + 1) % 12 := rfl
theorem singleStep_irOld (s : State) : (singleStep s).irOld = s.irOld := rfl
theorem singleStep_pr (s : State) : (singleStep s).pr = s.pr := rfl

theorem iter_ir (n : Nat) (s : State) (h : s.ir < 12) : (iter singleStep n s).ir = (s.ir + n) % 12 := by
  induction n generalizing s with
  | zero => simp [iter]; omega
  | succ n ih => rw [iter, ih _ (by rw [singleStep_ir]; omega), singleStep_ir]; omega

theorem iter_jr (n : Nat) (s : State) (h : s.jr < 12) : (iter singleStep n s).jr = (s.jr + n) % 12 := by
  induction n generalizing s with
  | zero => simp [iter]; omega
  | succ n ih => rw [iter, ih _ (by rw [singleStep_jr]; omega), singleStep_jr]; omega

theorem iter_irOld (n : Nat) (s : State) : (iter singleStep n s).irOld = s.irOld := by
  induction n generalizing s with
  | zero => rfl
  | succ n ih => rw [iter, ih, singleStep_irOld]

theorem iter_pr (n : Nat) (s : State) : (iter singleStep n s).pr = s.pr := by
  induction n generalizing s with
  | zero => rfl
  | succ n ih => rw [iter, ih, singleStep_pr]

theorem loop1_spec (R : Rnd) (hR : RExact R) (o p : Nat) :
    ∀ (f : Nat) (x : Array Int) (c : Int) (ir jr k : Nat),
      Good ⟨x, c, ir, jr, o, p⟩ → (12 - ir) % 12 ≤ f →
      loop1 R f x c ir jr k =
        ((iter singleStep ((12 - ir) % 12) ⟨x, c, ir, jr, o, p⟩).x,
         (iter singleStep ((12 - ir) % 12) ⟨x, c, ir, jr, o, p⟩).carry,
         (iter singleStep ((12 - ir) % 12) ⟨x, c, ir, jr, o, p⟩).ir,
         (iter singleStep ((12 - ir) % 12) ⟨x, c, ir, jr, o, p⟩).jr,
         k + (12 - ir) % 12) := by
  intro f
  induction f with
  | zero =>
    intro x c ir jr k hg hf
    have hi : ir < 12 := hg.2.2.1
    have : ir = 0 := by omega
    subst this
    simp [loop1, iter]
  | succ f ih =>
    intro x c ir jr k hg hf
    have hi : ir < 12 := hg.2.2.1
    by_cases h0 : ir > 0
    · have hgs := singleStep_good _ hg
      have hs : singleStep ⟨x, c, ir, jr, o, p⟩ =
          ⟨(sb exact x c ir jr).1, (sb exact x c ir jr).2, (ir + 1) % 12, (jr + 1) % 12, o, p⟩ := rfl
      rw [hs] at hgs
      have e : (12 - ir) % 12 = (12 - (ir + 1) % 12) % 12 + 1 := by omega
      rw [loop1, if_pos h0, sb_R R hR x c ir jr hg.1 hg.2.1 hg.2.2.1 hg.2.2.2]
      dsimp only
      rw [ih _ _ _ _ _ hgs (by omega), e, iter, hs]
      congr 4; omega
    · have : ir = 0 := by omega
      subst this
      simp [loop1, iter]


theorem loop3_spec (R : Rnd) (hR : RExact R) (o p pr : Nat) :
    ∀ (f : Nat) (x : Array Int) (c : Int) (ir jr k : Nat),
      Good ⟨x, c, ir, jr, o, p⟩ → pr - k ≤ f →
      loop3 R pr f x c ir jr k =
        ((iter singleStep (pr - k) ⟨x, c, ir, jr, o, p⟩).x,
         (iter singleStep (pr - k) ⟨x, c, ir, jr, o, p⟩).carry,
         (iter singleStep (pr - k) ⟨x, c, ir, jr, o, p⟩).ir,
         (iter singleStep (pr - k) ⟨x, c, ir, jr, o, p⟩).jr) := by
  intro f
  induction f with
  | zero =>
    intro x c ir jr k hg hf
    have : pr - k = 0 := by omega
    rw [this]; rfl
  | succ f ih =>
    intro x c ir jr k hg hf
    by_cases h0 : k < pr
    · have hgs := singleStep_good _ hg
      have hs : singleStep ⟨x, c, ir, jr, o, p⟩ =
          ⟨(sb exact x c ir jr).1, (sb exact x c ir jr).2, (ir + 1) % 12, (jr + 1) % 12, o, p⟩ := rfl
      rw [hs] at hgs
      have e : pr - k = (pr - (k + 1)) + 1 := by omega
      rw [loop3, if_pos h0, sb_R R hR x c ir jr hg.1 hg.2.1 hg.2.2.1 hg.2.2.2]
      dsimp only
      rw [ih _ _ _ _ _ hgs (by omega), e, iter, hs]
    · have : pr - k = 0 := by omega
      rw [this, loop3, if_neg h0]; rfl

theorem iter12 (x : Array Int) (c : Int) (o p : Nat) :
    iter singleStep 12 ⟨x, c, 0, 7, o, p⟩ =
      ⟨(sbRun lags (x, c)).1, (sbRun lags (x, c)).2, 0, 7, o, p⟩ := by
  simp only [iter, singleStep, sbRun, lags, List.foldl, Nat.reduceAdd, Nat.reduceMod]

theorem loop2_spec (R : Rnd) (hR : RExact R) (o p pr : Nat) :
    ∀ (f : Nat) (x : Array Int) (c : Int) (k : Nat),
      Good ⟨x, c, 0, 7, o, p⟩ → (pr - k) / 12 ≤ f →
      loop2 R pr f x c k =
        ((iter singleStep (12 * ((pr - k) / 12)) ⟨x, c, 0, 7, o, p⟩).x,
         (iter singleStep (12 * ((pr - k) / 12)) ⟨x, c, 0, 7, o, p⟩).carry,
         k + 12 * ((pr - k) / 12)) := by
  intro f
  induction f with
  | zero =>
    intro x c k hg hf
    have : (pr - k) / 12 = 0 := by omega
    rw [this]; rfl
  | succ f ih =>
    intro x c k hg hf
    by_cases h0 : k + 12 ≤ pr
    · have hgs := iter_good 12 _ hg
      rw [iter12] at hgs
      have e : 12 * ((pr - k) / 12) = 12 + 12 * ((pr - (k + 12)) / 12) := by omega
      rw [loop2, if_pos h0, block_eq R hR x c hg.1 hg.2.1]
      dsimp only
      rw [ih _ _ _ hgs (by omega), e, iter_add, iter12]
      congr 2; omega
    · have : (pr - k) / 12 = 0 := by omega
      rw [this, loop2, if_neg h0]; rfl


theorem state_eta (s : State) : s = ⟨s.x, s.carry, s.ir, s.jr, s.irOld, s.pr⟩ := rfl

/-- `increment_state` performs exactly `_pr` single steps and records the new read index -/
theorem incrementState_eq (R : Rnd) (hR : RExact R) (s : State) (hx : Bnd s.x) (hc : Cok s.carry)
    (hi : s.ir < 12) (hj : s.jr = (s.ir + 7) % 12) (hp : 11 ≤ s.pr) :
    incrementState R s =
      { iter singleStep s.pr s with irOld := (iter singleStep s.pr s).ir } := by
  obtain ⟨x, c, ir, jr, o, p⟩ := s
  dsimp only at hx hc hi hj hp ⊢
  have hg : Good ⟨x, c, ir, jr, o, p⟩ := ⟨hx, hc, hi, by dsimp only; omega⟩
  generalize hs1 : iter singleStep ((12 - ir) % 12) ⟨x, c, ir, jr, o, p⟩ = s1
  have g1 : Good s1 := by rw [← hs1]; exact iter_good _ _ hg
  have i1 : s1.ir = 0 := by rw [← hs1, iter_ir _ _ hi]; dsimp only; omega
  have j1 : s1.jr = 7 := by rw [← hs1, iter_jr _ _ hg.2.2.2]; dsimp only; omega
  have o1 : s1.irOld = o := by rw [← hs1, iter_irOld]
  have p1 : s1.pr = p := by rw [← hs1, iter_pr]
  have e1 : (⟨s1.x, s1.carry, 0, 7, o, p⟩ : State) = s1 := by
    rw [← i1, ← j1, ← o1, ← p1]
  generalize hk1 : 0 + (12 - ir) % 12 = k1
  generalize hs2 : iter singleStep (12 * ((p - k1) / 12)) s1 = s2
  have g2 : Good s2 := by rw [← hs2]; exact iter_good _ _ g1
  have i2 : s2.ir = 0 := by rw [← hs2, iter_ir _ _ g1.2.2.1, i1]; omega
  have j2 : s2.jr = 7 := by rw [← hs2, iter_jr _ _ g1.2.2.2, j1]; omega
  have o2 : s2.irOld = o := by rw [← hs2, iter_irOld, o1]
  have p2 : s2.pr = p := by rw [← hs2, iter_pr, p1]
  have e2 : (⟨s2.x, s2.carry, s1.ir, s1.jr, o, p⟩ : State) = s2 := by
    rw [i1, j1]; rw [← i2, ← j2, ← o2, ← p2]
  unfold incrementState
  dsimp only
  rw [loop1_spec R hR o p 12 x c ir jr 0 hg (by omega), hs1, hk1]
  dsimp only
  rw [loop2_spec R hR o p p p s1.x s1.carry k1 (by rw [e1]; exact g1) (by omega), e1, hs2]
  dsimp only
  rw [loop3_spec R hR o p p p s2.x s2.carry s1.ir s1.jr _ (by rw [e2]; exact g2) (by omega), e2]
  have ht : iter singleStep p ⟨x, c, ir, jr, o, p⟩ =
      iter singleStep (p - (k1 + 12 * ((p - k1) / 12))) s2 := by
    rw [← hs2, ← hs1, ← iter_add, ← iter_add]; congr 1; omega
  rw [ht]
  have pe : (iter singleStep (p - (k1 + 12 * ((p - k1) / 12))) s2).pr = p := by rw [iter_pr, p2]
  rw [state_eta (iter singleStep (p - (k1 + 12 * ((p - k1) / 12))) s2)]
  simp only [pe]

end CMacVerif.Ranlux
