import CMacVerif.Lemmas.PhotonCache
import CMacVerif.Lemmas.PhotonCont
import CMacVerif.Lemmas.PhotonWorker
/-! C01: no stuck state -- as long as not all requested packets are terminated some label is enabled
(provided the buffer pool and the task table are not exhausted). -/
namespace CMacVerif.Photon
open CMacVerif.Worker (sumOver sumOver_congr sumOver_le sumOver_zero sumOver_pos)

/-- free capacity: two free buffers and `nblocks + 1` free task slots -/
structure FreeCap (cfg : Cfg) (s : State) : Prop where
  bufs : ∃ b1 b2, b1 ≠ b2 ∧ b1 < cfg.bufCap ∧ s.pool b1 = none ∧ b2 < cfg.bufCap ∧ s.pool b2 = none
  tasks : ∃ fl : List Nat, fl.length = cfg.nblocks + 1 ∧ fl.Nodup ∧ ∀ t ∈ fl, t < cfg.taskCap ∧ s.tasks t = none

def Enabled (cfg : Cfg) (s : State) : Prop := ∃ l, (step cfg s l).isSome = true

theorem enabled_of {cfg : Cfg} {s s' : State} {l : Label} (h : step cfg s l = some s') : Enabled cfg s :=
  ⟨l, by rw [h]; rfl⟩

theorem bufFree_of {cfg : Cfg} {s : State} {b : Nat} (h1 : b < cfg.bufCap) (h2 : s.pool b = none) : bufFree cfg s b = true :=
  (bufFree_iff cfg s b).mpr ⟨h1, h2⟩
theorem taskFree_of {cfg : Cfg} {s : State} {t : Nat} (h1 : t < cfg.taskCap) (h2 : s.tasks t = none) : taskFree cfg s t = true :=
  (taskFree_iff cfg s t).mpr ⟨h1, h2⟩

/-! ### the traversal commit is enabled for the outcome "every packet ends in direction INSIDE" -/

theorem fold_empty {cfg : Cfg} {g : Nat} {outs : Nat → List Nat} {res : Nat → DirRes} :
    ∀ (l : List Nat) (acc : State × Nat × Nat), (∀ i ∈ l, outs i = []) →
      ∃ acc', foldOpt (travDir cfg g outs res) acc l = some acc' := by
  intro l
  induction l with
  | nil => intro acc _; exact ⟨acc, rfl⟩
  | cons i l ih =>
    intro acc h
    have hi : outs i = [] := h i List.mem_cons_self
    have hd : travDir cfg g outs res acc i = some (acc.1, travLargest cfg g i acc.1 acc.2.1 acc.2.2) := by
      simp [travDir, travDirState, hi]
    obtain ⟨acc', h'⟩ := ih (acc.1, travLargest cfg g i acc.1 acc.2.1 acc.2.2) (fun j hj => h j (List.mem_cons_of_mem _ hj))
    exact ⟨acc', by simp only [foldOpt, hd]; exact h'⟩

theorem fillDir_some {cfg : Cfg} {g i a sub dir : Nat} {old L : List Nat} {r : DirRes} {s : State}
    (hnb : r.nb < cfg.bufCap) (hnbf : s.pool r.nb = none) (hne : r.nb ≠ a) (hnt : r.nt < cfg.taskCap) (hntf : s.tasks r.nt = none) :
    ∃ s1, fillDir cfg g i a sub dir old L r s = some s1 := by
  simp only [fillDir]
  have h1 : bufFree cfg { s with pool := upd s.pool a (some ⟨sub, dir, (addPhotons old L).1⟩) } r.nb = true :=
    bufFree_of hnb (by show upd s.pool a _ r.nb = none; rw [upd_other _ _ _ hne]; exact hnbf)
  have h2 : taskFree cfg { s with pool := upd s.pool a (some ⟨sub, dir, (addPhotons old L).1⟩) } r.nt = true :=
    taskFree_of hnt hntf
  by_cases hfull : (addPhotons old L).1.length = BUFSZ
  · rw [if_pos hfull]
    simp only [h1, h2, Bool.and_self, if_true]
    by_cases hrest : (addPhotons old L).2.isEmpty = true
    · rw [if_pos hrest]; exact ⟨_, rfl⟩
    · rw [if_neg hrest]; exact ⟨_, rfl⟩
  · rw [if_neg hfull]; exact ⟨_, rfl⟩

theorem travDirState_some {cfg : Cfg} {g i : Nat} {L : List Nat} {r : DirRes} {s : State} (hi : Inv cfg s)
    (hngb : (cfg.ngb g i).isSome = true ∨ L = [])
    (hna : r.na < cfg.bufCap) (hnaf : s.pool r.na = none) (hnb : r.nb < cfg.bufCap) (hnbf : s.pool r.nb = none)
    (hab : r.na ≠ r.nb) (hnt : r.nt < cfg.taskCap) (hntf : s.tasks r.nt = none) :
    ∃ s1, travDirState cfg g L r i s = some s1 := by
  simp only [travDirState]
  by_cases hL : L.isEmpty = true
  · rw [if_pos hL]; exact ⟨s, rfl⟩
  · rw [if_neg hL]
    have hLne : L ≠ [] := by simpa using hL
    rcases hngb with hngb | hngb
    swap
    · exact absurd hngb hLne
    cases hng : cfg.ngb g i with
    | none => rw [hng] at hngb; cases hngb
    | some ng =>
      simp only
      cases ha : s.active g i with
      | some a =>
        simp only
        obtain ⟨buf, hp, _⟩ := hi.own.live (.act g i) a ha
        rw [hp]
        simp only
        exact fillDir_some hnb hnbf (by intro e; rw [e, hp] at hnbf; cases hnbf) hnt hntf
      | none =>
        simp only
        rw [if_pos (bufFree_of hna hnaf)]
        exact fillDir_some hnb hnbf (Ne.symm hab) hnt hntf

theorem filter_replicate_ne (ids : List Nat) (n f i : Nat) (h : f ≠ i) :
    ((ids.zip (List.replicate n f)).filter fun p => p.2 == i) = [] := by
  rw [List.filter_eq_nil_iff]
  intro p hp
  have := (List.of_mem_zip hp).2
  rw [List.mem_replicate] at this
  simp [this.2, h]

theorem traverse_enabled {cfg : Cfg} {s : State} {t b0 : Nat} (hi : Inv cfg s) (hk : s.tasks t = some ⟨.traverse b0, .running⟩)
    (hcap : FreeCap cfg s) : Enabled cfg s := by
  have hrb : refBuf s (.task t) = some b0 := by rw [refBuf_task_some hk]; rfl
  obtain ⟨buf, hb, hok⟩ := hi.own.live _ _ hrb
  obtain ⟨b1, b2, hb12, hb1c, hb1f, hb2c, hb2f⟩ := hcap.bufs
  obtain ⟨fl, hfl, _, hflf⟩ := hcap.tasks
  have hflne : fl ≠ [] := by intro e; rw [e] at hfl; simp at hfl
  obtain ⟨t1, ht1⟩ := List.exists_mem_of_ne_nil fl hflne
  obtain ⟨ht1c, ht1f⟩ := hflf t1 ht1
  -- every packet ends in direction INSIDE (0): absorbed
  let fates := List.replicate buf.ids.length 0
  let res : List DirRes := [⟨b1, b2, t1⟩]
  have houts : ∀ i, i ≠ 0 → outsOf cfg buf.sub (buf.ids.zip fates) i = [] := by
    intro i hi0
    simp only [outsOf]
    split_ifs
    · rw [filter_replicate_ne _ _ _ _ (Ne.symm hi0)]; rfl
    · rfl
  have h0 : ∃ s1, travDirState cfg buf.sub (outsOf cfg buf.sub (buf.ids.zip fates) 0) ⟨b1, b2, t1⟩ 0 s = some s1 := by
    apply travDirState_some hi ?_ hb1c hb1f hb2c hb2f hb12 ht1c ht1f
    simp only [outsOf]
    by_cases he : dirEnabled cfg buf.sub 0 = true
    · left; simp only [dirEnabled, Bool.and_eq_true] at he; exact he.1
    · right; simp [he]
  obtain ⟨s1, hs1⟩ := h0
  have hd0 : travDir cfg buf.sub (outsOf cfg buf.sub (buf.ids.zip fates)) (fun i => res.getD i ⟨0, 0, 0⟩) (s, NDIR, 0) 0
      = some (s1, travLargest cfg buf.sub 0 s1 NDIR 0) := by
    simp only [travDir]
    have : res.getD 0 ⟨0, 0, 0⟩ = ⟨b1, b2, t1⟩ := rfl
    rw [this, hs1]
  obtain ⟨acc', hrest⟩ := fold_empty (cfg := cfg) (g := buf.sub) (outs := outsOf cfg buf.sub (buf.ids.zip fates))
    (res := fun i => res.getD i ⟨0, 0, 0⟩) (List.range' 1 26) (s1, travLargest cfg buf.sub 0 s1 NDIR 0)
    (by intro i hi'; exact houts i (by rw [List.mem_range'_1] at hi'; omega))
  have hfold : foldOpt (travDir cfg buf.sub (outsOf cfg buf.sub (buf.ids.zip fates)) (fun i => res.getD i ⟨0, 0, 0⟩)) (s, NDIR, 0)
      (List.range NDIR) = some acc' := by
    have : List.range NDIR = 0 :: List.range' 1 26 := by decide
    rw [this]
    simp only [foldOpt, hd0]
    exact hrest
  refine ⟨.execTraverse t fates res, ?_⟩
  have hguard : fates.length = buf.ids.length ∧ (fates.all fun x => decide (x < NDIR)) = true := by
    refine ⟨by simp [fates], ?_⟩
    rw [List.all_eq_true]
    intro x hx
    have := (List.mem_replicate.mp hx).2
    subst this; decide
  obtain ⟨sa, li, ls⟩ := acc'
  simp only [step, hk, hb, if_pos hguard, hfold]
  rfl

/-! ### every running task has an enabled commit -/

theorem addFlush_some {cfg : Cfg} : ∀ (fl : List Nat) (s : State) (c : Nat), fl.Nodup → (∀ t ∈ fl, t < cfg.taskCap ∧ s.tasks t = none) →
    ∃ s', addFlush cfg s c fl = some s' := by
  intro fl
  induction fl with
  | nil => intro s c _ _; exact ⟨s, rfl⟩
  | cons t ts ih =>
    intro s c hn hf
    have htf := hf t List.mem_cons_self
    have hn' := List.nodup_cons.mp hn
    simp only [addFlush, taskFree_of htf.1 htf.2, if_true]
    apply ih _ (c + 1) hn'.2
    intro u hu
    have := hf u (List.mem_cons_of_mem _ hu)
    have hne : u ≠ t := by intro e; subst e; exact hn'.1 hu
    exact ⟨this.1, by show upd s.tasks t _ u = none; rw [upd_other _ _ _ hne]; exact this.2⟩

theorem running_enabled {cfg : Cfg} {s : State} {t : Nat} {k : Kind} (hi : Inv cfg s) (hc : ContInv cfg s)
    (hk : s.tasks t = some ⟨k, .running⟩) (hcap : FreeCap cfg s) (hnorig : 0 < cfg.norig) : Enabled cfg s := by
  obtain ⟨b1, b2, hb12, hb1c, hb1f, hb2c, hb2f⟩ := hcap.bufs
  obtain ⟨fl, hfl, hfln, hflf⟩ := hcap.tasks
  have hflne : fl ≠ [] := by intro e; rw [e] at hfl; simp at hfl
  obtain ⟨t1, ht1⟩ := List.exists_mem_of_ne_nil fl hflne
  obtain ⟨ht1c, ht1f⟩ := hflf t1 ht1
  cases k with
  | source src ids =>
    refine ⟨.execSource t b1 t1, ?_⟩
    simp [step, hk, bufFree_of hb1c hb1f, taskFree_of ht1c ht1f]
  | traverse b0 => exact traverse_enabled hi hk hcap
  | reemit b =>
    have hrb : refBuf s (.task t) = some b := by rw [refBuf_task_some hk]; rfl
    obtain ⟨buf, hb, _⟩ := hi.own.live _ _ hrb
    refine ⟨.execReemit t (List.replicate buf.ids.length false) t1, ?_⟩
    have hkept : ((buf.ids.zip (List.replicate buf.ids.length false)).filter (·.2)) = [] := by
      rw [List.filter_eq_nil_iff]
      intro p hp
      have := (List.of_mem_zip hp).2
      rw [List.mem_replicate] at this
      simp [this.2]
    simp [step, hk, hb, hkept]
  | flush c =>
    by_cases hex : ∃ g, g < cfg.norig ∧ s.cont (c, g) ≠ []
    · obtain ⟨g, hg, hne⟩ := hex
      refine ⟨.flushOne t g b1 t1, ?_⟩
      have : (s.cont (c, g)).isEmpty = false := by simpa using hne
      simp [step, hk, this, hg, bufFree_of hb1c hb1f, taskFree_of ht1c ht1f]
    · refine ⟨.flushFinish t, ?_⟩
      have hall : ((List.range cfg.norig).all fun g => (s.cont (c, g)).isEmpty) = true := by
        rw [List.all_eq_true]
        intro g hg
        have hg' := List.mem_range.mp hg
        by_cases e : s.cont (c, g) = []
        · simp [e]
        · exact absurd ⟨g, hg', e⟩ hex
      simp [step, hk, hall]
  | contSource c n ids =>
    have hg := hi.tk t _ hk
    by_cases hex : ∃ g, g < cfg.norig ∧ (s.cont (c, g)).length = BUFSZ
    · obtain ⟨g, _, hlen⟩ := hex
      refine ⟨.contOverflow t g b1 t1, ?_⟩
      simp [step, hk, hlen, bufFree_of hb1c hb1f, taskFree_of ht1c ht1f]
    · have hlt : ∀ g, g < cfg.norig → (s.cont (c, g)).length < BUFSZ := by
        intro g hg'
        have h1 := hi.ct.len (c, g)
        have h2 : (s.cont (c, g)).length ≠ BUFSZ := fun e => hex ⟨g, hg', e⟩
        omega
      cases ids with
      | cons x rest =>
        refine ⟨.contGen t 0 1, ?_⟩
        have h0 := hlt 0 hnorig
        have : 0 < 1 ∧ 1 ≤ (x :: rest).length ∧ 0 < cfg.norig ∧ c < cfg.nblocks ∧ (s.cont (c, 0)).length + 1 ≤ BUFSZ :=
          ⟨by omega, by simp, hnorig, hg.2.1, by omega⟩
        simp only [step, hk, if_pos this]
        rfl
      | nil =>
        have hpos := contLeft_pos hi hc hk
        have hall : ((List.range cfg.norig).all fun g => decide ((s.cont (c, g)).length < BUFSZ)) = true := by
          rw [List.all_eq_true]
          intro g hg'
          simpa using hlt g (List.mem_range.mp hg')
        -- flush task ids: the free slots other than t1 (any nblocks of them)
        let flu := fl.take cfg.nblocks
        have hflu_len : flu.length = cfg.nblocks := by simp [flu, hfl]
        have hflu_nodup : flu.Nodup := List.Nodup.sublist (List.take_sublist _ _) hfln
        have hflu_free : ∀ u ∈ flu, u < cfg.taskCap ∧ s.tasks u = none := fun u hu => hflf u (List.mem_of_mem_take hu)
        refine ⟨.contFinish t flu, ?_⟩
        have hguard : ((List.range cfg.norig).all fun g => decide ((s.cont (c, g)).length < BUFSZ)) = true ∧ n ≤ s.contLeft :=
          ⟨hall, hpos.1⟩
        simp only [step, hk, if_pos hguard]
        by_cases h0 : s.contLeft - n = 0
        · by_cases hf : s.flushCount = 0
          · obtain ⟨s2, hs2⟩ := addFlush_some flu { s with contLeft := s.contLeft - n, flushCount := 1 } 0 hflu_nodup hflu_free
            rw [if_pos h0, if_pos hf, if_pos hflu_len, hs2]
            rfl
          · rw [if_pos h0, if_neg hf]; rfl
        · rw [if_neg h0]; rfl

/-- any task in the table gives an enabled label -/
theorem task_enabled {cfg : Cfg} {s : State} {t : Nat} {tk : Task} (hi : Inv cfg s) (hc : ContInv cfg s)
    (hk : s.tasks t = some tk) (hcap : FreeCap cfg s) (hnorig : 0 < cfg.norig) : Enabled cfg s := by
  cases tk with
  | mk k st =>
    cases st with
    | running => exact running_enabled hi hc hk hcap hnorig
    | pending => exact ⟨.enqueue t, by simp [step, hk]⟩
    | queued =>
      cases hl : lockOf s.pool k with
      | none => exact ⟨.acquire t, by simp [step, hk, hl]⟩
      | some l =>
        by_cases hh : lockHeld cfg s l = true
        · obtain ⟨u, k', hu⟩ := lockHeld_running hh
          exact running_enabled hi hc hu hcap hnorig
        · exact ⟨.acquire t, by simp [step, hk, hl, hh]⟩

/-! ### no stuck state -/

theorem no_stuck_of {cfg : Cfg} {s : State} (hi : Inv cfg s) (hcache : Cache s) (hc : ContInv cfg s)
    (hcap : FreeCap cfg s) (hnorig : 0 < cfg.norig) (hnb : 0 < cfg.nblocks)
    (hrest : 0 < restWeight cfg (fun _ => 1) s) : Enabled cfg s := by
  obtain ⟨fl, hfl, _, hflf⟩ := hcap.tasks
  have hflne : fl ≠ [] := by intro e; rw [e] at hfl; simp at hfl
  obtain ⟨t1, ht1⟩ := List.exists_mem_of_ne_nil fl hflne
  obtain ⟨ht1c, ht1f⟩ := hflf t1 ht1
  -- if some task exists we are done
  by_cases htask : ∃ t tk, s.tasks t = some tk
  · obtain ⟨t, tk, hk⟩ := htask
    exact task_enabled hi hc hk hcap hnorig
  have hnot : ∀ t, s.tasks t = none := by
    intro t
    cases h : s.tasks t with
    | none => rfl
    | some tk => exact absurd ⟨t, tk, h⟩ htask
  simp only [restWeight] at hrest
  have z3 : sumOver (List.range cfg.taskCap) (fun t => taskW (fun _ => 1) (s.tasks t)) = 0 := by
    have : (fun t => taskW (fun _ => 1) (s.tasks t)) = fun _ => 0 := by funext t; rw [hnot t]; rfl
    rw [this, sumOver_zero']
  -- the sources
  by_cases hsrc : 0 < sumOver (List.range cfg.nsrc) (fun i => wsum (fun _ => 1) (s.srcLeft i))
  · obtain ⟨i, hi', hpos⟩ := sumOver_pos hsrc
    have hne : s.srcLeft i ≠ [] := by intro e; rw [e] at hpos; simp at hpos
    refine ⟨.launchBatch i t1, ?_⟩
    have : (s.srcLeft i).isEmpty = false := by simpa using hne
    simp [step, List.mem_range.mp hi', this, taskFree_of ht1c ht1f]
  by_cases hcp : s.contPool ≠ []
  · refine ⟨.launchCont t1, ?_⟩
    have : s.contPool.isEmpty = false := by simpa using hcp
    simp [step, this, taskFree_of ht1c ht1f, hnb]
  have hcp' : s.contPool = [] := by simpa using hcp
  -- a buffer in use is an active buffer (there are no tasks): premature launch
  by_cases hbuf : 0 < sumOver (List.range cfg.bufCap) (fun b => bufW (fun _ => 1) (s.pool b))
  · obtain ⟨b, _, hpos⟩ := sumOver_pos hbuf
    cases hb : s.pool b with
    | none => rw [hb] at hpos; simp at hpos
    | some buf =>
      obtain ⟨_, r, hr⟩ := hi.own.owned b buf hb
      cases r with
      | task t => simp [refBuf, hnot t] at hr
      | act g d =>
        have hr' : s.active g d = some b := hr
        obtain ⟨buf', hb', hok⟩ := hi.own.live (.act g d) b hr
        have hck := hcache.ok g
        have hlen : 1 ≤ bufLen s.pool b := by
          simp only [bufLen, hb']
          exact List.length_pos_iff.mpr hok.1
        have hbound := hck.bound d b hr'
        have hidx : (s.largest g).1 ≠ NDIR := by
          intro e; have := hck.none e; omega
        obtain ⟨a, ha, _⟩ := hck.some hidx
        have hheld : lockHeld cfg s (.sub g) = false := by
          by_cases hh : lockHeld cfg s (.sub g) = true
          · obtain ⟨u, k', hu⟩ := lockHeld_running hh
            rw [hnot u] at hu; cases hu
          · simpa using hh
        refine ⟨.premature g t1, ?_⟩
        have hguard : (s.largest g).1 ≠ NDIR ∧ 0 < (s.largest g).2 ∧ (!lockHeld cfg s (.sub g)) = true ∧ taskFree cfg s t1 = true :=
          ⟨hidx, by omega, by simp [hheld], taskFree_of ht1c ht1f⟩
        simp only [step, if_pos hguard, ha]
        rfl
  -- what is left is in the continuous-source buffers: a flush task must exist -- contradiction
  exfalso
  have hcont : 0 < sumOver (pairsU cfg) (fun k => wsum (fun _ => 1) (s.cont k)) := by
    rw [hcp'] at hrest
    simp only [wsum_nil] at hrest
    omega
  obtain ⟨k, _, hpos⟩ := sumOver_pos hcont
  have hne : s.cont k ≠ [] := by intro e; rw [e] at hpos; simp at hpos
  obtain ⟨c, g⟩ := k
  obtain ⟨t, ht⟩ := hc.served hcp' (by intro t n; rw [hnot t]; simp) c g hne
  rw [hnot t] at ht; simp at ht

end CMacVerif.Photon
