import CMacVerif.Lemmas.SplitInvariance
set_option linter.unusedSectionVars false
set_option linter.unusedVariables false
set_option linter.unreachableTactic false
set_option linter.unusedTactic false
set_option linter.unnecessarySeqFocus false
set_option linter.unusedSimpArgs false
/-!
# Split invariance through duplicated subgrids (C03)

The chained run over the neighbour tables `create_copies` builds (originals AND copies, a packet may start in
any member of the family of its start subgrid) projects, step by step and with identical deposits, onto the
chained run over the originals alone (`copies_square`): relabel every copy by its original.  Hence
`Split.split_invariance` carries over to runs through copies; the totals are keyed by the cell of the
ORIGINAL, i.e. they are the estimators after `update_original_counters` (`fold_cells`).
-/
namespace CMacVerif.Split
open CMacVerif.RayMarch
open CMacVerif.SubgridLayout (Layout gridPosition indexOf ngb outToInDir offsetOf comp clsOfOffset exitClass axisStep
  StepCommutes runSum Halts Copies createCopies originalOf member nCopies)
open CMacVerif.Handover (LocalStep ChainState chainStep chainStepN)
variable {K : Type} [Field K] [LinearOrder K] [IsStrictOrderedRing K]

/-- `_subgrids[i]->get_neighbour(d)` after `create_copies` -/
def nbC (C : Copies) (i d : Nat) : Option Nat := (C.rows.getD i []).getD d none

/-- the chained run over originals and copies: a copy has the geometry and (after `update_copy_properties`)
the cell contents of its original; its deposits are counted for the cell of the original -/
def aStepC (g : Geom K) (field : Int × Int × Int → Cell K) (L : Layout) (C : Copies) :
    AState K → Option ((Int × Int × Int → K) × AState K) :=
  SubgridLayout.splitStepN (nbC C) (fun i => localStep g field L (originalOf C i))
    (fun t => enterStep g L (originalOf C t)) (fun i => valOf L (originalOf C i))

/-- relabel every subgrid index by its original -/
def proj (C : Copies) : AState K → AState K
  | .inGrid i x => .inGrid (originalOf C i) x
  | .absorbedIn i x => .absorbedIn (originalOf C i) x
  | .escaped i d x => .escaped (originalOf C i) d x

/-- `i` is a member of the family of an original: the original itself or one of its copies -/
def IsMember (L : Layout) (levels : List Nat) (C : Copies) (i : Nat) : Prop :=
  ∃ s k, s < L.size ∧ k < nCopies (levels.getD s 0) ∧ i = member C.copies s k

def MemberState (L : Layout) (levels : List Nat) (C : Copies) : AState K → Prop
  | .inGrid i _ => IsMember L levels C i
  | _ => True

theorem aStepC_inGrid (g : Geom K) (field : Int × Int × Int → Cell K) (L : Layout) (C : Copies) (i : Nat)
    (x : Photon K × St K) :
    aStepC g field L C (.inGrid i x) =
      match localStep g field L (originalOf C i) x with
      | .move dep st' => some (valOf L (originalOf C i) dep, .inGrid i st')
      | .absorbed dep st' => some (valOf L (originalOf C i) dep, .absorbedIn i st')
      | .exit dep d st' =>
        match nbC C i d with
        | none => some (valOf L (originalOf C i) dep, .escaped i d st')
        | some t => some (valOf L (originalOf C i) dep, .inGrid t (enterStep g L (originalOf C t) (outToInDir d) st')) := by
  unfold aStepC SubgridLayout.splitStepN chainStepN
  cases h : localStep g field L (originalOf C i) x with
  | move dep st' => simp only [h, Option.map_some]
  | absorbed dep st' => simp only [h, Option.map_some]
  | exit dep d st' => cases hn : nbC C i d <;> simp only [h, hn, Option.map_some]

theorem localStep_exit_dir (g : Geom K) (field : Int × Int × Int → Cell K) (L : Layout)
    (hx : 0 < L.mx) (hy : 0 < L.my) (hz : 0 < L.mz) (s : Nat) (x : Photon K × St K)
    (dep : Visit K) (d : Nat) (st' : Photon K × St K) (h : localStep g field L s x = .exit dep d st') : d < 27 := by
  unfold localStep at h
  simp only [] at h
  split_ifs at h
  injection h with _ hd _
  rw [← hd]
  exact (exit_dir_facts L hx hy hz _).1

theorem ngb_self (L : Layout) (hx : 0 < L.mx) (hy : 0 < L.my) (hz : 0 < L.mz) (s : Nat) (hs : s < L.size) :
    ngb L s 0 = some s := by
  rw [SubgridLayout.ngb_eq_ngbAt L hx hy hz s 0 (by decide)]
  have e : offsetOf 0 = (0, 0, 0) := by decide
  obtain ⟨h1, h2, h3⟩ := SubgridLayout.gridPosition_lt L s hs
  rw [e]; unfold SubgridLayout.ngbAt
  simp only [SubgridLayout.axisStep_zero _ _ _ h1, SubgridLayout.axisStep_zero _ _ _ h2,
    SubgridLayout.axisStep_zero _ _ _ h3, SubgridLayout.combine, SubgridLayout.indexOf_gridPosition]

/-- the neighbour of a family member is a member of the family of the neighbour of its original -/
theorem nbC_rel (L : Layout) (hx : 0 < L.mx) (hy : 0 < L.my) (hz : 0 < L.mz) (prev levels : List Nat)
    (hlen : levels.length = L.size) (i d : Nat) (hd : d < 27)
    (hi : IsMember L levels (createCopies L prev levels) i) :
    match ngb L (originalOf (createCopies L prev levels) i) d with
    | none => nbC (createCopies L prev levels) i d = none
    | some t => ∃ j, nbC (createCopies L prev levels) i d = some j ∧ IsMember L levels (createCopies L prev levels) j
        ∧ originalOf (createCopies L prev levels) j = t := by
  obtain ⟨s, k, hs, hk, rfl⟩ := hi
  rw [SubgridLayout.originalOf_member L prev levels hlen s k hs hk]
  by_cases hk0 : k = 0
  · subst hk0
    have hrow : nbC (createCopies L prev levels) (member (createCopies L prev levels).copies s 0) d = ngb L s d := by
      unfold nbC; simp only [member, ↓reduceIte]
      rw [SubgridLayout.row_original L prev levels s hs]; rfl
    rw [hrow]
    cases hn : ngb L s d with
    | none => rfl
    | some t =>
      have htl := SubgridLayout.ngb_lt L hx hy hz s d t hs hd hn
      refine ⟨t, rfl, ⟨t, 0, htl, SubgridLayout.nCopies_pos _, by simp [member]⟩, ?_⟩
      have := SubgridLayout.originalOf_member L prev levels hlen t 0 htl (SubgridLayout.nCopies_pos _)
      simpa [member] using this
  · have hk1 : 1 ≤ k := by omega
    have hrow : nbC (createCopies L prev levels) (member (createCopies L prev levels).copies s k) d
        = SubgridLayout.copyEntry levels (createCopies L prev levels).copies (ngb L) s k d := by
      unfold nbC
      rw [SubgridLayout.row_member L prev levels hlen s k hs hk1 hk, SubgridLayout.copyRow_getD _ _ _ _ _ _ hd]
    rw [hrow]
    by_cases hd0 : d = 0
    · subst hd0
      rw [ngb_self L hx hy hz s hs]
      refine ⟨member (createCopies L prev levels).copies s k, ?_, ⟨s, k, hs, hk, rfl⟩,
        SubgridLayout.originalOf_member L prev levels hlen s k hs hk⟩
      simp only [SubgridLayout.copyEntry, ↓reduceIte, member]
      rw [if_neg hk0]
    · cases hn : ngb L s d with
      | none => simp only [SubgridLayout.copyEntry, hd0, ↓reduceIte, hn]
      | some t =>
        have htl := SubgridLayout.ngb_lt L hx hy hz s d t hs hd hn
        obtain ⟨c, hc, he⟩ := SubgridLayout.copyEntry_spec levels (createCopies L prev levels).copies (ngb L) s k d t hd0 hn hk1 hk
        exact ⟨_, he, ⟨t, c, htl, hc, rfl⟩, SubgridLayout.originalOf_member L prev levels hlen t c htl hc⟩


section square
variable (g : Geom K) (field : Int × Int × Int → Cell K) (L : Layout)
variable (hx : 0 < L.mx) (hy : 0 < L.my) (hz : 0 < L.mz) (prev levels : List Nat) (hlen : levels.length = L.size)
include hx hy hz hlen

/-- **one step of the run through originals and copies = one step of the run through the originals**, after
relabelling every copy by its original: same deposit (counted for the cell of the original), corresponding
successor; and the successor is again a family member -/
theorem copies_square (a : AState K) (ha : MemberState L levels (createCopies L prev levels) a) :
    (aStepC g field L (createCopies L prev levels) a).map (fun r => (r.1, proj (createCopies L prev levels) r.2))
        = aStep g field L (proj (createCopies L prev levels) a)
    ∧ ∀ m a', aStepC g field L (createCopies L prev levels) a = some (m, a') →
        MemberState L levels (createCopies L prev levels) a' := by
  cases a with
  | absorbedIn i x => exact ⟨rfl, fun m a' h => by cases h⟩
  | escaped i d x => exact ⟨rfl, fun m a' h => by cases h⟩
  | inGrid i x =>
    have hi : IsMember L levels (createCopies L prev levels) i := ha
    simp only [proj]
    rw [aStepC_inGrid, aStep_inGrid]
    cases h : localStep g field L (originalOf (createCopies L prev levels) i) x with
    | move dep st' =>
      refine ⟨rfl, fun m a' h' => ?_⟩
      injection h' with h'; injection h' with _ h2; rw [← h2]; exact hi
    | absorbed dep st' =>
      refine ⟨rfl, fun m a' h' => ?_⟩
      injection h' with h'; injection h' with _ h2; rw [← h2]; trivial
    | exit dep d st' =>
      have hd := localStep_exit_dir g field L hx hy hz _ x dep d st' h
      have hrel := nbC_rel L hx hy hz prev levels hlen i d hd hi
      cases hn : ngb L (originalOf (createCopies L prev levels) i) d with
      | none =>
        rw [hn] at hrel
        simp only [] at hrel
        simp only [hrel, hn]
        refine ⟨rfl, fun m a' h' => ?_⟩
        injection h' with h'; injection h' with _ h2; rw [← h2]; trivial
      | some t =>
        rw [hn] at hrel
        obtain ⟨j, hj, hjm, hjo⟩ := hrel
        simp only [hj, hn]
        refine ⟨?_, fun m a' h' => ?_⟩
        · simp only [Option.map_some, proj, hjo]
        · injection h' with h'; injection h' with _ h2; rw [← h2]; exact hjm

/-- the whole run through originals and copies projects onto the run through the originals: same totals,
corresponding final state, over exactly when the other is -/
theorem copies_run (f : Nat) : ∀ (a : AState K), MemberState L levels (createCopies L prev levels) a →
    (runSum (aStepC g field L (createCopies L prev levels)) f a).1
        = (runSum (aStep g field L) f (proj (createCopies L prev levels) a)).1
    ∧ proj (createCopies L prev levels) (runSum (aStepC g field L (createCopies L prev levels)) f a).2
        = (runSum (aStep g field L) f (proj (createCopies L prev levels) a)).2
    ∧ MemberState L levels (createCopies L prev levels) (runSum (aStepC g field L (createCopies L prev levels)) f a).2 := by
  induction f with
  | zero => intro a ha; exact ⟨rfl, rfl, ha⟩
  | succ f ih =>
    intro a ha
    obtain ⟨hsq, hmem⟩ := copies_square g field L hx hy hz prev levels hlen a ha
    cases hs : aStepC g field L (createCopies L prev levels) a with
    | none =>
      rw [hs] at hsq
      simp only [Option.map_none] at hsq
      rw [SubgridLayout.runSum_of_none _ _ a hs, SubgridLayout.runSum_of_none _ _ _ hsq.symm]
      exact ⟨rfl, rfl, ha⟩
    | some v =>
      obtain ⟨m, a'⟩ := v
      rw [hs] at hsq
      simp only [Option.map_some] at hsq
      rw [SubgridLayout.runSum_succ_some _ f a a' m hs, SubgridLayout.runSum_succ_some _ f _ _ m hsq.symm]
      obtain ⟨i1, i2, i3⟩ := ih a' (hmem m a' hs)
      exact ⟨by simp only [i1], i2, i3⟩

theorem copies_halts (f : Nat) (a : AState K) (ha : MemberState L levels (createCopies L prev levels) a) :
    Halts (aStepC g field L (createCopies L prev levels)) f a ↔
      Halts (aStep g field L) f (proj (createCopies L prev levels) a) := by
  obtain ⟨_, h2, h3⟩ := copies_run g field L hx hy hz prev levels hlen f a ha
  obtain ⟨hsq, _⟩ := copies_square g field L hx hy hz prev levels hlen _ h3
  unfold Halts
  rw [← h2, ← hsq]
  cases aStepC g field L (createCopies L prev levels) (runSum (aStepC g field L (createCopies L prev levels)) f a).2 <;> simp

end square

/-- start of a run through copies: the packet starts in member `k0` of the family of its start subgrid (as
`DistributedPhotonSource` distributes the packets of a source over the copies) -/
def startOfC (g : Geom K) (L : Layout) (C : Copies) (pk : Photon K) (k0 : Nat) : AState K :=
  .inGrid (member C.copies (subgridOf g L pk.pos) k0) (pk, initSt (blockOf g L (subgridOf g L pk.pos)) pk 0)

/-- **split invariance through copies.**  Assumptions of `split_invariance`; any copy levels, any previous
content of `_copies`, the packet starts in any member `k0 < 2^level` of the family of its start subgrid; every
copy holds the cell contents of its original (`push_cells`).  If the chained run over the neighbour tables of
`create_copies` is over within `f` steps, the run through the same grid as ONE block is over as well, and the
total path deposited per cell — the deposits of all copies counted for the cell of their original, i.e. the
counters after the fold — is the same; both end the same way. -/
theorem split_invariance_copies {g : Geom K} {L : Layout} {field : Int × Int × Int → Cell K} {pk : Photon K}
    (hok : Ok g L field pk) (hn : ∀ a, 0 < (nV L).get a) (hs : StartInside g L pk)
    (prev levels : List Nat) (hlen : levels.length = L.size) (k0 : Nat)
    (hk0 : k0 < 2 ^ levels.getD (subgridOf g L pk.pos) 0) (f : Nat)
    (hA : Halts (aStepC g field L (createCopies L prev levels)) f (startOfC g L (createCopies L prev levels) pk k0)) :
    ∃ f', Halts (aStep g field (whole L)) f' (startOf g (whole L) pk)
      ∧ (runSum (aStepC g field L (createCopies L prev levels)) f (startOfC g L (createCopies L prev levels) pk k0)).1
          = (runSum (aStep g field (whole L)) f' (startOf g (whole L) pk)).1
      ∧ FinalAgree (envOf g L field pk)
          (proj (createCopies L prev levels)
            (runSum (aStepC g field L (createCopies L prev levels)) f (startOfC g L (createCopies L prev levels) pk k0)).2)
          (runSum (aStep g field (whole L)) f' (startOf g (whole L) pk)).2 := by
  have hx := hok.m_pos .x; have hy := hok.m_pos .y; have hz := hok.m_pos .z
  simp only [mV, V3.get] at hx hy hz
  obtain ⟨sh, hR0⟩ : Rel g (envOf g L field pk) L (subgridOf g L pk.pos) pk
      (initSt (blockOf g L (subgridOf g L pk.pos)) pk 0) _ := start_rel hok hn hs
  have hslt := hR0.slt
  have hmem : MemberState L levels (createCopies L prev levels) (startOfC g L (createCopies L prev levels) pk k0) :=
    ⟨subgridOf g L pk.pos, k0, hslt, hk0, rfl⟩
  have hproj : proj (createCopies L prev levels) (startOfC g L (createCopies L prev levels) pk k0) = startOf g L pk := by
    simp only [startOfC, proj, startOf]
    rw [SubgridLayout.originalOf_member L prev levels hlen _ k0 hslt hk0]
  obtain ⟨r1, r2, _⟩ := copies_run g field L hx hy hz prev levels hlen f _ hmem
  have hA' := (copies_halts g field L hx hy hz prev levels hlen f _ hmem).mp hA
  rw [hproj] at r1 r2 hA'
  obtain ⟨f', h1, h2, h3⟩ := split_invariance_halts hok hn hs f hA'
  exact ⟨f', h1, by rw [r1, h2], by rw [r2]; exact h3⟩

end CMacVerif.Split
