import CMacVerif.Model.GridNum
import Mathlib.Algebra.Order.Archimedean.Real.Basic
import Mathlib.Algebra.Order.Floor.Ring
import Mathlib.Tactic.Linarith
import Mathlib.Tactic.NormNum
/-! `ℝ` instances of the numeric front end of the C16 grid models, and the facts about the
truncating conversion the proofs use. -/
namespace CMacVerif.GridNum

noncomputable instance : Trunc ℝ := ⟨fun x => if 0 ≤ x then ⌊x⌋ else -⌊-x⌋⟩
noncomputable instance : OfInt ℝ := ⟨fun i => (i : ℝ)⟩

theorem ofNat_real (n : Nat) : (OfInt.ofNat n : ℝ) = (n : ℝ) := by
  simp [OfInt.ofNat, OfInt.ofInt]

theorem ofInt_real (i : Int) : (OfInt.ofInt i : ℝ) = (i : ℝ) := rfl

theorem toInt_real_nonneg (x : ℝ) (h : 0 ≤ x) : Trunc.toInt x = ⌊x⌋ := by
  simp [Trunc.toInt, h]

/-- for `x ≥ 0` the conversion is the floor: `toNat x = n ↔ n ≤ x < n + 1` -/
theorem toNat_eq_iff (x : ℝ) (h : 0 ≤ x) (n : Nat) :
    Trunc.toNat x = n ↔ ((n : ℝ) ≤ x ∧ x < (n : ℝ) + 1) := by
  unfold Trunc.toNat
  rw [toInt_real_nonneg x h]
  have h0 : 0 ≤ ⌊x⌋ := Int.floor_nonneg.mpr h
  constructor
  · intro hn
    have e : ⌊x⌋ = (n : Int) := by omega
    have := Int.floor_eq_iff.mp e
    exact_mod_cast this
  · rintro ⟨h1, h2⟩
    have : ⌊x⌋ = (n : Int) := Int.floor_eq_iff.mpr ⟨by exact_mod_cast h1, by exact_mod_cast h2⟩
    omega

theorem toNat_le (x : ℝ) (h : 0 ≤ x) : ((Trunc.toNat x : Nat) : ℝ) ≤ x ∧ x < (Trunc.toNat x : ℝ) + 1 :=
  (toNat_eq_iff x h _).mp rfl

/-- half-open membership of a point in a box -/
def InBox (b : Box3 ℝ) (p : V3 ℝ) : Prop :=
  b.ax ≤ p.x ∧ p.x < b.ax + b.sx ∧ b.ay ≤ p.y ∧ p.y < b.ay + b.sy ∧ b.az ≤ p.z ∧ p.z < b.az + b.sz

def PosBox (b : Box3 ℝ) : Prop := 0 < b.sx ∧ 0 < b.sy ∧ 0 < b.sz

end CMacVerif.GridNum
