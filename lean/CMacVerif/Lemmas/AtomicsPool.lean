import CMacVerif.Lemmas.AtomicsLock
/-!
C08 lemmas, part 3: the slot pool (`ThreadSafeVector`, `MemorySpace`).

* `SlotInv`  : for every slot index `i`, Σ_threads holdS i = [flags i]
* `SlotWf`   : every slot index a thread refers to is `< size`
* `CountInv` : `_number_taken + #(increments pending) = #(flags set) + #(decrements pending)`
* `PhotonInv`: packets injected = packets in buffers + pending + discarded + lost
-/
namespace CMacVerif.Atomics

/-- slot held because of where the thread is in its current call -/
def pcHoldS : PC → Nat → Nat
  | .getCount j _, i => ind (i = j)
  | .getMax j _ _, i => ind (i = j)
  | .getMaxCas j _ _ _, i => ind (i = j)
  | .getTotal j _, i => ind (i = j)
  | .freeReset j, i => ind (i = j)
  | .freeYield j, i => ind (i = j)
  | .freeUnlock j, i => ind (i = j)
  | .idle, _ | .getCheck _, _ | .getInc _, _ | .getCas _ _, _ | .apFill _ _, _ | .apPlace _ _, _
  | .crashed _, _ | .freeDec _, _ | .lockSpin _, _ | .lockTry _, _ | .unlockL _, _ | .tlStart _ _, _
  | .tl0 _ _, _ | .tl1 _ _, _ | .tlBack _ _, _ | .tuStart _, _ | .tu1 _, _ | .tu0 _, _ | .addLock _ _ _, _ | .numInc _ _ _, _ | .relDec _ _ _, _ | .retire _, _ | .setUnf _ _, _ | .loadNum, _
  | .addBody _ _ _, _ | .addUnlock _ _ _, _ | .popLock _ _, _ | .popInit _, _ | .popScan _ _, _
  | .popRemove _ _ _, _ | .popUnlock _ _, _ | .qsz _, _ | .cInc _, _ | .cDec _, _ | .cPostInc _, _
  | .cPreAdd _ _, _ | .cPostAdd _ _, _ | .cPreSub _ _, _ | .cLoad _, _ | .cAwait _ _, _ | .lfLoad _ _, _
  | .lfCas _ _ _, _ | .cMax _ _, _ | .cMaxCas _ _ _, _ | .cLoadMx _, _ | .loadTaken, _ => 0

/-- how many times thread `th` holds slot `i`: in the caller's hands, or between the
successful CAS and the return of `get`, or between the call of `free` and its CAS -/
def holdS (i : Nat) (th : Thread) : Nat := th.owned.count i + pcHoldS th.pc i

def SlotInv (s : State) : Prop := ∀ i, sumT (holdS i) s.threads = (s.mem.flags i).toNat

/-- the slot index a program counter refers to -/
def pcSlot : PC → Option Nat
  | .getCas j _ | .getCount j _ | .getMax j _ _ | .getMaxCas j _ _ _ | .getTotal j _ | .freeReset j | .freeYield j | .freeUnlock j
  | .apFill j _ | .apPlace j _ => some j
  | _ => none

def ThreadWf (cfg : Cfg) (th : Thread) : Prop :=
  (∀ i ∈ th.owned, i < cfg.size) ∧ (∀ j, pcSlot th.pc = some j → j < cfg.size) ∧
  (∀ j n, th.pc = .apFill j n → j ∈ th.owned) ∧ (∀ j r, th.pc = .apPlace j r → j ∈ th.owned)

def SlotWf (cfg : Cfg) (s : State) : Prop := ∀ th ∈ s.threads, ThreadWf cfg th

/-- number of set flags among the first `n` -/
def cnt (f : Nat → Bool) : Nat → Nat
  | 0 => 0
  | n + 1 => cnt f n + (f n).toNat

theorem cnt_upd_ge (f : Nat → Bool) (j n : Nat) (b : Bool) (h : n ≤ j) : cnt (upd f j b) n = cnt f n := by
  induction n with
  | zero => rfl
  | succ n ih =>
    have : n ≠ j := by omega
    simp only [cnt, ih (by omega), upd_other f j n b this]

theorem cnt_upd (f : Nat → Bool) (j n : Nat) (b : Bool) (h : j < n) :
    cnt (upd f j b) n + (f j).toNat = cnt f n + b.toNat := by
  induction n with
  | zero => omega
  | succ n ih =>
    by_cases hj : j = n
    · subst hj
      simp only [cnt, cnt_upd_ge f j j b (Nat.le_refl _), upd_same]; omega
    · have := ih (by omega)
      have hne : n ≠ j := fun h => hj h.symm
      simp only [cnt, upd_other f j n b hne]; omega

/-- Σ_{i<n} f i -/
def sumN (f : Nat → Nat) : Nat → Nat
  | 0 => 0
  | n + 1 => sumN f n + f n

theorem sumN_upd_ge (f : Nat → Nat) (j n v : Nat) (h : n ≤ j) : sumN (upd f j v) n = sumN f n := by
  induction n with
  | zero => rfl
  | succ n ih =>
    have : n ≠ j := by omega
    simp only [sumN, ih (by omega), upd_other f j n v this]

theorem sumN_upd (f : Nat → Nat) (j n v : Nat) (h : j < n) :
    sumN (upd f j v) n + f j = sumN f n + v := by
  induction n with
  | zero => omega
  | succ n ih =>
    by_cases hj : j = n
    · subst hj
      simp only [sumN, sumN_upd_ge f j j v (Nat.le_refl _), upd_same]; omega
    · have := ih (by omega)
      have hne : n ≠ j := fun h => hj h.symm
      simp only [sumN, upd_other f j n v hne]; omega

local macro "fin" : tactic =>
  `(tactic| ((try simp only [toNat_upd, ind, Bool.toNat_true, Bool.toNat_false] at *); (try split_ifs at *) <;> (try simp_all) <;> omega))

theorem holdS_dispatch (cfg : Cfg) (i : Nat) (th : Thread) (c : Cmd) (hpc : th.pc = .idle) :
    holdS i (dispatch cfg th c) = holdS i th := by
  cases c
  case release =>
    simp only [dispatch]
    (repeat' split) <;> simp [holdS, hpc, pcHoldS, ret]
  all_goals (simp only [dispatch, holdS, hpc, pcHoldS, ret]; try rfl)
  all_goals
    split <;> simp only [pcHoldS, Nat.add_zero]
  · rename_i j k hk
    have := count_erase_add th.owned k i (pick_mem _ _ _ hk); simp only [ind]; omega
  · rename_i j k hk
    have := count_erase_add th.owned k i (pick_mem _ _ _ hk); simp only [ind]; omega

local macro "unfS" : tactic =>
  `(tactic| try simp only [holdS, tlFail, tlSucc, ret, getDone, pcHoldS, count_cons_ind, *] at *)

local macro "slotcase" : tactic => `(tactic| ((try simp only) <;> (repeat' split) <;> unfS <;> fin))

theorem exec_holdS (cfg : Cfg) (m : Mem) (th : Thread) (i : Nat)
    (h : holdS i th ≤ (m.flags i).toNat) :
    (m.flags i).toNat + holdS i (exec cfg m th).2
      = ((exec cfg m th).1.flags i).toNat + holdS i th := by
  have hle := Bool.toNat_le (m.flags i)
  unfold exec
  cases hpc : th.pc
  case idle =>
    simp only
    split
    · simp
    · rename_i c rest hp
      simp only
      rw [holdS_dispatch cfg i _ c (by simp [hpc])]
      simp [holdS, hpc]
  case tlStart c t => cases c <;> slotcase
  case tl0 c t => cases c <;> slotcase
  case tl1 c t => cases c <;> slotcase
  case tlBack c t => cases c <;> slotcase
  case getTotal j r => cases r <;> slotcase
  all_goals slotcase

theorem slotInv_step (cfg : Cfg) (s : State) (tid : Nat) (h : SlotInv s) : SlotInv (step cfg s tid) := by
  cases hth : s.threads[tid]? with
  | none => rw [step_none cfg s tid hth]; exact h
  | some th =>
    rw [step_some cfg s tid th hth]
    intro i
    have hfr := sumT_set (holdS i) s.threads tid th (exec cfg s.mem th).2 hth
    have hle := le_sumT (holdS i) s.threads tid th hth
    have hi := h i
    have hloc := exec_holdS cfg s.mem th i (by omega)
    simp only
    omega

theorem slotInv_init (progs : List (List Cmd)) : SlotInv (init progs) := by
  intro i
  simp only [init]
  rw [sumT_eq_zero]
  · rfl
  · intro th hth
    simp only [List.mem_map] at hth
    obtain ⟨p, _, rfl⟩ := hth
    simp [holdS, pcHoldS]

theorem slotInv_run (cfg : Cfg) (progs : List (List Cmd)) (sched : List Nat) :
    SlotInv (run cfg (init progs) sched) :=
  run_inv cfg SlotInv (fun s tid h => slotInv_step cfg s tid h) _ sched (slotInv_init progs)

theorem mem_erase_lt (l : List Nat) (k n : Nat) (h : ∀ i ∈ l, i < n) : ∀ i ∈ l.erase k, i < n :=
  fun i hi => h i (List.mem_of_mem_erase hi)

theorem threadWf_dispatch (cfg : Cfg) (th : Thread) (c : Cmd) (_hpc : th.pc = .idle)
    (h : ThreadWf cfg th) : ThreadWf cfg (dispatch cfg th c) := by
  obtain ⟨h1, h2, h3, h4⟩ := h
  cases c
  case release =>
    simp only [dispatch, ret]
    (repeat' split) <;> (refine ⟨?_, ?_, ?_, ?_⟩ <;> simp_all [pcSlot])
  all_goals simp only [dispatch, ret] <;> (try split) <;>
    (first
     | (refine ⟨?_, ?_, ?_, ?_⟩ <;> simp_all [pcSlot] <;> done)
     | skip)
  all_goals
    rename_i hk
    have hm := pick_mem _ _ _ hk
    refine ⟨?_, ?_, ?_, ?_⟩
    · first | exact mem_erase_lt _ _ _ h1 | exact h1
    · intro j hj; simp only [pcSlot, Option.some.injEq] at hj; subst hj; exact h1 _ hm
    · intro j n hj; simp only [PC.apFill.injEq, reduceCtorEq] at hj; try (obtain ⟨rfl, _⟩ := hj; exact hm)
    · intro j n hj; simp only [reduceCtorEq] at hj

theorem threadWf_exec (cfg : Cfg) (m : Mem) (th : Thread) (hs : 0 < cfg.size)
    (h : ThreadWf cfg th) : ThreadWf cfg (exec cfg m th).2 := by
  unfold exec
  cases hpc : th.pc
  case idle =>
    simp only
    split
    · exact h
    · rename_i c rest hp
      simp only
      apply threadWf_dispatch cfg _ c (by simp [hpc])
      unfold ThreadWf at *; simp_all
  case getInc r =>
    obtain ⟨h1, h2, h3, h4⟩ := h
    refine ⟨h1, ?_, ?_, ?_⟩ <;> simp [pcSlot]
    exact Nat.mod_lt _ hs
  case getTotal j r =>
    obtain ⟨h1, h2, h3, h4⟩ := h
    have hj : j < cfg.size := h2 j (by simp [hpc, pcSlot])
    cases r <;> simp only [getDone, ret] <;> refine ⟨?_, ?_, ?_, ?_⟩ <;> simp_all [pcSlot]
  case tlStart c t => cases c <;> simp only <;> (repeat' split) <;> unfold ThreadWf at * <;> simp_all [pcSlot, tlSucc, tlFail, ret]
  case tl0 c t => cases c <;> simp only <;> (repeat' split) <;> unfold ThreadWf at * <;> simp_all [pcSlot, tlSucc, tlFail, ret]
  case tl1 c t => cases c <;> simp only <;> (repeat' split) <;> unfold ThreadWf at * <;> simp_all [pcSlot, tlSucc, tlFail, ret]
  case tlBack c t => cases c <;> simp only <;> (repeat' split) <;> unfold ThreadWf at * <;> simp_all [pcSlot, tlSucc, tlFail, ret]
  all_goals
    simp only
    (repeat' split) <;> unfold ThreadWf at * <;> simp_all [pcSlot, ret]


theorem mem_set_cases {α : Type} (l : List α) (i : Nat) (a x : α) (h : x ∈ l.set i a) : x = a ∨ x ∈ l := by
  induction l generalizing i with
  | nil => simp at h
  | cons b l ih =>
    cases i with
    | zero => simp at h; rcases h with h | h <;> simp [h]
    | succ n =>
      simp at h
      rcases h with h | h
      · simp [h]
      · rcases ih n h with h | h <;> simp [h]

theorem slotWf_step (cfg : Cfg) (hs : 0 < cfg.size) (s : State) (tid : Nat) (h : SlotWf cfg s) :
    SlotWf cfg (step cfg s tid) := by
  cases hth : s.threads[tid]? with
  | none => rw [step_none cfg s tid hth]; exact h
  | some th =>
    rw [step_some cfg s tid th hth]
    intro x hx
    rcases mem_set_cases _ _ _ _ hx with rfl | hx
    · exact threadWf_exec cfg s.mem th hs (h th (List.mem_of_getElem? hth))
    · exact h x hx

theorem slotWf_init (cfg : Cfg) (progs : List (List Cmd)) : SlotWf cfg (init progs) := by
  intro th hth
  simp only [init, List.mem_map] at hth
  obtain ⟨p, _, rfl⟩ := hth
  refine ⟨?_, ?_, ?_, ?_⟩ <;> simp [pcSlot]

def incPC : PC → Nat | .getCount _ _ => 1 | _ => 0
def decPC : PC → Nat | .freeDec _ => 1 | _ => 0
/-- the thread has set a slot flag but not yet incremented `_number_taken` -/
def incP (th : Thread) : Nat := incPC th.pc
/-- the thread has cleared a slot flag but not yet decremented `_number_taken` -/
def decP (th : Thread) : Nat := decPC th.pc

/-- `_number_taken + #pending increments = #flags set + #pending decrements` -/
def CountInv (cfg : Cfg) (s : State) : Prop :=
  s.mem.taken + (sumT incP s.threads : Int) = (cnt s.mem.flags cfg.size : Int) + (sumT decP s.threads : Int)

theorem incP_dispatch (cfg : Cfg) (th : Thread) (c : Cmd) : incP (dispatch cfg th c) = 0 := by
  cases c <;> simp only [dispatch, incP, ret] <;> (repeat' split) <;> simp [incPC]
theorem decP_dispatch (cfg : Cfg) (th : Thread) (c : Cmd) : decP (dispatch cfg th c) = 0 := by
  cases c <;> simp only [dispatch, decP, ret] <;> (repeat' split) <;> simp [decPC]

theorem exec_count (cfg : Cfg) (m : Mem) (th : Thread) (hwf : ThreadWf cfg th)
    (hfl : ∀ j, th.pc = .freeUnlock j → m.flags j = true) :
    (exec cfg m th).1.taken + (incP (exec cfg m th).2 : Int) + (cnt m.flags cfg.size : Int) + (decP th : Int)
      = m.taken + (incP th : Int) + (cnt (exec cfg m th).1.flags cfg.size : Int) + (decP (exec cfg m th).2 : Int) := by
  unfold exec
  cases hpc : th.pc
  case idle =>
    simp only
    split
    · simp
    · rw [incP_dispatch, decP_dispatch]; simp [incP, decP, incPC, decPC, hpc]
  case getCas j r =>
    have hj : j < cfg.size := hwf.2.1 j (by simp [hpc, pcSlot])
    simp only
    split
    · simp [incP, decP, incPC, decPC, hpc]
    · rename_i hf
      have := cnt_upd m.flags j cfg.size true hj
      simp [incP, decP, incPC, decPC, hpc] at *
      simp [hf] at this
      omega
  case freeUnlock j =>
    have hj : j < cfg.size := hwf.2.1 j (by simp [hpc, pcSlot])
    have := cnt_upd m.flags j cfg.size false hj
    simp [hfl j hpc] at this
    simp [incP, decP, incPC, decPC, hpc]
    omega
  case getTotal j r => cases r <;> simp [incP, decP, incPC, decPC, hpc, getDone, ret]
  case tlStart c t => cases c <;> simp only <;> (repeat' split) <;> simp [incP, decP, incPC, decPC, hpc, ret, tlSucc, tlFail]
  case tl0 c t => cases c <;> simp only <;> (repeat' split) <;> simp [incP, decP, incPC, decPC, hpc, ret, tlSucc, tlFail]
  case tl1 c t => cases c <;> simp only <;> (repeat' split) <;> simp [incP, decP, incPC, decPC, hpc, ret, tlSucc, tlFail]
  case tlBack c t => cases c <;> simp only <;> (repeat' split) <;> simp [incP, decP, incPC, decPC, hpc, ret, tlSucc, tlFail]
  all_goals
    first
    | (simp only; done)
    | (simp only; (repeat' split) <;> simp [incP, decP, incPC, decPC, hpc, ret] <;> (try omega))


/-- the three pool invariants together (they are proved together: the count invariant needs
the slot invariant at `free_element`'s CAS) -/
def PoolInv (cfg : Cfg) (s : State) : Prop := SlotInv s ∧ SlotWf cfg s ∧ CountInv cfg s

theorem poolInv_step (cfg : Cfg) (hs : 0 < cfg.size) (s : State) (tid : Nat) (h : PoolInv cfg s) :
    PoolInv cfg (step cfg s tid) := by
  obtain ⟨h1, h2, h3⟩ := h
  refine ⟨slotInv_step cfg s tid h1, slotWf_step cfg hs s tid h2, ?_⟩
  cases hth : s.threads[tid]? with
  | none => rw [step_none cfg s tid hth]; exact h3
  | some th =>
    rw [step_some cfg s tid th hth]
    have hfi := sumT_set incP s.threads tid th (exec cfg s.mem th).2 hth
    have hfd := sumT_set decP s.threads tid th (exec cfg s.mem th).2 hth
    have hfl : ∀ j, th.pc = .freeUnlock j → s.mem.flags j = true := by
      intro j hj
      have hle := le_sumT (holdS j) s.threads tid th hth
      have := h1 j
      have h1' : holdS j th ≥ 1 := by simp [holdS, hj, pcHoldS, ind]
      cases hf : s.mem.flags j
      · rw [hf] at this; simp at this; omega
      · rfl
    have hloc := exec_count cfg s.mem th (h2 th (List.mem_of_getElem? hth)) hfl
    unfold CountInv at *
    simp only
    omega

theorem poolInv_init (cfg : Cfg) (progs : List (List Cmd)) : PoolInv cfg (init progs) := by
  refine ⟨slotInv_init progs, slotWf_init cfg progs, ?_⟩
  have hc : ∀ n, cnt (fun _ => false) n = 0 := by
    intro n; induction n with
    | zero => rfl
    | succ n ih => simp [cnt, ih]
  unfold CountInv
  simp only [init]
  rw [sumT_eq_zero, sumT_eq_zero]
  · simp [hc]
  · intro th hth
    simp only [List.mem_map] at hth
    obtain ⟨p, _, rfl⟩ := hth
    simp [decP, decPC]
  · intro th hth
    simp only [List.mem_map] at hth
    obtain ⟨p, _, rfl⟩ := hth
    simp [incP, incPC]

theorem poolInv_run (cfg : Cfg) (hs : 0 < cfg.size) (progs : List (List Cmd)) (sched : List Nat) :
    PoolInv cfg (run cfg (init progs) sched) :=
  run_inv cfg (PoolInv cfg) (fun s tid h => poolInv_step cfg hs s tid h) _ sched (poolInv_init cfg progs)

def pendO : Option Nat → Nat
  | none => 0
  | some r => r

/-- packets taken out of the input buffer of `add_photons` but not yet stored in a pool buffer -/
def pendPC : PC → Nat
  | .getCheck r => pendO r
  | .getInc r => pendO r
  | .getCas _ r => pendO r
  | .getCount _ r => pendO r
  | .getMax _ _ r => pendO r
  | .getMaxCas _ _ _ r => pendO r
  | .getTotal _ r => pendO r
  | .apPlace _ r => r
  | .crashed r => r
  | _ => 0

def pend (th : Thread) : Nat := pendPC th.pc

/-- packets injected = packets in buffers + in flight + discarded by free_buffer + lost -/
def PhotonInv (cfg : Cfg) (s : State) : Prop :=
  sumN s.mem.count cfg.size + sumT pend s.threads + sumT (·.disc) s.threads + sumT (·.lost) s.threads
    = sumT (·.inj) s.threads

theorem photon_dispatch (cfg : Cfg) (th : Thread) (c : Cmd) :
    pendPC (dispatch cfg th c).pc = 0 ∧ (dispatch cfg th c).disc = th.disc ∧ (dispatch cfg th c).lost = th.lost ∧
    (dispatch cfg th c).inj = th.inj := by
  cases c <;> simp only [dispatch, ret] <;> (repeat' split) <;> simp [pendPC, pendO]

theorem exec_photon (cfg : Cfg) (m : Mem) (th : Thread) (hwf : ThreadWf cfg th) :
    sumN (exec cfg m th).1.count cfg.size + pend (exec cfg m th).2 + (exec cfg m th).2.disc
        + (exec cfg m th).2.lost + th.inj
      = sumN m.count cfg.size + pend th + th.disc + th.lost + (exec cfg m th).2.inj := by
  unfold exec
  cases hpc : th.pc
  case idle =>
    simp only
    split
    · simp
    · rename_i c0 rest hp
      have := photon_dispatch cfg { th with pc := .idle, prog := rest } c0
      obtain ⟨h1, h2, h3, h4⟩ := this
      have h0 : pendPC PC.idle = 0 := rfl
      simp only [pend, h1, h2, h3, h4]
      rw [hpc, h0]
  case apFill tgt n =>
    have hj : tgt < cfg.size := hwf.2.1 tgt (by simp [hpc, pcSlot])
    have := sumN_upd m.count tgt cfg.size (m.count tgt + min n (cfg.cap - m.count tgt)) hj
    simp only
    split <;> simp only [pend, pendPC, pendO, ret, hpc] <;> omega
  case apPlace i r =>
    have hj : i < cfg.size := hwf.2.1 i (by simp [hpc, pcSlot])
    have := sumN_upd m.count i cfg.size (m.count i + r) hj
    simp only [pend, pendPC, ret, hpc]; omega
  case freeReset i =>
    have hj : i < cfg.size := hwf.2.1 i (by simp [hpc, pcSlot])
    have := sumN_upd m.count i cfg.size 0 hj
    simp only [pend, pendPC, hpc]; omega
  case getTotal j r => cases r <;> simp [pend, pendPC, pendO, getDone, ret, hpc]
  case getCheck r => cases r <;> simp only <;> (repeat' split) <;> simp [pend, pendPC, pendO, ret, hpc]
  case tlStart c t => cases c <;> simp only <;> (repeat' split) <;> simp [pend, pendPC, hpc, ret, tlSucc, tlFail]
  case tl0 c t => cases c <;> simp only <;> (repeat' split) <;> simp [pend, pendPC, hpc, ret, tlSucc, tlFail]
  case tl1 c t => cases c <;> simp only <;> (repeat' split) <;> simp [pend, pendPC, hpc, ret, tlSucc, tlFail]
  case tlBack c t => cases c <;> simp only <;> (repeat' split) <;> simp [pend, pendPC, hpc, ret, tlSucc, tlFail]
  all_goals
    first
    | (simp only; done)
    | (simp only; (repeat' split) <;> simp [pend, pendPC, pendO, hpc, ret] <;> done)

theorem photonInv_step (cfg : Cfg) (s : State) (tid : Nat) (hw : SlotWf cfg s) (h : PhotonInv cfg s) :
    PhotonInv cfg (step cfg s tid) := by
  cases hth : s.threads[tid]? with
  | none => rw [step_none cfg s tid hth]; exact h
  | some th =>
    rw [step_some cfg s tid th hth]
    have h1 := sumT_set pend s.threads tid th (exec cfg s.mem th).2 hth
    have h2 := sumT_set (·.disc) s.threads tid th (exec cfg s.mem th).2 hth
    have h3 := sumT_set (·.lost) s.threads tid th (exec cfg s.mem th).2 hth
    have h4 := sumT_set (·.inj) s.threads tid th (exec cfg s.mem th).2 hth
    have hloc := exec_photon cfg s.mem th (hw th (List.mem_of_getElem? hth))
    unfold PhotonInv at *
    simp only at *
    omega

theorem photonInv_run (cfg : Cfg) (hs : 0 < cfg.size) (progs : List (List Cmd)) (sched : List Nat) :
    PhotonInv cfg (run cfg (init progs) sched) := by
  have := run_inv cfg (fun s => SlotWf cfg s ∧ PhotonInv cfg s)
    (fun s tid h => ⟨slotWf_step cfg hs s tid h.1, photonInv_step cfg s tid h.1 h.2⟩) (init progs) sched
    ⟨slotWf_init cfg progs, ?_⟩
  · exact this.2
  · have hc : ∀ n, sumN (fun _ => 0) n = 0 := by
      intro n; induction n with
      | zero => rfl
      | succ n ih => simp [sumN, ih]
    unfold PhotonInv
    simp only [init]
    rw [sumT_eq_zero, sumT_eq_zero, sumT_eq_zero, sumT_eq_zero]
    · simp [hc]
    all_goals
      intro th hth
      simp only [List.mem_map] at hth
      obtain ⟨p, _, rfl⟩ := hth
      simp [pend, pendPC]

/-- every residue is reached from the cursor within `size` increments -/
theorem exists_offset (cur size j : Nat) (hj : j < size) : ∃ d, d < size ∧ (cur + d) % size = j := by
  have hs : 0 < size := by omega
  have hc : cur % size < size := Nat.mod_lt _ hs
  have hdm := Nat.div_add_mod cur size
  by_cases h : cur % size ≤ j
  · refine ⟨j - cur % size, by omega, ?_⟩
    have : cur + (j - cur % size) = size * (cur / size) + j := by omega
    rw [this, Nat.mul_add_mod, Nat.mod_eq_of_lt hj]
  · refine ⟨size - cur % size + j, by omega, ?_⟩
    have : cur + (size - cur % size + j) = size * (cur / size + 1) + j := by
      rw [Nat.mul_add, Nat.mul_one]; omega
    rw [this, Nat.mul_add_mod, Nat.mod_eq_of_lt hj]

/-- solo progress of `get_free_element`'s search loop: if the slot `d` positions after the
cursor (modulo the size — the cursor may have wrapped any number of times) is free, the thread,
running alone, obtains a free slot within `2 (d+1)` transitions -/
theorem get_progress_aux (cfg : Cfg) (tid : Nat) (r : Option Nat) (d : Nat) :
    ∀ (s : State) (th : Thread), s.threads[tid]? = some th → th.pc = .getInc r →
      s.mem.flags ((s.mem.cur + d) % cfg.size) = false →
      ∃ n i th', n ≤ 2 * (d + 1) ∧
        (run cfg s (List.replicate n tid)).threads[tid]? = some th' ∧ th'.pc = .getCount i r ∧
        s.mem.flags i = false ∧ (run cfg s (List.replicate n tid)).mem.flags i = true ∧
        (∃ e, e ≤ d ∧ i = (s.mem.cur + e) % cfg.size) := by
  induction d with
  | zero =>
    intro s th hth hpc hfree
    have h1 := step_at cfg s tid th hth
    have e1 : exec cfg s.mem th = ({ s.mem with cur := s.mem.cur + 1 }, { th with pc := .getCas (s.mem.cur % cfg.size) r }) := by
      unfold exec; rw [hpc]
    rw [e1] at h1
    have h2 := step_at cfg (step cfg s tid) tid _ h1.1
    simp only [Nat.add_zero] at hfree
    have e2 : exec cfg (step cfg s tid).mem { th with pc := .getCas (s.mem.cur % cfg.size) r }
        = ({ (step cfg s tid).mem with flags := upd (step cfg s tid).mem.flags (s.mem.cur % cfg.size) true },
           { th with pc := .getCount (s.mem.cur % cfg.size) r }) := by
      unfold exec; simp [h1.2, hfree]
    rw [e2] at h2
    refine ⟨2, s.mem.cur % cfg.size, _, by omega, h2.1, rfl, hfree, ?_, ⟨0, by omega, rfl⟩⟩
    show (step cfg (step cfg s tid) tid).mem.flags _ = true
    rw [h2.2]; simp
  | succ d ih =>
    intro s th hth hpc hfree
    have h1 := step_at cfg s tid th hth
    have e1 : exec cfg s.mem th = ({ s.mem with cur := s.mem.cur + 1 }, { th with pc := .getCas (s.mem.cur % cfg.size) r }) := by
      unfold exec; rw [hpc]
    rw [e1] at h1
    have h2 := step_at cfg (step cfg s tid) tid _ h1.1
    cases hf : s.mem.flags (s.mem.cur % cfg.size)
    · have e2 : exec cfg (step cfg s tid).mem { th with pc := .getCas (s.mem.cur % cfg.size) r }
          = ({ (step cfg s tid).mem with flags := upd (step cfg s tid).mem.flags (s.mem.cur % cfg.size) true },
             { th with pc := .getCount (s.mem.cur % cfg.size) r }) := by
        unfold exec; simp [h1.2, hf]
      rw [e2] at h2
      refine ⟨2, s.mem.cur % cfg.size, _, by omega, h2.1, rfl, hf, ?_, ⟨0, by omega, rfl⟩⟩
      show (step cfg (step cfg s tid) tid).mem.flags _ = true
      rw [h2.2]; simp
    · have e2 : exec cfg (step cfg s tid).mem { th with pc := .getCas (s.mem.cur % cfg.size) r }
          = ((step cfg s tid).mem, { th with pc := .getInc r }) := by
        unfold exec; simp [h1.2, hf]
      rw [e2] at h2
      have hm : (step cfg (step cfg s tid) tid).mem = { s.mem with cur := s.mem.cur + 1 } := by
        rw [h2.2, h1.2]
      have hfree' : (step cfg (step cfg s tid) tid).mem.flags
          (((step cfg (step cfg s tid) tid).mem.cur + d) % cfg.size) = false := by
        rw [hm]; simp only
        have : s.mem.cur + 1 + d = s.mem.cur + (d + 1) := by omega
        rw [this]; exact hfree
      obtain ⟨n, i, th', hn, hrun, hpc', hfi, hfi', e, he, hei⟩ := ih _ _ h2.1 rfl hfree'
      refine ⟨n + 2, i, th', by omega, ?_, hpc', ?_, ?_, ⟨e + 1, by omega, ?_⟩⟩
      · exact hrun
      · rw [hm] at hfi; exact hfi
      · exact hfi'
      · rw [hm] at hei; simp only at hei
        have : s.mem.cur + (e + 1) = s.mem.cur + 1 + e := by omega
        rw [this]; exact hei

theorem sumN_add (f g : Nat → Nat) (n : Nat) : sumN (fun i => f i + g i) n = sumN f n + sumN g n := by
  induction n with
  | zero => rfl
  | succ n ih => simp only [sumN, ih]; omega

theorem sumN_zero (n : Nat) : sumN (fun _ => 0) n = 0 := by
  induction n with
  | zero => rfl
  | succ n ih => simp [sumN, ih]

theorem sumN_congr (f g : Nat → Nat) (n : Nat) (h : ∀ i, i < n → f i = g i) : sumN f n = sumN g n := by
  induction n with
  | zero => rfl
  | succ n ih => simp only [sumN]; rw [ih (fun i hi => h i (by omega)), h n (by omega)]

theorem le_sumN (f : Nat → Nat) (n j : Nat) (h : j < n) : f j ≤ sumN f n := by
  induction n with
  | zero => omega
  | succ n ih =>
    simp only [sumN]
    by_cases hj : j = n
    · subst hj; omega
    · have := ih (by omega); omega

/-- exchange of the two finite sums -/
theorem sumN_sumT (g : Nat → Thread → Nat) (l : List Thread) (n : Nat) :
    sumN (fun i => sumT (g i) l) n = sumT (fun th => sumN (fun i => g i th) n) l := by
  induction l with
  | nil => simp [sumN_zero]
  | cons a l ih => simp only [sumT_cons, sumN_add, ih]

theorem cnt_eq_sumN (f : Nat → Bool) (n : Nat) : cnt f n = sumN (fun i => (f i).toNat) n := by
  induction n with
  | zero => rfl
  | succ n ih => simp only [cnt, sumN, ih]

theorem sumN_ind (a n : Nat) (h : a < n) : sumN (fun i => ind (i = a)) n = 1 := by
  induction n with
  | zero => omega
  | succ n ih =>
    simp only [sumN]
    by_cases ha : a = n
    · subst ha
      have : sumN (fun i => ind (i = a)) a = 0 := by
        rw [sumN_congr _ (fun _ => 0) a (fun i hi => by simp [ind]; omega), sumN_zero]
      rw [this]; simp [ind]
    · have := ih (by omega)
      have hn : ¬ n = a := fun h => ha h.symm
      rw [this]; simp [ind, hn]

theorem sumN_count (l : List Nat) (n : Nat) (h : ∀ x ∈ l, x < n) : sumN (fun i => l.count i) n = l.length := by
  induction l with
  | nil => simp [sumN_zero]
  | cons a l ih =>
    have := ih (fun x hx => h x (by simp [hx]))
    have ha := sumN_ind a n (h a (by simp))
    rw [sumN_congr _ (fun i => l.count i + ind (i = a)) n (fun i _ => count_cons_ind l a i), sumN_add, this, ha]
    simp

/-- in every reachable state the number of set flags is the total number of holds -/
theorem cnt_eq_holds (s : State) (n : Nat) (h : SlotInv s) :
    cnt s.mem.flags n = sumT (fun th => sumN (fun i => holdS i th) n) s.threads := by
  rw [cnt_eq_sumN, ← sumN_sumT]
  exact sumN_congr _ _ n (fun i _ => (h i).symm)

theorem sumT_le (f g : Thread → Nat) (l : List Thread) (h : ∀ th ∈ l, f th ≤ g th) : sumT f l ≤ sumT g l := by
  induction l with
  | nil => simp
  | cons a l ih =>
    have := ih (fun th hth => h th (by simp [hth]))
    have := h a (by simp)
    simp only [sumT_cons]; omega

theorem incP_le_holds (cfg : Cfg) (th : Thread) (hwf : ThreadWf cfg th) :
    incP th ≤ sumN (fun i => holdS i th) cfg.size := by
  unfold incP
  cases hpc : th.pc <;> simp only [incPC, Nat.zero_le]
  case getCount j r =>
    have hj : j < cfg.size := hwf.2.1 j (by simp [hpc, pcSlot])
    have := le_sumN (fun i => holdS i th) cfg.size j hj
    have hh : holdS j th ≥ 1 := by simp [holdS, hpc, pcHoldS, ind]
    omega

/-- `_number_taken` never goes below zero (so the unsigned counter of the C++ never wraps) -/
theorem taken_nonneg (cfg : Cfg) (s : State) (h : PoolInv cfg s) : 0 ≤ s.mem.taken := by
  obtain ⟨h1, h2, h3⟩ := h
  have hc := cnt_eq_holds s cfg.size h1
  have hle := sumT_le incP (fun th => sumN (fun i => holdS i th) cfg.size) s.threads
    (fun th hth => incP_le_holds cfg th (h2 th hth))
  unfold CountInv at h3
  omega

/-- when every thread is idle, `_number_taken` = total number of slots in the callers' hands -/
theorem taken_eq_owned (cfg : Cfg) (s : State) (h : PoolInv cfg s) (hidle : ∀ th ∈ s.threads, th.pc = .idle) :
    s.mem.taken = (sumT (fun th => th.owned.length) s.threads : Int) := by
  obtain ⟨h1, h2, h3⟩ := h
  have hc := cnt_eq_holds s cfg.size h1
  have e : sumT (fun th => sumN (fun i => holdS i th) cfg.size) s.threads = sumT (fun th => th.owned.length) s.threads := by
    have : ∀ l : List Thread, (∀ th ∈ l, th ∈ s.threads) →
        sumT (fun th => sumN (fun i => holdS i th) cfg.size) l = sumT (fun th => th.owned.length) l := by
      intro l
      induction l with
      | nil => intro _; rfl
      | cons a l ih =>
        intro hl
        have ha := hl a (by simp)
        have hco := sumN_count a.owned cfg.size (h2 a ha).1
        have : sumN (fun i => holdS i a) cfg.size = a.owned.length := by
          rw [← hco]
          exact sumN_congr _ _ _ (fun i _ => by simp [holdS, hidle a ha, pcHoldS])
        simp only [sumT_cons, this, ih (fun th hth => hl th (by simp [hth]))]
    exact this s.threads (fun _ h => h)
  unfold CountInv at h3
  rw [sumT_eq_zero incP _ (fun th hth => by simp [incP, incPC, hidle th hth]),
      sumT_eq_zero decP _ (fun th hth => by simp [decP, decPC, hidle th hth])] at h3
  rw [hc, e] at h3
  simpa using h3

end CMacVerif.Atomics
