import CMacVerif.Lemmas.PhotonTrav
/-! C01: `execTraverse` (fold of the per-direction step over the 27 output directions) preserves the
structural invariant and the weight; with that, every label does (`step_inv`). -/
namespace CMacVerif.Photon
open CMacVerif.Worker (sumOver sumOver_congr)

/-! ### sums -/

theorem sumOver_add {τ : Type} (l : List τ) (f g : τ → Nat) :
    sumOver l (fun i => f i + g i) = sumOver l f + sumOver l g := by
  induction l with
  | nil => rfl
  | cons a l ih => simp only [sumOver, List.map_cons, List.sum_cons] at ih ⊢; omega

theorem sumOver_single (n a c : Nat) (ha : a < n) : sumOver (List.range n) (fun i => if i = a then c else 0) = c := by
  have := sum_upd n (fun _ : Nat => 0) a c (fun x => x) ha
  have h0 : sumOver (List.range n) (fun _ : Nat => 0) = 0 := by
    unfold sumOver; induction (List.range n) with
    | nil => rfl
    | cons x l ih => simpa using ih
  have he : sumOver (List.range n) (fun x => upd (fun _ : Nat => 0) a c x) = sumOver (List.range n) (fun i => if i = a then c else 0) := by
    apply sumOver_congr; intro x _; simp [upd]
  rw [he, h0] at this
  omega

theorem sumOver_zero' {τ : Type} (l : List τ) : sumOver l (fun _ => 0) = 0 := by
  unfold sumOver; induction l with
  | nil => rfl
  | cons x l ih => simpa using ih

/-! ### the physics outcome of a traversal partitions the packets of the buffer -/

theorem outsOf_cons (cfg : Cfg) (g x f : Nat) (pk : List (Nat × Nat)) (i : Nat) :
    outsOf cfg g ((x, f) :: pk) i = if dirEnabled cfg g i ∧ f = i then x :: outsOf cfg g pk i else outsOf cfg g pk i := by
  simp only [outsOf]
  by_cases he : dirEnabled cfg g i = true
  · by_cases hf : f = i
    · subst hf; simp [he, List.filter_cons]
    · have : (f == i) = false := by simpa using hf
      simp [he, hf, List.filter_cons, this]
  · simp [he]

theorem goneOf_cons (cfg : Cfg) (g x f : Nat) (pk : List (Nat × Nat)) :
    goneOf cfg g ((x, f) :: pk) = if dirEnabled cfg g f then goneOf cfg g pk else x :: goneOf cfg g pk := by
  simp only [goneOf]
  by_cases he : dirEnabled cfg g f = true
  · simp [he, List.filter_cons]
  · simp [he, List.filter_cons]

theorem outs_partition (cfg : Cfg) (g : Nat) (w : Nat → Nat) (pk : List (Nat × Nat)) (hf : ∀ p ∈ pk, p.2 < NDIR) :
    sumOver (List.range NDIR) (fun i => wsum w (outsOf cfg g pk i)) + wsum w (goneOf cfg g pk) = wsum w (pk.map (·.1)) := by
  induction pk with
  | nil =>
    have : (fun i => wsum w (outsOf cfg g [] i)) = fun _ => 0 := by
      funext i; simp [outsOf]
    rw [this, sumOver_zero']; simp [goneOf]
  | cons p pk ih =>
    obtain ⟨x, f⟩ := p
    have hf' : f < NDIR := hf (x, f) List.mem_cons_self
    have ih' := ih (fun p hp => hf p (List.mem_cons_of_mem _ hp))
    have e1 : (fun i => wsum w (outsOf cfg g ((x, f) :: pk) i))
        = fun i => wsum w (outsOf cfg g pk i) + (if i = f then (if dirEnabled cfg g f then w x else 0) else 0) := by
      funext i
      rw [outsOf_cons]
      by_cases hif : i = f
      · subst hif
        by_cases he : dirEnabled cfg g i = true
        · simp [he]; omega
        · simp [he]
      · have : ¬ (dirEnabled cfg g i = true ∧ f = i) := fun h => hif h.2.symm
        simp [this, hif]
    rw [e1, sumOver_add, sumOver_single NDIR f _ hf', goneOf_cons]
    simp only [List.map_cons, wsum_cons]
    by_cases he : dirEnabled cfg g f = true
    · simp only [he, if_true]; omega
    · simp only [he, Bool.false_eq_true, if_false, wsum_cons]; omega

theorem outsOf_length (cfg : Cfg) (g : Nat) (pk : List (Nat × Nat)) (i : Nat) : (outsOf cfg g pk i).length ≤ pk.length := by
  simp only [outsOf]
  split_ifs
  · rw [List.length_map]; exact List.length_filter_le _ _
  · simp

/-! ### the fold over the directions -/

theorem trav_fold {cfg : Cfg} {g t b0 : Nat} {outs : Nat → List Nat} {res : Nat → DirRes} {st : TSt} {bb : Buf}
    (houts : ∀ i, (outs i).length ≤ BUFSZ) :
    ∀ (l : List Nat) (acc acc' : State × Nat × Nat), Inv cfg acc.1 →
      acc.1.tasks t = some ⟨.traverse b0, st⟩ → acc.1.pool b0 = some bb →
      foldOpt (travDir cfg g outs res) acc l = some acc' →
      Inv cfg acc'.1 ∧ acc'.1.tasks t = some ⟨.traverse b0, st⟩ ∧ acc'.1.pool b0 = some bb ∧
      (∀ w, weight cfg w acc'.1 = weight cfg w acc.1 + sumOver l (fun i => wsum w (outs i))) ∧
      SameRest acc.1 acc'.1 := by
  intro l
  induction l with
  | nil =>
    intro acc acc' hi ht hb h
    simp only [foldOpt] at h; injection h with h; subst h
    exact ⟨hi, ht, hb, fun w => by simp [sumOver], SameRest.refl _⟩
  | cons i l ih =>
    intro acc acc' hi ht hb h
    simp only [foldOpt] at h
    split at h
    · cases h
    · rename_i acc1 hstep
      simp only [travDir] at hstep
      split at hstep
      · cases hstep
      · rename_i s1 hs1
        injection hstep with hstep
        have hI1 := travDirState_inv hi (houts i) hs1
        have hF1 := travDirState_frame hs1
        have ht1 : s1.tasks t = some ⟨.traverse b0, st⟩ := by
          rw [hF1.tasksKeep t (by rw [ht]; simp)]; exact ht
        have hnact : acc.1.active g i ≠ some b0 := by
          intro e
          have hr : refBuf acc.1 (.task t) = some b0 := by rw [refBuf_task_some ht]; rfl
          have := hi.own.uniq (.act g i) (.task t) b0 e hr
          cases this
        have hb1 : s1.pool b0 = some bb := by
          rw [hF1.poolKeep b0 (by rw [hb]; simp) hnact]; exact hb
        have hacc1 : acc1.1 = s1 := by rw [← hstep]
        obtain ⟨hI2, ht2, hb2, hw2, hr2⟩ := ih acc1 acc' (by rw [hacc1]; exact hI1.1) (by rw [hacc1]; exact ht1)
          (by rw [hacc1]; exact hb1) h
        refine ⟨hI2, ht2, hb2, ?_, ?_⟩
        · intro w
          rw [hw2 w, hacc1, hI1.2 w]
          simp only [sumOver, List.map_cons, List.sum_cons]
          omega
        · rw [hacc1] at hr2; exact SameRest.trans hF1.rest hr2

/-! ### execTraverse -/

theorem step_execTraverse {cfg : Cfg} {s s' : State} {t : Nat} {fates : List Nat} {res : List DirRes}
    (h : step cfg s (.execTraverse t fates res) = some s') :
    ∃ b0 buf s1 li ls, s.tasks t = some ⟨.traverse b0, .running⟩ ∧ s.pool b0 = some buf ∧
      fates.length = buf.ids.length ∧ (∀ f ∈ fates, f < NDIR) ∧
      foldOpt (travDir cfg buf.sub (outsOf cfg buf.sub (buf.ids.zip fates)) (fun i => res.getD i ⟨0, 0, 0⟩)) (s, NDIR, 0)
        (List.range NDIR) = some (s1, li, ls) ∧
      s' = { s1 with largest := upd s1.largest buf.sub (li, ls), done := s1.done ++ goneOf cfg buf.sub (buf.ids.zip fates),
                     pool := upd s1.pool b0 none, tasks := upd s1.tasks t none } := by
  simp only [step] at h
  split at h
  · rename_i b0 hk
    split at h
    · rename_i buf hb
      by_cases hg : (fates.length = buf.ids.length ∧ (fates.all fun x => decide (x < NDIR)) = true)
      · rw [if_pos hg] at h
        split at h
        · rename_i s1 li ls hfold
          injection h with h
          refine ⟨b0, buf, s1, li, ls, hk, hb, hg.1, ?_, hfold, h.symm⟩
          intro f hf; have := List.all_eq_true.mp hg.2 f hf; simpa using this
        · cases h
      · rw [if_neg hg] at h; cases h
    · cases h
  · cases h

theorem inv_execTraverse {cfg : Cfg} {s s' : State} {t : Nat} {fates : List Nat} {res : List DirRes} (hi : Inv cfg s)
    (h : step cfg s (.execTraverse t fates res) = some s') : Inv cfg s' ∧ ∀ w, weight cfg w s' = weight cfg w s := by
  obtain ⟨b0, buf, s1, li, ls, hk, hb, hlen, hfates, hfold, rfl⟩ := step_execTraverse h
  have hrb : refBuf s (.task t) = some b0 := by rw [refBuf_task_some hk]; rfl
  obtain ⟨buf0, hb0, hok0⟩ := hi.own.live _ _ hrb
  rw [hb] at hb0; injection hb0 with hb0; subst hb0
  have hzl : (buf.ids.zip fates).length = buf.ids.length := by rw [List.length_zip, hlen]; simp
  have houts : ∀ i, (outsOf cfg buf.sub (buf.ids.zip fates) i).length ≤ BUFSZ := by
    intro i
    have := outsOf_length cfg buf.sub (buf.ids.zip fates) i
    have := hok0.2
    omega
  obtain ⟨hI1, ht1, hb1, hw1, hr1⟩ := trav_fold houts (List.range NDIR) (s, NDIR, 0) (s1, li, ls) hi hk hb hfold
  simp only at hI1 ht1 hb1 hw1 hr1
  have hg1 := hI1.tk t _ ht1
  have hbcap := (hI1.own.owned b0 buf hb1).1
  have hrb1 : refBuf s1 (.task t) = some b0 := by rw [refBuf_task_some ht1]; rfl
  have hpf : ∀ p ∈ buf.ids.zip fates, p.2 < NDIR := by
    intro p hp
    exact hfates p.2 (List.of_mem_zip hp).2
  refine ⟨⟨?_, ?_, ?_⟩, ?_⟩
  · refine own_remove hI1.own hrb1 rfl ?_
    intro x; simp only [refBuf_eq]; rw [refBufF_upd_tasks]; rfl
  · apply taskOK_upd hI1.tk (t := t) (v := none) rfl
    intro tk htk; cases htk
  · exact contOK_same hI1.ct rfl
  · intro w
    have e1 := sum_upd cfg.taskCap s1.tasks t none (taskW w) hg1.1
    have e3 := sum_upd cfg.bufCap s1.pool b0 none (bufW w) hbcap
    have e4 := outs_partition cfg buf.sub w (buf.ids.zip fates) hpf
    rw [map_fst_zip _ _ hlen] at e4
    have e5 := hw1 w
    rw [ht1] at e1
    rw [hb1] at e3
    cases buf with
    | mk bs bd bids =>
      simp only [taskW_none, taskW_some, kindW_trav, bufW_none, bufW_some] at e1 e3 e4 e5
      simp only [weight, wsum_append] at e5 ⊢
      omega

/-! ### every label -/

theorem step_inv {cfg : Cfg} {s s' : State} (l : Label) (hi : Inv cfg s) (h : step cfg s l = some s') :
    Inv cfg s' ∧ ∀ w, weight cfg w s' = weight cfg w s := by
  cases l with
  | launchBatch src t => exact inv_launchBatch hi h
  | launchCont t => exact inv_launchCont hi h
  | acquire t => exact inv_acquire hi h
  | enqueue t => exact inv_enqueue hi h
  | execSource t b t' => exact inv_execSource hi h
  | contGen t g k => exact inv_contGen hi h
  | contOverflow t g b t' => exact inv_contOverflow hi h
  | contFinish t fl => exact inv_contFinish hi h
  | flushOne t g b t' => exact inv_flushOne hi h
  | flushFinish t => exact inv_flushFinish hi h
  | execTraverse t fates res => exact inv_execTraverse hi h
  | execReemit t keep t' => exact inv_execReemit hi h
  | premature g t' => exact inv_premature hi h
  | checkTermination => exact inv_checkTermination hi h

theorem run_inv {cfg : Cfg} : ∀ (ls : List Label) (s s' : State), Inv cfg s → run cfg s ls = some s' →
    Inv cfg s' ∧ ∀ w, weight cfg w s' = weight cfg w s := by
  intro ls
  induction ls with
  | nil => intro s s' hi h; simp only [run] at h; injection h with h; subst h; exact ⟨hi, fun _ => rfl⟩
  | cons l ls ih =>
    intro s s' hi h
    simp only [run] at h
    split at h
    · cases h
    · rename_i s1 hs1
      obtain ⟨hi1, hw1⟩ := step_inv l hi hs1
      obtain ⟨hi2, hw2⟩ := ih s1 s' hi1 h
      exact ⟨hi2, fun w => by rw [hw2 w, hw1 w]⟩

theorem init_inv (cfg : Cfg) (srcIds : Nat → List Nat) (contIds : List Nat) : Inv cfg (init srcIds contIds) := by
  refine ⟨⟨?_, ?_, ?_⟩, ?_, ⟨?_, ?_⟩⟩
  · intro r1 r2 b h1; cases r1 <;> simp [refBuf, init] at h1
  · intro r b h1; cases r <;> simp [refBuf, init] at h1
  · intro b buf h1; simp [init] at h1
  · intro t tk h1; simp [init] at h1
  · intro k hk; simp [init] at hk
  · intro k; simp [init]

end CMacVerif.Photon
