/-! Shared helpers for the line-protocol drivers (core Lean only):
doubles cross the boundary as the decimal value of their 64 bit pattern. -/
namespace CMacVerif.Util

def fOfBits (n : Nat) : Float := Float.ofBits n.toUInt64
def bitsOf (x : Float) : Nat := x.toBits.toNat

/-- canonical output of a double: its bit pattern, all NaNs collapsed -/
def showF (x : Float) : String := if x.isNaN then "nan" else toString (bitsOf x)

/-- exact rational value of a finite double given by its bit pattern -/
def ratOfBits (n : Nat) : Option Rat :=
  let sign : Nat := n / 2 ^ 63
  let e : Nat := (n / 2 ^ 52) % 2048
  let m : Nat := n % 2 ^ 52
  if e = 2047 then none
  else
    let (mant, ex) : Nat × Int := if e = 0 then (m, -1074) else (m + 2 ^ 52, (e : Int) - 1075)
    let mag : Rat := if ex ≥ 0 then (mant * 2 ^ ex.toNat : Nat) else mkRat mant (2 ^ (-ex).toNat)
    some (if sign = 1 then -mag else mag)

def ratOfFloat (x : Float) : Option Rat := ratOfBits (bitsOf x)

def words (line : String) : List String :=
  (line.trimAscii.toString.splitOn " ").filter (· ≠ "")

def nat! (s : String) : Nat := s.toNat?.getD 0

/-- read stdin line by line, thread a state, print one output line per input line -/
partial def loop {σ : Type} (h : IO.FS.Stream) (out : IO.FS.Stream) (step : σ → List String → σ × String) (s : σ) : IO Unit := do
  let line ← h.getLine
  if line.isEmpty then return ()
  let (s', o) := step s (words line)
  out.putStrLn o
  loop h out step s'

def runDriver {σ : Type} (step : σ → List String → σ × String) (init : σ) : IO Unit := do
  let i ← IO.getStdin
  let o ← IO.getStdout
  loop i o step init
  o.flush

end CMacVerif.Util
