def hello := "world"
