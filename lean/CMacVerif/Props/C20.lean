import CMacVerif.Lemmas.YamlText
import CMacVerif.Lemmas.Units
import CMacVerif.Lemmas.Snapshot
/-!
# C20 — parameter files and units round-trip

Models: `CMacVerif/Model/Yaml.lean` (lexer, parser, printer of `YAMLDictionary`),
`CMacVerif/Model/Units.lean` + generated `CMacVerif/Gen/Units.lean` (`Unit`, `UnitConverter`).

The HDF5 snapshot clause is covered at the level of INDEX MAPS (`CMacVerif/Model/Snapshot.lean`:
which file position every cell is written to, which position every reader fetches); HDF5 itself,
the floating point position → index computations and the stored doubles are not modelled.
-/

namespace CMacVerif.Yaml

/-! ## YAML dictionary: parse ∘ print = id -/

/-- **Main theorem.**  For EVERY dictionary (any number of keys, any nesting depth, any nesting
jumps; `Sorted` = it is the content of a `std::map`, keys strictly increasing in `std::string`
order) whose values are non-empty, parsing what `print_contents` prints gives the dictionary back.
Keys are arbitrary strings: they are cut at every ':' by the printer and glued again by the
parser (`joinKey_splitKey`), so at the level of tokens no restriction on the names is needed; the
restriction "no '#', no leading/trailing blank" belongs to the text level (`parseText_printText`). -/
theorem parse_print (d : Dict) (hs : Sorted d) (hv : ∀ kv ∈ d, kv.2 ≠ []) :
    parse (print d) = some d := by
  have hc : Contig ([] :: d.map (fun kv => groups kv.1)) := by
    cases d with
    | nil => simp [Contig]
    | cons kv r =>
      simp only [List.map_cons, Contig]
      exact ⟨fun c _ => by simp [lcp_nil_left], sorted_contig (v0 := kv.2) kv.1 r hs⟩
  obtain ⟨s, h1, h2⟩ := parse_printAll d [] [] [] hv (fun kv _ => by simp [lcp_nil_left]) hc
  have h0 : closed [] [] = ({} : PState) := rfl
  rw [h0] at h1
  unfold parse print
  rw [h1, Option.map_some, h2]
  have := foldl_insert_sorted [] d (by simpa using hs)
  simpa using this

/-- a dictionary with nesting jumps of three levels in both directions, a name that is both a key
and a group, names on both sides of ':' -/
def exampleDict : Dict :=
  [("a".toList, "1".toList), ("a0".toList, "x".toList), ("a:b:c:k".toList, "2 m".toList),
   ("a:x:y:z:k".toList, "[1, 2, 3]".toList), ("a:x:y:z:l".toList, "true".toList),
   ("a;".toList, "y".toList), ("k".toList, "3".toList)]

/-- non-vacuity: the hypotheses of `parse_print` hold for `exampleDict` -/
example : Sorted exampleDict ∧ (∀ kv ∈ exampleDict, kv.2 ≠ []) := by
  refine ⟨by unfold Sorted; decide, by decide⟩

/-- the printer's stack really keeps stale entries after a jump (DESIGN §8: examined, harmless):
stack `[a,b,c]`, next key `a:x:y:z:k` → the shrinking loop pops once, stack `[a,b,x,y,z]` -/
example : (printEntry [['a'], ['b'], ['c']] ['a',':','x',':','y',':','z',':','k'] ['v']).1 =
    [['a'], ['b'], ['x'], ['y'], ['z']] := by
  have hs : splitKey ['a',':','x',':','y',':','z',':','k'] = ([['a'], ['x'], ['y'], ['z']], ['k']) := by
    decide
  have hp : popShrink 1 [['a'], ['b'], ['c']] = [['a'], ['b']] := by
    rw [popShrink, if_pos (by decide), popShrink, if_neg (by decide)]; rfl
  simp [printEntry, hs, lcp, hp, pushHeaders]

/-- **Print ∘ parse is idempotent on every file the parser accepts**: whatever token sequence
`ls` was read (any indentation widths, re-opened groups, duplicate keys …), printing the resulting
dictionary and parsing that again yields the same keys and values. -/
theorem print_parse_print (ls : List Line) (d : Dict) (h : parse ls = some d) :
    parse (print d) = some d :=
  let hw := parse_wellFormed ls d h
  parse_print d hw.1 hw.2

/-- and therefore the printed text is a fixed point: print (parse (print d)) = print d -/
theorem print_idempotent (ls : List Line) (d : Dict) (h : parse ls = some d) :
    (parse (print d)).map print = some (print d) := by
  rw [print_parse_print ls d h]; rfl

/-- the used-values dump (`print_contents(stream, true)`) at token level: parsing it gives every
key with the text printed for it -/
theorem parse_printUsed (used d : Dict) (hs : Sorted d) :
    parse (printUsed used d) = some (d.map fun kv => (kv.1, usedText used kv.1 kv.2)) := by
  unfold printUsed
  apply parse_print
  · unfold Sorted at hs ⊢
    rw [List.pairwise_map]
    exact hs
  · intro kv hkv
    obtain ⟨x, _, rfl⟩ := List.mem_map.1 hkv
    simp [usedText]

/-! ### the same at the level of text lines -/

/-- **Round trip through the text**: for every dictionary whose key components contain no '#'
and neither begin nor end with a blank (a component never contains ':', it is cut at ':'), and
whose values are non-empty, without '#', without blank at either end: lexing and parsing the
printed lines (`indent name: value`) gives the dictionary back. -/
theorem parseText_printText (d : Dict) (hs : Sorted d) (hk : CleanKeys d)
    (hv : ∀ kv ∈ d, kv.2 ≠ [] ∧ Clean kv.2) :
    parseText (printText d) = some d := by
  unfold parseText printText print
  rw [lexAll_printAll d [] hk]
  have hmap : (d.map fun kv => (kv.1, lexVal kv.2)) = d := by
    have : ∀ kv ∈ d, (fun kv : Str × Str => (kv.1, lexVal kv.2)) kv = id kv := by
      intro kv hkv
      simp only [id, lexVal_clean kv.2 (hv kv hkv).1 (hv kv hkv).2]
    rw [List.map_congr_left this, List.map_id]
  simp only [hmap]
  exact parse_print d hs (fun kv hkv => (hv kv hkv).1)

/-- non-vacuity of the text-level hypotheses -/
example : CleanKeys [(['a',':','b',' ','c',':','k'], ['1',' ','m'])] ∧
    Clean ['1',' ','m'] := by
  have hs : splitKey ['a',':','b',' ','c',':','k'] = ([['a'], ['b',' ','c']], ['k']) := by decide
  refine ⟨?_, ?_⟩
  · intro kv hkv
    simp only [List.mem_singleton] at hkv
    subst hkv
    simp only [groups, hs]
    refine ⟨?_, ?_⟩
    · intro g hg
      simp only [List.mem_cons, List.not_mem_nil, or_false] at hg
      rcases hg with rfl | rfl <;> refine ⟨by decide, ?_, ?_⟩ <;> intro c r h <;>
        simp at h <;> (try obtain ⟨rfl, _⟩ := h) <;> decide
    · refine ⟨by decide, ?_, ?_⟩ <;> intro c r h <;> simp at h <;> obtain ⟨rfl, _⟩ := h <;> decide
  · refine ⟨by decide, ?_, ?_⟩ <;> intro c r h <;> simp at h <;> obtain ⟨rfl, _⟩ := h <;> decide

/-- **The used-values dump fed back** (`print_contents(stream, true)` → constructor): every key
of the dictionary comes back with the value that was actually used — the text before ` # (…)` —
or with "value not used"; the original value in the trailing comment is dropped.  Hypotheses:
clean key components, used values non-empty, without '#', without blank at either end. -/
theorem parseText_printUsedText (used d : Dict) (hs : Sorted d) (hk : CleanKeys d)
    (hu : ∀ kv ∈ d, usedValue used kv.1 ≠ [] ∧ Clean (usedValue used kv.1)) :
    parseText (printUsedText used d) = some (d.map fun kv => (kv.1, usedValue used kv.1)) := by
  unfold parseText printUsedText printUsed
  have hk' : CleanKeys (d.map fun kv => (kv.1, usedText used kv.1 kv.2)) := by
    intro kv hkv
    obtain ⟨x, hx, rfl⟩ := List.mem_map.1 hkv
    exact hk x hx
  rw [lexAll_printAll _ [] hk']
  have hmap : ((d.map fun kv => (kv.1, usedText used kv.1 kv.2)).map fun kv => (kv.1, lexVal kv.2))
      = d.map fun kv => (kv.1, usedValue used kv.1) := by
    rw [List.map_map]
    apply List.map_congr_left
    intro kv hkv
    simp only [Function.comp, usedText, Prod.mk.injEq, true_and]
    exact lexVal_used _ _ (hu kv hkv).1 (hu kv hkv).2
  simp only [hmap]
  apply parse_print
  · unfold Sorted at hs ⊢
    rw [List.pairwise_map]
    exact hs
  · intro kv hkv
    obtain ⟨x, hx, rfl⟩ := List.mem_map.1 hkv
    exact (hu x hx).1

end CMacVerif.Yaml

namespace CMacVerif.Snapshot

/-! ## HDF5 snapshot: index maps of writer and readers -/

/-- **Writer layout**, for EVERY block size `B > 0`, every number and shape of subgrids: cell `ci`
of subgrid `g` is stored at file position `g * N + ci` (N = cells per subgrid) — whatever the
number of blocks a subgrid is streamed in, complete or partial — and nothing is stored beyond
`G * N`.  (One dataset; the writer uses the same offsets for every dataset, which the
correspondence checks on the real file, dataset by dataset.) -/
theorem snapshot_layout {α : Type} (B : Nat) (hB : 0 < B) (L : Layout) (field : Nat × Nat × Nat → α) :
    (∀ g ci, g < L.G → ci < L.N → snapshot B L field (g * L.N + ci) = some (field (globalCell L g ci))) ∧
    (∀ k, L.G * L.N ≤ k → snapshot B L field k = none) := by
  have h := writeAll_spec B L.N hB (fun g ci => field (globalCell L g ci)) L.G
  exact ⟨h.2.1, h.2.2⟩

/-- **Buffered reader ∘ writer = id**: for every block size, every subgrid layout (cell counts per
subgrid may differ in x, y, z) and every cell of the grid, `BufferedCMacIonizeSnapshotDensityFunction`
on the same geometry fetches exactly the value the writer stored for that cell. -/
theorem buffered_roundtrip {α : Type} (B : Nat) (hB : 0 < B) (L : Layout) (hL : L.ok)
    (field : Nat × Nat × Nat → α) (c : Nat × Nat × Nat) (hc : L.inGrid c) :
    bufferedRead L (snapshot B L field) c = some (field c) := by
  obtain ⟨hsg, hci, hgc⟩ := cell_decomp L hL c hc
  have dx := div_sub (x := c.1) hL.1
  have dy := div_sub (x := c.2.1) hL.2.1
  have dz := div_sub (x := c.2.2) hL.2.2
  have hread : bufferedRead L (snapshot B L field) c =
      get (bufferSubgrid L (snapshot B L field) (sgOf L c)) (ciOf L c) := rfl
  rw [hread]
  unfold bufferSubgrid
  simp only [Nat.one_mul, Nat.add_zero]
  rw [get_fill (F := fun i => if i < L.N then snapshot B L field (sgOf L c * L.N + i) else none)
    (h := fun _ _ => rfl)]
  have hmem : ciOf L c ∈
      (triples L.sx L.sy L.sz).map (fun t => t.1 * L.sy * L.sz + t.2.1 * L.sz + t.2.2) := by
    refine List.mem_map.2 ⟨(c.1 - c.1 / L.sx * L.sx, c.2.1 - c.2.1 / L.sy * L.sy,
      c.2.2 - c.2.2 / L.sz * L.sz), ?_, rfl⟩
    rw [mem_triples]; exact ⟨dx.2, dy.2, dz.2⟩
  rw [if_pos ⟨by simpa using hci, hmem⟩]
  simp only [hci, if_true]
  rw [(snapshot_layout B hB L field).1 _ _ hsg hci, hgc]

/-- **Plain reader ∘ writer = id**: `CMacIonizeSnapshotDensityFunction` bins every file position by
the coordinates stored at that position; when coordinates and values went through the same writer
(any block size, any layout) every cell of the grid gets its own value back. -/
theorem plain_roundtrip {α : Type} (B : Nat) (hB : 0 < B) (L : Layout) (hL : L.ok)
    (field : Nat × Nat × Nat → α) (c : Nat × Nat × Nat) (hc : L.inGrid c) :
    plainRead L.nx L.ny L.nz (L.G * L.N) (snapshot B L id) (snapshot B L field) c = some (field c) := by
  obtain ⟨hsg, hci, hgc⟩ := cell_decomp L hL c hc
  have hN : 0 < L.N := by omega
  unfold plainRead plainGrid
  have hF : ∀ i ∈ List.range (L.G * L.N), snapshot B L field i =
      (fun j => some (field (three L.ny L.nz j)))
        (plainKey L.nx L.ny L.nz (snapshot B L id) i) := by
    intro i hi
    rw [List.mem_range] at hi
    have hdm := Nat.div_add_mod i L.N
    have hg : i / L.N < L.G := by rw [Nat.div_lt_iff_lt_mul hN]; exact hi
    have hm : i % L.N < L.N := Nat.mod_lt _ hN
    have hi' : i / L.N * L.N + i % L.N = i := by rw [Nat.mul_comm]; exact hdm
    have hin := globalCell_inGrid L hL _ _ hg hm
    have e1 := (snapshot_layout B hB L field).1 _ _ hg hm
    have e2 := (snapshot_layout B hB L id).1 _ _ hg hm
    rw [hi'] at e1 e2
    simp only [plainKey, e1, e2, id, one]
    rw [three_one hin.2.1 hin.2.2]
  rw [get_fill (F := fun j => some (field (three L.ny L.nz j))) (h := hF)]
  have hlt : one L.ny L.nz c < L.nx * L.ny * L.nz := one_lt hc.1 hc.2.1 hc.2.2
  have hle : (sgOf L c + 1) * L.N ≤ L.G * L.N := Nat.mul_le_mul_right _ hsg
  rw [Nat.succ_mul] at hle
  have hmem : one L.ny L.nz c ∈
      (List.range (L.G * L.N)).map (plainKey L.nx L.ny L.nz (snapshot B L id)) := by
    refine List.mem_map.2 ⟨sgOf L c * L.N + ciOf L c, List.mem_range.2 (by omega), ?_⟩
    simp only [plainKey, (snapshot_layout B hB L id).1 _ _ hsg hci, hgc, id]
  rw [if_pos ⟨by simpa using hlt, hmem⟩]
  simp only [one]
  rw [three_one hc.2.1 hc.2.2]

/-- the legacy writer `write(DensityGrid&, …)` streams the whole Cartesian grid with the same block
loop (`block_offset = 0`, cell numbering `ix*ny*nz + iy*nz + iz`): it is the layout with a single
subgrid, so both theorems apply to it -/
theorem legacy_roundtrip {α : Type} (B : Nat) (hB : 0 < B) (nx ny nz : Nat) (h : 0 < nx ∧ 0 < ny ∧ 0 < nz)
    (field : Nat × Nat × Nat → α) (c : Nat × Nat × Nat) (hc : c.1 < nx ∧ c.2.1 < ny ∧ c.2.2 < nz) :
    plainRead nx ny nz (nx * ny * nz) (snapshot B ⟨1, 1, 1, nx, ny, nz⟩ id)
      (snapshot B ⟨1, 1, 1, nx, ny, nz⟩ field) c = some (field c) := by
  have := plain_roundtrip B hB ⟨1, 1, 1, nx, ny, nz⟩ h field c
    (by simpa [Layout.inGrid, Layout.nx, Layout.ny, Layout.nz] using hc)
  simpa [Layout.nx, Layout.ny, Layout.nz, Layout.G, Layout.N] using this

/-- the file does not depend on the block size -/
theorem snapshot_blocksize_irrelevant {α : Type} (B B' : Nat) (hB : 0 < B) (hB' : 0 < B') (L : Layout)
    (hL : L.ok) (field : Nat × Nat × Nat → α) : snapshot B L field = snapshot B' L field := by
  funext k
  have hN : 0 < L.N := Nat.mul_pos (Nat.mul_pos hL.1 hL.2.1) hL.2.2
  by_cases hk : k < L.G * L.N
  · have hg : k / L.N < L.G := by rw [Nat.div_lt_iff_lt_mul hN]; exact hk
    have hm : k % L.N < L.N := Nat.mod_lt _ hN
    have e : k / L.N * L.N + k % L.N = k := by rw [Nat.mul_comm]; exact Nat.div_add_mod k L.N
    have h1 := (snapshot_layout B hB L field).1 _ _ hg hm
    have h2 := (snapshot_layout B' hB' L field).1 _ _ hg hm
    rw [e] at h1 h2
    rw [h1, h2]
  · rw [(snapshot_layout B hB L field).2 k (by omega), (snapshot_layout B' hB' L field).2 k (by omega)]

/-- non-vacuity and a concrete instance: 2 x 1 x 2 subgrids of 1 x 3 x 2 cells, blocks of 4 cells
(every subgrid is written in one full and one partial block) -/
example : Layout.ok ⟨2, 1, 2, 1, 3, 2⟩ ∧ Layout.inGrid ⟨2, 1, 2, 1, 3, 2⟩ (1, 2, 3) ∧
    bufferedRead ⟨2, 1, 2, 1, 3, 2⟩ (snapshot 4 ⟨2, 1, 2, 1, 3, 2⟩ id) (1, 2, 3) = some (1, 2, 3) :=
  ⟨by decide, by decide,
   buffered_roundtrip 4 (by decide) ⟨2, 1, 2, 1, 3, 2⟩ (by decide) id (1, 2, 3) (by decide)⟩

/-- **Readers' fallbacks, buffered reader: decode ∘ encode = id** in exact arithmetic, for EVERY
combination of stored quantities the reader accepts (number density and/or mass density,
temperature and/or pressure, with or without neutral fractions): the cell state (n, T, x_H) written
through `Hydro::ionization_to_hydro` and the selected datasets is what
`BufferedCMacIonizeSnapshotDensityFunction` reconstructs.  Hypotheses: m_p, k, n non-zero,
1 + x_H ≠ 0, and when the neutral fractions are not stored the cell has the reader's default
x_H = 1e-6 (otherwise the mean molecular weight is not recoverable). -/
theorem decodeBuffered_encode (mp k : ℚ) (hmp : mp ≠ 0) (hk : k ≠ 0) (c : Combo) (s : CellState ℚ)
    (hn : s.n ≠ 0) (hx : 1 + s.xH ≠ 0)
    (hd : c.numberDensity = true ∨ c.density = true) (ht : c.temperature = true ∨ c.pressure = true)
    (hf : c.fractions = true ∨ s.xH = 1 / 1000000) :
    decodeBuffered mp k (encode mp (k / mp) c s) = some s := by
  obtain ⟨n, T, xH⟩ := s
  obtain ⟨cn, cd, ct, cp, cf⟩ := c
  simp only at hn hx hd ht hf
  have h05 : (0.5 : ℚ) = 1 / 2 := by norm_num
  have h10 : (1.0 : ℚ) = 1 := by norm_num
  have h16 : (1.0e-6 : ℚ) = 1 / 1000000 := by norm_num
  cases cn <;> cases cd <;> cases ct <;> cases cp <;> cases cf <;>
    simp_all [decodeBuffered, encode] <;> field_simp

/-- **the same for `CMacIonizeSnapshotDensityFunction`** with its two flags (`use_density` needs the
mass density to be stored, `use_pressure` the pressure) -/
theorem decodePlain_encode (mp k : ℚ) (hmp : mp ≠ 0) (hk : k ≠ 0) (c : Combo) (s : CellState ℚ)
    (useDensity usePressure : Bool)
    (hn : s.n ≠ 0) (hx : 1 + s.xH ≠ 0)
    (hd : if useDensity then c.density = true else (c.numberDensity = true ∨ c.density = true))
    (ht : if usePressure then c.pressure = true else (c.temperature = true ∨ c.pressure = true))
    (hf : c.fractions = true ∨ s.xH = 1 / 1000000) :
    decodePlain mp k useDensity usePressure (encode mp (k / mp) c s) = some s := by
  obtain ⟨n, T, xH⟩ := s
  obtain ⟨cn, cd, ct, cp, cf⟩ := c
  simp only at hn hx hd ht hf
  have h05 : (0.5 : ℚ) = 1 / 2 := by norm_num
  have h10 : (1.0 : ℚ) = 1 := by norm_num
  have h16 : (1.0e-6 : ℚ) = 1 / 1000000 := by norm_num
  cases useDensity <;> cases usePressure <;>
  cases cn <;> cases cd <;> cases ct <;> cases cp <;> cases cf <;>
    simp_all [decodePlain, encode] <;> (try field_simp) <;> (try simp)

/-- non-vacuity: only mass density and pressure stored (the combination where the order of the two
fallback statements matters), a cell with n = 10⁶, T = 8000, x_H = 1/4 -/
example : decodeBuffered (α := ℚ) (1 / 10 ^ 27) (1 / 10 ^ 23)
    (encode (1 / 10 ^ 27) ((1 / 10 ^ 23) / (1 / 10 ^ 27)) ⟨false, true, false, true, true⟩ ⟨10 ^ 6, 8000, 1 / 4⟩) =
    some ⟨10 ^ 6, 8000, 1 / 4⟩ :=
  decodeBuffered_encode _ _ (by norm_num) (by norm_num) _ _ (by norm_num) (by norm_num)
    (by decide) (by decide) (by decide)

end CMacVerif.Snapshot

namespace CMacVerif.Units
open CMacVerif.Gen.Units

/-! ## Units -/

/-- value of a table entry as exact rational of the double -/
def uval (name : Str) : ℚ := ((getSingleUnit name : Option (Unit ℚ)).map (·.value)).getD 0

/-- value of a table entry as printed (shortest decimal that round-trips) -/
def udec (name : Str) : ℚ :=
  ((lookup name table).map (fun e => (e.val.decMant : ℚ) * (10 : ℚ) ^ e.val.decExp)).getD 0

/-- **The built-in table agrees with itself — relations that hold EXACTLY** (on the doubles as
stored): 1 kpc = 1000 pc, 1 Myr = 10⁶ yr, 1 Gyr = 10³ Myr, 1 km = 1000 m, 1 bar = 10⁵ Pa,
1 h = 3600 s, and `eV` is the electron-volt constant used by `try_conversion`. -/
theorem units_table_consistent :
    uval ['k','p','c'] = 1000 * uval ['p','c'] ∧
    uval ['M','y','r'] = 10 ^ 6 * uval ['y','r'] ∧
    uval ['G','y','r'] = 10 ^ 3 * uval ['M','y','r'] ∧
    uval ['k','m'] = 1000 * uval ['m'] ∧
    uval ['b','a','r'] = 10 ^ 5 * uval ['P','a'] ∧
    uval ['h'] = 3600 * uval ['s'] ∧
    uval ['e','V'] = (OfDbl.ofDbl electronvolt : ℚ) := by
  simp [uval, getSingleUnit, lookup, table, ofEntry, OfDbl.ofDbl, electronvolt]
  norm_num

/-- dimension exponents of a table entry -/
def udims (name : Str) : Option (Int × Int × Int × Int × Int × Int) :=
  (lookup name table).map fun e => (e.length, e.time, e.mass, e.temperature, e.current, e.angle)

/-- the units related above (and below) measure the same quantity -/
theorem units_table_same_dimensions :
    udims ['k','p','c'] = udims ['p','c'] ∧ udims ['k','m'] = udims ['m'] ∧ udims ['c','m'] = udims ['m'] ∧
    udims ['a','n','g','s','t','r','o','m'] = udims ['m'] ∧ udims ['a','u'] = udims ['m'] ∧
    udims ['M','y','r'] = udims ['y','r'] ∧ udims ['G','y','r'] = udims ['y','r'] ∧
    udims ['h'] = udims ['s'] ∧ udims ['y','r'] = udims ['s'] ∧
    udims ['g'] = udims ['k','g'] ∧ udims ['M','s','o','l'] = udims ['k','g'] ∧
    udims ['b','a','r'] = udims ['P','a'] ∧ udims ['e','r','g'] = udims ['J'] ∧ udims ['e','V'] = udims ['J'] ∧
    udims ['d','e','g','r','e','e','s'] = udims ['r','a','d','i','a','n','s'] ∧
    udims ['m'] = some (1, 0, 0, 0, 0, 0) ∧ udims ['s'] = some (0, 1, 0, 0, 0, 0) ∧
    udims ['k','g'] = some (0, 0, 1, 0, 0, 0) ∧ udims ['K'] = some (0, 0, 0, 1, 0, 0) ∧
    udims ['r','a','d','i','a','n','s'] = some (0, 0, 0, 0, 0, 1) := by
  repeat' constructor

/-- **Relations that hold to the printed precision only** (0.01, 0.001, 1e-7, 1e-10 are not
doubles): on the shortest round-trip decimals 100 cm = 1 m, 1000 g = 1 kg, 10⁷ erg = 1 J,
10¹⁰ angstrom = 1 m; on the doubles themselves they hold to 2⁻⁵² relative. -/
theorem units_table_consistent_decimal :
    100 * udec ['c','m'] = udec ['m'] ∧ 1000 * udec ['g'] = udec ['k','g'] ∧
    10 ^ 7 * udec ['e','r','g'] = udec ['J'] ∧
    10 ^ 10 * udec ['a','n','g','s','t','r','o','m'] = udec ['m'] ∧
    |100 * uval ['c','m'] - uval ['m']| ≤ 1 / 2 ^ 52 ∧
    |1000 * uval ['g'] - uval ['k','g']| ≤ 1 / 2 ^ 52 ∧
    |10 ^ 7 * uval ['e','r','g'] - uval ['J']| ≤ 1 / 2 ^ 52 ∧
    |10 ^ 10 * uval ['a','n','g','s','t','r','o','m'] - uval ['m']| ≤ 1 / 2 ^ 52 := by
  simp [udec, uval, getSingleUnit, lookup, table, ofEntry, OfDbl.ofDbl]
  norm_num [abs_le]

/-- the derived units have the dimensions of their definitions and value 1 in SI:
J = kg m² s⁻², Pa = kg m⁻¹ s⁻², Hz = s⁻¹ -/
theorem units_table_dimensions :
    (getUnit ['J'] : Option (Unit ℚ)) = getUnit ['k','g',' ','m','^','2',' ','s','^','-','2'] ∧
    (getUnit ['P','a'] : Option (Unit ℚ)) = getUnit ['k','g',' ','m','^','-','1',' ','s','^','-','2'] ∧
    (getUnit ['H','z'] : Option (Unit ℚ)) = getUnit ['s','^','-','1'] := by
  have h1 : scanUnits ['J'] = some [⟨['J'], none⟩] := by decide
  have h2 : scanUnits ['k','g',' ','m','^','2',' ','s','^','-','2'] =
      some [⟨['k','g'], none⟩, ⟨['m'], some 2⟩, ⟨['s'], some (-2)⟩] := by decide
  have h3 : scanUnits ['P','a'] = some [⟨['P','a'], none⟩] := by decide
  have h4 : scanUnits ['k','g',' ','m','^','-','1',' ','s','^','-','2'] =
      some [⟨['k','g'], none⟩, ⟨['m'], some (-1)⟩, ⟨['s'], some (-2)⟩] := by decide
  have h5 : scanUnits ['H','z'] = some [⟨['H','z'], none⟩] := by decide
  have h6 : scanUnits ['s','^','-','1'] = some [⟨['s'], some (-1)⟩] := by decide
  simp [getUnit, h1, h2, h3, h4, h5, h6, getUnitToks, mulToks, evalTok, getSingleUnit, lookup, table,
    ofEntry, OfDbl.ofDbl, Unit.pow, Unit.mul, Unit.powValue, Unit.mulLoop, Unit.divLoop]
  norm_num

/-- **The SI unit of every quantity has conversion factor 1** (every part of every name returned
by `get_SI_unit_name` is a table entry with value exactly 1), so `to_SI` really returns SI values. -/
theorem si_units_are_one (q : ℕ) (hq : q < siNames.length) :
    ∃ u : Unit ℚ, getSIUnit q = some u ∧ u.value = 1 := by
  obtain ⟨n, hn, hnth⟩ := nth?_mem siNames q hq
  have hall : siNames.all nameIsOne = true := by decide
  unfold getSIUnit
  rw [hnth]
  exact getUnit_one n (List.all_eq_true.1 hall n hn)

/-- **`operator^=`** for every unit and EVERY integer exponent (positive, negative, zero): the
value is the integer power, every dimension exponent is multiplied by the exponent.
(Until /repo commit 6c2926b the case `p = 0` kept the value of `x` instead of giving 1 — found by
this check, oracle `units-pow-zero`; the model follows the fixed code.) -/
theorem pow_spec (u : Unit ℚ) (p : ℤ) :
    (u.pow p).value = u.value ^ p ∧ (u.pow p).length = u.length * p ∧ (u.pow p).time = u.time * p ∧
    (u.pow p).mass = u.mass * p ∧ (u.pow p).temperature = u.temperature * p ∧
    (u.pow p).current = u.current * p ∧ (u.pow p).angle = u.angle * p :=
  ⟨Unit.powValue_zpow u.value p, rfl, rfl, rfl, rfl, rfl, rfl⟩

/-- in particular `x^0` is the dimensionless unit 1, e.g. `get_unit("kpc^0")` -/
theorem pow_zero_is_one :
    (∀ u : Unit ℚ, u.pow 0 = ⟨1, 0, 0, 0, 0, 0, 0⟩) ∧
    (getUnit ['k','p','c','^','0'] : Option (Unit ℚ)) = some ⟨1, 0, 0, 0, 0, 0, 0⟩ := by
  have h : scanUnits ['k','p','c','^','0'] = some [⟨['k','p','c'], some 0⟩] := by decide
  constructor
  · intro u; simp [Unit.pow, Unit.powValue_zero]
  · simp [getUnit, h, getUnitToks, mulToks, evalTok, getSingleUnit, lookup, table, ofEntry, OfDbl.ofDbl,
      Unit.pow, Unit.powValue_zero]

/-- **A compound unit is the product of its parts** (grammar of `get_unit` on tokens, exact
arithmetic): the unit of `ts1 ++ ts2` is the `*=` product of the units of `ts1` and of `ts2`. -/
theorem compound_is_product (ts1 ts2 : List Tok) (u1 u2 : Unit ℚ)
    (h1 : getUnitToks ts1 = some u1) (h2 : getUnitToks ts2 = some u2) :
    getUnitToks (ts1 ++ ts2) = some (u1.mul u2) := by
  cases ts1 with
  | nil => simp [getUnitToks] at h1
  | cons t1 r1 =>
    cases ts2 with
    | nil => simp [getUnitToks] at h2
    | cons t2 r2 =>
      simp only [getUnitToks, List.cons_append] at h1 h2 ⊢
      cases he1 : evalTok (α := ℚ) t1 with
      | none => rw [he1] at h1; simp at h1
      | some a =>
        rw [he1] at h1
        simp only [] at h1 ⊢
        rw [mulToks_append, h1]
        simp only [Option.bind_some, mulToks]
        cases he2 : evalTok (α := ℚ) t2 with
        | none => rw [he2] at h2; simp at h2
        | some b =>
          rw [he2] at h2
          simp only [] at h2 ⊢
          rw [mulToks_mul, h2]
          rfl

/-- value and dimensions of the product, spelled out -/
theorem compound_value (ts1 ts2 : List Tok) (u1 u2 : Unit ℚ)
    (h1 : getUnitToks ts1 = some u1) (h2 : getUnitToks ts2 = some u2) :
    ∃ u, getUnitToks (ts1 ++ ts2) = some u ∧ u.value = u1.value * u2.value ∧
      u.length = u1.length + u2.length ∧ u.time = u1.time + u2.time ∧ u.mass = u1.mass + u2.mass :=
  ⟨_, compound_is_product ts1 ts2 u1 u2 h1 h2, rfl, rfl, rfl, rfl⟩

/-- non-vacuity of `compound_is_product`: "g" and "cm^-3" -/
example : (getUnitToks (α := ℚ) [⟨['g'], none⟩]).isSome = true ∧
    (getUnitToks (α := ℚ) [⟨['c','m'], some (-3)⟩]).isSome = true := by
  simp [getUnitToks, mulToks, evalTok, getSingleUnit, lookup, table]

/-- **`to_SI` then `to_unit` is the identity** in exact arithmetic, for every quantity and every
unit string of the same dimension whose conversion factor is not zero. -/
theorem toSI_toUnit (q : ℕ) (v : ℚ) (s : Str) (si u : Unit ℚ)
    (h1 : getSIUnit q = some si) (h2 : getUnit s = some u)
    (hq : si.sameQuantity u = true) (h0 : u.value ≠ 0) :
    (toSI q v s).bind (fun x => toUnit q x s) = some v := by
  simp only [toSI, toUnit, h1, h2, hq, Bool.not_true, Bool.false_eq_true, if_false, Option.bind_some,
    Option.some.injEq]
  field_simp

/-- and the other way round -/
theorem toUnit_toSI (q : ℕ) (v : ℚ) (s : Str) (si u : Unit ℚ)
    (h1 : getSIUnit q = some si) (h2 : getUnit s = some u)
    (hq : si.sameQuantity u = true) (h0 : u.value ≠ 0) :
    (toUnit q v s).bind (fun x => toSI q x s) = some v := by
  simp only [toSI, toUnit, h1, h2, hq, Bool.not_true, Bool.false_eq_true, if_false, Option.bind_some,
    Option.some.injEq]
  field_simp

/-- **Cross-quantity conversion (`try_conversion`), photon energy ↔ frequency**: a value given in
any energy unit (factor `x ≠ 0`), read as a frequency (`ν = E/h`) and written back, is unchanged. -/
theorem toSI_toUnit_energy_as_frequency (v x : ℚ) (s : Str)
    (h2 : getUnit s = some (⟨x, 2, -2, 1, 0, 0, 0⟩ : Unit ℚ)) (h0 : x ≠ 0) :
    (toSI qFrequency v s).bind (fun y => toUnit qFrequency y s) = some v := by
  have hp := planck_ne
  simp only [toSI, toUnit, si_freq, h2, tryConversion, tryConversion.go, crossTable, tryRow, si_energy,
    si_length, Unit.sameQuantity]
  simp [Unit.mulLoop, lit_one]
  field_simp

/-- **wavelength ↔ frequency** (`ν = c/λ`), for a non-zero value -/
theorem toSI_toUnit_wavelength_as_frequency (v x : ℚ) (s : Str)
    (h2 : getUnit s = some (⟨x, 1, 0, 0, 0, 0, 0⟩ : Unit ℚ)) (h0 : x ≠ 0) (hv : v ≠ 0) :
    (toSI qFrequency v s).bind (fun y => toUnit qFrequency y s) = some v := by
  have hp := light_ne
  simp only [toSI, toUnit, si_freq, h2, tryConversion, tryConversion.go, crossTable, tryRow, si_energy,
    si_length, Unit.sameQuantity]
  simp [Unit.divLoop, lit_one]
  field_simp

/-- non-vacuity of the two cross-quantity theorems: "eV" and "angstrom" -/
example : (∃ x : ℚ, x ≠ 0 ∧ getUnit ['e','V'] = some (⟨x, 2, -2, 1, 0, 0, 0⟩ : Unit ℚ)) ∧
    (∃ x : ℚ, x ≠ 0 ∧ getUnit ['a','n','g','s','t','r','o','m'] = some (⟨x, 1, 0, 0, 0, 0, 0⟩ : Unit ℚ)) := by
  have h1 : scanUnits ['e','V'] = some [⟨['e','V'], none⟩] := by decide
  have h2 : scanUnits ['a','n','g','s','t','r','o','m'] = some [⟨['a','n','g','s','t','r','o','m'], none⟩] := by
    decide
  refine ⟨⟨uval ['e','V'], ?_, ?_⟩, ⟨uval ['a','n','g','s','t','r','o','m'], ?_, ?_⟩⟩
  · simp [uval, getSingleUnit, lookup, table, ofEntry, OfDbl.ofDbl]
  · simp [getUnit, h1, getUnitToks, mulToks, evalTok, getSingleUnit, lookup, table, ofEntry, OfDbl.ofDbl, uval]
  · simp [uval, getSingleUnit, lookup, table, ofEntry, OfDbl.ofDbl]
  · simp [getUnit, h2, getUnitToks, mulToks, evalTok, getSingleUnit, lookup, table, ofEntry, OfDbl.ofDbl, uval]

/-- non-vacuity: density (quantity 2) in "g cm^-3" -/
example : ∃ si u : Unit ℚ, getSIUnit 2 = some si ∧ getUnit ['g',' ','c','m','^','-','3'] = some u ∧
    si.sameQuantity u = true ∧ u.value ≠ 0 := by
  have h1 : scanUnits ['k','g',' ','m','^','-','3'] = some [⟨['k','g'], none⟩, ⟨['m'], some (-3)⟩] := by decide
  have h2 : scanUnits ['g',' ','c','m','^','-','3'] = some [⟨['g'], none⟩, ⟨['c','m'], some (-3)⟩] := by decide
  have e1 : (getSIUnit 2 : Option (Unit ℚ)) = some ⟨1, -3, 0, 1, 0, 0, 0⟩ := by
    simp [getSIUnit, nth?, siNames, getUnit, h1, getUnitToks, mulToks, evalTok, getSingleUnit, lookup,
      table, ofEntry, OfDbl.ofDbl, Unit.pow, Unit.mul, Unit.powValue, Unit.divLoop]
    norm_num
  have e2 : (getUnit ['g',' ','c','m','^','-','3'] : Option (Unit ℚ)) =
      some ⟨(1152921504606847 / 1152921504606846976 : ℚ) *
        (1 / (5764607523034235 / 576460752303423488) / (5764607523034235 / 576460752303423488) /
          (5764607523034235 / 576460752303423488)), -3, 0, 1, 0, 0, 0⟩ := by
    simp [getUnit, h2, getUnitToks, mulToks, evalTok, getSingleUnit, lookup, table, ofEntry,
      OfDbl.ofDbl, Unit.pow, Unit.mul, Unit.powValue, Unit.divLoop]
    norm_num
  refine ⟨_, _, e1, e2, by decide, ?_⟩
  norm_num

end CMacVerif.Units
