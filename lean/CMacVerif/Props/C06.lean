import CMacVerif.Lemmas.IonBalance
/-!
# C06 — ionization and thermal balance return a physical state

Property theorems only, about `Model/IonBalance.lean` instantiated at `ℝ` (exact arithmetic;
`x / 0 = 0` and `√x = 0` for `x < 0` in Lean, so every theorem about a quotient or a root carries
the hypothesis under which this agrees with IEEE doubles; the check evaluates the real code at
the excluded points).

* hydrogen only: `h0_solves_balance`, `h0_taylor_residual`, `h0_range`, `h0_antitone_J`,
  `h0_monotone_nalpha` (+ the strict forms `…_strict_partial` and the refutation
  `h0_switch_not_antitone` of strict monotonicity across the Taylor switch);
* metals: `metals_range`, `metals_range_of_rates`, `cell_metals_range`;
* H/He: `hHe_iterate_range_partial` (one loop body; hypothesis `0 ≤ ch` forced by the proof);
  **convergence of the fixed point within 20 iterations (no `cmac_error`) is NOT a theorem** — it
  is searched on the implementation by the correspondence run;
* H/He, whole solve under the premise CHECKED by the model run on every case (`offDom`):
  `hHe_solve_range_checked`;
* balance function (`compute_cooling_and_heating_balance`, line cooling uninterpreted):
  `balance_nonneg`, `abund_range`, `balModel_ok`;
* state left in the cell: `temperature_state_physical` (every physical balance function),
  `temperature_model_state_physical`, `temperature_model_state_checked` (modelled balance);
  `cell_output_independent_of_previous_state`;
* temperature: `temperature_range` for EVERY balance function, tolerance and iteration count,
  with the corollaries `temperature_range_iterated`, `temperature_range_default`.
-/
namespace CMacVerif.IonBalance
open CMacVerif

/-! ## hydrogen-only closed form -/

/-- For every input — including zero or negative rates, where the C++ produces `inf`/`-0` —
the returned neutral fraction lies between the floor and 1. -/
theorem h0_range (alphaH jH nH : ℝ) :
    1e-14 ≤ h0Hydrogen alphaH jH nH ∧ h0Hydrogen alphaH jH nH ≤ 1 := by
  by_cases h : 0 < jH ∧ 0 < nH
  · rw [h0Hydrogen_pos alphaH jH nH h.1 h.2]
    exact h0Core_range _
  · rw [h0Hydrogen_neutral alphaH jH nH h]; norm_num

/-- In the square-root branch (`bb ≥ 1e-10`, i.e. `C = jH/(nH alphaH) ≤ 4e10`) the result is
above the floor and solves the balance equation of the code's comment,
`x² − (2 + C) x + 1 = 0`, exactly. -/
theorem h0_solves_balance (alphaH jH nH : ℝ) (ha : 0 < alphaH) (hj : 0 < jH) (hn : 0 < nH)
    (hC : jH / (nH * alphaH) ≤ 4e10) :
    1e-14 < h0Hydrogen alphaH jH nH ∧
    h0Hydrogen alphaH jH nH ^ 2 - (2 + jH / (nH * alphaH)) * h0Hydrogen alphaH jH nH + 1 = 0 := by
  have hCpos : 0 < jH / (nH * alphaH) := by positivity
  have hbb := aa_bb alphaH jH nH ha hj hn
  have hnt : ¬ 2 / (0.5 * jH / (nH * alphaH)) < 1e-10 := by
    rw [hbb, not_lt, le_div_iff₀ hCpos]; linarith
  rw [h0Hydrogen_pos alphaH jH nH hj hn]
  obtain ⟨e, hx⟩ := h0Core_exact_eq _ hnt
  rw [e]
  refine ⟨hx, ?_⟩
  have := xOf_balance (2 / (0.5 * jH / (nH * alphaH))) (by positivity)
  rw [hbb] at this ⊢
  have e4 : 4 / (4 / (jH / (nH * alphaH))) = jH / (nH * alphaH) := by field_simp
  rw [e4] at this
  exact this

/-- In the Taylor branch (`C > 4e10`) the result is `max(1e-14, 1/C)`; above the floor the
balance equation holds up to `2/C < 0.5e-10` (the equation's constant term is 1). -/
theorem h0_taylor_residual (alphaH jH nH : ℝ) (ha : 0 < alphaH) (hj : 0 < jH) (hn : 0 < nH)
    (hC : 4e10 < jH / (nH * alphaH)) :
    h0Hydrogen alphaH jH nH = max 1e-14 (1 / (jH / (nH * alphaH))) ∧
    (1e-14 < h0Hydrogen alphaH jH nH →
      |h0Hydrogen alphaH jH nH ^ 2 - (2 + jH / (nH * alphaH)) * h0Hydrogen alphaH jH nH + 1|
        ≤ 0.5e-10) := by
  have hCpos : 0 < jH / (nH * alphaH) := by positivity
  have hbb := aa_bb alphaH jH nH ha hj hn
  have ht : 2 / (0.5 * jH / (nH * alphaH)) < 1e-10 := by
    rw [hbb, div_lt_iff₀ hCpos]; linarith
  rw [h0Hydrogen_pos alphaH jH nH hj hn, h0Core_taylor _ ht, hbb]
  have e : 0.25 * (4 / (jH / (nH * alphaH))) = 1 / (jH / (nH * alphaH)) := by
    field_simp; norm_num
  rw [e]
  refine ⟨rfl, ?_⟩
  intro hfl
  generalize jH / (nH * alphaH) = C at *
  have hx : max 1e-14 (1 / C) = 1 / C := by
    apply max_eq_right
    rcases le_total (1e-14 : ℝ) (1 / C) with h | h
    · exact h
    · rw [max_eq_left h] at hfl; exact absurd hfl (lt_irrefl _)
  rw [hx]
  have hCne : C ≠ 0 := ne_of_gt hCpos
  have hr : (1 / C) ^ 2 - (2 + C) * (1 / C) + 1 = (1 / C) ^ 2 - 2 * (1 / C) := by
    field_simp; ring
  rw [hr]
  have h1 : 0 < 1 / C := by positivity
  have h2 : 1 / C < 0.25e-10 := by
    rw [div_lt_iff₀ hCpos]; linarith
  rw [abs_le]
  constructor <;> nlinarith

/-- The neutral fraction decreases with the radiation field: for EVERY pair `jH ≤ jH'`
(including `jH = 0`) up to the relative jump `0.5e-10` that the code's switch to the Taylor
expansion at `C = 4e10` introduces (see `h0_switch_not_antitone`). -/
theorem h0_antitone_J (alphaH nH jH jH' : ℝ) (ha : 0 < alphaH) (hj : 0 ≤ jH) (hjj : jH ≤ jH') :
    h0Hydrogen alphaH jH' nH ≤ (1 + 0.5e-10) * h0Hydrogen alphaH jH nH := by
  have r1 := h0_range alphaH jH nH
  have r2 := h0_range alphaH jH' nH
  by_cases hn : 0 < nH
  · rcases eq_or_lt_of_le hj with h0 | hpos
    · rw [h0Hydrogen_neutral alphaH jH nH (by rw [← h0]; simp)]
      linarith [r2.2]
    · have hpos' : 0 < jH' := lt_of_lt_of_le hpos hjj
      rw [h0Hydrogen_pos alphaH jH nH hpos hn, h0Hydrogen_pos alphaH jH' nH hpos' hn]
      apply h0Core_antitone (by positivity)
      have : 0 < nH * alphaH := by positivity
      apply div_le_div_of_nonneg_right _ this.le
      linarith
  · rw [h0Hydrogen_neutral alphaH jH nH (fun h => hn h.2),
      h0Hydrogen_neutral alphaH jH' nH (fun h => hn h.2)]
    norm_num

/-- Strict antitonicity in `J`; the extra hypothesis excludes only pairs that straddle the
Taylor switch with `C' < C + 2` (`C = jH/(nH alphaH)`). -/
theorem h0_antitone_J_strict_partial (alphaH nH jH jH' : ℝ) (ha : 0 < alphaH) (hn : 0 < nH)
    (hj : 0 < jH) (hjj : jH ≤ jH')
    (hs : 4e10 < jH' / (nH * alphaH) →
      4e10 < jH / (nH * alphaH) ∨ jH / (nH * alphaH) + 2 ≤ jH' / (nH * alphaH)) :
    h0Hydrogen alphaH jH' nH ≤ h0Hydrogen alphaH jH nH := by
  have hpos' : 0 < jH' := lt_of_lt_of_le hj hjj
  have hna : 0 < nH * alphaH := by positivity
  rw [h0Hydrogen_pos alphaH jH nH hj hn, h0Hydrogen_pos alphaH jH' nH hpos' hn]
  have hC : 0 < jH / (nH * alphaH) := by positivity
  have hC' : 0 < jH' / (nH * alphaH) := by positivity
  apply h0Core_antitone_strict (by positivity)
  · apply div_le_div_of_nonneg_right _ hna.le; linarith
  · intro ht
    rw [aa_bb alphaH jH' nH ha hpos' hn, div_lt_iff₀ hC'] at ht
    rcases hs (by linarith) with h | h
    · left; rw [aa_bb alphaH jH nH ha hj hn, div_lt_iff₀ hC]; linarith
    · right
      have e1 : 2 * (0.5 * jH / (nH * alphaH)) = jH / (nH * alphaH) := by ring
      have e2 : 2 * (0.5 * jH' / (nH * alphaH)) = jH' / (nH * alphaH) := by ring
      rw [e1, e2]; exact h

/-- Strict monotonicity across the Taylor switch is FALSE for the code as written: with
`n α = 1`, going from `J = 4e10` (square-root branch) to `J = 4e10 + 1` (Taylor branch)
increases the neutral fraction (by a relative 5e-11). -/
theorem h0_switch_not_antitone :
    h0Hydrogen (1:ℝ) 4e10 1 < h0Hydrogen (1:ℝ) (4e10 + 1) 1 := by
  have hb := h0_solves_balance 1 4e10 1 (by norm_num) (by norm_num) (by norm_num) (by norm_num)
  have ht := (h0_taylor_residual 1 (4e10 + 1) 1 (by norm_num) (by norm_num) (by norm_num)
    (by norm_num)).1
  have hr := h0_range 1 4e10 1
  rw [ht]
  apply lt_of_lt_of_le _ (le_max_right _ _)
  set x := h0Hydrogen (1:ℝ) 4e10 1 with hx
  have e : (4e10 : ℝ) / (1 * 1) = 4e10 := by norm_num
  rw [e] at hb
  have e2 : (1:ℝ) / ((4e10 + 1) / (1 * 1)) = 1 / (4e10 + 1) := by norm_num
  rw [e2, lt_div_iff₀ (by norm_num)]
  -- x (2 + C) = 1 + x² > 1  and  x ≤ 1
  nlinarith [hb.2, hb.1, hr.2]

/-- The neutral fraction increases with density × recombination rate (same caveat). -/
theorem h0_monotone_nalpha (alphaH nH alphaH' nH' jH : ℝ) (ha : 0 < alphaH) (hn : 0 < nH)
    (ha' : 0 < alphaH') (hn' : 0 < nH') (hle : nH * alphaH ≤ nH' * alphaH') :
    h0Hydrogen alphaH jH nH ≤ (1 + 0.5e-10) * h0Hydrogen alphaH' jH nH' := by
  by_cases hj : 0 < jH
  · rw [h0Hydrogen_pos alphaH jH nH hj hn, h0Hydrogen_pos alphaH' jH nH' hj hn']
    apply h0Core_antitone (by positivity)
    exact div_le_div_of_nonneg_left (by positivity) (by positivity) hle
  · rw [h0Hydrogen_neutral alphaH jH nH (fun h => hj h.1),
      h0Hydrogen_neutral alphaH' jH nH' (fun h => hj h.1)]
    norm_num

/-- strict form, away from the Taylor switch -/
theorem h0_monotone_nalpha_strict_partial (alphaH nH alphaH' nH' jH : ℝ) (ha : 0 < alphaH)
    (hn : 0 < nH) (ha' : 0 < alphaH') (hn' : 0 < nH') (hj : 0 < jH)
    (hle : nH * alphaH ≤ nH' * alphaH')
    (hs : 4e10 < jH / (nH * alphaH) →
      4e10 < jH / (nH' * alphaH') ∨ jH / (nH' * alphaH') + 2 ≤ jH / (nH * alphaH)) :
    h0Hydrogen alphaH jH nH ≤ h0Hydrogen alphaH' jH nH' := by
  rw [h0Hydrogen_pos alphaH jH nH hj hn, h0Hydrogen_pos alphaH' jH nH' hj hn']
  have hC : 0 < jH / (nH * alphaH) := by positivity
  have hC' : 0 < jH / (nH' * alphaH') := by positivity
  apply h0Core_antitone_strict (by positivity)
  · exact div_le_div_of_nonneg_left (by positivity) (by positivity) hle
  · intro ht
    rw [aa_bb alphaH jH nH ha hj hn, div_lt_iff₀ hC] at ht
    rcases hs (by linarith) with h | h
    · left; rw [aa_bb alphaH' jH nH' ha' hj hn', div_lt_iff₀ hC']; linarith
    · right
      have e1 : 2 * (0.5 * jH / (nH * alphaH)) = jH / (nH * alphaH) := by ring
      have e2 : 2 * (0.5 * jH / (nH' * alphaH')) = jH / (nH' * alphaH') := by ring
      rw [e1, e2]; exact h

/-- non-vacuity: the hypotheses of `h0_solves_balance` are satisfiable (typical H II region) -/
example : ∃ a j n : ℝ, 0 < a ∧ 0 < j ∧ 0 < n ∧ j / (n * a) ≤ 4e10 :=
  ⟨4e-19, 1e-8, 1e8, by norm_num, by norm_num, by norm_num, by norm_num⟩

/-! ## metals -/

/-- every hypothesis of `metals_range`: non-negative numerators and positive denominators of
the twelve stage ratios (where Lean's `x/0 = 0` and IEEE's `x/0 = inf/NaN` agree) -/
structure MetalHyp (m : MetalIn ℝ) : Prop where
  jCp1 : 0 ≤ m.jCp1
  jCp2 : 0 ≤ m.jCp2
  jNn : 0 ≤ m.jNn
  jNp1 : 0 ≤ m.jNp1
  jNp2 : 0 ≤ m.jNp2
  jOn : 0 ≤ m.jOn
  jOp1 : 0 ≤ m.jOp1
  jNen : 0 ≤ m.jNen
  jNep1 : 0 ≤ m.jNep1
  jSp1 : 0 ≤ m.jSp1
  jSp2 : 0 ≤ m.jSp2
  jSp3 : 0 ≤ m.jSp3
  nhp : 0 ≤ m.nhp
  iNnH : 0 ≤ m.iNnH
  iOnH : 0 ≤ m.iOnH
  dC21 : 0 < m.ne * m.aCp1
  dC32 : 0 < m.ne * m.aCp2 + m.nh0 * m.rCp2H + m.nhe0 * m.rCp2He
  dN21 : 0 < m.ne * m.aNn + m.nh0 * m.rNnH
  dN32 : 0 < m.ne * m.aNp1 + m.nh0 * m.rNp1H + m.nhe0 * m.rNp1He
  dN43 : 0 < m.ne * m.aNp2 + m.nh0 * m.rNp2H + m.nhe0 * m.rNp2He
  dO21 : 0 < m.ne * m.aOn + m.nh0 * m.rOnH
  dO32 : 0 < m.ne * m.aOp1 + m.nh0 * m.rOp1H + m.nhe0 * m.rOp1He
  dNe21 : 0 < m.ne * m.aNen
  dNe32 : 0 < m.ne * m.aNep1 + m.nh0 * m.rNep1H + m.nhe0 * m.rNep1He
  dS21 : 0 < m.ne * m.aSp1 + m.nh0 * m.rSp1H
  dS32 : 0 < m.ne * m.aSp2 + m.nh0 * m.rSp2H + m.nhe0 * m.rSp2He
  dS43 : 0 < m.ne * m.aSp3 + m.nh0 * m.rSp3H + m.nhe0 * m.rSp3He

/-- Given non-negative intensities / charge-transfer ionization and positive denominators,
every ionic fraction computed by `compute_ionization_states_metals` lies in `[0,1]` and the
tracked stages of each element sum to at most 1. -/
theorem metals_range (m : MetalIn ℝ) (h : MetalHyp m) : (metalFractions m).ok := by
  unfold MetalOut.ok metalFractions carbon nitrogen oxygen neon sulphur
  refine ⟨chain2_ok _ _ ?_ ?_, chain3_ok _ _ _ ?_ ?_ ?_, chain2_ok _ _ ?_ ?_, chain2_ok _ _ ?_ ?_,
    chain3_ok _ _ _ ?_ ?_ ?_⟩
  · exact ratio1_nonneg _ _ _ h.jCp1 h.dC21
  · exact ratio3_nonneg _ _ _ _ _ _ _ h.jCp2 h.dC32
  · exact ratioCT_nonneg _ _ _ _ _ _ _ h.jNn h.nhp h.iNnH h.dN21
  · exact ratio3_nonneg _ _ _ _ _ _ _ h.jNp1 h.dN32
  · exact ratio3_nonneg _ _ _ _ _ _ _ h.jNp2 h.dN43
  · exact ratioCT_nonneg _ _ _ _ _ _ _ h.jOn h.nhp h.iOnH h.dO21
  · exact ratio3_nonneg _ _ _ _ _ _ _ h.jOp1 h.dO32
  · exact ratio1_nonneg _ _ _ h.jNen h.dNe21
  · exact ratio3_nonneg _ _ _ _ _ _ _ h.jNep1 h.dNe32
  · exact ratio2_nonneg _ _ _ _ _ h.jSp1 h.dS21
  · exact ratio3_nonneg _ _ _ _ _ _ _ h.jSp2 h.dS32
  · exact ratio3_nonneg _ _ _ _ _ _ _ h.jSp3 h.dS43

/-- what the callers supply: non-negative intensities, densities and charge-transfer rates,
free electrons (`ne > 0`) and positive radiative recombination rates -/
structure RatesHyp (m : MetalIn ℝ) : Prop where
  j : 0 ≤ m.jCp1 ∧ 0 ≤ m.jCp2 ∧ 0 ≤ m.jNn ∧ 0 ≤ m.jNp1 ∧ 0 ≤ m.jNp2 ∧ 0 ≤ m.jOn ∧ 0 ≤ m.jOp1 ∧
    0 ≤ m.jNen ∧ 0 ≤ m.jNep1 ∧ 0 ≤ m.jSp1 ∧ 0 ≤ m.jSp2 ∧ 0 ≤ m.jSp3
  a : 0 < m.aCp1 ∧ 0 < m.aCp2 ∧ 0 < m.aNn ∧ 0 < m.aNp1 ∧ 0 < m.aNp2 ∧ 0 < m.aOn ∧ 0 < m.aOp1 ∧
    0 < m.aNen ∧ 0 < m.aNep1 ∧ 0 < m.aSp1 ∧ 0 < m.aSp2 ∧ 0 < m.aSp3
  ct : 0 ≤ m.rCp2H ∧ 0 ≤ m.rCp2He ∧ 0 ≤ m.iNnH ∧ 0 ≤ m.rNnH ∧ 0 ≤ m.rNp1H ∧ 0 ≤ m.rNp1He ∧
    0 ≤ m.rNp2H ∧ 0 ≤ m.rNp2He ∧ 0 ≤ m.iOnH ∧ 0 ≤ m.rOnH ∧ 0 ≤ m.rOp1H ∧ 0 ≤ m.rOp1He ∧
    0 ≤ m.rNep1H ∧ 0 ≤ m.rNep1He ∧ 0 ≤ m.rSp1H ∧ 0 ≤ m.rSp2H ∧ 0 ≤ m.rSp2He ∧ 0 ≤ m.rSp3H ∧
    0 ≤ m.rSp3He

theorem metalHyp_of_rates (m : MetalIn ℝ) (h : RatesHyp m) (hne : 0 < m.ne) (hnh0 : 0 ≤ m.nh0)
    (hnhe0 : 0 ≤ m.nhe0) (hnhp : 0 ≤ m.nhp) : MetalHyp m := by
  obtain ⟨j1, j2, j3, j4, j5, j6, j7, j8, j9, j10, j11, j12⟩ := h.j
  obtain ⟨a1, a2, a3, a4, a5, a6, a7, a8, a9, a10, a11, a12⟩ := h.a
  obtain ⟨c1, c2, c3, c4, c5, c6, c7, c8, c9, c10, c11, c12, c13, c14, c15, c16, c17, c18, c19⟩ :=
    h.ct
  have p := fun (x : ℝ) (hx : 0 < x) => mul_pos hne hx
  have q := fun (x : ℝ) (hx : 0 ≤ x) => mul_nonneg hnh0 hx
  have r := fun (x : ℝ) (hx : 0 ≤ x) => mul_nonneg hnhe0 hx
  exact
    { jCp1 := j1, jCp2 := j2, jNn := j3, jNp1 := j4, jNp2 := j5, jOn := j6, jOp1 := j7, jNen := j8,
      jNep1 := j9, jSp1 := j10, jSp2 := j11, jSp3 := j12, nhp := hnhp, iNnH := c3, iOnH := c9,
      dC21 := p _ a1
      dC32 := by have := p _ a2; have := q _ c1; have := r _ c2; linarith
      dN21 := by have := p _ a3; have := q _ c4; linarith
      dN32 := by have := p _ a4; have := q _ c5; have := r _ c6; linarith
      dN43 := by have := p _ a5; have := q _ c7; have := r _ c8; linarith
      dO21 := by have := p _ a6; have := q _ c10; linarith
      dO32 := by have := p _ a7; have := q _ c11; have := r _ c12; linarith
      dNe21 := p _ a8
      dNe32 := by have := p _ a9; have := q _ c13; have := r _ c14; linarith
      dS21 := by have := p _ a10; have := q _ c15; linarith
      dS32 := by have := p _ a11; have := q _ c16; have := r _ c17; linarith
      dS43 := by have := p _ a12; have := q _ c18; have := r _ c19; linarith }

/-- `metals_range` from the hypotheses the callers can check -/
theorem metals_range_of_rates (m : MetalIn ℝ) (h : RatesHyp m) (hne : 0 < m.ne)
    (hnh0 : 0 ≤ m.nh0) (hnhe0 : 0 ≤ m.nhe0) (hnhp : 0 ≤ m.nhp) : (metalFractions m).ok :=
  metals_range m (metalHyp_of_rates m h hne hnh0 hnhe0 hnhp)

private theorem constMetals_ok : (constMetals (0.0:ℝ) 1.0 1.0 1.0 0.0).ok := by
  unfold MetalOut.ok constMetals Frac2.ok Frac3.ok
  norm_num

/-- The metals of one cell of `calculate_ionization_state` (with the `ne > 0` guard): for
neutral fractions in `[0,1]`, non-negative density and He abundance and physical rates the
result is physical — no hypothesis on the electron density is left. -/
theorem cell_metals_range (m : MetalIn ℝ) (h : RatesHyp m) (ntot aHe h0 he0 : ℝ)
    (hn : 0 ≤ ntot) (hA : 0 ≤ aHe) (hh0 : 0 ≤ h0 ∧ h0 ≤ 1) (hhe0 : 0 ≤ he0 ∧ he0 ≤ 1) :
    (cellMetals m ntot aHe h0 he0).ok := by
  unfold cellMetals
  simp only []
  split_ifs with hne
  · have hr : RatesHyp (withDensities m ntot aHe h0 he0) := ⟨h.j, h.a, h.ct⟩
    apply metals_range_of_rates _ hr
    · norm_num at hne; exact hne
    · show 0 ≤ ntot * h0; exact mul_nonneg hn hh0.1
    · show 0 ≤ ntot * he0 * aHe; exact mul_nonneg (mul_nonneg hn hhe0.1) hA
    · show 0 ≤ ntot * (1.0 - h0)
      apply mul_nonneg hn; norm_num; exact hh0.2
  · exact constMetals_ok

/-- non-vacuity of `MetalHyp` -/
example : ∃ m : MetalIn ℝ, MetalHyp m := by
  refine ⟨⟨1, 1, 1, 1, 1, 1, 1, 1, 1, 1, 1, 1, 1, 1, 1, 1, 1, 1, 1, 1, 1, 1, 1, 1, 1, 1, 1, 1, 1, 1,
    1, 1, 1, 1, 1, 1, 1, 1, 1, 1, 1, 1, 1, 1, 1, 1, 1⟩, ?_⟩
  constructor <;> norm_num

/-! ## one body of the H/He fixed-point iteration -/

/-- If the previous iterates satisfy `0 < h0 < 1`, `he0 ≤ 1`, the coefficients are non-negative
and the effective hydrogen coefficient `ch` of this body (line 741) is non-negative — the
hypothesis the proof forces — then the new iterates lie in `[0,1]`, with or without the
averaging applied after 10 iterations.

PARTIAL: nothing is proved about `ch ≥ 0` for the shipped tables, about convergence within 20
iterations, or therefore about the absence of the `cmac_error`; these are searched. -/
theorem hHe_iterate_range_partial (c : HHeCoef ℝ) (niter : Nat) (s : HHeState ℝ)
    (hche : 0 ≤ c.che) (hA : 0 ≤ c.aHe) (hh : 0 < s.h0 ∧ s.h0 < 1) (hhe : s.he0 ≤ 1)
    (hch : 0 ≤ chIter c s) :
    (0 ≤ (hHeIterate c niter s).h0 ∧ (hHeIterate c niter s).h0 ≤ 1) ∧
    (0 ≤ (hHeIterate c niter s).he0 ∧ (hHeIterate c niter s).he0 ≤ 1) :=
  hHeIterate_range c niter s hche hA hh hhe hch

/-- The whole solve under a CHECKED premise.  `offDom` is computed by the model itself (and so by
the bit-identical `Float` run on every generated case): it is `false` iff every executed loop body
started with `0 < h0old < 1` and `ch ≥ 0`, the hypotheses of `hHe_iterate_range_partial`.  Whenever
the flag is `false` the result of `compute_ionization_states_hydrogen_helium` — converged or not —
lies in `[0,1]²`, for all non-negative rates, density and abundance and every temperature.
(The check reports how often the flag is raised inside the stated domain: 0.)

PARTIAL in what it leaves open: that the flag stays `false` for the shipped tables on the whole
domain, and that the loop exits before the 21st body, remain searched. -/
theorem hHe_solve_range_checked (alphaH alphaHe jH jHe nH aHe T : ℝ) (h1 : 0 ≤ alphaH)
    (h2 : 0 ≤ alphaHe) (h3 : 0 ≤ nH) (h4 : 0 ≤ aHe)
    (hoff : (hHeSolve alphaH alphaHe jH jHe nH aHe T).offDom = false) :
    (0 ≤ (hHeSolve alphaH alphaHe jH jHe nH aHe T).h0 ∧
      (hHeSolve alphaH alphaHe jH jHe nH aHe T).h0 ≤ 1) ∧
    (0 ≤ (hHeSolve alphaH alphaHe jH jHe nH aHe T).he0 ∧
      (hHeSolve alphaH alphaHe jH jHe nH aHe T).he0 ≤ 1) := by
  unfold hHeSolve at hoff ⊢
  split_ifs at hoff ⊢ with hj
  · norm_num
  · have hj0 : 0 ≤ jH := by
      have : (1.0e-20:ℝ) ≤ jH := not_lt.mp hj
      exact le_trans (by norm_num) this
    obtain ⟨c1, c2, c3⟩ := hHeCoef_nonneg alphaH alphaHe jH jHe nH aHe T h1 h2 h3 hj0
    have hi := hHeInit_range _ c1
    exact hHeLoop_range _ c2 (by rw [c3]; exact h4) 20 0 false _ hi.1 hi.2 hoff

/-- non-vacuity: the shortcut `jH < 1e-20` never raises the flag -/
example : (hHeSolve (1:ℝ) 1 0 0 1 0.1 8000).offDom = false := by
  unfold hHeSolve; norm_num

/-- non-vacuity: a state and coefficients satisfying every hypothesis (`ch2 = 0`) -/
example : ∃ (c : HHeCoef ℝ) (s : HHeState ℝ), 0 ≤ c.che ∧ 0 ≤ c.aHe ∧ (0 < s.h0 ∧ s.h0 < 1) ∧
    s.he0 ≤ 1 ∧ 0 ≤ chIter c s := by
  refine ⟨⟨1, 0, 1, 0.1, 10000⟩, ⟨0.5, 0.5, 0.6, 0.6⟩, by norm_num, by norm_num, by norm_num,
    by norm_num, ?_⟩
  unfold chIter chOf
  norm_num

/-! ## temperature -/

/-- For EVERY balance function `bal` (heating, cooling and H/He fractions as arbitrary functions
of the temperature), every convergence tolerance and every iteration limit, a call of
`calculate_temperature` that returns leaves the cell at 500 K or between
`min(T_min_ionized, initial guess)` and 30000 K (initial guess = stored temperature if above
4000 K, else 8000 K; it only matters when no loop body runs), and at or above `T_min_ionized`
as soon as one loop body ran. -/
theorem temperature_range {M : Type} (bal : ℝ → ℝ → Bal ℝ M) (i : TempIn ℝ M)
    (htmin : i.tmin ≤ 30000) (hna : (temperatureCell bal i).abort = false) :
    (temperatureCell bal i).T = 500 ∨
    (min i.tmin (tempInit i.Told) ≤ (temperatureCell bal i).T ∧
      (temperatureCell bal i).T ≤ 30000) ∧
    ((temperatureCell bal i).niter ≥ 1 → i.tmin ≤ (temperatureCell bal i).T) := by
  unfold temperatureCell at hna ⊢
  simp only [] at hna ⊢
  split_ifs at hna ⊢ with h1 h2 h3
  · left; norm_num
  · left; norm_num
  · exact (tempMain_range _ i htmin).2

/-- as soon as one loop body has been executed: 500 K or `[T_min_ionized, 30000 K]` -/
theorem temperature_range_iterated {M : Type} (bal : ℝ → ℝ → Bal ℝ M) (i : TempIn ℝ M)
    (htmin : i.tmin ≤ 30000) (hna : (temperatureCell bal i).abort = false)
    (hit : (temperatureCell bal i).niter ≥ 1) :
    (temperatureCell bal i).T = 500 ∨
    (i.tmin ≤ (temperatureCell bal i).T ∧ (temperatureCell bal i).T ≤ 30000) := by
  rcases temperature_range bal i htmin hna with h | ⟨⟨_, h2⟩, h3⟩
  · exact Or.inl h
  · exact Or.inr ⟨h3 hit, h2⟩

/-- with a minimum ionized temperature of at most 4000 K (the default is 4000 K) the documented
bounds hold for every call, iterated or not -/
theorem temperature_range_default {M : Type} (bal : ℝ → ℝ → Bal ℝ M) (i : TempIn ℝ M)
    (htmin : i.tmin ≤ 4000) (hna : (temperatureCell bal i).abort = false) :
    (temperatureCell bal i).T = 500 ∨
    (i.tmin ≤ (temperatureCell bal i).T ∧ (temperatureCell bal i).T ≤ 30000) := by
  rcases temperature_range bal i (by linarith) hna with h | ⟨⟨h1, h2⟩, _⟩
  · exact Or.inl h
  · refine Or.inr ⟨?_, h2⟩
    have := tempInit_gt i.Told
    rwa [min_eq_left (by linarith)] at h1

/-- non-vacuity: a call that does not abort exists (no cosmic rays, so no H/He pre-solve) -/
example : ∃ (i : TempIn ℝ Unit), i.tmin ≤ 4000 ∧
    (temperatureCell (fun _ T => ⟨0.5, 0.5, T, 1, ()⟩) i).abort = false := by
  refine ⟨⟨1, 1, 1, 1, 8000, 0.1, 0, -1, 0.75, 0.001, 4000, 3, 1, 1, ()⟩, by norm_num, ?_⟩
  unfold temperatureCell
  simp only []
  have hcr : ¬ ((0.0:ℝ) < crfacEff (0:ℝ) (-1)) := by unfold crfacEff; norm_num
  simp only [crPre, hcr, if_false, false_and]
  split_ifs
  · rfl
  · exact absurd ‹False› id
  · exact (tempMain_range _ _ (by norm_num)).1

/-! ## the balance function and the state `calculate_temperature` leaves in the cell -/

/-- `std::max(loss, 0.)`, `std::max(gain, 0.)`: for EVERY input (also NaN-free garbage: zero or
negative densities, rates, any line cooling function) heating and cooling are non-negative. -/
theorem balance_nonneg (p : BalParams ℝ) (r : BalRates ℝ) (L : ℝ → ℝ → Abund ℝ → ℝ) (T : ℝ) :
    0 ≤ (balModel p r L T).bal.gain ∧ 0 ≤ (balModel p r L T).bal.loss := by
  unfold balModel
  simp only [amax_real]
  have e : (0.0:ℝ) = 0 := by norm_num
  rw [e]
  exact ⟨le_max_right _ _, le_max_right _ _⟩

/-- the abundances handed to the line cooling routine are non-negative and at most the element
abundance whenever the coolant fractions are physical -/
theorem abund_range (p : BalParams ℝ) (f : MetalOut ℝ) (hf : f.ok)
    (hC : 0 ≤ p.aC) (hN : 0 ≤ p.aN) (hO : 0 ≤ p.aO) (hNe : 0 ≤ p.aNe) (hS : 0 ≤ p.aS) :
    let a := abundOf p f
    (0 ≤ a.cII ∧ a.cII ≤ p.aC) ∧ (0 ≤ a.cIII ∧ a.cIII ≤ p.aC) ∧ (0 ≤ a.nI ∧ a.nI ≤ p.aN) ∧
    (0 ≤ a.nII ∧ a.nII ≤ p.aN) ∧ (0 ≤ a.nIII ∧ a.nIII ≤ p.aN) ∧ (0 ≤ a.oI ∧ a.oI ≤ p.aO) ∧
    (0 ≤ a.oII ∧ a.oII ≤ p.aO) ∧ (0 ≤ a.oIII ∧ a.oIII ≤ p.aO) ∧ (0 ≤ a.neII ∧ a.neII ≤ p.aNe) ∧
    (0 ≤ a.neIII ∧ a.neIII ≤ p.aNe) ∧ (0 ≤ a.sII ∧ a.sII ≤ p.aS) ∧ (0 ≤ a.sIII ∧ a.sIII ≤ p.aS) ∧
    (0 ≤ a.sIV ∧ a.sIV ≤ p.aS) := by
  obtain ⟨⟨c1, c2, c3, c4, c5⟩, ⟨n1, n2, n3, n4, n5, n6, n7⟩, ⟨o1, o2, o3, o4, o5⟩,
    ⟨e1, e2, e3, e4, e5⟩, ⟨s1, s2, s3, s4, s5, s6, s7⟩⟩ := hf
  have e : (1.0:ℝ) = 1 := by norm_num
  have k : ∀ A g : ℝ, 0 ≤ A → 0 ≤ g → g ≤ 1 → 0 ≤ A * g ∧ A * g ≤ A := fun A g hA h0 h1 =>
    ⟨mul_nonneg hA h0, by nlinarith⟩
  simp only [abundOf, e]
  refine ⟨k _ _ hC ?_ ?_, k _ _ hC c1 c2, k _ _ hN ?_ ?_, k _ _ hN n1 n2, k _ _ hN n3 n4,
    k _ _ hO ?_ ?_, k _ _ hO o1 o2, k _ _ hO o3 o4, k _ _ hNe e1 e2, k _ _ hNe e3 e4,
    k _ _ hS ?_ ?_, k _ _ hS s1 s2, k _ _ hS s3 s4⟩ <;> linarith

/-- The balance function returns a physical state whenever its H/He solve does: if the neutral
fractions returned by `compute_ionization_states_hydrogen_helium` at this temperature lie in
`[0,1]` (searched, not proved: see `hHe_iterate_range_partial`), the density is positive, the He
abundance non-negative and the rates physical, then either hydrogen is entirely neutral or all
coolant fractions are in `[0,1]` with stage sums ≤ 1 (the electron density is then positive,
which is what the unguarded call of the metal balance at lines 343-345 needs). -/
theorem balModel_ok (p : BalParams ℝ) (r : BalRates ℝ) (L : ℝ → ℝ → Abund ℝ → ℝ) (T : ℝ)
    (hn : 0 < p.n) (hA : 0 ≤ p.aHe) (hr : RatesHyp r.m)
    (hh : 0 ≤ (hHeSolve r.alphaH r.alphaHe p.jH p.jHe p.n p.aHe T).h0 ∧
      (hHeSolve r.alphaH r.alphaHe p.jH p.jHe p.n p.aHe T).h0 ≤ 1)
    (hhe : 0 ≤ (hHeSolve r.alphaH r.alphaHe p.jH p.jHe p.n p.aHe T).he0 ∧
      (hHeSolve r.alphaH r.alphaHe p.jH p.jHe p.n p.aHe T).he0 ≤ 1) :
    BalOK (balModel p r L T).bal := by
  set h0 := (hHeSolve r.alphaH r.alphaHe p.jH p.jHe p.n p.aHe T).h0 with hh0
  set he0 := (hHeSolve r.alphaH r.alphaHe p.jH p.jHe p.n p.aHe T).he0 with hhe0
  have e1 : (balModel p r L T).bal.h0 = h0 := rfl
  have e2 : (balModel p r L T).bal.he0 = he0 := rfl
  have e3 : (balModel p r L T).bal.met = metalFractions (withDensities r.m p.n p.aHe h0 he0) := rfl
  unfold BalOK
  rw [e1, e2, e3]
  refine ⟨hh, hhe, ?_⟩
  rcases eq_or_lt_of_le hh.2 with h1 | h1
  · exact Or.inl h1
  · right
    have hrm : RatesHyp (withDensities r.m p.n p.aHe h0 he0) := ⟨hr.j, hr.a, hr.ct⟩
    apply metals_range_of_rates _ hrm
    · show 0 < p.n * (1.0 - h0 + p.aHe * (1.0 - he0))
      apply mul_pos hn
      have : 0 ≤ p.aHe * (1.0 - he0) := mul_nonneg hA (by norm_num; exact hhe.2)
      norm_num at this ⊢; linarith
    · show 0 ≤ p.n * h0; exact mul_nonneg hn.le hh.1
    · show 0 ≤ p.n * he0 * p.aHe; exact mul_nonneg (mul_nonneg hn.le hhe.1) hA
    · show 0 ≤ p.n * (1.0 - h0)
      apply mul_nonneg hn.le; norm_num; exact hh.2

/-- the physical cell state after `calculate_temperature` -/
def OutOK (r : TempOut ℝ (MetalOut ℝ)) : Prop :=
  (0 ≤ r.h0 ∧ r.h0 ≤ 1) ∧ (0 ≤ r.he0 ∧ r.he0 ≤ 1) ∧ (r.metZero = false → r.met.ok)

/-- For EVERY balance function whose evaluations are physical (`BalOK`: fractions in `[0,1]`,
coolants physical unless hydrogen is entirely neutral), every tolerance, iteration limit and
previous cell content, a call of `calculate_temperature` that returns leaves H and He neutral
fractions in `[0,1]` and coolant fractions that are either reset to zero or physical (each in
`[0,1]`, stage sums ≤ 1) — through every special case, clamp and reset of lines 578-917. -/
theorem temperature_state_physical (bal : ℝ → ℝ → Bal ℝ (MetalOut ℝ))
    (hb : ∀ c T, BalOK (bal c T)) (i : TempIn ℝ (MetalOut ℝ))
    (hna : (temperatureCell bal i).abort = false) : OutOK (temperatureCell bal i) := by
  unfold temperatureCell at hna ⊢
  simp only [] at hna ⊢
  split_ifs at hna ⊢ with h1 h2 h3
  · unfold OutOK; norm_num
  · unfold OutOK; norm_num
  · unfold tempMain
    simp only []
    have hs0 : StateOK (⟨tempInit i.Told, 0.0, 0.0, 1.0, 0.0, i.met0⟩ : TState ℝ (MetalOut ℝ)) := by
      unfold StateOK; norm_num
    have hl := tempLoop_ok (bal (crfacEff i.crfac i.crcell)) (hb _) i.eps i.tmin i.maxit 0 _ hs0
    generalize (tempLoop (bal (crfacEff i.crfac i.crcell)) i.eps i.tmin i.maxit 0
      ⟨tempInit i.Told, 0.0, 0.0, 1.0, 0.0, i.met0⟩) = res at hl ⊢
    obtain ⟨a1, a2, a3⟩ := hl
    unfold tempFinish OutOK
    simp only []
    refine ⟨?_, ?_, ?_⟩
    · split_ifs <;> first | exact a1 | norm_num
    · split_ifs <;> first | exact a2 | norm_num
    · intro hz
      simp only [Bool.or_eq_false_iff, decide_eq_false_iff_not, feq_real] at hz
      obtain ⟨z1, z2⟩ := hz
      split_ifs at z1 z2 with hm
      · exact absurd (by norm_num : (1.0:ℝ) = 1.0) z1
      · rcases a3 with h | h | h
        · exact absurd (by rw [h]; norm_num) z1
        · exact absurd (by norm_num at h ⊢; exact h) z2
        · exact h

/-- The same for the MODELLED balance function (`balModel`: H/He solve, heating terms, metal
balance, abundances, free-free and recombination cooling; the line cooling routine `L` and the
rate tables `rates T` arbitrary): the only hypothesis left about the physics is that every H/He
solve the iteration performs returns fractions in `[0,1]` (`hsolve`; searched on the
implementation, not proved — the H/He fixed point has no convergence theorem). -/
theorem temperature_model_state_physical (p : BalParams ℝ) (rates : ℝ → BalRates ℝ)
    (L : ℝ → ℝ → Abund ℝ → ℝ) (i : TempIn ℝ (MetalOut ℝ))
    (hn : 0 < p.n) (hA : 0 ≤ p.aHe) (hr : ∀ T, RatesHyp (rates T).m)
    (hsolve : ∀ T, (0 ≤ (hHeSolve (rates T).alphaH (rates T).alphaHe p.jH p.jHe p.n p.aHe T).h0 ∧
        (hHeSolve (rates T).alphaH (rates T).alphaHe p.jH p.jHe p.n p.aHe T).h0 ≤ 1) ∧
      (0 ≤ (hHeSolve (rates T).alphaH (rates T).alphaHe p.jH p.jHe p.n p.aHe T).he0 ∧
        (hHeSolve (rates T).alphaH (rates T).alphaHe p.jH p.jHe p.n p.aHe T).he0 ≤ 1))
    (hna : (temperatureCell (fun c T => (balModel { p with crfac := c } (rates T) L T).bal) i).abort
      = false) :
    OutOK (temperatureCell (fun c T => (balModel { p with crfac := c } (rates T) L T).bal) i) := by
  apply temperature_state_physical _ _ i hna
  intro c T
  exact balModel_ok { p with crfac := c } (rates T) L T hn hA (hr T) (hsolve T).1 (hsolve T).2

/-- `temperature_model_state_physical` with the hypothesis on the H/He solves replaced by the
CHECKED premise: if none of the H/He solves the iteration can perform raises `offDom` (evaluated
by the `Float` run on every generated balance evaluation) and the recombination rates are
non-negative, the cell state after `calculate_temperature` is physical. -/
theorem temperature_model_state_checked (p : BalParams ℝ) (rates : ℝ → BalRates ℝ)
    (L : ℝ → ℝ → Abund ℝ → ℝ) (i : TempIn ℝ (MetalOut ℝ))
    (hn : 0 < p.n) (hA : 0 ≤ p.aHe) (hr : ∀ T, RatesHyp (rates T).m)
    (ha : ∀ T, 0 ≤ (rates T).alphaH ∧ 0 ≤ (rates T).alphaHe)
    (hoff : ∀ T, (hHeSolve (rates T).alphaH (rates T).alphaHe p.jH p.jHe p.n p.aHe T).offDom = false)
    (hna : (temperatureCell (fun c T => (balModel { p with crfac := c } (rates T) L T).bal) i).abort
      = false) :
    OutOK (temperatureCell (fun c T => (balModel { p with crfac := c } (rates T) L T).bal) i) :=
  temperature_model_state_physical p rates L i hn hA hr
    (fun T => hHe_solve_range_checked _ _ _ _ _ _ _ (ha T).1 (ha T).2 hn.le hA (hoff T)) hna

/-- non-vacuity of `BalOK` / `temperature_state_physical`: a physical balance function exists -/
example : ∃ bal : ℝ → ℝ → Bal ℝ (MetalOut ℝ), ∀ c T, BalOK (bal c T) :=
  ⟨fun _ _ => ⟨1, 1, 0, 0, constMetals 0 0 0 0 0⟩, fun _ _ => by unfold BalOK; norm_num⟩

/-! ## the glue: normalisation of the counters by the abundances -/

/-- A counter that received no photon stays exactly zero for EVERY abundance — including the
legal abundance 0 (and negative or tiny ones): the guarded division never produces `0/0`.
(With the unguarded `J * (1/A)` the IEEE value is `0 * inf = NaN`; Lean's `x/0 = 0` would hide
that, which is why the guard — and not the quotient — carries the statement.) -/
theorem normalise_zero_counter (A : ℝ) : normalise (0:ℝ) A = 0 := by
  unfold normalise; split_ifs <;> simp

/-- the division is only executed with a positive divisor, where IEEE and `ℝ` agree; the
normalised counter is non-negative for a non-negative counter -/
theorem normalise_nonneg (J A : ℝ) (hJ : 0 ≤ J) : 0 ≤ normalise J A ∧
    (¬ (0 < A) → normalise J A = J) := by
  unfold normalise
  constructor
  · split_ifs with h
    · norm_num at h; exact div_nonneg hJ h.le
    · exact hJ
  · intro h
    have : ¬ ((0.0:ℝ) < A) := by norm_num at h ⊢; exact h
    rw [if_neg this]

/-! ## the subgrid-level wrappers: luminosity, total weight and cell volume -/

/-- the cells of a subgrid fill its box: `nx ny nz` cells of volume `cellVolume` -/
theorem cellVolume_fill (sx sy sz nx ny nz : ℝ) (hx : nx ≠ 0) (hy : ny ≠ 0) (hz : nz ≠ 0) :
    nx * ny * nz * cellVolume sx sy sz nx ny nz = sx * sy * sz := by
  unfold cellVolume; field_simp

/-- The value handed to the kernel is `jfac · counter = L · counter / (totweight · V)`: the
photoionization rate per unit volume of THIS cell for the CURRENT luminosity. -/
theorem wrapper_rate (L tw V J : ℝ) (htw : tw ≠ 0) (hV : V ≠ 0) :
    jfacCell L tw V * J = L * J / (tw * V) ∧
    hfacCell L tw V = jfacCell L tw V * 6.626070040e-34 := by
  unfold jfacCell hfacCell hfacOf jfacOf
  constructor <;> field_simp

/-- After `update_luminosity(L)` both branches of `calculate_temperature(loop, totweight,
subgrid)` — the temperature branch and the ionization-only branch through the embedded
`IonizationStateCalculator` — normalise with the NEW luminosity, whatever was stored before. -/
theorem update_luminosity_sync (L : ℝ) (l : Lums ℝ) (doTemp : Bool) (loop minIter : Nat) :
    lumUsed doTemp loop minIter (updateLuminosity L l) = L := by
  unfold lumUsed updateLuminosity; split_ifs <;> rfl

/-- Hydrogen-only gas through the wrapper: the neutral fraction stored in a cell of volume
`V = cellVolume …` solves the balance equation for the rate `L J / (totweight V)` of the current
luminosity (square-root branch, `C ≤ 4e10`). -/
theorem wrapper_h0_balance (alphaH n L tw J sx sy sz nx ny nz : ℝ) (ha : 0 < alphaH) (hn : 0 < n)
    (hL : 0 < L) (htw : 0 < tw) (hJ : 0 < J) (hs : 0 < sx ∧ 0 < sy ∧ 0 < sz)
    (hc : 0 < nx ∧ 0 < ny ∧ 0 < nz)
    (hC : L * J / (tw * cellVolume sx sy sz nx ny nz) / (n * alphaH) ≤ 4e10) :
    let x := h0Hydrogen alphaH (jfacCell L tw (cellVolume sx sy sz nx ny nz) * J) n
    x ^ 2 - (2 + L * J / (tw * cellVolume sx sy sz nx ny nz) / (n * alphaH)) * x + 1 = 0 := by
  have hV : 0 < cellVolume sx sy sz nx ny nz := by
    unfold cellVolume
    obtain ⟨a1, a2, a3⟩ := hs
    obtain ⟨b1, b2, b3⟩ := hc
    positivity
  have e := (wrapper_rate L tw (cellVolume sx sy sz nx ny nz) J htw.ne' hV.ne').1
  have hj : 0 < jfacCell L tw (cellVolume sx sy sz nx ny nz) * J := by rw [e]; positivity
  have := (h0_solves_balance alphaH _ n ha hj hn (by rw [e]; exact hC)).2
  rw [e] at this ⊢
  exact this

/-- non-vacuity of `wrapper_h0_balance` (non-cubic cells) -/
example : ∃ alphaH n L tw J sx sy sz nx ny nz : ℝ, 0 < alphaH ∧ 0 < n ∧ 0 < L ∧ 0 < tw ∧ 0 < J ∧
    (0 < sx ∧ 0 < sy ∧ 0 < sz) ∧ (0 < nx ∧ 0 < ny ∧ 0 < nz) ∧
    L * J / (tw * cellVolume sx sy sz nx ny nz) / (n * alphaH) ≤ 4e10 :=
  ⟨1, 1, 1, 1, 1, 1, 2, 3, 1, 1, 1, by norm_num, by norm_num, by norm_num, by norm_num, by norm_num,
    by norm_num, by norm_num, by unfold cellVolume; norm_num⟩

/-! ## outputs depend on the inputs of the update only -/

/-- The model represents the coolant fractions stored in the cell before the call as the input
`met0` of `calculate_temperature`.  For every balance function and every pair of calls that
differ ONLY in these stored fractions, a call that returns produces the same temperature, the
same H/He fractions and the same coolant fractions (either reset to zero on both sides, or
the payload of the last balance evaluation on both sides): no branch leaves a stored fraction
behind.

For `calculate_ionization_state` (`ionCell`) the statement is trivial in the model — it is a
function of the inputs that constructs all 14 fractions on every branch and has no previous
state argument; that the C++ assigns every fraction on every branch rests on the
correspondence run (re-used cell vs fresh sentinel-filled cell, `…:depends-on-previous-state`). -/
theorem cell_output_independent_of_previous_state {M : Type} (bal : ℝ → ℝ → Bal ℝ M)
    (i : TempIn ℝ M) (m' : M) (hna : (temperatureCell bal i).abort = false) :
    let r := temperatureCell bal i
    let r' := temperatureCell bal { i with met0 := m' }
    r'.abort = false ∧ r.T = r'.T ∧ r.h0 = r'.h0 ∧ r.he0 = r'.he0 ∧ r.metZero = r'.metZero ∧
      (r.metZero = false → r.met = r'.met) := by
  unfold temperatureCell at hna ⊢
  simp only [] at hna ⊢
  have hpre : ∀ c a b, crPre { i with met0 := m' } c a b = crPre i c a b := by
    intro c a b; unfold crPre; rfl
  simp only [hpre]
  split_ifs at hna ⊢ with h1 h2 h3
  · simp
  · simp
  · -- the iteration
    unfold tempMain
    simp only []
    set b := bal (crfacEff i.crfac i.crcell) with hb
    set s : TState ℝ M := ⟨tempInit i.Told, 0.0, 0.0, 1.0, 0.0, i.met0⟩ with hs
    set s' : TState ℝ M := ⟨tempInit i.Told, 0.0, 0.0, 1.0, 0.0, m'⟩ with hs'
    have hsim : Sim s s' := ⟨rfl, rfl, rfl, rfl, rfl⟩
    obtain ⟨hk, hS, hEq⟩ := tempLoop_sim b i.eps i.tmin i.maxit 0 s s' hsim
    rcases tempLoop_inv' b i.eps i.tmin i.maxit 0 s with ⟨e1, e2⟩ | hpos
    · -- no body ran on either side: coolants reset on both
      have e1' : (tempLoop b i.eps i.tmin i.maxit 0 s').1 = s' := by
        have := tempLoop_inv' b i.eps i.tmin i.maxit 0 s'
        rcases this with ⟨a, _⟩ | a
        · exact a
        · rw [← hk, e2] at a; exact absurd a (lt_irrefl 0)
      have z := tempFinish_zero_h0 i s 0 rfl
      have z' := tempFinish_zero_h0 { i with met0 := m' } s' 0 rfl
      rw [← hk, e1, e2, e1']
      refine ⟨rfl, rfl, ?_, ?_, ?_, ?_⟩
      · unfold tempFinish; rfl
      · unfold tempFinish; rfl
      · rw [z, z']
      · intro hz; rw [z] at hz; exact absurd hz (by simp)
    · have heq := hEq hpos
      rw [← hk, ← heq]
      refine ⟨rfl, rfl, ?_, ?_, ?_, ?_⟩ <;> (unfold tempFinish; first | rfl | (intro _; rfl))

end CMacVerif.IonBalance
