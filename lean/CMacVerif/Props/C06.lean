import CMacVerif.Lemmas.IonBalance
/-!
# C06 — ionization and thermal balance return a physical state

Property theorems only, about `Model/IonBalance.lean` instantiated at `ℝ` (exact arithmetic;
`x / 0 = 0` and `√x = 0` for `x < 0` in Lean, so every theorem about a quotient or a root carries
the hypothesis under which this agrees with IEEE doubles; the check evaluates the real code at
the excluded points).

* hydrogen only: `h0_solves_balance`, `h0_taylor_residual`, `h0_range`, `h0_antitone_J`,
  `h0_monotone_nalpha` (+ the strict forms `…_strict_partial` and the refutation
  `h0_switch_not_antitone` of strict monotonicity across the Taylor switch);
* metals: `metals_range`, `metals_range_of_rates`, `cell_metals_range`;
* H/He: `hHe_iterate_range_partial` (one loop body; hypothesis `0 ≤ ch` forced by the proof);
  **convergence of the fixed point within 20 iterations (no `cmac_error`) is NOT a theorem** — it
  is searched on the implementation by the correspondence run;
* temperature: `temperature_range` for EVERY balance function, tolerance and iteration count,
  with the corollaries `temperature_range_iterated`, `temperature_range_default`.
-/
namespace CMacVerif.IonBalance
open CMacVerif

/-! ## hydrogen-only closed form -/

/-- For every input — including zero or negative rates, where the C++ produces `inf`/`-0` —
the returned neutral fraction lies between the floor and 1. -/
theorem h0_range (alphaH jH nH : ℝ) :
    1e-14 ≤ h0Hydrogen alphaH jH nH ∧ h0Hydrogen alphaH jH nH ≤ 1 := by
  by_cases h : 0 < jH ∧ 0 < nH
  · rw [h0Hydrogen_pos alphaH jH nH h.1 h.2]
    exact h0Core_range _
  · rw [h0Hydrogen_neutral alphaH jH nH h]; norm_num

/-- In the square-root branch (`bb ≥ 1e-10`, i.e. `C = jH/(nH alphaH) ≤ 4e10`) the result is
above the floor and solves the balance equation of the code's comment,
`x² − (2 + C) x + 1 = 0`, exactly. -/
theorem h0_solves_balance (alphaH jH nH : ℝ) (ha : 0 < alphaH) (hj : 0 < jH) (hn : 0 < nH)
    (hC : jH / (nH * alphaH) ≤ 4e10) :
    1e-14 < h0Hydrogen alphaH jH nH ∧
    h0Hydrogen alphaH jH nH ^ 2 - (2 + jH / (nH * alphaH)) * h0Hydrogen alphaH jH nH + 1 = 0 := by
  have hCpos : 0 < jH / (nH * alphaH) := by positivity
  have hbb := aa_bb alphaH jH nH ha hj hn
  have hnt : ¬ 2 / (0.5 * jH / (nH * alphaH)) < 1e-10 := by
    rw [hbb, not_lt, le_div_iff₀ hCpos]; linarith
  rw [h0Hydrogen_pos alphaH jH nH hj hn]
  obtain ⟨e, hx⟩ := h0Core_exact_eq _ hnt
  rw [e]
  refine ⟨hx, ?_⟩
  have := xOf_balance (2 / (0.5 * jH / (nH * alphaH))) (by positivity)
  rw [hbb] at this ⊢
  have e4 : 4 / (4 / (jH / (nH * alphaH))) = jH / (nH * alphaH) := by field_simp
  rw [e4] at this
  exact this

/-- In the Taylor branch (`C > 4e10`) the result is `max(1e-14, 1/C)`; above the floor the
balance equation holds up to `2/C < 0.5e-10` (the equation's constant term is 1). -/
theorem h0_taylor_residual (alphaH jH nH : ℝ) (ha : 0 < alphaH) (hj : 0 < jH) (hn : 0 < nH)
    (hC : 4e10 < jH / (nH * alphaH)) :
    h0Hydrogen alphaH jH nH = max 1e-14 (1 / (jH / (nH * alphaH))) ∧
    (1e-14 < h0Hydrogen alphaH jH nH →
      |h0Hydrogen alphaH jH nH ^ 2 - (2 + jH / (nH * alphaH)) * h0Hydrogen alphaH jH nH + 1|
        ≤ 0.5e-10) := by
  have hCpos : 0 < jH / (nH * alphaH) := by positivity
  have hbb := aa_bb alphaH jH nH ha hj hn
  have ht : 2 / (0.5 * jH / (nH * alphaH)) < 1e-10 := by
    rw [hbb, div_lt_iff₀ hCpos]; linarith
  rw [h0Hydrogen_pos alphaH jH nH hj hn, h0Core_taylor _ ht, hbb]
  have e : 0.25 * (4 / (jH / (nH * alphaH))) = 1 / (jH / (nH * alphaH)) := by
    field_simp; norm_num
  rw [e]
  refine ⟨rfl, ?_⟩
  intro hfl
  generalize jH / (nH * alphaH) = C at *
  have hx : max 1e-14 (1 / C) = 1 / C := by
    apply max_eq_right
    rcases le_total (1e-14 : ℝ) (1 / C) with h | h
    · exact h
    · rw [max_eq_left h] at hfl; exact absurd hfl (lt_irrefl _)
  rw [hx]
  have hCne : C ≠ 0 := ne_of_gt hCpos
  have hr : (1 / C) ^ 2 - (2 + C) * (1 / C) + 1 = (1 / C) ^ 2 - 2 * (1 / C) := by
    field_simp; ring
  rw [hr]
  have h1 : 0 < 1 / C := by positivity
  have h2 : 1 / C < 0.25e-10 := by
    rw [div_lt_iff₀ hCpos]; linarith
  rw [abs_le]
  constructor <;> nlinarith

/-- The neutral fraction decreases with the radiation field: for EVERY pair `jH ≤ jH'`
(including `jH = 0`) up to the relative jump `0.5e-10` that the code's switch to the Taylor
expansion at `C = 4e10` introduces (see `h0_switch_not_antitone`). -/
theorem h0_antitone_J (alphaH nH jH jH' : ℝ) (ha : 0 < alphaH) (hj : 0 ≤ jH) (hjj : jH ≤ jH') :
    h0Hydrogen alphaH jH' nH ≤ (1 + 0.5e-10) * h0Hydrogen alphaH jH nH := by
  have r1 := h0_range alphaH jH nH
  have r2 := h0_range alphaH jH' nH
  by_cases hn : 0 < nH
  · rcases eq_or_lt_of_le hj with h0 | hpos
    · rw [h0Hydrogen_neutral alphaH jH nH (by rw [← h0]; simp)]
      linarith [r2.2]
    · have hpos' : 0 < jH' := lt_of_lt_of_le hpos hjj
      rw [h0Hydrogen_pos alphaH jH nH hpos hn, h0Hydrogen_pos alphaH jH' nH hpos' hn]
      apply h0Core_antitone (by positivity)
      have : 0 < nH * alphaH := by positivity
      apply div_le_div_of_nonneg_right _ this.le
      linarith
  · rw [h0Hydrogen_neutral alphaH jH nH (fun h => hn h.2),
      h0Hydrogen_neutral alphaH jH' nH (fun h => hn h.2)]
    norm_num

/-- Strict antitonicity in `J`; the extra hypothesis excludes only pairs that straddle the
Taylor switch with `C' < C + 2` (`C = jH/(nH alphaH)`). -/
theorem h0_antitone_J_strict_partial (alphaH nH jH jH' : ℝ) (ha : 0 < alphaH) (hn : 0 < nH)
    (hj : 0 < jH) (hjj : jH ≤ jH')
    (hs : 4e10 < jH' / (nH * alphaH) →
      4e10 < jH / (nH * alphaH) ∨ jH / (nH * alphaH) + 2 ≤ jH' / (nH * alphaH)) :
    h0Hydrogen alphaH jH' nH ≤ h0Hydrogen alphaH jH nH := by
  have hpos' : 0 < jH' := lt_of_lt_of_le hj hjj
  have hna : 0 < nH * alphaH := by positivity
  rw [h0Hydrogen_pos alphaH jH nH hj hn, h0Hydrogen_pos alphaH jH' nH hpos' hn]
  have hC : 0 < jH / (nH * alphaH) := by positivity
  have hC' : 0 < jH' / (nH * alphaH) := by positivity
  apply h0Core_antitone_strict (by positivity)
  · apply div_le_div_of_nonneg_right _ hna.le; linarith
  · intro ht
    rw [aa_bb alphaH jH' nH ha hpos' hn, div_lt_iff₀ hC'] at ht
    rcases hs (by linarith) with h | h
    · left; rw [aa_bb alphaH jH nH ha hj hn, div_lt_iff₀ hC]; linarith
    · right
      have e1 : 2 * (0.5 * jH / (nH * alphaH)) = jH / (nH * alphaH) := by ring
      have e2 : 2 * (0.5 * jH' / (nH * alphaH)) = jH' / (nH * alphaH) := by ring
      rw [e1, e2]; exact h

/-- Strict monotonicity across the Taylor switch is FALSE for the code as written: with
`n α = 1`, going from `J = 4e10` (square-root branch) to `J = 4e10 + 1` (Taylor branch)
increases the neutral fraction (by a relative 5e-11). -/
theorem h0_switch_not_antitone :
    h0Hydrogen (1:ℝ) 4e10 1 < h0Hydrogen (1:ℝ) (4e10 + 1) 1 := by
  have hb := h0_solves_balance 1 4e10 1 (by norm_num) (by norm_num) (by norm_num) (by norm_num)
  have ht := (h0_taylor_residual 1 (4e10 + 1) 1 (by norm_num) (by norm_num) (by norm_num)
    (by norm_num)).1
  have hr := h0_range 1 4e10 1
  rw [ht]
  apply lt_of_lt_of_le _ (le_max_right _ _)
  set x := h0Hydrogen (1:ℝ) 4e10 1 with hx
  have e : (4e10 : ℝ) / (1 * 1) = 4e10 := by norm_num
  rw [e] at hb
  have e2 : (1:ℝ) / ((4e10 + 1) / (1 * 1)) = 1 / (4e10 + 1) := by norm_num
  rw [e2, lt_div_iff₀ (by norm_num)]
  -- x (2 + C) = 1 + x² > 1  and  x ≤ 1
  nlinarith [hb.2, hb.1, hr.2]

/-- The neutral fraction increases with density × recombination rate (same caveat). -/
theorem h0_monotone_nalpha (alphaH nH alphaH' nH' jH : ℝ) (ha : 0 < alphaH) (hn : 0 < nH)
    (ha' : 0 < alphaH') (hn' : 0 < nH') (hle : nH * alphaH ≤ nH' * alphaH') :
    h0Hydrogen alphaH jH nH ≤ (1 + 0.5e-10) * h0Hydrogen alphaH' jH nH' := by
  by_cases hj : 0 < jH
  · rw [h0Hydrogen_pos alphaH jH nH hj hn, h0Hydrogen_pos alphaH' jH nH' hj hn']
    apply h0Core_antitone (by positivity)
    exact div_le_div_of_nonneg_left (by positivity) (by positivity) hle
  · rw [h0Hydrogen_neutral alphaH jH nH (fun h => hj h.1),
      h0Hydrogen_neutral alphaH' jH nH' (fun h => hj h.1)]
    norm_num

/-- strict form, away from the Taylor switch -/
theorem h0_monotone_nalpha_strict_partial (alphaH nH alphaH' nH' jH : ℝ) (ha : 0 < alphaH)
    (hn : 0 < nH) (ha' : 0 < alphaH') (hn' : 0 < nH') (hj : 0 < jH)
    (hle : nH * alphaH ≤ nH' * alphaH')
    (hs : 4e10 < jH / (nH * alphaH) →
      4e10 < jH / (nH' * alphaH') ∨ jH / (nH' * alphaH') + 2 ≤ jH / (nH * alphaH)) :
    h0Hydrogen alphaH jH nH ≤ h0Hydrogen alphaH' jH nH' := by
  rw [h0Hydrogen_pos alphaH jH nH hj hn, h0Hydrogen_pos alphaH' jH nH' hj hn']
  have hC : 0 < jH / (nH * alphaH) := by positivity
  have hC' : 0 < jH / (nH' * alphaH') := by positivity
  apply h0Core_antitone_strict (by positivity)
  · exact div_le_div_of_nonneg_left (by positivity) (by positivity) hle
  · intro ht
    rw [aa_bb alphaH jH nH ha hj hn, div_lt_iff₀ hC] at ht
    rcases hs (by linarith) with h | h
    · left; rw [aa_bb alphaH' jH nH' ha' hj hn', div_lt_iff₀ hC']; linarith
    · right
      have e1 : 2 * (0.5 * jH / (nH * alphaH)) = jH / (nH * alphaH) := by ring
      have e2 : 2 * (0.5 * jH / (nH' * alphaH')) = jH / (nH' * alphaH') := by ring
      rw [e1, e2]; exact h

/-- non-vacuity: the hypotheses of `h0_solves_balance` are satisfiable (typical H II region) -/
example : ∃ a j n : ℝ, 0 < a ∧ 0 < j ∧ 0 < n ∧ j / (n * a) ≤ 4e10 :=
  ⟨4e-19, 1e-8, 1e8, by norm_num, by norm_num, by norm_num, by norm_num⟩

/-! ## metals -/

/-- every hypothesis of `metals_range`: non-negative numerators and positive denominators of
the twelve stage ratios (where Lean's `x/0 = 0` and IEEE's `x/0 = inf/NaN` agree) -/
structure MetalHyp (m : MetalIn ℝ) : Prop where
  jCp1 : 0 ≤ m.jCp1
  jCp2 : 0 ≤ m.jCp2
  jNn : 0 ≤ m.jNn
  jNp1 : 0 ≤ m.jNp1
  jNp2 : 0 ≤ m.jNp2
  jOn : 0 ≤ m.jOn
  jOp1 : 0 ≤ m.jOp1
  jNen : 0 ≤ m.jNen
  jNep1 : 0 ≤ m.jNep1
  jSp1 : 0 ≤ m.jSp1
  jSp2 : 0 ≤ m.jSp2
  jSp3 : 0 ≤ m.jSp3
  nhp : 0 ≤ m.nhp
  iNnH : 0 ≤ m.iNnH
  iOnH : 0 ≤ m.iOnH
  dC21 : 0 < m.ne * m.aCp1
  dC32 : 0 < m.ne * m.aCp2 + m.nh0 * m.rCp2H + m.nhe0 * m.rCp2He
  dN21 : 0 < m.ne * m.aNn + m.nh0 * m.rNnH
  dN32 : 0 < m.ne * m.aNp1 + m.nh0 * m.rNp1H + m.nhe0 * m.rNp1He
  dN43 : 0 < m.ne * m.aNp2 + m.nh0 * m.rNp2H + m.nhe0 * m.rNp2He
  dO21 : 0 < m.ne * m.aOn + m.nh0 * m.rOnH
  dO32 : 0 < m.ne * m.aOp1 + m.nh0 * m.rOp1H + m.nhe0 * m.rOp1He
  dNe21 : 0 < m.ne * m.aNen
  dNe32 : 0 < m.ne * m.aNep1 + m.nh0 * m.rNep1H + m.nhe0 * m.rNep1He
  dS21 : 0 < m.ne * m.aSp1 + m.nh0 * m.rSp1H
  dS32 : 0 < m.ne * m.aSp2 + m.nh0 * m.rSp2H + m.nhe0 * m.rSp2He
  dS43 : 0 < m.ne * m.aSp3 + m.nh0 * m.rSp3H + m.nhe0 * m.rSp3He

/-- physical metal state: every fraction in `[0,1]`, tracked stages of one element sum to ≤ 1 -/
def MetalOut.ok (o : MetalOut ℝ) : Prop := o.c.ok ∧ o.n.ok ∧ o.o.ok ∧ o.ne.ok ∧ o.s.ok

/-- Given non-negative intensities / charge-transfer ionization and positive denominators,
every ionic fraction computed by `compute_ionization_states_metals` lies in `[0,1]` and the
tracked stages of each element sum to at most 1. -/
theorem metals_range (m : MetalIn ℝ) (h : MetalHyp m) : (metalFractions m).ok := by
  unfold MetalOut.ok metalFractions carbon nitrogen oxygen neon sulphur
  refine ⟨chain2_ok _ _ ?_ ?_, chain3_ok _ _ _ ?_ ?_ ?_, chain2_ok _ _ ?_ ?_, chain2_ok _ _ ?_ ?_,
    chain3_ok _ _ _ ?_ ?_ ?_⟩
  · exact ratio1_nonneg _ _ _ h.jCp1 h.dC21
  · exact ratio3_nonneg _ _ _ _ _ _ _ h.jCp2 h.dC32
  · exact ratioCT_nonneg _ _ _ _ _ _ _ h.jNn h.nhp h.iNnH h.dN21
  · exact ratio3_nonneg _ _ _ _ _ _ _ h.jNp1 h.dN32
  · exact ratio3_nonneg _ _ _ _ _ _ _ h.jNp2 h.dN43
  · exact ratioCT_nonneg _ _ _ _ _ _ _ h.jOn h.nhp h.iOnH h.dO21
  · exact ratio3_nonneg _ _ _ _ _ _ _ h.jOp1 h.dO32
  · exact ratio1_nonneg _ _ _ h.jNen h.dNe21
  · exact ratio3_nonneg _ _ _ _ _ _ _ h.jNep1 h.dNe32
  · exact ratio2_nonneg _ _ _ _ _ h.jSp1 h.dS21
  · exact ratio3_nonneg _ _ _ _ _ _ _ h.jSp2 h.dS32
  · exact ratio3_nonneg _ _ _ _ _ _ _ h.jSp3 h.dS43

/-- what the callers supply: non-negative intensities, densities and charge-transfer rates,
free electrons (`ne > 0`) and positive radiative recombination rates -/
structure RatesHyp (m : MetalIn ℝ) : Prop where
  j : 0 ≤ m.jCp1 ∧ 0 ≤ m.jCp2 ∧ 0 ≤ m.jNn ∧ 0 ≤ m.jNp1 ∧ 0 ≤ m.jNp2 ∧ 0 ≤ m.jOn ∧ 0 ≤ m.jOp1 ∧
    0 ≤ m.jNen ∧ 0 ≤ m.jNep1 ∧ 0 ≤ m.jSp1 ∧ 0 ≤ m.jSp2 ∧ 0 ≤ m.jSp3
  a : 0 < m.aCp1 ∧ 0 < m.aCp2 ∧ 0 < m.aNn ∧ 0 < m.aNp1 ∧ 0 < m.aNp2 ∧ 0 < m.aOn ∧ 0 < m.aOp1 ∧
    0 < m.aNen ∧ 0 < m.aNep1 ∧ 0 < m.aSp1 ∧ 0 < m.aSp2 ∧ 0 < m.aSp3
  ct : 0 ≤ m.rCp2H ∧ 0 ≤ m.rCp2He ∧ 0 ≤ m.iNnH ∧ 0 ≤ m.rNnH ∧ 0 ≤ m.rNp1H ∧ 0 ≤ m.rNp1He ∧
    0 ≤ m.rNp2H ∧ 0 ≤ m.rNp2He ∧ 0 ≤ m.iOnH ∧ 0 ≤ m.rOnH ∧ 0 ≤ m.rOp1H ∧ 0 ≤ m.rOp1He ∧
    0 ≤ m.rNep1H ∧ 0 ≤ m.rNep1He ∧ 0 ≤ m.rSp1H ∧ 0 ≤ m.rSp2H ∧ 0 ≤ m.rSp2He ∧ 0 ≤ m.rSp3H ∧
    0 ≤ m.rSp3He

theorem metalHyp_of_rates (m : MetalIn ℝ) (h : RatesHyp m) (hne : 0 < m.ne) (hnh0 : 0 ≤ m.nh0)
    (hnhe0 : 0 ≤ m.nhe0) (hnhp : 0 ≤ m.nhp) : MetalHyp m := by
  obtain ⟨j1, j2, j3, j4, j5, j6, j7, j8, j9, j10, j11, j12⟩ := h.j
  obtain ⟨a1, a2, a3, a4, a5, a6, a7, a8, a9, a10, a11, a12⟩ := h.a
  obtain ⟨c1, c2, c3, c4, c5, c6, c7, c8, c9, c10, c11, c12, c13, c14, c15, c16, c17, c18, c19⟩ :=
    h.ct
  have p := fun (x : ℝ) (hx : 0 < x) => mul_pos hne hx
  have q := fun (x : ℝ) (hx : 0 ≤ x) => mul_nonneg hnh0 hx
  have r := fun (x : ℝ) (hx : 0 ≤ x) => mul_nonneg hnhe0 hx
  exact
    { jCp1 := j1, jCp2 := j2, jNn := j3, jNp1 := j4, jNp2 := j5, jOn := j6, jOp1 := j7, jNen := j8,
      jNep1 := j9, jSp1 := j10, jSp2 := j11, jSp3 := j12, nhp := hnhp, iNnH := c3, iOnH := c9,
      dC21 := p _ a1
      dC32 := by have := p _ a2; have := q _ c1; have := r _ c2; linarith
      dN21 := by have := p _ a3; have := q _ c4; linarith
      dN32 := by have := p _ a4; have := q _ c5; have := r _ c6; linarith
      dN43 := by have := p _ a5; have := q _ c7; have := r _ c8; linarith
      dO21 := by have := p _ a6; have := q _ c10; linarith
      dO32 := by have := p _ a7; have := q _ c11; have := r _ c12; linarith
      dNe21 := p _ a8
      dNe32 := by have := p _ a9; have := q _ c13; have := r _ c14; linarith
      dS21 := by have := p _ a10; have := q _ c15; linarith
      dS32 := by have := p _ a11; have := q _ c16; have := r _ c17; linarith
      dS43 := by have := p _ a12; have := q _ c18; have := r _ c19; linarith }

/-- `metals_range` from the hypotheses the callers can check -/
theorem metals_range_of_rates (m : MetalIn ℝ) (h : RatesHyp m) (hne : 0 < m.ne)
    (hnh0 : 0 ≤ m.nh0) (hnhe0 : 0 ≤ m.nhe0) (hnhp : 0 ≤ m.nhp) : (metalFractions m).ok :=
  metals_range m (metalHyp_of_rates m h hne hnh0 hnhe0 hnhp)

private theorem constMetals_ok : (constMetals (0.0:ℝ) 1.0 1.0 1.0 0.0).ok := by
  unfold MetalOut.ok constMetals Frac2.ok Frac3.ok
  norm_num

/-- The metals of one cell of `calculate_ionization_state` (with the `ne > 0` guard): for
neutral fractions in `[0,1]`, non-negative density and He abundance and physical rates the
result is physical — no hypothesis on the electron density is left. -/
theorem cell_metals_range (m : MetalIn ℝ) (h : RatesHyp m) (ntot aHe h0 he0 : ℝ)
    (hn : 0 ≤ ntot) (hA : 0 ≤ aHe) (hh0 : 0 ≤ h0 ∧ h0 ≤ 1) (hhe0 : 0 ≤ he0 ∧ he0 ≤ 1) :
    (cellMetals m ntot aHe h0 he0).ok := by
  unfold cellMetals
  simp only []
  split_ifs with hne
  · have hr : RatesHyp (withDensities m ntot aHe h0 he0) := ⟨h.j, h.a, h.ct⟩
    apply metals_range_of_rates _ hr
    · norm_num at hne; exact hne
    · show 0 ≤ ntot * h0; exact mul_nonneg hn hh0.1
    · show 0 ≤ ntot * he0 * aHe; exact mul_nonneg (mul_nonneg hn hhe0.1) hA
    · show 0 ≤ ntot * (1.0 - h0)
      apply mul_nonneg hn; norm_num; exact hh0.2
  · exact constMetals_ok

/-- non-vacuity of `MetalHyp` -/
example : ∃ m : MetalIn ℝ, MetalHyp m := by
  refine ⟨⟨1, 1, 1, 1, 1, 1, 1, 1, 1, 1, 1, 1, 1, 1, 1, 1, 1, 1, 1, 1, 1, 1, 1, 1, 1, 1, 1, 1, 1, 1,
    1, 1, 1, 1, 1, 1, 1, 1, 1, 1, 1, 1, 1, 1, 1, 1, 1⟩, ?_⟩
  constructor <;> norm_num

/-! ## one body of the H/He fixed-point iteration -/

/-- If the previous iterates satisfy `0 < h0 < 1`, `he0 ≤ 1`, the coefficients are non-negative
and the effective hydrogen coefficient `ch` of this body (line 741) is non-negative — the
hypothesis the proof forces — then the new iterates lie in `[0,1]`, with or without the
averaging applied after 10 iterations.

PARTIAL: nothing is proved about `ch ≥ 0` for the shipped tables, about convergence within 20
iterations, or therefore about the absence of the `cmac_error`; these are searched. -/
theorem hHe_iterate_range_partial (c : HHeCoef ℝ) (niter : Nat) (s : HHeState ℝ)
    (hche : 0 ≤ c.che) (hA : 0 ≤ c.aHe) (hh : 0 < s.h0 ∧ s.h0 < 1) (hhe : s.he0 ≤ 1)
    (hch : 0 ≤ chIter c s) :
    (0 ≤ (hHeIterate c niter s).h0 ∧ (hHeIterate c niter s).h0 ≤ 1) ∧
    (0 ≤ (hHeIterate c niter s).he0 ∧ (hHeIterate c niter s).he0 ≤ 1) := by
  have he := heNew_range c.che c.aHe s.h0 hche hA hh.2.le
  have hh' := hNew_range (chIter c s) c.aHe (heNew c.che c.aHe s.h0) hch hA he.2
  have hold : 0 ≤ he0oldOf s.he0 ∧ he0oldOf s.he0 ≤ 1 := by
    unfold he0oldOf
    split_ifs with h
    · norm_num at h; exact ⟨h.le, hhe⟩
    · norm_num
  unfold hHeIterate
  simp only []
  split_ifs with hn
  · simp only []
    norm_num
    refine ⟨⟨?_, ?_⟩, ⟨?_, ?_⟩⟩ <;> linarith [hh.1, hh.2, he.1, he.2, hh'.1, hh'.2, hold.1, hold.2]
  · exact ⟨hh', he⟩

/-- non-vacuity: a state and coefficients satisfying every hypothesis (`ch2 = 0`) -/
example : ∃ (c : HHeCoef ℝ) (s : HHeState ℝ), 0 ≤ c.che ∧ 0 ≤ c.aHe ∧ (0 < s.h0 ∧ s.h0 < 1) ∧
    s.he0 ≤ 1 ∧ 0 ≤ chIter c s := by
  refine ⟨⟨1, 0, 1, 0.1, 10000⟩, ⟨0.5, 0.5, 0.6, 0.6⟩, by norm_num, by norm_num, by norm_num,
    by norm_num, ?_⟩
  unfold chIter chOf
  norm_num

/-! ## temperature -/

/-- For EVERY balance function `bal` (heating, cooling and H/He fractions as arbitrary functions
of the temperature), every convergence tolerance and every iteration limit, a call of
`calculate_temperature` that returns leaves the cell at 500 K or between
`min(T_min_ionized, initial guess)` and 30000 K (initial guess = stored temperature if above
4000 K, else 8000 K; it only matters when no loop body runs), and at or above `T_min_ionized`
as soon as one loop body ran. -/
theorem temperature_range {M : Type} (bal : ℝ → ℝ → Bal ℝ M) (i : TempIn ℝ M)
    (htmin : i.tmin ≤ 30000) (hna : (temperatureCell bal i).abort = false) :
    (temperatureCell bal i).T = 500 ∨
    (min i.tmin (tempInit i.Told) ≤ (temperatureCell bal i).T ∧
      (temperatureCell bal i).T ≤ 30000) ∧
    ((temperatureCell bal i).niter ≥ 1 → i.tmin ≤ (temperatureCell bal i).T) := by
  unfold temperatureCell at hna ⊢
  simp only [] at hna ⊢
  split_ifs at hna ⊢ with h1 h2 h3
  · left; norm_num
  · left; norm_num
  · exact (tempMain_range _ i htmin).2

/-- as soon as one loop body has been executed: 500 K or `[T_min_ionized, 30000 K]` -/
theorem temperature_range_iterated {M : Type} (bal : ℝ → ℝ → Bal ℝ M) (i : TempIn ℝ M)
    (htmin : i.tmin ≤ 30000) (hna : (temperatureCell bal i).abort = false)
    (hit : (temperatureCell bal i).niter ≥ 1) :
    (temperatureCell bal i).T = 500 ∨
    (i.tmin ≤ (temperatureCell bal i).T ∧ (temperatureCell bal i).T ≤ 30000) := by
  rcases temperature_range bal i htmin hna with h | ⟨⟨_, h2⟩, h3⟩
  · exact Or.inl h
  · exact Or.inr ⟨h3 hit, h2⟩

/-- with a minimum ionized temperature of at most 4000 K (the default is 4000 K) the documented
bounds hold for every call, iterated or not -/
theorem temperature_range_default {M : Type} (bal : ℝ → ℝ → Bal ℝ M) (i : TempIn ℝ M)
    (htmin : i.tmin ≤ 4000) (hna : (temperatureCell bal i).abort = false) :
    (temperatureCell bal i).T = 500 ∨
    (i.tmin ≤ (temperatureCell bal i).T ∧ (temperatureCell bal i).T ≤ 30000) := by
  rcases temperature_range bal i (by linarith) hna with h | ⟨⟨h1, h2⟩, _⟩
  · exact Or.inl h
  · refine Or.inr ⟨?_, h2⟩
    have := tempInit_gt i.Told
    rwa [min_eq_left (by linarith)] at h1

/-- non-vacuity: a call that does not abort exists (no cosmic rays, so no H/He pre-solve) -/
example : ∃ (i : TempIn ℝ Unit), i.tmin ≤ 4000 ∧
    (temperatureCell (fun _ T => ⟨0.5, 0.5, T, 1, ()⟩) i).abort = false := by
  refine ⟨⟨1, 1, 1, 1, 8000, 0.1, 0, -1, 0.75, 0.001, 4000, 3, 1, 1, ()⟩, by norm_num, ?_⟩
  unfold temperatureCell
  simp only []
  have hcr : ¬ ((0.0:ℝ) < crfacEff (0:ℝ) (-1)) := by unfold crfacEff; norm_num
  simp only [crPre, hcr, if_false, false_and]
  split_ifs
  · rfl
  · exact absurd ‹False› id
  · exact (tempMain_range _ _ (by norm_num)).1

/-! ## outputs depend on the inputs of the update only -/

/-- The model represents the coolant fractions stored in the cell before the call as the input
`met0` of `calculate_temperature`.  For every balance function and every pair of calls that
differ ONLY in these stored fractions, a call that returns produces the same temperature, the
same H/He fractions and the same coolant fractions (either reset to zero on both sides, or
the payload of the last balance evaluation on both sides): no branch leaves a stored fraction
behind.

For `calculate_ionization_state` (`ionCell`) the statement is trivial in the model — it is a
function of the inputs that constructs all 14 fractions on every branch and has no previous
state argument; that the C++ assigns every fraction on every branch rests on the
correspondence run (re-used cell vs fresh sentinel-filled cell, `…:depends-on-previous-state`). -/
theorem cell_output_independent_of_previous_state {M : Type} (bal : ℝ → ℝ → Bal ℝ M)
    (i : TempIn ℝ M) (m' : M) (hna : (temperatureCell bal i).abort = false) :
    let r := temperatureCell bal i
    let r' := temperatureCell bal { i with met0 := m' }
    r'.abort = false ∧ r.T = r'.T ∧ r.h0 = r'.h0 ∧ r.he0 = r'.he0 ∧ r.metZero = r'.metZero ∧
      (r.metZero = false → r.met = r'.met) := by
  unfold temperatureCell at hna ⊢
  simp only [] at hna ⊢
  have hpre : ∀ c a b, crPre { i with met0 := m' } c a b = crPre i c a b := by
    intro c a b; unfold crPre; rfl
  simp only [hpre]
  split_ifs at hna ⊢ with h1 h2 h3
  · simp
  · simp
  · -- the iteration
    unfold tempMain
    simp only []
    set b := bal (crfacEff i.crfac i.crcell) with hb
    set s : TState ℝ M := ⟨tempInit i.Told, 0.0, 0.0, 1.0, 0.0, i.met0⟩ with hs
    set s' : TState ℝ M := ⟨tempInit i.Told, 0.0, 0.0, 1.0, 0.0, m'⟩ with hs'
    have hsim : Sim s s' := ⟨rfl, rfl, rfl, rfl, rfl⟩
    obtain ⟨hk, hS, hEq⟩ := tempLoop_sim b i.eps i.tmin i.maxit 0 s s' hsim
    rcases tempLoop_inv' b i.eps i.tmin i.maxit 0 s with ⟨e1, e2⟩ | hpos
    · -- no body ran on either side: coolants reset on both
      have e1' : (tempLoop b i.eps i.tmin i.maxit 0 s').1 = s' := by
        have := tempLoop_inv' b i.eps i.tmin i.maxit 0 s'
        rcases this with ⟨a, _⟩ | a
        · exact a
        · rw [← hk, e2] at a; exact absurd a (lt_irrefl 0)
      have z := tempFinish_zero_h0 i s 0 rfl
      have z' := tempFinish_zero_h0 { i with met0 := m' } s' 0 rfl
      rw [← hk, e1, e2, e1']
      refine ⟨rfl, rfl, ?_, ?_, ?_, ?_⟩
      · unfold tempFinish; rfl
      · unfold tempFinish; rfl
      · rw [z, z']
      · intro hz; rw [z] at hz; exact absurd hz (by simp)
    · have heq := hEq hpos
      rw [← hk, ← heq]
      refine ⟨rfl, rfl, ?_, ?_, ?_, ?_⟩ <;> (unfold tempFinish; first | rfl | (intro _; rfl))

end CMacVerif.IonBalance
