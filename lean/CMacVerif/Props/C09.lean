import CMacVerif.Lemmas.RestartCodec
import CMacVerif.Gen.RestartSchemas
import CMacVerif.Lemmas.HydroStep
/-!
# C09 — a run stopped and restarted continues exactly (partial)

Model: `CMacVerif/Model/RestartCodec.lean` (byte-level writer/reader of `RestartWriter.hpp` /
`RestartReader.hpp`, schemas with data-dependent loops), `CMacVerif/Gen/RestartSchemas.lean`
(regenerated from the source on every run: per restartable class what `write_restart_file` writes and
what the restart constructor reads; the not-stored members of the hydro subgrid with the expression
each constructor gives them; the limiter reset loops).

What is proved: the codec round trip for EVERY schema and value, equality of the write and read
schema of every class (generated, `decide`), syntactic identity of the recomputed members,
the reset of the one not-stored per-cell array at the end of every step, and that these facts give
an identical continuation for any deterministic step function.  What is NOT proved (validated by the
stop/restart experiments of the check): that stored + derived + transient fields are everything a step
reads, i.e. the `step` function of `continuation_identical_partial` is abstract.
-/
namespace CMacVerif.RestartCodec
open CMacVerif.Gen.RestartSchemas

/-! ## 1. the codec -/

theorem decodeIts_encodeIts (body : Sch) (env : Env)
    (ih : ∀ (v : Val) (tail : Bytes), conf body env v = true → decode body env (encode body v ++ tail) = some (v, tail))
    (n : Nat) (its : Val) (tail : Bytes) (h : confIts (conf body env) n its = true) :
    decodeIts (decode body env) n (encodeIts (encode body) its ++ tail) = some (its, tail) := by
  induction n generalizing its tail with
  | zero => cases its <;> simp_all [confIts, decodeIts, encodeIts]
  | succ n ihn =>
    cases its <;> simp only [confIts, Bool.false_eq_true] at h
    case cons one more =>
      simp only [Bool.and_eq_true] at h
      simp only [decodeIts, encodeIts, List.append_assoc, ih one _ h.1, ihn more tail h.2]

/-- **Reading back what was written gives the written state, and consumes exactly the written
bytes** — for every schema (every nesting of data-dependent loops, conditionals, factories), every
value the writer can hold, whatever follows in the file.  The reader evaluates its loop counts from
what it has read so far. -/
theorem codec_roundtrip (s : Sch) (env : Env) (v : Val) (tail : Bytes) (h : conf s env v = true) :
    decode s env (encode s v ++ tail) = some (v, tail) := by
  induction s generalizing env v tail with
  | done => cases v <;> simp_all [conf, decode, encode]
  | prim p rest ih =>
    cases v <;> simp only [conf, Bool.false_eq_true] at h
    case prim pv vr =>
      simp only [Bool.and_eq_true] at h
      simp only [decode, encode, List.append_assoc, decodePV_encodePV p pv _ h.1, ih _ vr tail h.2]
  | rep c body rest ihb ihr =>
    cases v <;> simp only [conf, Bool.false_eq_true] at h
    case rep its vr =>
      simp only [Bool.and_eq_true] at h
      simp only [decode, encode, List.append_assoc,
        decodeIts_encodeIts body env (fun v t hv => ihb env v t hv) _ its _ h.1, ihr env vr tail h.2]

/-- the statement in the form of DESIGN §6: `decode s (encode s v) = some (v, [])` -/
theorem codec_roundtrip_exact (s : Sch) (env : Env) (v : Val) (h : conf s env v = true) :
    decode s env (encode s v) = some (v, []) := by
  have := codec_roundtrip s env v [] h
  simpa using this

/-- write → read → write gives identical bytes -/
theorem write_read_write (s : Sch) (env : Env) (v : Val) (h : conf s env v = true) :
    ∃ v', decode s env (encode s v) = some (v', []) ∧ encode s v' = encode s v :=
  ⟨v, codec_roundtrip_exact s env v h, rfl⟩

/-- non-vacuity: a schema with a data-dependent loop (count = product of two earlier integers, as in
`DensitySubGrid`), a conditional (`if (has_output)`) and a tagged alternative; a conforming value -/
def exSch : Sch :=
  .prim (.int 8) <| .prim (.int 4) <| .prim .f64 <| .rep (.mul (.var 1) (.var 0)) (.prim .f64 .done) <|
  .prim .bool <| .rep (.var 0) (.prim .str .done) <| .prim .str <| .rep (.tagIs 0 [65]) (.prim (.raw 2) .done) <|
  .prim .smap .done
def exVal : Val :=
  .prim (.nat 2) <| .prim (.nat 1) <| .prim (.nat 4607182418800017408) <|
  .rep (.cons (.prim (.nat 7) .done) (.cons (.prim (.nat 9) .done) .nil)) <|
  .prim (.nat 1) <| .rep (.cons (.prim (.bytes [104, 105]) .done) .nil) <| .prim (.bytes [65]) <|
  .rep (.cons (.prim (.bytes [1, 2]) .done) .nil) <| .prim (.smap [([97], [1]), ([97, 98], []), ([98], [2, 3])]) .done
example : conf exSch {} exVal = true := by decide
example : (encode exSch exVal).length = 8 + 4 + 8 + 16 + 1 + 10 + 9 + 2 + 8 + (9 + 9) + (10 + 8) + (9 + 10) := by decide
example : decode exSch {} (encode exSch exVal) = some (exVal, []) := codec_roundtrip_exact _ _ _ (by decide)

/-- the conditions of `conf` are needed: a string with an embedded NUL does not survive the reader's
`char*` (DESIGN: noted, the round trip is stated for NUL-free strings) -/
example : decode (.prim .str .done) {} (encode (.prim .str .done) (.prim (.bytes [65, 0, 66]) .done))
    = some (.prim (.bytes [65]) .done, []) := by decide

/-! ## 2. generated: write schema = read schema for every restartable class -/

def schemaPairOk (e : String × Sch × Sch) : Bool := decide (e.2.1 = e.2.2)

/-- **For each restartable class, each factory and the top-level dump of `do_simulation`, the list
of items written equals the list of items read** (kinds, widths, order, loop structure and the
expressions that give the loop counts).  Regenerated from the source on every run. -/
theorem schemas_match : all.all schemaPairOk = true := by decide

theorem schemas_match' (e : String × Sch × Sch) (he : e ∈ all) : e.2.1 = e.2.2 := by
  have h := schemas_match
  rw [List.all_eq_true] at h
  have := h e he
  simpa [schemaPairOk] using this

/-- hence the restart constructor of every class reads back exactly what its `write_restart_file`
wrote (for every state of the object and every content of the rest of the file) -/
theorem generated_roundtrip (e : String × Sch × Sch) (he : e ∈ all) (env : Env) (v : Val) (tail : Bytes)
    (h : conf e.2.1 env v = true) : decode e.2.2 env (encode e.2.1 v ++ tail) = some (v, tail) := by
  rw [← schemas_match' e he]
  exact codec_roundtrip _ env v tail h

example : all.length ≥ 25 := by decide

/-! ## 3. generated: members that are not stored are recomputed by the same expression -/

def exprsStoredOnly (l : List (String × DExpr)) : Bool := l.all (fun e => e.2.storedOnly)

/-- **Every member of `DensitySubGrid` / `HydroDensitySubGrid` that is not in the restart file gets,
in the restart constructor, the SAME expression of stored members and literals as on the normal
construction path** (`_inv_cell_size` is stored since fix 72d698b).  A syntactic condition, sufficient
for bit-identity under any deterministic floating-point semantics (`derived_values_equal`). -/
theorem derived_same_expression :
    derivedCtor = derivedRestart ∧ exprsStoredOnly derivedCtor = true := by decide

/-- under ANY interpretation of literals, stored members and arithmetic the two constructors give the
not-stored members the same values -/
theorem derived_values_equal {α : Type} (litv : String → α) (fld : String → Nat → α) (oth : String → α)
    (neg : α → α) (add sub mul div : α → α → α) :
    derivedCtor.map (fun e => (e.1, e.2.eval litv fld oth neg add sub mul div))
      = derivedRestart.map (fun e => (e.1, e.2.eval litv fld oth neg add sub mul div)) := by
  rw [derived_same_expression.1]

/-- and the value does not depend on anything that is not stored -/
theorem storedOnly_eval {α : Type} (litv : String → α) (fld : String → Nat → α) (oth oth' : String → α)
    (neg : α → α) (add sub mul div : α → α → α) (e : DExpr) (h : e.storedOnly = true) :
    e.eval litv fld oth neg add sub mul div = e.eval litv fld oth' neg add sub mul div := by
  induction e with
  | lit s => rfl
  | field n i => rfl
  | other s => simp [DExpr.storedOnly] at h
  | neg a ih => simp only [DExpr.storedOnly] at h; simp [DExpr.eval, ih h]
  | add a b iha ihb => simp only [DExpr.storedOnly, Bool.and_eq_true] at h; simp [DExpr.eval, iha h.1, ihb h.2]
  | sub a b iha ihb => simp only [DExpr.storedOnly, Bool.and_eq_true] at h; simp [DExpr.eval, iha h.1, ihb h.2]
  | mul a b iha ihb => simp only [DExpr.storedOnly, Bool.and_eq_true] at h; simp [DExpr.eval, iha h.1, ihb h.2]
  | div a b iha ihb => simp only [DExpr.storedOnly, Bool.and_eq_true] at h; simp [DExpr.eval, iha h.1, ihb h.2]

example : derivedCtor.length ≥ 5 := by decide

/-! ## 4. transient fields: the limiter array has its constructor value at every dump point -/

/-- the loops found in the source have the shape the hand model `limCtor` / `resetCell` mirrors
(`a[2i] = DBL_MAX, a[2i+1] = -DBL_MAX` for `i < 5n` in both constructors;
`a[10i+2j] = DBL_MAX, a[10i+2j+1] = -DBL_MAX` for `i < n, j < 5` in `update_conserved_variables`) -/
theorem limiter_sites_as_modelled :
    limiters_ctor = [⟨2, 0, 0, 5, 1, .lit "DBL_MAX"⟩, ⟨2, 0, 1, 5, 1, .neg (.lit "DBL_MAX")⟩] ∧
    limiters_restart = limiters_ctor ∧
    limiters_step = [⟨10, 2, 0, 1, 5, .lit "DBL_MAX"⟩, ⟨10, 2, 1, 1, 5, .neg (.lit "DBL_MAX")⟩] := by decide

/-- index `idx` is hit by the assignment `a` in a subgrid of `n` cells -/
def AffAssign.hits (a : AffAssign) (n idx : Nat) : Prop :=
  ∃ i j, i < a.ni * n ∧ j < a.nj ∧ a.ci * i + a.cj * j + a.c0 = idx

/-- the constructor loops write `+DBL_MAX` exactly to the even and `-DBL_MAX` exactly to the odd
indices below `10 n`, and so do the loops of the last sweep of a step: the generated loop nests denote
the array `limCtor` -/
theorem limiter_loops_denote (n idx : Nat) :
    (AffAssign.hits ⟨2, 0, 0, 5, 1, .lit "DBL_MAX"⟩ n idx ↔ idx < 10 * n ∧ idx % 2 = 0) ∧
    (AffAssign.hits ⟨2, 0, 1, 5, 1, .neg (.lit "DBL_MAX")⟩ n idx ↔ idx < 10 * n ∧ idx % 2 = 1) ∧
    (AffAssign.hits ⟨10, 2, 0, 1, 5, .lit "DBL_MAX"⟩ n idx ↔ idx < 10 * n ∧ idx % 2 = 0) ∧
    (AffAssign.hits ⟨10, 2, 1, 1, 5, .neg (.lit "DBL_MAX")⟩ n idx ↔ idx < 10 * n ∧ idx % 2 = 1) := by
  refine ⟨⟨?_, ?_⟩, ⟨?_, ?_⟩, ⟨?_, ?_⟩, ⟨?_, ?_⟩⟩
  · rintro ⟨i, j, hi, hj, h⟩; simp only at hi hj h; omega
  · rintro ⟨h1, h2⟩; exact ⟨idx / 2, 0, by simp only; omega, by simp only; omega, by simp only; omega⟩
  · rintro ⟨i, j, hi, hj, h⟩; simp only at hi hj h; omega
  · rintro ⟨h1, h2⟩; exact ⟨idx / 2, 0, by simp only; omega, by simp only; omega, by simp only; omega⟩
  · rintro ⟨i, j, hi, hj, h⟩; simp only at hi hj h; omega
  · rintro ⟨h1, h2⟩; exact ⟨idx / 10, idx % 10 / 2, by simp only; omega, by simp only; omega, by simp only; omega⟩
  · rintro ⟨i, j, hi, hj, h⟩; simp only at hi hj h; omega
  · rintro ⟨h1, h2⟩; exact ⟨idx / 10, idx % 10 / 2, by simp only; omega, by simp only; omega, by simp only; omega⟩

theorem limRun_no_gradient (n : Nat) (a : Nat → Lim) (post : List LimOp)
    (hpost : ∀ o ∈ post, isGradient o = false) (idx : Nat) (h : idx < 10 * n) (ha : ∀ i, i < 10 * n → a i = limCtor i) :
    limRun n a post idx = limCtor idx := by
  induction post generalizing a with
  | nil => exact ha idx h
  | cons o post ih =>
    have ho := hpost o (by simp)
    have hrest : ∀ o' ∈ post, isGradient o' = false := fun o' h' => hpost o' (by simp [h'])
    simp only [limRun, List.foldl_cons] at ih ⊢
    apply ih _ hrest
    intro i hi
    cases o <;> simp only [isGradient, Bool.true_eq_false] at ho <;> simp only [limStep] <;> try exact ha i hi
    rw [resetCells_spec]; simp [hi]

/-- **At every dump point (end of a step) the not-stored limiter array of a subgrid has exactly the
value the restart constructor gives it**: whatever the gradient sweeps of the step (and of all earlier
steps) wrote, once `update_conserved_variables` has run and no gradient sweep follows it in the step
(the task graph of C07 orders every gradient sweep of a subgrid before its update), every entry is
`+DBL_MAX` (even index) / `-DBL_MAX` (odd index). -/
theorem transient_fields_reset (n : Nat) (a : Nat → Lim) (pre post : List LimOp)
    (hpost : ∀ o ∈ post, isGradient o = false) (idx : Nat) (h : idx < 10 * n) :
    limRun n a (pre ++ [LimOp.updateConserved] ++ post) idx = limCtor idx := by
  simp only [limRun, List.foldl_append, List.foldl_cons, List.foldl_nil]
  apply limRun_no_gradient n _ post hpost idx h
  intro i hi
  simp only [limStep]
  rw [resetCells_spec]; simp [hi]

/-- non-vacuity: a step in task order; the hypothesis cannot be dropped (a gradient sweep after the
update leaves other values) -/
example (f : Nat → Lim) : limRun 3 (fun _ => .val 5)
    [.gradientSweep f, .slopeLimit, .predict, .fluxSweep, .updateConserved, .updatePrimitives] 7 = .nmax :=
  transient_fields_reset 3 _ [.gradientSweep f, .slopeLimit, .predict, .fluxSweep] [.updatePrimitives] (by simp [isGradient]) 7 (by omega)
example : limRun 1 (fun _ => .pmax) [.updateConserved, .gradientSweep (fun _ => .val 1)] 0 ≠ limCtor 0 := by
  simp [limRun, limStep, limCtor]

/-! ## 5. identical continuation (partial: the step function is abstract) -/

/-- the invariant of the states at dump points: derived members are the derivation of the stored
ones, transient members have their constructor value -/
def AtDumpPoint {σ δ τ : Type} (D : σ → δ) (T0 : τ) (s : Sim σ δ τ) : Prop :=
  s.derived = D s.stored ∧ s.transient = T0

/-- **Stop after any step, restart, continue: the same states as the uninterrupted run.**
Given (1) the reader returns the stored part the writer wrote (`codec_roundtrip` + `schemas_match`),
(2) the restart constructor derives the not-stored members by the function `D` that also holds in the
running program (`derived_same_expression`), (3) every other member has the value `T0` at every dump
point and the restart constructor sets `T0` (`transient_fields_reset`): for every deterministic step
function that preserves (2) and (3) and every number `n` of further steps. -/
theorem continuation_identical_partial {σ δ τ : Type} (step : Sim σ δ τ → Sim σ δ τ) (D : σ → δ) (T0 : τ)
    (dump : σ → Bytes) (read : Bytes → Option σ)
    (hcodec : ∀ x, read (dump x) = some x)
    (s : Sim σ δ τ) (hs : AtDumpPoint D T0 s) (n : Nat) :
    (read (dump s.stored)).map (fun x => run step n ⟨x, D x, T0⟩) = some (run step n s) := by
  obtain ⟨h1, h2⟩ := hs
  rw [hcodec]
  cases s with
  | mk st de tr =>
    simp only at h1 h2
    subst h1 h2
    rfl

theorem run_add {S : Type} (step : S → S) (a b : Nat) (s : S) : run step (a + b) s = run step b (run step a s) := by
  induction a generalizing s with
  | zero => simp [run]
  | succ a ih => rw [Nat.succ_add]; simp only [run]; exact ih (step s)

theorem atDumpPoint_run {σ δ τ : Type} (step : Sim σ δ τ → Sim σ δ τ) (D : σ → δ) (T0 : τ)
    (hstep : ∀ s, AtDumpPoint D T0 s → AtDumpPoint D T0 (step s)) (s : Sim σ δ τ) (hs : AtDumpPoint D T0 s) (k : Nat) :
    AtDumpPoint D T0 (run step k s) := by
  induction k generalizing s with
  | zero => exact hs
  | succ k ih => exact ih (step s) (hstep s hs)

/-- one stop/restart cycle: run `k` steps, dump, read the dump into a fresh process -/
def cycle {σ δ τ : Type} (step : Sim σ δ τ → Sim σ δ τ) (D : σ → δ) (T0 : τ) (dump : σ → Bytes) (read : Bytes → Option σ)
    (k : Nat) (s : Sim σ δ τ) : Option (Sim σ δ τ) :=
  (read (dump (run step k s).stored)).map (fun x => ⟨x, D x, T0⟩)

/-- a chain of stop/restart cycles of lengths `ks` -/
def chain {σ δ τ : Type} (step : Sim σ δ τ → Sim σ δ τ) (D : σ → δ) (T0 : τ) (dump : σ → Bytes) (read : Bytes → Option σ) :
    List Nat → Sim σ δ τ → Option (Sim σ δ τ)
  | [], s => some s
  | k :: ks, s => match cycle step D T0 dump read k s with
    | none => none
    | some s' => chain step D T0 dump read ks s'

/-- **Every chain of repeated stop/restart cycles** (stop after `k₁` steps, restart, stop after `k₂`
more, …) ends in the state of the uninterrupted run after `k₁ + k₂ + …` steps. -/
theorem chain_identical_partial {σ δ τ : Type} (step : Sim σ δ τ → Sim σ δ τ) (D : σ → δ) (T0 : τ)
    (dump : σ → Bytes) (read : Bytes → Option σ)
    (hcodec : ∀ x, read (dump x) = some x)
    (hstep : ∀ s, AtDumpPoint D T0 s → AtDumpPoint D T0 (step s))
    (ks : List Nat) (s : Sim σ δ τ) (hs : AtDumpPoint D T0 s) :
    chain step D T0 dump read ks s = some (run step ks.sum s) := by
  induction ks generalizing s with
  | nil => simp [chain, run]
  | cons k ks ih =>
    have hk := atDumpPoint_run step D T0 hstep s hs k
    have hc : cycle step D T0 dump read k s = some (run step k s) := by
      have := continuation_identical_partial step D T0 dump read hcodec (run step k s) hk 0
      simpa [cycle, run] using this
    simp only [chain, hc, List.sum_cons]
    rw [ih (run step k s) hk, run_add]

/-- the codec of this file satisfies hypothesis (1) for every schema whose write and read side agree -/
theorem codec_gives_hcodec (s : Sch) (env : Env) (v : Val) (h : conf s env v = true) :
    (decode s env (encode s v)).map (·.1) = some v := by
  rw [codec_roundtrip_exact s env v h]; rfl

/-- non-vacuity of the abstract theorem: a step that recomputes the derived part and resets the transient one -/
def exStep (s : Sim Nat Nat Nat) : Sim Nat Nat Nat :=
  ⟨s.stored + s.derived + s.transient, 2 * (s.stored + s.derived + s.transient), 0⟩
example : chain exStep (fun x => 2 * x) 0 (fun x => [x]) List.head? [2, 0, 3] ⟨1, 2, 0⟩
    = some (run exStep [2, 0, 3].sum ⟨1, 2, 0⟩) :=
  chain_identical_partial exStep (fun x => 2 * x) 0 (fun x => [x]) List.head? (fun _ => rfl)
    (fun _ _ => ⟨rfl, rfl⟩) [2, 0, 3] ⟨1, 2, 0⟩ ⟨rfl, rfl⟩

/-! ## 6. every data member is classified (generated), and what that buys

`members` lists EVERY data member of every restartable class (taken from the class definitions, not from
the restart functions) and every variable of `do_simulation` that lives across time steps.  A member
that is neither written, nor recomputed, nor reset, nor rebuilt from the stored parameter file, nor
excluded by the property statement is `unclassified`; the theorem below then fails to compile and the
check names the member. -/

set_option maxRecDepth 20000 in
/-- **No member of a restartable class and no loop-carried variable of the simulation is left out.** -/
theorem all_members_classified : members.all (fun m => decide (m.kind ≠ MKind.unclassified)) = true := by decide

set_option maxRecDepth 20000 in
example : members.length ≥ 200 := by decide
set_option maxRecDepth 20000 in
example : (members.filter (fun m => m.kind = .derived)).length ≥ 5 := by decide
set_option maxRecDepth 20000 in
example : (members.filter (fun m => m.kind = .transient)).length ≥ 5 := by decide

/-- kind of the member with number `i` in the generated table (beyond the table: not claimed) -/
def genKind (i : Nat) : MKind := match members[i]? with
  | some m => m.kind
  | none => .excluded

/-- in the generated table "the restart claims the member" means exactly "not excluded by the property" -/
theorem generated_claimed_iff (i : Nat) : (genKind i).claimed = true ↔ genKind i ≠ .excluded := by
  have h : ∀ m ∈ members, m.kind ≠ .unclassified := by
    intro m hm
    have := (List.all_eq_true.mp all_members_classified) m hm
    simpa using this
  have hk : genKind i ≠ .unclassified := by
    unfold genKind
    cases hm : members[i]? with
    | none => simp
    | some m => exact h m (List.mem_of_getElem? hm)
  cases hg : genKind i <;> simp_all [MKind.claimed]

/-- the facts that hold at a dump point: derived members equal their expression of the stored members,
transient / rebuilt members have the value the constructors give them -/
structure AtDump {α : Type} (kind : Nat → MKind) (D : Nat → MState α → α) (T0 : MState α) (blank : α)
    (s : MState α) : Prop where
  derived : ∀ m, kind m = .derived → s m = D m (dumpView kind blank s)
  fixed : ∀ m, (kind m).fixed = true → s m = T0 m

/-- **The restart path rebuilds every claimed member**: from the dump alone (`dumpView` forgets everything
that is not in the file) the restart constructors produce, member by member, the dumped process state —
for every classification table, every member that is not excluded/unclassified. -/
theorem restore_dump_claimed {α : Type} (kind : Nat → MKind) (D : Nat → MState α → α) (T0 : MState α) (blank : α)
    (s : MState α) (h : AtDump kind D T0 blank s) (m : Nat) (hc : (kind m).claimed = true) :
    restoreView kind D T0 (dumpView kind blank s) m = s m := by
  unfold restoreView
  cases hk : kind m
  case derived => exact (h.derived m hk).symm
  case excluded => simp [hk, MKind.claimed] at hc
  case unclassified => simp [hk, MKind.claimed] at hc
  case transient => simpa [MKind.fromDump] using (h.fixed m (by simp [hk, MKind.fixed])).symm
  case rebuilt => simpa [MKind.fromDump] using (h.fixed m (by simp [hk, MKind.fixed])).symm
  all_goals simp [dumpView, hk, MKind.fromDump]

/-- two process states agree on every member the restart claims -/
def AgreeClaimed {α : Type} (kind : Nat → MKind) (s s' : MState α) : Prop :=
  ∀ m, (kind m).claimed = true → s m = s' m

theorem agree_run {α : Type} (kind : Nat → MKind) (step : MState α → MState α)
    (hindep : ∀ s s', AgreeClaimed kind s s' → AgreeClaimed kind (step s) (step s'))
    (n : Nat) (s s' : MState α) (h : AgreeClaimed kind s s') : AgreeClaimed kind (run step n s) (run step n s') := by
  induction n generalizing s s' with
  | zero => exact h
  | succ n ih => exact ih _ _ (hindep s s' h)

/-- **Continuation over the member table (partial).**  The state of a process is the valuation of ALL
members of the generated table (so "the model state covers everything a step reads" is no longer an
assumption about an abstract state: it is `all_members_classified` plus the completeness of the member
list extracted from the class definitions).  If a step does not let excluded members (wall-clock timers,
the re-seeded photon random stream, diagnostics) influence the others, then after a restart from the
dump of a dump-point state every later state agrees with the uninterrupted run on every claimed member.
Still partial: `step` is abstract and its independence of the excluded members is a hypothesis. -/
theorem continuation_identical_members_partial {α : Type} (kind : Nat → MKind) (D : Nat → MState α → α)
    (T0 : MState α) (blank : α) (step : MState α → MState α)
    (hindep : ∀ s s', AgreeClaimed kind s s' → AgreeClaimed kind (step s) (step s'))
    (s : MState α) (hs : AtDump kind D T0 blank s) (n : Nat) :
    AgreeClaimed kind (run step n (restoreView kind D T0 (dumpView kind blank s))) (run step n s) :=
  agree_run kind step hindep n _ _ (fun m hc => restore_dump_claimed kind D T0 blank s hs m hc)

/-- the same for the generated table: agreement on every member that the property does not exclude -/
theorem continuation_generated_partial {α : Type} (D : Nat → MState α → α) (T0 : MState α) (blank : α)
    (step : MState α → MState α)
    (hindep : ∀ s s', AgreeClaimed genKind s s' → AgreeClaimed genKind (step s) (step s'))
    (s : MState α) (hs : AtDump genKind D T0 blank s) (n : Nat) (i : Nat) (hi : genKind i ≠ .excluded) :
    run step n (restoreView genKind D T0 (dumpView genKind blank s)) i = run step n s i :=
  continuation_identical_members_partial genKind D T0 blank step hindep s hs n i ((generated_claimed_iff i).mpr hi)

/-- an unclassified member breaks it: the restart gives it the constructor value whatever it was -/
example : restoreView (fun _ => MKind.unclassified) (fun _ _ => 0) (fun _ => 7)
    (dumpView (fun _ => MKind.unclassified) 0 (fun _ => 5)) 0 ≠ (fun _ => 5 : MState Nat) 0 := by decide

/-- non-vacuity: a three-member state (stored, derived = 2·stored, transient = 0) and a step that keeps the invariant -/
example : AtDump (fun m => if m = 0 then MKind.stored else if m = 1 then .derived else .transient)
    (fun _ d => 2 * d 0) (fun _ => 0) 0 (fun m => if m = 0 then 3 else if m = 1 then 6 else 0) :=
  ⟨by intro m hm; by_cases h0 : m = 0 <;> by_cases h1 : m = 1 <;> simp_all [dumpView, MKind.fromDump],
   by intro m hm; by_cases h0 : m = 0 <;> by_cases h1 : m = 1 <;> simp_all [MKind.fixed]⟩

/-! ## 7. the continuation theorem for the MODELLED hydro step (no abstract step)

`HydroStep.hydroStep` (C04/C10's statement-by-statement model of one step of the whole grid over
`Grid (HV ℝ)`: gradient sweeps, slope limiter, prediction, flux sweeps, `update_conserved_variables`,
`set_primitive_variables`).  A cell `HV` holds what `HydroVariables::write_restart_file` stores
(`prim`, `cons`, `dcons`, `grad`, `acc`, `eterm`) and the limiter pair `lo`/`hi`, which lives in
`HydroDensitySubGrid::_primitive_variable_limiters` and is NOT stored. -/

namespace Hydro
open CMacVerif.HydroUpdate CMacVerif.HydroStep

/-- dump + restart of one cell: every stored field as it was (`codec_roundtrip` + `schemas_match`), the
limiters as the restart constructor sets them (`a[2i] = DBL_MAX, a[2i+1] = -DBL_MAX`, `dmax` = `DBL_MAX`) -/
def restoreCell (dmax : ℝ) (h : HV ℝ) : HV ℝ :=
  { h with lo := ⟨dmax, ⟨dmax, dmax, dmax⟩, dmax⟩, hi := ⟨-dmax, ⟨-dmax, -dmax, -dmax⟩, -dmax⟩ }

/-- dump + restart of the grid -/
def restoreGrid (dmax : ℝ) (s : Grid (HV ℝ)) : Grid (HV ℝ) := fun x => restoreCell dmax (s x)

/-- the stored fields are untouched by dump + restart, whatever the state -/
theorem restoreCell_stored (dmax : ℝ) (h : HV ℝ) :
    (restoreCell dmax h).prim = h.prim ∧ (restoreCell dmax h).cons = h.cons ∧ (restoreCell dmax h).dcons = h.dcons ∧
    (restoreCell dmax h).grad = h.grad ∧ (restoreCell dmax h).acc = h.acc ∧ (restoreCell dmax h).eterm = h.eterm :=
  ⟨rfl, rfl, rfl, rfl, rfl, rfl⟩

/-- **the state at the end of every modelled step is a fixed point of dump + restart**: whatever the
step did with the limiters (gradient sweeps over any list of calls, any flux function, limiter,
prediction), `update_conserved_variables` leaves exactly the restart constructor's values -/
theorem step_end_is_dump_point (flux : FluxFn ℝ) (pr : Params ℝ) (limiter : HV ℝ → Grad ℝ)
    (predict : HV ℝ → Q ℝ) (gradOps fluxOps : List Op) (s : Grid (HV ℝ)) :
    restoreGrid pr.dmax (hydroStep flux pr limiter predict gradOps fluxOps s)
      = hydroStep flux pr limiter predict gradOps fluxOps s := by
  funext x
  simp [restoreGrid, restoreCell, hydroStep, mapCells, updateConserved, updateConservedTag]

/-- several steps, one `Params` per step (the time step changes) -/
noncomputable def runSteps (flux : FluxFn ℝ) (limiter : Params ℝ → HV ℝ → Grad ℝ)
    (predict : Params ℝ → HV ℝ → Q ℝ) (ops : List Op) : List (Params ℝ) → Grid (HV ℝ) → Grid (HV ℝ)
  | [], s => s
  | pr :: prs, s => runSteps flux limiter predict ops prs (hydroStep flux pr (limiter pr) (predict pr) ops ops s)

/-- **continuation_identical for the modelled hydro step**: run `k ≥ 1` steps (here: the last of them,
`pr`, from any state `s`), dump, restart (`restoreGrid`), run any further steps `prs`: the same grid
states as the run that never stopped.  Every flux function, limiter, prediction, list of sweep
calls (= every layout), every time-step sequence; no hypothesis besides `dmax` being the constant
the restart constructor uses. -/
theorem continuation_identical_hydro (flux : FluxFn ℝ) (limiter : Params ℝ → HV ℝ → Grad ℝ)
    (predict : Params ℝ → HV ℝ → Q ℝ) (ops : List Op) (pr : Params ℝ) (prs : List (Params ℝ)) (s : Grid (HV ℝ)) :
    runSteps flux limiter predict ops prs
        (restoreGrid pr.dmax (hydroStep flux pr (limiter pr) (predict pr) ops ops s))
      = runSteps flux limiter predict ops prs (hydroStep flux pr (limiter pr) (predict pr) ops ops s) := by
  rw [step_end_is_dump_point]

/-- the hypothesis "at a dump point" is needed: in the middle of a step (after the gradient sweeps)
the limiters are not the constructor values and a restart would lose them -/
example : ∃ h : HV ℝ, restoreCell 1 h ≠ h :=
  ⟨⟨⟨0, ⟨0, 0, 0⟩, 0⟩, Grad.zero, ⟨0, ⟨0, 0, 0⟩, 0⟩, ⟨0, ⟨0, 0, 0⟩, 0⟩, ⟨0, ⟨0, 0, 0⟩, 0⟩, ⟨0, ⟨0, 0, 0⟩, 0⟩, ⟨0, 0, 0⟩, 0⟩,
   by intro h; have := congrArg (fun c => c.lo.d) h; simp [restoreCell] at this⟩

end Hydro

end CMacVerif.RestartCodec
