import CMacVerif.Props.C04
import CMacVerif.Props.C07
import CMacVerif.Lemmas.HydroPhases
/-!
# C10 — hydro results do not depend on the subgrid layout or on the schedule

Property theorems only (exact real arithmetic; the round-off of the different summation orders is
bounded empirically by `tools/props/c10.py`).

* `face_multiset_layout_independent` — two layouts of the same global grid perform the same
  multiset of flux calls and of gradient calls
* `step_layout_independent` — the cell states after one step are the same for every layout and
  equal those of the plain sequential sweep over the undivided grid
* `schedule_independent` — every execution order of the tasks that respects the task graph gives
  the same cell states; `schedule_equals_step` — namely those of `hydroStep`;
  `execution_layout_independent` — for any two layouts of the same grid and any schedules
* `single_thread_deterministic` — with one thread no scheduling choice remains
-/
namespace CMacVerif.C10
open CMacVerif CMacVerif.RiemannVacuum CMacVerif.HydroGraph CMacVerif.HydroSweeps
  CMacVerif.HydroUpdate CMacVerif.HydroStep CMacVerif.HydroTasks CMacVerif.HydroSchedule

/-! ## Layout -/

/-- the calls of all sweeps of a layout are a permutation of the calls of the sequential sweep over
the undivided grid (flux calls and gradient calls have the same loops) -/
theorem layoutOps_perm_gridOps (L : Layout) (c : Cells) (hc : 0 < c.cx ∧ 0 < c.cy ∧ 0 < c.cz) :
    (layoutOps L c).Perm (gridOps (cellGrid L c)) := by
  have hcl : ∀ ax, 0 < clen c ax := fun ax => by cases ax <;> simp [clen, hc]
  unfold layoutOps gridOps
  refine List.Perm.flatMap_left _ (fun ax _ => ?_)
  exact (((C04.faces_exactly_once L c ax (hcl ax)).map _).append
    ((C04.boundary_faces_exactly_once L c ax true (hcl ax)).map _)).append
      ((C04.boundary_faces_exactly_once L c ax false (hcl ax)).map _)

/-- **face_multiset_layout_independent.**  Two subgrid layouts of the same global grid of cells
(same number of cells and same periodicity per axis) perform, along every axis, the same multiset
of pair interactions and of boundary interactions — for the flux sweeps and for the gradient
sweeps alike (`allFaces` / `allGhosts` describe both). -/
theorem face_multiset_layout_independent (L L' : Layout) (c c' : Cells)
    (hc : 0 < c.cx ∧ 0 < c.cy ∧ 0 < c.cz) (hc' : 0 < c'.cx ∧ 0 < c'.cy ∧ 0 < c'.cz)
    (hG : cellGrid L c = cellGrid L' c') (ax : Axis) :
    (allFaces L c ax).Perm (allFaces L' c' ax) ∧
      (∀ up, (allGhosts L c ax up).Perm (allGhosts L' c' ax up)) ∧
      (layoutOps L c).Perm (layoutOps L' c') := by
  have hcl : ∀ ax, 0 < clen c ax := fun ax => by cases ax <;> simp [clen, hc]
  have hcl' : ∀ ax, 0 < clen c' ax := fun ax => by cases ax <;> simp [clen, hc']
  refine ⟨?_, fun up => ?_, ?_⟩
  · exact (C04.faces_exactly_once L c ax (hcl ax)).trans
      (hG ▸ (C04.faces_exactly_once L' c' ax (hcl' ax)).symm)
  · exact (C04.boundary_faces_exactly_once L c ax up (hcl ax)).trans
      (hG ▸ (C04.boundary_faces_exactly_once L' c' ax up (hcl' ax)).symm)
  · exact (layoutOps_perm_gridOps L c hc).trans (hG ▸ (layoutOps_perm_gridOps L' c' hc').symm)

/-- **step_layout_independent.**  In exact arithmetic the state of every cell after one hydro step
computed with the sweeps of any layout equals the state computed by the plain sequential sweep over
the undivided grid — for any flux function, slope limiter and prediction, any state, any `dt`:
the per-cell accumulations are sums, minima and maxima over the same multiset of calls. -/
theorem step_layout_independent (L : Layout) (c : Cells) (hc : 0 < c.cx ∧ 0 < c.cy ∧ 0 < c.cz)
    (flux : FluxFn ℝ) (pr : Params ℝ) (limiter : HV ℝ → Grad ℝ) (predict : HV ℝ → Q ℝ)
    (s : Grid (HV ℝ)) :
    hydroStep flux pr limiter predict (layoutOps L c) (layoutOps L c) s
      = hydroStep flux pr limiter predict (gridOps (cellGrid L c)) (gridOps (cellGrid L c)) s := by
  have hp := layoutOps_perm_gridOps L c hc
  unfold hydroStep hydroStepFlux
  simp only [runOps_perm (gradAccum pr) hp, runOps_perm (fluxAccum flux pr) hp]

/-- … hence the same for any two layouts of the same global grid -/
theorem step_same_for_all_layouts (L L' : Layout) (c c' : Cells)
    (hc : 0 < c.cx ∧ 0 < c.cy ∧ 0 < c.cz) (hc' : 0 < c'.cx ∧ 0 < c'.cy ∧ 0 < c'.cz)
    (hG : cellGrid L c = cellGrid L' c')
    (flux : FluxFn ℝ) (pr : Params ℝ) (limiter : HV ℝ → Grad ℝ) (predict : HV ℝ → Q ℝ)
    (s : Grid (HV ℝ)) :
    hydroStep flux pr limiter predict (layoutOps L c) (layoutOps L c) s
      = hydroStep flux pr limiter predict (layoutOps L' c') (layoutOps L' c') s := by
  rw [step_layout_independent L c hc, step_layout_independent L' c' hc', hG]


/-! ## Schedule -/

/-- Two sequential executions of the same tasks that both respect the data dependences
(`mustPrecede`: a task of an earlier phase runs before a task of a later phase that touches a
common subgrid) give the same state: tasks that the dependences leave unordered either touch
disjoint sets of cells or are accumulating sweeps of the same phase, and commute. -/
theorem respecting_schedules_agree (L : Layout) (c : Cells) (hc : 0 < c.cx ∧ 0 < c.cy ∧ 0 < c.cz)
    (flux : FluxFn ℝ) (pr : Params ℝ) (limiter : HV ℝ → Grad ℝ) (predict : HV ℝ → Q ℝ)
    (sched sched' : List Task) (hp : sched.Perm sched') (h : Respects L sched)
    (h' : Respects L sched') (s : Grid (HV ℝ)) :
    runSchedule flux pr limiter predict L c sched s
      = runSchedule flux pr limiter predict L c sched' s :=
  foldl_eq_of_respects (fun s t => execTask flux pr limiter predict L c t s) (mustPrecede L)
    (fun a b h1 h2 z => execTask_comm flux pr limiter predict L c hc a b h1 h2 z)
    sched' sched hp h h' s

/-- **schedule_independent.**  Every linear extension of C07's task graph (every existing task
once, no task before one of the tasks it waits for — by C07 these are exactly the orders in which
the worker loop can complete the tasks, whatever the number of threads) yields the same cell
states, for every layout, periodicity, flux function, limiter, prediction, state and `dt`:
conflicting tasks of different phases are ordered by the graph (`anc_of_mustPrecede`), all others
commute.  Tasks are atomic here (a parallel run is serialised in the order the tasks finish; C07's
`hydro_conflict_free` shows that tasks running at the same time touch disjoint subgrids). -/
theorem schedule_independent (L : Layout) (c : Cells) (hc : 0 < c.cx ∧ 0 < c.cy ∧ 0 < c.cz)
    (flux : FluxFn ℝ) (pr : Params ℝ) (limiter : HV ℝ → Grad ℝ) (predict : HV ℝ → Q ℝ)
    (sched sched' : List Task) (h : LinExt L sched) (h' : LinExt L sched') (s : Grid (HV ℝ)) :
    runSchedule flux pr limiter predict L c sched s
      = runSchedule flux pr limiter predict L c sched' s :=
  respecting_schedules_agree L c hc flux pr limiter predict sched sched'
    ((List.perm_ext_iff_of_nodup h.nodup h'.nodup).mpr (fun t => (h.all t).trans (h'.all t).symm))
    (linExt_respects h) (linExt_respects h') s


/-- **schedule_equals_step.**  … and that common result is, on every cell of the grid, the state
computed by `hydroStep` with the calls of the layout — the phase-by-phase model used by
`step_layout_independent` (all gradient sweeps, all limiters, … is one linear extension). -/
theorem schedule_equals_step (L : Layout) (c : Cells) (hc : 0 < c.cx ∧ 0 < c.cy ∧ 0 < c.cz)
    (flux : FluxFn ℝ) (pr : Params ℝ) (limiter : HV ℝ → Grad ℝ) (predict : HV ℝ → Q ℝ)
    (sched : List Task) (h : LinExt L sched) (s : Grid (HV ℝ)) (x : Cell)
    (hx : valid (cellGrid L c) x = true) :
    runSchedule flux pr limiter predict L c sched s x
      = hydroStep flux pr limiter predict (layoutOps L c) (layoutOps L c) s x := by
  rw [schedule_independent L c hc flux pr limiter predict sched (phaseSched L) h
    (phaseSched_linExt L) s]
  exact phaseSched_computes_step flux pr limiter predict L c hc s x hx

/-- **execution_layout_independent.**  The full statement in exact arithmetic: two subgrid layouts
of the same global grid, each executed in any order its task graph allows (any number of threads,
any interleaving of whole tasks), leave every cell of the grid in the same state — the state of
the plain sequential sweep over the undivided grid. -/
theorem execution_layout_independent (L L' : Layout) (c c' : Cells)
    (hc : 0 < c.cx ∧ 0 < c.cy ∧ 0 < c.cz) (hc' : 0 < c'.cx ∧ 0 < c'.cy ∧ 0 < c'.cz)
    (hG : cellGrid L c = cellGrid L' c')
    (flux : FluxFn ℝ) (pr : Params ℝ) (limiter : HV ℝ → Grad ℝ) (predict : HV ℝ → Q ℝ)
    (sched sched' : List Task) (h : LinExt L sched) (h' : LinExt L' sched') (s : Grid (HV ℝ))
    (x : Cell) (hx : valid (cellGrid L c) x = true) :
    runSchedule flux pr limiter predict L c sched s x
        = runSchedule flux pr limiter predict L' c' sched' s x ∧
      runSchedule flux pr limiter predict L c sched s x
        = hydroStep flux pr limiter predict (gridOps (cellGrid L c)) (gridOps (cellGrid L c)) s x := by
  have e1 := schedule_equals_step L c hc flux pr limiter predict sched h s x hx
  have e2 := schedule_equals_step L' c' hc' flux pr limiter predict sched' h' s x (hG ▸ hx)
  have e3 := step_same_for_all_layouts L L' c c' hc hc' hG flux pr limiter predict s
  constructor
  · rw [e1, e2, e3]
  · rw [e1, step_layout_independent L c hc]

/-- **single_thread_deterministic.**  With one thread the worker loop is sequential: whatever the
queue discipline `pick` (any function of the list of ready tasks that returns one of them), the
order of execution `oneThreadOrder` is a function of the layout and of `pick` alone — it does not
depend on the hydro data —, never starts a task before its parents and never runs a task twice;
once all tasks have run it is a linear extension of the task graph, so the result is
`runSchedule` of that fixed order: a function of the initial state (and, on the cells of the grid,
the state of `hydroStep`).  That the loop does not stop before all tasks have run is C07's
`hydro_progress`. -/
theorem single_thread_deterministic (L : Layout) (c : Cells) (hc : 0 < c.cx ∧ 0 < c.cy ∧ 0 < c.cz)
    (pick : List Task → Option Task) (hpick : ∀ l t, pick l = some t → t ∈ l) (n : Nat) :
    OneThreadInv L (oneThreadOrder L pick n []) ∧
      ((oneThreadOrder L pick n []).length = (allTasks L).length →
        LinExt L (oneThreadOrder L pick n []) ∧
        ∀ (flux : FluxFn ℝ) (pr : Params ℝ) (limiter : HV ℝ → Grad ℝ) (predict : HV ℝ → Q ℝ)
          (s : Grid (HV ℝ)) (x : Cell), valid (cellGrid L c) x = true →
          runSchedule flux pr limiter predict L c (oneThreadOrder L pick n []) s x
            = hydroStep flux pr limiter predict (layoutOps L c) (layoutOps L c) s x) := by
  have hinv := oneThreadOrder_inv L pick hpick n [] (oneThreadInv_nil L)
  refine ⟨hinv, fun hlen => ?_⟩
  have hl := linExt_of_oneThread hinv hlen
  exact ⟨hl, fun flux pr limiter predict s x hx =>
    schedule_equals_step L c hc flux pr limiter predict _ hl s x hx⟩

/-- **worker_execution_is_linear_extension.**  The formal link to C07: for EVERY complete
execution of the worker loop over the hydro graph of layout `L` (label trace `ls` of any number of
threads, `number_of_tasks = 0` at the end) the order in which the sweeps finish is a linear
extension in the sense of `schedule_independent` (C07: `hydro_finish_order`). -/
theorem worker_execution_is_linear_extension (L : Layout) (ls : List (Worker.Label Task))
    (hl : ∀ l ∈ ls, exists_ L (Worker.labelTask l) = true) (w : Worker.WState Task)
    (h : Worker.run (graph L) (Worker.init (graph L)) ls = some w) (h0 : w.num = 0) :
    LinExt L (Worker.finishOrder ls) := by
  obtain ⟨h1, h2, h3⟩ := CMacVerif.HydroGraph.hydro_finish_order L ls hl w h h0
  exact ⟨h1, h2, h3⟩

/-- **worker_execution_equals_step.**  Every complete execution of the worker loop — any number
of threads, any interleaving of pops, sweeps, releases — serialised in the order in which its
sweeps finish, leaves every cell in the state of the plain phase-by-phase step; in particular the
result does not depend on the interleaving.  (Tasks are atomic in `runSchedule`; that two sweeps
running at the same time touch disjoint subgrids is C07's `hydro_conflict_free`.) -/
theorem worker_execution_equals_step (L : Layout) (c : Cells) (hc : 0 < c.cx ∧ 0 < c.cy ∧ 0 < c.cz)
    (flux : FluxFn ℝ) (pr : Params ℝ) (limiter : HV ℝ → Grad ℝ) (predict : HV ℝ → Q ℝ)
    (ls : List (Worker.Label Task)) (hl : ∀ l ∈ ls, exists_ L (Worker.labelTask l) = true)
    (w : Worker.WState Task) (h : Worker.run (graph L) (Worker.init (graph L)) ls = some w)
    (h0 : w.num = 0) (s : Grid (HV ℝ)) (x : Cell) (hx : valid (cellGrid L c) x = true) :
    runSchedule flux pr limiter predict L c (Worker.finishOrder ls) s x
      = hydroStep flux pr limiter predict (layoutOps L c) (layoutOps L c) s x :=
  schedule_equals_step L c hc flux pr limiter predict _
    (worker_execution_is_linear_extension L ls hl w h h0) s x hx

/-- non-vacuity: the phase-by-phase order is a linear extension for every layout -/
example (L : Layout) : LinExt L (phaseSched L) := phaseSched_linExt L

/-- the graph facts behind it, for every layout: a task that must precede another one is its
ancestor in the task graph -/
theorem dependences_ordered_by_graph (L : Layout) (a b : Task) (ha : exists_ L a = true)
    (hb : exists_ L b = true) (h : mustPrecede L a b) : Relation.TransGen (Par L) a b :=
  anc_of_mustPrecede ha hb h

/-! ## With the slope limiter and the prediction of the code

All theorems above hold for ANY per-cell slope limiter and prediction; these are their instances
for the models of `apply_slope_limiter` and `predict_primitive_variables`
(`HydroStep.codeLimiter`, `codePredict`). -/

theorem step_layout_independent_code (L : Layout) (c : Cells)
    (hc : 0 < c.cx ∧ 0 < c.cy ∧ 0 < c.cz) (flux : FluxFn ℝ) (pr : Params ℝ) (s : Grid (HV ℝ)) :
    hydroStepCode flux pr (layoutOps L c) (layoutOps L c) s
      = hydroStepCode flux pr (gridOps (cellGrid L c)) (gridOps (cellGrid L c)) s :=
  step_layout_independent L c hc flux pr (codeLimiter pr) (codePredict pr) s

theorem schedule_independent_code (L : Layout) (c : Cells) (hc : 0 < c.cx ∧ 0 < c.cy ∧ 0 < c.cz)
    (flux : FluxFn ℝ) (pr : Params ℝ) (sched sched' : List Task) (h : LinExt L sched)
    (h' : LinExt L sched') (s : Grid (HV ℝ)) :
    runSchedule flux pr (codeLimiter pr) (codePredict pr) L c sched s
      = runSchedule flux pr (codeLimiter pr) (codePredict pr) L c sched' s :=
  schedule_independent L c hc flux pr (codeLimiter pr) (codePredict pr) sched sched' h h' s

theorem execution_layout_independent_code (L L' : Layout) (c c' : Cells)
    (hc : 0 < c.cx ∧ 0 < c.cy ∧ 0 < c.cz) (hc' : 0 < c'.cx ∧ 0 < c'.cy ∧ 0 < c'.cz)
    (hG : cellGrid L c = cellGrid L' c') (flux : FluxFn ℝ) (pr : Params ℝ)
    (sched sched' : List Task) (h : LinExt L sched) (h' : LinExt L' sched') (s : Grid (HV ℝ))
    (x : Cell) (hx : valid (cellGrid L c) x = true) :
    runSchedule flux pr (codeLimiter pr) (codePredict pr) L c sched s x
        = runSchedule flux pr (codeLimiter pr) (codePredict pr) L' c' sched' s x ∧
      runSchedule flux pr (codeLimiter pr) (codePredict pr) L c sched s x
        = hydroStepCode flux pr (gridOps (cellGrid L c)) (gridOps (cellGrid L c)) s x :=
  execution_layout_independent L L' c c' hc hc' hG flux pr (codeLimiter pr) (codePredict pr)
    sched sched' h h' s x hx

/-- non-vacuity: 12 × 6 × 4 cells as 2 × 3 × 1 subgrids of 6 × 2 × 4 cells or 3 × 1 × 2 of
4 × 6 × 2 -/
example : cellGrid ⟨2, 3, 1, true, false, true⟩ ⟨6, 2, 4⟩
    = cellGrid ⟨3, 1, 2, true, false, true⟩ ⟨4, 6, 2⟩ := by decide

end CMacVerif.C10
