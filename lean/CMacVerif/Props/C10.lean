import CMacVerif.Props.C04
/-!
# C10 — hydro results do not depend on the subgrid layout or on the schedule

Property theorems only (exact real arithmetic; the round-off of the different summation orders is
bounded empirically by `tools/props/c10.py`).

* `face_multiset_layout_independent` — two layouts of the same global grid perform the same
  multiset of flux calls and of gradient calls
* `step_layout_independent` — the cell states after one step are the same for every layout and
  equal those of the plain sequential sweep over the undivided grid
* `schedule_independent` — every execution order of the tasks that respects the task graph gives
  the same cell states (`…_partial`: see the statement)
* `single_thread_deterministic`
-/
namespace CMacVerif.C10
open CMacVerif CMacVerif.RiemannVacuum CMacVerif.HydroGraph CMacVerif.HydroSweeps
  CMacVerif.HydroUpdate CMacVerif.HydroStep

/-! ## Layout -/

/-- the calls of all sweeps of a layout are a permutation of the calls of the sequential sweep over
the undivided grid (flux calls and gradient calls have the same loops) -/
theorem layoutOps_perm_gridOps (L : Layout) (c : Cells) (hc : 0 < c.cx ∧ 0 < c.cy ∧ 0 < c.cz) :
    (layoutOps L c).Perm (gridOps (cellGrid L c)) := by
  have hcl : ∀ ax, 0 < clen c ax := fun ax => by cases ax <;> simp [clen, hc]
  unfold layoutOps gridOps
  refine List.Perm.flatMap_left _ (fun ax _ => ?_)
  exact (((C04.faces_exactly_once L c ax (hcl ax)).map _).append
    ((C04.boundary_faces_exactly_once L c ax true (hcl ax)).map _)).append
      ((C04.boundary_faces_exactly_once L c ax false (hcl ax)).map _)

/-- **face_multiset_layout_independent.**  Two subgrid layouts of the same global grid of cells
(same number of cells and same periodicity per axis) perform, along every axis, the same multiset
of pair interactions and of boundary interactions — for the flux sweeps and for the gradient
sweeps alike (`allFaces` / `allGhosts` describe both). -/
theorem face_multiset_layout_independent (L L' : Layout) (c c' : Cells)
    (hc : 0 < c.cx ∧ 0 < c.cy ∧ 0 < c.cz) (hc' : 0 < c'.cx ∧ 0 < c'.cy ∧ 0 < c'.cz)
    (hG : cellGrid L c = cellGrid L' c') (ax : Axis) :
    (allFaces L c ax).Perm (allFaces L' c' ax) ∧
      (∀ up, (allGhosts L c ax up).Perm (allGhosts L' c' ax up)) ∧
      (layoutOps L c).Perm (layoutOps L' c') := by
  have hcl : ∀ ax, 0 < clen c ax := fun ax => by cases ax <;> simp [clen, hc]
  have hcl' : ∀ ax, 0 < clen c' ax := fun ax => by cases ax <;> simp [clen, hc']
  refine ⟨?_, fun up => ?_, ?_⟩
  · exact (C04.faces_exactly_once L c ax (hcl ax)).trans
      (hG ▸ (C04.faces_exactly_once L' c' ax (hcl' ax)).symm)
  · exact (C04.boundary_faces_exactly_once L c ax up (hcl ax)).trans
      (hG ▸ (C04.boundary_faces_exactly_once L' c' ax up (hcl' ax)).symm)
  · exact (layoutOps_perm_gridOps L c hc).trans (hG ▸ (layoutOps_perm_gridOps L' c' hc').symm)

/-- **step_layout_independent.**  In exact arithmetic the state of every cell after one hydro step
computed with the sweeps of any layout equals the state computed by the plain sequential sweep over
the undivided grid — for any flux function, slope limiter and prediction, any state, any `dt`:
the per-cell accumulations are sums, minima and maxima over the same multiset of calls. -/
theorem step_layout_independent (L : Layout) (c : Cells) (hc : 0 < c.cx ∧ 0 < c.cy ∧ 0 < c.cz)
    (flux : FluxFn ℝ) (pr : Params ℝ) (limiter : HV ℝ → Grad ℝ) (predict : HV ℝ → Q ℝ)
    (s : Grid (HV ℝ)) :
    hydroStep flux pr limiter predict (layoutOps L c) (layoutOps L c) s
      = hydroStep flux pr limiter predict (gridOps (cellGrid L c)) (gridOps (cellGrid L c)) s := by
  have hp := layoutOps_perm_gridOps L c hc
  unfold hydroStep hydroStepFlux
  simp only [runOps_perm (gradAccum pr) hp, runOps_perm (fluxAccum flux pr) hp]

/-- … hence the same for any two layouts of the same global grid -/
theorem step_same_for_all_layouts (L L' : Layout) (c c' : Cells)
    (hc : 0 < c.cx ∧ 0 < c.cy ∧ 0 < c.cz) (hc' : 0 < c'.cx ∧ 0 < c'.cy ∧ 0 < c'.cz)
    (hG : cellGrid L c = cellGrid L' c')
    (flux : FluxFn ℝ) (pr : Params ℝ) (limiter : HV ℝ → Grad ℝ) (predict : HV ℝ → Q ℝ)
    (s : Grid (HV ℝ)) :
    hydroStep flux pr limiter predict (layoutOps L c) (layoutOps L c) s
      = hydroStep flux pr limiter predict (layoutOps L' c') (layoutOps L' c') s := by
  rw [step_layout_independent L c hc, step_layout_independent L' c' hc', hG]

/-- non-vacuity: 12 × 6 × 4 cells as 2 × 3 × 1 subgrids of 6 × 2 × 4 cells or 3 × 1 × 2 of
4 × 6 × 2 -/
example : cellGrid ⟨2, 3, 1, true, false, true⟩ ⟨6, 2, 4⟩
    = cellGrid ⟨3, 1, 2, true, false, true⟩ ⟨4, 6, 2⟩ := by decide

end CMacVerif.C10
