import CMacVerif.Lemmas.HydroStep
import CMacVerif.Lemmas.HydroUpdate
import CMacVerif.Props.C05
/-!
# C04 — a hydro step conserves mass, momentum and energy; states stay physical

Property theorems only.  Models: `Model/HydroSweeps.lean` (which cell pairs the sweeps of a subgrid
visit), `Model/HydroUpdate.lean` (the cell-level arithmetic of Hydro.hpp with the Riemann solver as
a parameter), `Model/HydroStep.lean` (one step of the whole grid), at `ℝ`.

* `faces_exactly_once`, `boundary_faces_exactly_once`, `no_face_twice` — every layout, every
  number of cells per subgrid ≥ 1, every periodicity
* `flux_antisymmetric_update` — one face: `(−F, +F)` with one common factor in `[0, 1]`
* `totals_conserved`, `totals_conserved_periodic` — any flux function, any state, any `dt`
* `reflective_no_mass_energy` — uses C05's `mirror_no_exchange`
* `nonneg_after_step`
* `limiter_bounds`, `limiter_within_neighbours`, `limiter_overshoots_local_extremum`, `limit_between`,
  `face_density_pressure_nonneg`, `predict_nonneg`, `predict_needs_clamp` — the reconstruction
* `totals_conserved_periodic_code` — with the concrete slope limiter and prediction
* `limiter_premise_holds`, `step_resets_accumulators`, `totals_conserved_run` — hypotheses that hold by
  construction; any number of steps
* `inflow_boundary_is_free`, `outflow_boundary_blocks_inflow` — the other boundary conditions
* `cfl_does_not_keep_mass_nonneg`, `code_timestep_allows_it` — counterexample: flat cells
-/
namespace CMacVerif.C04
open CMacVerif CMacVerif.RiemannVacuum CMacVerif.HydroGraph CMacVerif.HydroSweeps
  CMacVerif.HydroUpdate CMacVerif.HydroStep

/-! ## Every face exactly once -/

/-- **faces_exactly_once.**  For every layout of subgrids, every number of cells per subgrid (at
least one along the swept axis) and every periodicity: the internal sweeps and the pair sweeps of
all subgrids together perform exactly the interactions `(cell, next cell along the axis)` of the
undivided global grid — the concatenated list is a permutation of the plain list of faces. -/
theorem faces_exactly_once (L : Layout) (c : Cells) (ax : Axis) (hc : 0 < clen c ax) :
    (allFaces L c ax).Perm (gridFaces (cellGrid L c) ax) :=
  (List.perm_ext_iff_of_nodup (allFaces_nodup L c ax hc) (gridFaces_nodup _ ax)).mpr
    (fun f => mem_allFaces_iff L c ax hc f.1 f.2)

/-- … and the boundary sweeps exactly the faces on a non-periodic side of the box -/
theorem boundary_faces_exactly_once (L : Layout) (c : Cells) (ax : Axis) (up : Bool)
    (hc : 0 < clen c ax) : (allGhosts L c ax up).Perm (gridGhosts (cellGrid L c) ax up) :=
  (List.perm_ext_iff_of_nodup (allGhosts_nodup L c ax up hc) (gridGhosts_nodup _ ax up)).mpr
    (fun X => mem_allGhosts_iff L c ax up hc X)

/-- no interaction is performed twice, and a face is identified by its left cell -/
theorem no_face_twice (L : Layout) (c : Cells) (ax : Axis) (hc : 0 < clen c ax) :
    (allFaces L c ax).Nodup ∧ (∀ up, (allGhosts L c ax up).Nodup) ∧
      ∀ X Y Y', (X, Y) ∈ allFaces L c ax → (X, Y') ∈ allFaces L c ax → Y = Y' := by
  refine ⟨allFaces_nodup L c ax hc, fun up => allGhosts_nodup L c ax up hc, ?_⟩
  intro X Y Y' h h'
  rw [mem_allFaces_iff L c ax hc, mem_gridFaces] at h h'
  exact Option.some.inj (h.2.symm.trans h'.2)

/-- the index expressions of the C++ sweeps (`start + ic * column_increment + ir * row_increment`,
`ix * n3 + iy * n2 + iz`) name exactly the cells of the coordinate-level lists, and different cells
of a subgrid have different indices -/
theorem index_level_faithful (c : Cells) (ax : Axis) :
    innerIdx c ax = (innerLoc c ax).map (fun pq => (lidx c pq.1, lidx c pq.2)) ∧
    outerIdx c ax = (outerLoc c ax).map (fun pq => (lidx c pq.1, lidx c pq.2)) ∧
    (∀ up, ghostIdx c ax up = (ghostLoc c ax up).map (lidx c)) ∧
    ∀ p q, validLoc c p = true → validLoc c q = true → lidx c p = lidx c q → p = q :=
  ⟨innerIdx_eq c ax, outerIdx_eq c ax, fun up => ghostIdx_eq c ax up,
    fun _ _ hp hq h => lidx_inj c hp hq h⟩

/-- non-vacuity: a periodic 2 × 1 × 1 layout of 2 × 1 × 1 cells has the four x faces
0→1→2→3→0 -/
example : allFaces ⟨2, 1, 1, true, true, true⟩ ⟨2, 1, 1⟩ .x
    = [((0,0,0),(1,0,0)), ((1,0,0),(2,0,0)), ((2,0,0),(3,0,0)), ((3,0,0),(0,0,0))] := by decide

/-! ## One face -/

/-- **flux_antisymmetric_update.**  `do_flux_calculation` subtracts from the left cell exactly
what it adds to the right cell, and that quantity is the area-weighted Riemann flux of the
reconstructed states times **one** factor in `[0, 1]` common to mass, momentum and energy — for
any Riemann solver, any states with non-negative masses and energies.  (The factor is common, so
the limiter's test of the *left* squared momentum in the right-cell condition, Hydro.hpp:514,
cannot break conservation.) -/
theorem flux_antisymmetric_update (flux : FluxFn ℝ) (tiny g : ℝ) (i : Axis) (L R : HV ℝ)
    (dx A dt : ℝ) (hmL : 0 ≤ L.cons.d) (hmR : 0 ≤ R.cons.d) (heL : 0 ≤ L.cons.e)
    (heR : 0 ≤ R.cons.e) :
    ∃ fac : ℝ, 0 ≤ fac ∧ fac ≤ 1 ∧
      let raw := rawFlux flux
        (reconstruct tiny L.prim (L.grad.along i) R.prim (R.grad.along i) dx) (unitNormal i 1.0) A
      let F := scaleFlux raw fac
      doFluxCalculation flux tiny g i L R dx A dt
          = ({ L with dcons := L.dcons.sub F }, { R with dcons := R.dcons.add F }) ∧
        (doFluxCalculation flux tiny g i L R dx A dt).1.dcons.add
            (doFluxCalculation flux tiny g i L R dx A dt).2.dcons = L.dcons.add R.dcons := by
  refine ⟨_, (fluxFac_range g _ _ _ dt L R hmL hmR heL heR).1,
    (fluxFac_range g _ _ _ dt L R hmL hmR heL heR).2, rfl, ?_⟩
  simp only [doFluxCalculation]
  ext <;> simp only [Q.add, Q.sub, V3.add, V3.sub] <;> ring

/-! ## Totals -/

/-- a component of the five conserved quantities (mass, a momentum component, energy) -/
structure Lin (φ : Q ℝ → ℝ) : Prop where
  add : ∀ a b, φ (a.add b) = φ a + φ b
  sub : ∀ a b, φ (a.sub b) = φ a - φ b
  axpy : ∀ a b t, φ ⟨a.d + b.d * t, ⟨a.v.x + b.v.x * t, a.v.y + b.v.y * t, a.v.z + b.v.z * t⟩,
    a.e + b.e * t⟩ = φ a + φ b * t
  zero : φ ⟨0, ⟨0, 0, 0⟩, 0⟩ = 0

theorem lin_mass : Lin (fun q => q.d) := ⟨fun _ _ => rfl, fun _ _ => rfl, fun _ _ _ => rfl, rfl⟩
theorem lin_px : Lin (fun q => q.v.x) := ⟨fun _ _ => rfl, fun _ _ => rfl, fun _ _ _ => rfl, rfl⟩
theorem lin_py : Lin (fun q => q.v.y) := ⟨fun _ _ => rfl, fun _ _ => rfl, fun _ _ _ => rfl, rfl⟩
theorem lin_pz : Lin (fun q => q.v.z) := ⟨fun _ _ => rfl, fun _ _ => rfl, fun _ _ _ => rfl, rfl⟩
theorem lin_energy : Lin (fun q => q.e) := ⟨fun _ _ => rfl, fun _ _ => rfl, fun _ _ _ => rfl, rfl⟩

/-- a pair call of the flux sweep leaves the sum of the pending changes unchanged -/
theorem flux_pair_total (flux : FluxFn ℝ) (pr : Params ℝ) {cells : List Cell} (hn : cells.Nodup)
    {φ : Q ℝ → ℝ} (hφ : Lin φ) (s : Grid (HV ℝ)) (ax : Axis) {l r : Cell} (hl : l ∈ cells)
    (hr : r ∈ cells) :
    total cells (fun y => φ (applyOp (fluxPhys flux pr) s (.pair ax l r) y).dcons)
      = total cells (fun y => φ (s y).dcons) := by
  simp only [applyOp]
  set k := (fluxPhys flux pr).contrib ax (s l) (s r)
  set s1 := gupd s l ((fluxPhys flux pr).addLeft ax (s l) k) with hs1
  have e2 := total_gupd hn hr (fun h : HV ℝ => φ h.dcons) s1
    ((fluxPhys flux pr).addRight ax (s1 r) k)
  have e1 := total_gupd hn hl (fun h : HV ℝ => φ h.dcons) s ((fluxPhys flux pr).addLeft ax (s l) k)
  rw [e2, hs1, e1]
  simp only [fluxPhys, hφ.add, hφ.sub]
  ring

theorem flux_run_total (flux : FluxFn ℝ) (pr : Params ℝ) {cells : List Cell} (hn : cells.Nodup)
    {φ : Q ℝ → ℝ} (hφ : Lin φ) (ops : List Op)
    (hper : ∀ op ∈ ops, ∃ ax l r, op = .pair ax l r ∧ l ∈ cells ∧ r ∈ cells) (s : Grid (HV ℝ)) :
    total cells (fun y => φ (runOps (fluxPhys flux pr) s ops y).dcons)
      = total cells (fun y => φ (s y).dcons) := by
  induction ops generalizing s with
  | nil => rfl
  | cons o ops ih =>
    show total cells (fun y => φ (runOps (fluxPhys flux pr) (applyOp _ s o) ops y).dcons) = _
    rw [ih (fun op hop => hper op (List.mem_cons_of_mem _ hop))]
    obtain ⟨ax, l, r, rfl, hl, hr⟩ := hper o List.mem_cons_self
    exact flux_pair_total flux pr hn hφ s ax hl hr

/-- what the phases before the conserved update leave alone -/
theorem hydroStepFlux_fields (flux : FluxFn ℝ) (pr : Params ℝ) (limiter : HV ℝ → Grad ℝ)
    (predict : HV ℝ → Q ℝ) (gradOps fluxOps : List Op) (s : Grid (HV ℝ)) (x : Cell) :
    (hydroStepFlux flux pr limiter predict gradOps fluxOps s x).cons = (s x).cons ∧
    (hydroStepFlux flux pr limiter predict gradOps fluxOps s x).acc = (s x).acc ∧
    (hydroStepFlux flux pr limiter predict gradOps fluxOps s x).eterm = (s x).eterm := by
  unfold hydroStepFlux
  have h1 := ro_runOps (gradAccum pr) gradOps s x
  have h2 := ro_runOps (fluxAccum flux pr) fluxOps
    (mapCells (fun h => { h with prim := predict h })
      (mapCells (fun h => { h with grad := limiter h }) (runOps (gradPhys pr) s gradOps))) x
  have a1 := congrArg HV.cons h1
  have a2 := congrArg HV.acc h1
  have a3 := congrArg HV.eterm h1
  have b1 := congrArg HV.cons h2
  have b2 := congrArg HV.acc h2
  have b3 := congrArg HV.eterm h2
  simp only [gradAccum, fluxAccum, mapCells] at a1 a2 a3 b1 b2 b3
  exact ⟨b1.trans a1, b2.trans a2, b3.trans a3⟩

theorem hydroStepFlux_dcons_total (flux : FluxFn ℝ) (pr : Params ℝ) (limiter : HV ℝ → Grad ℝ)
    (predict : HV ℝ → Q ℝ) (gradOps fluxOps : List Op) {cells : List Cell} (hn : cells.Nodup)
    {φ : Q ℝ → ℝ} (hφ : Lin φ)
    (hper : ∀ op ∈ fluxOps, ∃ ax l r, op = .pair ax l r ∧ l ∈ cells ∧ r ∈ cells)
    (s : Grid (HV ℝ)) :
    total cells (fun y => φ (hydroStepFlux flux pr limiter predict gradOps fluxOps s y).dcons)
      = total cells (fun y => φ (s y).dcons) := by
  unfold hydroStepFlux
  rw [flux_run_total flux pr hn hφ fluxOps hper]
  apply total_congr
  intro y _
  have h1 := congrArg HV.dcons (ro_runOps (gradAccum pr) gradOps s y)
  simp only [gradAccum] at h1
  simp only [mapCells, h1]

/-- **totals_conserved.**  One hydro step in which every flux call is a pair call between two
cells of the grid (periodic box: no boundary faces), without gravity and energy source term, and in
which no positivity clamp fires: the sum over all cells of every conserved quantity is unchanged —
for ANY flux function, any slope limiter and prediction, any gradient calls, any state, any `dt`.
`φ` is one of mass / momentum component / energy (`lin_mass` … `lin_energy`). -/
theorem totals_conserved (flux : FluxFn ℝ) (pr : Params ℝ) (limiter : HV ℝ → Grad ℝ)
    (predict : HV ℝ → Q ℝ) (gradOps fluxOps : List Op) (cells : List Cell) (s : Grid (HV ℝ))
    (hn : cells.Nodup)
    (hper : ∀ op ∈ fluxOps, ∃ ax l r, op = .pair ax l r ∧ l ∈ cells ∧ r ∈ cells)
    (h0 : ∀ x ∈ cells, (s x).dcons = ⟨0, ⟨0, 0, 0⟩, 0⟩ ∧ (s x).acc = ⟨0, 0, 0⟩ ∧ (s x).eterm = 0)
    (hclamp : ∀ x ∈ cells, (updateConservedTag pr.dmax
        (hydroStepFlux flux pr limiter predict gradOps fluxOps s x) pr.dt).2 = 0)
    {φ : Q ℝ → ℝ} (hφ : Lin φ) :
    total cells (fun x => φ (hydroStep flux pr limiter predict gradOps fluxOps s x).cons)
      = total cells (fun x => φ (s x).cons) := by
  have hstep : ∀ x ∈ cells,
      φ (hydroStep flux pr limiter predict gradOps fluxOps s x).cons
        = φ (s x).cons
          + φ (hydroStepFlux flux pr limiter predict gradOps fluxOps s x).dcons * pr.dt := by
    intro x hx
    obtain ⟨f1, f2, f3⟩ := hydroStepFlux_fields flux pr limiter predict gradOps fluxOps s x
    simp only [hydroStep, mapCells]
    rw [updateConserved_cons (by rw [f2]; exact (h0 x hx).2.1) (by rw [f3]; exact (h0 x hx).2.2)
      (hclamp x hx), hφ.axpy, f1]
  rw [total_congr hstep, total_add, total_mul,
    hydroStepFlux_dcons_total flux pr limiter predict gradOps fluxOps hn hφ hper s]
  have hz : total cells (fun y => φ (s y).dcons) = 0 := by
    rw [total_congr (g := fun _ => 0) (fun x hx => by rw [(h0 x hx).1]; exact hφ.zero)]
    unfold total
    induction cells with
    | nil => rfl
    | cons a l ih => simp
  rw [hz]; ring

/-- non-vacuity of the hypotheses of `totals_conserved`: a cell of unit mass and energy, no faces -/
example (flux : FluxFn ℝ) (pr : Params ℝ) (limiter : HV ℝ → Grad ℝ) (predict : HV ℝ → Q ℝ) :
    let h : HV ℝ := ⟨⟨1, ⟨0, 0, 0⟩, 1⟩, Grad.zero, ⟨0, ⟨0, 0, 0⟩, 0⟩, ⟨0, ⟨0, 0, 0⟩, 0⟩,
      ⟨1, ⟨0, 0, 0⟩, 1⟩, ⟨0, ⟨0, 0, 0⟩, 0⟩, ⟨0, 0, 0⟩, 0⟩
    let s : Grid (HV ℝ) := fun _ => h
    (∀ x ∈ [((0, 0, 0) : Cell)], (s x).dcons = ⟨0, ⟨0, 0, 0⟩, 0⟩ ∧ (s x).acc = ⟨0, 0, 0⟩ ∧
      (s x).eterm = 0) ∧
    ∀ x ∈ [((0, 0, 0) : Cell)], (updateConservedTag pr.dmax
      (hydroStepFlux flux pr limiter predict [] [] s x) pr.dt).2 = 0 := by
  intro h s
  refine ⟨fun x _ => ⟨rfl, rfl, rfl⟩, fun x _ => ?_⟩
  simp only [hydroStepFlux, runOps, List.foldl_nil, mapCells, updateConservedTag, s, h, V3.dot,
    lit0]
  norm_num
theorem ngbUp_valid {G : Layout} {ax : Axis} {X Y : Loc} (hX : valid G X = true)
    (h : ngbUp G ax X = some Y) : valid G Y = true := by
  unfold ngbUp at h
  cases hu : up1 (len G ax) (per G ax) (coord X ax) with
  | none => rw [hu] at h; simp at h
  | some v =>
    rw [hu] at h
    simp only [Option.map_some, Option.some.injEq] at h
    subst h
    apply valid_setCoord hX
    unfold up1 at hu
    have := coord_lt hX ax
    split_ifs at hu with h1 h2
    · simp only [Option.some.injEq] at hu; omega
    · simp only [Option.some.injEq] at hu; omega

/-- in a fully periodic box every call of a layout is a pair call between cells of the grid -/
theorem periodic_layout_ops (L : Layout) (c : Cells) (hc : 0 < c.cx ∧ 0 < c.cy ∧ 0 < c.cz)
    (hp : L.px = true ∧ L.py = true ∧ L.pz = true) :
    ∀ op ∈ layoutOps L c, ∃ ax l r, op = .pair ax l r ∧ l ∈ allSubs (cellGrid L c) ∧
      r ∈ allSubs (cellGrid L c) := by
  have hcl : ∀ ax, 0 < clen c ax := fun ax => by cases ax <;> simp [clen, hc]
  have hper : ∀ ax, per (cellGrid L c) ax = true := fun ax => by
    cases ax <;> simp [per, cellGrid, hp]
  have hnone : ∀ ax up X, X ∉ allGhosts L c ax up := by
    intro ax up X hX
    rw [mem_allGhosts_iff L c ax up (hcl ax), mem_gridGhosts] at hX
    obtain ⟨_, hn⟩ := hX
    cases up
    · simp only [Bool.false_eq_true, if_false, ngbDown, Option.map_eq_none_iff] at hn
      unfold down1 at hn; rw [hper ax] at hn; split_ifs at hn with h1 h2; exact h2 rfl
    · simp only [if_true, ngbUp, Option.map_eq_none_iff] at hn
      unfold up1 at hn; rw [hper ax] at hn; split_ifs at hn with h1 h2; exact h2 rfl
  intro op hop
  simp only [layoutOps, List.mem_flatMap, List.mem_append, List.mem_map] at hop
  obtain ⟨ax, _, (⟨f, hf, rfl⟩ | ⟨X, hX, _⟩) | ⟨X, hX, _⟩⟩ := hop
  · have hf' : (f.1, f.2) ∈ allFaces L c ax := hf
    rw [mem_allFaces_iff L c ax (hcl ax), mem_gridFaces] at hf'
    exact ⟨ax, f.1, f.2, rfl, (mem_allSubs _ _).mpr hf'.1,
      (mem_allSubs _ _).mpr (ngbUp_valid hf'.1 hf'.2)⟩
  · exact absurd hX (hnone ax true X)
  · exact absurd hX (hnone ax false X)

/-- **totals_conserved_periodic.**  For every layout, every number of cells per subgrid and a
fully periodic box: total mass, the three components of total momentum and total energy of the
global grid are unchanged by a hydro step (under the hypotheses of `totals_conserved`). -/
theorem totals_conserved_periodic (L : Layout) (c : Cells) (hc : 0 < c.cx ∧ 0 < c.cy ∧ 0 < c.cz)
    (hp : L.px = true ∧ L.py = true ∧ L.pz = true)
    (flux : FluxFn ℝ) (pr : Params ℝ) (limiter : HV ℝ → Grad ℝ) (predict : HV ℝ → Q ℝ)
    (s : Grid (HV ℝ))
    (h0 : ∀ x ∈ allSubs (cellGrid L c),
      (s x).dcons = ⟨0, ⟨0, 0, 0⟩, 0⟩ ∧ (s x).acc = ⟨0, 0, 0⟩ ∧ (s x).eterm = 0)
    (hclamp : ∀ x ∈ allSubs (cellGrid L c), (updateConservedTag pr.dmax
        (hydroStepFlux flux pr limiter predict (layoutOps L c) (layoutOps L c) s x) pr.dt).2 = 0) :
    let s' := hydroStep flux pr limiter predict (layoutOps L c) (layoutOps L c) s
    let cells := allSubs (cellGrid L c)
    total cells (fun x => (s' x).cons.d) = total cells (fun x => (s x).cons.d) ∧
    total cells (fun x => (s' x).cons.v.x) = total cells (fun x => (s x).cons.v.x) ∧
    total cells (fun x => (s' x).cons.v.y) = total cells (fun x => (s x).cons.v.y) ∧
    total cells (fun x => (s' x).cons.v.z) = total cells (fun x => (s x).cons.v.z) ∧
    total cells (fun x => (s' x).cons.e) = total cells (fun x => (s x).cons.e) := by
  have hops := periodic_layout_ops L c hc hp
  have hn := allSubs_nodup (cellGrid L c)
  exact ⟨totals_conserved flux pr limiter predict _ _ _ s hn hops h0 hclamp lin_mass,
    totals_conserved flux pr limiter predict _ _ _ s hn hops h0 hclamp lin_px,
    totals_conserved flux pr limiter predict _ _ _ s hn hops h0 hclamp lin_py,
    totals_conserved flux pr limiter predict _ _ _ s hn hops h0 hclamp lin_pz,
    totals_conserved flux pr limiter predict _ _ _ s hn hops h0 hclamp lin_energy⟩

/-! ## Reflective walls -/

/-- the HLLC solver of C05 (`tiny = 0`) as the flux function, face at rest -/
noncomputable def hllcFlux (g : ℝ) : FluxFn ℝ := fun rhoL uL PL rhoR uR PR n =>
  C05.hllc g rhoL uL PL rhoR uR PR n V3.zero

theorem flip_eq_mirror (i : Axis) (s : ℝ) (hs : s = 1 ∨ s = -1) (v : V3 ℝ) :
    HydroUpdate.flip i v = C05.mirrorVelocity v (unitNormal i s) V3.zero := by
  have hs2 : s * s = 1 := by rcases hs with h | h <;> rw [h] <;> norm_num
  cases i <;> ext <;>
    simp only [HydroUpdate.flip, V3'.set, V3'.get, unitNormal, V3.zero, C05.mirrorVelocity, V3.sub, V3.smul,
      V3.dot, lit0] <;> (try ring_nf) <;> (try rw [show s ^ 2 = s * s by ring, hs2]) <;>
    (try ring)

theorem orientation_pm (dx : ℝ) : orientation dx = 1 ∨ orientation dx = -1 := by
  unfold orientation; split_ifs
  · right; norm_num
  · left; norm_num

/-- **reflective_no_mass_energy.**  At a reflective box boundary the ghost state is the mirror
image of the cell (same density and pressure, reversed normal velocity — also after the
reconstruction and the per-face limiter), so by C05's `mirror_no_exchange` the wall face exchanges
no mass and no energy, as long as the reconstructed velocity towards the wall is below 1.5 sound
speeds.  Either side of the box (`dx < 0` for a lower face), any axis, any gradients, any `dt`. -/
theorem reflective_no_mass_energy (g : ℝ) (i : Axis) (L : HV ℝ) (dx A dt : ℝ)
    (hr : 0 < L.prim.d) (hP : 0 < L.prim.e)
    (hv : orientation dx * V3'.get (reconstruct 0 L.prim (L.grad.along i)
        (reflectiveRight i L.prim (L.grad.along i)).1
        (reflectiveRight i L.prim (L.grad.along i)).2 dx).vL i
      < 3 / 2 * C05.sound g L.prim.d L.prim.e) :
    (ghostFaceFlux (hllcFlux g) 0 g i L dx A dt).d = 0 ∧
      (ghostFaceFlux (hllcFlux g) 0 g i L dx A dt).e = 0 := by
  have hrc := reconstruct_reflective i L.prim (L.grad.along i) dx hr.le hP.le
  dsimp only at hrc
  obtain ⟨h1, h2, h3, h4, h5⟩ := hrc
  set rc := reconstruct 0 L.prim (L.grad.along i) (reflectiveRight i L.prim (L.grad.along i)).1
    (reflectiveRight i L.prim (L.grad.along i)).2 dx with hrcdef
  have hs := orientation_pm dx
  have hn : (unitNormal i (orientation dx) : V3 ℝ).norm2 = 1 := by
    have hs2 : orientation dx * orientation dx = 1 := by
      rcases hs with h | h <;> rw [h] <;> norm_num
    cases i <;> simp only [unitNormal, V3'.set, V3.zero, V3.norm2, lit0] <;> nlinarith
  have hdot : (rc.vL.sub V3.zero).dot (unitNormal i (orientation dx))
      = orientation dx * V3'.get rc.vL i := by
    cases i <;> simp only [unitNormal, V3'.set, V3'.get, V3.zero, V3.sub, V3.dot, lit0] <;> ring
  have hmir := C05.mirror_no_exchange g L.prim.d L.prim.e rc.vL (unitNormal i (orientation dx))
    V3.zero hr hP hn (by rw [hdot]; exact hv)
  rw [← flip_eq_mirror i _ hs] at hmir
  have hzero : (V3.zero : V3 ℝ).dot
      (C05.hllc g L.prim.d rc.vL L.prim.e L.prim.d (HydroUpdate.flip i rc.vL) L.prim.e
        (unitNormal i (orientation dx)) V3.zero).p = 0 := by
    simp only [V3.zero, V3.dot, lit0]; ring
  simp only [ghostFaceFlux, ghostFaceFluxTag, rawFlux, scaleFlux, hllcFlux, ← hrcdef, h1, h2, h3,
    h4, h5, hmir.1, hmir.2, hzero]
  constructor <;> ring


/-! ## Reconstruction: slope limiter, per-face limiter, prediction

`apply_slope_limiter`, `Hydro::limit`, the face reconstruction of `do_flux_calculation` and
`predict_primitive_variables` are modelled statement by statement in `Model/HydroUpdate.lean`
(`slopeAlpha`, `applySlopeLimiter`, `limit`, `reconstruct`, `predictPrimitive`); these are the
facts the code guarantees about them — and the ones it does not. -/

/-- **limiter_bounds.**  After `apply_slope_limiter`, for every variable whose neighbour minimum
`lo` (`Wlim[2i]`) is not above its neighbour maximum `hi` (`Wlim[2i+1]`; true as soon as one
gradient call has touched the cell) and for every axis, the extrapolation to the two faces
`± grad · dx / 2` is at most `½ · min(|hi − W|, |W − lo|)` in absolute value.  This is exactly
what the code guarantees (`alpha = min(1, ½ min(maxfac, minfac))` with one `alpha` per variable,
which is negative at a local extremum). -/
theorem limiter_bounds (dmax : ℝ) (h : HV ℝ) (dx : V3 ℝ)
    (h0 : h.lo.d ≤ h.hi.d) (h1 : h.lo.v.x ≤ h.hi.v.x) (h2 : h.lo.v.y ≤ h.hi.v.y)
    (h3 : h.lo.v.z ≤ h.hi.v.z) (h4 : h.lo.e ≤ h.hi.e) :
    let G := applySlopeLimiter dmax h dx
    let B := fun (W lo hi : ℝ) => 1 / 2 * min |hi - W| |W - lo|
    let ok := fun (g : V3 ℝ) (b : ℝ) =>
      |g.x * 0.5 * dx.x| ≤ b ∧ |g.y * 0.5 * dx.y| ≤ b ∧ |g.z * 0.5 * dx.z| ≤ b
    ok G.d (B h.prim.d h.lo.d h.hi.d) ∧ ok G.vx (B h.prim.v.x h.lo.v.x h.hi.v.x) ∧
      ok G.vy (B h.prim.v.y h.lo.v.y h.hi.v.y) ∧ ok G.vz (B h.prim.v.z h.lo.v.z h.hi.v.z) ∧
      ok G.e (B h.prim.e h.lo.e h.hi.e) :=
  ⟨limited_var_bound dmax _ _ _ _ dx h0, limited_var_bound dmax _ _ _ _ dx h1,
    limited_var_bound dmax _ _ _ _ dx h2, limited_var_bound dmax _ _ _ _ dx h3,
    limited_var_bound dmax _ _ _ _ dx h4⟩

/-- … hence a cell whose value lies between the smallest and the largest neighbour value has all
its face values in that range (stated for one variable, e.g. the density) -/
theorem limiter_within_neighbours (dmax W : ℝ) (g : V3 ℝ) (lo hi : ℝ) (dx : V3 ℝ) (hlo : lo ≤ W)
    (hhi : W ≤ hi) (gk dxk : ℝ) (hk : |gk * 0.5 * dxk| ≤ maxExt g dx) :
    let δ := gk * slopeAlpha dmax W g lo hi dx * 0.5 * dxk
    lo ≤ W + δ ∧ W + δ ≤ hi ∧ lo ≤ W - δ ∧ W - δ ≤ hi := by
  intro δ
  have hb := limited_ext_le dmax W g lo hi dx (hlo.trans hhi) gk dxk hk
  rw [abs_of_nonneg (by linarith : 0 ≤ hi - W), abs_of_nonneg (by linarith : 0 ≤ W - lo)] at hb
  have h1 : |δ| ≤ 1 / 2 * (hi - W) := hb.trans (mul_le_mul_of_nonneg_left (min_le_left _ _) (by norm_num))
  have h2 : |δ| ≤ 1 / 2 * (W - lo) := hb.trans (mul_le_mul_of_nonneg_left (min_le_right _ _) (by norm_num))
  have := abs_le.mp h1
  have := abs_le.mp h2
  refine ⟨by linarith, by linarith, by linarith, by linarith⟩

/-- **What the slope limiter does NOT guarantee:** face values between the minimum and the maximum
over the cell *and* its neighbours.  At a local extremum `alpha` is negative: a cell with value 1
whose neighbours have 0 and ½ (gradient ¼ per unit length, unit cells) gets `alpha = −2`; its face
values are `1 ∓ ¼`, i.e. one of them is 1.25 — above the largest of the seven values. -/
theorem limiter_overshoots_local_extremum :
    slopeAlpha (0 : ℝ) 1 ⟨1 / 4, 0, 0⟩ 0 (1 / 2) ⟨1, 1, 1⟩ = -2 ∧
      (1 : ℝ) - (1 / 4 * slopeAlpha (0 : ℝ) 1 ⟨1 / 4, 0, 0⟩ 0 (1 / 2) ⟨1, 1, 1⟩ * 0.5 * 1) = 5 / 4 := by
  have hE : maxExt (⟨1 / 4, 0, 0⟩ : V3 ℝ) ⟨1, 1, 1⟩ = 1 / 8 := by
    simp only [maxExt, lit05]; norm_num [abs_of_pos]
  have ha : slopeAlpha (0 : ℝ) 1 ⟨1 / 4, 0, 0⟩ 0 (1 / 2) ⟨1, 1, 1⟩ = -2 := by
    rw [slopeAlpha_eq, hE]; norm_num
  exact ⟨ha, by rw [ha, lit05]; norm_num⟩

/-- **limit_between.**  `Hydro::limit(m, a, b, ½)` (own cell value `a`, other cell `b`,
reconstructed value `m`): for `a = b` it is `a`; otherwise it is `m` clipped to an interval that
reaches three quarters of the way to `b` on one side and, on the other side, `½|a − b|` beyond `a`
(or a damped value of the same sign as `a` if that would change sign) — so the face value can lie
*beyond the own cell value, away from the neighbour*, but never beyond the neighbour. -/
theorem limit_between (m a b : ℝ) :
    (a = b → limit 0 m a b 0.5 = a) ∧
    (a < b → phiminusR a (1 / 2 * (b - a)) ≤ limit 0 m a b 0.5 ∧
      limit 0 m a b 0.5 ≤ a + 3 / 4 * (b - a) ∧ phiminusR a (1 / 2 * (b - a)) ≤ a ∧
      (phiminusR a (1 / 2 * (b - a)) ≤ m → m ≤ a + 3 / 4 * (b - a) → limit 0 m a b 0.5 = m)) ∧
    (b < a → a - 3 / 4 * (a - b) ≤ limit 0 m a b 0.5 ∧
      limit 0 m a b 0.5 ≤ phiplusR a (1 / 2 * (a - b)) ∧ a ≤ phiplusR a (1 / 2 * (a - b)) ∧
      (a - 3 / 4 * (a - b) ≤ m → m ≤ phiplusR a (1 / 2 * (a - b)) → limit 0 m a b 0.5 = m)) :=
  ⟨fun h => by rw [h, limit_self], limit_between_lt m a b, limit_between_gt m a b⟩

/-- **face_density_pressure_nonneg.**  The densities and pressures handed to the Riemann solver
are ≥ 0 for any cell states, gradients and `dx` (clamps of lines 439-442), and when the densities
and pressures of the two cells are ≥ 0 the clamps do not act: `Hydro::limit` alone already returns
a non-negative value, however negative the extrapolated value is. -/
theorem face_density_pressure_nonneg (tiny : ℝ) (WL gL WR gR : Q ℝ) (dx : ℝ) :
    (0 ≤ (reconstruct tiny WL gL WR gR dx).rhoL ∧ 0 ≤ (reconstruct tiny WL gL WR gR dx).PL ∧
      0 ≤ (reconstruct tiny WL gL WR gR dx).rhoR ∧ 0 ≤ (reconstruct tiny WL gL WR gR dx).PR) ∧
    ∀ m a b : ℝ, 0 ≤ a → 0 ≤ b → 0 ≤ limit 0 m a b 0.5 :=
  ⟨HydroUpdate.face_density_pressure_nonneg tiny WL gL WR gR dx, limit_nonneg⟩

/-- **predict_nonneg.**  After `predict_primitive_variables` density and pressure are ≥ 0 for every
cell with non-negative density and pressure, any gradients, acceleration and `dt` — thanks to the
clamps — and the unclamped predicted density is non-negative exactly when
`dt (ρ ∇·v + v·∇ρ) ≤ ρ`. -/
theorem predict_nonneg (g ovf : ℝ) (W : Q ℝ) (G : Grad ℝ) (a : V3 ℝ) (dt : ℝ)
    (hd : 0 ≤ W.d) (hp : 0 ≤ W.e) :
    (0 ≤ (predictPrimitive g ovf W G a dt).d ∧ 0 ≤ (predictPrimitive g ovf W G a dt).e) ∧
    (0 ≤ (predictRaw g W G a dt).d ↔
      dt * (W.d * (G.vx.x + G.vy.y + G.vz.z) + W.v.x * G.d.x + W.v.y * G.d.y + W.v.z * G.d.z)
        ≤ W.d) := by
  refine ⟨predictPrimitive_nonneg g ovf W G a dt hd hp, ?_⟩
  simp only [predictRaw]
  constructor <;> intro h <;> linarith

/-- **What the prediction does NOT guarantee without its clamp:** a gas at rest with unit density
in a diverging flow `∇·v = 3` predicted over `dt = ½` has the unclamped density `−½`; the code
then silently sets it to 0. -/
theorem predict_needs_clamp :
    (predictRaw (5 / 3 : ℝ) ⟨1, ⟨0, 0, 0⟩, 1⟩
      ⟨⟨0, 0, 0⟩, ⟨3, 0, 0⟩, ⟨0, 0, 0⟩, ⟨0, 0, 0⟩, ⟨0, 0, 0⟩⟩ ⟨0, 0, 0⟩ (1 / 2)).d = -(1 / 2 : ℝ) ∧
    (predictPrimitive (5 / 3 : ℝ) 0 ⟨1, ⟨0, 0, 0⟩, 1⟩
      ⟨⟨0, 0, 0⟩, ⟨3, 0, 0⟩, ⟨0, 0, 0⟩, ⟨0, 0, 0⟩, ⟨0, 0, 0⟩⟩ ⟨0, 0, 0⟩ (1 / 2)).d = 0 := by
  constructor
  · simp only [predictRaw]; norm_num
  · simp only [predictPrimitive, predictPrimitiveTag, predictRaw, feq, invOverflows, amax, lit0]
    norm_num

/-- the conservation theorem for the step with the slope limiter and the prediction of the code
(instance of `totals_conserved_periodic`, which holds for any per-cell limiter and prediction) -/
theorem totals_conserved_periodic_code (L : Layout) (c : Cells)
    (hc : 0 < c.cx ∧ 0 < c.cy ∧ 0 < c.cz) (hp : L.px = true ∧ L.py = true ∧ L.pz = true)
    (flux : FluxFn ℝ) (pr : Params ℝ) (s : Grid (HV ℝ))
    (h0 : ∀ x ∈ allSubs (cellGrid L c),
      (s x).dcons = ⟨0, ⟨0, 0, 0⟩, 0⟩ ∧ (s x).acc = ⟨0, 0, 0⟩ ∧ (s x).eterm = 0)
    (hclamp : ∀ x ∈ allSubs (cellGrid L c), (updateConservedTag pr.dmax
        (hydroStepFlux flux pr (codeLimiter pr) (codePredict pr) (layoutOps L c) (layoutOps L c) s x)
        pr.dt).2 = 0) :
    let s' := hydroStepCode flux pr (layoutOps L c) (layoutOps L c) s
    let cells := allSubs (cellGrid L c)
    total cells (fun x => (s' x).cons.d) = total cells (fun x => (s x).cons.d) ∧
    total cells (fun x => (s' x).cons.v.x) = total cells (fun x => (s x).cons.v.x) ∧
    total cells (fun x => (s' x).cons.v.y) = total cells (fun x => (s x).cons.v.y) ∧
    total cells (fun x => (s' x).cons.v.z) = total cells (fun x => (s x).cons.v.z) ∧
    total cells (fun x => (s' x).cons.e) = total cells (fun x => (s x).cons.e) :=
  totals_conserved_periodic L c hc hp flux pr (codeLimiter pr) (codePredict pr) s h0 hclamp

/-! ## Hypotheses that hold by construction -/

/-- **limiter_premise_holds.**  The premise `lo ≤ hi` of `limiter_bounds` need not be assumed:
after the gradient sweeps of any layout, in every cell of the grid and for all five variables the
neighbour minimum is at most the neighbour maximum — whatever the limiter arrays contained before
(every cell is the left cell of a pair call or of a boundary call along `x`, and one call sets
`lo ← min(lo, W)`, `hi ← max(hi, W)` with the same neighbour value `W`). -/
theorem limiter_premise_holds (L : Layout) (c : Cells) (hc : 0 < c.cx ∧ 0 < c.cy ∧ 0 < c.cz)
    (pr : Params ℝ) (s : Grid (HV ℝ)) (x : Cell) (hx : valid (cellGrid L c) x = true) :
    LoHi (runOps (gradPhys pr) s (layoutOps L c) x) :=
  loHi_runOps pr _ s x (Or.inr (valid_cell_touched L c hc hx))

/-- **step_resets_accumulators.**  A hydro step leaves every cell with zero pending changes
`delta_conserved`, zero energy source term and the gravitational acceleration it had: the state
after a step satisfies the start-of-step hypotheses of `totals_conserved` again. -/
theorem step_resets_accumulators (flux : FluxFn ℝ) (pr : Params ℝ) (limiter : HV ℝ → Grad ℝ)
    (predict : HV ℝ → Q ℝ) (gradOps fluxOps : List Op) (s : Grid (HV ℝ)) (x : Cell) :
    (hydroStep flux pr limiter predict gradOps fluxOps s x).dcons = ⟨0, ⟨0, 0, 0⟩, 0⟩ ∧
      (hydroStep flux pr limiter predict gradOps fluxOps s x).eterm = 0 ∧
      (hydroStep flux pr limiter predict gradOps fluxOps s x).acc = (s x).acc := by
  obtain ⟨_, f2, _⟩ := hydroStepFlux_fields flux pr limiter predict gradOps fluxOps s x
  obtain ⟨r1, r2, r3, _⟩ := updateConserved_resets pr.dmax
    (hydroStepFlux flux pr limiter predict gradOps fluxOps s x) pr.dt
  simp only [hydroStep, mapCells]
  exact ⟨r1, r2, r3.trans f2⟩

/-- a run of several steps (one `Params` per step: the time step changes), same calls every step -/
noncomputable def runSteps (flux : FluxFn ℝ) (limiter : Params ℝ → HV ℝ → Grad ℝ)
    (predict : Params ℝ → HV ℝ → Q ℝ) (ops : List Op) : List (Params ℝ) → Grid (HV ℝ) → Grid (HV ℝ)
  | [], s => s
  | pr :: prs, s => runSteps flux limiter predict ops prs
      (hydroStep flux pr (limiter pr) (predict pr) ops ops s)

/-- no positivity clamp fires in any step of the run -/
def NoClamp (flux : FluxFn ℝ) (limiter : Params ℝ → HV ℝ → Grad ℝ)
    (predict : Params ℝ → HV ℝ → Q ℝ) (ops : List Op) (cells : List Cell) :
    List (Params ℝ) → Grid (HV ℝ) → Prop
  | [], _ => True
  | pr :: prs, s =>
    (∀ x ∈ cells, (updateConservedTag pr.dmax
      (hydroStepFlux flux pr (limiter pr) (predict pr) ops ops s x) pr.dt).2 = 0) ∧
    NoClamp flux limiter predict ops cells prs (hydroStep flux pr (limiter pr) (predict pr) ops ops s)

/-- **totals_conserved_run.**  Any number of steps with any time steps: the totals after the run
equal the totals before it, as long as no clamp fires.  The start-of-step hypothesis (no pending
changes, no gravity, no source term) is only needed for the FIRST step — every step re-establishes
it (`step_resets_accumulators`). -/
theorem totals_conserved_run (flux : FluxFn ℝ) (limiter : Params ℝ → HV ℝ → Grad ℝ)
    (predict : Params ℝ → HV ℝ → Q ℝ) (ops : List Op) (cells : List Cell) (hn : cells.Nodup)
    (hper : ∀ op ∈ ops, ∃ ax l r, op = .pair ax l r ∧ l ∈ cells ∧ r ∈ cells)
    {φ : Q ℝ → ℝ} (hφ : Lin φ) (prs : List (Params ℝ)) (s : Grid (HV ℝ))
    (h0 : ∀ x ∈ cells, (s x).dcons = ⟨0, ⟨0, 0, 0⟩, 0⟩ ∧ (s x).acc = ⟨0, 0, 0⟩ ∧ (s x).eterm = 0)
    (hclamp : NoClamp flux limiter predict ops cells prs s) :
    total cells (fun x => φ (runSteps flux limiter predict ops prs s x).cons)
      = total cells (fun x => φ (s x).cons) := by
  induction prs generalizing s with
  | nil => rfl
  | cons pr prs ih =>
    obtain ⟨hc1, hc2⟩ := hclamp
    have h0' : ∀ x ∈ cells,
        (hydroStep flux pr (limiter pr) (predict pr) ops ops s x).dcons = ⟨0, ⟨0, 0, 0⟩, 0⟩ ∧
        (hydroStep flux pr (limiter pr) (predict pr) ops ops s x).acc = ⟨0, 0, 0⟩ ∧
        (hydroStep flux pr (limiter pr) (predict pr) ops ops s x).eterm = 0 := by
      intro x hx
      obtain ⟨a, b, c⟩ := step_resets_accumulators flux pr (limiter pr) (predict pr) ops ops s x
      exact ⟨a, c.trans (h0 x hx).2.1, b⟩
    show total cells (fun x => φ (runSteps flux limiter predict ops prs
      (hydroStep flux pr (limiter pr) (predict pr) ops ops s) x).cons) = _
    rw [ih _ h0' hc2]
    exact totals_conserved flux pr (limiter pr) (predict pr) ops ops cells s hn hper h0 hc1 hφ

/-! ## Inflow and outflow boundaries -/

/-- **inflow_boundary_is_free.**  At an inflow boundary — and at an outflow boundary when the gas
of the cell moves out of the box — the ghost cell is a copy of the cell: both states handed to the
Riemann solver are the cell-centred state whatever the gradients, so the boundary flux is the flux
of two identical states (for HLLC the analytic Euler flux, C05 `hllc_identical`). -/
theorem inflow_boundary_is_free (i : Axis) (s : ℝ) (W g : Q ℝ) (dx : ℝ) (hd : 0 ≤ W.d)
    (hp : 0 ≤ W.e) :
    (reconstruct 0 W g (ghostFluxRight .inflow i s W g).1 (ghostFluxRight .inflow i s W g).2 dx
        = ⟨W.d, W.v, W.e, W.d, W.v, W.e⟩) ∧
    (0 ≤ s * V3'.get W.v i →
      reconstruct 0 W g (ghostFluxRight .outflow i s W g).1 (ghostFluxRight .outflow i s W g).2 dx
        = ⟨W.d, W.v, W.e, W.d, W.v, W.e⟩) :=
  ⟨inflow_states i s W g dx hd hp, fun h => outflow_states_outgoing i s W g dx hd hp h⟩

/-- **outflow_boundary_blocks_inflow.**  At an outflow boundary with gas moving INTO the box the
ghost state has the same density, pressure and tangential velocities and exactly the reversed
cell-centred normal velocity; the cell side carries its reconstructed normal velocity.  (Only when
that equals the cell value — e.g. zero gradient — are the two states mirror images and the face
closed like a reflecting wall; in general a small flux remains: the code does not guarantee more.) -/
theorem outflow_boundary_blocks_inflow (i : Axis) (s : ℝ) (W g : Q ℝ) (dx : ℝ) (hd : 0 ≤ W.d)
    (hp : 0 ≤ W.e) (hin : s * V3'.get W.v i < 0) :
    let r := ghostFluxRight .outflow i s W g
    let rc := reconstruct 0 W g r.1 r.2 dx
    rc.rhoL = W.d ∧ rc.rhoR = W.d ∧ rc.PL = W.e ∧ rc.PR = W.e ∧
      V3'.get rc.vR i = -(V3'.get W.v i) ∧
      (∀ j, j ≠ i → V3'.get rc.vR j = V3'.get W.v j ∧ V3'.get rc.vL j = V3'.get W.v j) :=
  outflow_states_incoming i s W g dx hd hp hin

/-- the reflective case of the general boundary functions is the function the wall theorem is about -/
theorem boundary_reflective_case (flux : FluxFn ℝ) (tiny g : ℝ) (i : Axis) (L : HV ℝ) (dx A dt : ℝ) :
    ghostFaceFluxB .reflective flux tiny g i L dx A dt = ghostFaceFlux flux tiny g i L dx A dt := rfl

/-! ## The time step restriction does not keep the masses non-negative -/

/-- the uniform gas of the counterexample: `ρ = 1`, `P = 3/5` (sound speed 1 for `γ = 5/3`), moving
along `+z` at half the sound speed, in a cell of height `ε` and unit base area -/
noncomputable def flatCell (ε : ℝ) : HV ℝ :=
  { prim := ⟨1, ⟨0, 0, 1 / 2⟩, 3 / 5⟩, grad := Grad.zero, lo := ⟨0, ⟨0, 0, 0⟩, 0⟩, hi := ⟨0, ⟨0, 0, 0⟩, 0⟩,
    cons := ⟨ε, ⟨0, 0, ε / 2⟩, 41 / 40 * ε⟩, dcons := ⟨0, ⟨0, 0, 0⟩, 0⟩, acc := ⟨0, 0, 0⟩, eterm := 0 }

theorem flat_raw (ε dx : ℝ) :
    (rawFlux (hllcFlux (5 / 3)) (reconstruct 0 (flatCell ε).prim ((flatCell ε).grad.along .z)
      (flatCell ε).prim ((flatCell ε).grad.along .z) dx) (unitNormal .z 1.0) 1).d = 1 / 2 ∧
    (rawFlux (hllcFlux (5 / 3)) (reconstruct 0 (flatCell ε).prim ((flatCell ε).grad.along .z)
      (flatCell ε).prim ((flatCell ε).grad.along .z) dx) (unitNormal .z 1.0) 1).e = 13 / 16 := by
  have hid := C05.hllc_identical (5 / 3) 1 (3 / 5) ⟨0, 0, 1 / 2⟩ (unitNormal .z 1.0) V3.zero
    (by norm_num) (by norm_num)
  have hG : effGamma (5 / 3 : ℝ) = 5 / 3 := effGamma_eq _ (by norm_num)
  rw [reconstruct_copy _ _ _ _ (by norm_num [flatCell]) (by norm_num [flatCell])]
  simp only [rawFlux, hllcFlux, flatCell]
  obtain ⟨hm, _, he⟩ := hid
  rw [hm, he]
  simp only [C05.eulerFlux, Flux.boost, hG, unitNormal, V3'.set, V3.zero, V3.sub, V3.dot, V3.norm2,
    V3.smul, V3.add, lit0, lit1]
  constructor <;> norm_num

theorem flat_fac (ε dt : ℝ) (pv : V3 ℝ) (hε : 0 < ε) (hdt : 8 * ε ≤ dt) :
    (fluxFac (5 / 3) fluxLimiter (1 / 2) pv (13 / 16) dt (flatCell ε) (flatCell ε)).1
      = 41 / 20 * ε / (13 / 16 * dt) := by
  have h2 : (fluxLimiter : ℝ) = 2 := by unfold fluxLimiter; norm_num
  have hdt0 : 0 < dt := by linarith
  have c1 : 2 * ε < 1 / 2 * dt := by linarith
  have c2 : ¬ (2 * ε < -(1 / 2 * dt)) := by intro h; linarith
  have c3 : 2 * (41 / 40 * ε) < 13 / 16 * dt := by linarith
  have c4 : ¬ (2 * (41 / 40 * ε) < -(13 / 16 * dt)) := by intro h; linarith
  have c5 : ¬ ((5 / 3 : ℝ) * (ε * ε) * (3 / 5) < (0 * 0 + 0 * 0 + ε / 2 * (ε / 2)) * 1) := by
    intro h; nlinarith [mul_pos hε hε]
  have hg : (1.0 : ℝ) < 5 / 3 := by norm_num
  simp only [fluxFac, flatCell, h2, V3.norm2, c1, c2, c3, c4, c5, hg, decide_true, decide_false,
    Bool.and_true, Bool.false_and, Bool.true_and, if_true, if_false, Bool.false_eq_true, amin_real]
  rw [min_eq_right]
  · ring
  · rw [div_le_div_iff₀ (by positivity) (by positivity)]
    nlinarith [mul_pos hε hdt0]

/-- **cfl_does_not_keep_mass_nonneg.**  A machine-checked counterexample to "the time step
restriction keeps the masses non-negative": uniform gas (`ρ = 1`, `P = 3/5`, sound speed 1,
`γ = 5/3`) moves at Mach ½ away from a reflecting wall; the cell at the wall has unit base area and
height `ε`, its neighbour above is identical.  For every time step `dt ≥ 8 ε` the wall face lets no
mass through, the upper face removes — after the flux limiter, here its energy condition — 82/65
of the cell's mass, so the updated mass is `−17/65 ε < 0` and the positivity clamp resets it to 0
(mass is created).  The code's own time step admits such a `dt` for flat cells because
`get_timestep` only knows the cell VOLUME (`code_timestep_allows_it`). -/
theorem cfl_does_not_keep_mass_nonneg (ε dt dmax : ℝ) (hε : 0 < ε) (hdt : 8 * ε ≤ dt) :
    let L := flatCell ε
    let top := faceFlux (hllcFlux (5 / 3)) 0 (5 / 3) .z L L ε 1 dt
    let bot := ghostFaceFlux (hllcFlux (5 / 3)) 0 (5 / 3) .z L (-ε) 1 dt
    let L' : HV ℝ := { L with dcons := (L.dcons.sub top).sub bot }
    bot.d = 0 ∧ L'.cons.d + L'.dcons.d * dt = -(17 / 65) * ε ∧
      (updateConservedTag dmax L' dt).2 % 2 = 1 ∧ (updateConserved dmax L' dt).cons.d = 0 := by
  intro L top bot L'
  have hdt0 : 0 < dt := by linarith
  -- the wall face: receding gas, nothing passes
  have hbot : bot.d = 0 := by
    refine (reflective_no_mass_energy (5 / 3) .z L (-ε) 1 dt (by norm_num [L, flatCell])
      (by norm_num [L, flatCell]) ?_).1
    have ho : orientation (-ε) = -1 := by
      unfold orientation; rw [lit0, if_pos (by linarith)]; norm_num
    have hs : 0 ≤ C05.sound (5 / 3) L.prim.d L.prim.e := Real.sqrt_nonneg _
    rw [ho]
    simp only [L, flatCell, reconstruct, reflectiveRight, Grad.along, Grad.zero, V3'.get, V3'.set,
      V3.zero, lit0, mul_zero, add_zero, limit_own_value]
    have : (0 : ℝ) ≤ 3 / 2 * C05.sound (5 / 3) 1 (3 / 5) := by
      have := hs; simp only [L, flatCell] at this; linarith
    linarith
  -- the upper face: half the mass flux of the uniform state times the limiter factor
  have htop : top.d = 1 / 2 * (41 / 20 * ε / (13 / 16 * dt)) := by
    obtain ⟨hd, he⟩ := flat_raw ε ε
    simp only [top, faceFlux, faceFluxTag, scaleFlux, L]
    rw [hd, he, flat_fac ε dt _ hε hdt]
  have hm : L'.cons.d + L'.dcons.d * dt = -(17 / 65) * ε := by
    simp only [L', L, flatCell, Q.sub]
    rw [hbot, htop]
    field_simp
    ring
  refine ⟨hbot, hm, ?_, ?_⟩
  · have hneg : L'.cons.d + L'.dcons.d * dt < 0 := by rw [hm]; nlinarith
    simp only [updateConservedTag, lit0, if_pos hneg]
    split_ifs <;> omega
  · have hneg : L'.cons.d + L'.dcons.d * dt < 0 := by rw [hm]; nlinarith
    simp only [updateConserved, updateConservedTag, amax, lit0, if_pos hneg]

/-- the time step the code computes for that cell with `ε = 1/4000` (`Hydro::get_timestep` times
the default CFL factor 0.2) is at least `16 ε`: even after the time line has rounded it down to a
power-of-two fraction (at most a factor 2) it is above the `8 ε` of the counterexample -/
theorem code_timestep_allows_it :
    16 * (1 / 4000 : ℝ) ≤ 0.2 * getTimestep (5 / 3) 0 0 0.3183098861837907 (1 / 3)
      (flatCell (1 / 4000)).prim (1 / 4000) := by
  have hcs : cellSoundSpeed (5 / 3 : ℝ) 0 0 (flatCell (1 / 4000)).prim = 1 := by
    simp only [cellSoundSpeed, flatCell, invOverflows, lit0, lit1]
    norm_num
  have hv : ArithFns.sqrt ((flatCell (1 / 4000)).prim.v.norm2 : ℝ) = 1 / 2 := by
    simp only [flatCell, V3.norm2]
    show Real.sqrt _ = _
    rw [show (0 * 0 + 0 * 0 + 1 / 2 * (1 / 2) : ℝ) = (1 / 2) ^ 2 by norm_num,
      Real.sqrt_sq (by norm_num)]
  have hR : (3 / 100 : ℝ) ≤ ArithFns.pow (0.75 * (1 / 4000) * 0.3183098861837907 : ℝ) (1 / 3) := by
    show (3 / 100 : ℝ) ≤ Real.rpow _ _
    have h3 : ((3 / 100 : ℝ) ^ (3 : ℕ)) ^ ((3 : ℕ) : ℝ)⁻¹ = 3 / 100 :=
      Real.pow_rpow_inv_natCast (by norm_num) (by norm_num)
    rw [← h3]
    have : ((3 : ℕ) : ℝ)⁻¹ = (1 / 3 : ℝ) := by norm_num
    rw [this]
    exact Real.rpow_le_rpow (by norm_num) (by norm_num) (by norm_num)
  simp only [getTimestep, hcs, hv]
  generalize ArithFns.pow (0.75 * (1 / 4000) * 0.3183098861837907 : ℝ) (1 / 3) = R at hR ⊢
  have e : (0.2 : ℝ) * (R / (1 + 1 / 2)) = R * (2 / 15) := by norm_num; ring
  rw [e]
  linarith
/-! ## Physical states -/

/-- **nonneg_after_step.**  After the conserved update every mass and energy is ≥ 0, after the
primitive update every density and pressure is ≥ 0 — for every cell state whatsoever (any fluxes,
any `dt`): the state of every cell after `hydroStep`. -/
theorem nonneg_after_step (flux : FluxFn ℝ) (pr : Params ℝ) (limiter : HV ℝ → Grad ℝ)
    (predict : HV ℝ → Q ℝ) (gradOps fluxOps : List Op) (s : Grid (HV ℝ)) (x : Cell) :
    let h := hydroStep flux pr limiter predict gradOps fluxOps s x
    0 ≤ h.cons.d ∧ 0 ≤ h.cons.e ∧ 0 ≤ h.prim.d ∧ 0 ≤ h.prim.e := by
  simp only [hydroStep, mapCells]
  exact ⟨(updateConserved_nonneg _ _ _).1, (updateConserved_nonneg _ _ _).2,
    (setPrimitive_nonneg _ _ _ _ _).1, (setPrimitive_nonneg _ _ _ _ _).2⟩

/-- non-vacuity of `reflective_no_mass_energy`: a cell at rest with unit density and pressure -/
example : ∃ (L : HV ℝ), 0 < L.prim.d ∧ 0 < L.prim.e ∧
    orientation (1 : ℝ) * V3'.get (reconstruct 0 L.prim (L.grad.along .x)
        (reflectiveRight .x L.prim (L.grad.along .x)).1
        (reflectiveRight .x L.prim (L.grad.along .x)).2 1).vL .x
      < 3 / 2 * C05.sound (5 / 3) L.prim.d L.prim.e := by
  refine ⟨⟨⟨1, ⟨0, 0, 0⟩, 1⟩, Grad.zero, ⟨0, ⟨0, 0, 0⟩, 0⟩, ⟨0, ⟨0, 0, 0⟩, 0⟩, ⟨1, ⟨0, 0, 0⟩, 1⟩,
    ⟨0, ⟨0, 0, 0⟩, 0⟩, ⟨0, 0, 0⟩, 0⟩, by norm_num, by norm_num, ?_⟩
  have hs : 0 < C05.sound (5 / 3) 1 1 := by
    unfold C05.sound
    apply Real.sqrt_pos.mpr
    have := effGamma_gt_one (5 / 3 : ℝ)
    rw [lit1]; norm_num; linarith
  simp only [reconstruct, reflectiveRight, Grad.along, Grad.zero, V3'.get, V3'.set, V3.zero, lit0,
    mul_zero, add_zero, neg_zero, sub_zero]
  rw [limit_self]
  linarith

end CMacVerif.C04
