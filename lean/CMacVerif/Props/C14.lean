import CMacVerif.Lemmas.Rotation
import Mathlib.Tactic.SplitIfs
/-!
# C14 — restart dumps are rotated safely and the last good dump is never destroyed

Model: `CMacVerif/Model/Rotation.lean` (file system as a map, the primitive operations of
`RestartManager::get_restart_writer` in code order).  Dumped states are numbered 1, 2, 3, ….
-/
namespace CMacVerif.Rotation

/-- `omega` after unfolding every `min` -/
local macro "omega_min" : tactic =>
  `(tactic| (simp only [Nat.min_def] at *; split_ifs at * <;> omega))

/-- the directory the property asks for after `k` dumps with `n` configured backups:
the newest state in the main file, the `min n (k-1)` previous ones newest-first in the backup
files, and no other file -/
def Good (n k : Nat) (fs : FS) : Prop :=
  fs .dump = (if k = 0 then none else some ⟨k, true⟩) ∧
  ∀ i, fs (.back i) = if i < min n (k - 1) then some ⟨k - 1 - i, true⟩ else none

/-- **Taking a new dump never fails and leaves the right files**, for every number of
configured backups and every number of dumps. -/
theorem after_k_dumps (n k : Nat) :
    ∃ fs, dumps startFixed n k = some (fs, ⟨n, min n (k - 1), k⟩) ∧ Good n k fs := by
  induction k with
  | zero =>
    refine ⟨FS.empty, ?_, ?_, ?_⟩
    · simp [dumps, RM.fresh]
    · simp [FS.empty]
    · intro i; simp [FS.empty]
  | succ k ih =>
    obtain ⟨fs, hd, hdump, hback⟩ := ih
    simp only [dumps, hd, dumpOps]
    by_cases hn : n = 0
    · subst hn
      refine ⟨((fs.set .dump (some ⟨0, false⟩)).set .dump (some ⟨k+1, false⟩)).set .dump (some ⟨k+1, true⟩), ?_, ?_, ?_⟩
      · simp [execAll, exec]
      · simp [FS.set]
      · intro i
        have := hback i
        simp only [FS.set, reduceCtorEq, if_false]
        rw [this]; simp
    · have hn' : n > 0 := Nat.pos_of_ne_zero hn
      have hne : ∀ j, j < startFixed n (min n (k - 1)) → fs (.back j) ≠ none := by
        intro j hj
        rw [hback j]
        unfold startFixed at hj
        have : j < min n (k - 1) := by omega
        simp [this]
      simp only [hn', ↓reduceIte, List.append_assoc, true_and]
      rw [shift_exec _ _ _ hne]
      by_cases hk : k = 0
      · subst hk
        refine ⟨(((shifted fs (startFixed n (min n (0 - 1)))).set .dump (some ⟨0, false⟩)).set .dump (some ⟨0+1, false⟩)).set .dump (some ⟨0+1, true⟩), ?_, ?_, ?_⟩
        · simp [execAll, exec]
        · simp [FS.set]
        · intro i
          have h0 : startFixed n (min n (0 - 1)) = 0 := by unfold startFixed; omega
          simp only [FS.set, reduceCtorEq, if_false, h0, shifted_zero]
          rw [hback i]
      · have hk' : k > 0 := Nat.pos_of_ne_zero hk
        have hdump' : (shifted fs (startFixed n (min n (k - 1)))) .dump = some ⟨k, true⟩ := by
          simp only [shifted, hdump, hk, if_false]
        refine ⟨(((((shifted fs (startFixed n (min n (k - 1)))).set (.back 0) (some ⟨k, true⟩)).set .dump none).set .dump (some ⟨0, false⟩)).set .dump (some ⟨k+1, false⟩)).set .dump (some ⟨k+1, true⟩), ?_, ?_, ?_⟩
        · simp only [hk', ↓reduceIte, List.cons_append, List.nil_append, execAll, exec, hdump',
            Option.map_some]
          congr 2
          have : k - 1 < n ∨ n ≤ k - 1 := Nat.lt_or_ge _ _
          simp only [RM.mk.injEq, true_and, Nat.add_sub_cancel]
          exact ⟨by omega_min, trivial⟩
        · simp [FS.set]
        · intro i
          simp only [FS.set, reduceCtorEq, if_false, Name.back.injEq, shifted, startFixed,
            Nat.add_sub_cancel]
          have hb := hback
          by_cases hi0 : i = 0
          · subst hi0
            have : 0 < min n k := by omega_min
            simp [this]
          · simp only [hi0, if_false]
            by_cases him : i ≤ min (n - 1) (min n (k - 1))
            · simp only [him, if_true]
              rw [hb]
              have h1 : i - 1 < min n (k - 1) := by omega_min
              have h2 : i < min n k := by omega_min
              simp only [h1, h2, if_true]
              congr 2; omega
            · simp only [him, if_false]
              rw [hb]
              have h1 : ¬ i < min n (k - 1) := by omega_min
              have h2 : ¬ i < min n k := by omega_min
              simp only [h1, h2, if_false]

/-- corollary in words: after `k ≥ 1` dumps the main file holds the newest state, complete -/
theorem newest_in_dump (n k : Nat) (hk : 0 < k) :
    ∃ fs rm, dumps startFixed n k = some (fs, rm) ∧ fs .dump = some ⟨k, true⟩ := by
  obtain ⟨fs, h, hd, _⟩ := after_k_dumps n k
  exact ⟨fs, _, h, by rw [hd]; simp; omega⟩

/-- **Crash safety.**  With at least one backup configured, whatever prefix of the
operations of dump `k+1` was executed when the process died, a complete dump of the previous
state `k` is on disk (in the main file or in the first backup). -/
theorem crash_safe (n k : Nat) (hn : 0 < n) (hk : 0 < k) (fs : FS) (h : Good n k fs) :
    ∀ fs' ∈ prefixes fs (dumpOps startFixed ⟨n, min n (k - 1), k⟩ (k + 1)).1,
      fs' .dump = some ⟨k, true⟩ ∨ fs' (.back 0) = some ⟨k, true⟩ := by
  obtain ⟨hdump, hback⟩ := h
  have hdump : fs .dump = some ⟨k, true⟩ := by rw [hdump]; simp; omega
  intro fs' hfs'
  simp only [dumpOps, hn, hk, ↓reduceIte, List.append_assoc] at hfs'
  have hne : ∀ j, j < startFixed n (min n (k - 1)) → fs (.back j) ≠ none := by
    intro j hj
    rw [hback j]
    unfold startFixed at hj
    have : j < min n (k - 1) := by omega
    simp [this]
  rcases shift_prefixes _ fs _ hne fs' hfs' with hd | hp
  · left; rw [hd, hdump]
  · have hdump' : (shifted fs (startFixed n (min n (k - 1)))) .dump = some ⟨k, true⟩ := by
      simp only [shifted, hdump]
    simp only [List.cons_append, List.nil_append, prefixes, exec, hdump', List.mem_cons,
      List.not_mem_nil, or_false] at hp
    rcases hp with rfl | rfl | rfl | rfl | rfl
    · left; exact hdump'
    all_goals (right; simp [FS.set])

/-- without any backup the truncating open destroys the only copy: the hypothesis
"at least one backup is configured" of the property is needed -/
theorem no_backup_not_crash_safe :
    ∃ fs' ∈ prefixes (fun nm => if nm = .dump then some ⟨1, true⟩ else none)
        (dumpOps startFixed ⟨0, 0, 1⟩ 2).1,
      ∀ nm, fs' nm ≠ some ⟨1, true⟩ := by
  refine ⟨FS.set (fun nm => if nm = .dump then some ⟨1, true⟩ else none) .dump (some ⟨0, false⟩), ?_, ?_⟩
  · simp [dumpOps, prefixes, exec]
  · intro nm; simp only [FS.set]; split_ifs <;> simp

/-- the code before the fix (`min(max-1, nb-1)` on unsigned integers) aborts on the very first
dump as soon as two backups are configured -/
theorem old_code_first_dump_fails : (dumps startOld 2 1).isNone = true := by
  simp [dumps, dumpOps, startOld, RM.fresh, shiftOps, execAll, exec, FS.empty]

/-- non-vacuity: three dumps with two backups -/
example : ∃ fs, dumps startFixed 2 3 = some (fs, ⟨2, 2, 3⟩) ∧ fs .dump = some ⟨3, true⟩
    ∧ fs (.back 0) = some ⟨2, true⟩ ∧ fs (.back 1) = some ⟨1, true⟩ ∧ fs (.back 2) = none := by
  obtain ⟨fs, h, hd, hb⟩ := after_k_dumps 2 3
  exact ⟨fs, h, by simpa using hd, by simpa using hb 0, by simpa using hb 1, by simpa using hb 2⟩

/-! ## Histories with restarts (the process is stopped and started again with `--restart`) -/

/-- what every reachable directory satisfies: `nb ≤ maxB`, a manager that has not dumped yet has
no backups on its books, the first `nb` backup files exist, and once this process has dumped the
main file is complete -/
def HInv (st : FS × RM) : Prop :=
  st.2.nb ≤ st.2.maxB ∧ (st.2.nr = 0 → st.2.nb = 0) ∧ (∀ j, j < st.2.nb → st.1 (.back j) ≠ none) ∧
  (0 < st.2.nr → ∃ v, st.1 .dump = some ⟨v, true⟩)

/-- **A dump started from any directory that satisfies `HInv` never aborts**, leaves the new
state complete in the main file and re-establishes `HInv`. -/
theorem dump_from_inv (fs : FS) (rm : RM) (v : Nat) (h : HInv (fs, rm)) :
    ∃ fs', execAll fs (dumpOps startFixed rm v).1 = some fs' ∧ fs' .dump = some ⟨v, true⟩ ∧
      HInv (fs', (dumpOps startFixed rm v).2) := by
  obtain ⟨hle, h0, hb, hd⟩ := h
  simp only at hle h0 hb hd
  by_cases hm : rm.maxB > 0
  · by_cases hr : rm.nr > 0
    · obtain ⟨u, hu⟩ := hd hr
      have hne : ∀ j, j < startFixed rm.maxB rm.nb → fs (.back j) ≠ none := by
        intro j hj; apply hb; unfold startFixed at hj; omega_min
      have hsd : (shifted fs (startFixed rm.maxB rm.nb)) .dump = some ⟨u, true⟩ := by
        simp only [shifted, hu]
      simp only [dumpOps, hm, hr, ↓reduceIte, List.append_assoc]
      rw [shift_exec _ fs _ hne]
      simp only [List.cons_append, List.nil_append, execAll, exec, hsd]
      refine ⟨_, rfl, ?_, ?_⟩
      · simp [FS.set]
      · refine ⟨?_, ?_, ?_, ?_⟩
        · simp only; split_ifs <;> omega
        · simp only; intro h; omega
        · intro j hj
          simp only at hj
          simp only [FS.set, reduceCtorEq, if_false, Name.back.injEq]
          by_cases hj0 : j = 0
          · subst hj0; simp
          · have hjs : j ≤ startFixed rm.maxB rm.nb := by
              unfold startFixed; split_ifs at hj <;> omega_min
            have hjm : j - 1 < rm.nb := by unfold startFixed at hjs; omega_min
            simp only [hj0, if_false, shifted, hjs, if_true]
            exact hb _ hjm
        · intro _; exact ⟨v, by simp [FS.set]⟩
    · have hr0 : rm.nr = 0 := by omega
      have hnb := h0 hr0
      simp only [dumpOps, hm, hr, ↓reduceIte, List.append_nil, hnb, startFixed, Nat.min_zero,
        shiftOps, List.nil_append, execAll, exec]
      refine ⟨_, rfl, ?_, ?_⟩
      · simp [FS.set]
      · refine ⟨?_, ?_, ?_, ?_⟩
        · simp only; split_ifs <;> omega
        · simp only; intro h; omega
        · intro j hj; simp only [hr, and_false, false_and, if_false] at hj; omega
        · intro _; exact ⟨v, by simp [FS.set]⟩
  · have hm0 : rm.maxB = 0 := by omega
    have hnb : rm.nb = 0 := by omega
    simp only [dumpOps, hm, ↓reduceIte, List.nil_append, execAll, exec]
    refine ⟨_, rfl, ?_, ?_⟩
    · simp [FS.set]
    · refine ⟨?_, ?_, ?_, ?_⟩
      · simp only; split_ifs <;> omega
      · simp only; intro h; omega
      · intro j hj; simp only [hm, false_and, if_false] at hj; omega
      · intro _; exact ⟨v, by simp [FS.set]⟩

/-- `HInv` holds initially, and a restart keeps it (fresh manager, same files) -/
theorem hstep_inv (st : FS × RM) (o : HOp) (h : HInv st) : ∃ st', hstep st o = some st' ∧ HInv st' := by
  cases o with
  | dump v =>
    obtain ⟨fs', he, _, hi⟩ := dump_from_inv st.1 st.2 v h
    exact ⟨(fs', (dumpOps startFixed st.2 v).2), by simp [hstep, he], hi⟩
  | reboot =>
    refine ⟨(st.1, RM.fresh st.2.maxB), rfl, ?_⟩
    simp [HInv, RM.fresh]

/-- **Every history of dumps and restarts runs to its end** (no dump ever aborts on a failed
rename), for every number of configured backups. -/
theorem history_never_aborts (n : Nat) (hist : List HOp) :
    ∃ st, hrun (FS.empty, RM.fresh n) hist = some st ∧ HInv st := by
  have gen : ∀ (hist : List HOp) (st : FS × RM), HInv st → ∃ st', hrun st hist = some st' ∧ HInv st' := by
    intro hist
    induction hist with
    | nil => intro st h; exact ⟨st, rfl, h⟩
    | cons o os ih =>
      intro st h
      obtain ⟨st1, h1, hi1⟩ := hstep_inv st o h
      obtain ⟨st2, h2, hi2⟩ := ih st1 hi1
      exact ⟨st2, by simp [hrun, h1, h2], hi2⟩
  exact gen hist _ (by simp [HInv, RM.fresh])

/-- … and **the newest state is in the main dump file, complete**, after any history that ends
with a dump -/
theorem history_newest_in_dump (n : Nat) (hist : List HOp) (v : Nat) :
    ∃ st, hrun (FS.empty, RM.fresh n) (hist ++ [.dump v]) = some st ∧ st.1 .dump = some ⟨v, true⟩ := by
  obtain ⟨st, hs, hi⟩ := history_never_aborts n hist
  obtain ⟨fs', he, hd, _⟩ := dump_from_inv st.1 st.2 v hi
  have happ : ∀ (l : List HOp) (a b : FS × RM), hrun a l = some b →
      hrun a (l ++ [.dump v]) = hstep b (.dump v) := by
    intro l
    induction l with
    | nil => intro a b h; simp only [hrun] at h; cases h; simp only [List.nil_append, hrun]; cases hstep a (.dump v) <;> rfl
    | cons o os ih =>
      intro a b h
      simp only [hrun] at h
      cases ho : hstep a o with
      | none => simp [ho] at h
      | some a' => simp only [ho] at h; simp only [List.cons_append, hrun, ho]; exact ih a' b h
  refine ⟨(fs', (dumpOps startFixed st.2 v).2), ?_, hd⟩
  rw [happ hist _ st hs]
  simp [hstep, he]

/-- **Crash safety in every history**: in ANY reachable directory (any mix of dumps and
restarts before), if at least one backup is configured and THIS process has dumped before
(`nr > 0`), then whatever prefix of the next dump's operations was executed when the process
died, the complete previous dump `u` is still on disk (main file or first backup). -/
theorem crash_safe_history (st : FS × RM) (h : HInv st) (hn : 0 < st.2.maxB) (hr : 0 < st.2.nr)
    (u : Nat) (hu : st.1 .dump = some ⟨u, true⟩) (v : Nat) :
    ∀ fs' ∈ prefixes st.1 (dumpOps startFixed st.2 v).1,
      fs' .dump = some ⟨u, true⟩ ∨ fs' (.back 0) = some ⟨u, true⟩ := by
  obtain ⟨fs, rm⟩ := st
  obtain ⟨hle, h0, hb, _⟩ := h
  simp only at hle h0 hb hn hr hu
  intro fs' hfs'
  have hm : rm.maxB > 0 := hn
  simp only [dumpOps, hm, hr, ↓reduceIte, List.append_assoc] at hfs'
  have hne : ∀ j, j < startFixed rm.maxB rm.nb → fs (.back j) ≠ none := by
    intro j hj; apply hb; unfold startFixed at hj; omega_min
  rcases shift_prefixes _ fs _ hne fs' hfs' with hd | hp
  · left; rw [hd, hu]
  · have hdump' : (shifted fs (startFixed rm.maxB rm.nb)) .dump = some ⟨u, true⟩ := by
      simp only [shifted, hu]
    simp only [List.cons_append, List.nil_append, prefixes, exec, hdump', List.mem_cons,
      List.not_mem_nil, or_false] at hp
    rcases hp with rfl | rfl | rfl | rfl | rfl
    · left; exact hdump'
    all_goals (right; simp [FS.set])

/-- the FIRST dump of a restarted process is different (recorded finding
`rotation:previous-dump-lost-in-crash-of-restarted-process`): the fresh manager does not move
the dump file it was restarted from out of the way, so after `dump 1; dump 2; restart` a crash
right after the truncating open of dump 3 leaves no complete copy of state 2 — only the older
backup of state 1 survives. -/
theorem restarted_first_dump_not_crash_safe (st : FS × RM)
    (hs : hrun (FS.empty, RM.fresh 1) [.dump 1, .dump 2, .reboot] = some st) :
    st.1 .dump = some ⟨2, true⟩ ∧
      ∃ fs' ∈ prefixes st.1 (dumpOps startFixed st.2 3).1,
        (∀ nm, fs' nm ≠ some ⟨2, true⟩) ∧ fs' (.back 0) = some ⟨1, true⟩ := by
  obtain ⟨fs, rm⟩ := st
  simp [hrun, hstep, dumpOps, startFixed, RM.fresh, shiftOps, execAll, exec, FS.set] at hs
  obtain ⟨hfs, hrm⟩ := hs
  have hd : fs .dump = some ⟨2, true⟩ := by rw [← hfs]; simp [FS.set]
  have hb0 : fs (.back 0) = some ⟨1, true⟩ := by rw [← hfs]; simp [FS.set]
  have hbi : ∀ i, i ≠ 0 → fs (.back i) = none := by
    intro i hi; rw [← hfs]; simp [FS.set, FS.empty, hi]
  refine ⟨hd, fs.set .dump (some ⟨0, false⟩), ?_, ?_, ?_⟩
  · rw [← hrm]
    simp [dumpOps, startFixed, shiftOps, prefixes, exec]
  · intro nm
    cases nm with
    | dump => simp [FS.set]
    | back i =>
      by_cases hi : i = 0
      · subst hi; simp [FS.set, hb0]
      · simp [FS.set, hbi i hi]
  · simp [FS.set, hb0]

/-- non-vacuity of `crash_safe_history`: the directory after `dump 1; restart; dump 2` with one
backup satisfies all its hypotheses -/
example : ∃ st, hrun (FS.empty, RM.fresh 1) [.dump 1, .reboot, .dump 2] = some st ∧ HInv st ∧
    0 < st.2.maxB ∧ 0 < st.2.nr ∧ st.1 .dump = some ⟨2, true⟩ := by
  obtain ⟨st, hs, hi⟩ := history_never_aborts 1 [.dump 1, .reboot, .dump 2]
  refine ⟨st, hs, hi, ?_⟩
  simp only [hrun, hstep, dumpOps, startFixed, RM.fresh, shiftOps, execAll, exec, Option.map] at hs
  cases hs
  simp [FS.set]

end CMacVerif.Rotation
