import CMacVerif.Lemmas.Rotation
import Mathlib.Tactic.SplitIfs
/-!
# C14 — restart dumps are rotated safely and the last good dump is never destroyed

Model: `CMacVerif/Model/Rotation.lean` (file system as a map, the primitive operations of
`RestartManager::get_restart_writer` in code order).  Dumped states are numbered 1, 2, 3, ….
-/
namespace CMacVerif.Rotation

/-- `omega` after unfolding every `min` -/
local macro "omega_min" : tactic =>
  `(tactic| (simp only [Nat.min_def] at *; split_ifs at * <;> omega))

/-- the directory the property asks for after `k` dumps with `n` configured backups:
the newest state in the main file, the `min n (k-1)` previous ones newest-first in the backup
files, and no other file -/
def Good (n k : Nat) (fs : FS) : Prop :=
  fs .dump = (if k = 0 then none else some ⟨k, true⟩) ∧
  ∀ i, fs (.back i) = if i < min n (k - 1) then some ⟨k - 1 - i, true⟩ else none

/-- **Taking a new dump never fails and leaves the right files**, for every number of
configured backups and every number of dumps. -/
theorem after_k_dumps (n k : Nat) :
    ∃ fs, dumps startFixed n k = some (fs, ⟨n, min n (k - 1), k⟩) ∧ Good n k fs := by
  induction k with
  | zero =>
    refine ⟨FS.empty, ?_, ?_, ?_⟩
    · simp [dumps, RM.fresh]
    · simp [FS.empty]
    · intro i; simp [FS.empty]
  | succ k ih =>
    obtain ⟨fs, hd, hdump, hback⟩ := ih
    simp only [dumps, hd, dumpOps]
    by_cases hn : n = 0
    · subst hn
      refine ⟨((fs.set .dump (some ⟨0, false⟩)).set .dump (some ⟨k+1, false⟩)).set .dump (some ⟨k+1, true⟩), ?_, ?_, ?_⟩
      · simp [execAll, exec]
      · simp [FS.set]
      · intro i
        have := hback i
        simp only [FS.set, reduceCtorEq, if_false]
        rw [this]; simp
    · have hn' : n > 0 := Nat.pos_of_ne_zero hn
      have hne : ∀ j, j < startFixed n (min n (k - 1)) → fs (.back j) ≠ none := by
        intro j hj
        rw [hback j]
        unfold startFixed at hj
        have : j < min n (k - 1) := by omega
        simp [this]
      simp only [hn', ↓reduceIte, List.append_assoc, true_and]
      rw [shift_exec _ _ _ hne]
      by_cases hk : k = 0
      · subst hk
        refine ⟨(((shifted fs (startFixed n (min n (0 - 1)))).set .dump (some ⟨0, false⟩)).set .dump (some ⟨0+1, false⟩)).set .dump (some ⟨0+1, true⟩), ?_, ?_, ?_⟩
        · simp [execAll, exec]
        · simp [FS.set]
        · intro i
          have h0 : startFixed n (min n (0 - 1)) = 0 := by unfold startFixed; omega
          simp only [FS.set, reduceCtorEq, if_false, h0, shifted_zero]
          rw [hback i]
      · have hk' : k > 0 := Nat.pos_of_ne_zero hk
        have hdump' : (shifted fs (startFixed n (min n (k - 1)))) .dump = some ⟨k, true⟩ := by
          simp only [shifted, hdump, hk, if_false]
        refine ⟨(((((shifted fs (startFixed n (min n (k - 1)))).set (.back 0) (some ⟨k, true⟩)).set .dump none).set .dump (some ⟨0, false⟩)).set .dump (some ⟨k+1, false⟩)).set .dump (some ⟨k+1, true⟩), ?_, ?_, ?_⟩
        · simp only [hk', ↓reduceIte, List.cons_append, List.nil_append, execAll, exec, hdump',
            Option.map_some]
          congr 2
          have : k - 1 < n ∨ n ≤ k - 1 := Nat.lt_or_ge _ _
          simp only [RM.mk.injEq, true_and, Nat.add_sub_cancel]
          exact ⟨by omega_min, trivial⟩
        · simp [FS.set]
        · intro i
          simp only [FS.set, reduceCtorEq, if_false, Name.back.injEq, shifted, startFixed,
            Nat.add_sub_cancel]
          have hb := hback
          by_cases hi0 : i = 0
          · subst hi0
            have : 0 < min n k := by omega_min
            simp [this]
          · simp only [hi0, if_false]
            by_cases him : i ≤ min (n - 1) (min n (k - 1))
            · simp only [him, if_true]
              rw [hb]
              have h1 : i - 1 < min n (k - 1) := by omega_min
              have h2 : i < min n k := by omega_min
              simp only [h1, h2, if_true]
              congr 2; omega
            · simp only [him, if_false]
              rw [hb]
              have h1 : ¬ i < min n (k - 1) := by omega_min
              have h2 : ¬ i < min n k := by omega_min
              simp only [h1, h2, if_false]

/-- corollary in words: after `k ≥ 1` dumps the main file holds the newest state, complete -/
theorem newest_in_dump (n k : Nat) (hk : 0 < k) :
    ∃ fs rm, dumps startFixed n k = some (fs, rm) ∧ fs .dump = some ⟨k, true⟩ := by
  obtain ⟨fs, h, hd, _⟩ := after_k_dumps n k
  exact ⟨fs, _, h, by rw [hd]; simp; omega⟩

/-- **Crash safety.**  With at least one backup configured, whatever prefix of the
operations of dump `k+1` was executed when the process died, a complete dump of the previous
state `k` is on disk (in the main file or in the first backup). -/
theorem crash_safe (n k : Nat) (hn : 0 < n) (hk : 0 < k) (fs : FS) (h : Good n k fs) :
    ∀ fs' ∈ prefixes fs (dumpOps startFixed ⟨n, min n (k - 1), k⟩ (k + 1)).1,
      fs' .dump = some ⟨k, true⟩ ∨ fs' (.back 0) = some ⟨k, true⟩ := by
  obtain ⟨hdump, hback⟩ := h
  have hdump : fs .dump = some ⟨k, true⟩ := by rw [hdump]; simp; omega
  intro fs' hfs'
  simp only [dumpOps, hn, hk, ↓reduceIte, List.append_assoc] at hfs'
  have hne : ∀ j, j < startFixed n (min n (k - 1)) → fs (.back j) ≠ none := by
    intro j hj
    rw [hback j]
    unfold startFixed at hj
    have : j < min n (k - 1) := by omega
    simp [this]
  rcases shift_prefixes _ fs _ hne fs' hfs' with hd | hp
  · left; rw [hd, hdump]
  · have hdump' : (shifted fs (startFixed n (min n (k - 1)))) .dump = some ⟨k, true⟩ := by
      simp only [shifted, hdump]
    simp only [List.cons_append, List.nil_append, prefixes, exec, hdump', List.mem_cons,
      List.not_mem_nil, or_false] at hp
    rcases hp with rfl | rfl | rfl | rfl | rfl
    · left; exact hdump'
    all_goals (right; simp [FS.set])

/-- without any backup the truncating open destroys the only copy: the hypothesis
"at least one backup is configured" of the property is needed -/
theorem no_backup_not_crash_safe :
    ∃ fs' ∈ prefixes (fun nm => if nm = .dump then some ⟨1, true⟩ else none)
        (dumpOps startFixed ⟨0, 0, 1⟩ 2).1,
      ∀ nm, fs' nm ≠ some ⟨1, true⟩ := by
  refine ⟨FS.set (fun nm => if nm = .dump then some ⟨1, true⟩ else none) .dump (some ⟨0, false⟩), ?_, ?_⟩
  · simp [dumpOps, prefixes, exec]
  · intro nm; simp only [FS.set]; split_ifs <;> simp

/-- the code before the fix (`min(max-1, nb-1)` on unsigned integers) aborts on the very first
dump as soon as two backups are configured -/
theorem old_code_first_dump_fails : (dumps startOld 2 1).isNone = true := by
  simp [dumps, dumpOps, startOld, RM.fresh, shiftOps, execAll, exec, FS.empty]

/-- non-vacuity: three dumps with two backups -/
example : ∃ fs, dumps startFixed 2 3 = some (fs, ⟨2, 2, 3⟩) ∧ fs .dump = some ⟨3, true⟩
    ∧ fs (.back 0) = some ⟨2, true⟩ ∧ fs (.back 1) = some ⟨1, true⟩ ∧ fs (.back 2) = none := by
  obtain ⟨fs, h, hd, hb⟩ := after_k_dumps 2 3
  exact ⟨fs, h, by simpa using hd, by simpa using hb 0, by simpa using hb 1, by simpa using hb 2⟩

end CMacVerif.Rotation
