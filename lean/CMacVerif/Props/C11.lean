import CMacVerif.Lemmas.ExactRiemann
import CMacVerif.Lemmas.ExactRiemannNewton
/-!
# C11 — the exact Riemann solver returns the solution of the Riemann problem

Property theorems only (model: `Model/ExactRiemann.lean`, vacuum samplers:
`Model/RiemannVacuum.lean`; lemmas: `Lemmas/ExactRiemann.lean`).  Everything is about the model
instantiated at `ℝ`: `ArithFns.sqrt = Real.sqrt`, `ArithFns.pow = Real.rpow`.  `g` is the
constructor argument, `mkConsts g` the constants the constructor derives (it clamps `γ` to
`≥ 1.00000001`, so NO hypothesis on `g` is needed).  A state `(ρ, u, P)` enters with the
quantities `solve` derives from it: `Pinv = 1.0 / P`, `a = soundspeed c (1.0 / ρ) P`,
`A = c.tdgp1 * (1.0 / ρ)`, `B = c.gm1dgp1 * P`, `afac = c.tdgm1 * a`.

What is NOT a theorem (and why the property is claimed as "proof, partial"):
* convergence of the Newton and of the Brent iteration in floating point, and the number of
  iterations — `brent_bracket` holds for every fuel, the accuracy statement needs the loop to leave
  through its own exit test within `1e4` iterations (`pstar_accurate_partial`; the Newton exit IS
  proved accurate, `newton_exit_accurate`, by concavity of `f`: `f_concave_fprime_slope`);
* termination of the Newton loop (the C++ loop has no counter): `newton_exit_accurate` is a
  statement about the loop once it has terminated;
* IEEE rounding (DESIGN §2.1).
-/
namespace CMacVerif.ExactRiemann
open CMacVerif Set

/-! ## 1. the pressure function -/

/-- `fb` of one state is strictly increasing in the star pressure on `[0, ∞)` -/
theorem fb_strictMono (g ρ P : ℝ) (hρ : 0 < ρ) (hP : 0 < P) :
    StrictMonoOn (fb (mkConsts g) P ((mkConsts g).tdgp1 * (1.0 / ρ)) ((mkConsts g).gm1dgp1 * P)
      (1.0 / P) ((mkConsts g).tdgm1 * soundspeed (mkConsts g) (1.0 / ρ) P)) (Ici 0) := by
  have hc := mk_rel g
  have s := stateOK_of_solve hc hρ hP
  exact fb_strictMonoOn hc (mul_pos hc.tdgp1_pos (one_div_pos' hρ))
    (mul_nonneg hc.gm1dgp1_pos.le hP.le) hP s.Pinv_pos s.Pinv_eq (mul_pos hc.tdgm1_pos s.a_pos)

/-- `fb` is continuous: the shock branch and the rarefaction branch are continuous and take the
same value (zero) at `p = P` -/
theorem fb_continuous_branches_agree (g P : ℝ) (hP : 0 < P) (A afac : ℝ) :
    Continuous (fb (mkConsts g) P A ((mkConsts g).gm1dgp1 * P) (1.0 / P) afac) ∧
    (P - P) * Real.sqrt (A / (P + (mkConsts g).gm1dgp1 * P)) = 0 ∧
    afac * ((P * (1.0 / P)) ^ (mkConsts g).gm1d2g - 1) = 0 ∧
    fb (mkConsts g) P A ((mkConsts g).gm1dgp1 * P) (1.0 / P) afac P = 0 := by
  have hc := mk_rel g
  have hPi : P * (1.0 / P) = 1 := by
    have : (1.0:ℝ) = 1 := by norm_num
    rw [this]; field_simp
  exact ⟨fb_continuous hc hPi hP (mul_nonneg hc.gm1dgp1_pos.le hP.le), shock_at_P _ _ _,
    raref_at_P _ _ hPi, fb_at_P hPi⟩

/-- the pressure function `f(p) = f_L(p) + f_R(p) + u_R - u_L` that `solve` iterates on is
continuous and strictly increasing on `[0, ∞)`: it has at most one root there -/
theorem f_strictMono_continuous (g ρL uL PL ρR uR PR : ℝ) (hρL : 0 < ρL) (hPL : 0 < PL)
    (hρR : 0 < ρR) (hPR : 0 < PR) :
    StrictMonoOn (pressureFn (mkConsts g) ρL uL PL ρR uR PR) (Ici 0) ∧
    Continuous (pressureFn (mkConsts g) ρL uL PL ρR uR PR) ∧
    (∀ p q, 0 ≤ p → 0 ≤ q → pressureFn (mkConsts g) ρL uL PL ρR uR PR p = 0 →
      pressureFn (mkConsts g) ρL uL PL ρR uR PR q = 0 → p = q) := by
  have hc := mk_rel g
  have hm := pressureFn_strictMonoOn (uL := uL) (uR := uR) hc hρL hPL hρR hPR
  refine ⟨hm, pressureFn_continuous hc hρL hPL hρR hPR, fun p q hp hq h1 h2 => ?_⟩
  exact hm.injOn hp hq (h1.trans h2.symm)

/-- `f(0) = u_R - u_L - 2a_L/(γ-1) - 2a_R/(γ-1)`: `f(0) < 0` exactly when `solve` does not take its
vacuum-generation exit (line 918) -/
theorem f_zero_neg_iff (g ρL uL PL ρR uR PR : ℝ) (hPL : 0 < PL) (hPR : 0 < PR) :
    pressureFn (mkConsts g) ρL uL PL ρR uR PR 0 < 0 ↔
      ¬ ((mkConsts g).tdgm1 * soundspeed (mkConsts g) (1.0 / ρL) PL
          + (mkConsts g).tdgm1 * soundspeed (mkConsts g) (1.0 / ρR) PR ≤ uR - uL) := by
  rw [pressureFn_zero (mk_rel g) hPL hPR, not_le]
  constructor <;> intro h <;> linarith

/-- whenever `solve` enters its iterative part (two non-vacuum states, no vacuum generation) the
pressure equation `f(p) = 0` has exactly one solution `p ≥ 0` (and it is positive): "the" star
pressure the iteration is after exists and is unique -/
theorem pressure_root_exists_unique (g ρL uL PL ρR uR PR : ℝ) (hρL : 0 < ρL) (hPL : 0 < PL)
    (hρR : 0 < ρR) (hPR : 0 < PR)
    (hnovac : ¬ ((mkConsts g).tdgm1 * soundspeed (mkConsts g) (1.0 / ρL) PL
          + (mkConsts g).tdgm1 * soundspeed (mkConsts g) (1.0 / ρR) PR ≤ uR - uL)) :
    ∃! p : ℝ, 0 ≤ p ∧ pressureFn (mkConsts g) ρL uL PL ρR uR PR p = 0 := by
  have h0 := (f_zero_neg_iff g ρL uL PL ρR uR PR hPL hPR).mpr hnovac
  obtain ⟨p, hp, hp0⟩ := pressureFn_root (mk_rel g) hρL hPL hρR hPR h0
  refine ⟨p, ⟨hp.le, hp0⟩, fun q hq => ?_⟩
  exact (f_strictMono_continuous g ρL uL PL ρR uR PR hρL hPL hρR hPR).2.2 q p hq.1 hp.le hq.2 hp0

/-! ## 2. Brent's method keeps the bracket -/

/-- `brent_bracket`: for EVERY function `F`, every initial bracket with `F Plow · F Phigh ≤ 0`
and every number of iterations: the interval `[a,b]` of the loop stays inside the initial bracket
and keeps the sign change; the loop ends with `fuel = 0 ∨ F b = 0 ∨ |a - b| ≤ 5e-9 (a + b)`;
if `F` is continuous on the initial bracket a root of `F` lies between `a` and the returned `b`,
at distance `≤ |a - b|` from it. -/
theorem brent_bracket (F : ℝ → ℝ) (Plow Phigh : ℝ) (fuel : ℕ) (hsign : F Plow * F Phigh ≤ 0) :
    let r := brentLoop F fuel (brentInit Plow Phigh (F Plow) (F Phigh))
    uIcc r.1.a r.1.b ⊆ uIcc Plow Phigh ∧ F r.1.a * F r.1.b ≤ 0 ∧
    (r.2 = 0 ∨ F r.1.b = 0 ∨ |r.1.a - r.1.b| ≤ 5e-9 * (r.1.a + r.1.b)) ∧
    (ContinuousOn F (uIcc Plow Phigh) →
      ∃ p ∈ uIcc r.1.a r.1.b, F p = 0 ∧ |r.1.b - p| ≤ |r.1.a - r.1.b|) := by
  intro r
  obtain ⟨hinv, hexit⟩ := brentLoop_inv F fuel (brentInit_inv F Plow Phigh hsign)
  have hs : F r.1.a * F r.1.b ≤ 0 := by rw [← hinv.fa_eq, ← hinv.fb_eq]; exact hinv.sign
  refine ⟨hinv.inside, hs, ?_, fun hF => ?_⟩
  · rcases hexit with h0 | hne
    · exact Or.inl h0
    · rcases brent_exit hne with hb | hb
      · exact Or.inr (Or.inl (by rw [← hinv.fb_eq]; exact hb))
      · exact Or.inr (Or.inr hb)
  · obtain ⟨p, hp, hp0⟩ := root_of_sign_change F (hF.mono hinv.inside) hs
    exact ⟨p, hp, hp0, abs_sub_le_of_mem_uIcc hp⟩

/-- `solve_brent` as called (`none` = `cmac_error`): with a sign change it never errors, returns a
point of the initial bracket, and when it did not use up its `1e4` iterations the returned value is
a root or within `1.00000001e-8` (relative) of a root of the continuous function -/
theorem solve_brent_root (F : ℝ → ℝ) (hF : Continuous F) (Plow Phigh : ℝ) (fuel : ℕ)
    (h0 : 0 ≤ Plow) (h1 : 0 ≤ Phigh) (hsign : F Plow * F Phigh ≤ 0) :
    ∃ b left, solveBrent F fuel Plow Phigh (F Plow) (F Phigh) = some (b, left) ∧
      b ∈ uIcc Plow Phigh ∧
      (left ≠ 0 → ∃ p, F p = 0 ∧ 0 ≤ p ∧ |b - p| ≤ 1.00000001e-8 * p) := by
  have hn : ¬ (0.0:ℝ) < F Plow * F Phigh := by norm_num; exact hsign
  obtain ⟨hin, _, hexit, hroot⟩ := brent_bracket F Plow Phigh fuel hsign
  simp only [solveBrent, if_neg hn]
  refine ⟨_, _, rfl, hin right_mem_uIcc, fun hleft => ?_⟩
  obtain ⟨p, hp, hp0, _⟩ := hroot hF.continuousOn
  have nonneg : ∀ x ∈ uIcc Plow Phigh, (0:ℝ) ≤ x := fun x hx => by
    rcases mem_uIcc.mp hx with ⟨h, _⟩ | ⟨h, _⟩ <;> linarith
  rcases hexit with he | he | he
  · exact absurd he hleft
  · exact ⟨_, he, nonneg _ (hin right_mem_uIcc), by
      rw [sub_self, abs_zero]; exact mul_nonneg (by norm_num) (nonneg _ (hin right_mem_uIcc))⟩
  · exact ⟨p, hp0, nonneg _ (hin hp),
      relative_accuracy hp (nonneg _ (hin left_mem_uIcc)) (nonneg _ (hin right_mem_uIcc)) he⟩

/-! ## 3. the root finding of `solve` -/

/-- When `solve` hands over to Brent (path 2) — the model never reaches the `cmac_error` of
`solve_brent` — the bracket is in `p ≥ 0`, a root `p` of the pressure function lies between some
`a ≥ 0` and the returned `p* ≥ 0`, and `fuel = 0 ∨ f(p*) = 0 ∨ |a - p*| ≤ 5e-9 (a + p*)`. -/
theorem star_brent_root (g ρL uL PL ρR uR PR : ℝ) (nf bf : ℕ) (hρL : 0 < ρL) (hPL : 0 < PL)
    (hρR : 0 < ρR) (hPR : 0 < PR)
    (hnovac : ¬ ((mkConsts g).tdgm1 * soundspeed (mkConsts g) (1.0 / ρL) PL
          + (mkConsts g).tdgm1 * soundspeed (mkConsts g) (1.0 / ρR) PR ≤ uR - uL)) :
    let s := star (mkConsts g) nf bf ρL uL PL ρR uR PR
    let F := pressureFn (mkConsts g) ρL uL PL ρR uR PR
    s.res.err = false ∧
    (s.res.path = 2 → ∃ a : ℝ, 0 ≤ a ∧ 0 ≤ s.pstar ∧
      (∃ p ∈ uIcc a s.pstar, F p = 0 ∧ |s.pstar - p| ≤ |a - s.pstar|) ∧
      (s.res.brentLeft = 0 ∨ F s.pstar = 0 ∨ |a - s.pstar| ≤ 5e-9 * (a + s.pstar))) := by
  intro s F
  have hc := mk_rel g
  have hF : Continuous F := pressureFn_continuous hc hρL hPL hρR hPR
  have h0 : F 0 < 0 := (f_zero_neg_iff g ρL uL PL ρR uR PR hPL hPR).mpr hnovac
  have hres : s.res = findPstar F (pressureFn' (mkConsts g) ρL PL ρR PR) nf bf _ := star_res nf bf
  have hps : s.pstar = s.res.pstar := rfl
  rw [hps, hres]
  unfold findPstar
  obtain ⟨he, hb⟩ := handOver_brent F hF bf _ (newtonPhase_inv F _ nf _ h0)
  obtain ⟨n0, n1⟩ := newtonPhase_pos F (pressureFn' (mkConsts g) ρL PL ρR PR)
    (fun p hp => pressureFn'_pos hc hρL hPL hρR hPR hp) nf
    (guessP_pos (mkConsts g) hPL hPR _ _ _ _ _ _ _) h0
  refine ⟨he, fun hp => ?_⟩
  obtain ⟨a, hin, hroot, hexit⟩ := hb hp
  have nonneg : ∀ x ∈ uIcc a (handOver F bf (newtonPhase F
      (pressureFn' (mkConsts g) ρL PL ρR PR) nf _)).pstar, (0:ℝ) ≤ x := fun x hx => by
    rcases mem_uIcc.mp (hin hx) with ⟨h, _⟩ | ⟨h, _⟩ <;> linarith
  exact ⟨a, nonneg _ left_mem_uIcc, nonneg _ right_mem_uIcc, hroot, hexit⟩

/-- the pressure function and the derivative AS CODED (`fprime`) satisfy what Newton's method
needs: `fprime > 0`; `f` is concave and `fprime p` is the slope of a supporting line at `p`
(`f q ≤ f p + fprime p · (q - p)` for all `p > 0`, `q ≥ 0`, across the shock / rarefaction branch
switch on both sides); `p · fprime p` is non-decreasing -/
theorem f_concave_fprime_slope (g ρL uL PL ρR uR PR : ℝ) (hρL : 0 < ρL) (hPL : 0 < PL)
    (hρR : 0 < ρR) (hPR : 0 < PR) :
    NewtonHyp (pressureFn (mkConsts g) ρL uL PL ρR uR PR) (pressureFn' (mkConsts g) ρL PL ρR PR) :=
  pressureFn_newtonHyp (mk_rel g) hρL hPL hρR hPR

/-- `newton_exit`: when `solve` returns the last Newton iterate (path 1; the loop has terminated,
i.e. the fuel of the model did not run out) the returned `p*` is never above the root of the
pressure equation and at most `1.1e-16 · root` below it (every Newton iterate from a point with
`f < 0` stays left of the root of the concave `f`; a last step of relative length `≤ 5e-9 (p+p')`
leaves a second-order remainder).  The same holds when the loop stops because `f = 0`. -/
theorem newton_exit_accurate (g ρL uL PL ρR uR PR : ℝ) (nf bf : ℕ) (hρL : 0 < ρL) (hPL : 0 < PL)
    (hρR : 0 < ρR) (hPR : 0 < PR)
    (hnovac : ¬ ((mkConsts g).tdgm1 * soundspeed (mkConsts g) (1.0 / ρL) PL
          + (mkConsts g).tdgm1 * soundspeed (mkConsts g) (1.0 / ρR) PR ≤ uR - uL))
    (hpath : (star (mkConsts g) nf bf ρL uL PL ρR uR PR).res.path = 1)
    (hleft : (star (mkConsts g) nf bf ρL uL PL ρR uR PR).res.newtonLeft ≠ 0) :
    ∃ p, 0 < p ∧ pressureFn (mkConsts g) ρL uL PL ρR uR PR p = 0 ∧
      0 ≤ p - (star (mkConsts g) nf bf ρL uL PL ρR uR PR).pstar ∧
      p - (star (mkConsts g) nf bf ρL uL PL ρR uR PR).pstar ≤ 1.1e-16 * p := by
  have hc := mk_rel g
  set F := pressureFn (mkConsts g) ρL uL PL ρR uR PR with hFdef
  set F' := pressureFn' (mkConsts g) ρL PL ρR PR with hF'def
  have h0 : F 0 < 0 := (f_zero_neg_iff g ρL uL PL ρR uR PR hPL hPR).mpr hnovac
  obtain ⟨p, hp, hp0⟩ := pressureFn_root hc hρL hPL hρR hPR h0
  have hN : NewtonHyp F F' := pressureFn_newtonHyp hc hρL hPL hρR hPR
  have hres : (star (mkConsts g) nf bf ρL uL PL ρR uR PR).res = findPstar F F' nf bf _ :=
    star_res nf bf
  have hps : (star (mkConsts g) nf bf ρL uL PL ρR uR PR).pstar
      = (star (mkConsts g) nf bf ρL uL PL ρR uR PR).res.pstar := rfl
  rw [hres] at hpath hleft
  rw [hps, hres]
  unfold findPstar at hpath hleft ⊢
  rw [handOver_newtonLeft] at hleft
  have hg := guessP_pos (mkConsts g) hPL hPR (soundspeed (mkConsts g) (1.0 / ρL) PL)
    ((mkConsts g).tdgp1 * (1.0 / ρL)) ((mkConsts g).gm1dgp1 * PL)
    (soundspeed (mkConsts g) (1.0 / ρR) PR) ((mkConsts g).tdgp1 * (1.0 / ρR))
    ((mkConsts g).gm1dgp1 * PR) (uR - uL)
  obtain ⟨n0, n1⟩ := newtonPhase_pos F F' hN.pos nf hg h0
  obtain ⟨nrel, nexit⟩ := newtonPhase_facts F F' hN.pos nf hg h0 hleft
  obtain ⟨a, b⟩ := handOver_newton F F' hN bf _ (newtonPhase_inv F F' nf _ h0) n0 n1 nrel nexit
    hp hp0 hpath
  exact ⟨p, hp, hp0, a, b⟩

/-- PARTIAL (explicit extra hypotheses: both loops terminated through their own exit tests — the
Newton loop's fuel, a device of the model, did not run out, and IF Brent's method was used it did
not exhaust its `1e4` iterations): then on BOTH paths the returned `p*` is within
`1.00000001e-8` (relative) of THE root of the pressure equation.  The two premises are evaluated on
every correspondence case (driver tags `NEWTON-FUEL-OUT`, `brent-fuel-out`); that Brent's method
needs at most `1e4` iterations is not proved (in doubles it does not hold when the root underflows,
known finding `riemann:star-pressure-underflow`). -/
theorem pstar_accurate_partial (g ρL uL PL ρR uR PR : ℝ) (nf bf : ℕ) (hρL : 0 < ρL) (hPL : 0 < PL)
    (hρR : 0 < ρR) (hPR : 0 < PR)
    (hnovac : ¬ ((mkConsts g).tdgm1 * soundspeed (mkConsts g) (1.0 / ρL) PL
          + (mkConsts g).tdgm1 * soundspeed (mkConsts g) (1.0 / ρR) PR ≤ uR - uL))
    (hnewton : (star (mkConsts g) nf bf ρL uL PL ρR uR PR).res.newtonLeft ≠ 0)
    (hbrent : (star (mkConsts g) nf bf ρL uL PL ρR uR PR).res.path = 2 →
      (star (mkConsts g) nf bf ρL uL PL ρR uR PR).res.brentLeft ≠ 0) :
    ∃ p, 0 ≤ p ∧ pressureFn (mkConsts g) ρL uL PL ρR uR PR p = 0 ∧
      |(star (mkConsts g) nf bf ρL uL PL ρR uR PR).pstar - p| ≤ 1.00000001e-8 * p := by
  have hpath : (star (mkConsts g) nf bf ρL uL PL ρR uR PR).res.path = 1 ∨
      (star (mkConsts g) nf bf ρL uL PL ρR uR PR).res.path = 2 := by
    rw [star_res nf bf]; unfold findPstar; exact handOver_path _ _ _
  rcases hpath with h1 | h2
  · obtain ⟨p, hp, hp0, a, b⟩ :=
      newton_exit_accurate g ρL uL PL ρR uR PR nf bf hρL hPL hρR hPR hnovac h1 hnewton
    refine ⟨p, hp.le, hp0, ?_⟩
    rw [abs_sub_comm, abs_of_nonneg a]
    have : (1.1e-16:ℝ) * p ≤ 1.00000001e-8 * p := by
      apply mul_le_mul_of_nonneg_right _ hp.le; norm_num
    linarith
  · obtain ⟨_, h⟩ := star_brent_root g ρL uL PL ρR uR PR nf bf hρL hPL hρR hPR hnovac
    obtain ⟨a, ha, hb, ⟨p, hp, hp0, _⟩, hexit⟩ := h h2
    rcases hexit with he | he | he
    · exact absurd he (hbrent h2)
    · exact ⟨_, hb, he, by rw [sub_self, abs_zero]; exact mul_nonneg (by norm_num) hb⟩
    · refine ⟨p, ?_, hp0, relative_accuracy hp ha hb he⟩
      rcases mem_uIcc.mp hp with ⟨h, _⟩ | ⟨h, _⟩ <;> linarith

/-- non-vacuity of `NewtonHyp`: `F p = p - 1`, `F' = 1` satisfies it (an increasing concave
function with a root) -/
example : NewtonHyp (fun p : ℝ => p - 1) (fun _ => 1) :=
  ⟨fun _ _ => one_pos, fun p q _ _ => by simp, fun p q _ h => by simpa using h⟩

/-- identical left and right states: `solve` returns `p* = P` and `u* = u` EXACTLY, through the
Newton exit without a single iteration (the guess is the root).  This also shows that the
hypotheses `path = 1`, `newtonLeft ≠ 0` of `newton_exit_accurate` are satisfiable. -/
theorem identical_states_exact (g ρ u P : ℝ) (n bf : ℕ) (hP : 0 < P) :
    let s := star (mkConsts g) (n + 1) bf ρ u P ρ u P
    s.pstar = P ∧ s.ustar = u ∧ s.res.path = 1 ∧ s.res.newtonLeft ≠ 0 := by
  intro s
  have hPi : P * (1.0 / P) = 1 := by
    rw [show (1.0:ℝ) = 1 by norm_num]; field_simp
  have hFP : pressureFn (mkConsts g) ρ u P ρ u P P = 0 := by
    unfold pressureFn f; rw [fb_at_P hPi]; ring
  have hres : s.res = findPstar (pressureFn (mkConsts g) ρ u P ρ u P)
      (pressureFn' (mkConsts g) ρ P ρ P) (n + 1) bf P := by
    have := star_res (c := mkConsts g) (ρL := ρ) (uL := u) (PL := P) (ρR := ρ) (uR := u) (PR := P)
      (n + 1) bf
    rw [sub_self, guessP_identical (mkConsts g) hP] at this
    exact this
  obtain ⟨h1, h2, h3⟩ := findPstar_of_root (pressureFn (mkConsts g) ρ u P ρ u P)
    (pressureFn' (mkConsts g) ρ P ρ P) n bf hFP
  have hps : s.pstar = s.res.pstar := rfl
  refine ⟨by rw [hps, hres]; exact h1, ?_, by rw [hres]; exact h2, by rw [hres, h3]; omega⟩
  have hu : s.ustar = ustarOf u u s.fL s.fR := rfl
  have hff : s.fL = s.fR := rfl
  rw [hu, hff]; unfold ustarOf; norm_num; ring

/-! ## 4. the star velocity -/

/-- `ustar_identity`: at a root of the pressure equation the formula of line 985,
`u* = ½((u_L + u_R) + (f_R - f_L))`, equals both `u_R + f_R(p*)` and `u_L - f_L(p*)` -/
theorem ustar_identity (g ρL uL PL ρR uR PR : ℝ) (nf bf : ℕ) :
    let s := star (mkConsts g) nf bf ρL uL PL ρR uR PR
    pressureFn (mkConsts g) ρL uL PL ρR uR PR s.pstar = 0 →
      s.ustar = uR + s.fR ∧ s.ustar = uL - s.fL := by
  intro s h
  have hf : pressureFn (mkConsts g) ρL uL PL ρR uR PR s.pstar = s.fL + s.fR + (uR - uL) := rfl
  have hu : s.ustar = ustarOf uL uR s.fL s.fR := rfl
  rw [hf] at h
  rw [hu]; unfold ustarOf
  constructor <;> norm_num <;> linarith

/-- `ustar_defect` (makes `ustar_identity` a corollary): for EVERY returned `p*`, root or not, the
star velocity differs from `u_R + f_R(p*)` and from `u_L - f_L(p*)` by exactly half the residual
of the pressure equation -/
theorem ustar_defect (g ρL uL PL ρR uR PR : ℝ) (nf bf : ℕ) :
    let s := star (mkConsts g) nf bf ρL uL PL ρR uR PR
    s.ustar = uR + s.fR - pressureFn (mkConsts g) ρL uL PL ρR uR PR s.pstar / 2 ∧
    s.ustar = uL - s.fL + pressureFn (mkConsts g) ρL uL PL ρR uR PR s.pstar / 2 := by
  intro s
  have hf : pressureFn (mkConsts g) ρL uL PL ρR uR PR s.pstar = s.fL + s.fR + (uR - uL) := rfl
  have hu : s.ustar = ustarOf uL uR s.fL s.fR := rfl
  rw [hf, hu]; unfold ustarOf
  constructor <;> norm_num <;> ring

/-- at a root the star data that `solve` passes to its samplers satisfy the hypotheses `StarR` /
`StarL` of sections 6–7 (rarefaction side) and the `u* = u ± f(p*)` form of `shock_RH_*` (shock
side): those hypotheses are consequences of `f(p*) = 0`, not assumptions -/
theorem star_feeds_samplers (g ρL uL PL ρR uR PR : ℝ) (nf bf : ℕ) :
    let c := mkConsts g
    let s := star c nf bf ρL uL PL ρR uR PR
    pressureFn c ρL uL PL ρR uR PR s.pstar = 0 →
      (¬ PR < s.pstar → StarR c uR s.aR (1.0 / PR) s.ustar s.pstar) ∧
      (¬ PL < s.pstar → StarL c uL s.aL (1.0 / PL) s.ustar s.pstar) ∧
      s.ustar = uR + fb c PR (c.tdgp1 * (1.0 / ρR)) (c.gm1dgp1 * PR) (1.0 / PR) (c.tdgm1 * s.aR) s.pstar ∧
      s.ustar = uL - fb c PL (c.tdgp1 * (1.0 / ρL)) (c.gm1dgp1 * PL) (1.0 / PL) (c.tdgm1 * s.aL) s.pstar := by
  intro c s h
  obtain ⟨h1, h2⟩ := ustar_identity g ρL uL PL ρR uR PR nf bf h
  have hR : s.fR = fb c PR (c.tdgp1 * (1.0 / ρR)) (c.gm1dgp1 * PR) (1.0 / PR) (c.tdgm1 * s.aR) s.pstar := rfl
  have hL : s.fL = fb c PL (c.tdgp1 * (1.0 / ρL)) (c.gm1dgp1 * PL) (1.0 / PL) (c.tdgm1 * s.aL) s.pstar := rfl
  refine ⟨fun hn => ?_, fun hn => ?_, by rw [← hR]; exact h1, by rw [← hL]; exact h2⟩
  · unfold StarR; rw [h1, hR, fb_raref (not_lt.mp hn)]
  · unfold StarL; rw [h2, hL, fb_raref (not_lt.mp hn)]

/-- `solve_iterative_iff`: over the reals (`ovf = 0`) and for admissible inputs `ρ, P ≥ 0` (the
`cmac_assert`s of `solve`), `solve` takes its iterative part EXACTLY when both states are
non-vacuum and no vacuum is generated — the domain hypotheses `0 < ρ`, `0 < P`, `hnovac` of the
theorems above are the dispatch conditions of the code, and in that case `solve` is `sampleStar`
applied to `star`, the two functions the theorems are about -/
theorem solve_iterative_iff (g ρL uL PL ρR uR PR ξ : ℝ) (nf bf : ℕ) (hρL : 0 ≤ ρL) (hPL : 0 ≤ PL)
    (hρR : 0 ≤ ρR) (hPR : 0 ≤ PR) :
    (RiemannVacuum.solveIfVacuum 0 g ρL uL PL ρR uR PR ξ = none ↔
      0 < ρL ∧ 0 < PL ∧ 0 < ρR ∧ 0 < PR ∧
      ¬ ((mkConsts g).tdgm1 * soundspeed (mkConsts g) (1.0 / ρL) PL
          + (mkConsts g).tdgm1 * soundspeed (mkConsts g) (1.0 / ρR) PR ≤ uR - uL)) ∧
    (RiemannVacuum.solveIfVacuum 0 g ρL uL PL ρR uR PR ξ = none →
      solve 0 g nf bf ρL uL PL ρR uR PR ξ =
      ((sampleStar (mkConsts g) (star (mkConsts g) nf bf ρL uL PL ρR uR PR) ρL uL PL ρR uR PR ξ).1,
       (sampleStar (mkConsts g) (star (mkConsts g) nf bf ρL uL PL ρR uR PR) ρL uL PL ρR uR PR ξ).2,
       some (star (mkConsts g) nf bf ρL uL PL ρR uR PR))) :=
  ⟨solveIfVacuum_none_iff g ρL uL PL ρR uR PR ξ hρL hPL hρR hPR,
    solve_iterative g ρL uL PL ρR uR PR ξ nf bf⟩

/-- and `sampleStar` at the reals (no infinite `f`) is the side selection by the contact:
`sample_right_state` for `u* < ξ` (flag 1), `sample_left_state` otherwise (flag -1), called with
`a`, `1/P`, `u*`, `p*` of `star` -/
theorem sampleStar_real (c : Consts ℝ) (s : Star ℝ) (ρL uL PL ρR uR PR ξ : ℝ) :
    sampleStar c s ρL uL PL ρR uR PR ξ =
      if s.ustar < ξ then (1, sampleRightState c ρR uR PR s.aR (1.0 / PR) s.ustar s.pstar ξ)
      else (-1, sampleLeftState c ρL uL PL s.aL (1.0 / PL) s.ustar s.pstar ξ) := by
  unfold sampleStar
  have : ¬ (IsInf s.fR ∨ IsInf s.fL) := by
    rintro (⟨_, h⟩ | ⟨_, h⟩) <;> exact h (le_refl _)
  rw [if_neg this]

/-! ## 5. shocks: the sampled state satisfies the Rankine–Hugoniot conditions -/

/-- `shock_RH` (right): for `p* > P_R`, `u* = u_R + f_R(p*)` and any speed behind the shock, the
state returned by `sample_right_shock_wave` and the shock speed `S_R` it uses satisfy conservation
of mass, momentum and energy across the shock (frame of the shock; `(E + P) v` with
`E = P/(γ-1) + ρv²/2`) -/
theorem shock_RH_right (g ρ u P p ξ : ℝ) (hρ : 0 < ρ) (hP : 0 < P) (hp : P < p) :
    let c := mkConsts g
    let a := soundspeed c (1.0 / ρ) P
    let ustar := u + fb c P (c.tdgp1 * (1.0 / ρ)) (c.gm1dgp1 * P) (1.0 / P) (c.tdgm1 * a) p
    let S := shockSpeedR c u a (1.0 / P) p
    let s := sampleRightShock c ρ u P a (1.0 / P) ustar p ξ
    ξ < S →
      s.rho * (s.u - S) = ρ * (u - S) ∧
      s.rho * (s.u - S) ^ 2 + s.P = ρ * (u - S) ^ 2 + P ∧
      (s.P * c.gamma / (c.gamma - 1) + s.rho * (s.u - S) ^ 2 / 2) * (s.u - S)
        = (P * c.gamma / (c.gamma - 1) + ρ * (u - S) ^ 2 / 2) * (u - S) := by
  intro c a ustar S s hξ
  have hc := mk_rel g
  have hs : s = ⟨shockDensity c ρ (1.0 / P) p, ustar, p, 1⟩ := by
    simp only [s, sampleRightShock]; rw [if_pos hξ]
  rw [hs]
  exact shock_right_RH hc (stateOK_of_solve hc hρ hP) u
    (by rw [show (1.0:ℝ) = 1 by norm_num]) rfl hp

/-- `shock_RH` (left): `p* > P_L`, `u* = u_L - f_L(p*)`, speed behind the left shock -/
theorem shock_RH_left (g ρ u P p ξ : ℝ) (hρ : 0 < ρ) (hP : 0 < P) (hp : P < p) :
    let c := mkConsts g
    let a := soundspeed c (1.0 / ρ) P
    let ustar := u - fb c P (c.tdgp1 * (1.0 / ρ)) (c.gm1dgp1 * P) (1.0 / P) (c.tdgm1 * a) p
    let S := shockSpeedL c u a (1.0 / P) p
    let s := sampleLeftShock c ρ u P a (1.0 / P) ustar p ξ
    S < ξ →
      s.rho * (s.u - S) = ρ * (u - S) ∧
      s.rho * (s.u - S) ^ 2 + s.P = ρ * (u - S) ^ 2 + P ∧
      (s.P * c.gamma / (c.gamma - 1) + s.rho * (s.u - S) ^ 2 / 2) * (s.u - S)
        = (P * c.gamma / (c.gamma - 1) + ρ * (u - S) ^ 2 / 2) * (u - S) := by
  intro c a ustar S s hξ
  have hc := mk_rel g
  have hs : s = ⟨shockDensity c ρ (1.0 / P) p, ustar, p, 6⟩ := by
    simp only [s, sampleLeftShock]; rw [if_pos hξ]
  rw [hs]
  exact shock_left_RH hc (stateOK_of_solve hc hρ hP) u
    (by rw [show (1.0:ℝ) = 1 by norm_num]) rfl hp

/-! ## 6. rarefactions -/

/-- `rarefaction_isentropic`: inside the fan and behind it (star state) the sampled state has the
entropy of the undisturbed state, `P / ρ^γ` constant (stated without division:
`P' ρ^γ = P ρ'^γ`), at EVERY sampling speed (the code clamps the fan base at zero); right and left
rarefaction -/
theorem rarefaction_isentropic (g ρ u P p ustar ξ : ℝ) (hρ : 0 < ρ) (hP : 0 < P) (hp : 0 ≤ p) :
    let c := mkConsts g
    let a := soundspeed c (1.0 / ρ) P
    (fanR c ρ u P a ξ 5).P * ρ ^ c.gamma = P * (fanR c ρ u P a ξ 5).rho ^ c.gamma ∧
    (fanL c ρ u P a ξ 9).P * ρ ^ c.gamma = P * (fanL c ρ u P a ξ 9).rho ^ c.gamma ∧
    (starRarefaction c ρ (1.0 / P) ustar p 4).P * ρ ^ c.gamma
      = P * (starRarefaction c ρ (1.0 / P) ustar p 4).rho ^ c.gamma := by
  intro c a
  have hc := mk_rel g
  refine ⟨?_, ?_, ?_⟩
  · rw [fanR_eq]; exact isentropic_of_base hc hρ.le (baseR_nonneg' c u a ξ)
  · rw [fanL_eq]; exact isentropic_of_base hc hρ.le (baseL_nonneg' c u a ξ)
  · exact isentropic_star hc (stateOK_of_solve hc hρ hP) hp

/-- `rarefaction_invariant` and `fan_characteristic` (right): inside the right fan (where the
`base` of the formula — clamped at zero by the code — is positive) the sound speed of the sampled state is `a · base`, the
Riemann invariant `u - 2a/(γ-1)` has the value of the right state, and `u + a = ξ` -/
theorem fan_right (g ρ u P ξ : ℝ) (hρ : 0 < ρ) (hP : 0 < P) :
    let c := mkConsts g
    let a := soundspeed c (1.0 / ρ) P
    let s := fanR c ρ u P a ξ 5
    0 < baseR c u a ξ →
      soundspeed c (1.0 / s.rho) s.P = a * baseR c u a ξ ∧
      s.u - c.tdgm1 * soundspeed c (1.0 / s.rho) s.P = u - c.tdgm1 * a ∧
      s.u + soundspeed c (1.0 / s.rho) s.P = ξ := by
  intro c a s hb
  have hc := mk_rel g
  have hst := stateOK_of_solve hc hρ hP
  have hs : soundspeed c (1.0 / s.rho) s.P = a * baseR c u a ξ := by
    simp only [s, fanR_eq]; exact soundspeed_of_base hc hst hb
  refine ⟨hs, ?_, ?_⟩
  · rw [hs]; simp only [s, fanR_eq]; exact fanR_invariant hc hst.a_pos u hb
  · rw [hs]; simp only [s, fanR_eq]; exact fanR_characteristic hc hst.a_pos u hb

/-- the same for the left fan: `u + 2a/(γ-1)` constant and `u - a = ξ` -/
theorem fan_left (g ρ u P ξ : ℝ) (hρ : 0 < ρ) (hP : 0 < P) :
    let c := mkConsts g
    let a := soundspeed c (1.0 / ρ) P
    let s := fanL c ρ u P a ξ 9
    0 < baseL c u a ξ →
      soundspeed c (1.0 / s.rho) s.P = a * baseL c u a ξ ∧
      s.u + c.tdgm1 * soundspeed c (1.0 / s.rho) s.P = u + c.tdgm1 * a ∧
      s.u - soundspeed c (1.0 / s.rho) s.P = ξ := by
  intro c a s hb
  have hc := mk_rel g
  have hst := stateOK_of_solve hc hρ hP
  have hs : soundspeed c (1.0 / s.rho) s.P = a * baseL c u a ξ := by
    simp only [s, fanL_eq]; exact soundspeed_of_base hc hst hb
  refine ⟨hs, ?_, ?_⟩
  · rw [hs]; simp only [s, fanL_eq]; exact fanL_invariant hc hst.a_pos u hb
  · rw [hs]; simp only [s, fanL_eq]; exact fanL_characteristic hc hst.a_pos u hb

/-- inside the fan the `base` IS positive: between tail and head of a right rarefaction with
`p* > 0`, `u* = u_R + f_R(p*)` (so the hypothesis of `fan_right` holds wherever the sampler
evaluates the fan) -/
theorem fan_right_base_pos (g ρ u P p ustar ξ : ℝ) (hρ : 0 < ρ) (hP : 0 < P) (hp : 0 < p) :
    let c := mkConsts g
    let a := soundspeed c (1.0 / ρ) P
    StarR c u a (1.0 / P) ustar p → tailR c a (1.0 / P) ustar p ≤ ξ → 0 < baseR c u a ξ := by
  intro c a hs hξ
  have hc : CRel c := mk_rel g
  have hst : StateOK c ρ P (1.0 / P) a := stateOK_of_solve hc hρ hP
  have h1 : baseR0 c u a (tailR c a (1.0 / P) ustar p) = (p * (1.0 / P)) ^ c.gm1d2g :=
    baseR0_tail hc hst.a_pos hs
  have hpos : 0 < (p * (1.0 / P)) ^ c.gm1d2g := Real.rpow_pos_of_pos (mul_pos hp hst.Pinv_pos) _
  have hmono : baseR0 c u a (tailR c a (1.0 / P) ustar p) ≤ baseR0 c u a ξ := by
    unfold baseR0
    have := div_le_div_of_nonneg_right (mul_le_mul_of_nonneg_left
      (sub_le_sub_left hξ u) hc.gm1dgp1_pos.le) hst.a_pos.le
    linarith
  rw [baseR_eq_max]
  exact lt_of_lt_of_le (by linarith) (le_max_right _ _)

/-- the same for the left fan: between head and tail of a left rarefaction with `p* > 0`,
`u* = u_L - f_L(p*)` -/
theorem fan_left_base_pos (g ρ u P p ustar ξ : ℝ) (hρ : 0 < ρ) (hP : 0 < P) (hp : 0 < p) :
    let c := mkConsts g
    let a := soundspeed c (1.0 / ρ) P
    StarL c u a (1.0 / P) ustar p → ξ ≤ tailL c a (1.0 / P) ustar p → 0 < baseL c u a ξ := by
  intro c a hs hξ
  have hc : CRel c := mk_rel g
  have hst : StateOK c ρ P (1.0 / P) a := stateOK_of_solve hc hρ hP
  have h1 : baseL0 c u a (tailL c a (1.0 / P) ustar p) = (p * (1.0 / P)) ^ c.gm1d2g :=
    baseL0_tail hc hst.a_pos hs
  have hpos : 0 < (p * (1.0 / P)) ^ c.gm1d2g := Real.rpow_pos_of_pos (mul_pos hp hst.Pinv_pos) _
  have hmono : baseL0 c u a (tailL c a (1.0 / P) ustar p) ≤ baseL0 c u a ξ := by
    unfold baseL0
    have := div_le_div_of_nonneg_right (mul_le_mul_of_nonneg_left
      (sub_le_sub_left hξ u) hc.gm1dgp1_pos.le) hst.a_pos.le
    linarith
  rw [baseL_eq_max]
  exact lt_of_lt_of_le (by linarith) (le_max_right _ _)

/-- the invariant also holds for the star state behind a right / left rarefaction -/
theorem rarefaction_invariant_star (g ρ u P p : ℝ) (hρ : 0 < ρ) (hP : 0 < P) (hp : 0 < p) :
    let c := mkConsts g
    let a := soundspeed c (1.0 / ρ) P
    (∀ ustar, StarR c u a (1.0 / P) ustar p →
      let s := starRarefaction c ρ (1.0 / P) ustar p 4
      s.u - c.tdgm1 * soundspeed c (1.0 / s.rho) s.P = u - c.tdgm1 * a) ∧
    (∀ ustar, StarL c u a (1.0 / P) ustar p →
      let s := starRarefaction c ρ (1.0 / P) ustar p 10
      s.u + c.tdgm1 * soundspeed c (1.0 / s.rho) s.P = u + c.tdgm1 * a) := by
  intro c a
  have hc := mk_rel g
  have hst := stateOK_of_solve hc hρ hP
  have hs := soundspeed_star hc hst hp
  constructor
  · intro ustar h s
    simp only [s, starRarefaction, pow_real]; rw [hs, h]; ring
  · intro ustar h s
    simp only [s, starRarefaction, pow_real]; rw [hs, h]; ring

/-! ## 7. the sampled solution is continuous at heads and tails -/

/-- `sample_continuous_at_head` / `_at_tail`: the fan formula returns the undisturbed state at the
head and the star state at the tail (right and left rarefaction) -/
theorem sample_continuous_at_head_tail (g ρ u P p ustar : ℝ) (hρ : 0 < ρ) (hP : 0 < P)
    (hp : 0 ≤ p) (br : ℕ) :
    let c := mkConsts g
    let a := soundspeed c (1.0 / ρ) P
    fanR c ρ u P a (headR u a) br = ⟨ρ, u, P, br⟩ ∧
    fanL c ρ u P a (headL u a) br = ⟨ρ, u, P, br⟩ ∧
    (StarR c u a (1.0 / P) ustar p →
      fanR c ρ u P a (tailR c a (1.0 / P) ustar p) br = starRarefaction c ρ (1.0 / P) ustar p br) ∧
    (StarL c u a (1.0 / P) ustar p →
      fanL c ρ u P a (tailL c a (1.0 / P) ustar p) br = starRarefaction c ρ (1.0 / P) ustar p br) := by
  intro c a
  have hc := mk_rel g
  have hst := stateOK_of_solve hc hρ hP
  exact ⟨fanR_head hc hst.a_pos u br, fanL_head hc hst.a_pos u br,
    fun h => fanR_tail hc hst hp h br, fun h => fanL_tail hc hst hp h br⟩

/-- consequently the whole sampler of a right rarefaction is a continuous function of the sampling
speed (density, velocity and pressure), for every `0 ≤ p* ≤ P_R` with `u* = u_R + f_R(p*)` -/
theorem sample_right_rarefaction_continuous (g ρ u P p ustar : ℝ) (hρ : 0 < ρ) (hP : 0 < P)
    (hp0 : 0 ≤ p) (hp : p ≤ P) :
    let c := mkConsts g
    let a := soundspeed c (1.0 / ρ) P
    StarR c u a (1.0 / P) ustar p →
      Continuous (fun ξ => (sampleRightRarefaction c ρ u P a (1.0 / P) ustar p ξ).rho) ∧
      Continuous (fun ξ => (sampleRightRarefaction c ρ u P a (1.0 / P) ustar p ξ).u) ∧
      Continuous (fun ξ => (sampleRightRarefaction c ρ u P a (1.0 / P) ustar p ξ).P) := by
  intro c a hs
  have hc := mk_rel g
  have hst := stateOK_of_solve hc hρ hP
  have hcl := sampleRightRarefaction_clamp hc hst hp0 hp hs
  obtain ⟨c1, c2, c3⟩ := fanR_continuous hc ρ u P a 0
  have hk := clamp_continuous (tailR c a (1.0 / P) ustar p) (headR u a)
  refine ⟨?_, ?_, ?_⟩
  · rw [show (fun ξ => (sampleRightRarefaction c ρ u P a (1.0 / P) ustar p ξ).rho)
      = fun ξ => (fanR c ρ u P a (clamp (tailR c a (1.0 / P) ustar p) (headR u a) ξ) 0).rho from
      funext fun ξ => (hcl ξ).1]
    exact c1.comp hk
  · rw [show (fun ξ => (sampleRightRarefaction c ρ u P a (1.0 / P) ustar p ξ).u)
      = fun ξ => (fanR c ρ u P a (clamp (tailR c a (1.0 / P) ustar p) (headR u a) ξ) 0).u from
      funext fun ξ => (hcl ξ).2.1]
    exact c2.comp hk
  · rw [show (fun ξ => (sampleRightRarefaction c ρ u P a (1.0 / P) ustar p ξ).P)
      = fun ξ => (fanR c ρ u P a (clamp (tailR c a (1.0 / P) ustar p) (headR u a) ξ) 0).P from
      funext fun ξ => (hcl ξ).2.2]
    exact c3.comp hk

/-- the same for the left rarefaction, `u* = u_L - f_L(p*)` -/
theorem sample_left_rarefaction_continuous (g ρ u P p ustar : ℝ) (hρ : 0 < ρ) (hP : 0 < P)
    (hp0 : 0 ≤ p) (hp : p ≤ P) :
    let c := mkConsts g
    let a := soundspeed c (1.0 / ρ) P
    StarL c u a (1.0 / P) ustar p →
      Continuous (fun ξ => (sampleLeftRarefaction c ρ u P a (1.0 / P) ustar p ξ).rho) ∧
      Continuous (fun ξ => (sampleLeftRarefaction c ρ u P a (1.0 / P) ustar p ξ).u) ∧
      Continuous (fun ξ => (sampleLeftRarefaction c ρ u P a (1.0 / P) ustar p ξ).P) := by
  intro c a hs
  have hc := mk_rel g
  have hst := stateOK_of_solve hc hρ hP
  have hcl := sampleLeftRarefaction_clamp hc hst hp0 hp hs
  obtain ⟨c1, c2, c3⟩ := fanL_continuous hc ρ u P a 0
  have hk := clamp_continuous (headL u a) (tailL c a (1.0 / P) ustar p)
  refine ⟨?_, ?_, ?_⟩
  · rw [show (fun ξ => (sampleLeftRarefaction c ρ u P a (1.0 / P) ustar p ξ).rho)
      = fun ξ => (fanL c ρ u P a (clamp (headL u a) (tailL c a (1.0 / P) ustar p) ξ) 0).rho from
      funext fun ξ => (hcl ξ).1]
    exact c1.comp hk
  · rw [show (fun ξ => (sampleLeftRarefaction c ρ u P a (1.0 / P) ustar p ξ).u)
      = fun ξ => (fanL c ρ u P a (clamp (headL u a) (tailL c a (1.0 / P) ustar p) ξ) 0).u from
      funext fun ξ => (hcl ξ).2.1]
    exact c2.comp hk
  · rw [show (fun ξ => (sampleLeftRarefaction c ρ u P a (1.0 / P) ustar p ξ).P)
      = fun ξ => (fanL c ρ u P a (clamp (headL u a) (tailL c a (1.0 / P) ustar p) ξ) 0).P from
      funext fun ξ => (hcl ξ).2.2]
    exact c3.comp hk

/-- across the contact pressure and velocity are continuous: both `sample_right_state` and
`sample_left_state` return `(u*, p*)` in their star regions (shock or rarefaction) -/
theorem contact_continuous (c : Consts ℝ) (ρR uR PR aR ρL uL PL aL ustar p ξ : ℝ) :
    (PR < p → ξ < shockSpeedR c uR aR (1.0 / PR) p →
      (sampleRightState c ρR uR PR aR (1.0 / PR) ustar p ξ).u = ustar ∧
      (sampleRightState c ρR uR PR aR (1.0 / PR) ustar p ξ).P = p) ∧
    (¬ PR < p → ξ < headR uR aR → ξ < tailR c aR (1.0 / PR) ustar p →
      (sampleRightState c ρR uR PR aR (1.0 / PR) ustar p ξ).u = ustar ∧
      (sampleRightState c ρR uR PR aR (1.0 / PR) ustar p ξ).P = p) ∧
    (PL < p → shockSpeedL c uL aL (1.0 / PL) p < ξ →
      (sampleLeftState c ρL uL PL aL (1.0 / PL) ustar p ξ).u = ustar ∧
      (sampleLeftState c ρL uL PL aL (1.0 / PL) ustar p ξ).P = p) ∧
    (¬ PL < p → headL uL aL < ξ → ¬ ξ < tailL c aL (1.0 / PL) ustar p →
      (sampleLeftState c ρL uL PL aL (1.0 / PL) ustar p ξ).u = ustar ∧
      (sampleLeftState c ρL uL PL aL (1.0 / PL) ustar p ξ).P = p) := by
  refine ⟨fun h1 h2 => ?_, fun h1 h2 h3 => ?_, fun h1 h2 => ?_, fun h1 h2 h3 => ?_⟩
  · simp only [sampleRightState, if_pos h1, sampleRightShock, if_pos h2, and_self]
  · simp only [sampleRightState, if_neg h1, sampleRightRarefaction, if_pos h2, if_pos h3,
      starRarefaction, and_self]
  · simp only [sampleLeftState, if_pos h1, sampleLeftShock, if_pos h2, and_self]
  · simp only [sampleLeftState, if_neg h1, sampleLeftRarefaction, if_pos h2, if_neg h3,
      starRarefaction, and_self]

/-! ## 8. vacuum solutions join continuously onto the rarefaction fans -/

/-- `vacuum_joins_fan` (vacuum on the right / on the left of a gas; `RiemannVacuum` samplers of
the current, fixed code): at every sampling speed density and pressure are the fan formula at the
speed clamped to `[head, front]` — hence continuous functions of the speed that reach `0` exactly at
the vacuum front and the undisturbed state at the head — and so is the velocity on the gas side of
the front (inside the vacuum the code returns `u = 0`, which has no meaning) -/
theorem vacuum_joins_fan (g ρ u P a : ℝ) (ha : 0 < a) :
    let c := mkConsts g
    (Continuous (fun ξ => (RiemannVacuum.sampleRightVacuum (RiemannVacuum.effGamma g) ρ u P a ξ).rho) ∧
     Continuous (fun ξ => (RiemannVacuum.sampleRightVacuum (RiemannVacuum.effGamma g) ρ u P a ξ).P) ∧
     (∀ ξ, u + c.tdgm1 * a ≤ ξ →
       (RiemannVacuum.sampleRightVacuum (RiemannVacuum.effGamma g) ρ u P a ξ).rho = 0 ∧
       (RiemannVacuum.sampleRightVacuum (RiemannVacuum.effGamma g) ρ u P a ξ).P = 0) ∧
     (∀ ξ, ξ < u + c.tdgm1 * a →
       (RiemannVacuum.sampleRightVacuum (RiemannVacuum.effGamma g) ρ u P a ξ).u
         = (fanL c ρ u P a (clamp (headL u a) (u + c.tdgm1 * a) ξ) 0).u)) ∧
    (Continuous (fun ξ => (RiemannVacuum.sampleLeftVacuum (RiemannVacuum.effGamma g) ρ u P a ξ).rho) ∧
     Continuous (fun ξ => (RiemannVacuum.sampleLeftVacuum (RiemannVacuum.effGamma g) ρ u P a ξ).P) ∧
     (∀ ξ, ξ ≤ u - c.tdgm1 * a →
       (RiemannVacuum.sampleLeftVacuum (RiemannVacuum.effGamma g) ρ u P a ξ).rho = 0 ∧
       (RiemannVacuum.sampleLeftVacuum (RiemannVacuum.effGamma g) ρ u P a ξ).P = 0) ∧
     (∀ ξ, u - c.tdgm1 * a < ξ →
       (RiemannVacuum.sampleLeftVacuum (RiemannVacuum.effGamma g) ρ u P a ξ).u
         = (fanR c ρ u P a (clamp (u - c.tdgm1 * a) (headR u a) ξ) 0).u)) := by
  intro c
  have hc : CRel c := mk_rel g
  have hR := sampleRightVacuum_clamp g ρ u P ha
  have hL := sampleLeftVacuum_clamp g ρ u P ha
  obtain ⟨l1, _, l3⟩ := fanL_continuous hc ρ u P a 0
  obtain ⟨r1, _, r3⟩ := fanR_continuous hc ρ u P a 0
  have kL := clamp_continuous (headL u a) (u + c.tdgm1 * a)
  have kR := clamp_continuous (u - c.tdgm1 * a) (headR u a)
  refine ⟨⟨?_, ?_, fun ξ hξ => ?_, fun ξ hξ => (hR ξ).2.2 hξ⟩, ⟨?_, ?_, fun ξ hξ => ?_, fun ξ hξ => (hL ξ).2.2 hξ⟩⟩
  · rw [show (fun ξ => (RiemannVacuum.sampleRightVacuum (RiemannVacuum.effGamma g) ρ u P a ξ).rho)
      = fun ξ => (fanL c ρ u P a (clamp (headL u a) (u + c.tdgm1 * a) ξ) 0).rho from
      funext fun ξ => (hR ξ).1]
    exact l1.comp kL
  · rw [show (fun ξ => (RiemannVacuum.sampleRightVacuum (RiemannVacuum.effGamma g) ρ u P a ξ).P)
      = fun ξ => (fanL c ρ u P a (clamp (headL u a) (u + c.tdgm1 * a) ξ) 0).P from
      funext fun ξ => (hR ξ).2.1]
    exact l3.comp kL
  · have hcl : clamp (headL u a) (u + c.tdgm1 * a) ξ = u + c.tdgm1 * a := by
      unfold clamp; rw [min_eq_right hξ, max_eq_right (headL_le_front hc ha u)]
    have z := fanL_front hc ha ρ u P 0
    exact ⟨by rw [(hR ξ).1, hcl]; exact z.1, by rw [(hR ξ).2.1, hcl]; exact z.2⟩
  · rw [show (fun ξ => (RiemannVacuum.sampleLeftVacuum (RiemannVacuum.effGamma g) ρ u P a ξ).rho)
      = fun ξ => (fanR c ρ u P a (clamp (u - c.tdgm1 * a) (headR u a) ξ) 0).rho from
      funext fun ξ => (hL ξ).1]
    exact r1.comp kR
  · rw [show (fun ξ => (RiemannVacuum.sampleLeftVacuum (RiemannVacuum.effGamma g) ρ u P a ξ).P)
      = fun ξ => (fanR c ρ u P a (clamp (u - c.tdgm1 * a) (headR u a) ξ) 0).P from
      funext fun ξ => (hL ξ).2.1]
    exact r3.comp kR
  · have hcl : clamp (u - c.tdgm1 * a) (headR u a) ξ = u - c.tdgm1 * a := by
      unfold clamp; exact max_eq_left ((min_le_left _ _).trans hξ)
    have z := fanR_front hc ha ρ u P 0
    exact ⟨by rw [(hL ξ).1, hcl]; exact z.1, by rw [(hL ξ).2.1, hcl]; exact z.2⟩

/-- `vacuum_joins_fan` for vacuum GENERATED between two gases (`S_L ≤ S_R`, the condition under
which `solve` calls the sampler): density and pressure are continuous in the sampling speed -/
theorem vacuum_generation_joins_fans (g ρL uL PL aL ρR uR PR aR : ℝ) (haL : 0 < aL) (haR : 0 < aR)
    (hgen : (mkConsts g).tdgm1 * aL + (mkConsts g).tdgm1 * aR ≤ uR - uL) :
    Continuous (fun ξ => (RiemannVacuum.sampleVacuumGeneration (RiemannVacuum.effGamma g)
      ρL uL PL aL ρR uR PR aR ξ).rho) ∧
    Continuous (fun ξ => (RiemannVacuum.sampleVacuumGeneration (RiemannVacuum.effGamma g)
      ρL uL PL aL ρR uR PR aR ξ).P) := by
  have hc : CRel (mkConsts g) := mk_rel g
  have h := sampleVacuumGeneration_clamp g ρL uL PL ρR uR PR haL haR (by linarith)
  obtain ⟨l1, _, l3⟩ := fanL_continuous hc ρL uL PL aL 0
  obtain ⟨r1, _, r3⟩ := fanR_continuous hc ρR uR PR aR 0
  have kL := clamp_continuous (headL uL aL) (uL + (mkConsts g).tdgm1 * aL)
  have kR := clamp_continuous (uR - (mkConsts g).tdgm1 * aR) (headR uR aR)
  constructor
  · rw [show (fun ξ => (RiemannVacuum.sampleVacuumGeneration (RiemannVacuum.effGamma g)
        ρL uL PL aL ρR uR PR aR ξ).rho) = fun ξ =>
        (fanL (mkConsts g) ρL uL PL aL (clamp (headL uL aL) (uL + (mkConsts g).tdgm1 * aL) ξ) 0).rho
        + (fanR (mkConsts g) ρR uR PR aR (clamp (uR - (mkConsts g).tdgm1 * aR) (headR uR aR) ξ) 0).rho
      from funext fun ξ => (h ξ).1]
    exact (l1.comp kL).add (r1.comp kR)
  · rw [show (fun ξ => (RiemannVacuum.sampleVacuumGeneration (RiemannVacuum.effGamma g)
        ρL uL PL aL ρR uR PR aR ξ).P) = fun ξ =>
        (fanL (mkConsts g) ρL uL PL aL (clamp (headL uL aL) (uL + (mkConsts g).tdgm1 * aL) ξ) 0).P
        + (fanR (mkConsts g) ρR uR PR aR (clamp (uR - (mkConsts g).tdgm1 * aR) (headR uR aR) ξ) 0).P
      from funext fun ξ => (h ξ).2]
    exact (l3.comp kL).add (r3.comp kR)

/-! ## non-vacuity: the hypotheses used above are satisfiable -/

/-- a continuous function with a sign change satisfies the hypotheses of `brent_bracket` /
`solve_brent_root` -/
example : (fun x : ℝ => x - 1) 0 * (fun x : ℝ => x - 1) 2 ≤ 0 ∧ Continuous (fun x : ℝ => x - 1) :=
  ⟨by norm_num, continuous_id.sub continuous_const⟩

/-- `StarR` / `StarL` (the star velocity relation on the rarefaction branch) hold for
`u* = u_R + f_R(p*)`, `u* = u_L - f_L(p*)`: this is how `ustar_identity` feeds sections 6–7 -/
example (c : Consts ℝ) (u a Pinv p : ℝ) :
    StarR c u a Pinv (u + c.tdgm1 * a * ((p * Pinv) ^ c.gm1d2g - 1)) p ∧
    StarL c u a Pinv (u - c.tdgm1 * a * ((p * Pinv) ^ c.gm1d2g - 1)) p := ⟨rfl, rfl⟩

/-- Sod-like data satisfy the domain hypotheses of the state theorems; the shock hypothesis
`P < p` and the rarefaction hypothesis `0 ≤ p ≤ P` are both inhabited -/
example : (0:ℝ) < 0.125 ∧ (0:ℝ) < 0.1 ∧ (0.1:ℝ) < 0.30313 ∧ (0:ℝ) ≤ 0.30313 ∧ (0.30313:ℝ) ≤ 1 := by
  norm_num

/-- the vacuum-generation hypothesis of `vacuum_generation_joins_fans` is satisfiable for every γ -/
example (g : ℝ) : ∃ uL uR : ℝ, (mkConsts g).tdgm1 * 1 + (mkConsts g).tdgm1 * 1 ≤ uR - uL :=
  ⟨0, (mkConsts g).tdgm1 * 1 + (mkConsts g).tdgm1 * 1, by linarith⟩

/-- the domain hypotheses (`0 < ρ`, `0 < P`, no vacuum generation) of the iterative-part theorems —
the right-hand side of `solve_iterative_iff` — hold for every pair of non-vacuum states with equal
velocities -/
example (g ρ P u : ℝ) (hρ : 0 < ρ) (hP : 0 < P) :
    ¬ ((mkConsts g).tdgm1 * soundspeed (mkConsts g) (1.0 / ρ) P
        + (mkConsts g).tdgm1 * soundspeed (mkConsts g) (1.0 / ρ) P ≤ u - u) := by
  have hc := mk_rel g
  have := mul_pos hc.tdgm1_pos (stateOK_of_solve hc hρ hP).a_pos
  rw [sub_self]; linarith

end CMacVerif.ExactRiemann
