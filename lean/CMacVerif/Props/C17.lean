import CMacVerif.Lemmas.Predicates
import CMacVerif.Lemmas.PredicatesFilter
import CMacVerif.Util.Bits
import Mathlib.Algebra.Order.Field.Rat
import Mathlib.LinearAlgebra.Matrix.Determinant.Basic
import Mathlib.Tactic.FinCases
/-!
# C17 — orientation and in-sphere tests return the exact sign

Property theorems only.  Model: `CMacVerif/Model/Predicates.lean` (mirrors
`src/ExactGeometricTests.hpp`).  Notation: `orientExactVal` / `insphereExactVal` at `ι := ℤ` are
the integers the exact routines compute from the mantissas; `orient3dExact` / `insphereExact`
are the routines as coded (256- resp. 278-bit sign-magnitude integers, truncating);
`orientFilter` / `insphereFilter` are the floating-point parts of the adaptive routines,
`orient3dAdaptive` / `insphereAdaptive` the adaptive routines.

1. exact value = determinant (explicit, and Mathlib's `Matrix.det`);
2. sign under permutations of the points (generating transpositions, every permutation);
3. no intermediate of the exact routines overflows the fixed-width integers;
4. `filter_sound`: for EVERY rounding function with relative error ≤ 2⁻⁵³ applied after every
   operation, a decided filter returns the exact sign; hence adaptive = exact for all inputs.
-/
set_option exponentiation.threshold 2000
namespace CMacVerif.Predicates

/-! ## 1. the exact routines compute the determinant -/

/-- `orient3d_exact` computes the 3x3 determinant of the coordinate differences
(Leibniz formula written out) -/
theorem orient_exact_is_det (a b c d : V3 ℤ) :
    orientExactVal a b c d =
      (a.x - d.x) * (b.y - d.y) * (c.z - d.z) + (a.y - d.y) * (b.z - d.z) * (c.x - d.x)
      + (a.z - d.z) * (b.x - d.x) * (c.y - d.y) - (a.z - d.z) * (b.y - d.y) * (c.x - d.x)
      - (a.y - d.y) * (b.x - d.x) * (c.z - d.z) - (a.x - d.x) * (b.z - d.z) * (c.y - d.y) := by
  simp only [orientExactVal]; ring

/-- the same with Mathlib's determinant -/
theorem orient_exact_is_matrix_det (a b c d : V3 ℤ) :
    orientExactVal a b c d =
      Matrix.det !![a.x - d.x, a.y - d.y, a.z - d.z;
                    b.x - d.x, b.y - d.y, b.z - d.z;
                    c.x - d.x, c.y - d.y, c.z - d.z] := by
  rw [Matrix.det_fin_three]
  simp [orientExactVal]
  ring

/-- 3x3 determinant, Leibniz formula -/
def idet3 (a1 a2 a3 b1 b2 b3 c1 c2 c3 : ℤ) : ℤ :=
  a1 * b2 * c3 + a2 * b3 * c1 + a3 * b1 * c2 - a3 * b2 * c1 - a2 * b1 * c3 - a1 * b3 * c2

/-- `insphere_exact` computes the lifted 4x4 determinant with rows
`(px - ex, py - ey, pz - ez, |p - e|²)`, `p = a, b, c, d` (Laplace expansion along the last
column written out) -/
theorem insphere_exact_is_det (a b c d e : V3 ℤ) :
    insphereExactVal a b c d e =
      - (nrm2 (vsub a e)) * idet3 (b.x - e.x) (b.y - e.y) (b.z - e.z) (c.x - e.x) (c.y - e.y)
            (c.z - e.z) (d.x - e.x) (d.y - e.y) (d.z - e.z)
      + (nrm2 (vsub b e)) * idet3 (a.x - e.x) (a.y - e.y) (a.z - e.z) (c.x - e.x) (c.y - e.y)
            (c.z - e.z) (d.x - e.x) (d.y - e.y) (d.z - e.z)
      - (nrm2 (vsub c e)) * idet3 (a.x - e.x) (a.y - e.y) (a.z - e.z) (b.x - e.x) (b.y - e.y)
            (b.z - e.z) (d.x - e.x) (d.y - e.y) (d.z - e.z)
      + (nrm2 (vsub d e)) * idet3 (a.x - e.x) (a.y - e.y) (a.z - e.z) (b.x - e.x) (b.y - e.y)
            (b.z - e.z) (c.x - e.x) (c.y - e.y) (c.z - e.z) := by
  simp only [insphereExactVal, insphereCombine, insphereParts, minor2, nrm2, vsub, idet3]; ring

/-- the same with Mathlib's determinant -/
theorem insphere_exact_is_matrix_det (a b c d e : V3 ℤ) :
    insphereExactVal a b c d e =
      Matrix.det !![a.x - e.x, a.y - e.y, a.z - e.z, (a.x - e.x) ^ 2 + (a.y - e.y) ^ 2 + (a.z - e.z) ^ 2;
                    b.x - e.x, b.y - e.y, b.z - e.z, (b.x - e.x) ^ 2 + (b.y - e.y) ^ 2 + (b.z - e.z) ^ 2;
                    c.x - e.x, c.y - e.y, c.z - e.z, (c.x - e.x) ^ 2 + (c.y - e.y) ^ 2 + (c.z - e.z) ^ 2;
                    d.x - e.x, d.y - e.y, d.z - e.z, (d.x - e.x) ^ 2 + (d.y - e.y) ^ 2 + (d.z - e.z) ^ 2] := by
  simp [Matrix.det_succ_row_zero, Fin.sum_univ_succ, Matrix.submatrix, Fin.succAbove,
    insphereExactVal, insphereCombine, insphereParts, minor2, nrm2, vsub]
  ring

/-- homogeneous 4x4 matrix of four points: rows `(x, y, z, 1)` -/
def homM (p : Fin 4 → V3 ℤ) : Matrix (Fin 4) (Fin 4) ℤ :=
  Matrix.of fun i j => ![(p i).x, (p i).y, (p i).z, 1] j

/-- lifted homogeneous 5x5 matrix of five points: rows `(x, y, z, x²+y²+z², 1)` -/
def liftM (p : Fin 5 → V3 ℤ) : Matrix (Fin 5) (Fin 5) ℤ :=
  Matrix.of fun i j =>
    ![(p i).x, (p i).y, (p i).z, (p i).x ^ 2 + (p i).y ^ 2 + (p i).z ^ 2, 1] j

/-- orientation value = homogeneous 4x4 determinant of the points themselves -/
theorem orient_exact_is_hom_det (p : Fin 4 → V3 ℤ) :
    orientExactVal (p 0) (p 1) (p 2) (p 3) = (homM p).det := by
  simp [Matrix.det_succ_row_zero, Fin.sum_univ_succ, Matrix.submatrix, Fin.succAbove, homM,
    orientExactVal]
  ring

/-- in-sphere value = lifted homogeneous 5x5 determinant of the points themselves -/
theorem insphere_exact_is_lift_det (p : Fin 5 → V3 ℤ) :
    insphereExactVal (p 0) (p 1) (p 2) (p 3) (p 4) = (liftM p).det := by
  simp [Matrix.det_succ_row_zero, Fin.sum_univ_succ, Matrix.submatrix, Fin.succAbove, liftM,
    insphereExactVal, insphereCombine, insphereParts, minor2, nrm2, vsub]
  ring

/-- orientation convention of the source comment: (0,0,0), (0,0,1), (0,1,0), (1,0,0) gives +1 -/
example : sgn (orientExactVal (⟨0, 0, 0⟩ : V3 ℤ) ⟨0, 0, 1⟩ ⟨0, 1, 0⟩ ⟨1, 0, 0⟩) = 1 := by decide

/-! ## 2. behaviour under permutations of the points -/

theorem orient_swap_ab (a b c d : V3 ℤ) : orientExactVal b a c d = -orientExactVal a b c d := by
  simp only [orientExactVal]; ring
theorem orient_swap_bc (a b c d : V3 ℤ) : orientExactVal a c b d = -orientExactVal a b c d := by
  simp only [orientExactVal]; ring
theorem orient_swap_cd (a b c d : V3 ℤ) : orientExactVal a b d c = -orientExactVal a b c d := by
  simp only [orientExactVal]; ring
theorem orient_swap_ad (a b c d : V3 ℤ) : orientExactVal d b c a = -orientExactVal a b c d := by
  simp only [orientExactVal]; ring
/-- a cyclic (even) permutation of three points keeps the value -/
theorem orient_cycle_abc (a b c d : V3 ℤ) : orientExactVal b c a d = orientExactVal a b c d := by
  simp only [orientExactVal]; ring
theorem orient_cycle_bcd (a b c d : V3 ℤ) : orientExactVal a c d b = orientExactVal a b c d := by
  simp only [orientExactVal]; ring

/-- every permutation of the four points multiplies the value by its signature -/
theorem orient_perm (σ : Equiv.Perm (Fin 4)) (p : Fin 4 → V3 ℤ) :
    orientExactVal (p (σ 0)) (p (σ 1)) (p (σ 2)) (p (σ 3)) =
      (Equiv.Perm.sign σ : ℤ) * orientExactVal (p 0) (p 1) (p 2) (p 3) := by
  have h := orient_exact_is_hom_det (fun i => p (σ i))
  rw [h, orient_exact_is_hom_det p]
  have e : homM (fun i => p (σ i)) = (homM p).submatrix σ id := rfl
  rw [e, Matrix.det_permute, Int.cast_id]

theorem insphere_swap_ab (a b c d e : V3 ℤ) :
    insphereExactVal b a c d e = -insphereExactVal a b c d e := by
  simp only [insphereExactVal, insphereCombine, insphereParts, minor2, nrm2, vsub]; ring
theorem insphere_swap_bc (a b c d e : V3 ℤ) :
    insphereExactVal a c b d e = -insphereExactVal a b c d e := by
  simp only [insphereExactVal, insphereCombine, insphereParts, minor2, nrm2, vsub]; ring
theorem insphere_swap_cd (a b c d e : V3 ℤ) :
    insphereExactVal a b d c e = -insphereExactVal a b c d e := by
  simp only [insphereExactVal, insphereCombine, insphereParts, minor2, nrm2, vsub]; ring
/-- also the test point may be exchanged with a vertex -/
theorem insphere_swap_de (a b c d e : V3 ℤ) :
    insphereExactVal a b c e d = -insphereExactVal a b c d e := by
  simp only [insphereExactVal, insphereCombine, insphereParts, minor2, nrm2, vsub]; ring
theorem insphere_cycle_abc (a b c d e : V3 ℤ) :
    insphereExactVal b c a d e = insphereExactVal a b c d e := by
  simp only [insphereExactVal, insphereCombine, insphereParts, minor2, nrm2, vsub]; ring
theorem insphere_cycle_cde (a b c d e : V3 ℤ) :
    insphereExactVal a b d e c = insphereExactVal a b c d e := by
  simp only [insphereExactVal, insphereCombine, insphereParts, minor2, nrm2, vsub]; ring

/-- every permutation of the five points multiplies the value by its signature -/
theorem insphere_perm (σ : Equiv.Perm (Fin 5)) (p : Fin 5 → V3 ℤ) :
    insphereExactVal (p (σ 0)) (p (σ 1)) (p (σ 2)) (p (σ 3)) (p (σ 4)) =
      (Equiv.Perm.sign σ : ℤ) * insphereExactVal (p 0) (p 1) (p 2) (p 3) (p 4) := by
  have h := insphere_exact_is_lift_det (fun i => p (σ i))
  rw [h, insphere_exact_is_lift_det p]
  have e : liftM (fun i => p (σ i)) = (liftM p).submatrix σ id := rfl
  rw [e, Matrix.det_permute, Int.cast_id]

/-- the returned sign: multiplied by the signature (odd ⇒ negated, even ⇒ unchanged) -/
theorem sgn_unit_mul (ε : ℤˣ) (r : ℤ) : sgn ((ε : ℤ) * r) = (ε : ℤ) * sgn r := by
  rcases Int.units_eq_one_or ε with h | h <;> subst h
  · simp
  · simp [sgn_neg_eq]

theorem orient_sign_perm (σ : Equiv.Perm (Fin 4)) (p : Fin 4 → V3 ℤ) :
    sgn (orientExactVal (p (σ 0)) (p (σ 1)) (p (σ 2)) (p (σ 3))) =
      (Equiv.Perm.sign σ : ℤ) * sgn (orientExactVal (p 0) (p 1) (p 2) (p 3)) := by
  rw [orient_perm, sgn_unit_mul]

theorem insphere_sign_perm (σ : Equiv.Perm (Fin 5)) (p : Fin 5 → V3 ℤ) :
    sgn (insphereExactVal (p (σ 0)) (p (σ 1)) (p (σ 2)) (p (σ 3)) (p (σ 4))) =
      (Equiv.Perm.sign σ : ℤ) * sgn (insphereExactVal (p 0) (p 1) (p 2) (p 3) (p 4)) := by
  rw [insphere_perm, sgn_unit_mul]

/-! ## 3. the fixed-width integers never overflow -/

/-- every extracted mantissa has 52 bits -/
theorem mantissa_range (bits : ℕ) : 0 ≤ mantissa bits ∧ mantissa bits < 2 ^ 52 := by
  unfold mantissa
  have : bits % 2 ^ 52 < 2 ^ 52 := Nat.mod_lt _ (by norm_num)
  rw [Int.ofNat_eq_natCast]
  constructor
  · exact Int.natCast_nonneg _
  · exact_mod_cast this

theorem mant53_of_bits (p : V3 ℕ) : Mant53 (p.map mantissa) := by
  have h := fun b => mantissa_range b
  refine ⟨⟨(h _).1, ?_⟩, ⟨(h _).1, ?_⟩, ⟨(h _).1, ?_⟩⟩ <;>
    exact lt_trans (h _).2 (by norm_num)

/-- orientation: with at least 162 bits every intermediate of the fixed-width evaluation equals
the unbounded one (mantissas of up to 53 bits), and the value is below `2^162` -/
theorem orient_fits (w : ℕ) (hw : 162 ≤ w) (a b c d : V3 ℤ) (ha : Mant53 a) (hb : Mant53 b)
    (hc : Mant53 c) (hd : Mant53 d) :
    (orientExactVal (toFW w a) (toFW w b) (toFW w c) (toFW w d)).v = orientExactVal a b c d
    ∧ |orientExactVal a b c d| < 2 ^ 162 := by
  have h := orient_fits_aux hw ha hb hc hd
  exact ⟨h.eq, lt_of_le_of_lt h.le (by norm_num)⟩

/-- in-sphere: 272 bits suffice, the value is below `2^272` -/
theorem insphere_fits (w : ℕ) (hw : 272 ≤ w) (a b c d e : V3 ℤ) (ha : Mant53 a) (hb : Mant53 b)
    (hc : Mant53 c) (hd : Mant53 d) (he : Mant53 e) :
    (insphereExactVal (toFW w a) (toFW w b) (toFW w c) (toFW w d) (toFW w e)).v
      = insphereExactVal a b c d e
    ∧ |insphereExactVal a b c d e| < 2 ^ 272 := by
  have h := insphere_fits_aux hw ha hb hc hd he
  exact ⟨h.eq, lt_of_le_of_lt h.le (by norm_num)⟩

/-- the routine as coded (256-bit integers) returns the sign of the unbounded determinant -/
theorem orient_fits_256 (a b c d : V3 ℤ) (ha : Mant53 a) (hb : Mant53 b) (hc : Mant53 c)
    (hd : Mant53 d) : orient3dExact a b c d = sgn (orientExactVal a b c d) := by
  unfold orient3dExact
  rw [(orient_fits orientBits (by decide) a b c d ha hb hc hd).1]

/-- the routine as coded (278-bit integers) returns the sign of the unbounded determinant -/
theorem insphere_fits_278 (a b c d e : V3 ℤ) (ha : Mant53 a) (hb : Mant53 b) (hc : Mant53 c)
    (hd : Mant53 d) (he : Mant53 e) :
    insphereExact a b c d e = sgn (insphereExactVal a b c d e) := by
  unfold insphereExact
  rw [(insphere_fits insphereBits (by decide) a b c d e ha hb hc hd he).1]

/-- for the mantissas of ANY twelve doubles (no hypothesis left) -/
theorem orient_exact_sign (a b c d : V3 ℕ) :
    orient3dExact (a.map mantissa) (b.map mantissa) (c.map mantissa) (d.map mantissa) =
      sgn (orientExactVal (a.map mantissa) (b.map mantissa) (c.map mantissa) (d.map mantissa)) :=
  orient_fits_256 _ _ _ _ (mant53_of_bits a) (mant53_of_bits b) (mant53_of_bits c)
    (mant53_of_bits d)

theorem insphere_exact_sign (a b c d e : V3 ℕ) :
    insphereExact (a.map mantissa) (b.map mantissa) (c.map mantissa) (d.map mantissa)
      (e.map mantissa) =
      sgn (insphereExactVal (a.map mantissa) (b.map mantissa) (c.map mantissa) (d.map mantissa)
        (e.map mantissa)) :=
  insphere_fits_278 _ _ _ _ _ (mant53_of_bits a) (mant53_of_bits b) (mant53_of_bits c)
    (mant53_of_bits d) (mant53_of_bits e)

/-- the hypothesis of the `_fits` theorems is satisfiable, also at its upper end -/
example : Mant53 ⟨0, 2 ^ 53 - 1, 2 ^ 52⟩ := by
  refine ⟨⟨?_, ?_⟩, ⟨?_, ?_⟩, ⟨?_, ?_⟩⟩ <;> norm_num

/-- the bound is not far from tight: values of at least `2^159` occur -/
example : ∃ a b c d : V3 ℤ, Mant53 a ∧ Mant53 b ∧ Mant53 c ∧ Mant53 d ∧
    2 ^ 159 ≤ |orientExactVal a b c d| := by
  refine ⟨⟨2 ^ 53 - 1, 0, 0⟩, ⟨0, 2 ^ 53 - 1, 0⟩, ⟨0, 0, 2 ^ 53 - 1⟩,
    ⟨2 ^ 53 - 1, 2 ^ 53 - 1, 2 ^ 53 - 1⟩, ?_, ?_, ?_, ?_, ?_⟩
  · refine ⟨⟨?_, ?_⟩, ⟨?_, ?_⟩, ⟨?_, ?_⟩⟩ <;> norm_num
  · refine ⟨⟨?_, ?_⟩, ⟨?_, ?_⟩, ⟨?_, ?_⟩⟩ <;> norm_num
  · refine ⟨⟨?_, ?_⟩, ⟨?_, ?_⟩, ⟨?_, ?_⟩⟩ <;> norm_num
  · refine ⟨⟨?_, ?_⟩, ⟨?_, ?_⟩, ⟨?_, ?_⟩⟩ <;> norm_num
  · norm_num [orientExactVal]

/-! ## 4. the floating-point filter is sound -/

/-- the coordinates of `p` are doubles in [1,2): value `1 + m / 2^52` with the 52-bit mantissa
`m = mant x` that `get_mantissa` extracts -/
def OnGrid {fl : ℝ → ℝ} (mant : Rnd fl → ℤ) (p : V3 (Rnd fl)) : Prop :=
  Grid (vals p) (p.map mant) ∧ Mant53 (p.map mant)

/-- `differences_exact`: under IEEE arithmetic (every multiple `k·2⁻⁵²` with `|k| < 2⁵³` is a double,
so a correctly rounding `fl` returns it unchanged) the coordinate differences the adaptive
routines start from are computed without error.  The soundness theorems below do NOT need this:
they hold for every `fl`, exact differences or not. -/
theorem differences_exact (fl : ℝ → ℝ)
    (hex : ∀ k : ℤ, |k| < 2 ^ 53 → fl ((k : ℝ) / 2 ^ 52) = (k : ℝ) / 2 ^ 52)
    (mant : Rnd fl → ℤ) (a d : V3 (Rnd fl)) (ha : OnGrid mant a) (hd : OnGrid mant d) :
    (vsub a d).x.val = a.x.val - d.x.val ∧ (vsub a d).y.val = a.y.val - d.y.val ∧
    (vsub a d).z.val = a.z.val - d.z.val := by
  obtain ⟨⟨a1, a2, a3⟩, ⟨a4, a5, a6⟩⟩ := ha
  obtain ⟨⟨d1, d2, d3⟩, ⟨d4, d5, d6⟩⟩ := hd
  simp only [vals, V3.map] at a1 a2 a3 a4 a5 a6 d1 d2 d3 d4 d5 d6
  have key : ∀ (x y : Rnd fl), x.val = 1 + (mant x : ℝ) / 2 ^ 52 → y.val = 1 + (mant y : ℝ) / 2 ^ 52 →
      M53 (mant x) → M53 (mant y) → fl (x.val - y.val) = x.val - y.val := by
    intro x y hx hy mx my
    have e : x.val - y.val = ((mant x - mant y : ℤ) : ℝ) / 2 ^ 52 := by
      rw [hx, hy]; push_cast; ring
    rw [e]
    exact hex _ (abs_lt.mpr ⟨by linarith [mx.1, my.2], by linarith [mx.2, my.1]⟩)
  exact ⟨key _ _ a1 d1 a4 d4, key _ _ a2 d2 a5 d5, key _ _ a3 d3 a6 d6⟩

/-- **filter_sound (orientation)**: for every rounding function `fl` with relative error at most
`2⁻⁵³` applied after every operation (differences included) and to the literal `1.e-10`, a
non-zero answer of the filter is the sign of the exact integer determinant. -/
theorem orient_filter_sound (fl : ℝ → ℝ) (hfl : ∀ x, |fl x - x| ≤ 1 / 2 ^ 53 * |x|)
    (mant : Rnd fl → ℤ) (a b c d : V3 (Rnd fl))
    (ha : OnGrid mant a) (hb : OnGrid mant b) (hc : OnGrid mant c) (hd : OnGrid mant d)
    (hne : filterSign (orientFilter a b c d) ≠ 0) :
    filterSign (orientFilter a b c d) =
      sgn (orientExactVal (a.map mant) (b.map mant) (c.map mant) (d.map mant)) := by
  have hr := orient_filter_real (fl := fl) hfl a b c d
  have hg : orientDet a b c d = _ := det3_grid ha.1 hb.1 hc.1 hd.1
  rw [hg] at hr
  rcases filterSign_cases (orientFilter a b c d) with ⟨e, -⟩ | ⟨e, -⟩ | e
  · rw [e, sgn_neg (neg_of_div_neg (hr.2 e))]
  · rw [e, sgn_pos (pos_of_div_pos (hr.1 e))]
  · exact absurd e hne

/-- **filter_sound (in-sphere)** -/
theorem insphere_filter_sound (fl : ℝ → ℝ) (hfl : ∀ x, |fl x - x| ≤ 1 / 2 ^ 53 * |x|)
    (mant : Rnd fl → ℤ) (a b c d e : V3 (Rnd fl))
    (ha : OnGrid mant a) (hb : OnGrid mant b) (hc : OnGrid mant c) (hd : OnGrid mant d)
    (he : OnGrid mant e) (hne : filterSign (insphereFilter a b c d e) ≠ 0) :
    filterSign (insphereFilter a b c d e) =
      sgn (insphereExactVal (a.map mant) (b.map mant) (c.map mant) (d.map mant) (e.map mant)) := by
  have hr := insphere_filter_real (fl := fl) hfl a b c d e
  have hg : insphereDet a b c d e = _ := det4_grid ha.1 hb.1 hc.1 hd.1 he.1
  rw [hg] at hr
  rcases filterSign_cases (insphereFilter a b c d e) with ⟨e', -⟩ | ⟨e', -⟩ | e'
  · rw [e', sgn_neg (neg_of_div_neg (hr.2 e'))]
  · rw [e', sgn_pos (pos_of_div_pos (hr.1 e'))]
  · exact absurd e' hne

/-- **filter_sound**: both filters, one statement -/
theorem filter_sound (fl : ℝ → ℝ) (hfl : ∀ x, |fl x - x| ≤ 1 / 2 ^ 53 * |x|) (mant : Rnd fl → ℤ)
    (a b c d e : V3 (Rnd fl)) (ha : OnGrid mant a) (hb : OnGrid mant b) (hc : OnGrid mant c)
    (hd : OnGrid mant d) (he : OnGrid mant e) :
    (filterSign (orientFilter a b c d) ≠ 0 → filterSign (orientFilter a b c d) =
      sgn (orientExactVal (a.map mant) (b.map mant) (c.map mant) (d.map mant))) ∧
    (filterSign (insphereFilter a b c d e) ≠ 0 → filterSign (insphereFilter a b c d e) =
      sgn (insphereExactVal (a.map mant) (b.map mant) (c.map mant) (d.map mant) (e.map mant))) :=
  ⟨orient_filter_sound fl hfl mant a b c d ha hb hc hd,
   insphere_filter_sound fl hfl mant a b c d e ha hb hc hd he⟩

/-- **`orient3d_adaptive` returns the exact sign for all inputs in [1,2)** (filter decided or
fallback to the 256-bit routine) -/
theorem orient_adaptive_exact (fl : ℝ → ℝ) (hfl : ∀ x, |fl x - x| ≤ 1 / 2 ^ 53 * |x|)
    (mant : Rnd fl → ℤ) (a b c d : V3 (Rnd fl))
    (ha : OnGrid mant a) (hb : OnGrid mant b) (hc : OnGrid mant c) (hd : OnGrid mant d) :
    orient3dAdaptive mant a b c d =
      sgn (orientExactVal (a.map mant) (b.map mant) (c.map mant) (d.map mant)) := by
  unfold orient3dAdaptive
  simp only
  split_ifs with h0
  · exact orient_fits_256 _ _ _ _ ha.2 hb.2 hc.2 hd.2
  · exact orient_filter_sound fl hfl mant a b c d ha hb hc hd h0

/-- **`insphere_adaptive` returns the exact sign for all inputs in [1,2)** -/
theorem insphere_adaptive_exact (fl : ℝ → ℝ) (hfl : ∀ x, |fl x - x| ≤ 1 / 2 ^ 53 * |x|)
    (mant : Rnd fl → ℤ) (a b c d e : V3 (Rnd fl))
    (ha : OnGrid mant a) (hb : OnGrid mant b) (hc : OnGrid mant c) (hd : OnGrid mant d)
    (he : OnGrid mant e) :
    insphereAdaptive mant a b c d e =
      sgn (insphereExactVal (a.map mant) (b.map mant) (c.map mant) (d.map mant) (e.map mant)) := by
  unfold insphereAdaptive
  simp only
  split_ifs with h0
  · exact insphere_fits_278 _ _ _ _ _ ha.2 hb.2 hc.2 hd.2 he.2
  · exact insphere_filter_sound fl hfl mant a b c d e ha hb hc hd he h0

/-- consequence: the adaptive orientation test is negated by exchanging two points -/
theorem orient_adaptive_swap_ab (fl : ℝ → ℝ) (hfl : ∀ x, |fl x - x| ≤ 1 / 2 ^ 53 * |x|)
    (mant : Rnd fl → ℤ) (a b c d : V3 (Rnd fl))
    (ha : OnGrid mant a) (hb : OnGrid mant b) (hc : OnGrid mant c) (hd : OnGrid mant d) :
    orient3dAdaptive mant b a c d = - orient3dAdaptive mant a b c d := by
  rw [orient_adaptive_exact fl hfl mant b a c d hb ha hc hd,
    orient_adaptive_exact fl hfl mant a b c d ha hb hc hd, orient_swap_ab, sgn_neg_eq]

theorem insphere_adaptive_swap_de (fl : ℝ → ℝ) (hfl : ∀ x, |fl x - x| ≤ 1 / 2 ^ 53 * |x|)
    (mant : Rnd fl → ℤ) (a b c d e : V3 (Rnd fl))
    (ha : OnGrid mant a) (hb : OnGrid mant b) (hc : OnGrid mant c) (hd : OnGrid mant d)
    (he : OnGrid mant e) :
    insphereAdaptive mant a b c e d = - insphereAdaptive mant a b c d e := by
  rw [insphere_adaptive_exact fl hfl mant a b c e d ha hb hc he hd,
    insphere_adaptive_exact fl hfl mant a b c d e ha hb hc hd he, insphere_swap_de, sgn_neg_eq]

/-- every permutation of the points multiplies the adaptive answer by its signature -/
theorem orient_adaptive_perm (fl : ℝ → ℝ) (hfl : ∀ x, |fl x - x| ≤ 1 / 2 ^ 53 * |x|)
    (mant : Rnd fl → ℤ) (σ : Equiv.Perm (Fin 4)) (p : Fin 4 → V3 (Rnd fl))
    (hp : ∀ i, OnGrid mant (p i)) :
    orient3dAdaptive mant (p (σ 0)) (p (σ 1)) (p (σ 2)) (p (σ 3)) =
      (Equiv.Perm.sign σ : ℤ) * orient3dAdaptive mant (p 0) (p 1) (p 2) (p 3) := by
  rw [orient_adaptive_exact fl hfl mant _ _ _ _ (hp _) (hp _) (hp _) (hp _),
    orient_adaptive_exact fl hfl mant _ _ _ _ (hp _) (hp _) (hp _) (hp _)]
  exact orient_sign_perm σ (fun i => (p i).map mant)

theorem insphere_adaptive_perm (fl : ℝ → ℝ) (hfl : ∀ x, |fl x - x| ≤ 1 / 2 ^ 53 * |x|)
    (mant : Rnd fl → ℤ) (σ : Equiv.Perm (Fin 5)) (p : Fin 5 → V3 (Rnd fl))
    (hp : ∀ i, OnGrid mant (p i)) :
    insphereAdaptive mant (p (σ 0)) (p (σ 1)) (p (σ 2)) (p (σ 3)) (p (σ 4)) =
      (Equiv.Perm.sign σ : ℤ) * insphereAdaptive mant (p 0) (p 1) (p 2) (p 3) (p 4) := by
  rw [insphere_adaptive_exact fl hfl mant _ _ _ _ _ (hp _) (hp _) (hp _) (hp _) (hp _),
    insphere_adaptive_exact fl hfl mant _ _ _ _ _ (hp _) (hp _) (hp _) (hp _) (hp _)]
  exact insphere_sign_perm σ (fun i => (p i).map mant)

/-! ### non-vacuity -/

/-- the hypotheses of `filter_sound` are satisfiable: exact arithmetic (`fl = id`) is a rounding
function, and the point (1, 1.5, 1.75) lies on the grid -/
example : ∃ (fl : ℝ → ℝ) (mant : Rnd fl → ℤ) (p : V3 (Rnd fl)),
    (∀ x, |fl x - x| ≤ 1 / 2 ^ 53 * |x|) ∧ OnGrid mant p := by
  refine ⟨id, fun x => ⌊(x.val - 1) * 2 ^ 52⌋, ⟨⟨1⟩, ⟨1.5⟩, ⟨1.75⟩⟩, ?_, ?_⟩
  · intro x; simp
  · have e1 : ⌊((1:ℝ) - 1) * 2 ^ 52⌋ = 0 := by norm_num
    have e2 : ⌊((1.5:ℝ) - 1) * 2 ^ 52⌋ = 2 ^ 51 := by
      rw [show ((1.5:ℝ) - 1) * 2 ^ 52 = ((2 ^ 51 : ℤ) : ℝ) by norm_num]; exact Int.floor_intCast _
    have e3 : ⌊((1.75:ℝ) - 1) * 2 ^ 52⌋ = 3 * 2 ^ 50 := by
      rw [show ((1.75:ℝ) - 1) * 2 ^ 52 = ((3 * 2 ^ 50 : ℤ) : ℝ) by norm_num]
      exact Int.floor_intCast _
    refine ⟨⟨?_, ?_, ?_⟩, ⟨⟨?_, ?_⟩, ⟨?_, ?_⟩, ⟨?_, ?_⟩⟩⟩ <;>
      simp only [vals, V3.map, e1, e2, e3] <;> norm_num

/-- the unit tetrahedron scaled into [1,2), evaluated in exact arithmetic (`fl = id`) -/
private noncomputable def tetF : FiltOut (Rnd id) :=
  orientFilter ⟨⟨1⟩, ⟨1⟩, ⟨1⟩⟩ ⟨⟨1⟩, ⟨1⟩, ⟨1.5⟩⟩ ⟨⟨1⟩, ⟨1.5⟩, ⟨1⟩⟩ ⟨⟨1.5⟩, ⟨1⟩, ⟨1⟩⟩

/-- the filter does decide (its answer is not always 0) -/
example : filterSign tetF = 1 := by
  have h1 : ¬ (tetF.result < -tetF.errbound) := by
    show ¬ (tetF.result.val < -tetF.errbound.val)
    simp only [tetF, orientFilter, orientCore, vsub, Rnd.add_val, Rnd.sub_val, Rnd.mul_val,
      Rnd.abs_val, Rnd.sci_val, id]
    norm_num
  have h2 : tetF.errbound < tetF.result := by
    show tetF.errbound.val < tetF.result.val
    simp only [tetF, orientFilter, orientCore, vsub, Rnd.add_val, Rnd.sub_val, Rnd.mul_val,
      Rnd.abs_val, Rnd.sci_val, id]
    norm_num
  unfold filterSign
  rw [if_neg h1, if_pos h2]

/-! ## 5. the rescaling of the simulation box maps into [1,2) (real arithmetic) -/

/-- **rescale_in_range**: `x ↦ 1 + (x - min) / (ext (1 + 4ε))` maps `[min, min + ext]` into `[1, 2)`
(per axis, with that axis' own extent) -/
theorem rescale_in_range (mn ext ε x : ℝ) (hext : 0 < ext) (hε : 0 < ε) (h1 : mn ≤ x)
    (h2 : x ≤ mn + ext) :
    1 ≤ rescale1 x mn (ext * (1 + 4 * ε)) ∧ rescale1 x mn (ext * (1 + 4 * ε)) < 2 := by
  have hd : 0 < ext * (1 + 4 * ε) := by positivity
  have e1 : (1.0 : ℝ) = 1 := by norm_num
  unfold rescale1
  rw [e1]
  constructor
  · have : 0 ≤ (x - mn) / (ext * (1 + 4 * ε)) := div_nonneg (by linarith) hd.le
    linarith
  · have : (x - mn) / (ext * (1 + 4 * ε)) < 1 := by
      rw [div_lt_one hd]; nlinarith
    linarith

/-- the rescaling is monotone -/
theorem rescale_mono (mn ext x y : ℝ) (hext : 0 < ext) (h : x ≤ y) :
    rescale1 x mn ext ≤ rescale1 y mn ext := by
  unfold rescale1
  have : (x - mn) / ext ≤ (y - mn) / ext := div_le_div_of_nonneg_right (by linarith) hext.le
  linarith

/-- with an extent that is too small by any factor the upper end leaves `[1,2)`: the extent of each
axis has to be (at least) the one of that axis -/
theorem rescale_needs_own_extent (mn ext ext' : ℝ) (hext' : 0 < ext') (h : ext' ≤ ext) :
    2 ≤ rescale1 (mn + ext) mn ext' := by
  unfold rescale1
  have e1 : (1.0 : ℝ) = 1 := by norm_num
  have : 1 ≤ (mn + ext - mn) / ext' := by rw [le_div_iff₀ hext']; linarith
  rw [e1]; linarith

/-- everything the Voronoi construction rescales (box, generators inside it, the vertices of the
all-encompassing tetrahedron) lies, per axis, between the tetrahedron's minimum `anchor - side`
and that minimum plus the axis' extent `9 max_side`; so with the padded extent of
`paddedExtent` it is mapped into `[1,2)`.  Stated for the x axis of `boxTetra` / `paddedExtent`
(y and z are the same statement with the components renamed). -/
theorem rescale_box_in_range (anchor sides : V3 ℝ) (ε x : ℝ) (hε : 0 < ε)
    (hx : 0 < sides.x) (h1 : anchor.x - sides.x ≤ x)
    (h2 : x ≤ anchor.x - sides.x + 9.0 * amax (amax sides.x sides.y) sides.z) :
    let t := boxTetra anchor sides
    1 ≤ rescale1 x t.v0.x (paddedExtent (1 + 4 * ε) t).x ∧
      rescale1 x t.v0.x (paddedExtent (1 + 4 * ε) t).x < 2 := by
  intro t
  have hm : sides.x ≤ amax (amax sides.x sides.y) sides.z := by
    rw [amax_real, amax_real]; exact le_trans (le_max_left _ _) (le_max_left _ _)
  have e9 : (9.0 : ℝ) = 9 := by norm_num
  have hext : 0 < 9.0 * amax (amax sides.x sides.y) sides.z := by rw [e9]; linarith
  have key := rescale_in_range (anchor.x - sides.x) (9.0 * amax (amax sides.x sides.y) sides.z) ε x
    hext hε h1 h2
  have e : (paddedExtent (1 + 4 * ε) t).x = 9.0 * amax (amax sides.x sides.y) sides.z * (1 + 4 * ε) := by
    simp only [paddedExtent, t, boxTetra, e9]; ring
  have e0 : t.v0.x = anchor.x - sides.x := rfl
  rw [e, e0]; exact key

/-- in particular the generators: every `x` inside the box -/
example (anchor sides : V3 ℝ) (hx : 0 < sides.x) (x : ℝ)
    (h1 : anchor.x ≤ x) (h2 : x ≤ anchor.x + sides.x) :
    anchor.x - sides.x ≤ x ∧ x ≤ anchor.x - sides.x + 9.0 * amax (amax sides.x sides.y) sides.z := by
  have hm : sides.x ≤ amax (amax sides.x sides.y) sides.z := by
    rw [amax_real, amax_real]; exact le_trans (le_max_left _ _) (le_max_left _ _)
  have e9 : (9.0 : ℝ) = 9 := by norm_num
  rw [e9]; constructor <;> linarith

/-! ## 6. the ROUNDED rescaling stays inside [1,2) -/

/-- all three coordinates in [1,2) -/
def In12 {fl : ℝ → ℝ} (p : V3 (Rnd fl)) : Prop :=
  (1 ≤ p.x.val ∧ p.x.val < 2) ∧ (1 ≤ p.y.val ∧ p.y.val < 2) ∧ (1 ≤ p.z.val ∧ p.z.val < 2)

/-- the tetrahedron spans a non-empty interval on every axis (as computed) -/
def TetraPos {fl : ℝ → ℝ} (t : Tetra (Rnd fl)) : Prop :=
  t.v0.x.val < t.v1.x.val ∧ t.v0.y.val < t.v2.y.val ∧ t.v0.z.val < t.v3.z.val

/-- `p` lies, axis by axis, between the minimum and the maximum the extents are taken from -/
def Within {fl : ℝ → ℝ} (t : Tetra (Rnd fl)) (p : V3 (Rnd fl)) : Prop :=
  (t.v0.x.val ≤ p.x.val ∧ p.x.val ≤ t.v1.x.val) ∧ (t.v0.y.val ≤ p.y.val ∧ p.y.val ≤ t.v2.y.val) ∧
    (t.v0.z.val ≤ p.z.val ∧ p.z.val ≤ t.v3.z.val)

/-- **rescale_rounded_in_range**: for EVERY rounding function `fl` with relative error ≤ 2⁻⁵³ that
is monotone and leaves 1 unchanged, applied after every operation of
`1. + (x - min_anchor) / max_anchor` and of `max_anchor = (max - min) * (1 + 4 DBL_EPSILON)`:
every point between the axis minima and maxima is mapped into [1,2)^3.  (With the former constant
`1 + DBL_EPSILON` the statement is false: box (0,0,0)+(0.3,0.3,0.3), finding of round 1.) -/
theorem rescale_rounded_in_range (fl : ℝ → ℝ) (hfl : ∀ x, |fl x - x| ≤ 1 / 2 ^ 53 * |x|)
    (hmono : Monotone fl) (h1 : fl 1 = 1) (k : Rnd fl) (hk : k.val = 1 + 4 * (1 / 2 ^ 52))
    (t : Tetra (Rnd fl)) (ht : TetraPos t) (p : V3 (Rnd fl)) (hp : Within t p) :
    In12 (rescaleP p t.v0 (paddedExtent k t)) := by
  have hk' : k.val = 1 + 8 * u := by rw [hk]; unfold u; ring
  have hfl' : RndOK fl := hfl
  exact ⟨rescale1_rounded hfl' hmono h1 p.x t.v0.x t.v1.x k hk' hp.1.1 hp.1.2 ht.1,
    rescale1_rounded hfl' hmono h1 p.y t.v0.y t.v2.y k hk' hp.2.1.1 hp.2.1.2 ht.2.1,
    rescale1_rounded hfl' hmono h1 p.z t.v0.z t.v3.z k hk' hp.2.2.1 hp.2.2.2 ht.2.2⟩

/-- the four vertices of the all-encompassing tetrahedron of ANY box are rescaled into [1,2)^3
(only premise: the tetrahedron is not degenerate as computed; no premise on the vertices: the
coordinates of `boxTetra` that should be equal are the same expression) -/
theorem rescaled_tetra_in_range (fl : ℝ → ℝ) (hfl : ∀ x, |fl x - x| ≤ 1 / 2 ^ 53 * |x|)
    (hmono : Monotone fl) (h1 : fl 1 = 1) (k : Rnd fl) (hk : k.val = 1 + 4 * (1 / 2 ^ 52))
    (anchor sides : V3 (Rnd fl)) (ht : TetraPos (boxTetra anchor sides)) :
    In12 (rescaleBox k anchor sides).tet.v0 ∧ In12 (rescaleBox k anchor sides).tet.v1 ∧
    In12 (rescaleBox k anchor sides).tet.v2 ∧ In12 (rescaleBox k anchor sides).tet.v3 := by
  have key := rescale_rounded_in_range fl hfl hmono h1 k hk (boxTetra anchor sides) ht
  obtain ⟨hx, hy, hz⟩ := ht
  refine ⟨key _ ?_, key _ ?_, key _ ?_, key _ ?_⟩
  · exact ⟨⟨le_refl _, hx.le⟩, ⟨le_refl _, hy.le⟩, ⟨le_refl _, hz.le⟩⟩
  · exact ⟨⟨hx.le, le_refl _⟩, ⟨le_refl _, hy.le⟩, ⟨le_refl _, hz.le⟩⟩
  · exact ⟨⟨le_refl _, hx.le⟩, ⟨hy.le, le_refl _⟩, ⟨le_refl _, hz.le⟩⟩
  · exact ⟨⟨le_refl _, hx.le⟩, ⟨le_refl _, hy.le⟩, ⟨hz.le, le_refl _⟩⟩

/-- box corners and generators: in range as soon as they lie between the tetrahedron's minima and
maxima (premise evaluated on the real code for every generated box: oracle
`rescale-premise-violated`) -/
theorem rescaled_box_in_range (fl : ℝ → ℝ) (hfl : ∀ x, |fl x - x| ≤ 1 / 2 ^ 53 * |x|)
    (hmono : Monotone fl) (h1 : fl 1 = 1) (k : Rnd fl) (hk : k.val = 1 + 4 * (1 / 2 ^ 52))
    (anchor sides : V3 (Rnd fl)) (ht : TetraPos (boxTetra anchor sides))
    (ha : Within (boxTetra anchor sides) anchor)
    (hs : Within (boxTetra anchor sides)
      ⟨anchor.x + sides.x, anchor.y + sides.y, anchor.z + sides.z⟩) :
    In12 (rescaleBox k anchor sides).bottom ∧ In12 (rescaleBox k anchor sides).top :=
  ⟨rescale_rounded_in_range fl hfl hmono h1 k hk _ ht _ ha,
   rescale_rounded_in_range fl hfl hmono h1 k hk _ ht _ hs⟩

/-- non-vacuity: exact arithmetic is such a rounding function, the unit box satisfies the premises -/
example : ∃ (fl : ℝ → ℝ) (anchor sides : V3 (Rnd fl)), (∀ x, |fl x - x| ≤ 1 / 2 ^ 53 * |x|) ∧
    Monotone fl ∧ fl 1 = 1 ∧ TetraPos (boxTetra anchor sides) ∧
    Within (boxTetra anchor sides) anchor := by
  refine ⟨id, ⟨⟨0⟩, ⟨0⟩, ⟨0⟩⟩, ⟨⟨1⟩, ⟨1⟩, ⟨1⟩⟩, fun x => by simp, monotone_id, rfl, ?_, ?_⟩
  · simp only [TetraPos, boxTetra, amax, Rnd.add_val, Rnd.sub_val, Rnd.mul_val, Rnd.sci_val, id,
      Rnd.lt_iff]
    norm_num
  · simp only [Within, boxTetra, amax, Rnd.add_val, Rnd.sub_val, Rnd.mul_val, Rnd.sci_val, id,
      Rnd.lt_iff]
    norm_num

/-! ## 7. wall copies (real arithmetic) -/

/-- mirroring commutes with the (affine) rescaling: the wall copy computed from the rescaled box
and the rescaled generator is the rescaled wall copy -/
theorem wall_copy_commutes (mn ext a x : ℝ) (hext : ext ≠ 0) :
    2.0 * rescale1 a mn ext - rescale1 x mn ext = rescale1 (2.0 * a - x) mn ext := by
  unfold rescale1
  have e1 : (1.0 : ℝ) = 1 := by norm_num
  have e2 : (2.0 : ℝ) = 2 := by norm_num
  rw [e1, e2]; field_simp; ring

/-- the wall copies of a generator inside the box lie between the tetrahedron's minimum and
maximum of that axis (`side ≤ max_side`), so they are rescaled into [1,2) as well
(x axis, LEFT and RIGHT wall; the other axes are the same statement) -/
theorem wall_copy_in_range (anchor sides p : V3 ℝ) (ε : ℝ) (hε : 0 < ε) (hx : 0 < sides.x)
    (h1 : anchor.x ≤ p.x) (h2 : p.x ≤ anchor.x + sides.x) (w : ℕ) (hw : w = 0 ∨ w = 1) :
    let t := boxTetra anchor sides
    1 ≤ rescale1 (wallCopy w anchor sides p).x t.v0.x (paddedExtent (1 + 4 * ε) t).x ∧
      rescale1 (wallCopy w anchor sides p).x t.v0.x (paddedExtent (1 + 4 * ε) t).x < 2 := by
  have hm : sides.x ≤ amax (amax sides.x sides.y) sides.z := by
    rw [amax_real, amax_real]; exact le_trans (le_max_left _ _) (le_max_left _ _)
  have e9 : (9.0 : ℝ) = 9 := by norm_num
  have e2 : (2.0 : ℝ) = 2 := by norm_num
  rcases hw with rfl | rfl
  · apply rescale_box_in_range anchor sides ε _ hε hx
    · simp only [wallCopy, e2]; linarith
    · simp only [wallCopy, e2, e9]; linarith
  · apply rescale_box_in_range anchor sides ε _ hε hx
    · simp only [wallCopy, e2]; linarith
    · simp only [wallCopy, e2, e9]; linarith

/-! ## 8. `get_mantissa` and the value of the double

`Util.ratOfBits` is the exact rational value of an IEEE-754 binary64 bit pattern (shared decoder of
the drivers).  The doubles in [1,2) are exactly the patterns `pat12 m`, `m < 2^52`, and their value is
`1 + mantissa / 2^52`: this is the hypothesis `Grid` / `OnGrid` of the filter theorems, discharged
for every double. -/
section Mantissa
open CMacVerif.Util
/-- bit pattern of the double with sign 0, biased exponent 1023 and mantissa field `m` -/
def pat12 (m : ℕ) : ℕ := 1023 * 2 ^ 52 + m

theorem mantissa_pat12 (m : ℕ) (hm : m < 2 ^ 52) : mantissa (pat12 m) = m := by
  unfold mantissa pat12
  have : (1023 * 2 ^ 52 + m) % 2 ^ 52 = m := by omega
  rw [this]; rfl

theorem value_pat12 (m : ℕ) (hm : m < 2 ^ 52) :
    ratOfBits (pat12 m) = some (1 + (m : ℚ) / 2 ^ 52) := by
  have h1 : pat12 m / 2 ^ 63 = 0 := by unfold pat12; omega
  have h2 : pat12 m / 2 ^ 52 % 2048 = 1023 := by unfold pat12; omega
  have h3 : pat12 m % 2 ^ 52 = m := by unfold pat12; omega
  unfold ratOfBits
  simp only [h1, h2, h3]
  have c1 : ¬ ((1023 : ℕ) = 2047) := by decide
  have c2 : ¬ ((0 : ℕ) = 1) := by decide
  have c3 : ¬ ((1023 : ℕ) = 0) := by decide
  rw [if_neg c1, if_neg c2]
  simp only [if_neg c3]
  have c4 : ¬ (((1023 : ℕ) : ℤ) - 1075 ≥ 0) := by norm_num
  rw [if_neg c4]
  have e5 : (-(((1023 : ℕ) : ℤ) - 1075)).toNat = 52 := by norm_num; rfl
  rw [e5]
  congr 1
  rw [Rat.mkRat_eq_div]
  push_cast
  norm_num
  ring

/-- sign handling of `ratOfBits`: the value is `± mag` -/
private theorem sign_cases {sg : ℕ} (hs : sg = 0 ∨ sg = 1) {mag q : ℚ}
    (h : some (if sg = 1 then -mag else mag) = some q) (hmag : 0 ≤ mag) (h1 : 1 ≤ q) :
    sg = 0 ∧ q = mag := by
  rcases hs with hs | hs
  · subst hs; simp at h; exact ⟨rfl, h.symm⟩
  · subst hs; simp at h; exfalso; linarith

/-- conversely: a finite double whose value lies in [1,2) has sign 0 and biased exponent 1023 -/
theorem pattern_of_value (n : ℕ) (q : ℚ) (h : ratOfBits n = some q)
    (h1 : 1 ≤ q) (h2 : q < 2) (hn : n < 2 ^ 64) : ∃ m, m < 2 ^ 52 ∧ n = pat12 m := by
  have hm : n % 2 ^ 52 < 2 ^ 52 := Nat.mod_lt _ (by norm_num)
  have he : n / 2 ^ 52 % 2048 < 2048 := Nat.mod_lt _ (by norm_num)
  have hs : n / 2 ^ 63 = 0 ∨ n / 2 ^ 63 = 1 := by omega
  refine ⟨n % 2 ^ 52, hm, ?_⟩
  suffices hh : n / 2 ^ 63 = 0 ∧ n / 2 ^ 52 % 2048 = 1023 by
    unfold pat12; omega
  unfold ratOfBits at h
  simp only at h
  generalize n / 2 ^ 63 = sg at h hs ⊢
  generalize n / 2 ^ 52 % 2048 = e at h he ⊢
  generalize n % 2 ^ 52 = m at h hm ⊢
  have hmq : ((m : ℕ) : ℚ) < 2 ^ 52 := by exact_mod_cast hm
  have hm0 : (0 : ℚ) ≤ (m : ℚ) := Nat.cast_nonneg m
  have two1 : (1 : ℚ) ≤ 2 := by norm_num
  by_cases he2047 : e = 2047
  · simp [he2047] at h
  rw [if_neg he2047] at h
  by_cases he0 : e = 0
  · -- subnormal: value below 1
    exfalso
    subst he0
    simp only [if_true] at h
    have c : ¬ ((-1074 : ℤ) ≥ 0) := by norm_num
    rw [if_neg c] at h
    have e5 : (-(-1074 : ℤ)).toNat = 1074 := by norm_num; rfl
    rw [e5, Rat.mkRat_eq_div] at h
    have hmag0 : (0 : ℚ) ≤ ((m : ℤ) : ℚ) / ((2 ^ 1074 : ℕ) : ℚ) := by
      apply div_nonneg <;> positivity
    obtain ⟨-, hq⟩ := sign_cases hs h hmag0 h1
    have : ((m : ℤ) : ℚ) / ((2 ^ 1074 : ℕ) : ℚ) < 1 := by
      rw [div_lt_one (by positivity)]
      push_cast
      calc (m : ℚ) < 2 ^ 52 := hmq
        _ ≤ 2 ^ 1074 := pow_le_pow_right₀ two1 (by norm_num)
    linarith
  · simp only [if_neg he0] at h
    by_cases hbig : 1075 ≤ e
    · -- huge exponent: value at least 2^52
      exfalso
      have c : ((e : ℤ) - 1075 ≥ 0) := by omega
      rw [if_pos c] at h
      have hmag : (2 : ℚ) ≤ (((m + 2 ^ 52) * 2 ^ ((e : ℤ) - 1075).toNat : ℕ) : ℚ) := by
        push_cast
        have : (1 : ℚ) ≤ 2 ^ ((e : ℤ) - 1075).toNat := one_le_pow₀ two1
        have : (2 : ℚ) ^ 52 ≤ ((m : ℚ) + 2 ^ 52) * 2 ^ ((e : ℤ) - 1075).toNat := by nlinarith
        have : (2 : ℚ) ≤ 2 ^ 52 := by norm_num
        linarith
      obtain ⟨-, hq⟩ := sign_cases hs h (by linarith) h1
      linarith
    · have c : ¬ ((e : ℤ) - 1075 ≥ 0) := by omega
      rw [if_neg c] at h
      obtain ⟨d, hd⟩ : ∃ d : ℕ, (-((e : ℤ) - 1075)).toNat = d ∧ d + e = 1075 :=
        ⟨(-((e : ℤ) - 1075)).toNat, rfl, by omega⟩
      rw [hd.1, Rat.mkRat_eq_div] at h
      have hnum : (((m + 2 ^ 52 : ℕ) : ℤ) : ℚ) = (m : ℚ) + 2 ^ 52 := by push_cast; ring
      have hden : ((2 ^ d : ℕ) : ℚ) = 2 ^ d := by push_cast; ring
      rw [hnum, hden] at h
      have hdpos : (0 : ℚ) < 2 ^ d := by positivity
      have hmag0 : (0 : ℚ) ≤ ((m : ℚ) + 2 ^ 52) / 2 ^ d := by positivity
      obtain ⟨hsg, hq⟩ := sign_cases hs h hmag0 h1
      refine ⟨hsg, ?_⟩
      by_contra hne
      rcases Nat.lt_or_gt_of_ne hne with hlt | hgt
      · -- e ≤ 1022: d ≥ 53, value below 1
        have hd53 : 53 ≤ d := by omega
        have : ((m : ℚ) + 2 ^ 52) / 2 ^ d < 1 := by
          rw [div_lt_one hdpos]
          calc (m : ℚ) + 2 ^ 52 < 2 ^ 52 + 2 ^ 52 := by linarith
            _ = 2 ^ 53 := by norm_num
            _ ≤ 2 ^ d := pow_le_pow_right₀ two1 hd53
        linarith
      · -- e ≥ 1024: d ≤ 51, value at least 2
        have hd51 : d ≤ 51 := by omega
        have : (2 : ℚ) ≤ ((m : ℚ) + 2 ^ 52) / 2 ^ d := by
          rw [le_div_iff₀ hdpos]
          calc (2 : ℚ) * 2 ^ d ≤ 2 * 2 ^ 51 :=
                mul_le_mul_of_nonneg_left (pow_le_pow_right₀ two1 hd51) (by norm_num)
            _ = 2 ^ 52 := by norm_num
            _ ≤ (m : ℚ) + 2 ^ 52 := by linarith
        linarith

/-- **get_mantissa_value**: for EVERY finite double whose value `q` lies in [1,2), `get_mantissa`
returns the 52-bit integer `m` with `q = 1 + m / 2^52` -/
theorem get_mantissa_value (n : ℕ) (q : ℚ) (h : ratOfBits n = some q) (h1 : 1 ≤ q) (h2 : q < 2)
    (hn : n < 2 ^ 64) :
    q = 1 + (mantissa n : ℚ) / 2 ^ 52 ∧ 0 ≤ mantissa n ∧ mantissa n < 2 ^ 52 := by
  obtain ⟨m, hm, rfl⟩ := pattern_of_value n q h h1 h2 hn
  have hv := value_pat12 m hm
  rw [hv] at h
  have hq : q = 1 + (m : ℚ) / 2 ^ 52 := (Option.some.inj h).symm
  rw [mantissa_pat12 m hm]
  refine ⟨by rw [hq]; push_cast; ring, Int.natCast_nonneg _, by exact_mod_cast hm⟩

/-- non-vacuity: 1.5 = pattern 0x3FF8000000000000 -/
example : ratOfBits 0x3FF8000000000000 = some (3 / 2) ∧ mantissa 0x3FF8000000000000 = 2 ^ 51 := by
  constructor
  · have := value_pat12 (2 ^ 51) (by norm_num)
    have e : pat12 (2 ^ 51) = 0x3FF8000000000000 := by norm_num [pat12]
    rw [e] at this; rw [this]; norm_num
  · have := mantissa_pat12 (2 ^ 51) (by norm_num)
    have e : pat12 (2 ^ 51) = 0x3FF8000000000000 := by norm_num [pat12]
    rw [e] at this; rw [this]; norm_num
end Mantissa

end CMacVerif.Predicates
