import CMacVerif.Lemmas.Predicates
import CMacVerif.Lemmas.PredicatesFilter
import Mathlib.LinearAlgebra.Matrix.Determinant.Basic
import Mathlib.Tactic.FinCases
/-!
# C17 — orientation and in-sphere tests return the exact sign

Property theorems only.  Model: `CMacVerif/Model/Predicates.lean` (mirrors
`src/ExactGeometricTests.hpp`).  Notation: `orientExactVal` / `insphereExactVal` at `ι := ℤ` are
the integers the exact routines compute from the mantissas; `orient3dExact` / `insphereExact`
are the routines as coded (256- resp. 278-bit sign-magnitude integers, truncating);
`orientFilter` / `insphereFilter` are the floating-point parts of the adaptive routines,
`orient3dAdaptive` / `insphereAdaptive` the adaptive routines.

1. exact value = determinant (explicit, and Mathlib's `Matrix.det`);
2. sign under permutations of the points (generating transpositions, every permutation);
3. no intermediate of the exact routines overflows the fixed-width integers;
4. `filter_sound`: for EVERY rounding function with relative error ≤ 2⁻⁵³ applied after every
   operation, a decided filter returns the exact sign; hence adaptive = exact for all inputs.
-/
set_option exponentiation.threshold 1200
namespace CMacVerif.Predicates

/-! ## 1. the exact routines compute the determinant -/

/-- `orient3d_exact` computes the 3x3 determinant of the coordinate differences
(Leibniz formula written out) -/
theorem orient_exact_is_det (a b c d : V3 ℤ) :
    orientExactVal a b c d =
      (a.x - d.x) * (b.y - d.y) * (c.z - d.z) + (a.y - d.y) * (b.z - d.z) * (c.x - d.x)
      + (a.z - d.z) * (b.x - d.x) * (c.y - d.y) - (a.z - d.z) * (b.y - d.y) * (c.x - d.x)
      - (a.y - d.y) * (b.x - d.x) * (c.z - d.z) - (a.x - d.x) * (b.z - d.z) * (c.y - d.y) := by
  simp only [orientExactVal]; ring

/-- the same with Mathlib's determinant -/
theorem orient_exact_is_matrix_det (a b c d : V3 ℤ) :
    orientExactVal a b c d =
      Matrix.det !![a.x - d.x, a.y - d.y, a.z - d.z;
                    b.x - d.x, b.y - d.y, b.z - d.z;
                    c.x - d.x, c.y - d.y, c.z - d.z] := by
  rw [Matrix.det_fin_three]
  simp [orientExactVal]
  ring

/-- 3x3 determinant, Leibniz formula -/
def idet3 (a1 a2 a3 b1 b2 b3 c1 c2 c3 : ℤ) : ℤ :=
  a1 * b2 * c3 + a2 * b3 * c1 + a3 * b1 * c2 - a3 * b2 * c1 - a2 * b1 * c3 - a1 * b3 * c2

/-- `insphere_exact` computes the lifted 4x4 determinant with rows
`(px - ex, py - ey, pz - ez, |p - e|²)`, `p = a, b, c, d` (Laplace expansion along the last
column written out) -/
theorem insphere_exact_is_det (a b c d e : V3 ℤ) :
    insphereExactVal a b c d e =
      - (nrm2 (vsub a e)) * idet3 (b.x - e.x) (b.y - e.y) (b.z - e.z) (c.x - e.x) (c.y - e.y)
            (c.z - e.z) (d.x - e.x) (d.y - e.y) (d.z - e.z)
      + (nrm2 (vsub b e)) * idet3 (a.x - e.x) (a.y - e.y) (a.z - e.z) (c.x - e.x) (c.y - e.y)
            (c.z - e.z) (d.x - e.x) (d.y - e.y) (d.z - e.z)
      - (nrm2 (vsub c e)) * idet3 (a.x - e.x) (a.y - e.y) (a.z - e.z) (b.x - e.x) (b.y - e.y)
            (b.z - e.z) (d.x - e.x) (d.y - e.y) (d.z - e.z)
      + (nrm2 (vsub d e)) * idet3 (a.x - e.x) (a.y - e.y) (a.z - e.z) (b.x - e.x) (b.y - e.y)
            (b.z - e.z) (c.x - e.x) (c.y - e.y) (c.z - e.z) := by
  simp only [insphereExactVal, insphereCombine, insphereParts, minor2, nrm2, vsub, idet3]; ring

/-- the same with Mathlib's determinant -/
theorem insphere_exact_is_matrix_det (a b c d e : V3 ℤ) :
    insphereExactVal a b c d e =
      Matrix.det !![a.x - e.x, a.y - e.y, a.z - e.z, (a.x - e.x) ^ 2 + (a.y - e.y) ^ 2 + (a.z - e.z) ^ 2;
                    b.x - e.x, b.y - e.y, b.z - e.z, (b.x - e.x) ^ 2 + (b.y - e.y) ^ 2 + (b.z - e.z) ^ 2;
                    c.x - e.x, c.y - e.y, c.z - e.z, (c.x - e.x) ^ 2 + (c.y - e.y) ^ 2 + (c.z - e.z) ^ 2;
                    d.x - e.x, d.y - e.y, d.z - e.z, (d.x - e.x) ^ 2 + (d.y - e.y) ^ 2 + (d.z - e.z) ^ 2] := by
  simp [Matrix.det_succ_row_zero, Fin.sum_univ_succ, Matrix.submatrix, Fin.succAbove,
    insphereExactVal, insphereCombine, insphereParts, minor2, nrm2, vsub]
  ring

/-- homogeneous 4x4 matrix of four points: rows `(x, y, z, 1)` -/
def homM (p : Fin 4 → V3 ℤ) : Matrix (Fin 4) (Fin 4) ℤ :=
  Matrix.of fun i j => ![(p i).x, (p i).y, (p i).z, 1] j

/-- lifted homogeneous 5x5 matrix of five points: rows `(x, y, z, x²+y²+z², 1)` -/
def liftM (p : Fin 5 → V3 ℤ) : Matrix (Fin 5) (Fin 5) ℤ :=
  Matrix.of fun i j =>
    ![(p i).x, (p i).y, (p i).z, (p i).x ^ 2 + (p i).y ^ 2 + (p i).z ^ 2, 1] j

/-- orientation value = homogeneous 4x4 determinant of the points themselves -/
theorem orient_exact_is_hom_det (p : Fin 4 → V3 ℤ) :
    orientExactVal (p 0) (p 1) (p 2) (p 3) = (homM p).det := by
  simp [Matrix.det_succ_row_zero, Fin.sum_univ_succ, Matrix.submatrix, Fin.succAbove, homM,
    orientExactVal]
  ring

/-- in-sphere value = lifted homogeneous 5x5 determinant of the points themselves -/
theorem insphere_exact_is_lift_det (p : Fin 5 → V3 ℤ) :
    insphereExactVal (p 0) (p 1) (p 2) (p 3) (p 4) = (liftM p).det := by
  simp [Matrix.det_succ_row_zero, Fin.sum_univ_succ, Matrix.submatrix, Fin.succAbove, liftM,
    insphereExactVal, insphereCombine, insphereParts, minor2, nrm2, vsub]
  ring

/-- orientation convention of the source comment: (0,0,0), (0,0,1), (0,1,0), (1,0,0) gives +1 -/
example : sgn (orientExactVal (⟨0, 0, 0⟩ : V3 ℤ) ⟨0, 0, 1⟩ ⟨0, 1, 0⟩ ⟨1, 0, 0⟩) = 1 := by decide

/-! ## 2. behaviour under permutations of the points -/

theorem orient_swap_ab (a b c d : V3 ℤ) : orientExactVal b a c d = -orientExactVal a b c d := by
  simp only [orientExactVal]; ring
theorem orient_swap_bc (a b c d : V3 ℤ) : orientExactVal a c b d = -orientExactVal a b c d := by
  simp only [orientExactVal]; ring
theorem orient_swap_cd (a b c d : V3 ℤ) : orientExactVal a b d c = -orientExactVal a b c d := by
  simp only [orientExactVal]; ring
theorem orient_swap_ad (a b c d : V3 ℤ) : orientExactVal d b c a = -orientExactVal a b c d := by
  simp only [orientExactVal]; ring
/-- a cyclic (even) permutation of three points keeps the value -/
theorem orient_cycle_abc (a b c d : V3 ℤ) : orientExactVal b c a d = orientExactVal a b c d := by
  simp only [orientExactVal]; ring
theorem orient_cycle_bcd (a b c d : V3 ℤ) : orientExactVal a c d b = orientExactVal a b c d := by
  simp only [orientExactVal]; ring

/-- every permutation of the four points multiplies the value by its signature -/
theorem orient_perm (σ : Equiv.Perm (Fin 4)) (p : Fin 4 → V3 ℤ) :
    orientExactVal (p (σ 0)) (p (σ 1)) (p (σ 2)) (p (σ 3)) =
      (Equiv.Perm.sign σ : ℤ) * orientExactVal (p 0) (p 1) (p 2) (p 3) := by
  have h := orient_exact_is_hom_det (fun i => p (σ i))
  rw [h, orient_exact_is_hom_det p]
  have e : homM (fun i => p (σ i)) = (homM p).submatrix σ id := rfl
  rw [e, Matrix.det_permute, Int.cast_id]

theorem insphere_swap_ab (a b c d e : V3 ℤ) :
    insphereExactVal b a c d e = -insphereExactVal a b c d e := by
  simp only [insphereExactVal, insphereCombine, insphereParts, minor2, nrm2, vsub]; ring
theorem insphere_swap_bc (a b c d e : V3 ℤ) :
    insphereExactVal a c b d e = -insphereExactVal a b c d e := by
  simp only [insphereExactVal, insphereCombine, insphereParts, minor2, nrm2, vsub]; ring
theorem insphere_swap_cd (a b c d e : V3 ℤ) :
    insphereExactVal a b d c e = -insphereExactVal a b c d e := by
  simp only [insphereExactVal, insphereCombine, insphereParts, minor2, nrm2, vsub]; ring
/-- also the test point may be exchanged with a vertex -/
theorem insphere_swap_de (a b c d e : V3 ℤ) :
    insphereExactVal a b c e d = -insphereExactVal a b c d e := by
  simp only [insphereExactVal, insphereCombine, insphereParts, minor2, nrm2, vsub]; ring
theorem insphere_cycle_abc (a b c d e : V3 ℤ) :
    insphereExactVal b c a d e = insphereExactVal a b c d e := by
  simp only [insphereExactVal, insphereCombine, insphereParts, minor2, nrm2, vsub]; ring
theorem insphere_cycle_cde (a b c d e : V3 ℤ) :
    insphereExactVal a b d e c = insphereExactVal a b c d e := by
  simp only [insphereExactVal, insphereCombine, insphereParts, minor2, nrm2, vsub]; ring

/-- every permutation of the five points multiplies the value by its signature -/
theorem insphere_perm (σ : Equiv.Perm (Fin 5)) (p : Fin 5 → V3 ℤ) :
    insphereExactVal (p (σ 0)) (p (σ 1)) (p (σ 2)) (p (σ 3)) (p (σ 4)) =
      (Equiv.Perm.sign σ : ℤ) * insphereExactVal (p 0) (p 1) (p 2) (p 3) (p 4) := by
  have h := insphere_exact_is_lift_det (fun i => p (σ i))
  rw [h, insphere_exact_is_lift_det p]
  have e : liftM (fun i => p (σ i)) = (liftM p).submatrix σ id := rfl
  rw [e, Matrix.det_permute, Int.cast_id]

/-- the returned sign: multiplied by the signature (odd ⇒ negated, even ⇒ unchanged) -/
theorem sgn_unit_mul (ε : ℤˣ) (r : ℤ) : sgn ((ε : ℤ) * r) = (ε : ℤ) * sgn r := by
  rcases Int.units_eq_one_or ε with h | h <;> subst h
  · simp
  · simp [sgn_neg_eq]

theorem orient_sign_perm (σ : Equiv.Perm (Fin 4)) (p : Fin 4 → V3 ℤ) :
    sgn (orientExactVal (p (σ 0)) (p (σ 1)) (p (σ 2)) (p (σ 3))) =
      (Equiv.Perm.sign σ : ℤ) * sgn (orientExactVal (p 0) (p 1) (p 2) (p 3)) := by
  rw [orient_perm, sgn_unit_mul]

theorem insphere_sign_perm (σ : Equiv.Perm (Fin 5)) (p : Fin 5 → V3 ℤ) :
    sgn (insphereExactVal (p (σ 0)) (p (σ 1)) (p (σ 2)) (p (σ 3)) (p (σ 4))) =
      (Equiv.Perm.sign σ : ℤ) * sgn (insphereExactVal (p 0) (p 1) (p 2) (p 3) (p 4)) := by
  rw [insphere_perm, sgn_unit_mul]

/-! ## 3. the fixed-width integers never overflow -/

/-- every extracted mantissa has 52 bits -/
theorem mantissa_range (bits : ℕ) : 0 ≤ mantissa bits ∧ mantissa bits < 2 ^ 52 := by
  unfold mantissa
  have : bits % 2 ^ 52 < 2 ^ 52 := Nat.mod_lt _ (by norm_num)
  rw [Int.ofNat_eq_natCast]
  constructor
  · exact Int.natCast_nonneg _
  · exact_mod_cast this

theorem mant53_of_bits (p : V3 ℕ) : Mant53 (p.map mantissa) := by
  have h := fun b => mantissa_range b
  refine ⟨⟨(h _).1, ?_⟩, ⟨(h _).1, ?_⟩, ⟨(h _).1, ?_⟩⟩ <;>
    exact lt_trans (h _).2 (by norm_num)

/-- orientation: with at least 162 bits every intermediate of the fixed-width evaluation equals
the unbounded one (mantissas of up to 53 bits), and the value is below `2^162` -/
theorem orient_fits (w : ℕ) (hw : 162 ≤ w) (a b c d : V3 ℤ) (ha : Mant53 a) (hb : Mant53 b)
    (hc : Mant53 c) (hd : Mant53 d) :
    (orientExactVal (toFW w a) (toFW w b) (toFW w c) (toFW w d)).v = orientExactVal a b c d
    ∧ |orientExactVal a b c d| < 2 ^ 162 := by
  have h := orient_fits_aux hw ha hb hc hd
  exact ⟨h.eq, lt_of_le_of_lt h.le (by norm_num)⟩

/-- in-sphere: 272 bits suffice, the value is below `2^272` -/
theorem insphere_fits (w : ℕ) (hw : 272 ≤ w) (a b c d e : V3 ℤ) (ha : Mant53 a) (hb : Mant53 b)
    (hc : Mant53 c) (hd : Mant53 d) (he : Mant53 e) :
    (insphereExactVal (toFW w a) (toFW w b) (toFW w c) (toFW w d) (toFW w e)).v
      = insphereExactVal a b c d e
    ∧ |insphereExactVal a b c d e| < 2 ^ 272 := by
  have h := insphere_fits_aux hw ha hb hc hd he
  exact ⟨h.eq, lt_of_le_of_lt h.le (by norm_num)⟩

/-- the routine as coded (256-bit integers) returns the sign of the unbounded determinant -/
theorem orient_fits_256 (a b c d : V3 ℤ) (ha : Mant53 a) (hb : Mant53 b) (hc : Mant53 c)
    (hd : Mant53 d) : orient3dExact a b c d = sgn (orientExactVal a b c d) := by
  unfold orient3dExact
  rw [(orient_fits orientBits (by decide) a b c d ha hb hc hd).1]

/-- the routine as coded (278-bit integers) returns the sign of the unbounded determinant -/
theorem insphere_fits_278 (a b c d e : V3 ℤ) (ha : Mant53 a) (hb : Mant53 b) (hc : Mant53 c)
    (hd : Mant53 d) (he : Mant53 e) :
    insphereExact a b c d e = sgn (insphereExactVal a b c d e) := by
  unfold insphereExact
  rw [(insphere_fits insphereBits (by decide) a b c d e ha hb hc hd he).1]

/-- for the mantissas of ANY twelve doubles (no hypothesis left) -/
theorem orient_exact_sign (a b c d : V3 ℕ) :
    orient3dExact (a.map mantissa) (b.map mantissa) (c.map mantissa) (d.map mantissa) =
      sgn (orientExactVal (a.map mantissa) (b.map mantissa) (c.map mantissa) (d.map mantissa)) :=
  orient_fits_256 _ _ _ _ (mant53_of_bits a) (mant53_of_bits b) (mant53_of_bits c)
    (mant53_of_bits d)

theorem insphere_exact_sign (a b c d e : V3 ℕ) :
    insphereExact (a.map mantissa) (b.map mantissa) (c.map mantissa) (d.map mantissa)
      (e.map mantissa) =
      sgn (insphereExactVal (a.map mantissa) (b.map mantissa) (c.map mantissa) (d.map mantissa)
        (e.map mantissa)) :=
  insphere_fits_278 _ _ _ _ _ (mant53_of_bits a) (mant53_of_bits b) (mant53_of_bits c)
    (mant53_of_bits d) (mant53_of_bits e)

/-- the hypothesis of the `_fits` theorems is satisfiable, also at its upper end -/
example : Mant53 ⟨0, 2 ^ 53 - 1, 2 ^ 52⟩ := by
  refine ⟨⟨?_, ?_⟩, ⟨?_, ?_⟩, ⟨?_, ?_⟩⟩ <;> norm_num

/-- the bound is not far from tight: values of at least `2^159` occur -/
example : ∃ a b c d : V3 ℤ, Mant53 a ∧ Mant53 b ∧ Mant53 c ∧ Mant53 d ∧
    2 ^ 159 ≤ |orientExactVal a b c d| := by
  refine ⟨⟨2 ^ 53 - 1, 0, 0⟩, ⟨0, 2 ^ 53 - 1, 0⟩, ⟨0, 0, 2 ^ 53 - 1⟩,
    ⟨2 ^ 53 - 1, 2 ^ 53 - 1, 2 ^ 53 - 1⟩, ?_, ?_, ?_, ?_, ?_⟩
  · refine ⟨⟨?_, ?_⟩, ⟨?_, ?_⟩, ⟨?_, ?_⟩⟩ <;> norm_num
  · refine ⟨⟨?_, ?_⟩, ⟨?_, ?_⟩, ⟨?_, ?_⟩⟩ <;> norm_num
  · refine ⟨⟨?_, ?_⟩, ⟨?_, ?_⟩, ⟨?_, ?_⟩⟩ <;> norm_num
  · refine ⟨⟨?_, ?_⟩, ⟨?_, ?_⟩, ⟨?_, ?_⟩⟩ <;> norm_num
  · norm_num [orientExactVal]

/-! ## 4. the floating-point filter is sound -/

/-- the coordinates of `p` are doubles in [1,2): value `1 + m / 2^52` with the 52-bit mantissa
`m = mant x` that `get_mantissa` extracts -/
def OnGrid {fl : ℝ → ℝ} (mant : Rnd fl → ℤ) (p : V3 (Rnd fl)) : Prop :=
  Grid (vals p) (p.map mant) ∧ Mant53 (p.map mant)

/-- `differences_exact`: under IEEE arithmetic (every multiple `k·2⁻⁵²` with `|k| < 2⁵³` is a double,
so a correctly rounding `fl` returns it unchanged) the coordinate differences the adaptive
routines start from are computed without error.  The soundness theorems below do NOT need this:
they hold for every `fl`, exact differences or not. -/
theorem differences_exact (fl : ℝ → ℝ)
    (hex : ∀ k : ℤ, |k| < 2 ^ 53 → fl ((k : ℝ) / 2 ^ 52) = (k : ℝ) / 2 ^ 52)
    (mant : Rnd fl → ℤ) (a d : V3 (Rnd fl)) (ha : OnGrid mant a) (hd : OnGrid mant d) :
    (vsub a d).x.val = a.x.val - d.x.val ∧ (vsub a d).y.val = a.y.val - d.y.val ∧
    (vsub a d).z.val = a.z.val - d.z.val := by
  obtain ⟨⟨a1, a2, a3⟩, ⟨a4, a5, a6⟩⟩ := ha
  obtain ⟨⟨d1, d2, d3⟩, ⟨d4, d5, d6⟩⟩ := hd
  simp only [vals, V3.map] at a1 a2 a3 a4 a5 a6 d1 d2 d3 d4 d5 d6
  have key : ∀ (x y : Rnd fl), x.val = 1 + (mant x : ℝ) / 2 ^ 52 → y.val = 1 + (mant y : ℝ) / 2 ^ 52 →
      M53 (mant x) → M53 (mant y) → fl (x.val - y.val) = x.val - y.val := by
    intro x y hx hy mx my
    have e : x.val - y.val = ((mant x - mant y : ℤ) : ℝ) / 2 ^ 52 := by
      rw [hx, hy]; push_cast; ring
    rw [e]
    exact hex _ (abs_lt.mpr ⟨by linarith [mx.1, my.2], by linarith [mx.2, my.1]⟩)
  exact ⟨key _ _ a1 d1 a4 d4, key _ _ a2 d2 a5 d5, key _ _ a3 d3 a6 d6⟩

/-- **filter_sound (orientation)**: for every rounding function `fl` with relative error at most
`2⁻⁵³` applied after every operation (differences included) and to the literal `1.e-10`, a
non-zero answer of the filter is the sign of the exact integer determinant. -/
theorem orient_filter_sound (fl : ℝ → ℝ) (hfl : ∀ x, |fl x - x| ≤ 1 / 2 ^ 53 * |x|)
    (mant : Rnd fl → ℤ) (a b c d : V3 (Rnd fl))
    (ha : OnGrid mant a) (hb : OnGrid mant b) (hc : OnGrid mant c) (hd : OnGrid mant d)
    (hne : filterSign (orientFilter a b c d) ≠ 0) :
    filterSign (orientFilter a b c d) =
      sgn (orientExactVal (a.map mant) (b.map mant) (c.map mant) (d.map mant)) := by
  have hr := orient_filter_real (fl := fl) hfl a b c d
  have hg : orientDet a b c d = _ := det3_grid ha.1 hb.1 hc.1 hd.1
  rw [hg] at hr
  rcases filterSign_cases (orientFilter a b c d) with ⟨e, -⟩ | ⟨e, -⟩ | e
  · rw [e, sgn_neg (neg_of_div_neg (hr.2 e))]
  · rw [e, sgn_pos (pos_of_div_pos (hr.1 e))]
  · exact absurd e hne

/-- **filter_sound (in-sphere)** -/
theorem insphere_filter_sound (fl : ℝ → ℝ) (hfl : ∀ x, |fl x - x| ≤ 1 / 2 ^ 53 * |x|)
    (mant : Rnd fl → ℤ) (a b c d e : V3 (Rnd fl))
    (ha : OnGrid mant a) (hb : OnGrid mant b) (hc : OnGrid mant c) (hd : OnGrid mant d)
    (he : OnGrid mant e) (hne : filterSign (insphereFilter a b c d e) ≠ 0) :
    filterSign (insphereFilter a b c d e) =
      sgn (insphereExactVal (a.map mant) (b.map mant) (c.map mant) (d.map mant) (e.map mant)) := by
  have hr := insphere_filter_real (fl := fl) hfl a b c d e
  have hg : insphereDet a b c d e = _ := det4_grid ha.1 hb.1 hc.1 hd.1 he.1
  rw [hg] at hr
  rcases filterSign_cases (insphereFilter a b c d e) with ⟨e', -⟩ | ⟨e', -⟩ | e'
  · rw [e', sgn_neg (neg_of_div_neg (hr.2 e'))]
  · rw [e', sgn_pos (pos_of_div_pos (hr.1 e'))]
  · exact absurd e' hne

/-- **filter_sound**: both filters, one statement -/
theorem filter_sound (fl : ℝ → ℝ) (hfl : ∀ x, |fl x - x| ≤ 1 / 2 ^ 53 * |x|) (mant : Rnd fl → ℤ)
    (a b c d e : V3 (Rnd fl)) (ha : OnGrid mant a) (hb : OnGrid mant b) (hc : OnGrid mant c)
    (hd : OnGrid mant d) (he : OnGrid mant e) :
    (filterSign (orientFilter a b c d) ≠ 0 → filterSign (orientFilter a b c d) =
      sgn (orientExactVal (a.map mant) (b.map mant) (c.map mant) (d.map mant))) ∧
    (filterSign (insphereFilter a b c d e) ≠ 0 → filterSign (insphereFilter a b c d e) =
      sgn (insphereExactVal (a.map mant) (b.map mant) (c.map mant) (d.map mant) (e.map mant))) :=
  ⟨orient_filter_sound fl hfl mant a b c d ha hb hc hd,
   insphere_filter_sound fl hfl mant a b c d e ha hb hc hd he⟩

/-- **`orient3d_adaptive` returns the exact sign for all inputs in [1,2)** (filter decided or
fallback to the 256-bit routine) -/
theorem orient_adaptive_exact (fl : ℝ → ℝ) (hfl : ∀ x, |fl x - x| ≤ 1 / 2 ^ 53 * |x|)
    (mant : Rnd fl → ℤ) (a b c d : V3 (Rnd fl))
    (ha : OnGrid mant a) (hb : OnGrid mant b) (hc : OnGrid mant c) (hd : OnGrid mant d) :
    orient3dAdaptive mant a b c d =
      sgn (orientExactVal (a.map mant) (b.map mant) (c.map mant) (d.map mant)) := by
  unfold orient3dAdaptive
  simp only
  split_ifs with h0
  · exact orient_fits_256 _ _ _ _ ha.2 hb.2 hc.2 hd.2
  · exact orient_filter_sound fl hfl mant a b c d ha hb hc hd h0

/-- **`insphere_adaptive` returns the exact sign for all inputs in [1,2)** -/
theorem insphere_adaptive_exact (fl : ℝ → ℝ) (hfl : ∀ x, |fl x - x| ≤ 1 / 2 ^ 53 * |x|)
    (mant : Rnd fl → ℤ) (a b c d e : V3 (Rnd fl))
    (ha : OnGrid mant a) (hb : OnGrid mant b) (hc : OnGrid mant c) (hd : OnGrid mant d)
    (he : OnGrid mant e) :
    insphereAdaptive mant a b c d e =
      sgn (insphereExactVal (a.map mant) (b.map mant) (c.map mant) (d.map mant) (e.map mant)) := by
  unfold insphereAdaptive
  simp only
  split_ifs with h0
  · exact insphere_fits_278 _ _ _ _ _ ha.2 hb.2 hc.2 hd.2 he.2
  · exact insphere_filter_sound fl hfl mant a b c d e ha hb hc hd he h0

/-- consequence: the adaptive orientation test is negated by exchanging two points -/
theorem orient_adaptive_swap_ab (fl : ℝ → ℝ) (hfl : ∀ x, |fl x - x| ≤ 1 / 2 ^ 53 * |x|)
    (mant : Rnd fl → ℤ) (a b c d : V3 (Rnd fl))
    (ha : OnGrid mant a) (hb : OnGrid mant b) (hc : OnGrid mant c) (hd : OnGrid mant d) :
    orient3dAdaptive mant b a c d = - orient3dAdaptive mant a b c d := by
  rw [orient_adaptive_exact fl hfl mant b a c d hb ha hc hd,
    orient_adaptive_exact fl hfl mant a b c d ha hb hc hd, orient_swap_ab, sgn_neg_eq]

theorem insphere_adaptive_swap_de (fl : ℝ → ℝ) (hfl : ∀ x, |fl x - x| ≤ 1 / 2 ^ 53 * |x|)
    (mant : Rnd fl → ℤ) (a b c d e : V3 (Rnd fl))
    (ha : OnGrid mant a) (hb : OnGrid mant b) (hc : OnGrid mant c) (hd : OnGrid mant d)
    (he : OnGrid mant e) :
    insphereAdaptive mant a b c e d = - insphereAdaptive mant a b c d e := by
  rw [insphere_adaptive_exact fl hfl mant a b c e d ha hb hc he hd,
    insphere_adaptive_exact fl hfl mant a b c d e ha hb hc hd he, insphere_swap_de, sgn_neg_eq]

/-- every permutation of the points multiplies the adaptive answer by its signature -/
theorem orient_adaptive_perm (fl : ℝ → ℝ) (hfl : ∀ x, |fl x - x| ≤ 1 / 2 ^ 53 * |x|)
    (mant : Rnd fl → ℤ) (σ : Equiv.Perm (Fin 4)) (p : Fin 4 → V3 (Rnd fl))
    (hp : ∀ i, OnGrid mant (p i)) :
    orient3dAdaptive mant (p (σ 0)) (p (σ 1)) (p (σ 2)) (p (σ 3)) =
      (Equiv.Perm.sign σ : ℤ) * orient3dAdaptive mant (p 0) (p 1) (p 2) (p 3) := by
  rw [orient_adaptive_exact fl hfl mant _ _ _ _ (hp _) (hp _) (hp _) (hp _),
    orient_adaptive_exact fl hfl mant _ _ _ _ (hp _) (hp _) (hp _) (hp _)]
  exact orient_sign_perm σ (fun i => (p i).map mant)

theorem insphere_adaptive_perm (fl : ℝ → ℝ) (hfl : ∀ x, |fl x - x| ≤ 1 / 2 ^ 53 * |x|)
    (mant : Rnd fl → ℤ) (σ : Equiv.Perm (Fin 5)) (p : Fin 5 → V3 (Rnd fl))
    (hp : ∀ i, OnGrid mant (p i)) :
    insphereAdaptive mant (p (σ 0)) (p (σ 1)) (p (σ 2)) (p (σ 3)) (p (σ 4)) =
      (Equiv.Perm.sign σ : ℤ) * insphereAdaptive mant (p 0) (p 1) (p 2) (p 3) (p 4) := by
  rw [insphere_adaptive_exact fl hfl mant _ _ _ _ _ (hp _) (hp _) (hp _) (hp _) (hp _),
    insphere_adaptive_exact fl hfl mant _ _ _ _ _ (hp _) (hp _) (hp _) (hp _) (hp _)]
  exact insphere_sign_perm σ (fun i => (p i).map mant)

/-! ### non-vacuity -/

/-- the hypotheses of `filter_sound` are satisfiable: exact arithmetic (`fl = id`) is a rounding
function, and the point (1, 1.5, 1.75) lies on the grid -/
example : ∃ (fl : ℝ → ℝ) (mant : Rnd fl → ℤ) (p : V3 (Rnd fl)),
    (∀ x, |fl x - x| ≤ 1 / 2 ^ 53 * |x|) ∧ OnGrid mant p := by
  refine ⟨id, fun x => ⌊(x.val - 1) * 2 ^ 52⌋, ⟨⟨1⟩, ⟨1.5⟩, ⟨1.75⟩⟩, ?_, ?_⟩
  · intro x; simp
  · have e1 : ⌊((1:ℝ) - 1) * 2 ^ 52⌋ = 0 := by norm_num
    have e2 : ⌊((1.5:ℝ) - 1) * 2 ^ 52⌋ = 2 ^ 51 := by
      rw [show ((1.5:ℝ) - 1) * 2 ^ 52 = ((2 ^ 51 : ℤ) : ℝ) by norm_num]; exact Int.floor_intCast _
    have e3 : ⌊((1.75:ℝ) - 1) * 2 ^ 52⌋ = 3 * 2 ^ 50 := by
      rw [show ((1.75:ℝ) - 1) * 2 ^ 52 = ((3 * 2 ^ 50 : ℤ) : ℝ) by norm_num]
      exact Int.floor_intCast _
    refine ⟨⟨?_, ?_, ?_⟩, ⟨⟨?_, ?_⟩, ⟨?_, ?_⟩, ⟨?_, ?_⟩⟩⟩ <;>
      simp only [vals, V3.map, e1, e2, e3] <;> norm_num

/-- the unit tetrahedron scaled into [1,2), evaluated in exact arithmetic (`fl = id`) -/
private noncomputable def tetF : FiltOut (Rnd id) :=
  orientFilter ⟨⟨1⟩, ⟨1⟩, ⟨1⟩⟩ ⟨⟨1⟩, ⟨1⟩, ⟨1.5⟩⟩ ⟨⟨1⟩, ⟨1.5⟩, ⟨1⟩⟩ ⟨⟨1.5⟩, ⟨1⟩, ⟨1⟩⟩

/-- the filter does decide (its answer is not always 0) -/
example : filterSign tetF = 1 := by
  have h1 : ¬ (tetF.result < -tetF.errbound) := by
    show ¬ (tetF.result.val < -tetF.errbound.val)
    simp only [tetF, orientFilter, orientCore, vsub, Rnd.add_val, Rnd.sub_val, Rnd.mul_val,
      Rnd.abs_val, Rnd.sci_val, id]
    norm_num
  have h2 : tetF.errbound < tetF.result := by
    show tetF.errbound.val < tetF.result.val
    simp only [tetF, orientFilter, orientCore, vsub, Rnd.add_val, Rnd.sub_val, Rnd.mul_val,
      Rnd.abs_val, Rnd.sci_val, id]
    norm_num
  unfold filterSign
  rw [if_neg h1, if_pos h2]

/-! ## 5. the rescaling of the simulation box maps into [1,2) (real arithmetic) -/

/-- **rescale_in_range**: `x ↦ 1 + (x - min) / (ext (1 + 4ε))` maps `[min, min + ext]` into `[1, 2)`
(per axis, with that axis' own extent) -/
theorem rescale_in_range (mn ext ε x : ℝ) (hext : 0 < ext) (hε : 0 < ε) (h1 : mn ≤ x)
    (h2 : x ≤ mn + ext) :
    1 ≤ rescale1 x mn (ext * (1 + 4 * ε)) ∧ rescale1 x mn (ext * (1 + 4 * ε)) < 2 := by
  have hd : 0 < ext * (1 + 4 * ε) := by positivity
  have e1 : (1.0 : ℝ) = 1 := by norm_num
  unfold rescale1
  rw [e1]
  constructor
  · have : 0 ≤ (x - mn) / (ext * (1 + 4 * ε)) := div_nonneg (by linarith) hd.le
    linarith
  · have : (x - mn) / (ext * (1 + 4 * ε)) < 1 := by
      rw [div_lt_one hd]; nlinarith
    linarith

/-- the rescaling is monotone -/
theorem rescale_mono (mn ext x y : ℝ) (hext : 0 < ext) (h : x ≤ y) :
    rescale1 x mn ext ≤ rescale1 y mn ext := by
  unfold rescale1
  have : (x - mn) / ext ≤ (y - mn) / ext := div_le_div_of_nonneg_right (by linarith) hext.le
  linarith

/-- with an extent that is too small by any factor the upper end leaves `[1,2)`: the extent of each
axis has to be (at least) the one of that axis -/
theorem rescale_needs_own_extent (mn ext ext' : ℝ) (hext' : 0 < ext') (h : ext' ≤ ext) :
    2 ≤ rescale1 (mn + ext) mn ext' := by
  unfold rescale1
  have e1 : (1.0 : ℝ) = 1 := by norm_num
  have : 1 ≤ (mn + ext - mn) / ext' := by rw [le_div_iff₀ hext']; linarith
  rw [e1]; linarith

/-- everything the Voronoi construction rescales (box, generators inside it, the vertices of the
all-encompassing tetrahedron) lies, per axis, between the tetrahedron's minimum `anchor - side`
and that minimum plus the axis' extent `9 max_side`; so with the padded extent of
`paddedExtent` it is mapped into `[1,2)`.  Stated for the x axis of `boxTetra` / `paddedExtent`
(y and z are the same statement with the components renamed). -/
theorem rescale_box_in_range (anchor sides : V3 ℝ) (ε x : ℝ) (hε : 0 < ε)
    (hx : 0 < sides.x) (h1 : anchor.x - sides.x ≤ x)
    (h2 : x ≤ anchor.x - sides.x + 9.0 * amax (amax sides.x sides.y) sides.z) :
    let t := boxTetra anchor sides
    1 ≤ rescale1 x t.v0.x (paddedExtent (1 + 4 * ε) t).x ∧
      rescale1 x t.v0.x (paddedExtent (1 + 4 * ε) t).x < 2 := by
  intro t
  have hm : sides.x ≤ amax (amax sides.x sides.y) sides.z := by
    rw [amax_real, amax_real]; exact le_trans (le_max_left _ _) (le_max_left _ _)
  have e9 : (9.0 : ℝ) = 9 := by norm_num
  have hext : 0 < 9.0 * amax (amax sides.x sides.y) sides.z := by rw [e9]; linarith
  have key := rescale_in_range (anchor.x - sides.x) (9.0 * amax (amax sides.x sides.y) sides.z) ε x
    hext hε h1 h2
  have e : (paddedExtent (1 + 4 * ε) t).x = 9.0 * amax (amax sides.x sides.y) sides.z * (1 + 4 * ε) := by
    simp only [paddedExtent, t, boxTetra, e9]; ring
  have e0 : t.v0.x = anchor.x - sides.x := rfl
  rw [e, e0]; exact key

/-- in particular the generators: every `x` inside the box -/
example (anchor sides : V3 ℝ) (hx : 0 < sides.x) (x : ℝ)
    (h1 : anchor.x ≤ x) (h2 : x ≤ anchor.x + sides.x) :
    anchor.x - sides.x ≤ x ∧ x ≤ anchor.x - sides.x + 9.0 * amax (amax sides.x sides.y) sides.z := by
  have hm : sides.x ≤ amax (amax sides.x sides.y) sides.z := by
    rw [amax_real, amax_real]; exact le_trans (le_max_left _ _) (le_max_left _ _)
  have e9 : (9.0 : ℝ) = 9 := by norm_num
  rw [e9]; constructor <;> linarith

end CMacVerif.Predicates
