import CMacVerif.Lemmas.TimeLine
import Mathlib.Tactic.Linarith
import Mathlib.Algebra.Order.Field.Rat
/-!
# C19 — the time line never overshoots and ends exactly on time

Property theorems only.  Model: `CMacVerif/Model/TimeLine.lean`.
`gt : Nat → Bool` is the floating-point comparison "physical size of this integer step exceeds
the request"; `Mono gt` says it is monotone in the step (true for `A * ts > r` with `A ≥ 0`),
`gt 0 = false` says the request is non-negative (the documented domain).
-/
namespace CMacVerif.TimeLine

/-- well-formed time line: what the constructor establishes and `advance` preserves -/
structure Inv (s : TL) : Prop where
  minP : IsPow2 s.minStep
  maxP : IsPow2 s.maxStep
  minLeMax : s.minStep ≤ s.maxStep
  maxLe : s.maxStep ≤ maxT
  curLe : s.cur ≤ maxT

/-- the comparison is monotone in the integer step -/
def Mono (gt : Nat → Bool) : Prop := ∀ a b, a ≤ b → gt a = true → gt b = true

theorem maxT_pow2 : IsPow2 maxT := ⟨63, rfl⟩

theorem max1_roundDown (g : Nat → Bool) :
    IsPow2 (max 1 (roundDown g maxT)) ∧ max 1 (roundDown g maxT) ≤ maxT := by
  have h := roundDown_spec g maxT (Or.inr maxT_pow2)
  rcases h.1 with h0 | ⟨hp, _⟩
  · rw [h0]; exact ⟨⟨0, rfl⟩, by decide⟩
  · have := isPow2_pos hp
    have e : max 1 (roundDown g maxT) = roundDown g maxT := by omega
    rw [e]; exact ⟨hp, h.2⟩

theorem maxWith (mn : Nat) (hmn : IsPow2 mn) (hle : mn ≤ maxT) (g : Nat → Bool) :
    IsPow2 (max mn (roundDown g maxT)) ∧ mn ≤ max mn (roundDown g maxT)
      ∧ max mn (roundDown g maxT) ≤ maxT := by
  have h := roundDown_spec g maxT (Or.inr maxT_pow2)
  refine ⟨?_, Nat.le_max_left _ _, Nat.max_le.mpr ⟨hle, h.2⟩⟩
  rcases Nat.le_total (roundDown g maxT) mn with hl | hl
  · rw [Nat.max_eq_left hl]; exact hmn
  · rw [Nat.max_eq_right hl]
    rcases h.1 with h0 | ⟨hp, _⟩
    · have := isPow2_pos hmn; omega
    · exact hp

/-- the constructor yields a well-formed time line for every pair of settings -/
theorem mk_inv (minPos maxPos : Bool) (gtMin gtMax : Nat → Bool) :
    Inv (mk minPos gtMin maxPos gtMax) := by
  have one : IsPow2 1 := ⟨0, rfl⟩
  have oneLe : 1 ≤ maxT := by decide
  cases minPos <;> cases maxPos <;> simp only [mk, Bool.false_eq_true, ↓reduceIte]
  · exact ⟨one, maxT_pow2, oneLe, Nat.le_refl _, Nat.zero_le _⟩
  · have := maxWith 1 one oneLe gtMax
    exact ⟨one, this.1, this.2.1, this.2.2, Nat.zero_le _⟩
  · have := max1_roundDown gtMin
    exact ⟨this.1, maxT_pow2, this.2, Nat.le_refl _, Nat.zero_le _⟩
  · have h1 := max1_roundDown gtMin
    have := maxWith _ h1.1 h1.2 gtMax
    exact ⟨h1.1, this.1, this.2.1, this.2.2, Nat.zero_le _⟩

/-- Everything `advance` guarantees about one accepted step, taken before the end was reached
(`s.cur < maxT`: the callers stop as soon as `advance` reports no next step). -/
theorem advance_stepped (s : TL) (gt : Nat → Bool) (hm : Mono gt) (hs : Inv s) (hlive : s.cur < maxT)
    (s' : TL) (ts : Nat) (more : Bool)
    (h : advance s gt = (s', ts, .stepped more)) :
    IsPow2 ts                              -- a power-of-two fraction of the interval
    ∧ ts ≤ s.maxStep                        -- not larger than the configured maximum
    ∧ s.minStep ≤ ts                        -- not smaller than the configured minimum
    ∧ gt ts = false                         -- not larger than requested (see `step_le_request`)
    ∧ ts ∣ (maxT - s.cur)                   -- divides the time remaining
    ∧ s'.cur = s.cur + ts ∧ s.cur < s'.cur  -- time increases strictly
    ∧ s'.cur ≤ maxT                         -- never past the end
    ∧ (more = false ↔ s'.cur = maxT)        -- "no next step" exactly when the end is reached
    ∧ s'.minStep = s.minStep ∧ s'.maxStep = s.maxStep := by
  unfold advance at h
  have hr := roundDown_spec gt s.maxStep (Or.inr hs.maxP)
  by_cases h0 : roundDown gt s.maxStep = 0
  · simp [h0] at h
  · simp only [h0, ↓reduceIte] at h
    rcases hr.1 with hz | ⟨hp, hng⟩
    · exact absurd hz h0
    · have hf := fit_spec (maxT - s.cur) _ hp
      by_cases hlt : fit (maxT - s.cur) (roundDown gt s.maxStep) < s.minStep
      · simp [hlt] at h
      · simp only [hlt, ↓reduceIte] at h
        injection h with h1 h2; injection h2 with h2 h3; injection h3 with h3
        subst h2; subst h1
        have hpos := isPow2_pos hf.1
        have hle : fit (maxT - s.cur) (roundDown gt s.maxStep) ≤ maxT - s.cur :=
          Nat.le_of_dvd (by omega) hf.2.1
        refine ⟨hf.1, by omega, by omega, ?_, hf.2.1, rfl, by simp; omega, by simp; omega, ?_, rfl, rfl⟩
        · -- gt at the fitted step: it is a halving of a value where gt is false
          cases hg : gt (fit (maxT - s.cur) (roundDown gt s.maxStep)) with
          | false => rfl
          | true => have := hm _ _ hf.2.2 hg; rw [hng] at this; exact absurd this (by decide)
        · simp only at h3 ⊢
          rw [← h3]; simp; omega

/-- a refused request (either refusal) takes no step and leaves the time line unchanged -/
theorem advance_refused (s : TL) (gt : Nat → Bool) (s' : TL) (ts : Nat) (o : Outcome)
    (h : advance s gt = (s', ts, o)) (ho : ∀ m, o ≠ .stepped m) : s' = s := by
  unfold advance at h
  by_cases h0 : roundDown gt s.maxStep = 0
  · simp only [h0, ↓reduceIte] at h; injection h with h1 _; exact h1.symm
  · simp only [h0, ↓reduceIte] at h
    by_cases hlt : fit (maxT - s.cur) (roundDown gt s.maxStep) < s.minStep
    · simp only [hlt, ↓reduceIte] at h; injection h with h1 _; exact h1.symm
    · simp only [hlt, ↓reduceIte] at h
      injection h with _ h2; injection h2 with _ h3
      exact absurd h3.symm (ho _)

/-- a request whose power-of-two rounding is below the configured minimum stops the run:
`advance` does not step -/
theorem below_min_stops (s : TL) (gt : Nat → Bool) (hs : Inv s)
    (hsmall : gt s.minStep = true) (hm : Mono gt) :
    ∀ m, (advance s gt).2.2 ≠ .stepped m := by
  intro m
  unfold advance
  have hr := roundDown_spec gt s.maxStep (Or.inr hs.maxP)
  by_cases h0 : roundDown gt s.maxStep = 0
  · simp [h0]
  · simp only [h0, ↓reduceIte]
    rcases hr.1 with hz | ⟨hp, hng⟩
    · exact absurd hz h0
    · have hf := fit_spec (maxT - s.cur) _ hp
      have : roundDown gt s.maxStep < s.minStep := by
        rcases Nat.lt_or_ge (roundDown gt s.maxStep) s.minStep with h | h
        · exact h
        · have := hm _ _ h hsmall; rw [hng] at this; exact absurd this (by decide)
      have hlt : fit (maxT - s.cur) (roundDown gt s.maxStep) < s.minStep := by omega
      simp [hlt]

/-- `advance` preserves well-formedness, whatever the outcome -/
theorem advance_inv (s : TL) (gt : Nat → Bool) (hm : Mono gt) (hs : Inv s) (hlive : s.cur < maxT) :
    Inv (advance s gt).1 := by
  rcases hadv : advance s gt with ⟨s', ts, o⟩
  cases o with
  | stepped m =>
    have h := advance_stepped s gt hm hs hlive s' ts m hadv
    obtain ⟨_, _, _, _, _, _, _, hle, _, hmin, hmax⟩ := h
    exact ⟨hmin ▸ hs.minP, hmax ▸ hs.maxP, by rw [hmin, hmax]; exact hs.minLeMax,
      hmax ▸ hs.maxLe, hle⟩
  | tooSmall => rw [advance_refused s gt s' ts _ hadv (by intro m; simp)]; exact hs
  | belowMin => rw [advance_refused s gt s' ts _ hadv (by intro m; simp)]; exact hs

/-- the accepted step is the *largest* power-of-two fraction `maxStep / 2^k` that is neither
larger than requested nor fails to divide the time remaining -/
theorem step_is_largest (s : TL) (gt : Nat → Bool) (s' : TL) (ts : Nat) (more : Bool)
    (h : advance s gt = (s', ts, .stepped more)) (k : Nat) (hk : ts < s.maxStep / 2 ^ k) :
    gt (s.maxStep / 2 ^ k) = true ∨ ¬ (s.maxStep / 2 ^ k ∣ maxT - s.cur) := by
  unfold advance at h
  by_cases h0 : roundDown gt s.maxStep = 0
  · simp [h0] at h
  · simp only [h0, ↓reduceIte] at h
    by_cases hlt : fit (maxT - s.cur) (roundDown gt s.maxStep) < s.minStep
    · simp [hlt] at h
    · simp only [hlt, ↓reduceIte] at h
      injection h with _ h2; injection h2 with h2 _
      subst h2
      rcases Nat.lt_or_ge (roundDown gt s.maxStep) (s.maxStep / 2 ^ k) with hlt2 | hge
      · left; exact roundDown_maximal gt s.maxStep k hlt2 (by omega)
      · right
        obtain ⟨j, hj⟩ := roundDown_is_halving gt s.maxStep
        have hjk : j ≤ k := by
          rcases Nat.lt_or_ge k j with hkj | hjk
          · have := div_pow_lt (n := s.maxStep) hkj (by omega); omega
          · exact hjk
        have e : s.maxStep / 2 ^ k = roundDown gt s.maxStep / 2 ^ (k - j) := by
          rw [hj, Nat.div_div_eq_div_mul, ← Nat.pow_add]; congr 2; omega
        rw [e] at hk ⊢
        exact fit_maximal _ _ _ hk

/-- sum of the steps of a run and its end point; the clock never passes the end -/
theorem run_sum (gs : List (Nat → Bool)) (hm : ∀ g ∈ gs, Mono g) :
    ∀ (s : TL), Inv s → s.cur < maxT →
      (run s gs).1.cur = s.cur + (run s gs).2.sum ∧ (run s gs).1.cur ≤ maxT
      ∧ Inv (run s gs).1 := by
  induction gs with
  | nil => intro s hs hl; exact ⟨by simp [run], by simp [run]; omega, hs⟩
  | cons g gs ih =>
    intro s hs hl
    have hmg := hm g (List.mem_cons_self)
    rcases hadv : advance s g with ⟨s', ts, o⟩
    cases o with
    | stepped m =>
      have h := advance_stepped s g hmg hs hl s' ts m hadv
      obtain ⟨_, _, _, _, _, hcur, _, hle, hend, hmin, hmax⟩ := h
      have hs' : Inv s' := by have := advance_inv s g hmg hs hl; rw [hadv] at this; exact this
      cases m with
      | true =>
        have hne : s'.cur ≠ maxT := by intro e; have := hend.mpr e; exact absurd this (by decide)
        have := ih (fun g hg => hm g (List.mem_cons_of_mem _ hg)) s' hs' (by omega)
        simp only [run, hadv]
        refine ⟨?_, this.2.1, this.2.2⟩
        simp only [List.sum_cons]; omega
      | false =>
        simp only [run, hadv, List.sum_cons, List.sum_nil]
        exact ⟨by omega, hle, hs'⟩
    | tooSmall =>
      have := advance_refused s g s' ts _ hadv (by intro m; simp)
      simp only [run, hadv, List.sum_nil]; subst this; exact ⟨by omega, by omega, hs⟩
    | belowMin =>
      have := advance_refused s g s' ts _ hadv (by intro m; simp)
      simp only [run, hadv, List.sum_nil]; subst this; exact ⟨by omega, by omega, hs⟩

/-- a run that reaches the end has taken steps that sum to the whole remaining interval
(from a fresh time line: to exactly 2^63) -/
theorem steps_sum_total (gs : List (Nat → Bool)) (hm : ∀ g ∈ gs, Mono g) (s : TL) (hs : Inv s)
    (hl : s.cur < maxT) (hend : (run s gs).1.cur = maxT) : (run s gs).2.sum = maxT - s.cur := by
  have := run_sum gs hm s hs hl; omega

/-- every step of a run is strictly positive, so the integer clock is strictly increasing -/
theorem run_steps_pos (gs : List (Nat → Bool)) (hm : ∀ g ∈ gs, Mono g) :
    ∀ (s : TL), Inv s → s.cur < maxT → ∀ t ∈ (run s gs).2, 0 < t := by
  induction gs with
  | nil => intro s _ _ t ht; simp [run] at ht
  | cons g gs ih =>
    intro s hs hl t ht
    have hmg := hm g (List.mem_cons_self)
    rcases hadv : advance s g with ⟨s', ts, o⟩
    cases o with
    | stepped m =>
      have h := advance_stepped s g hmg hs hl s' ts m hadv
      obtain ⟨hp, _, _, _, _, hcur, _, hle, hend, _, _⟩ := h
      have hs' : Inv s' := by have := advance_inv s g hmg hs hl; rw [hadv] at this; exact this
      cases m with
      | true =>
        have hne : s'.cur ≠ maxT := by intro e; have := hend.mpr e; exact absurd this (by decide)
        simp only [run, hadv, List.mem_cons] at ht
        rcases ht with rfl | ht
        · exact isPow2_pos hp
        · exact ih (fun g hg => hm g (List.mem_cons_of_mem _ hg)) s' hs' (by omega) t ht
      | false =>
        simp only [run, hadv, List.mem_cons, List.not_mem_nil, or_false] at ht
        subst ht; exact isPow2_pos hp
    | tooSmall => simp [run, hadv] at ht
    | belowMin => simp [run, hadv] at ht

/-- every accepted step of a run is at least the configured minimum step -/
theorem run_steps_ge_min (gs : List (Nat → Bool)) (hm : ∀ g ∈ gs, Mono g) :
    ∀ (s : TL), Inv s → s.cur < maxT → ∀ t ∈ (run s gs).2, s.minStep ≤ t := by
  induction gs with
  | nil => intro s _ _ t ht; simp [run] at ht
  | cons g gs ih =>
    intro s hs hl t ht
    have hmg := hm g (List.mem_cons_self)
    rcases hadv : advance s g with ⟨s', ts, o⟩
    cases o with
    | stepped m =>
      have h := advance_stepped s g hmg hs hl s' ts m hadv
      obtain ⟨_, _, hge, _, _, hcur, _, hle, hend, hmin, _⟩ := h
      have hs' : Inv s' := by have := advance_inv s g hmg hs hl; rw [hadv] at this; exact this
      cases m with
      | true =>
        have hne : s'.cur ≠ maxT := by intro e; have := hend.mpr e; exact absurd this (by decide)
        simp only [run, hadv, List.mem_cons] at ht
        rcases ht with rfl | ht
        · exact hge
        · have := ih (fun g hg => hm g (List.mem_cons_of_mem _ hg)) s' hs' (by omega) t ht
          omega
      | false =>
        simp only [run, hadv, List.mem_cons, List.not_mem_nil, or_false] at ht
        subst ht; exact hge
    | tooSmall => simp [run, hadv] at ht
    | belowMin => simp [run, hadv] at ht

/-- **The caller's loop terminates**: however the requests vary, a run accepts at most
`(2^63 - cur) / minStep` steps (each accepted step is at least the minimum step, their sum never
passes the end); with the drivers' default minimum `1e-10 · T` that is about `10^10` steps. -/
theorem run_length_bound (gs : List (Nat → Bool)) (hm : ∀ g ∈ gs, Mono g) (s : TL) (hs : Inv s)
    (hl : s.cur < maxT) : (run s gs).2.length * s.minStep ≤ maxT - s.cur := by
  have hsum := run_sum gs hm s hs hl
  have hge := run_steps_ge_min gs hm s hs hl
  have key : ∀ (l : List Nat) (m : Nat), (∀ t ∈ l, m ≤ t) → l.length * m ≤ l.sum := by
    intro l m
    induction l with
    | nil => intro _; simp
    | cons a l ih =>
      intro h
      have h1 := h a List.mem_cons_self
      have h2 := ih (fun t ht => h t (List.mem_cons_of_mem _ ht))
      simp only [List.length_cons, List.sum_cons, Nat.add_mul, Nat.one_mul]
      omega
  have := key _ _ hge
  omega

/-- a time line saved and restored continues identically -/
theorem restore_dump (s : TL) : restore (dump s) = some s := rfl

theorem advance_after_restore (s : TL) (gt : Nat → Bool) :
    (restore (dump s)).map (fun r => advance r gt) = some (advance s gt) := rfl

/-! ### the physical reading: `gt ts := A * ts > r` over ℚ (exact values of the doubles) -/

def physGt (A r : ℚ) (ts : Nat) : Bool := decide (A * (ts : ℚ) > r)

theorem physGt_mono (A r : ℚ) (hA : 0 ≤ A) : Mono (physGt A r) := by
  intro a b hab h
  simp only [physGt, decide_eq_true_eq] at h ⊢
  have : (a : ℚ) ≤ (b : ℚ) := by exact_mod_cast hab
  nlinarith

theorem physGt_zero (A r : ℚ) (hr : 0 ≤ r) : physGt A r 0 = false := by
  simp [physGt]; exact hr

/-- physical statement: the step actually taken is no larger than requested and no larger
than the configured maximum step -/
theorem step_le_request (s : TL) (A r : ℚ) (hA : 0 ≤ A) (hs : Inv s) (hlive : s.cur < maxT)
    (s' : TL) (ts : Nat) (more : Bool)
    (h : advance s (physGt A r) = (s', ts, .stepped more)) :
    A * (ts : ℚ) ≤ r ∧ A * (ts : ℚ) ≤ A * (s.maxStep : ℚ) := by
  have := advance_stepped s _ (physGt_mono A r hA) hs hlive s' ts more h
  obtain ⟨_, hmax, _, hg, _⟩ := this
  constructor
  · simp only [physGt, decide_eq_false_iff_not, not_lt] at hg; exact hg
  · have : (ts : ℚ) ≤ (s.maxStep : ℚ) := by exact_mod_cast hmax
    nlinarith

/-! ### non-vacuity: a concrete time line meets the hypotheses and steps -/
example : Inv (mk true (physGt 1 1024) true (physGt 1 (2^40))) ∧
    (mk true (physGt 1 1024) true (physGt 1 (2^40))).cur < maxT := by
  exact ⟨mk_inv _ _ _ _, by decide⟩

end CMacVerif.TimeLine
