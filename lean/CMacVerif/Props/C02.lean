import CMacVerif.Lemmas.RayMarch
import Mathlib.Algebra.Order.Field.Rat
/-!
# C02 — a packet crossing a subgrid deposits exactly its geometric path

Model: `CMacVerif/Model/RayMarch.lean` (`interact` = statement-by-statement mirror of
`DensitySubGrid::interact`).  All theorems are over an arbitrary linear ordered field `K`
(exact arithmetic; IEEE rounding is the named gap, see the evidence file) and quantify over
every block shape, cell content, packet and entry classification that satisfies `Hyp`:

* `Valid`: cell sizes > 0, at least one cell per axis, direction ≠ 0, opacities
  `κ = n (σ_H x_H + σ_He x_He) ≥ 0`, target optical depth > 0, and the `DBL_MAX` sentinel the
  code uses for axes with direction component 0 really is larger than every wall distance
  (`cell_size < DBL_MAX·|d_a|` on the moving axes);
* `Start`: a classification `0..26`, `inv_cell_size · cell_size = 1`, and on every axis whose
  index is *computed from the position* the position lies in the closed block
  (`0 ≤ x ≤ n·cell_size`; a position on the upper boundary belongs to the last cell since the
  index is clamped, `std::min(index, n - 1)`).  Nothing is assumed about the compatibility of the
  entry classification with the direction: an incompatible entry simply leaves at once with
  zero path.  What the code did with a start on the upper boundary before the clamp existed is
  kept as `old_code_upper_boundary_index_outside`.
-/
set_option linter.unusedSectionVars false
set_option linter.unusedVariables false
set_option linter.unnecessarySeqFocus false

namespace CMacVerif.RayMarch
variable {K : Type} [Field K] [LinearOrder K] [IsStrictOrderedRing K]

/-- opacities are non-negative when densities, neutral fractions and cross sections are -/
theorem kappa_nonneg_of (c : Cell K) (ph : Photon K) (h1 : 0 ≤ c.n) (h2 : 0 ≤ c.xH) (h3 : 0 ≤ c.xHe)
    (h4 : 0 ≤ ph.sigH) (h5 : 0 ≤ ph.sigHe) : 0 ≤ kappa c ph := by
  unfold kappa; positivity

/-- the constructor `DensitySubGrid(box, ncell)` establishes the block part of the hypotheses -/
theorem mkBlock_ok (anchor side : V3 K) (n : V3 Nat) (hs : ∀ a, 0 < side.get a) (hn : ∀ a, 0 < n.get a) :
    (∀ a, 0 < (mkBlock anchor side n).cs.get a) ∧
    (∀ a, (mkBlock anchor side n).inv.get a * (mkBlock anchor side n).cs.get a = 1) ∧
    (∀ a, top (mkBlock anchor side n) a = side.get a) := by
  have hnK : ∀ a, (0 : K) < (n.get a : K) := fun a => by exact_mod_cast hn a
  refine ⟨fun a => ?_, fun a => ?_, fun a => ?_⟩
  · simp only [mkBlock, V3.get_of, ofNat_eq]; exact div_pos (hs a) (hnK a)
  · simp only [mkBlock, V3.get_of, ofNat_eq]
    have := (hs a).ne'; have := (hnK a).ne'; field_simp
  · simp only [top, mkBlock, V3.get_of, ofNat_eq]
    have := (hnK a).ne'; field_simp

section main
variable (b : Block K) (cells : Nat → Cell K) (ph : Photon K) (inDir : Nat)

/-- **Termination is a theorem**: the loop of `interact` ends by its own condition within
`nx + ny + nz + 1` evaluations of that condition (every pass that does not end the loop moves
at least one index one step in its direction of travel). -/
theorem fuel_sufficient (h : Hyp b cells ph inDir) :
    (interact b cells ph inDir).finished = true := by
  rw [finished_eq]
  have hr := init_inRange b cells ph inDir h.valid h.start
  refine (march_finishes b cells ph h.valid _ _ _ (init_inv b cells ph inDir h.valid h.start)).2
    (init_tau b cells ph inDir h) hr ?_
  have := phi_le b ph (initSt b ph inDir) hr
  unfold fuel; push_cast; omega

/-- the loop ended by its own condition: target reached or index outside -/
theorem last_done (h : Hyp b cells ph inDir) :
    ¬ ((interact b cells ph inDir).last.tauDone < ph.tau ∧
        InRange b.n (interact b cells ph inDir).last.idx) :=
  march_done b cells ph _ _ (fuel_sufficient b cells ph inDir h)

/-- **Path sum**: the final position is the (pinned) start position plus `Σ path · direction`,
per coordinate; in absolute coordinates as well. -/
theorem path_sum (h : Hyp b cells ph inDir) (a : Ax) :
    (interact b cells ph inDir).last.pos.get a =
        (initSt b ph inDir).pos.get a + pathSum (interact b cells ph inDir).visits * ph.dir.get a
    ∧ (interact b cells ph inDir).pos.get a =
        ((initSt b ph inDir).pos.get a + b.anchor.get a)
          + pathSum (interact b cells ph inDir).visits * ph.dir.get a := by
  have hl := (last_inv b cells ph inDir h).onLine a
  rw [visits_eq, pathSum_reverse, pos_eq, hl]
  exact ⟨rfl, by ring⟩

/-- every credited path length is non-negative -/
theorem path_nonneg (h : Hyp b cells ph inDir) : ∀ v ∈ (interact b cells ph inDir).visits, 0 ≤ v.path := by
  have hs := (last_inv b cells ph inDir h).segs
  rw [visits_eq]
  intro v hv
  rw [List.mem_reverse] at hv
  generalize (interact b cells ph inDir).last.out = l at hs hv
  induction l with
  | nil => cases hv
  | cons u rest ih =>
    rcases List.mem_cons.mp hv with rfl | hv
    · exact hs.1.2.2.1
    · exact ih hs.2 hv

/-- hence **Σ path = straight-line distance** for a unit direction (sqrt-free form:
`Σ path ≥ 0` and `(Σ path)² = |final − start|²`) -/
theorem path_sum_is_distance (h : Hyp b cells ph inDir)
    (hunit : ph.dir.x ^ 2 + ph.dir.y ^ 2 + ph.dir.z ^ 2 = 1) :
    0 ≤ pathSum (interact b cells ph inDir).visits ∧
    pathSum (interact b cells ph inDir).visits ^ 2 =
      ((interact b cells ph inDir).last.pos.x - (initSt b ph inDir).pos.x) ^ 2
      + ((interact b cells ph inDir).last.pos.y - (initSt b ph inDir).pos.y) ^ 2
      + ((interact b cells ph inDir).last.pos.z - (initSt b ph inDir).pos.z) ^ 2 := by
  constructor
  · have := path_nonneg b cells ph inDir h
    unfold pathSum
    apply List.sum_nonneg
    intro x hx
    obtain ⟨v, hv, rfl⟩ := List.mem_map.mp hx
    exact this v hv
  · have hx := (path_sum b cells ph inDir h .x).1
    have hy := (path_sum b cells ph inDir h .y).1
    have hz := (path_sum b cells ph inDir h .z).1
    simp only [V3.get] at hx hy hz
    rw [hx, hy, hz]
    have : ∀ (S dx dy dz p q r : K), dx ^ 2 + dy ^ 2 + dz ^ 2 = 1 →
        S ^ 2 = (p + S * dx - p) ^ 2 + (q + S * dy - q) ^ 2 + (r + S * dz - r) ^ 2 := by
      intro S dx dy dz p q r hu
      have : (p + S * dx - p) ^ 2 + (q + S * dy - q) ^ 2 + (r + S * dz - r) ^ 2
          = S ^ 2 * (dx ^ 2 + dy ^ 2 + dz ^ 2) := by ring
      rw [this, hu, mul_one]
    exact this _ _ _ _ _ _ _ hunit

/-- **Every visited cell contains its segment**: in order of traversal, with `S` the path
travelled before the visit, the visited cell is a real cell of the block (`InRange`, one-index
= `get_one_index`), and both end points `start + S·d` and `start + (S + path)·d` lie in the
closed cell — the cell is convex, so the whole segment does. -/
theorem segments_in_cells (h : Hyp b cells ph inDir) :
    SegsFwd b ph (initSt b ph inDir).pos 0 (interact b cells ph inDir).visits := by
  rw [visits_eq]
  exact segs_reverse b ph _ _ (last_inv b cells ph inDir h).segs

/-- the exit classification of a packet that leaves is one of `1..26` -/
theorem outputDirection_valid (h : Hyp b cells ph inDir)
    (hout : ¬ InRange b.n (interact b cells ph inDir).last.idx) :
    1 ≤ outputDirection b.n (interact b cells ph inDir).last.idx ∧
    outputDirection b.n (interact b cells ph inDir).last.idx < 27 ∧
    ∀ a, pinKind (outputDirection b.n (interact b cells ph inDir).last.idx).toNat a
      = zone (b.n.get a) ((interact b cells ph inDir).last.idx.get a) := by
  have hI := last_inv b cells ph inDir h
  set i := (interact b cells ph inDir).last.idx with hi
  unfold outputDirection
  rw [exitMask_eq b.n i h.valid.n_pos (fun a => (hI.range a).1)]
  have hz : ¬ ((zone b.n.x i.x) = 0 ∧ (zone b.n.y i.y) = 0 ∧ (zone b.n.z i.z) = 0) := by
    intro ⟨hx, hy, hz⟩
    apply hout
    intro a
    cases a <;> simp only [V3.get] <;> [skip; skip; skip]
    · unfold zone at hx; split_ifs at hx <;> omega
    · unfold zone at hy; split_ifs at hy <;> omega
    · unfold zone at hz; split_ifs at hz <;> omega
  have := tables_exit ⟨_, zone_lt b.n.x i.x⟩ ⟨_, zone_lt b.n.y i.y⟩ ⟨_, zone_lt b.n.z i.z⟩ hz
  refine ⟨this.1, this.2.1, fun a => ?_⟩
  cases a
  · exact this.2.2.1
  · exact this.2.2.2.1
  · exact this.2.2.2.2

/-- the packet is reported INSIDE exactly when the loop ended because the target was reached -/
theorem outDir_zero_iff (h : Hyp b cells ph inDir) :
    (interact b cells ph inDir).outDir = 0 ↔ ph.tau ≤ (interact b cells ph inDir).last.tauDone := by
  show (if ph.tau ≤ (interact b cells ph inDir).last.tauDone then ((Gen.TDC02.dirInside : Nat) : Int)
      else outputDirection b.n (interact b cells ph inDir).last.idx) = 0 ↔ _
  by_cases ht : ph.tau ≤ (interact b cells ph inDir).last.tauDone
  · rw [if_pos ht]; exact ⟨fun _ => ht, fun _ => rfl⟩
  · rw [if_neg ht]
    have hout : ¬ InRange b.n (interact b cells ph inDir).last.idx := fun hr =>
      last_done b cells ph inDir h ⟨not_le.mp ht, hr⟩
    have := (outputDirection_valid b cells ph inDir h hout).1
    constructor
    · intro h0; omega
    · intro h0; exact absurd h0 ht

/-- **Optical depth accounting.**  A packet that leaves has used up `Σ κ·path` and keeps
`τ_target − Σ κ·path > 0`; a packet that stops inside has deposited *exactly* `τ_target`
(the surplus correction), and what the code stores as remaining optical depth is the
non-positive surplus of the last cell. -/
theorem tau_account (h : Hyp b cells ph inDir) :
    ((interact b cells ph inDir).outDir ≠ 0 →
      (interact b cells ph inDir).tauLeft = ph.tau - tauSum cells ph (interact b cells ph inDir).visits
      ∧ 0 < (interact b cells ph inDir).tauLeft) ∧
    ((interact b cells ph inDir).outDir = 0 →
      tauSum cells ph (interact b cells ph inDir).visits = ph.tau
      ∧ (interact b cells ph inDir).tauLeft ≤ 0) := by
  have hI := last_inv b cells ph inDir h
  have hz := outDir_zero_iff b cells ph inDir h
  rw [visits_eq, tauSum_reverse, tauLeft_eq]
  constructor
  · intro hn
    have hlt := not_le.mp (fun ht => hn (hz.mpr ht))
    rw [← hI.tauRun hlt]
    exact ⟨rfl, by linarith⟩
  · intro h0
    have hge := hz.mp h0
    exact ⟨hI.tauStop hge, by linarith⟩

/-- **Estimators**: each visit adds `path·σ·w` to the mean-intensity counter of every ion and
`path·σ·w·(ν − ν₀)` to the heating counters (ν₀ = 3.288e15 Hz for H, 5.948e15 Hz for He). -/
theorem estimators (h : Hyp b cells ph inDir) :
    ∀ v ∈ (interact b cells ph inDir).visits, EstOK ph v := by
  rw [visits_eq]
  intro v hv
  rw [List.mem_reverse] at hv
  have := march_induct b cells ph (fun s => ∀ v ∈ s.out, EstOK ph v)
    (fun s hs _ _ => step_est b cells ph s hs) (fuel b.n) (initSt b ph inDir)
    (fun v hv => by cases hv)
  exact this v hv

/-- optical depth of the whole line from the start to the block boundary: what the same march
accumulates when the optical depth test is removed -/
def fullTau (b : Block K) (cells : Nat → Cell K) (ph : Photon K) (inDir : Nat) : K :=
  (marchFree b cells ph (fuel b.n) (initSt b ph inDir)).1.tauDone

/-- `fullTau` really is the sum over the whole line: the free march ends outside the block
within the fuel, its visits satisfy the segment property, it is on the line, its optical depth
is `Σ κ·path` over its visits, and it ends on the block faces it crossed. -/
theorem fullTau_is_line_sum (h : Hyp b cells ph inDir) :
    let r := marchFree b cells ph (fuel b.n) (initSt b ph inDir)
    r.2 = true ∧ ¬ InRange b.n r.1.idx ∧ fullTau b cells ph inDir = tauSum cells ph r.1.out.reverse
      ∧ SegsFwd b ph (initSt b ph inDir).pos 0 r.1.out.reverse
      ∧ (∀ a, r.1.pos.get a = (initSt b ph inDir).pos.get a + pathSum r.1.out.reverse * ph.dir.get a)
      ∧ OutFaces b ph r.1 := by
  intro r
  have hI0 := init_inv b cells ph inDir h.valid h.start
  have hF0 := inv_to_invF b cells ph _ _ hI0 (init_tau b cells ph inDir h)
  have hr := init_inRange b cells ph inDir h.valid h.start
  have hfin : r.2 = true := by
    refine (marchFree_finishes b cells ph h.valid _ _ _ hF0).2 hr ?_
    have := phi_le b ph (initSt b ph inDir) hr
    unfold fuel; push_cast; omega
  have hF := (marchFree_inv b cells ph h.valid _ (fuel b.n) _ hF0).1
  refine ⟨hfin, marchFree_done b cells ph _ _ hfin, ?_, segs_reverse b ph _ _ hF.segs, fun a => ?_, hF.outFaces⟩
  · rw [tauSum_reverse]; exact hF.tauAcc
  · rw [pathSum_reverse]; exact hF.onLine a

/-- **The packet stops inside the block exactly when its target optical depth is reached on
the line through the block.** -/
theorem stops_inside_iff (h : Hyp b cells ph inDir) :
    (interact b cells ph inDir).outDir = 0 ↔ ph.tau ≤ fullTau b cells ph inDir := by
  rw [outDir_zero_iff b cells ph inDir h]
  exact march_vs_free b cells ph h.valid _ _ _ (init_inv b cells ph inDir h.valid h.start)
    (init_tau b cells ph inDir h)

/-- **Exit geometry.**  A packet that leaves gets a classification `1..26`; reading the
classification the way `update_photon_position` does (`pinKind`: 1 = lower face, 2 = upper face,
0 = free), the final position lies on exactly the faces it names and is crossing them outwards;
on the axes it does not name the position is inside the block and is not on a face the packet
is travelling towards; the classification passes `is_compatible_output_direction`. -/
theorem exit_geometric (h : Hyp b cells ph inDir) (hout : (interact b cells ph inDir).outDir ≠ 0) :
    1 ≤ (interact b cells ph inDir).outDir ∧ (interact b cells ph inDir).outDir < 27 ∧
    (∀ a,
      (pinKind (interact b cells ph inDir).outDir.toNat a = 1 →
        (interact b cells ph inDir).last.pos.get a = 0 ∧ ph.dir.get a < 0) ∧
      (pinKind (interact b cells ph inDir).outDir.toNat a = 2 →
        (interact b cells ph inDir).last.pos.get a = top b a ∧ 0 < ph.dir.get a) ∧
      (pinKind (interact b cells ph inDir).outDir.toNat a = 0 →
        0 ≤ (interact b cells ph inDir).last.pos.get a ∧
        (interact b cells ph inDir).last.pos.get a ≤ top b a ∧
        (0 < ph.dir.get a → (interact b cells ph inDir).last.pos.get a < top b a) ∧
        (ph.dir.get a < 0 → 0 < (interact b cells ph inDir).last.pos.get a))) ∧
    compatOut (interact b cells ph inDir).outDir.toNat (sgnOf ph.dir.x) (sgnOf ph.dir.y) (sgnOf ph.dir.z)
      = true := by
  have hI := last_inv b cells ph inDir h
  have hnt : ¬ ph.tau ≤ (interact b cells ph inDir).last.tauDone :=
    fun ht => hout ((outDir_zero_iff b cells ph inDir h).mpr ht)
  have hnr : ¬ InRange b.n (interact b cells ph inDir).last.idx :=
    fun hr => last_done b cells ph inDir h ⟨not_le.mp hnt, hr⟩
  have hdir : (interact b cells ph inDir).outDir
      = outputDirection b.n (interact b cells ph inDir).last.idx := by
    show (if ph.tau ≤ (interact b cells ph inDir).last.tauDone then _ else _) = _
    rw [if_neg hnt]; rfl
  obtain ⟨hv1, hv2, hv3⟩ := outputDirection_valid b cells ph inDir h hnr
  have hstrict : Strict b ph (interact b cells ph inDir).last := by
    rcases hI.strict with hs | hs | hs
    · exact hs
    · exact absurd hs hnr
    · exact absurd hs hnt
  have hzone : ∀ (n : Nat) (i : Int), 0 < n →
      (zone n i = 1 → i < 0) ∧ (zone n i = 2 → (n : Int) ≤ i) ∧ (zone n i = 0 → 0 ≤ i ∧ i < (n : Int)) := by
    intro n i hn
    unfold zone
    refine ⟨fun hk => ?_, fun hk => ?_, fun hk => ?_⟩
    · split_ifs at hk <;> omega
    · split_ifs at hk <;> omega
    · split_ifs at hk <;> omega
  rw [hdir]
  refine ⟨hv1, hv2, fun a => ⟨fun hk => ?_, fun hk => ?_, fun hk => ?_⟩, ?_⟩
  · rw [hv3 a] at hk
    have := (hI.outFaces a).1 ((hzone _ _ (h.valid.n_pos a)).1 hk)
    exact ⟨this.2, this.1⟩
  · rw [hv3 a] at hk
    have := (hI.outFaces a).2 ((hzone _ _ (h.valid.n_pos a)).2.1 hk)
    exact ⟨this.2, this.1⟩
  · rw [hv3 a] at hk
    obtain ⟨h0, h1⟩ := (hzone _ _ (h.valid.n_pos a)).2.2 hk
    have hc := hI.inCell a
    have hcs := h.valid.cs_pos a
    have hs := hstrict a h0 h1
    have h0K : (0 : K) ≤ ((interact b cells ph inDir).last.idx.get a : K) := by exact_mod_cast h0
    have h1K : ((interact b cells ph inDir).last.idx.get a : K) + 1 ≤ (b.n.get a : K) := by
      have : (interact b cells ph inDir).last.idx.get a + 1 ≤ (b.n.get a : Int) := by omega
      exact_mod_cast this
    refine ⟨?_, ?_, hs.1, hs.2⟩
    · nlinarith [hc.1]
    · rw [top_eq]; nlinarith [hc.2]
  · -- compatibility with the direction, from the generated table
    have hsx : ∀ a, (zone (b.n.get a) ((interact b cells ph inDir).last.idx.get a) = 1 →
          sgnOf (ph.dir.get a) = 0) ∧
        (zone (b.n.get a) ((interact b cells ph inDir).last.idx.get a) = 2 →
          sgnOf (ph.dir.get a) = 2) := fun a =>
      ⟨fun hk => sgnOf_neg ((hI.outFaces a).1 ((hzone _ _ (h.valid.n_pos a)).1 hk)).1,
       fun hk => sgnOf_pos ((hI.outFaces a).2 ((hzone _ _ (h.valid.n_pos a)).2.1 hk)).1⟩
    unfold outputDirection
    rw [exitMask_eq b.n _ h.valid.n_pos (fun a => (hI.range a).1)]
    exact tables_compat_out ⟨_, zone_lt _ _⟩ ⟨_, zone_lt _ _⟩ ⟨_, zone_lt _ _⟩
      ⟨_, sgnOf_lt ph.dir.x⟩ ⟨_, sgnOf_lt ph.dir.y⟩ ⟨_, sgnOf_lt ph.dir.z⟩
      (hsx .x).1 (hsx .x).2 (hsx .y).1 (hsx .y).2 (hsx .z).1 (hsx .z).2

/-- corollary: a block without opacity on the line is always crossed -/
theorem transparent_block_is_crossed (h : Hyp b cells ph inDir) (h0 : ∀ c, kappa (cells c) ph = 0) :
    (interact b cells ph inDir).outDir ≠ 0 := by
  intro hz
  have := ((tau_account b cells ph inDir h).2 hz).1
  have hsum : ∀ l : List (Visit K), tauSum cells ph l = 0 := by
    intro l
    induction l with
    | nil => rfl
    | cons v rest ih => rw [tauSum_cons, ih, h0]; ring
  rw [hsum] at this
  exact absurd h.valid.tau_pos (by rw [← this]; exact lt_irrefl _)

/-! #### one pass through the loop body (the core the theorems above rest on) -/

/-- **One pass, packet leaves the cell**: the credited path is `≥ 0`; the new position is
`pos + path·d` and lies in the closed cell just traversed *and* in the closed cell named by the
new index; every index moves by at most one step and only in the direction of travel (the
potential `phi` = number of steps still possible drops by at least one); an index that leaves
the range sits exactly on the block face it crossed; `tau_done` grows by `κ·path`. -/
theorem one_pass_leave (hv : Valid b cells ph) (s : St K) (hr : InRange b.n s.idx) (hc : InCell b s) :
    0 ≤ (geo b cells ph s).lmin ∧
    (∀ a, (leave ph s (geo b cells ph s)).pos.get a = s.pos.get a + (geo b cells ph s).lmin * ph.dir.get a ∧
      (s.idx.get a : K) * b.cs.get a ≤ (leave ph s (geo b cells ph s)).pos.get a ∧
      (leave ph s (geo b cells ph s)).pos.get a ≤ ((s.idx.get a : K) + 1) * b.cs.get a) ∧
    InCell b (leave ph s (geo b cells ph s)) ∧ Range b (leave ph s (geo b cells ph s)) ∧
    OutFaces b ph (leave ph s (geo b cells ph s)) ∧ Strict b ph (leave ph s (geo b cells ph s)) ∧
    phi b ph (leave ph s (geo b cells ph s)) + 1 ≤ phi b ph s ∧
    (leave ph s (geo b cells ph s)).tauDone =
      s.tauDone + kappa (cells (oneIndex b.n s.idx).toNat) ph * (geo b cells ph s).lmin := by
  obtain ⟨h1, h2, h3, h4, h5⟩ := leave_spec b cells ph s hv hr hc
  refine ⟨(lmin_facts b cells ph s hv hr hc).1, fun a => ?_, h1, h2, h3, h4, h5, leave_tau b cells ph s⟩
  have := leave_axis b cells ph s hv hr hc a
  exact ⟨this.1, this.2.2.1, this.2.2.2⟩

/-- **One pass, target reached in this cell**: the corrected path `lmin·(1 − surplus/τ_cell)`
lies in `[0, lmin]`, deposits exactly the missing optical depth `τ_target − τ_done`, and the new
position `pos + path·d` stays in the closed cell; the index is unchanged. -/
theorem one_pass_stop (hv : Valid b cells ph) (s : St K) (hr : InRange b.n s.idx) (hc : InCell b s)
    (hrun : s.tauDone < ph.tau) (hreach : ph.tau ≤ (geo b cells ph s).td) :
    0 ≤ stopPath ph (geo b cells ph s) ∧ stopPath ph (geo b cells ph s) ≤ (geo b cells ph s).lmin ∧
    kappa (cells (oneIndex b.n s.idx).toNat) ph * stopPath ph (geo b cells ph s) = ph.tau - s.tauDone ∧
    (stop ph s (geo b cells ph s)).idx = s.idx ∧
    (∀ a, (stop ph s (geo b cells ph s)).pos.get a
        = s.pos.get a + stopPath ph (geo b cells ph s) * ph.dir.get a ∧
      (s.idx.get a : K) * b.cs.get a ≤ (stop ph s (geo b cells ph s)).pos.get a ∧
      (stop ph s (geo b cells ph s)).pos.get a ≤ ((s.idx.get a : K) + 1) * b.cs.get a) := by
  obtain ⟨h1, h2, h3⟩ := stop_facts b cells ph s hv hr hc hrun hreach
  refine ⟨h1, h2, h3, rfl, fun a => ?_⟩
  have := stop_axis b cells ph s hv hr hc hrun hreach a
  exact ⟨this.1, this.2.1, this.2.2⟩

/-! #### the code before the clamp in `get_{x,y,z}_index` (frozen negative example) -/

/-- A coordinate whose index is *computed from the position* and that lies on the upper block
boundary (`position·inv_cell_size ≥ n`): the OLD index rule (`return x * _inv_cell_size`) gave
the index `n`, outside the range, so the loop body never ran and the packet was returned at
once through the upper face whatever its direction (former finding
`march:start-on-upper-block-boundary`); the current rule (`std::min(…, n - 1)`) gives the last
cell, and all theorems above hold for such a start (`Start.owned` is `0 ≤ x ≤ extent`). -/
theorem old_code_upper_boundary_index_outside (hd : inDir < 27) (a : Ax)
    (hk : idxKind inDir a = 0)
    (hup : (b.n.get a : K) ≤ (ph.pos.get a - b.anchor.get a) * b.inv.get a) :
    startIdxAxisOld b inDir (pinPos b inDir (relPos b ph.pos)) a = (b.n.get a : Int) ∧
    startIdxAxis b inDir (pinPos b inDir (relPos b ph.pos)) a = (b.n.get a : Int) - 1 := by
  have ht := tables_entry_ax inDir hd a
  have hpk : pinKind inDir a = 0 := by rw [← ht.1]; exact hk
  have hrel : (pinPos b inDir (relPos b ph.pos)).get a = ph.pos.get a - b.anchor.get a := by
    simp only [pinPos, V3.get_of, pinAxis, hpk, relPos]
  constructor
  · unfold startIdxAxisOld; rw [hk]; simp only [hrel]; rw [floorUpTo_top _ _ hup]
  · unfold startIdxAxis; rw [hk]; simp only [hrel]; rw [floorUpTo_top _ _ hup]
    unfold clampIdx; rw [if_pos (by omega)]

end main
/-! ### non-vacuity: the hypotheses are satisfiable and both outcomes occur -/

def exBlock : Block ℚ := mkBlock ⟨0, 0, 0⟩ ⟨2, 1, 1⟩ ⟨2, 1, 1⟩
def exCells : Nat → Cell ℚ := fun _ => ⟨1, 1, 0⟩
def exPhoton (tau : ℚ) : Photon ℚ :=
  { pos := ⟨1 / 2, 1 / 2, 1 / 2⟩, dir := ⟨1, 0, 0⟩, tau := tau, sigH := 1, sigHe := 0, sigX := 1, w := 1,
    nu := 4000000000000000 }

theorem exHyp (tau : ℚ) (ht : 0 < tau) : Hyp exBlock exCells (exPhoton tau) 0 := by
  have hs : ∀ a, (0 : ℚ) < (⟨2, 1, 1⟩ : V3 ℚ).get a := fun a => by cases a <;> norm_num [V3.get]
  have hn : ∀ a, 0 < (⟨2, 1, 1⟩ : V3 Nat).get a := fun a => by cases a <;> norm_num [V3.get]
  obtain ⟨h1, h2, h3⟩ := mkBlock_ok (⟨0, 0, 0⟩ : V3 ℚ) ⟨2, 1, 1⟩ ⟨2, 1, 1⟩ hs hn
  have hcs : ∀ a, exBlock.cs.get a = 1 := fun a => by
    cases a <;> simp [exBlock, mkBlock, V3.of, V3.get, ofNat, lit0, lit1] <;> norm_num
  refine ⟨⟨h1, hn, ⟨.x, by simp [exPhoton, V3.get]⟩, fun a ha => ?_, fun c => ?_, ht⟩, ⟨by norm_num, h2, fun a _ => ?_⟩⟩
  · rw [hcs a]
    cases a <;> simp [exPhoton, V3.get] at ha ⊢
    unfold dblMax; norm_num
  · unfold kappa exCells exPhoton; norm_num
  · show 0 ≤ (exPhoton tau).pos.get a - exBlock.anchor.get a ∧ _ ≤ top exBlock a
    rw [show top exBlock a = (⟨2, 1, 1⟩ : V3 ℚ).get a from h3 a]
    cases a <;> simp [exPhoton, exBlock, mkBlock, V3.get] <;> norm_num

example : ∃ (b : Block ℚ) (cells : Nat → Cell ℚ) (ph : Photon ℚ) (d : Nat), Hyp b cells ph d :=
  ⟨exBlock, exCells, exPhoton 1, 0, exHyp 1 (by norm_num)⟩

/-- with target optical depth 1/4 the packet stops inside (after a path of 1/4 in cell 0) -/
theorem example_stops_inside : (interact exBlock exCells (exPhoton (1 / 4)) 0).outDir = 0 ∧
    ((interact exBlock exCells (exPhoton (1 / 4)) 0).visits.map (fun v => (v.cell, v.path))) = [(0, 1 / 4)] := by
  decide +kernel

/-- with target optical depth 10 it crosses both cells (paths 1/2 and 1) and leaves through the
upper x face (classification 21 = FACE_X_P) with 17/2 left -/
theorem example_leaves : (interact exBlock exCells (exPhoton 10) 0).outDir = 21 ∧
    ((interact exBlock exCells (exPhoton 10) 0).visits.map (fun v => (v.cell, v.path))) = [(0, 1 / 2), (1, 1)] ∧
    (interact exBlock exCells (exPhoton 10) 0).tauLeft = 17 / 2 := by
  decide +kernel

/-- non-vacuity of `exit_geometric` (its extra hypothesis "the packet leaves" is satisfiable
together with `Hyp`) and of `path_sum_is_distance` (unit direction) -/
example : Hyp exBlock exCells (exPhoton 10) 0 ∧ (interact exBlock exCells (exPhoton 10) 0).outDir ≠ 0 ∧
    (exPhoton 10).dir.x ^ 2 + (exPhoton 10).dir.y ^ 2 + (exPhoton 10).dir.z ^ 2 = 1 :=
  ⟨exHyp 10 (by norm_num), by rw [example_leaves.1]; decide, by norm_num [exPhoton]⟩

/-- a packet ON the upper x boundary of the block (entry INSIDE) -/
def exPhotonUpper (dx : ℚ) : Photon ℚ := { exPhoton 1 with pos := ⟨2, 1 / 2, 1 / 2⟩, dir := ⟨dx, 0, 0⟩ }

/-- the hypotheses hold for a start on the upper block boundary (closed block) -/
theorem exHypUpper (dx : ℚ) (hdx : dx = 1 ∨ dx = -1) : Hyp exBlock exCells (exPhotonUpper dx) 0 := by
  have hs : ∀ a, (0 : ℚ) < (⟨2, 1, 1⟩ : V3 ℚ).get a := fun a => by cases a <;> norm_num [V3.get]
  have hn : ∀ a, 0 < (⟨2, 1, 1⟩ : V3 Nat).get a := fun a => by cases a <;> norm_num [V3.get]
  obtain ⟨h1, h2, h3⟩ := mkBlock_ok (⟨0, 0, 0⟩ : V3 ℚ) ⟨2, 1, 1⟩ ⟨2, 1, 1⟩ hs hn
  have hcs : ∀ a, exBlock.cs.get a = 1 := fun a => by
    cases a <;> simp [exBlock, mkBlock, V3.of, V3.get, ofNat, lit0, lit1] <;> norm_num
  have hdx0 : dx ≠ 0 := by rcases hdx with h | h <;> rw [h] <;> norm_num
  have habs : |dx| = 1 := by rcases hdx with h | h <;> rw [h] <;> norm_num
  refine ⟨⟨h1, hn, ⟨.x, by simpa [exPhotonUpper, V3.get] using hdx0⟩, fun a ha => ?_, fun c => ?_, by norm_num [exPhotonUpper, exPhoton]⟩,
    ⟨by norm_num, h2, fun a _ => ?_⟩⟩
  · rw [hcs a]
    cases a <;> simp [exPhotonUpper, V3.get] at ha ⊢
    rw [habs]; unfold dblMax; norm_num
  · unfold kappa exCells exPhotonUpper exPhoton; norm_num
  · show 0 ≤ (exPhotonUpper dx).pos.get a - exBlock.anchor.get a ∧ _ ≤ top exBlock a
    rw [show top exBlock a = (⟨2, 1, 1⟩ : V3 ℚ).get a from h3 a]
    cases a <;> simp [exPhotonUpper, exBlock, mkBlock, V3.get] <;> norm_num

/-- on the upper x boundary and travelling INTO the block: the packet now traverses the last
cell (here it is absorbed after a path of 1 in cell 1) -/
theorem example_upper_boundary_inward :
    (interact exBlock exCells (exPhotonUpper (-1)) 0).outDir = 0 ∧
    ((interact exBlock exCells (exPhotonUpper (-1)) 0).visits.map (fun v => (v.cell, v.path))) = [(1, 1)] := by
  decide +kernel

/-- on the upper x boundary and travelling OUT of the block: it leaves at once through that face
(21 = FACE_X_P) with zero path and its optical depth untouched -/
theorem example_upper_boundary_outward :
    (interact exBlock exCells (exPhotonUpper 1) 0).outDir = 21 ∧
    ((interact exBlock exCells (exPhotonUpper 1) 0).visits.map (fun v => (v.cell, v.path))) = [(1, 0)] ∧
    (interact exBlock exCells (exPhotonUpper 1) 0).tauLeft = 1 := by
  decide +kernel

end CMacVerif.RayMarch
